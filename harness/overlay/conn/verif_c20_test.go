//go:build verif

// C20 harness (in-package: needs the unexported frame constants, nonces, recvBuffer and the
// packetiser internals).  Drives the real SecretConnection and MConnection code, writes the op
// traces for the model driver (in.txt), the implementation's observables (impl.txt) and the
// direct property oracles (oracle.txt).
//
// case kinds
//
//	SC  real MakeSecretConnection pair; after the handshake the harness is the wire: it
//	    collects the sealed frames of each Write, applies an edit script (keep, drop, dup,
//	    swap, flip, garbage, insert, replay, reflect, truncate, close) and hands the result
//	    to the reader; reads with random buffer sizes.  Single-threaded, deterministic.
//	SW  two goroutines Write concurrently on one SecretConnection.
//	HS  handshakes against honest and dishonest peers (ideal-signature projection).
//	TP  real p2p.MultiplexTransport dials / accepts against honest peers, impostor listeners and
//	    dishonest raw peers (external half: verif_c20x_test.go, package conn_test).
//	MD  packetiser stepped deterministically (trySendBytes / sendPacketMsg), packets fed to a
//	    real started MConnection.
//	MR  crafted packet streams (arbitrary interleavings, mutations) fed to a real MConnection.
//	MX  real MConnection pair over pipes with a recording tap, concurrent senders.
package conn

import (
	"bufio"
	"bytes"
	"crypto/ecdsa"
	"crypto/sha256"
	"encoding/binary"
	"encoding/hex"
	"encoding/json"
	"errors"
	"flag"
	"fmt"
	"io"
	"net"
	"os"
	"path/filepath"
	"sort"
	"strings"
	"sync"
	"testing"
	"time"

	"github.com/gtank/merlin"
	"golang.org/x/crypto/chacha20poly1305"

	"github.com/kardiachain/go-kardia/lib/crypto"
	"github.com/kardiachain/go-kardia/lib/log"
	"github.com/kardiachain/go-kardia/lib/protoio"
	"github.com/kardiachain/go-kardia/lib/timer"
	kp2p "github.com/kardiachain/go-kardia/proto/kardiachain/p2p"
)

// ---------------------------------------------------------------------------- flags / out / gen

var (
	c20Seed  = flag.Uint64("seed", 1, "PRNG seed")
	c20N     = flag.Int("n", 100, "number of generated cases")
	c20Dir   = flag.String("out", "", "output directory")
	c20Only  = flag.Int("only", -1, "only this case")
	c20Tier  = flag.String("tier", "quick", "quick|thorough")
	c20Facts = flag.String("facts", "", "write Generated/C20Facts.v and exit")
)

type c20Rand struct{ s uint64 }

func c20New(seed uint64) *c20Rand { return &c20Rand{s: seed*0x9E3779B97F4A7C15 + 0x1234567} }
func (r *c20Rand) Fork(i uint64) *c20Rand {
	return &c20Rand{s: r.s ^ (i+1)*0xBF58476D1CE4E5B9}
}
func (r *c20Rand) U64() uint64 {
	r.s += 0x9E3779B97F4A7C15
	z := r.s
	z = (z ^ (z >> 30)) * 0xBF58476D1CE4E5B9
	z = (z ^ (z >> 27)) * 0x94D049BB133111EB
	return z ^ (z >> 31)
}
func (r *c20Rand) Intn(n int) int {
	if n <= 0 {
		return 0
	}
	return int(r.U64() % uint64(n))
}
func (r *c20Rand) Chance(num, den int) bool { return r.Intn(den) < num }
func (r *c20Rand) Bytes(n int) []byte {
	b := make([]byte, n)
	for i := range b {
		b[i] = byte(r.U64())
	}
	return b
}

type c20Out struct {
	dir              string
	in, impl, orc    *bufio.Writer
	fin, fimpl, forc *os.File
	dist             map[string]int
	samples          []string
	cases, ops       int
	nontrivial       map[string]bool
	rule             string
	fails            int
	curCase          int
	curSample        []string
}

func c20Open(dir string) *c20Out {
	os.MkdirAll(dir, 0o755)
	o := &c20Out{dir: dir, dist: map[string]int{}, nontrivial: map[string]bool{}}
	o.fin, _ = os.Create(filepath.Join(dir, "in.txt"))
	o.fimpl, _ = os.Create(filepath.Join(dir, "impl.txt"))
	o.forc, _ = os.Create(filepath.Join(dir, "oracle.txt"))
	o.in, o.impl, o.orc = bufio.NewWriterSize(o.fin, 1<<20), bufio.NewWriterSize(o.fimpl, 1<<20), bufio.NewWriterSize(o.forc, 1<<16)
	return o
}
func (o *c20Out) sample(l string) {
	if len(o.curSample) < 30 {
		if len(l) > 160 {
			l = l[:160] + "..."
		}
		o.curSample = append(o.curSample, l)
	}
}
func (o *c20Out) flushSample() {
	if o.curSample != nil && len(o.samples) < 3 {
		o.samples = append(o.samples, strings.Join(o.curSample, "\n")+"\n")
	}
	o.curSample = nil
}
func (o *c20Out) Case(n int, header string) {
	o.flushSample()
	o.curCase = n
	o.cases++
	fmt.Fprintln(o.in, header)
	fmt.Fprintf(o.impl, "CASE %d\n", n)
	o.curSample = []string{header}
}
func (o *c20Out) Op(input, observed string) {
	o.ops++
	fmt.Fprintln(o.in, input)
	fmt.Fprintln(o.impl, observed)
	o.sample(input + "  =>  " + observed)
}
func (o *c20Out) InOnly(line string) { fmt.Fprintln(o.in, line); o.sample(line) }

// ObsOnly: an additional observable line produced by the preceding op (RX prints several)
func (o *c20Out) ObsOnly(line string) { fmt.Fprintln(o.impl, line); o.sample("  =>  " + line) }
func (o *c20Out) Fail(step int, class, detail string) {
	o.fails++
	fmt.Fprintf(o.orc, "FAIL case=%d step=%d class=%s %s\n", o.curCase, step, class, detail)
}
func (o *c20Out) Count(k string) { o.dist[k]++ }
func (o *c20Out) Mark(k string)  { o.nontrivial[k] = true }
func (o *c20Out) Close(seed uint64) {
	o.flushSample()
	o.in.Flush()
	o.impl.Flush()
	o.orc.Flush()
	o.fin.Close()
	o.fimpl.Close()
	o.forc.Close()
	st := map[string]interface{}{"cases": o.cases, "ops": o.ops, "distinct_nontrivial": len(o.nontrivial),
		"rule": o.rule, "dist": o.dist, "samples": o.samples, "oracle_failures": o.fails, "seed": seed}
	b, _ := json.MarshalIndent(st, "", " ")
	os.WriteFile(filepath.Join(o.dir, "stats.json"), b, 0o644)
}

func c20Min(a, b int) int {
	if a < b {
		return a
	}
	return b
}
func c20Max(a, b int) int {
	if a > b {
		return a
	}
	return b
}

func c20Digest(b []byte) string {
	h := sha256.Sum256(b)
	return hex.EncodeToString(h[:8])
}
func c20Hex(b []byte) string {
	if len(b) == 0 {
		return "-"
	}
	return hex.EncodeToString(b)
}

// ---------------------------------------------------------------------------- facts

type c20NullConn struct{ bytes.Buffer }

func (c *c20NullConn) Close() error                       { return nil }
func (c *c20NullConn) LocalAddr() net.Addr                { return nil }
func (c *c20NullConn) RemoteAddr() net.Addr               { return nil }
func (c *c20NullConn) SetDeadline(t time.Time) error      { return nil }
func (c *c20NullConn) SetReadDeadline(t time.Time) error  { return nil }
func (c *c20NullConn) SetWriteDeadline(t time.Time) error { return nil }

func c20WriteFacts(path string) {
	mc := NewMConnection(&c20NullConn{}, []*ChannelDescriptor{{ID: 1, Priority: 1}}, nil, nil)
	d := ChannelDescriptor{}.FillDefaults()
	body := "(* GENERATED from /repo's working tree by the harness (-facts); do not edit. *)\n" +
		"From Coq Require Import NArith.\n" +
		fmt.Sprintf("Definition data_len_size : nat := %d.\n", dataLenSize) +
		fmt.Sprintf("Definition data_max_size : nat := %d.\n", dataMaxSize) +
		fmt.Sprintf("Definition total_frame_size : nat := %d.\n", totalFrameSize) +
		fmt.Sprintf("Definition aead_size_overhead : nat := %d.\n", aeadSizeOverhead) +
		fmt.Sprintf("Definition aead_nonce_size : nat := %d.\n", aeadNonceSize) +
		fmt.Sprintf("Definition aead_key_size : nat := %d.\n", aeadKeySize) +
		fmt.Sprintf("Definition default_max_packet_msg_payload_size : nat := %d.\n", DefaulKAIConnConfig().MaxPacketMsgPayloadSize) +
		fmt.Sprintf("Definition num_batch_packet_msgs : nat := %d.\n", numBatchPacketMsgs) +
		fmt.Sprintf("Definition default_send_queue_capacity : N := %d%%N.\n", defaultSendQueueCapacity) +
		fmt.Sprintf("Definition default_recv_buffer_capacity : N := %d%%N.\n", d.RecvBufferCapacity) +
		fmt.Sprintf("Definition default_recv_message_capacity : N := %d%%N.\n", d.RecvMessageCapacity) +
		fmt.Sprintf("Definition max_packet_msg_size_default : N := %d%%N.\n", mc._maxPacketMsgSize)
	if err := os.WriteFile(path, []byte(body), 0o644); err != nil {
		fmt.Fprintln(os.Stderr, err)
		os.Exit(1)
	}
}

// ---------------------------------------------------------------------------- in-memory wire

var errC20WouldBlock = errors.New("verif: read would block")

type c20Queue struct {
	mu       sync.Mutex
	cond     *sync.Cond
	buf      []byte
	closed   bool
	nonblock bool
	consumed int
	blocked  int // number of reads that would have blocked in nonblock mode
}

func newC20Queue() *c20Queue {
	q := &c20Queue{}
	q.cond = sync.NewCond(&q.mu)
	return q
}
func (q *c20Queue) Write(p []byte) {
	q.mu.Lock()
	q.buf = append(q.buf, p...)
	q.mu.Unlock()
	q.cond.Broadcast()
}
func (q *c20Queue) Close() {
	q.mu.Lock()
	q.closed = true
	q.mu.Unlock()
	q.cond.Broadcast()
}
func (q *c20Queue) Len() int {
	q.mu.Lock()
	defer q.mu.Unlock()
	return len(q.buf)
}
func (q *c20Queue) Read(p []byte) (int, error) {
	q.mu.Lock()
	defer q.mu.Unlock()
	for len(q.buf) == 0 {
		if q.closed {
			return 0, io.EOF
		}
		if q.nonblock {
			q.blocked++
			return 0, errC20WouldBlock
		}
		q.cond.Wait()
	}
	n := copy(p, q.buf)
	q.buf = q.buf[n:]
	q.consumed += n
	return n, nil
}

// c20End is the io.ReadWriteCloser handed to MakeSecretConnection.
type c20End struct {
	inbound     *c20Queue
	peer        *c20End
	mu          sync.Mutex
	passthrough bool
	captured    []byte // bytes written while not in passthrough mode
	log         []byte // everything ever written
	// fault injection (data phase only): the failAt-th Write call from now on reports an error to
	// the caller although the bytes are on the wire (a write deadline that fires after the bytes
	// have left); what the network then does with the frame is the edit script's business
	failAt int
	failed int // number of injected failures so far
}

var errC20Injected = errors.New("verif: injected write error (i/o timeout)")

func (e *c20End) Write(p []byte) (int, error) {
	e.mu.Lock()
	e.log = append(e.log, p...)
	pt := e.passthrough
	if !pt {
		e.captured = append(e.captured, p...)
	}
	fail := false
	if !pt && e.failAt > 0 {
		e.failAt--
		if e.failAt == 0 {
			fail = true
			e.failed++
		}
	}
	e.mu.Unlock()
	if pt {
		e.peer.inbound.Write(p)
	}
	if fail {
		return 0, errC20Injected
	}
	return len(p), nil
}
func (e *c20End) Read(p []byte) (int, error) { return e.inbound.Read(p) }
func (e *c20End) Close() error               { e.inbound.Close(); return nil }

func newC20Ends() (*c20End, *c20End) {
	a := &c20End{inbound: newC20Queue(), passthrough: true}
	b := &c20End{inbound: newC20Queue(), passthrough: true}
	a.peer, b.peer = b, a
	return a, b
}

var c20Keys []*ecdsa.PrivateKey

func c20Key(i int) *ecdsa.PrivateKey { return c20Keys[i%len(c20Keys)] }
func c20KeyID(pub ecdsa.PublicKey) int {
	for i, k := range c20Keys {
		if k.PublicKey.X.Cmp(pub.X) == 0 && k.PublicKey.Y.Cmp(pub.Y) == 0 {
			return i + 1
		}
	}
	return 99
}

type c20HSResult struct {
	sc  *SecretConnection
	err error
}

// c20Timeout runs f and reports whether it finished in time.
func c20Timeout(d time.Duration, f func()) bool {
	done := make(chan struct{})
	go func() { defer close(done); f() }()
	select {
	case <-done:
		return true
	case <-time.After(d):
		return false
	}
}

// after a few hangs the remaining cases fail fast (a hang is an oracle failure, never a stuck check)
var c20Hangs int

// every wall-clock deadline of this harness is a safety net against a stuck implementation, far above
// anything a slow machine needs (the check runs under load averages of 40-60): a deadline that
// fires means "really stuck", never "slow"
const c20HSTimeout = 60 * time.Second
const c20Stuck = 60 * time.Second

func c20HonestPair(ka, kb *ecdsa.PrivateKey) (ea, eb *c20End, ra, rb c20HSResult, ok bool) {
	ea, eb = newC20Ends()
	if c20Hangs >= 3 {
		return
	}
	var wg sync.WaitGroup
	wg.Add(2)
	go func() { defer wg.Done(); ra.sc, ra.err = MakeSecretConnection(ea, ka) }()
	go func() { defer wg.Done(); rb.sc, rb.err = MakeSecretConnection(eb, kb) }()
	ok = c20Timeout(c20HSTimeout, wg.Wait)
	if !ok {
		c20Hangs++
		ea.Close()
		eb.Close()
	}
	return
}

func c20Ctr(nonce *[aeadNonceSize]byte) uint64 { return binary.LittleEndian.Uint64(nonce[4:]) }

func c20ErrClass(err error) string {
	switch {
	case err == nil:
		return "none"
	case err == io.EOF:
		return "eof"
	case err == io.ErrUnexpectedEOF:
		return "ueof"
	case strings.Contains(err.Error(), "failed to decrypt"):
		return "decrypt"
	case strings.Contains(err.Error(), "chunkLength is greater"):
		return "chunklen"
	case err == errC20WouldBlock:
		return "wouldblock"
	case err == errC20Injected:
		return "err"
	}
	return "other:" + strings.ReplaceAll(err.Error(), " ", "_")
}

// ---------------------------------------------------------------------------- SC cases

var c20Sizes = []int{0, 1, 2, dataMaxSize - 1, dataMaxSize, dataMaxSize + 1, 2*dataMaxSize - 1, 2 * dataMaxSize, 2*dataMaxSize + 1, 3 * dataMaxSize, 17, 300, 4*dataMaxSize + 5}
var c20Caps = []int{1, 2, 7, 100, dataMaxSize - 1, dataMaxSize, dataMaxSize + 1, 4096, 0, 500}

const c20Sealed = totalFrameSize + aeadSizeOverhead

type c20Direction struct {
	pending   [][]byte // sealed frames written, not yet forwarded
	hist      [][]byte // all genuine frames of this direction
	fwdInOrd  int      // number of genuine frames forwarded in order so far (while clean)
	appended  int      // bytes appended to the reader's inbound
	tamperOff int      // inbound offset of the first non-genuine content, -1 = none
	written   []byte   // plaintext written
	delivered []byte   // plaintext delivered
	errSeen   bool
	closed    bool
	nextCtr   uint64 // counter under which the next frame of this direction must be sealed
	nframes   int    // frames sealed so far in the data phase
	faultPos  int    // index in pending of the last frame whose write reported an injected error, -1 = none
}

func c20SCCase(o *c20Out, idx int, r *c20Rand) {
	ka, kb := c20Key(r.Intn(4)), c20Key(4+r.Intn(4))
	ea, eb, ra, rb, ok := c20HonestPair(ka, kb)
	o.Case(idx, fmt.Sprintf("CASE %d SC", idx))
	if !ok || ra.err != nil || rb.err != nil {
		o.Fail(0, "handshake-honest-failed", fmt.Sprintf("timeout=%v a=%v b=%v", !ok, ra.err, rb.err))
		return
	}
	scs := []*SecretConnection{ra.sc, rb.sc}
	ends := []*c20End{ea, eb}
	for _, e := range ends {
		e.mu.Lock()
		e.passthrough = false
		e.mu.Unlock()
		e.inbound.mu.Lock()
		e.inbound.nonblock = true
		e.inbound.consumed = 0 // offsets below count data-phase bytes only
		e.inbound.mu.Unlock()
	}
	if ea.inbound.Len() != 0 || eb.inbound.Len() != 0 || len(ra.sc.recvBuffer) != 0 || len(rb.sc.recvBuffer) != 0 {
		o.Fail(0, "handshake-leftover", "bytes left unread after the handshake")
	}
	o.InOnly(fmt.Sprintf("INIT %d %d %d %d", c20Ctr(ra.sc.sendNonce), c20Ctr(ra.sc.recvNonce), c20Ctr(rb.sc.sendNonce), c20Ctr(rb.sc.recvNonce)))
	if c20Ctr(ra.sc.sendNonce) != 1 || c20Ctr(rb.sc.recvNonce) != 1 || c20Ctr(rb.sc.sendNonce) != 1 || c20Ctr(ra.sc.recvNonce) != 1 {
		o.Fail(0, "handshake-nonce", "handshake did not use exactly one frame per direction")
	}
	// remote identity
	if c20KeyID(ra.sc.RemotePubKey()) != c20KeyID(kb.PublicKey) || c20KeyID(rb.sc.RemotePubKey()) != c20KeyID(ka.PublicKey) {
		o.Fail(0, "identity", "honest handshake: wrong remote public key")
	}
	dirs := []*c20Direction{{tamperOff: -1, faultPos: -1, nextCtr: c20Ctr(ra.sc.sendNonce)}, {tamperOff: -1, faultPos: -1, nextCtr: c20Ctr(rb.sc.sendNonce)}}
	step := 0
	overflow := r.Chance(1, 14)
	// write-fault family: some underlying conn.Write calls report an error (the frame is on the
	// wire all the same), the caller keeps writing, the man in the middle works on the frames
	// around the failed one
	faultCase := !overflow && r.Chance(1, 4)
	if faultCase {
		o.Count("sc:fault-family")
	}
	if overflow {
		// synthetic state: counters close to 2^64-1 (unreachable in practice; the code must panic
		// rather than reuse a nonce)
		w := r.Intn(2)
		v := ^uint64(0) - uint64(r.Intn(3))
		binary.LittleEndian.PutUint64(scs[w].sendNonce[4:], v)
		binary.LittleEndian.PutUint64(scs[1-w].recvNonce[4:], v)
		dirs[w].nextCtr = v
		o.InOnly(fmt.Sprintf("SETCTR %d s %d", w, v))
		o.InOnly(fmt.Sprintf("SETCTR %d r %d", 1-w, v))
		o.Count("sc:overflow-family")
	}
	tamperCase := r.Chance(1, 2)
	rounds := 1 + r.Intn(4)
	sig := ""
	for rd := 0; rd < rounds; rd++ {
		w := r.Intn(2)
		d := dirs[w]
		rdr := 1 - w
		// ---- writes
		nw := 1 + r.Intn(4)
		total := 0
		for i := 0; i < nw; i++ {
			var sz int
			if r.Chance(3, 4) {
				sz = c20Sizes[r.Intn(len(c20Sizes))]
			} else {
				sz = r.Intn(6 * dataMaxSize)
			}
			data := r.Bytes(sz)
			total += sz
			nchunks := (sz + dataMaxSize - 1) / dataMaxSize
			fault := -1 // index (within this Write) of the frame whose conn.Write fails
			if faultCase && nchunks > 0 && r.Chance(1, 2) {
				switch r.Intn(3) {
				case 0:
					fault = 0
				case 1:
					fault = nchunks - 1
				default:
					fault = r.Intn(nchunks)
				}
				ends[w].mu.Lock()
				ends[w].failAt = fault + 1
				ends[w].mu.Unlock()
			}
			var n int
			var err error
			panicked := false
			func() {
				defer func() {
					if x := recover(); x != nil {
						panicked = true
					}
				}()
				n, err = scs[w].Write(data)
			}()
			ends[w].mu.Lock()
			ends[w].failAt = 0
			ends[w].mu.Unlock()
			cls := c20ErrClass(err)
			if panicked {
				cls = "panic"
				// the panic happens before the frame is handed to the conn and before n is updated:
				// count what reached the wire
				n = (len(ends[w].captured) / c20Sealed) * dataMaxSize
				o.Count("sc:write-panic")
				o.Mark("sc:write-panic")
			}
			step++
			if fault >= 0 {
				o.Op(fmt.Sprintf("WF %d %s %d", w, c20Hex(data), fault), fmt.Sprintf("W n=%d %s", n, cls))
				o.Count(fmt.Sprintf("sc:write-fault:%s", map[bool]string{true: "last-frame", false: "inner-frame"}[fault == nchunks-1]))
			} else {
				o.Op(fmt.Sprintf("W %d %s", w, c20Hex(data)), fmt.Sprintf("W n=%d %s", n, cls))
			}
			o.Count(fmt.Sprintf("sc:write-size:%s", c20SizeClass(sz)))
			cap := ends[w].captured
			ends[w].captured = nil
			if len(cap)%c20Sealed != 0 {
				o.Fail(step, "frame-size", fmt.Sprintf("wrote %d bytes, not a multiple of %d", len(cap), c20Sealed))
			}
			nfr := 0
			for len(cap) >= c20Sealed {
				f := append([]byte(nil), cap[:c20Sealed]...)
				// direct oracle (nonce discipline): the i-th sealed frame of a direction is sealed under
				// counter c0+i - whatever happened to the underlying writes before it
				var nonce [aeadNonceSize]byte
				binary.LittleEndian.PutUint64(nonce[4:], d.nextCtr)
				if _, e := scs[1-w].recvAead.Open(nil, nonce[:], f, nil); e != nil {
					how := "skipped or out of sequence"
					if d.nextCtr > 0 {
						binary.LittleEndian.PutUint64(nonce[4:], d.nextCtr-1)
						if _, e2 := scs[1-w].recvAead.Open(nil, nonce[:], f, nil); e2 == nil {
							how = "sealed under the SAME nonce as the previous frame (nonce reuse)"
						}
					}
					o.Fail(step, "nonce-sequence", fmt.Sprintf("dir %d: data frame #%d is not sealed under counter %d: %s", w, d.nframes, d.nextCtr, how))
				}
				d.nextCtr++
				d.nframes++
				d.pending = append(d.pending, f)
				d.hist = append(d.hist, f)
				cap = cap[c20Sealed:]
				nfr++
			}
			switch {
			case panicked:
				d.written = append(d.written, data[:c20Min(len(data), nfr*dataMaxSize)]...)
			case fault >= 0:
				// the failing frame and those before it are on the wire, nothing after it; the caller
				// is told how many bytes went out before the failing frame
				if err == nil {
					o.Fail(step, "write-error-swallowed", fmt.Sprintf("the underlying conn.Write of frame %d failed, Write(%d bytes) = %d, nil", fault, len(data), n))
				}
				if n != fault*dataMaxSize {
					o.Fail(step, "write-count", fmt.Sprintf("Write(%d bytes) with a failure at frame %d returned n=%d, want %d", len(data), fault, n, fault*dataMaxSize))
				}
				if nfr != fault+1 {
					o.Fail(step, "frame-count", fmt.Sprintf("%d frames handed to the conn by a Write that failed at frame %d", nfr, fault))
				}
				d.written = append(d.written, data[:c20Min(len(data), nfr*dataMaxSize)]...)
				d.faultPos = len(d.pending) - 1
				o.Mark(fmt.Sprintf("sc:fault:%d/%d", fault, nchunks))
			default:
				if n != len(data) || err != nil {
					o.Fail(step, "write-short", fmt.Sprintf("Write(%d bytes) = %d, %v", len(data), n, err))
				}
				if nfr != (len(data)+dataMaxSize-1)/dataMaxSize {
					o.Fail(step, "frame-count", fmt.Sprintf("%d bytes -> %d frames", len(data), nfr))
				}
				d.written = append(d.written, data...)
			}
		}
		// ---- forward with an edit script
		var toks []string
		last := rd == rounds-1 || r.Chance(1, 5)
		if d.faultPos >= len(d.pending) {
			d.faultPos = -1
		}
		if d.faultPos >= 0 && r.Chance(2, 3) {
			// the man in the middle works around the frame whose write was reported as failed
			for i := 0; i < d.faultPos; i++ {
				toks = append(toks, "K")
			}
			switch r.Intn(8) {
			case 0, 1:
				toks = append(toks, "K", "D") // the failed frame arrives, the next one is removed
			case 2:
				toks = append(toks, "D") // the failed frame is lost
			case 3:
				toks = append(toks, fmt.Sprintf("T:%d", 1+r.Intn(c20Sealed-1))) // only part of it left
			case 4:
				toks = append(toks, "K", "S")
			case 5:
				toks = append(toks, "K", "K", "D")
			case 6:
				toks = append(toks, "U")
			case 7:
				toks = append(toks, "K") // nothing else happens
			}
			if r.Chance(3, 4) {
				toks = append(toks, "A")
			}
			d.faultPos = -1
			o.Count("sc:fault-script")
		} else if tamperCase && len(d.pending) > 0 && r.Chance(2, 3) {
			pos := r.Intn(len(d.pending))
			for i := 0; i < pos; i++ {
				toks = append(toks, "K")
			}
			nt := 1 + r.Intn(2)
			for i := 0; i < nt; i++ {
				toks = append(toks, c20TamperToken(r, d, dirs[rdr], pos))
			}
			if r.Chance(3, 4) {
				toks = append(toks, "A")
			}
		} else if r.Chance(1, 6) && len(d.pending) > 1 {
			// hold some frames back for a later round
			k := r.Intn(len(d.pending))
			for i := 0; i < k; i++ {
				toks = append(toks, "K")
			}
		} else {
			toks = append(toks, "A")
		}
		if last && r.Chance(1, 2) && !d.closed {
			toks = append(toks, "C")
		}
		if d.closed {
			toks = nil // nothing arrives on a closed stream
		}
		for i, t := range toks {
			if t == "C" {
				toks = toks[:i+1]
				break
			}
		}
		added := c20Forward(o, d, dirs[rdr], ends[rdr].inbound, toks, scs[w])
		d.faultPos = -1
		step++
		o.Op(fmt.Sprintf("F %d %s", w, strings.Join(toks, " ")), fmt.Sprintf("F %d", added))
		sig += strings.Join(toks, "")
		// ---- reads on the other side
		small := total <= 300
		maxReads := 60
		for k := 0; k < maxReads; k++ {
			sc := scs[rdr]
			q := ends[rdr].inbound
			q.mu.Lock()
			avail, closed, consumed := len(q.buf), q.closed, q.consumed
			q.mu.Unlock()
			bufEmpty := len(sc.recvBuffer) == 0
			if bufEmpty && avail < c20Sealed && !closed {
				break
			}
			var cp int
			if small && r.Chance(1, 2) {
				cp = 1 + r.Intn(16)
			} else {
				cp = c20Caps[r.Intn(len(c20Caps))]
				if cp <= 7 && !small && r.Chance(3, 4) {
					cp = 200 + r.Intn(3000)
				}
			}
			buf := make([]byte, cp)
			var n int
			var err error
			panicked := false
			func() {
				defer func() {
					if x := recover(); x != nil {
						panicked = true
					}
				}()
				n, err = sc.Read(buf)
			}()
			cls := c20ErrClass(err)
			if panicked {
				cls = "panic"
				n = 0
				if !overflow {
					o.Fail(step, "panic", "SecretConnection.Read panicked")
				}
			}
			step++
			o.Op(fmt.Sprintf("R %d %d", rdr, cp), fmt.Sprintf("R n=%d d=%s %s", n, c20Digest(buf[:n]), cls))
			o.Count("sc:read:" + cls)
			if cls == "wouldblock" || strings.HasPrefix(cls, "other:") {
				o.Fail(step, "hang", "Read would block / unexpected error "+cls)
			}
			// oracles
			d.delivered = append(d.delivered, buf[:n]...)
			if len(d.delivered) > len(d.written) || !bytes.Equal(d.delivered, d.written[:len(d.delivered)]) {
				o.Fail(step, "stream-altered", fmt.Sprintf("dir %d: delivered bytes are not a prefix of the written bytes (delivered %d, written %d)", w, len(d.delivered), len(d.written)))
			}
			if bufEmpty && !overflow {
				atTamper := d.tamperOff >= 0 && consumed >= d.tamperOff
				if atTamper && consumed == d.tamperOff && err == nil {
					o.Fail(step, "tamper-undetected", fmt.Sprintf("dir %d: read at the first affected frame (offset %d) returned no error; script %s", w, consumed, sig))
				}
				if !atTamper && err != nil {
					o.Fail(step, "spurious-error", fmt.Sprintf("dir %d: read of a genuine in-order frame failed: %v", w, err))
				}
				if atTamper && consumed == d.tamperOff && err != nil {
					o.Count("sc:tamper-detected")
					if !d.errSeen {
						// everything before the affected frame has been delivered, nothing else
						d.errSeen = true
					}
				}
			}
			if err != nil {
				q.mu.Lock()
				rest, cl := len(q.buf), q.closed
				q.mu.Unlock()
				if cl && rest < c20Sealed && (err == io.EOF || r.Chance(1, 2)) {
					break
				}
				if !cl && rest < c20Sealed {
					break
				}
			}
		}
	}
	// end state
	obs := func(sc *SecretConnection) string {
		return fmt.Sprintf("%d/%d/%d", c20Ctr(sc.sendNonce), c20Ctr(sc.recvNonce), len(sc.recvBuffer))
	}
	o.Op("E", fmt.Sprintf("E a=%s b=%s", obs(scs[0]), obs(scs[1])))
	for w, d := range dirs {
		// nothing lost on an untampered, fully forwarded and fully read direction
		q := ends[1-w].inbound
		if d.tamperOff < 0 && len(d.pending) == 0 && q.Len() == 0 && len(scs[1-w].recvBuffer) == 0 && !overflow {
			if !bytes.Equal(d.delivered, d.written) {
				o.Fail(step, "stream-lost", fmt.Sprintf("dir %d: written %d bytes, delivered %d", w, len(d.written), len(d.delivered)))
			}
		}
		if q.blocked > 0 {
			o.Fail(step, "hang", "a Read would have blocked")
		}
	}
	if tamperCase {
		o.Count("sc:tamper-case")
	} else {
		o.Count("sc:clean-case")
	}
	o.Mark("sc:" + c20Shorten(sig))
}

func c20Shorten(s string) string {
	if len(s) > 40 {
		return s[:40]
	}
	return s
}

func c20SizeClass(sz int) string {
	switch {
	case sz == 0:
		return "0"
	case sz < dataMaxSize-1:
		return "<max-1"
	case sz <= dataMaxSize+1:
		return fmt.Sprintf("max%+d", sz-dataMaxSize)
	case sz%dataMaxSize == 0:
		return "k*max"
	}
	return "multi"
}

func c20TamperToken(r *c20Rand, d, other *c20Direction, pos int) string {
	for {
		switch r.Intn(14) {
		case 11, 12, 13:
			return fmt.Sprintf("L:%d", []int{dataMaxSize + 1, dataMaxSize + 2, 2 * dataMaxSize, 1 << 20, 1<<32 - 1, dataMaxSize + 1 + r.Intn(3000)}[r.Intn(6)])
		case 0:
			return "D"
		case 1:
			return "U"
		case 2:
			return "S"
		case 3:
			return fmt.Sprintf("X:%d:%d", r.Intn(c20Sealed), 1+r.Intn(255))
		case 4:
			return fmt.Sprintf("G:%d", r.Intn(1000))
		case 5:
			return fmt.Sprintf("I:%d", r.Intn(1000))
		case 6:
			if d.fwdInOrd+pos > 0 {
				return fmt.Sprintf("P:%d", r.Intn(d.fwdInOrd+pos))
			}
		case 7:
			if len(other.hist) > 0 {
				return fmt.Sprintf("Q:%d", r.Intn(len(other.hist)))
			}
		case 8:
			return fmt.Sprintf("T:%d", 1+r.Intn(c20Sealed-1))
		case 9:
			// flip in the authentication tag / first byte / last byte
			p := []int{0, c20Sealed - 1, c20Sealed - aeadSizeOverhead, c20Sealed - aeadSizeOverhead - 1, 3, 4}[r.Intn(6)]
			return fmt.Sprintf("X:%d:%d", p, 1<<uint(r.Intn(8)))
		case 10:
			return "C"
		}
	}
}

// c20Forward applies the edit script to the pending frames of direction d and appends the result
// to the reader's inbound queue.  Same semantics as sc_forward in ocaml/C20/driver.ml.
func c20Forward(o *c20Out, d, other *c20Direction, q *c20Queue, toks []string, wsc *SecretConnection) int {
	added := 0
	put := func(f []byte) { q.Write(f); added += len(f); d.appended += len(f) }
	pop := func() []byte {
		if len(d.pending) == 0 {
			return nil
		}
		f := d.pending[0]
		d.pending = d.pending[1:]
		return f
	}
	tamper := func() {
		if d.tamperOff < 0 {
			d.tamperOff = d.appended
		}
	}
	keep := func() {
		if f := pop(); f != nil {
			put(f)
			if d.tamperOff < 0 {
				d.fwdInOrd++
			}
		}
	}
	for _, tok := range toks {
		p := strings.Split(tok, ":")
		arg := func(i int) int { var v int; fmt.Sscanf(p[i], "%d", &v); return v }
		o.Count("sc:edit:" + p[0])
		switch p[0] {
		case "K":
			keep()
		case "A":
			for len(d.pending) > 0 {
				keep()
			}
		case "D":
			if pop() != nil {
				tamper()
			}
		case "U":
			if f := pop(); f != nil {
				put(f)
				if d.tamperOff < 0 {
					d.fwdInOrd++
				}
				tamper()
				put(f)
			}
		case "S":
			if len(d.pending) >= 2 {
				f, g := d.pending[0], d.pending[1]
				d.pending = d.pending[2:]
				tamper()
				put(g)
				put(f)
			} else {
				keep()
			}
		case "X":
			if f := pop(); f != nil {
				g := append([]byte(nil), f...)
				g[arg(1)%len(g)] ^= byte(arg(2))
				tamper()
				put(g)
			}
		case "G":
			pop()
			tamper()
			put(c20Garbage(arg(1)))
		case "I":
			tamper()
			put(c20Garbage(arg(1)))
		case "P":
			if i := arg(1); i < len(d.hist) {
				tamper()
				put(d.hist[i])
			}
		case "Q":
			if i := arg(1); i < len(other.hist) {
				tamper()
				put(other.hist[i])
			}
		case "T":
			if f := pop(); f != nil {
				tamper()
				put(f[:arg(1)])
			}
		case "L":
			// a malicious *authenticated* peer: a correctly sealed frame (writer's key and current
			// nonce) whose length field exceeds dataMaxSize
			if c20Ctr(wsc.sendNonce) == ^uint64(0) {
				break // no nonce left
			}
			frame := make([]byte, totalFrameSize)
			binary.LittleEndian.PutUint32(frame, uint32(arg(1)))
			sealed := wsc.sendAead.Seal(nil, wsc.sendNonce[:], frame, nil)
			incrNonce(wsc.sendNonce)
			d.nextCtr++
			tamper()
			put(sealed)
		case "C":
			tamper()
			d.closed = true
			q.Close()
		}
	}
	return added
}

func c20Garbage(seed int) []byte {
	b := make([]byte, c20Sealed)
	for i := range b {
		b[i] = byte((seed*31 + i*7 + (i*i)%251) & 255)
	}
	return b
}

// ---------------------------------------------------------------------------- SW: concurrent writers

func c20SWPayload(writer, seq, sz int) []byte {
	if sz < 5 {
		sz = 5
	}
	b := make([]byte, sz)
	b[0] = byte(writer)
	binary.LittleEndian.PutUint16(b[1:], uint16(seq))
	binary.LittleEndian.PutUint16(b[3:], uint16(sz))
	for i := 5; i < sz; i++ {
		b[i] = byte(writer*131 + seq*17 + i)
	}
	return b
}

func c20SWCase(o *c20Out, idx int, r *c20Rand) {
	ea, eb, ra, rb, ok := c20HonestPair(c20Key(r.Intn(4)), c20Key(4+r.Intn(4)))
	o.Case(idx, fmt.Sprintf("CASE %d SW", idx))
	if !ok || ra.err != nil || rb.err != nil {
		o.Fail(0, "handshake-honest-failed", fmt.Sprintf("timeout=%v a=%v b=%v", !ok, ra.err, rb.err))
		return
	}
	ea.passthrough, eb.passthrough = false, false
	eb.inbound.nonblock = true
	o.InOnly(fmt.Sprintf("INIT %d %d %d %d", c20Ctr(ra.sc.sendNonce), c20Ctr(ra.sc.recvNonce), c20Ctr(rb.sc.sendNonce), c20Ctr(rb.sc.recvNonce)))
	nwr := 2 + r.Intn(2)
	plans := make([][]int, nwr)
	for w := range plans {
		k := 2 + r.Intn(6)
		for i := 0; i < k; i++ {
			sz := 5 + r.Intn(3*dataMaxSize)
			if r.Chance(1, 3) {
				sz = []int{dataMaxSize - 1, dataMaxSize, dataMaxSize + 1, 2 * dataMaxSize, 5}[r.Intn(5)]
			}
			plans[w] = append(plans[w], sz)
		}
	}
	var wg sync.WaitGroup
	bad := make([]string, nwr)
	for w := range plans {
		wg.Add(1)
		go func(w int) {
			defer wg.Done()
			for seq, sz := range plans[w] {
				p := c20SWPayload(w, seq, sz)
				n, err := ra.sc.Write(p)
				if n != len(p) || err != nil {
					bad[w] = fmt.Sprintf("Write(%d)=%d,%v", len(p), n, err)
				}
			}
		}(w)
	}
	if !c20Timeout(c20Stuck, wg.Wait) {
		o.Fail(0, "hang", "concurrent writers did not finish")
		return
	}
	for _, b := range bad {
		if b != "" {
			o.Fail(0, "write-short", b)
		}
	}
	wire := ea.captured
	eb.inbound.Write(wire)
	eb.inbound.Close()
	// read everything
	var got []byte
	type rd struct {
		cp, n int
		dg    string
		cls   string
	}
	var reads []rd
	for k := 0; k < 100000; k++ {
		cp := c20Caps[r.Intn(len(c20Caps))]
		if cp <= 7 {
			cp = 300 + r.Intn(2000)
		}
		buf := make([]byte, cp)
		n, err := rb.sc.Read(buf)
		reads = append(reads, rd{cp, n, c20Digest(buf[:n]), c20ErrClass(err)})
		got = append(got, buf[:n]...)
		if err != nil {
			if err != io.EOF {
				o.Fail(k, "spurious-error", "read of untampered stream: "+err.Error())
			}
			break
		}
	}
	// oracle: the delivered stream is a sequence of whole writes, per-writer order preserved
	next := make([]int, nwr)
	var order [][2]int
	p := got
	okParse := true
	for len(p) > 0 {
		if len(p) < 5 {
			okParse = false
			break
		}
		w, seq, sz := int(p[0]), int(binary.LittleEndian.Uint16(p[1:])), int(binary.LittleEndian.Uint16(p[3:]))
		if w >= nwr || seq != next[w] || seq >= len(plans[w]) || sz != c20Max(plans[w][seq], 5) || len(p) < sz || !bytes.Equal(p[:sz], c20SWPayload(w, seq, sz)) {
			okParse = false
			break
		}
		next[w]++
		order = append(order, [2]int{w, seq})
		p = p[sz:]
	}
	if !okParse {
		o.Fail(0, "concurrent-write-interleaved", "delivered stream is not a sequence of whole Write payloads in per-writer order")
		return
	}
	for w := range plans {
		if next[w] != len(plans[w]) {
			o.Fail(0, "stream-lost", fmt.Sprintf("writer %d: %d of %d writes delivered", w, next[w], len(plans[w])))
		}
	}
	// model replay with the observed linearisation
	for _, ws := range order {
		pl := c20SWPayload(ws[0], ws[1], plans[ws[0]][ws[1]])
		o.Op(fmt.Sprintf("W 0 %s", c20Hex(pl)), fmt.Sprintf("W n=%d none", len(pl)))
	}
	o.Op("F 0 A C", fmt.Sprintf("F %d", len(wire)))
	for _, x := range reads {
		o.Op(fmt.Sprintf("R 1 %d", x.cp), fmt.Sprintf("R n=%d d=%s %s", x.n, x.dg, x.cls))
	}
	o.Count("sw:case")
	o.Count(fmt.Sprintf("sw:writers:%d", nwr))
	o.Mark(fmt.Sprintf("sw:%v", order))
}

// ---------------------------------------------------------------------------- HS: handshake

type c20EvilOpts struct {
	claim     ecdsa.PublicKey
	sigFor    func(challenge [32]byte) []byte
	noAuth    bool   // close instead of sending the auth message
	rawFrame  []byte // send these bytes instead of a sealed auth message
	gotRemSig []byte
	gotRemKey ecdsa.PublicKey
	challenge [32]byte
	ephPub    *[32]byte         // sent instead of a fresh ephemeral public key (low-order points)
	sc        *SecretConnection // the evil end's view of the connection once the auth messages are exchanged
}

// c20EvilHandshake follows MakeSecretConnection but lets the caller choose the claimed key and
// the signature, and does not verify anything.
func c20EvilHandshake(conn io.ReadWriteCloser, op *c20EvilOpts) error {
	locEphPub, locEphPriv := genEphKeys()
	if op.ephPub != nil {
		locEphPub = op.ephPub
	}
	remEphPub, err := shareEphPubKey(conn, locEphPub)
	if err != nil {
		return err
	}
	loEphPub, hiEphPub := sort32(locEphPub, remEphPub)
	transcript := merlin.NewTranscript("TENDERMINT_SECRET_CONNECTION_TRANSCRIPT_HASH")
	transcript.AppendMessage(labelEphemeralLowerPublicKey, loEphPub[:])
	transcript.AppendMessage(labelEphemeralUpperPublicKey, hiEphPub[:])
	locIsLeast := bytes.Equal(locEphPub[:], loEphPub[:])
	dhSecret, err := computeDHSecret(remEphPub, locEphPriv)
	if err != nil {
		return err
	}
	if op.ephPub != nil {
		// a low-order point sent as ephemeral key: whoever accepts it ends up with the all-zero
		// shared secret, which the attacker therefore knows
		dhSecret = new([32]byte)
	}
	transcript.AppendMessage(labelDHSecret, dhSecret[:])
	recvSecret, sendSecret := deriveSecrets(dhSecret, locIsLeast)
	copy(op.challenge[:], transcript.ExtractBytes(labelSecretConnectionMac, 32))
	sendAead, _ := chacha20poly1305.New(sendSecret[:])
	recvAead, _ := chacha20poly1305.New(recvSecret[:])
	sc := &SecretConnection{conn: conn, recvNonce: new([aeadNonceSize]byte), sendNonce: new([aeadNonceSize]byte), recvAead: recvAead, sendAead: sendAead}
	if op.noAuth {
		conn.Close()
		if e, ok := conn.(*c20End); ok {
			e.peer.inbound.Close()
		}
		return nil
	}
	if op.rawFrame != nil {
		conn.Write(op.rawFrame)
		return nil
	}
	msg, err := shareAuthSignature(sc, op.claim, op.sigFor(op.challenge))
	if err != nil {
		return err
	}
	op.gotRemKey, op.gotRemSig = msg.Key, msg.Sig
	op.sc = sc
	return nil
}

func c20Sign(k *ecdsa.PrivateKey, ch [32]byte) []byte {
	s, err := crypto.Sign(ch[:], k)
	if err != nil {
		panic(err)
	}
	return s
}

var c20Session = 100

// the low-order points of Curve25519 (X25519 maps them to the all-zero shared secret)
var c20LowOrder = func() [][]byte {
	var out [][]byte
	for _, h := range []string{
		"0000000000000000000000000000000000000000000000000000000000000000",
		"0100000000000000000000000000000000000000000000000000000000000000",
		"e0eb7a7c3b41b8ae1656e3faf19fc46ada098deb9c32b1fd866205165f49b800",
		"5f9c95bca3508c24b1d0b1559c83ef5b04445cc4581c8e86d8224eddd09f1157",
		"ecffffffffffffffffffffffffffffffffffffffffffffffffffffffffffff7f",
		"edffffffffffffffffffffffffffffffffffffffffffffffffffffffffffff7f",
		"eeffffffffffffffffffffffffffffffffffffffffffffffffffffffffffff7f",
	} {
		b, _ := hex.DecodeString(h)
		out = append(out, b)
	}
	return out
}()

// c20VictimVsEvil runs a real MakeSecretConnection (victim key kv) against the evil peer.
func c20VictimVsEvil(kv *ecdsa.PrivateKey, op *c20EvilOpts) (res c20HSResult, evilErr error, ok bool) {
	ev, ee := newC20Ends()
	if c20Hangs >= 3 {
		return
	}
	var wg sync.WaitGroup
	wg.Add(2)
	go func() {
		defer wg.Done()
		res.sc, res.err = MakeSecretConnection(ev, kv)
		if res.err != nil {
			// a victim that gives up closes the connection
			ee.inbound.Close()
		}
	}()
	go func() {
		defer wg.Done()
		evilErr = c20EvilHandshake(ee, op)
		if evilErr != nil {
			// an evil peer that gives up closes the connection
			ev.inbound.Close()
		}
	}()
	ok = c20Timeout(c20HSTimeout, wg.Wait)
	if !ok {
		c20Hangs++
		ev.Close()
		ee.Close()
	}
	return
}

func c20HSCase(o *c20Out, idx int, r *c20Rand) {
	o.Case(idx, fmt.Sprintf("CASE %d HS", idx))
	scen := r.Intn(11)
	vi, ei, wi := r.Intn(3), 3+r.Intn(3), 6+r.Intn(2) // V = impersonated identity, E = evil, W = victim
	kv, ke, kw := c20Key(vi), c20Key(ei), c20Key(wi)
	V, E, W := vi+1, ei+1, wi+1
	c20Session++
	sid := c20Session
	obsOf := func(res c20HSResult) string {
		if res.err != nil || res.sc == nil {
			return "H fail"
		}
		return fmt.Sprintf("H ok %d", c20KeyID(res.sc.RemotePubKey()))
	}
	// direct oracle: success only as an identity whose key signed this session's challenge
	check := func(step int, res c20HSResult, claimed, signer, signedSession int, valid bool) {
		succeeded := res.err == nil && res.sc != nil
		legit := valid && claimed == signer && signedSession == sid
		if succeeded && !legit {
			o.Fail(step, "identity", fmt.Sprintf("handshake succeeded as identity %d although the challenge of this session was not signed by that key (signer %d, session %d/%d, valid sig %v)", claimed, signer, signedSession, sid, valid))
		}
		if succeeded && c20KeyID(res.sc.RemotePubKey()) != claimed {
			o.Fail(step, "identity", "RemotePubKey differs from the authenticated key")
		}
		if !succeeded && legit {
			o.Fail(step, "handshake-honest-failed", fmt.Sprintf("legitimate handshake failed: %v", res.err))
		}
	}
	switch scen {
	case 0, 8: // honest - honest
		_, _, ra, rb, ok := c20HonestPair(kv, kw)
		if !ok {
			o.Fail(0, "hang", "honest handshake timed out")
			return
		}
		o.Op(fmt.Sprintf("H %d %d %d %d", sid, W, W, sid), obsOf(ra))
		o.Op(fmt.Sprintf("H %d %d %d %d", sid, V, V, sid), obsOf(rb))
		check(1, ra, W, W, sid, true)
		check(2, rb, V, V, sid, true)
		o.Count("hs:honest")
	case 1: // claims V's key, signs with its own
		op := &c20EvilOpts{claim: kv.PublicKey, sigFor: func(ch [32]byte) []byte { return c20Sign(ke, ch) }}
		res, _, ok := c20VictimVsEvil(kw, op)
		if !ok {
			o.Fail(0, "hang", "handshake timed out")
			return
		}
		o.Op(fmt.Sprintf("H %d %d %d %d", sid, V, E, sid), obsOf(res))
		check(1, res, V, E, sid, true)
		o.Count("hs:wrong-key")
	case 2: // evil as itself: legitimate (the caller must compare the identity with the expected one)
		op := &c20EvilOpts{claim: ke.PublicKey, sigFor: func(ch [32]byte) []byte { return c20Sign(ke, ch) }}
		res, _, ok := c20VictimVsEvil(kw, op)
		if !ok {
			o.Fail(0, "hang", "handshake timed out")
			return
		}
		o.Op(fmt.Sprintf("H %d %d %d %d", sid, E, E, sid), obsOf(res))
		check(1, res, E, E, sid, true)
		o.Count("hs:self")
	case 3: // signature of V captured in an older session, replayed in a new one
		op1 := &c20EvilOpts{claim: ke.PublicKey, sigFor: func(ch [32]byte) []byte { return c20Sign(ke, ch) }}
		res1, _, ok := c20VictimVsEvil(kv, op1) // V talks to E (legitimately) and reveals its signature over ch1
		if !ok || res1.err != nil || op1.gotRemSig == nil {
			o.Fail(0, "handshake-honest-failed", fmt.Sprintf("setup session failed: %v", res1.err))
			return
		}
		old := sid
		c20Session++
		sid = c20Session
		captured := op1.gotRemSig
		op2 := &c20EvilOpts{claim: kv.PublicKey, sigFor: func(ch [32]byte) []byte { return captured }}
		res, _, ok := c20VictimVsEvil(kw, op2)
		if !ok {
			o.Fail(0, "hang", "handshake timed out")
			return
		}
		o.Op(fmt.Sprintf("H %d %d %d %d", sid, V, V, old), obsOf(res))
		check(1, res, V, V, old, true)
		o.Count("hs:replayed-signature")
	case 4: // garbage / malformed signature
		ln := []int{65, 65, 0, 64, 66, 1}[r.Intn(6)]
		g := r.Bytes(ln)
		if ln == 65 {
			g[64] = byte(r.Intn(2))
		}
		op := &c20EvilOpts{claim: kv.PublicKey, sigFor: func(ch [32]byte) []byte { return g }}
		res, _, ok := c20VictimVsEvil(kw, op)
		if !ok {
			o.Fail(0, "hang", "handshake timed out")
			return
		}
		o.Op(fmt.Sprintf("H %d %d 0 0", sid, V), obsOf(res))
		check(1, res, V, 0, 0, false)
		o.Count(fmt.Sprintf("hs:garbage-sig:%d", ln))
	case 5: // sealed auth frame recorded in an older honest session, replayed
		ea, _, ra, rb, ok := c20HonestPair(kv, kw)
		if !ok || ra.err != nil || rb.err != nil || len(ea.log) < c20Sealed {
			o.Fail(0, "handshake-honest-failed", "setup session failed")
			return
		}
		frame := append([]byte(nil), ea.log[len(ea.log)-c20Sealed:]...)
		c20Session++
		sid = c20Session
		op := &c20EvilOpts{rawFrame: frame}
		res, _, ok := c20VictimVsEvil(kw, op)
		if !ok {
			o.Fail(0, "hang", "handshake timed out")
			return
		}
		// the frame does not open under the new session keys: no signature is ever seen
		o.Op(fmt.Sprintf("H %d %d 0 0", sid, V), obsOf(res))
		check(1, res, V, 0, 0, false)
		if res.err != nil && !strings.Contains(res.err.Error(), "decrypt") {
			o.Count("hs:replayed-frame:other-error")
		}
		o.Count("hs:replayed-frame")
	case 6: // man in the middle with its own key on both sides
		opV := &c20EvilOpts{claim: ke.PublicKey, sigFor: func(ch [32]byte) []byte { return c20Sign(ke, ch) }}
		resV, _, ok1 := c20VictimVsEvil(kv, opV)
		opW := &c20EvilOpts{claim: ke.PublicKey, sigFor: func(ch [32]byte) []byte { return c20Sign(ke, ch) }}
		resW, _, ok2 := c20VictimVsEvil(kw, opW)
		if !ok1 || !ok2 {
			o.Fail(0, "hang", "handshake timed out")
			return
		}
		o.Op(fmt.Sprintf("H %d %d %d %d", sid, E, E, sid), obsOf(resV))
		o.Op(fmt.Sprintf("H %d %d %d %d", sid, E, E, sid), obsOf(resW))
		check(1, resV, E, E, sid, true)
		check(2, resW, E, E, sid, true)
		if resV.sc != nil && c20KeyID(resV.sc.RemotePubKey()) == W || resW.sc != nil && c20KeyID(resW.sc.RemotePubKey()) == V {
			o.Fail(2, "identity", "man in the middle was taken for the far end")
		}
		o.Count("hs:mitm")
	case 7: // no auth message at all
		op := &c20EvilOpts{noAuth: true}
		res, _, ok := c20VictimVsEvil(kw, op)
		if !ok {
			o.Fail(0, "hang", "handshake timed out")
			return
		}
		o.Op(fmt.Sprintf("H %d %d 0 0", sid, V), obsOf(res))
		check(1, res, V, 0, 0, false)
		o.Count("hs:absent")
	case 9, 10: // low-order ephemeral public key: the shared secret would be known to everybody
		pt := c20LowOrder[r.Intn(len(c20LowOrder))]
		var eph [32]byte
		copy(eph[:], pt)
		// the rest of the evil peer's handshake is as good as it can be (own key, own signature)
		op := &c20EvilOpts{ephPub: &eph, claim: ke.PublicKey, sigFor: func(ch [32]byte) []byte { return c20Sign(ke, ch) }}
		res, _, ok := c20VictimVsEvil(kw, op)
		if !ok {
			o.Fail(0, "hang", "handshake timed out")
			return
		}
		o.Op(fmt.Sprintf("H %d %d 0 0", sid, E), obsOf(res))
		if res.err == nil && res.sc != nil {
			o.Fail(1, "low-order-ephemeral", fmt.Sprintf("handshake completed although the peer's ephemeral key %x is a low-order point (all-zero shared secret)", pt))
		}
		o.Count("hs:low-order-ephemeral")
	}
	o.Mark(fmt.Sprintf("hs:%d", scen))
}

// ---------------------------------------------------------------------------- MConnection cases

type c20Desc struct {
	id               byte
	prio             int
	sendcap, recvcap int
}

func c20Descs(r *c20Rand) []c20Desc {
	n := 1 + r.Intn(4)
	used := map[byte]bool{}
	var ds []c20Desc
	for len(ds) < n {
		id := byte(r.Intn(0x100))
		if r.Chance(1, 3) {
			id = []byte{0x00, 0x20, 0x21, 0x22, 0x23, 0x30, 0x38, 0x40, 0x7f, 0x01, 0x80, 0xff}[r.Intn(12)]
		}
		if used[id] {
			continue
		}
		used[id] = true
		rc := []int{1, 10, 100, 1000, 1024, 1025, 3000, 5000, 20000, defaultRecvMessageCapacity}[r.Intn(10)]
		ds = append(ds, c20Desc{id: id, prio: 1 + r.Intn(10), sendcap: 1 + r.Intn(6), recvcap: rc})
	}
	return ds
}

func c20ChDescs(ds []c20Desc) []*ChannelDescriptor {
	var out []*ChannelDescriptor
	for _, d := range ds {
		out = append(out, &ChannelDescriptor{ID: d.id, Priority: d.prio, SendQueueCapacity: d.sendcap, RecvMessageCapacity: d.recvcap})
	}
	return out
}

func c20Cfg(maxp int) MConnConfig {
	cfg := DefaulKAIConnConfig()
	cfg.SendRate, cfg.RecvRate = 1<<40, 1<<40
	cfg.FlushThrottle = time.Millisecond
	cfg.MaxPacketMsgPayloadSize = maxp
	return cfg
}

func c20MaxP(r *c20Rand) int {
	if r.Chance(2, 3) {
		return defaultMaxPacketMsgPayloadSize
	}
	return []int{1, 10, 100, 127, 128, 1000, 2048}[r.Intn(7)]
}

// message sizes around the packet size and around the channel's receive capacity
func c20MsgSize(r *c20Rand, maxp, recvcap int, allowOver bool, allowEmpty bool) int {
	for {
		var sz int
		switch r.Intn(8) {
		case 0:
			sz = 1 + r.Intn(20)
		case 1:
			sz = maxp + r.Intn(3) - 1
		case 2:
			sz = 2*maxp + r.Intn(3) - 1
		case 3:
			sz = r.Intn(5*maxp + 2)
		case 4:
			sz = recvcap - r.Intn(2)
		case 5:
			if allowOver {
				sz = recvcap + 1 + r.Intn(3)
			} else {
				sz = recvcap
			}
		case 6:
			sz = 3 * maxp
		case 7:
			sz = 0
		}
		if sz > 40000 {
			sz = 1 + r.Intn(40000)
		}
		if sz > 150*maxp {
			// keep the number of packets per message moderate
			sz = 1 + r.Intn(150*maxp)
		}
		if sz < 0 {
			sz = 0
		}
		if sz == 0 && !allowEmpty {
			continue
		}
		if sz > recvcap && !allowOver {
			continue
		}
		return sz
	}
}

type c20Recv struct {
	mu     sync.Mutex
	events [][2]interface{} // (chID byte, msg []byte)
	errCh  chan interface{}
}

func c20MErrClass(e interface{}) string {
	if e == nil {
		return "none"
	}
	s := fmt.Sprint(e)
	switch {
	case s == "EOF":
		return "eof"
	case strings.Contains(s, "exceeds max size"):
		return "toobig"
	case strings.Contains(s, "unknown channel"):
		return "unknown"
	case strings.Contains(s, "exceeds available capacity"):
		return "capacity"
	}
	return "other:" + strings.ReplaceAll(s, " ", "_")
}

func c20StartReceiver(conn net.Conn, ds []c20Desc, maxp int) (*MConnection, *c20Recv) {
	rc := &c20Recv{errCh: make(chan interface{}, 4)}
	b := NewMConnectionWithConfig(conn, c20ChDescs(ds), func(ch byte, m []byte) {
		rc.mu.Lock()
		rc.events = append(rc.events, [2]interface{}{ch, append([]byte(nil), m...)})
		rc.mu.Unlock()
	}, func(e interface{}) {
		select {
		case rc.errCh <- e:
		default:
		}
	}, c20Cfg(maxp))
	b.SetLogger(log.New())
	b.Start()
	return b, rc
}

// c20StreamConn is the net.Conn given to the receiving MConnection in the MD/MR cases: reads
// deliver the prepared byte stream and then io.EOF; writes (pongs) always succeed and are
// discarded, so the receiver always ends in its recvRoutine after processing every packet.
type c20StreamConn struct {
	q *c20Queue
}

func (c *c20StreamConn) Read(p []byte) (int, error)         { return c.q.Read(p) }
func (c *c20StreamConn) Write(p []byte) (int, error)        { return len(p), nil }
func (c *c20StreamConn) Close() error                       { c.q.Close(); return nil }
func (c *c20StreamConn) LocalAddr() net.Addr                { return nil }
func (c *c20StreamConn) RemoteAddr() net.Addr               { return nil }
func (c *c20StreamConn) SetDeadline(t time.Time) error      { return nil }
func (c *c20StreamConn) SetReadDeadline(t time.Time) error  { return nil }
func (c *c20StreamConn) SetWriteDeadline(t time.Time) error { return nil }

// c20FeedReceiver hands the raw stream to a real started MConnection and reports deliveries and the error.
func c20FeedReceiver(o *c20Out, ds []c20Desc, maxp int, stream []byte, pings bool) (events [][2]interface{}, cls string) {
	if c20Hangs >= 3 {
		o.Fail(0, "hang", "skipped after repeated hangs")
		return nil, "hang"
	}
	sc := &c20StreamConn{q: newC20Queue()}
	sc.q.Write(stream)
	sc.q.Close() // EOF after the stream
	b, rc := c20StartReceiver(sc, ds, maxp)
	select {
	case e := <-rc.errCh:
		cls = c20MErrClass(e)
	case <-time.After(c20Stuck):
		cls = "hang"
		c20Hangs++
		o.Fail(0, "hang", "receiver neither delivered the end of stream nor reported an error")
	}
	b.Stop()
	rc.mu.Lock()
	events = rc.events
	rc.mu.Unlock()
	return
}

// c20EncodePacketBody is the protobuf encoding of the wrapped packet without the length prefix
func c20EncodePacketBody(p *kp2p.PacketMsg) []byte {
	bz, err := mustWrapPacket(p).Marshal()
	if err != nil {
		panic(err)
	}
	return bz
}

// c20PacketLimit is the size limit the receiving MConnection gives its protoio reader
func c20PacketLimit(maxp int) int {
	mc := NewMConnectionWithConfig(&c20NullConn{}, []*ChannelDescriptor{{ID: 1, Priority: 1}}, nil, nil, c20Cfg(maxp))
	return mc._maxPacketMsgSize
}

func c20EncodePacket(p *kp2p.PacketMsg) []byte {
	var buf bytes.Buffer
	protoio.NewDelimitedWriter(&buf).WriteMsg(mustWrapPacket(p))
	return buf.Bytes()
}

// per-channel exactly-once / in-order / oversize oracles
func c20CheckDeliveries(o *c20Out, ds []c20Desc, sent map[byte][][]byte, events [][2]interface{}, cls string, complete bool, family string) {
	c20CheckDeliveriesQ(o, ds, sent, events, cls, complete, family, nil)
}

// c20EmptyDropped reports whether got equals sent with some zero-length messages removed, and
// the index (in sent) of the first removed one.
func c20EmptyDropped(sent, got [][]byte, needAll bool) (bool, int) {
	first := -1
	j := 0
	for i, m := range sent {
		if j == len(got) && !needAll {
			break
		}
		if j < len(got) && bytes.Equal(m, got[j]) {
			j++
			continue
		}
		if len(m) == 0 {
			if first < 0 {
				first = i
			}
			continue
		}
		return false, -1
	}
	return j == len(got) && first >= 0, first
}

func c20CheckDeliveriesQ(o *c20Out, ds []c20Desc, sent map[byte][][]byte, events [][2]interface{}, cls string, complete bool, family string, qsize map[byte]int) {
	got := map[byte][][]byte{}
	for _, e := range events {
		got[e[0].(byte)] = append(got[e[0].(byte)], e[1].([]byte))
	}
	fail := func(class, detail string) { o.Fail(0, class, detail) }
	for _, d := range ds {
		s, g := sent[d.id], got[d.id]
		if family == "empty-msg-lost" && complete {
			// known finding: the only tolerated discrepancy is zero-length messages missing (when the
			// receiver stopped on an error, the deliveries are a prefix of such a sequence)
			if ok, first := c20EmptyDropped(s, g, cls == "eof"); ok {
				how := "stuck in ch.sending for ever (nothing was queued after it)"
				if first < len(s)-1 {
					how = "overwritten by the next queued message"
				}
				o.Count("finding:empty-msg-lost")
				o.Fail(0, "empty-msg-lost", fmt.Sprintf("channel %x of %d channels: zero-length message #%d queued while another channel had data pending was never delivered: %s; sendQueueSize stayed %d after all queues were drained", d.id, len(ds), first, how, qsize[d.id]))
				continue
			}
		}
		for i, m := range g {
			if i >= len(s) {
				fail("msg-dup", fmt.Sprintf("channel %x: %d messages delivered, %d sent", d.id, len(g), len(s)))
				break
			}
			if !bytes.Equal(m, s[i]) {
				fail("msg-altered", fmt.Sprintf("channel %x: delivery %d (len %d) differs from message %d sent (len %d)", d.id, i, len(m), i, len(s[i])))
				break
			}
			if len(m) > d.recvcap {
				fail("oversize-delivered", fmt.Sprintf("channel %x: message of %d bytes delivered, capacity %d", d.id, len(m), d.recvcap))
			}
		}
		if complete && cls == "eof" && len(g) < len(s) {
			fail("msg-lost", fmt.Sprintf("channel %x: %d sent, %d delivered, no error (first missing has length %d)", d.id, len(s), len(g), len(s[len(g)])))
		}
		over := false
		for _, m := range s {
			if len(m) > d.recvcap {
				over = true
			}
		}
		if complete && over && cls == "eof" {
			fail("oversize-no-error", fmt.Sprintf("channel %x: oversize message sent, receiver reported no error", d.id))
		}
	}
	for id := range got {
		known := false
		for _, d := range ds {
			known = known || d.id == id
		}
		if !known {
			fail("msg-unknown-channel", fmt.Sprintf("delivery on unconfigured channel %x", id))
		}
	}
	if complete && cls != "eof" {
		anyOver := false
		hi := false
		for _, d := range ds {
			hi = hi || d.id >= 0x80
			for _, m := range sent[d.id] {
				anyOver = anyOver || len(m) > d.recvcap
			}
		}
		if !anyOver {
			class := "spurious-error"
			if cls == "toobig" && hi {
				class = "highid-maxsize"
			}
			fail(class, "receiver failed with "+cls+" on an honest packet stream without oversize messages")
		}
	}
}

func c20EmitDescs(o *c20Out, ds []c20Desc, maxp int) {
	o.InOnly(fmt.Sprintf("MAXP %d", maxp))
	for _, d := range ds {
		o.InOnly(fmt.Sprintf("CH %d %d %d %d", d.id, d.prio, d.sendcap, d.recvcap))
	}
}

func c20EmitRX(o *c20Out, events [][2]interface{}, cls string) {
	fmt.Fprintln(o.in, "RX")
	o.ops++
	for _, e := range events {
		m := e[1].([]byte)
		o.ObsOnly(fmt.Sprintf("D ch=%d len=%d d=%s", e[0].(byte), len(m), c20Digest(m)))
	}
	o.ObsOnly("X " + cls)
}

// MD: deterministic stepping of the packetiser
func c20MDCase(o *c20Out, idx int, r *c20Rand) {
	family := ""
	maxp := c20MaxP(r)
	ds := c20Descs(r)
	// zero-length messages: strictly checked on a single channel; with several channels they hit
	// the known finding empty-msg-lost (dedicated family)
	empty := len(ds) == 1
	if len(ds) > 1 && r.Chance(1, 8) {
		family, empty = "empty-msg-lost", true
	}
	o.Case(idx, fmt.Sprintf("CASE %d MD", idx))
	c20EmitDescs(o, ds, maxp)
	capc := &c20NullConn{}
	a := NewMConnectionWithConfig(capc, c20ChDescs(ds), func(byte, []byte) {}, func(interface{}) {}, c20Cfg(maxp))
	a.SetLogger(log.New())
	a.flushTimer = timer.NewThrottleTimer("flush", time.Hour)
	defer a.flushTimer.Stop()
	sent := map[byte][][]byte{}
	var stream []byte
	allowOver := r.Chance(1, 4)
	nops := 4 + r.Intn(30)
	step := 0
	doP := func() bool {
		var exhausted bool
		panicked := false
		func() {
			defer func() {
				if x := recover(); x != nil {
					panicked = true
				}
			}()
			exhausted = a.sendPacketMsg()
		}()
		a.bufConnWriter.Flush()
		raw := append([]byte(nil), capc.Bytes()...)
		capc.Reset()
		step++
		if panicked {
			o.Op("P", "P PANIC")
			o.Fail(step, "panic", "sendPacketMsg panicked")
			return true
		}
		if len(raw) == 0 {
			o.Op("P", fmt.Sprintf("P exhausted=%s", map[bool]string{true: "1", false: "0"}[exhausted]))
			return true
		}
		var pkt kp2p.Packet
		if err := protoio.NewDelimitedReader(bytes.NewReader(raw), 1<<24).ReadMsg(&pkt); err != nil || pkt.GetPacketMsg() == nil {
			o.Op("P", "P unparsable")
			o.Fail(step, "packet-encoding", "sendPacketMsg wrote bytes that do not parse as one PacketMsg")
			return true
		}
		pm := pkt.GetPacketMsg()
		o.Op("P", fmt.Sprintf("P ch=%d eof=%s len=%d d=%s wire=%d", pm.ChannelID, map[bool]string{true: "1", false: "0"}[pm.EOF], len(pm.Data), c20Digest(pm.Data), len(raw)))
		if len(pm.Data) > maxp {
			o.Fail(step, "packet-payload", fmt.Sprintf("payload %d > max %d", len(pm.Data), maxp))
		}
		stream = append(stream, raw...)
		return false
	}
	for i := 0; i < nops; i++ {
		switch r.Intn(5) {
		case 0, 1, 2:
			ci := r.Intn(len(ds))
			d := ds[ci]
			sz := c20MsgSize(r, maxp, d.recvcap, allowOver, empty)
			if d.id >= 0x80 && r.Chance(1, 3) && maxp <= d.recvcap {
				// full final packet on a two-byte channel id (class highid-maxsize, repaired by 061bd4b)
				sz = maxp * (1 + r.Intn(3))
				if sz > d.recvcap {
					sz = maxp
				}
				o.Count("md:highid-full-packet")
			}
			msg := r.Bytes(sz)
			ok := a.channelsIdx[d.id].trySendBytes(msg)
			step++
			o.Op(fmt.Sprintf("S %d %s", ci, c20Hex(msg)), fmt.Sprintf("S %s", map[bool]string{true: "ok", false: "full"}[ok]))
			if ok {
				sent[d.id] = append(sent[d.id], msg)
			}
			o.Count("md:msg:" + c20MsgClass(sz, maxp, d.recvcap))
		case 3:
			doP()
		case 4:
			ci := r.Intn(len(ds))
			ch := a.channelsIdx[ds[ci].id]
			step++
			o.Op(fmt.Sprintf("Q %d", ci), fmt.Sprintf("Q qsize=%d cansend=%s", ch.loadSendQueueSize(), map[bool]string{true: "1", false: "0"}[ch.canSend()]))
		}
	}
	for k := 0; k < 20000; k++ {
		if doP() {
			break
		}
	}
	// every queue must be drained now
	for ci, d := range ds {
		ch := a.channelsIdx[d.id]
		step++
		o.Op(fmt.Sprintf("Q %d", ci), fmt.Sprintf("Q qsize=%d cansend=%s", ch.loadSendQueueSize(), map[bool]string{true: "1", false: "0"}[ch.canSend()]))
		if ch.loadSendQueueSize() != 0 {
			if family == "empty-msg-lost" {
				// reported together with the missing delivery below
				o.Count("finding:empty-msg-lost:queue-size-leak")
			} else {
				o.Fail(step, "queue-size-leak", fmt.Sprintf("channel %x: sendQueueSize %d after the queues were drained", d.id, ch.loadSendQueueSize()))
			}
		}
	}
	events, cls := c20FeedReceiver(o, ds, maxp, stream, false)
	c20EmitRX(o, events, cls)
	qs := map[byte]int{}
	for _, d := range ds {
		qs[d.id] = a.channelsIdx[d.id].loadSendQueueSize()
	}
	c20CheckDeliveriesQ(o, ds, sent, events, cls, true, family, qs)
	o.Count("md:case")
	o.Count("md:end:" + cls)
	if family != "" {
		o.Count("md:family:" + family)
	}
	o.Mark(fmt.Sprintf("md:%d:%d:%s:%d", len(ds), maxp, cls, len(events)))
}

func c20MsgClass(sz, maxp, rc int) string {
	switch {
	case sz == 0:
		return "empty"
	case sz > rc:
		return "oversize"
	case sz == rc:
		return "at-capacity"
	case sz < maxp:
		return "one-packet"
	case sz%maxp == 0:
		return "k*maxp"
	}
	return "multi-packet"
}

// MR: crafted packet streams
func c20MRCase(o *c20Out, idx int, r *c20Rand) {
	maxp := c20MaxP(r)
	ds := c20Descs(r)
	o.Case(idx, fmt.Sprintf("CASE %d MR", idx))
	c20EmitDescs(o, ds, maxp)
	sent := map[byte][][]byte{}
	// per channel packet lists
	type pk struct {
		ch   int32
		eof  bool
		data []byte
	}
	per := make([][]pk, len(ds))
	allowOver := r.Chance(1, 4)
	mutate := r.Chance(1, 3)
	for ci, d := range ds {
		nm := r.Intn(5)
		for i := 0; i < nm; i++ {
			msg := r.Bytes(c20MsgSize(r, maxp, d.recvcap, allowOver, true))
			sent[d.id] = append(sent[d.id], msg)
			rest := msg
			for {
				if len(rest) <= maxp {
					per[ci] = append(per[ci], pk{int32(d.id), true, rest})
					break
				}
				per[ci] = append(per[ci], pk{int32(d.id), false, rest[:maxp]})
				rest = rest[maxp:]
			}
		}
	}
	// random interleaving preserving per-channel order
	var stream []pk
	pos := make([]int, len(ds))
	for {
		var live []int
		for ci := range ds {
			if pos[ci] < len(per[ci]) {
				live = append(live, ci)
			}
		}
		if len(live) == 0 {
			break
		}
		ci := live[r.Intn(len(live))]
		burst := 1 + r.Intn(3)
		for b := 0; b < burst && pos[ci] < len(per[ci]); b++ {
			stream = append(stream, per[ci][pos[ci]])
			pos[ci]++
		}
	}
	mut := "none"
	if mutate && len(stream) > 0 {
		i := r.Intn(len(stream))
		switch r.Intn(9) {
		case 7, 8: // encoded packet size at the receiver's protoio limit: limit-1, limit, limit+1, limit+2
			limit := c20PacketLimit(maxp)
			target := limit + r.Intn(4) - 1
			ln := c20Max(0, maxp+target-limit)
			for k := 0; k < 6; k++ {
				sz := len(c20EncodePacketBody(&kp2p.PacketMsg{ChannelID: stream[i].ch, EOF: stream[i].eof, Data: make([]byte, ln)}))
				if sz == target {
					break
				}
				ln = c20Max(0, ln+target-sz)
			}
			stream[i].data = r.Bytes(ln)
			sz := len(c20EncodePacketBody(&kp2p.PacketMsg{ChannelID: stream[i].ch, EOF: stream[i].eof, Data: stream[i].data}))
			mut = fmt.Sprintf("size-limit%+d", sz-limit)
		case 0: // EOF flag cleared
			stream[i].eof = false
			mut = "eof-cleared"
		case 1: // EOF flag set early
			stream[i].eof = true
			mut = "eof-set"
		case 2: // unknown channel
			stream[i].ch = 0x7e
			for _, d := range ds {
				if d.id == 0x7e {
					stream[i].ch = 0x7d
				}
			}
			mut = "unknown-channel"
		case 3: // channel id outside byte range: byte(ChannelID) aliases a configured channel
			stream[i].ch += 256 * int32(1+r.Intn(3))
			mut = "aliased-channel"
		case 4: // payload larger than the negotiated maximum
			stream[i].data = r.Bytes(maxp + 1 + r.Intn(40))
			mut = "payload-over-max"
		case 5: // negative channel id
			stream[i].ch = stream[i].ch - 256
			mut = "negative-channel"
		case 6: // duplicated packet
			stream = append(stream[:i+1], stream[i:]...)
			mut = "dup-packet"
		}
	}
	var raw []byte
	pings := false
	for _, p := range stream {
		if r.Chance(1, 25) {
			pings = true
			o.InOnly("KPING")
			var b bytes.Buffer
			protoio.NewDelimitedWriter(&b).WriteMsg(mustWrapPacket(&kp2p.PacketPing{}))
			raw = append(raw, b.Bytes()...)
		}
		if r.Chance(1, 40) {
			o.InOnly("KPONG")
			var b bytes.Buffer
			protoio.NewDelimitedWriter(&b).WriteMsg(mustWrapPacket(&kp2p.PacketPong{}))
			raw = append(raw, b.Bytes()...)
		}
		o.InOnly(fmt.Sprintf("K %d %s %s", p.ch, map[bool]string{true: "1", false: "0"}[p.eof], c20Hex(p.data)))
		raw = append(raw, c20EncodePacket(&kp2p.PacketMsg{ChannelID: p.ch, EOF: p.eof, Data: p.data})...)
	}
	if r.Chance(1, 8) {
		// the stream ends with a length prefix the receiver must refuse before allocating anything:
		// just above the limit, around 2^31/2^32, and the values that are negative as a Go int
		limit := uint64(c20PacketLimit(maxp))
		big := []uint64{limit + 1, limit + 2, 1 << 31, 1<<32 - 1, 1 << 32, 1<<63 - 1, 1 << 63, 1<<63 + 1, ^uint64(0)}[r.Intn(9)]
		var vb [binary.MaxVarintLen64]byte
		raw = append(raw, vb[:binary.PutUvarint(vb[:], big)]...)
		raw = append(raw, 0x1a, 0x00, 0x00)
		o.InOnly(fmt.Sprintf("KBIG %d", big))
		if mut == "none" {
			mut = "declared-length"
		} else {
			mut += "+declared-length"
		}
		o.Count("mr:declared-length")
	}
	events, cls := c20FeedReceiver(o, ds, maxp, raw, pings)
	c20EmitRX(o, events, cls)
	if mut == "none" {
		c20CheckDeliveries(o, ds, sent, events, cls, true, "")
	} else if mut == "declared-length" {
		// an honest stream followed by a refused length prefix: everything before it is delivered,
		// then the receiver stops with the size error (never a panic, a hang or a silent end)
		anyOver := false
		for _, d := range ds {
			for _, m := range sent[d.id] {
				anyOver = anyOver || len(m) > d.recvcap
			}
		}
		eff := cls
		if cls == "toobig" {
			eff = "eof"
		} else if !anyOver {
			o.Fail(0, "declared-length-not-refused", "receiver ended with "+cls+" on a length prefix above its limit")
		}
		c20CheckDeliveries(o, ds, sent, events, eff, true, "")
	} else {
		// mutated stream: whatever is delivered must still never exceed a channel's capacity
		for _, e := range events {
			for _, d := range ds {
				if d.id == e[0].(byte) && len(e[1].([]byte)) > d.recvcap {
					o.Fail(0, "oversize-delivered", fmt.Sprintf("channel %x: %d bytes delivered, capacity %d (mutation %s)", d.id, len(e[1].([]byte)), d.recvcap, mut))
				}
			}
		}
	}
	o.Count("mr:case")
	o.Count("mr:mutation:" + mut)
	o.Count("mr:end:" + cls)
	o.Mark(fmt.Sprintf("mr:%d:%d:%s:%s:%d", len(ds), maxp, mut, cls, len(events)))
}

// MX: real pair, concurrent senders, recording tap
func c20MXCase(o *c20Out, idx int, r *c20Rand) {
	maxp := c20MaxP(r)
	ds := c20Descs(r)
	o.Case(idx, fmt.Sprintf("CASE %d MX", idx))
	c20EmitDescs(o, ds, maxp)
	if c20Hangs >= 3 {
		o.Fail(0, "hang", "skipped after repeated hangs")
		return
	}
	allowOver := r.Chance(1, 5)
	plans := make([][][]byte, len(ds))
	for ci, d := range ds {
		nm := 1 + r.Intn(6)
		for i := 0; i < nm; i++ {
			plans[ci] = append(plans[ci], r.Bytes(c20MsgSize(r, maxp, d.recvcap, allowOver, len(ds) == 1)))
		}
	}
	a1, a2 := net.Pipe()
	b1, b2 := net.Pipe()
	var tapMu sync.Mutex
	var tapped []byte
	go func() { // a -> b
		buf := make([]byte, 65536)
		for {
			n, err := a2.Read(buf)
			if n > 0 {
				tapMu.Lock()
				tapped = append(tapped, buf[:n]...)
				tapMu.Unlock()
				if _, werr := b2.Write(buf[:n]); werr != nil {
					a2.Close()
					return
				}
			}
			if err != nil {
				b2.Close()
				return
			}
		}
	}()
	go func() { io.Copy(a2, b2); a2.Close() }() // b -> a
	aErr := make(chan interface{}, 2)
	a := NewMConnectionWithConfig(a1, c20ChDescs(ds), func(byte, []byte) {}, func(e interface{}) {
		select {
		case aErr <- e:
		default:
		}
	}, c20Cfg(maxp))
	a.SetLogger(log.New())
	a.Start()
	b, rc := c20StartReceiver(b1, ds, maxp)
	var wg sync.WaitGroup
	sentMu := sync.Mutex{}
	sent := map[byte][][]byte{}
	// a sender retries for as long as the connection is up; giving up after c20Stuck is a hang
	deadline := time.Now().Add(c20Stuck)
	stuck := make([]bool, len(ds))
	useSend := r.Chance(1, 2)
	for ci := range ds {
		wg.Add(1)
		go func(ci int) {
			defer wg.Done()
			id := ds[ci].id
			for _, m := range plans[ci] {
				for {
					if !a.IsRunning() {
						return
					}
					if time.Now().After(deadline) {
						stuck[ci] = true
						return
					}
					var ok bool
					if useSend && !allowOver && ds[ci].sendcap > 1 {
						ok = a.Send(id, m)
					} else {
						ok = a.TrySend(id, m)
					}
					if ok {
						sentMu.Lock()
						sent[id] = append(sent[id], m)
						sentMu.Unlock()
						break
					}
					time.Sleep(50 * time.Microsecond)
				}
			}
		}(ci)
	}
	anyStuck := false
	if !c20Timeout(c20Stuck+30*time.Second, wg.Wait) {
		c20Hangs++
		anyStuck = true
		o.Fail(0, "hang", "senders did not finish")
	}
	for ci := range ds {
		if stuck[ci] {
			anyStuck = true
			c20Hangs++
			o.Fail(0, "hang", fmt.Sprintf("channel %x: a message was refused for %v although the connection stayed up", ds[ci].id, c20Stuck))
		}
	}
	if a.IsRunning() {
		if !c20Timeout(c20Stuck, a.FlushStop) {
			anyStuck = true
			c20Hangs++
			o.Fail(0, "hang", "FlushStop did not return")
		}
	}
	var cls string
	select {
	case e := <-rc.errCh:
		cls = c20MErrClass(e)
	case <-time.After(c20Stuck):
		cls = "hang"
		c20Hangs++
		o.Fail(0, "hang", "receiver neither saw the end of the stream nor reported an error")
	}
	a.Stop()
	b.Stop()
	a1.Close()
	a2.Close()
	b1.Close()
	b2.Close()
	time.Sleep(time.Millisecond)
	tapMu.Lock()
	raw := append([]byte(nil), tapped...)
	tapMu.Unlock()
	rc.mu.Lock()
	events := rc.events
	rc.mu.Unlock()
	// the packet stream as it crossed the wire
	rd := protoio.NewDelimitedReader(bytes.NewReader(raw), 1<<24)
	perCh := map[byte]*bytes.Buffer{}
	perN := map[byte]int{}
	for {
		var pkt kp2p.Packet
		if err := rd.ReadMsg(&pkt); err != nil {
			break
		}
		switch {
		case pkt.GetPacketMsg() != nil:
			pm := pkt.GetPacketMsg()
			o.InOnly(fmt.Sprintf("K %d %s %s", pm.ChannelID, map[bool]string{true: "1", false: "0"}[pm.EOF], c20Hex(pm.Data)))
			id := byte(pm.ChannelID)
			if perCh[id] == nil {
				perCh[id] = &bytes.Buffer{}
			}
			fmt.Fprintf(perCh[id], "%s:%d:", map[bool]string{true: "1", false: "0"}[pm.EOF], len(pm.Data))
			perCh[id].Write(pm.Data)
			perN[id]++
			if len(pm.Data) > maxp {
				o.Fail(0, "packet-payload", fmt.Sprintf("payload %d > max %d", len(pm.Data), maxp))
			}
		case pkt.GetPacketPing() != nil:
			o.InOnly("KPING")
		case pkt.GetPacketPong() != nil:
			o.InOnly("KPONG")
		}
	}
	c20EmitRX(o, events, cls)
	sentMu.Lock()
	defer sentMu.Unlock()
	complete := cls == "eof"
	if complete {
		// the sender's packetisation of every channel's messages, as seen on the wire
		for ci, d := range ds {
			for _, m := range sent[d.id] {
				o.InOnly(fmt.Sprintf("M %d %s", ci, c20Hex(m)))
			}
			dg := sha256.Sum256(nil)
			if perCh[d.id] != nil {
				dg = sha256.Sum256(perCh[d.id].Bytes())
			}
			o.Op(fmt.Sprintf("V %d", ci), fmt.Sprintf("V ch=%d n=%d d=%s", d.id, perN[d.id], hex.EncodeToString(dg[:8])))
		}
		for ci, d := range ds {
			if len(sent[d.id]) != len(plans[ci]) && !anyStuck {
				o.Fail(0, "send-refused", fmt.Sprintf("channel %x: %d of %d messages accepted although the connection stayed up", d.id, len(sent[d.id]), len(plans[ci])))
			}
		}
	}
	c20CheckDeliveries(o, ds, sent, events, cls, complete, "")
	o.Count("mx:case")
	o.Count("mx:end:" + cls)
	o.Count(fmt.Sprintf("mx:channels:%d", len(ds)))
	var order []string
	for _, e := range events {
		order = append(order, fmt.Sprint(e[0].(byte)))
	}
	o.Mark(fmt.Sprintf("mx:%d:%s:%s", maxp, cls, strings.Join(order, ",")))
}

// ---------------------------------------------------------------------------- TP: transport-level identity
//
// The cases that dial through the real p2p.MultiplexTransport live in the external half of the
// harness (package conn_test, verif_c20x_test.go): lib/p2p imports this package, so only an
// external test package can import both.  It registers itself here.

// C20Ext is what the external half gets from this file.
type C20Ext struct {
	Idx   int
	Intn  func(n int) int
	Op    func(in, obs string)
	Fail  func(step int, class, detail string)
	Count func(k string)
	Mark  func(k string)
	// Key returns the i-th deterministic identity key (identity number i+1), NKeys of them
	Key   func(i int) *ecdsa.PrivateKey
	NKeys int
	// Evil runs the dishonest secret-connection handshake on c: claims the public key `claim`,
	// signs this session's challenge with `signer` (nil: random bytes) and verifies nothing.
	// Returns the evil end's connection once both auth messages have been exchanged.
	Evil func(c io.ReadWriteCloser, claim ecdsa.PublicKey, signer *ecdsa.PrivateKey) (io.ReadWriter, error)
}

// C20TPCase is set by the external half's init.
var C20TPCase func(x *C20Ext)

func c20TPCase(o *c20Out, idx int, r *c20Rand) {
	o.Case(idx, fmt.Sprintf("CASE %d TP", idx))
	if C20TPCase == nil {
		o.Fail(0, "harness", "the transport half of the harness (verif_c20x_test.go) is not linked in")
		return
	}
	C20TPCase(&C20Ext{
		Idx: idx, Intn: r.Intn, Op: o.Op, Fail: o.Fail, Count: o.Count, Mark: o.Mark,
		Key: c20Key, NKeys: len(c20Keys),
		Evil: func(c io.ReadWriteCloser, claim ecdsa.PublicKey, signer *ecdsa.PrivateKey) (io.ReadWriter, error) {
			op := &c20EvilOpts{claim: claim, sigFor: func(ch [32]byte) []byte {
				if signer == nil {
					g := r.Bytes(65)
					g[64] = byte(r.Intn(2))
					return g
				}
				return c20Sign(signer, ch)
			}}
			if err := c20EvilHandshake(c, op); err != nil {
				return nil, err
			}
			return op.sc, nil
		},
	})
}

// ---------------------------------------------------------------------------- entry point

func TestVerifC20(t *testing.T) {
	if *c20Facts != "" {
		c20WriteFacts(*c20Facts)
		return
	}
	if *c20Dir == "" {
		t.Skip("-out required")
	}
	log.Root().SetHandler(log.DiscardHandler())
	for i := 0; i < 8; i++ {
		k, err := crypto.ToECDSA(crypto.Keccak256([]byte(fmt.Sprintf("verif-c20-key-%d", i))))
		if err != nil {
			t.Fatal(err)
		}
		c20Keys = append(c20Keys, k)
	}
	o := c20Open(*c20Dir)
	o.rule = "a case is one connection scenario: SC/SW = handshake + writes (some with injected underlying write errors), an edit script on the sealed frames, reads with random buffer sizes; HS = one handshake against an honest or dishonest peer; TP = a few real MultiplexTransport dials/accepts against honest, impostor and dishonest peers; MD/MR/MX = one MConnection run (channels, message mix, packet interleaving). Non-trivial = distinct edit script (SC), distinct write linearisation (SW), distinct scenario (HS), distinct (direction, remote kind, key/ID relation, outcome) (TP), distinct (channels, max payload, mutation, end class, delivery order) (M*)"
	root := c20New(*c20Seed)
	kinds := []string{}
	for i := 0; i < *c20N; i++ {
		if *c20Only >= 0 && *c20Only != i {
			continue
		}
		r := root.Fork(uint64(i))
		var kind string
		switch i % 20 {
		case 0, 1, 2, 3, 4, 5, 6:
			kind = "SC"
			c20SCCase(o, i, r)
		case 7, 11:
			kind = "TP"
			c20TPCase(o, i, r)
		case 8:
			kind = "SW"
			c20SWCase(o, i, r)
		case 9, 10:
			kind = "HS"
			c20HSCase(o, i, r)
		case 12, 13, 14:
			kind = "MD"
			c20MDCase(o, i, r)
		case 15, 16, 17:
			kind = "MR"
			c20MRCase(o, i, r)
		default:
			kind = "MX"
			c20MXCase(o, i, r)
		}
		kinds = append(kinds, kind)
		o.Count("kind:" + kind)
	}
	sort.Strings(kinds)
	o.Close(*c20Seed)
}
