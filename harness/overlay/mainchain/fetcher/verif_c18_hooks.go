//go:build verif

// C18 harness hooks (injected with -overlay, only under the build tag "verif"): read access to the
// fetcher's trackers and to the loop's step notifier. No behaviour is changed.
package fetcher

import (
	"time"

	"github.com/kardiachain/go-kardia/lib/common"
)

const (
	VerifMaxTxAnnounces  = maxTxAnnounces
	VerifMaxTxRetrievals = maxTxRetrievals
	VerifTxArriveTimeout = txArriveTimeout
	VerifTxGatherSlack   = txGatherSlack
	VerifGatherSlack     = gatherSlack
)

func VerifTxFetchTimeout() time.Duration { return txFetchTimeout }

// VerifSetStep installs the loop-iteration notifier (must be called before Start).
func (f *TxFetcher) VerifSetStep(ch chan struct{}) { f.step = ch }

type VerifReq struct {
	Hashes   []common.Hash
	Dangling bool // hashes == nil
	Stolen   []common.Hash
	Time     int64 // ns
}

type VerifState struct {
	Waitlist   map[common.Hash][]string
	Waittime   map[common.Hash]int64
	Waitslots  map[string][]common.Hash
	Announces  map[string][]common.Hash
	Announced  map[common.Hash][]string
	Fetching   map[common.Hash]string
	Requests   map[string]VerifReq
	Alternates map[common.Hash][]string
	AltNil     map[common.Hash]bool // alternates key present with a nil set
	Under      []common.Hash
}

// VerifState copies the trackers. Only to be called while the loop is idle (after a step
// notification, with no event in flight).
func (f *TxFetcher) VerifState() VerifState {
	st := VerifState{
		Waitlist: map[common.Hash][]string{}, Waittime: map[common.Hash]int64{}, Waitslots: map[string][]common.Hash{},
		Announces: map[string][]common.Hash{}, Announced: map[common.Hash][]string{}, Fetching: map[common.Hash]string{},
		Requests: map[string]VerifReq{}, Alternates: map[common.Hash][]string{}, AltNil: map[common.Hash]bool{},
	}
	ps := func(m map[string]struct{}) []string {
		out := make([]string, 0, len(m))
		for k := range m {
			out = append(out, k)
		}
		return out
	}
	hs := func(m map[common.Hash]struct{}) []common.Hash {
		out := make([]common.Hash, 0, len(m))
		for k := range m {
			out = append(out, k)
		}
		return out
	}
	for h, m := range f.waitlist {
		st.Waitlist[h] = ps(m)
	}
	for h, t := range f.waittime {
		st.Waittime[h] = int64(t)
	}
	for p, m := range f.waitslots {
		st.Waitslots[p] = hs(m)
	}
	for p, m := range f.announces {
		st.Announces[p] = hs(m)
	}
	for h, m := range f.announced {
		st.Announced[h] = ps(m)
	}
	for h, p := range f.fetching {
		st.Fetching[h] = p
	}
	for p, r := range f.requests {
		vr := VerifReq{Hashes: append([]common.Hash(nil), r.hashes...), Dangling: r.hashes == nil, Stolen: hs(r.stolen), Time: int64(r.time)}
		st.Requests[p] = vr
	}
	for h, m := range f.alternates {
		st.Alternates[h] = ps(m)
		if m == nil {
			st.AltNil[h] = true
		}
	}
	for _, x := range f.underpriced.ToSlice() {
		st.Under = append(st.Under, x.(common.Hash))
	}
	return st
}
