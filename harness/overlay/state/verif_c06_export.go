//go:build verif

package state

import (
	"math/big"

	"github.com/kardiachain/go-kardia/lib/common"
	"github.com/kardiachain/go-kardia/types"
)

// Test-only export for the C06 harness (injected with -overlay; never part of /repo).
//
// VerifPending lists what IntermediateRoot/Commit is about to flush: one entry per address of
// stateObjectsPending, enumerated by ranging over the map exactly as IntermediateRoot does (so
// the order is whatever Go's map iteration yields in this process at this moment), and per
// object its pendingStorage (plus not yet finalised dirtyStorage) enumerated by ranging over
// that map as updateTrie does.  Nothing is modified.

type VerifSlot struct{ Key, Value common.Hash }

type VerifPendingObject struct {
	Addr     common.Address
	Deleted  bool
	Nonce    uint64
	Balance  *big.Int
	CodeHash common.Hash
	BaseRoot common.Hash // data.Root before updateRoot: the storage trie the slots are applied to
	Slots    []VerifSlot
}

func (s *StateDB) VerifPending() []VerifPendingObject {
	var res []VerifPendingObject
	for addr := range s.stateObjectsPending {
		obj := s.stateObjects[addr]
		if obj == nil {
			continue
		}
		p := VerifPendingObject{Addr: addr, Deleted: obj.deleted, Nonce: obj.data.Nonce,
			Balance: new(big.Int).Set(obj.data.Balance), CodeHash: common.BytesToHash(obj.data.CodeHash), BaseRoot: obj.data.Root}
		if p.BaseRoot == (common.Hash{}) {
			p.BaseRoot = types.EmptyRootHash
		}
		seen := map[common.Hash]bool{}
		for k, v := range obj.dirtyStorage { // updateTrie starts with finalise(): dirty overrides pending
			p.Slots = append(p.Slots, VerifSlot{k, v})
			seen[k] = true
		}
		for k, v := range obj.pendingStorage {
			if !seen[k] {
				p.Slots = append(p.Slots, VerifSlot{k, v})
			}
		}
		res = append(res, p)
	}
	return res
}

// VerifJournalLen: number of live journal entries (0 after every Finalise).
func (s *StateDB) VerifJournalLen() int { return len(s.journal.entries) }
