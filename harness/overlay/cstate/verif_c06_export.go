//go:build verif

package cstate

import (
	"github.com/kardiachain/go-kardia/configs"
	"github.com/kardiachain/go-kardia/lib/log"
	stypes "github.com/kardiachain/go-kardia/mainchain/staking/types"
	"github.com/kardiachain/go-kardia/types"
)

// Test-only exports for the C06 harness (injected with -overlay; never part of /repo).

func VerifCalculateValidatorSetUpdates(lastVals []*types.Validator, vals []*types.Validator) []*types.Validator {
	return calculateValidatorSetUpdates(lastVals, vals)
}

func VerifUpdateState(logger log.Logger, state LatestBlockState, blockID types.BlockID, header *types.Header,
	validatorUpdates []*types.Validator) (LatestBlockState, error) {
	return updateState(logger, state, blockID, header, validatorUpdates)
}

func VerifValidateBlock(store Store, state LatestBlockState, block *types.Block) error {
	return validateBlock(EmptyEvidencePool{}, store, state, block)
}

func VerifBeginBlockInfo(cfg *configs.ChainConfig, b *types.Block, store Store) stypes.LastCommitInfo {
	return getBeginBlockValidatorInfo(cfg, b, store)
}
