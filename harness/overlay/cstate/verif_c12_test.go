//go:build verif

// C12 harness (in-package, injected with -overlay): drives the real types.ValidatorSet
// (NewValidatorSet, IncrementProposerPriority, CopyIncrementProposerPriority, UpdateWithChangeSet, Copy,
// GetProposer, TotalVotingPower) and the cstate path calculateValidatorSetUpdates + updateState (on single
// sets and on one LatestBlockState carried from block to block) with generated histories, prints the projected observables for the model driver, and evaluates the property
// directly on the implementation: a math/big re-implementation of the specified weighted
// round-robin and of the change-set / report rules, atomicity on error, order independence,
// priority window / centring, isolation, and fairness (proportional share, no starvation).
package cstate

import (
	"bufio"
	"encoding/json"
	"flag"
	"fmt"
	"math"
	"math/big"
	"os"
	"path/filepath"
	"sort"
	"strings"
	"testing"

	"github.com/kardiachain/go-kardia/lib/common"
	"github.com/kardiachain/go-kardia/lib/log"
	"github.com/kardiachain/go-kardia/types"
)

var _ = log.New


const nSlots = 4

// ---------------------------------------------------------------- projection

type vrec struct {
	id          uint64
	power, prio int64
}

func addrOf(id uint64) common.Address { return common.BigToAddress(new(big.Int).SetUint64(id)) }
func idOf(a common.Address) string    { return new(big.Int).SetBytes(a[:]).String() }
func idNum(a common.Address) uint64   { return new(big.Int).SetBytes(a[:]).Uint64() }

func mkVals(rs []vrec) []*types.Validator {
	vs := make([]*types.Validator, len(rs))
	for i, r := range rs {
		v := types.NewValidator(addrOf(r.id), r.power)
		v.ProposerPriority = r.prio
		vs[i] = v
	}
	return vs
}

func snapshot(vs *types.ValidatorSet) []vrec {
	rs := make([]vrec, len(vs.Validators))
	for i, v := range vs.Validators {
		rs[i] = vrec{idNum(v.Address), v.VotingPower, v.ProposerPriority}
	}
	return rs
}

func sameRecs(a, b []vrec) bool {
	if len(a) != len(b) {
		return false
	}
	for i := range a {
		if a[i] != b[i] {
			return false
		}
	}
	return true
}

func recsStr(rs []vrec) string {
	if len(rs) == 0 {
		return "-"
	}
	parts := make([]string, len(rs))
	for i, r := range rs {
		parts[i] = fmt.Sprintf("%d:%d:%d", r.id, r.power, r.prio)
	}
	return strings.Join(parts, ",")
}

func triples(rs []vrec) string {
	var sb strings.Builder
	for _, r := range rs {
		fmt.Fprintf(&sb, " %d %d %d", r.id, r.power, r.prio)
	}
	return sb.String()
}

func errClass(err error) string {
	if err == nil {
		return "ok"
	}
	s := err.Error()
	switch {
	case strings.Contains(s, "duplicate entry"):
		return "err:dup"
	case strings.Contains(s, "voting power can't be negative"):
		return "err:neg"
	case strings.Contains(s, "to prevent clipping/overflow, voting power can't be higher"):
		return "err:toobig"
	case strings.Contains(s, "cannot process validators with voting power 0"):
		return "err:zero"
	case strings.Contains(s, "failed to find validator"):
		return "err:unknown"
	case err == types.ErrTotalVotingPowerOverflow || strings.Contains(s, "total voting power of resulting valset exceeds max"):
		return "err:overflow"
	case strings.Contains(s, "would result in empty set"):
		return "err:empty"
	}
	return "err:other:" + strings.ReplaceAll(s, " ", "_")
}

func catch(f func()) (panicked bool, msg string) {
	defer func() {
		if r := recover(); r != nil {
			panicked = true
			msg = strings.ReplaceAll(fmt.Sprint(r), " ", "_")
			if len(msg) > 80 {
				msg = msg[:80]
			}
		}
	}()
	f()
	return
}

// observe prints "status T=.. P=.. V=..[ S=..]" for the set as the model driver does.
func observe(o *c12Out, step int, vs *types.ValidatorSet, ask bool, status string, seq []uint64) string {
	tot := "PANIC"
	if p, m := catch(func() { tot = fmt.Sprint(vs.TotalVotingPower()) }); p {
		tot = "PANIC"
		o.Fail(step, "panic", "TotalVotingPower:"+m)
	}
	pr := "?"
	if ask {
		if p, m := catch(func() {
			g := vs.GetProposer()
			if g == nil {
				pr = "-"
			} else {
				pr = fmt.Sprintf("%s:%d", idOf(g.Address), g.VotingPower)
			}
		}); p {
			pr = "PANIC"
			o.Fail(step, "panic", "GetProposer:"+m)
		}
	}
	s := fmt.Sprintf("%s T=%s P=%s V=%s", status, tot, pr, recsStr(snapshot(vs)))
	if len(seq) > 0 {
		parts := make([]string, len(seq))
		for i, a := range seq {
			parts[i] = fmt.Sprint(a)
		}
		s += " S=" + strings.Join(parts, ",")
	}
	return s
}

// ---------------------------------------------------------------- the specification, in math/big
// (written from the property text / Tendermint proposer-selection specification, not from the code)

type sval struct {
	id          uint64
	power, prio *big.Int
}

func toSpec(rs []vrec) []sval {
	s := make([]sval, len(rs))
	for i, r := range rs {
		s[i] = sval{r.id, big.NewInt(r.power), big.NewInt(r.prio)}
	}
	return s
}

func specTotal(s []sval) *big.Int {
	t := new(big.Int)
	for _, v := range s {
		t.Add(t, v.power)
	}
	return t
}

func specSpread(s []sval) *big.Int {
	mx, mn := new(big.Int).Set(s[0].prio), new(big.Int).Set(s[0].prio)
	for _, v := range s {
		if v.prio.Cmp(mx) > 0 {
			mx.Set(v.prio)
		}
		if v.prio.Cmp(mn) < 0 {
			mn.Set(v.prio)
		}
	}
	return mx.Sub(mx, mn)
}

func specSum(s []sval) *big.Int {
	t := new(big.Int)
	for _, v := range s {
		t.Add(t, v.prio)
	}
	return t
}

var specRescaled bool // set when the last specRescale had to divide

// keep priorities within a window of window*T: divide by ceil(spread / (window*T)), toward zero
func specRescale(s []sval, window int64) {
	specRescaled = false
	w := new(big.Int).Mul(big.NewInt(window), specTotal(s))
	if w.Sign() <= 0 {
		return
	}
	d := specSpread(s)
	if d.Cmp(w) > 0 {
		specRescaled = true
		ratio := new(big.Int).Add(d, w)
		ratio.Sub(ratio, big.NewInt(1))
		ratio.Quo(ratio, w)
		for i := range s {
			s[i].prio = new(big.Int).Quo(s[i].prio, ratio)
		}
	}
}

// centre on the average (floor)
func specCentre(s []sval) {
	avg := new(big.Int).Div(specSum(s), big.NewInt(int64(len(s)))) // Euclidean; divisor positive => floor
	for i := range s {
		s[i].prio = new(big.Int).Sub(s[i].prio, avg)
	}
}

// one round: everybody advances by its power, the highest (lowest address on ties) proposes and pays T
func specRound(s []sval, T *big.Int) int {
	best := -1
	for i := range s {
		s[i].prio = new(big.Int).Add(s[i].prio, s[i].power)
		if best < 0 {
			best = i
			continue
		}
		c := s[i].prio.Cmp(s[best].prio)
		if c > 0 || (c == 0 && s[i].id < s[best].id) {
			best = i
		}
	}
	s[best].prio = new(big.Int).Sub(s[best].prio, T)
	return best
}

func specIncrement(s []sval, times int64, window int64) (proposer uint64) {
	specRescale(s, window)
	specCentre(s)
	T := specTotal(s)
	for k := int64(0); k < times; k++ {
		proposer = s[specRound(s, T)].id
	}
	return
}

// specUpdate: nil result + the set of applicable error classes when the change set is invalid.
func specUpdate(cur []sval, changes []vrec, allowRemovals bool, cap_ int64, window int64) ([]sval, map[string]bool) {
	errs := map[string]bool{}
	seen := map[uint64]int{}
	curIdx := map[uint64]int{}
	for i, v := range cur {
		curIdx[v.id] = i
	}
	for _, c := range changes {
		seen[c.id]++
		if c.id == 0 {
			errs["err:dup"] = true // the zero address is not a validator address (the code reports it as a duplicate)
		}
		if c.power < 0 {
			errs["err:neg"] = true
		}
		if c.power > cap_ {
			errs["err:toobig"] = true
		}
		if c.power == 0 {
			if !allowRemovals {
				errs["err:zero"] = true
			}
			if _, ok := curIdx[c.id]; !ok {
				errs["err:unknown"] = true
			}
		}
	}
	for _, k := range seen {
		if k > 1 {
			errs["err:dup"] = true
		}
	}
	if len(errs) > 0 {
		return nil, errs
	}
	// apply
	chg := map[uint64]vrec{}
	for _, c := range changes {
		chg[c.id] = c
	}
	totalBeforeRemovals := new(big.Int)
	var res []sval
	var newcomers []int
	for _, v := range cur {
		if c, ok := chg[v.id]; ok {
			if c.power == 0 {
				totalBeforeRemovals.Add(totalBeforeRemovals, v.power) // still counted: removed after the updates
				continue
			}
			res = append(res, sval{v.id, big.NewInt(c.power), new(big.Int).Set(v.prio)})
			totalBeforeRemovals.Add(totalBeforeRemovals, big.NewInt(c.power))
		} else {
			res = append(res, sval{v.id, new(big.Int).Set(v.power), new(big.Int).Set(v.prio)})
			totalBeforeRemovals.Add(totalBeforeRemovals, v.power)
		}
	}
	for _, c := range changes {
		if _, ok := curIdx[c.id]; !ok && c.power > 0 {
			newcomers = append(newcomers, len(res))
			res = append(res, sval{c.id, big.NewInt(c.power), new(big.Int)})
			totalBeforeRemovals.Add(totalBeforeRemovals, big.NewInt(c.power))
		}
	}
	if len(res) == 0 {
		errs["err:empty"] = true
		return nil, errs
	}
	if specTotal(res).Cmp(big.NewInt(cap_)) > 0 {
		errs["err:overflow"] = true
		return nil, errs
	}
	// newcomers start at -1.125 * total (total of the set with the updates applied, removals not yet)
	np := new(big.Int).Rsh(totalBeforeRemovals, 3)
	np.Add(np, totalBeforeRemovals)
	np.Neg(np)
	for _, i := range newcomers {
		res[i].prio = new(big.Int).Set(np)
	}
	specRescale(res, window)
	specCentre(res)
	sort.SliceStable(res, func(i, j int) bool {
		c := res[i].power.Cmp(res[j].power)
		if c != 0 {
			return c > 0
		}
		return res[i].id < res[j].id
	})
	return res, nil
}

func specMatches(s []sval, rs []vrec) bool {
	if len(s) != len(rs) {
		return false
	}
	for i := range s {
		if s[i].id != rs[i].id || s[i].power.Cmp(big.NewInt(rs[i].power)) != 0 || s[i].prio.Cmp(big.NewInt(rs[i].prio)) != 0 {
			return false
		}
	}
	return true
}

func specStr(s []sval) string {
	parts := make([]string, len(s))
	for i, v := range s {
		parts[i] = fmt.Sprintf("%d:%s:%s", v.id, v.power, v.prio)
	}
	return strings.Join(parts, ",")
}

func classes(m map[string]bool) string {
	var ks []string
	for k := range m {
		ks = append(ks, k)
	}
	sort.Strings(ks)
	return strings.Join(ks, "|")
}

// ---------------------------------------------------------------- window / centring checks

func checkCentred(o *c12Out, step int, rs []vrec, where string) {
	if len(rs) == 0 {
		return
	}
	sum := specSum(toSpec(rs))
	if sum.Sign() < 0 || sum.Cmp(big.NewInt(int64(len(rs)))) >= 0 {
		o.Fail(step, "centre", fmt.Sprintf("%s sum=%s n=%d V=%s", where, sum, len(rs), recsStr(rs)))
	}
}

func checkWindow(o *c12Out, step int, rs []vrec, extra *big.Int, where string) {
	if len(rs) == 0 {
		return
	}
	s := toSpec(rs)
	lim := new(big.Int).Mul(big.NewInt(types.PriorityWindowSizeFactor), specTotal(s))
	if extra != nil {
		lim.Add(lim, extra)
	}
	if d := specSpread(s); d.Cmp(lim) > 0 {
		o.Fail(step, "window", fmt.Sprintf("%s spread=%s limit=%s V=%s", where, d, lim, recsStr(rs)))
	}
}

func powerSpread(rs []vrec) *big.Int {
	mx, mn := rs[0].power, rs[0].power
	for _, r := range rs {
		if r.power > mx {
			mx = r.power
		}
		if r.power < mn {
			mn = r.power
		}
	}
	return big.NewInt(mx - mn)
}

// ---------------------------------------------------------------- main

func c12FactsText() string {
	body := func() string {
		return fmt.Sprintf("From Coq Require Import ZArith.\nDefinition max_total_voting_power : Z := %d%%Z.\nDefinition priority_window_size_factor : Z := %d%%Z.\nDefinition go_max_int64 : Z := %d%%Z.\nDefinition go_min_int64 : Z := (%d)%%Z.\n",
			types.MaxTotalVotingPower, int64(types.PriorityWindowSizeFactor), int64(math.MaxInt64), int64(math.MinInt64))
	}()
	return "(* GENERATED from /repo's working tree by the harness (-facts); do not edit. *)\n" + body
}

func TestVerifC12(t *testing.T) {
	if *c12Facts != "" {
		if err := os.WriteFile(*c12Facts, []byte(c12FactsText()), 0o644); err != nil {
			t.Fatal(err)
		}
		return
	}
	if *c12Dir == "" {
		t.Skip("-out required")
	}
	o := c12Open()
	o.Rule = "a case is one history over up to four ValidatorSets (NewValidatorSet, IncrementProposerPriority(k), UpdateWithChangeSet, Copy, CopyIncrementProposerPriority, runs of single rounds, validator reports through calculateValidatorSetUpdates + updateState) and one LatestBlockState carried through updateState block after block; non-trivial = the history contains a successful membership/power change, a rejected change set, a rescale (spread above the window) or a tie-break; distinct by (initial powers, op-kind string, outcome string)"
	root := c12NewRand(*c12Seed)
	for c := 0; c < *c12N; c++ {
		if !c12Want(c) {
			continue
		}
		runCase(o, root.Fork(uint64(c)), c)
	}
	o.Close()
}

type world struct {
	o     *c12Out
	r     *c12Rand
	slots [nSlots]*types.ValidatorSet
	step  int
	kinds []string
	outs  []string
	last  [nSlots][]vrec // state of every set after the last operation (isolation oracle)
	// the chain: a LatestBlockState carried from block to block through updateState, and next to it the
	// three validator sets as the specification alone derives them from the genesis set and the reports
	// (never re-synchronised from the implementation)
	chain     LatestBlockState
	chainOn   bool
	chainLast [3][]vrec
	specLast  []sval
	specCur   []sval
	specNext  []sval
	specPCur  uint64 // proposer recorded in specCur / specLast (0 = none)
	specPLast uint64
	specPNext uint64
	specLC    uint64
	// rounds since the last membership change per slot are tracked inside doRounds
}

func capTotal() int64 { return types.MaxTotalVotingPower }

func genPowers(r *c12Rand, n int) ([]int64, int) {
	powers := make([]int64, n)
	kind := r.Pick(3, 4, 2, 2, 2, 2, 1)
	switch kind {
	case 0: // all 1
		for i := range powers {
			powers[i] = 1
		}
	case 1: // small
		for i := range powers {
			powers[i] = int64(1 + r.Intn(10))
		}
	case 2: // around 2^20
		for i := range powers {
			powers[i] = int64(1<<20) + int64(r.Intn(1000)) - 500
		}
	case 3: // cap / n
		each := capTotal() / int64(n)
		for i := range powers {
			powers[i] = each - int64(r.Intn(3))
		}
	case 4: // one near the cap, the rest tiny
		rest := int64(0)
		for i := range powers {
			powers[i] = int64(1 + r.Intn(3))
			rest += powers[i]
		}
		j := r.Intn(n)
		rest -= powers[j]
		powers[j] = capTotal() - rest - int64(r.Intn(3))
	case 5: // skewed 1000 : 1
		for i := range powers {
			powers[i] = 1
		}
		powers[r.Intn(n)] = 1000
	case 6: // equal mid-size
		p := int64(1 + r.Intn(1000000))
		for i := range powers {
			powers[i] = p
		}
	}
	return powers, kind
}

func (w *world) current(slot int) []vrec { return snapshot(w.slots[slot]) }

// isolate: an operation on one set must leave every other set (copies included) untouched.
func (w *world) isolate(touched int) {
	for j := range w.slots {
		cur := snapshot(w.slots[j])
		if j != touched && !sameRecs(cur, w.last[j]) {
			w.o.Fail(w.step, "isolation", fmt.Sprintf("set %d changed by an operation on set %d: was=%s now=%s", j, touched, recsStr(w.last[j]), recsStr(cur)))
		}
		w.last[j] = cur
	}
	if w.chainOn {
		for k, vs := range []*types.ValidatorSet{w.chain.LastValidators, w.chain.Validators, w.chain.NextValidators} {
			cur := snapOrNil(vs)
			if touched >= 0 && !sameRecs(cur, w.chainLast[k]) {
				w.o.Fail(w.step, "isolation", fmt.Sprintf("chain set %d changed by an operation on set %d: was=%s now=%s", k, touched, recsStr(w.chainLast[k]), recsStr(cur)))
			}
			w.chainLast[k] = cur
		}
	}
}

func (w *world) note(kind, outcome string) {
	w.kinds = append(w.kinds, kind)
	w.outs = append(w.outs, outcome)
	w.o.Count("op." + kind)
	w.o.Count("outcome." + kind + "." + outcome)
}

// ---- NewValidatorSet
func (w *world) doNew(slot int, rs []vrec, ask bool) {
	w.step++
	var vs *types.ValidatorSet
	panicked, _ := catch(func() { vs = types.NewValidatorSet(mkVals(rs)) })
	// specification
	want, errs := specUpdate(nil, rs, false, capTotal(), types.PriorityWindowSizeFactor)
	if len(rs) == 0 {
		want, errs = []sval{}, nil
	}
	status := "ok"
	if panicked {
		status = "PANIC"
		if errs == nil {
			w.o.Fail(w.step, "panic", "NewValidatorSet panicked on a valid list "+recsStr(rs))
		}
		w.note("new", "panic:"+classes(errs))
	} else {
		if errs != nil {
			w.o.Fail(w.step, "spec-new", fmt.Sprintf("invalid list accepted (%s): %s", classes(errs), recsStr(rs)))
		} else {
			var prop uint64
			if len(want) > 0 {
				prop = specIncrement(want, 1, types.PriorityWindowSizeFactor)
			}
			got := snapshot(vs)
			if !specMatches(want, got) {
				w.o.Fail(w.step, "spec-new", fmt.Sprintf("in=%s got=%s want=%s", recsStr(rs), recsStr(got), specStr(want)))
			}
			if len(want) > 0 {
				if g := vs.GetProposer(); g == nil || idNum(g.Address) != prop {
					w.o.Fail(w.step, "spec-proposer", fmt.Sprintf("new: in=%s want proposer %d", recsStr(rs), prop))
				}
			}
			checkCentred(w.o, w.step, got, "new")
		}
		w.slots[slot] = vs
		w.note("new", "ok")
	}
	a := 0
	if ask {
		a = 1
	}
	w.isolate(slot)
	w.o.Op(fmt.Sprintf("N %d %d %d%s", slot, a, len(rs), triples(rs)), observe(w.o, w.step, w.slots[slot], ask, status, nil))
}

// ---- IncrementProposerPriority(k)
func (w *world) doInc(slot int, k int64, ask bool) {
	w.step++
	vs := w.slots[slot]
	before := w.current(slot)
	expectPanic := len(before) == 0 || k <= 0
	// window at the renormalisation point, checked on a copy through the exported RescalePriorities
	if !expectPanic {
		cp := vs.Copy()
		if p, m := catch(func() { cp.RescalePriorities(types.PriorityWindowSizeFactor * cp.TotalVotingPower()) }); p {
			w.o.Fail(w.step, "panic", "RescalePriorities:"+m)
		} else {
			checkWindow(w.o, w.step, snapshot(cp), nil, "after-rescale")
		}
	}
	panicked, msg := catch(func() { vs.IncrementProposerPriority(k) })
	status := "ok"
	if panicked {
		status = "PANIC"
		if !expectPanic {
			w.o.Fail(w.step, "panic", "IncrementProposerPriority:"+msg)
		}
		w.note("inc", "panic")
	} else if expectPanic {
		w.o.Fail(w.step, "spec-increment", "no panic on empty set / non-positive times")
	} else {
		want := toSpec(before)
		tot := specTotal(want)
		spreadBefore := specSpread(want)
		prop := specIncrement(want, k, types.PriorityWindowSizeFactor)
		got := w.current(slot)
		if !specMatches(want, got) {
			cls := "spec-increment"
			for _, v := range want {
				if !v.prio.IsInt64() {
					cls = "overflow"
				}
			}
			w.o.Fail(w.step, cls, fmt.Sprintf("k=%d before=%s got=%s want=%s", k, recsStr(before), recsStr(got), specStr(want)))
		}
		if g := vs.GetProposer(); g == nil || idNum(g.Address) != prop {
			w.o.Fail(w.step, "spec-proposer", fmt.Sprintf("k=%d before=%s want proposer %d", k, recsStr(before), prop))
		}
		checkCentred(w.o, w.step, got, "after-increment")
		if k == 1 {
			checkWindow(w.o, w.step, got, powerSpread(got), "after-increment(1)")
		}
		oc := "ok"
		if spreadBefore.Cmp(new(big.Int).Mul(big.NewInt(types.PriorityWindowSizeFactor), tot)) > 0 {
			oc = "ok-rescaled"
			w.o.Mark(fmt.Sprintf("rescale:%s", recsStr(before)))
		}
		w.note("inc", oc)
	}
	a := 0
	if ask {
		a = 1
	}
	w.isolate(slot)
	w.o.Op(fmt.Sprintf("I %d %d %d", slot, a, k), observe(w.o, w.step, vs, ask, status, nil))
}

// ---- UpdateWithChangeSet
func (w *world) doUpdate(slot int, changes []vrec, kind string, ask bool) {
	w.step++
	vs := w.slots[slot]
	before := w.current(slot)
	var propBefore string
	if g := vs.Copy().GetProposer(); g != nil {
		propBefore = idOf(g.Address)
	}
	// order independence: the same change set, permuted, applied to copies
	type res struct {
		rs  []vrec
		err bool
		pan bool
	}
	var alts []res
	if len(changes) > 1 {
		for t := 0; t < 2; t++ {
			perm := w.r.Perm(len(changes))
			pc := make([]vrec, len(changes))
			for i, j := range perm {
				pc[i] = changes[j]
			}
			cp := vs.Copy()
			var e error
			p, _ := catch(func() { e = cp.UpdateWithChangeSet(mkVals(pc)) })
			alts = append(alts, res{snapshot(cp), e != nil, p})
		}
	}
	var err error
	panicked, msg := catch(func() { err = vs.UpdateWithChangeSet(mkVals(changes)) })
	status := errClass(err)
	after := w.current(slot)
	if panicked {
		status = "PANIC"
		w.o.Fail(w.step, "panic", fmt.Sprintf("UpdateWithChangeSet:%s before=%s changes=%s", msg, recsStr(before), recsStr(changes)))
	} else {
		want, errs := specUpdate(toSpec(before), changes, true, capTotal(), types.PriorityWindowSizeFactor)
		if len(changes) == 0 {
			want, errs = toSpec(before), nil
		}
		switch {
		case err != nil && errs == nil:
			w.o.Fail(w.step, "spec-update", fmt.Sprintf("valid change set rejected (%s): before=%s changes=%s", status, recsStr(before), recsStr(changes)))
		case err == nil && errs != nil:
			w.o.Fail(w.step, "rejects", fmt.Sprintf("invalid change set accepted (%s): before=%s changes=%s after=%s", classes(errs), recsStr(before), recsStr(changes), recsStr(after)))
		case err != nil:
			if !errs[status] {
				w.o.Fail(w.step, "spec-update", fmt.Sprintf("error class %s not among %s: before=%s changes=%s", status, classes(errs), recsStr(before), recsStr(changes)))
			}
		default:
			if !specMatches(want, after) {
				cls := "spec-update"
				for _, v := range want {
					if !v.prio.IsInt64() {
						cls = "overflow"
					}
				}
				w.o.Fail(w.step, cls, fmt.Sprintf("before=%s changes=%s got=%s want=%s", recsStr(before), recsStr(changes), recsStr(after), specStr(want)))
			}
			if len(changes) > 0 {
				if specRescaled {
					w.o.Count("update.rescaled")
					w.o.Mark(fmt.Sprintf("rescale-upd:%s:%s", recsStr(before), recsStr(changes)))
				}
				checkCentred(w.o, w.step, after, "after-update")
				checkWindow(w.o, w.step, after, nil, "after-update")
			}
			tot := specTotal(toSpec(after))
			if tot.Cmp(big.NewInt(capTotal())) > 0 || tot.Cmp(big.NewInt(vs.TotalVotingPower())) != 0 {
				w.o.Fail(w.step, "total", fmt.Sprintf("total=%s cached=%d", tot, vs.TotalVotingPower()))
			}
		}
		// a set that has not run a round yet has no recorded proposer: GetProposer() must then name the
		// validator with the highest priority, the lowest address on ties
		if vs.Proposer == nil && len(after) > 0 {
			best := after[0]
			for _, v := range after {
				if v.prio > best.prio || (v.prio == best.prio && v.id < best.id) {
					best = v
				}
			}
			if g := vs.Copy().GetProposer(); g == nil || idNum(g.Address) != best.id {
				w.o.Fail(w.step, "spec-proposer", fmt.Sprintf("no round run yet: GetProposer() is not the validator with the highest priority (%d) in %s", best.id, recsStr(after)))
			}
			w.o.Count("proposer.unset-checked")
		}
		// all-or-nothing
		if err != nil {
			var propAfter string
			if g := vs.Copy().GetProposer(); g != nil {
				propAfter = idOf(g.Address)
			}
			if !sameRecs(before, after) || propBefore != propAfter {
				w.o.Fail(w.step, "atomic", fmt.Sprintf("error %s but set changed: before=%s changes=%s after=%s", status, recsStr(before), recsStr(changes), recsStr(after)))
			}
		}
		// order independence
		for _, a := range alts {
			if a.pan || a.err != (err != nil) || !sameRecs(a.rs, after) {
				w.o.Fail(w.step, "order", fmt.Sprintf("permuted change set gives another result: before=%s changes=%s after=%s permuted-after=%s err=%v/%v", recsStr(before), recsStr(changes), recsStr(after), recsStr(a.rs), err != nil, a.err))
			}
		}
	}
	w.note("upd."+kind, status)
	if status != "ok" {
		w.o.Mark(fmt.Sprintf("reject:%s:%s:%s", status, recsStr(before), recsStr(changes)))
	} else if len(changes) > 0 {
		w.o.Mark(fmt.Sprintf("change:%s:%s", recsStr(before), recsStr(changes)))
	}
	a := 0
	if ask {
		a = 1
	}
	w.isolate(slot)
	w.o.Op(fmt.Sprintf("U %d %d %d%s", slot, a, len(changes), triples(changes)), observe(w.o, w.step, vs, ask, status, nil))
}

// ---- Copy
func (w *world) doCopy(src, dst int, ask bool) {
	w.step++
	cp := w.slots[src].Copy()
	if !sameRecs(snapshot(cp), w.current(src)) {
		w.o.Fail(w.step, "copy", "Copy differs from the original")
	}
	w.slots[dst] = cp
	w.note("copy", "ok")
	a := 0
	if ask {
		a = 1
	}
	w.isolate(dst)
	w.o.Op(fmt.Sprintf("C %d %d %d", src, dst, a), observe(w.o, w.step, cp, ask, "ok", nil))
}

// ---- rounds x IncrementProposerPriority(1): fairness oracles
func (w *world) doRounds(slot int, rounds int, ask bool, afterChange bool) {
	w.step++
	vs := w.slots[slot]
	before := w.current(slot)
	if len(before) == 0 {
		return
	}
	if rounds < 1 {
		rounds = 1
	}
	spec := toSpec(before)
	T := specTotal(spec)
	n := int64(len(before))
	seq := make([]uint64, 0, rounds)
	count := map[uint64]int64{}
	first := map[uint64]int{}
	bad := false
	panicked, msg := catch(func() {
		for k := 0; k < rounds; k++ {
			vs.IncrementProposerPriority(1)
			g := vs.GetProposer()
			id := idNum(g.Address)
			seq = append(seq, id)
			count[id]++
			if _, ok := first[id]; !ok {
				first[id] = k + 1
			}
			// the specified round-robin, round by round
			want := specIncrement(spec, 1, types.PriorityWindowSizeFactor)
			if !bad && (want != id || !specMatches(spec, snapshot(vs))) {
				bad = true
				w.o.Fail(w.step, "spec-rounds", fmt.Sprintf("round %d of %d from %s: proposer %d want %d; got=%s want=%s", k+1, rounds, recsStr(before), id, want, recsStr(snapshot(vs)), specStr(spec)))
			}
		}
	})
	status := "ok"
	if panicked {
		status = "PANIC"
		w.o.Fail(w.step, "panic", "rounds:"+msg)
	} else {
		// proportional share: | T*count_i - rounds*p_i | <= (n+2)*T
		lim := new(big.Int).Mul(big.NewInt(n+2), T)
		for _, v := range before {
			d := new(big.Int).Mul(T, big.NewInt(count[v.id]))
			d.Sub(d, new(big.Int).Mul(big.NewInt(int64(rounds)), big.NewInt(v.power)))
			if d.Abs(d).Cmp(lim) > 0 {
				w.o.Fail(w.step, "fairness", fmt.Sprintf("validator %d power %d of %s proposed %d times in %d rounds from %s", v.id, v.power, T, count[v.id], rounds, recsStr(before)))
			}
			// no starvation: proposes within ceil((n+2)*T/p_i) rounds
			bound := new(big.Int).Mul(big.NewInt(n+2), T)
			bound.Add(bound, big.NewInt(v.power-1))
			bound.Quo(bound, big.NewInt(v.power))
			if bound.IsInt64() && bound.Int64() <= int64(rounds) {
				if f, ok := first[v.id]; !ok || int64(f) > bound.Int64() {
					w.o.Fail(w.step, "starvation", fmt.Sprintf("validator %d power %d of %s not proposer within %s rounds (first=%d) from %s", v.id, v.power, T, bound, first[v.id], recsStr(before)))
				}
				w.o.Count("starvation.checked")
				if afterChange {
					w.o.Count("starvation.checked-after-change")
				}
			}
		}
	}
	w.note("rounds", status)
	a := 0
	if ask {
		a = 1
	}
	w.isolate(slot)
	w.o.Op(fmt.Sprintf("R %d %d %d", slot, a, rounds), observe(w.o, w.step, vs, ask, status, seq))
}

// ---- the cstate path: calculateValidatorSetUpdates + updateState (validator part)

// specReportChanges: the change set the specification derives from a report of the full new
// validator set: entries that are new or whose power differs, plus a removal for every member
// the report omits.  dup = an address is reported twice (the whole report is invalid).
func specReportChanges(cur []vrec, report []vrec) (changes []vrec, dup bool) {
	if len(report) == 0 {
		return nil, false
	}
	seen := map[uint64]bool{}
	for _, e := range report {
		if seen[e.id] {
			return report, true
		}
		seen[e.id] = true
	}
	curPow := map[uint64]int64{}
	isMember := map[uint64]bool{}
	for _, v := range cur {
		curPow[v.id] = v.power
		isMember[v.id] = true
	}
	for _, e := range report {
		if !isMember[e.id] || curPow[e.id] != e.power {
			changes = append(changes, e)
		}
	}
	for _, v := range cur {
		if !seen[v.id] {
			changes = append(changes, vrec{v.id, 0, 0})
		}
	}
	return changes, false
}

func (w *world) doReport(slot int, report []vrec, kind string, ask bool) {
	w.step++
	vs := w.slots[slot]
	before := w.current(slot)
	if len(before) == 0 {
		return
	}
	st := LatestBlockState{ChainID: "verif", InitialHeight: 1, LastBlockHeight: 10, NextValidators: vs,
		Validators: vs.Copy(), LastValidators: vs.Copy(), LastHeightValidatorsChanged: 1}
	header := &types.Header{Height: 11}
	var ns LatestBlockState
	var err error
	panicked, msg := catch(func() {
		ups := calculateValidatorSetUpdates(st.NextValidators.Validators, mkVals(report))
		ns, err = updateState(log.New(), st, types.BlockID{}, header, ups)
	})
	status := errClass(err)
	if panicked {
		status = "PANIC"
		w.o.Fail(w.step, "panic", fmt.Sprintf("report:%s before=%s report=%s", msg, recsStr(before), recsStr(report)))
	} else {
		// updateState works on a copy: the set it was given is never touched
		if !sameRecs(before, snapshot(vs)) {
			w.o.Fail(w.step, "atomic", fmt.Sprintf("updateState changed its input: before=%s report=%s now=%s", recsStr(before), recsStr(report), recsStr(snapshot(vs))))
		}
		changes, dup := specReportChanges(before, report)
		var want []sval
		var errs map[string]bool
		switch {
		case dup:
			errs = map[string]bool{"err:dup": true}
			if _, e2 := specUpdate(toSpec(before), report, true, capTotal(), types.PriorityWindowSizeFactor); e2 != nil {
				for k := range e2 {
					errs[k] = true
				}
			}
		case len(changes) == 0:
			want = toSpec(before)
		default:
			want, errs = specUpdate(toSpec(before), changes, true, capTotal(), types.PriorityWindowSizeFactor)
		}
		switch {
		case err != nil && errs == nil:
			w.o.Fail(w.step, "spec-report", fmt.Sprintf("valid report rejected (%s): before=%s report=%s", status, recsStr(before), recsStr(report)))
		case err == nil && errs != nil:
			w.o.Fail(w.step, "rejects", fmt.Sprintf("invalid report accepted (%s): before=%s report=%s after=%s", classes(errs), recsStr(before), recsStr(report), recsStr(snapshot(ns.NextValidators))))
		case err != nil:
			if !errs[status] {
				w.o.Fail(w.step, "spec-report", fmt.Sprintf("error class %s not among %s: before=%s report=%s", status, classes(errs), recsStr(before), recsStr(report)))
			}
			if ns.NextValidators != vs {
				w.o.Fail(w.step, "atomic", "error but updateState returned another NextValidators")
			}
		default:
			prop := specIncrement(want, 1, types.PriorityWindowSizeFactor)
			got := snapshot(ns.NextValidators)
			if !specMatches(want, got) {
				w.o.Fail(w.step, "spec-report", fmt.Sprintf("before=%s report=%s got=%s want=%s", recsStr(before), recsStr(report), recsStr(got), specStr(want)))
			}
			if g := ns.NextValidators.GetProposer(); g == nil || idNum(g.Address) != prop {
				w.o.Fail(w.step, "spec-proposer", fmt.Sprintf("report: before=%s report=%s want proposer %d", recsStr(before), recsStr(report), prop))
			}
			if !sameRecs(before, snapshot(ns.Validators)) {
				w.o.Fail(w.step, "spec-report", "Validators of the new state is not the previous NextValidators")
			}
			checkCentred(w.o, w.step, got, "after-report")
		}
		if err == nil {
			w.slots[slot] = ns.NextValidators
		}
	}
	w.note("report."+kind, status)
	if status != "ok" {
		w.o.Mark(fmt.Sprintf("report-reject:%s:%s:%s", status, recsStr(before), recsStr(report)))
	} else {
		w.o.Mark(fmt.Sprintf("report:%s:%s", recsStr(before), recsStr(report)))
	}
	a := 0
	if ask {
		a = 1
	}
	w.isolate(slot)
	w.o.Op(fmt.Sprintf("A %d %d %d%s", slot, a, len(report), triples(report)), observe(w.o, w.step, w.slots[slot], ask, status, nil))
}

// ---- a set with given priorities (as one loaded from storage: &ValidatorSet{Validators: ...}, no proposer
// recorded, nothing cached): the way to put the priorities exactly on the boundaries of the window rule
func (w *world) doRaw(slot int, rs []vrec, ask bool) {
	w.step++
	w.slots[slot] = &types.ValidatorSet{Validators: mkVals(rs)}
	w.note("raw", "ok")
	a := 0
	if ask {
		a = 1
	}
	w.isolate(slot)
	w.o.Op(fmt.Sprintf("S %d %d %d%s", slot, a, len(rs), triples(rs)), observe(w.o, w.step, w.slots[slot], ask, "ok", nil))
}

// genRaw: 2..6 validators whose priority spread sits on / next to a multiple of the window 2T (the
// ceil(spread / 2T) divisor changes there), with negative odd values (division toward zero) and a
// negative, non-divisible sum (floor average)
func (w *world) genRaw() []vrec {
	r := w.r
	n := 2 + r.Intn(5)
	rs := make([]vrec, n)
	perm := r.Perm(16)
	T := int64(0)
	for i := range rs {
		var p int64
		switch r.Pick(3, 2, 1) {
		case 0:
			p = int64(1 + r.Intn(9))
		case 1:
			p = int64(1 + r.Intn(100000))
		default:
			p = int64(1)<<40 + int64(r.Intn(1000))
		}
		rs[i] = vrec{uint64(perm[i] + 1), p, 0}
		T += p
	}
	W := 2 * T
	m := int64(1 + r.Intn(5))
	d := m*W + []int64{-1, 0, 0, 1, 1}[r.Intn(5)]
	if r.Chance(1, 6) {
		d = W + int64(r.Intn(int(min64(4*W, 1<<30))))
	}
	if d < 0 {
		d = 0
	}
	lo := -int64(r.Intn(int(min64(d+1, 1<<30)))) - int64(r.Intn(3))
	if r.Chance(1, 3) {
		lo = -d/2 - int64(r.Intn(2))
	}
	for i := range rs {
		switch {
		case i == 0:
			rs[i].prio = lo
		case i == 1:
			rs[i].prio = lo + d
		default:
			rs[i].prio = lo + int64(r.Intn(int(min64(d+1, 1<<30))))
			if r.Bool() {
				rs[i].prio = lo + d - int64(r.Intn(int(min64(d+1, 1<<30))))
			}
		}
	}
	// random order of the two extremes
	j := r.Intn(n)
	rs[0], rs[j] = rs[j], rs[0]
	w.o.Count(fmt.Sprintf("raw.spread-mod.%d", func() int64 {
		switch d % W {
		case 0:
			return 0
		case 1:
			return 1
		case W - 1:
			return -1
		}
		return 2
	}()))
	return rs
}

// ---- dst := src.CopyIncrementProposerPriority(k)
func (w *world) doCopyInc(src, dst int, k int64, ask bool) {
	w.step++
	before := w.current(src)
	expectPanic := len(before) == 0 || k <= 0
	var cp *types.ValidatorSet
	panicked, msg := catch(func() { cp = w.slots[src].CopyIncrementProposerPriority(k) })
	status := "ok"
	if panicked {
		status = "PANIC"
		if !expectPanic {
			w.o.Fail(w.step, "panic", "CopyIncrementProposerPriority:"+msg)
		}
		w.note("copyinc", "panic")
	} else if expectPanic {
		w.o.Fail(w.step, "spec-increment", "CopyIncrementProposerPriority: no panic on empty set / non-positive times")
	} else {
		want := toSpec(before)
		prop := specIncrement(want, k, types.PriorityWindowSizeFactor)
		got := snapshot(cp)
		if !specMatches(want, got) {
			w.o.Fail(w.step, "spec-increment", fmt.Sprintf("copy-increment k=%d before=%s got=%s want=%s", k, recsStr(before), recsStr(got), specStr(want)))
		}
		if g := cp.GetProposer(); g == nil || idNum(g.Address) != prop {
			w.o.Fail(w.step, "spec-proposer", fmt.Sprintf("copy-increment k=%d before=%s want proposer %d", k, recsStr(before), prop))
		}
		if src != dst && !sameRecs(before, w.current(src)) {
			w.o.Fail(w.step, "isolation", fmt.Sprintf("CopyIncrementProposerPriority changed its receiver: was=%s now=%s", recsStr(before), recsStr(w.current(src))))
		}
		w.slots[dst] = cp
		w.note("copyinc", "ok")
	}
	a := 0
	if ask {
		a = 1
	}
	w.isolate(dst)
	w.o.Op(fmt.Sprintf("J %d %d %d %d", src, dst, a, k), observe(w.o, w.step, w.slots[dst], ask, status, nil))
}

// ---- the chain: LatestBlockState carried through updateState block after block

func propID(vs *types.ValidatorSet) uint64 {
	if vs == nil || len(vs.Validators) == 0 {
		return 0
	}
	if g := vs.Copy().GetProposer(); g != nil {
		return idNum(g.Address)
	}
	return 0
}

func snapOrNil(vs *types.ValidatorSet) []vrec {
	if vs == nil {
		return nil
	}
	return snapshot(vs)
}

func specRecs(s []sval) []vrec {
	rs := make([]vrec, len(s))
	for i, v := range s {
		rs[i] = vrec{v.id, v.power.Int64(), 0}
	}
	return rs
}

func specCopy(s []sval) []sval {
	c := make([]sval, len(s))
	for i, v := range s {
		c[i] = sval{v.id, new(big.Int).Set(v.power), new(big.Int).Set(v.prio)}
	}
	return c
}

// setBody prints "T=.. P=.. V=.." of one of the chain's sets (nil = the empty set).
func (w *world) setBody(vs *types.ValidatorSet, ask bool) string {
	if vs == nil {
		if ask {
			return "T=0 P=- V=-"
		}
		return "T=0 P=? V=-"
	}
	return strings.TrimPrefix(observe(w.o, w.step, vs, ask, "ok", nil), "ok ")
}

// chainLine: the observable line of the whole chain state, and the proposers of rounds 1..3 of the next block
func (w *world) chainLine(status string, ask bool) string {
	st := w.chain
	rp := make([]string, 3)
	for r := 1; r <= 3; r++ {
		rp[r-1] = "x"
		if st.Validators != nil && len(st.Validators.Validators) > 0 {
			catch(func() {
				if g := st.Validators.CopyIncrementProposerPriority(int64(r)).GetProposer(); g != nil {
					rp[r-1] = idOf(g.Address)
				}
			})
		}
	}
	l, c, n := w.setBody(st.LastValidators, ask), w.setBody(st.Validators, ask), w.setBody(st.NextValidators, ask)
	return fmt.Sprintf("%s H=%d LC=%d L{%s} C{%s} N{%s} RP=%s", status, st.LastBlockHeight, st.LastHeightValidatorsChanged, l, c, n, strings.Join(rp, ","))
}

// checkChainAgainstSpec: the three sets are what the specification alone derives from the history
func (w *world) checkChainAgainstSpec(where string) {
	st := w.chain
	type pair struct {
		name string
		vs   *types.ValidatorSet
		want []sval
		prop uint64
	}
	for _, p := range []pair{{"LastValidators", st.LastValidators, w.specLast, w.specPLast}, {"Validators", st.Validators, w.specCur, w.specPCur}, {"NextValidators", st.NextValidators, w.specNext, w.specPNext}} {
		got := snapOrNil(p.vs)
		if !specMatches(p.want, got) {
			w.o.Fail(w.step, "pipeline", fmt.Sprintf("%s: %s at height %d is not the set the history specifies: got=%s want=%s", where, p.name, st.LastBlockHeight, recsStr(got), specStr(p.want)))
		}
		if p.prop != 0 && propID(p.vs) != p.prop {
			w.o.Fail(w.step, "pipeline", fmt.Sprintf("%s: proposer of %s at height %d is %d, the history specifies %d", where, p.name, st.LastBlockHeight, propID(p.vs), p.prop))
		}
	}
	if st.LastHeightValidatorsChanged != w.specLC {
		w.o.Fail(w.step, "pipeline", fmt.Sprintf("%s: LastHeightValidatorsChanged=%d at height %d, the history specifies %d", where, st.LastHeightValidatorsChanged, st.LastBlockHeight, w.specLC))
	}
	// the proposer of round r of the next block: r rounds of the specified round-robin from Validators
	if len(w.specCur) > 0 && st.Validators != nil && len(st.Validators.Validators) > 0 {
		for r := int64(1); r <= 3; r++ {
			want := specIncrement(specCopy(w.specCur), r, types.PriorityWindowSizeFactor)
			var got uint64
			before := snapshot(st.Validators)
			if p, m := catch(func() { got = propID(st.Validators.CopyIncrementProposerPriority(r)) }); p {
				w.o.Fail(w.step, "panic", "CopyIncrementProposerPriority:"+m)
			} else if got != want {
				w.o.Fail(w.step, "spec-proposer", fmt.Sprintf("%s: proposer of round %d after height %d is %d, specified %d (Validators=%s)", where, r, st.LastBlockHeight, got, want, recsStr(before)))
			}
			if !sameRecs(before, snapshot(st.Validators)) {
				w.o.Fail(w.step, "isolation", "CopyIncrementProposerPriority changed the state's Validators")
			}
		}
	}
}

// genesis arrangement from the set in a slot (MakeGenesisState: Validators, its CopyIncrementProposerPriority(1), nil)
func (w *world) doGenesis(slot int, ask bool) {
	w.step++
	vs := w.slots[slot]
	before := w.current(slot)
	status := "ok"
	var nx *types.ValidatorSet
	panicked, msg := catch(func() { nx = vs.CopyIncrementProposerPriority(1) })
	if panicked {
		status = "PANIC"
		if len(before) > 0 {
			w.o.Fail(w.step, "panic", "genesis:"+msg)
		}
	} else {
		w.chain = LatestBlockState{ChainID: "verif", InitialHeight: 1, LastBlockHeight: 0, NextValidators: nx,
			Validators: vs.Copy(), LastValidators: nil, LastHeightValidatorsChanged: 1}
		w.chainOn = true
		w.specLast, w.specPLast = nil, 0
		w.specCur, w.specPCur = toSpec(before), propID(vs)
		w.specNext = toSpec(before)
		w.specPNext = specIncrement(w.specNext, 1, types.PriorityWindowSizeFactor)
		w.specLC = 1
		w.checkChainAgainstSpec("genesis")
	}
	w.note("genesis", status)
	a := 0
	if ask {
		a = 1
	}
	w.isolate(-1)
	w.o.Op(fmt.Sprintf("G %d %d", slot, a), w.chainLine(status, ask))
}

// one block: calculateValidatorSetUpdates + updateState on the carried state
func (w *world) doBlock(report []vrec, kind string, ask bool) {
	w.step++
	st := w.chain
	oldL, oldC, oldN := snapOrNil(st.LastValidators), snapOrNil(st.Validators), snapOrNil(st.NextValidators)
	oldPL, oldPC, oldPN := propID(st.LastValidators), propID(st.Validators), propID(st.NextValidators)
	height := st.LastBlockHeight + 1
	header := &types.Header{Height: height}
	var ns LatestBlockState
	var err error
	panicked, msg := catch(func() {
		ups := calculateValidatorSetUpdates(st.NextValidators.Validators, mkVals(report))
		ns, err = updateState(log.New(), st, types.BlockID{}, header, ups)
	})
	status := errClass(err)
	if panicked {
		status = "PANIC"
		w.o.Fail(w.step, "panic", fmt.Sprintf("block:%s next=%s report=%s", msg, recsStr(oldN), recsStr(report)))
	} else {
		// the state handed in is never modified (updateState works on copies)
		if !sameRecs(oldL, snapOrNil(st.LastValidators)) || !sameRecs(oldC, snapOrNil(st.Validators)) || !sameRecs(oldN, snapOrNil(st.NextValidators)) ||
			oldPL != propID(st.LastValidators) || oldPC != propID(st.Validators) || oldPN != propID(st.NextValidators) {
			w.o.Fail(w.step, "atomic", fmt.Sprintf("updateState changed the state it was given: next was=%s now=%s report=%s", recsStr(oldN), recsStr(snapOrNil(st.NextValidators)), recsStr(report)))
		}
		// what the specification derives
		changes, dup := specReportChanges(specRecs(w.specNext), report)
		var want []sval
		var errs map[string]bool
		switch {
		case dup:
			errs = map[string]bool{"err:dup": true}
			if _, e2 := specUpdate(specCopy(w.specNext), report, true, capTotal(), types.PriorityWindowSizeFactor); e2 != nil {
				for k := range e2 {
					errs[k] = true
				}
			}
		case len(changes) == 0:
			want = specCopy(w.specNext)
		default:
			want, errs = specUpdate(specCopy(w.specNext), changes, true, capTotal(), types.PriorityWindowSizeFactor)
		}
		switch {
		case err != nil && errs == nil:
			w.o.Fail(w.step, "spec-report", fmt.Sprintf("valid report rejected (%s): next=%s report=%s", status, recsStr(oldN), recsStr(report)))
		case err == nil && errs != nil:
			w.o.Fail(w.step, "rejects", fmt.Sprintf("invalid report accepted (%s): next=%s report=%s after=%s", classes(errs), recsStr(oldN), recsStr(report), recsStr(snapOrNil(ns.NextValidators))))
		case err != nil:
			if !errs[status] {
				w.o.Fail(w.step, "spec-report", fmt.Sprintf("error class %s not among %s: next=%s report=%s", status, classes(errs), recsStr(oldN), recsStr(report)))
			}
			// all-or-nothing for the whole state: an error returns the state that was passed in
			if ns.NextValidators != st.NextValidators || ns.Validators != st.Validators || ns.LastValidators != st.LastValidators ||
				ns.LastBlockHeight != st.LastBlockHeight || ns.LastHeightValidatorsChanged != st.LastHeightValidatorsChanged {
				w.o.Fail(w.step, "atomic", fmt.Sprintf("error %s but updateState returned another state (height %d -> %d, changed %d -> %d)", status, st.LastBlockHeight, ns.LastBlockHeight, st.LastHeightValidatorsChanged, ns.LastHeightValidatorsChanged))
			}
		default:
			// the pipeline: Validators <- NextValidators, LastValidators <- Validators, NextValidators <- update + one round
			w.specLast, w.specPLast = w.specCur, w.specPCur
			w.specCur, w.specPCur = w.specNext, w.specPNext
			w.specPNext = specIncrement(want, 1, types.PriorityWindowSizeFactor)
			w.specNext = want
			if len(changes) > 0 {
				w.specLC = height + 2
			}
			w.chain = ns
			if ns.LastBlockHeight != height {
				w.o.Fail(w.step, "pipeline", fmt.Sprintf("LastBlockHeight=%d after the block at height %d", ns.LastBlockHeight, height))
			}
			// directly against the state before the block (independent of the running specification)
			if !sameRecs(oldN, snapOrNil(ns.Validators)) || oldPN != propID(ns.Validators) {
				w.o.Fail(w.step, "pipeline", fmt.Sprintf("Validators after the block at height %d is not the previous NextValidators: got=%s want=%s", height, recsStr(snapOrNil(ns.Validators)), recsStr(oldN)))
			}
			if !sameRecs(oldC, snapOrNil(ns.LastValidators)) || oldPC != propID(ns.LastValidators) {
				w.o.Fail(w.step, "pipeline", fmt.Sprintf("LastValidators after the block at height %d is not the previous Validators: got=%s want=%s", height, recsStr(snapOrNil(ns.LastValidators)), recsStr(oldC)))
			}
			w.checkChainAgainstSpec("block")
			checkCentred(w.o, w.step, snapOrNil(ns.NextValidators), "after-block")
		}
	}
	w.note("block."+kind, status)
	if status != "ok" {
		w.o.Mark(fmt.Sprintf("block-reject:%s:%s:%s", status, recsStr(oldN), recsStr(report)))
	} else {
		w.o.Mark(fmt.Sprintf("block:%s:%s", recsStr(oldN), recsStr(report)))
	}
	a := 0
	if ask {
		a = 1
	}
	w.isolate(-1)
	w.o.Op(fmt.Sprintf("B %d %d%s", a, len(report), triples(report)), w.chainLine(status, ask))
}

// genReport: a report of the full new validator set derived from the current one.
func (w *world) genReport(cur []vrec) ([]vrec, string) {
	r := w.r
	rep := make([]vrec, 0, len(cur)+4)
	for _, v := range cur {
		rep = append(rep, vrec{v.id, v.power, 0})
	}
	name := ""
	small := func() int64 { return int64(1 + r.Intn(20)) }
	fits := func(p int64) int64 { // keep additions within the room left
		if rm := room(cur); p > rm/4 {
			if rm/4 >= 1 {
				return rm / 4
			}
			return 0
		}
		return p
	}
	changeSome := func() {
		for i := range rep {
			if r.Chance(1, 3) {
				np := small()
				if np > rep[i].power {
					np = rep[i].power + fits(np-rep[i].power)
				}
				rep[i].power = np
			}
		}
	}
	addSome := func() {
		tmp := append([]vrec{}, cur...)
		for i := 0; i < 1+r.Intn(2); i++ {
			p := fits(small())
			if p < 1 {
				return
			}
			v := vrec{w.freshID(tmp), p, int64(r.Intn(3))}
			tmp = append(tmp, v)
			rep = append(rep, v)
		}
	}
	omitSome := func() {
		if len(rep) > 1 {
			i := r.Intn(len(rep))
			rep = append(rep[:i], rep[i+1:]...)
		}
	}
	switch r.Pick(3, 4, 4, 3, 3, 4, 6, 3, 2, 2, 2, 1, 1, 2) {
	case 0:
		name = "same"
	case 1:
		name = "power"
		changeSome()
	case 2:
		name = "add"
		addSome()
	case 3:
		name = "omit"
		omitSome()
	case 4:
		name = "zero-known"
		if len(rep) > 1 {
			rep[r.Intn(len(rep))].power = 0
		}
	case 5:
		name = "mixed"
		changeSome()
		omitSome()
		addSome()
	case 6:
		name = "bad-zero-unknown" // power 0 for an address that is not a member, next to real changes
		switch r.Intn(3) {
		case 0:
			changeSome()
		case 1:
			addSome()
		case 2:
			omitSome()
		}
		tmp := append(append([]vrec{}, cur...), rep...)
		rep = append(rep, vrec{w.freshID(tmp), 0, 0})
		if r.Chance(1, 3) { // force at least one real change
			rep[0].power++
			if room(cur) < 1 {
				rep[0].power -= 2
				if rep[0].power < 1 {
					rep[0].power = 1
				}
			}
		}
	case 7:
		name = "bad-dup"
		if r.Bool() {
			changeSome()
		}
		d := rep[r.Intn(len(rep))]
		if r.Bool() {
			d.power = small()
		}
		rep = append(rep, d)
	case 8:
		name = "bad-neg"
		rep[r.Intn(len(rep))].power = -int64(1 + r.Intn(100))
		if r.Bool() {
			addSome()
		}
	case 9:
		name = "bad-toobig"
		if r.Bool() {
			rep[r.Intn(len(rep))].power = capTotal() + 1 + int64(r.Intn(3))
		} else {
			rep = append(rep, vrec{w.freshID(cur), capTotal() + 1, 0})
		}
	case 10:
		name = "bad-total"
		rm := room(cur)
		rep = append(rep, vrec{w.freshID(cur), rm + 1 + int64(r.Intn(2)), 0})
		if rep[len(rep)-1].power > capTotal() {
			rep[len(rep)-1].power = capTotal()
		}
	case 11:
		name = "empty"
		rep = rep[:0]
	case 12:
		name = "all-zero"
		for i := range rep {
			rep[i].power = 0
		}
	case 13:
		name = "replace-all"
		rep = rep[:0]
		tmp := append([]vrec{}, cur...)
		for i := 0; i < 1+r.Intn(3); i++ {
			v := vrec{w.freshID(tmp), small(), 0}
			tmp = append(tmp, v)
			rep = append(rep, v)
		}
	}
	p := r.Perm(len(rep))
	sh := make([]vrec, len(rep))
	for i, j := range p {
		sh[i] = rep[j]
	}
	return sh, name
}

// ---------------------------------------------------------------- change-set generators

const poolSize = 12

func (w *world) freshID(cur []vrec) uint64 {
	used := map[uint64]bool{}
	for _, v := range cur {
		used[v.id] = true
	}
	for t := 0; t < 50; t++ {
		id := uint64(1 + w.r.Intn(poolSize))
		if !used[id] {
			return id
		}
	}
	return uint64(100 + w.r.Intn(1000))
}

func total(rs []vrec) *big.Int { return specTotal(toSpec(rs)) }

// room left below the cap
func room(cur []vrec) int64 {
	t := total(cur)
	return new(big.Int).Sub(big.NewInt(capTotal()), t).Int64()
}

func (w *world) somePower(cur []vrec) int64 {
	rm := room(cur)
	switch w.r.Pick(4, 3, 2, 1) {
	case 0:
		return int64(1 + w.r.Intn(10))
	case 1:
		return int64(1 + w.r.Intn(2000))
	case 2:
		if rm > 4 {
			return rm/2 + int64(w.r.Intn(2))
		}
		return 1
	default:
		return int64(1<<20) + int64(w.r.Intn(100))
	}
}

func (w *world) genChanges(cur []vrec) ([]vrec, string) {
	r := w.r
	var cs []vrec
	kind := r.Pick(5, 5, 4, 5, 3, 2, 2, 2, 2, 2, 2, 1, 1, 1, 1, 4, 3)
	name := ""
	pickCur := func() vrec { return cur[r.Intn(len(cur))] }
	distinctCur := func(k int) []vrec {
		p := r.Perm(len(cur))
		if k > len(cur) {
			k = len(cur)
		}
		res := make([]vrec, k)
		for i := 0; i < k; i++ {
			res[i] = cur[p[i]]
		}
		return res
	}
	if len(cur) == 0 && kind != 0 && kind != 5 && kind != 6 && kind != 15 {
		kind = 0
	}
	noTrunc := false
	switch kind {
	case 0:
		name = "add"
		k := 1 + r.Intn(3)
		tmp := append([]vrec{}, cur...)
		for i := 0; i < k; i++ {
			v := vrec{w.freshID(tmp), w.somePower(tmp), int64(r.Intn(5)) - 2}
			if room(tmp) < v.power {
				v.power = 1
			}
			if room(tmp) < 1 {
				break
			}
			tmp = append(tmp, v)
			cs = append(cs, v)
		}
	case 1:
		name = "power"
		for _, v := range distinctCur(1 + r.Intn(3)) {
			rm := room(cur)
			p := int64(1 + r.Intn(20))
			if r.Chance(1, 4) && rm > 0 {
				p = v.power + int64(r.Intn(3))
				if p-v.power > rm {
					p = v.power
				}
			}
			if p-v.power > rm/4 {
				p = v.power
			}
			cs = append(cs, vrec{v.id, p, int64(r.Intn(3))})
		}
	case 2:
		name = "collapse" // big power -> 1 (1000 -> 1 style), possibly the largest validator
		big_ := cur[0]
		for _, v := range cur {
			if v.power > big_.power {
				big_ = v
			}
		}
		cs = append(cs, vrec{big_.id, 1, 0})
	case 3:
		name = "remove"
		k := 1 + r.Intn(2)
		if k >= len(cur) {
			k = len(cur) - 1
		}
		for _, v := range distinctCur(k) {
			cs = append(cs, vrec{v.id, 0, 0})
		}
		if len(cs) == 0 {
			name = "add"
			cs = append(cs, vrec{w.freshID(cur), 1 + int64(r.Intn(5)), 0})
		}
	case 4:
		name = "mixed"
		ds := distinctCur(len(cur))
		tmp := append([]vrec{}, cur...)
		for i, v := range ds {
			switch {
			case i == 0 && len(ds) > 1:
				cs = append(cs, vrec{v.id, 0, 0})
			case i == 1:
				p := int64(1 + r.Intn(50))
				if p > v.power {
					p = v.power
				}
				cs = append(cs, vrec{v.id, p, 0})
			}
		}
		for i := 0; i < 1+r.Intn(2); i++ {
			v := vrec{w.freshID(tmp), int64(1 + r.Intn(30)), 0}
			if room(tmp) < v.power {
				break
			}
			tmp = append(tmp, v)
			cs = append(cs, v)
		}
	case 5:
		name = "bad-dup"
		id := w.freshID(cur)
		if len(cur) > 0 && r.Bool() {
			id = pickCur().id
		}
		cs = append(cs, vrec{id, int64(1 + r.Intn(9)), 0}, vrec{id, int64(r.Intn(9)), 0})
		if r.Bool() {
			cs = append(cs, vrec{w.freshID(append(append([]vrec{}, cur...), vrec{id, 1, 0})), 3, 0})
		}
		if r.Chance(1, 3) {
			cs[1].power = -int64(1 + r.Intn(3))
		}
	case 6:
		name = "bad-neg"
		cs = append(cs, vrec{w.freshID(cur), -int64(1 + r.Intn(1000)), 0})
		if len(cur) > 0 && r.Bool() {
			cs = append(cs, vrec{pickCur().id, 5, 0})
		}
		if r.Chance(1, 4) {
			cs[0].power = math.MinInt64
		}
	case 7:
		name = "bad-unknown"
		cs = append(cs, vrec{w.freshID(cur), 0, 0})
		if r.Bool() {
			cs = append(cs, vrec{pickCur().id, pickCur().power, 0})
		}
	case 8:
		name = "bad-empty"
		for _, v := range cur {
			cs = append(cs, vrec{v.id, 0, 0})
		}
	case 9:
		name = "bad-cap" // total above the cap
		rm := room(cur)
		if r.Bool() {
			v := pickCur()
			cs = append(cs, vrec{v.id, v.power + rm + 1 + int64(r.Intn(3)), 0})
			if cs[0].power > capTotal() || cs[0].power < 0 {
				cs[0].power = capTotal()
			}
		} else {
			cs = append(cs, vrec{w.freshID(cur), rm/2 + 1, 0})
			tmp := append(append([]vrec{}, cur...), cs[0])
			cs = append(cs, vrec{w.freshID(tmp), rm - rm/2 + int64(r.Intn(2)), 0})
			if cs[1].power <= 0 {
				cs[1].power = 1
			}
		}
		if len(cur) > 1 && r.Bool() { // a removal in the same set that does not make enough room
			v := cur[len(cur)-1]
			if v.id != cs[0].id && v.power < 3 {
				cs = append(cs, vrec{v.id, 0, 0})
			}
		}
	case 10:
		name = "cap-exact" // reaches exactly the cap, or frees room by a removal in the same set
		rm := room(cur)
		if rm > 0 && r.Bool() {
			cs = append(cs, vrec{w.freshID(cur), rm, 0})
		} else if len(cur) > 1 {
			v := pickCur()
			cs = append(cs, vrec{v.id, 0, 0}, vrec{w.freshID(cur), rm + v.power, 0})
			if cs[1].power > capTotal() {
				cs[1].power = capTotal()
			}
		} else {
			cs = append(cs, vrec{w.freshID(cur), 1, 0})
			if rm < 1 {
				cs[0].power = 0
			}
		}
	case 11:
		name = "bad-toobig"
		cs = append(cs, vrec{w.freshID(cur), capTotal() + 1 + int64(r.Intn(5)), 0})
		if r.Bool() {
			cs[0].power = math.MaxInt64
		}
	case 12:
		name = "zero-address"
		cs = append(cs, vrec{0, int64(1 + r.Intn(5)), 0})
		if r.Bool() {
			cs = append(cs, vrec{w.freshID(cur), 2, 0})
		}
	case 15:
		// k entries, each individually legal, whose partial sums exceed the cap, exceed 2^63 and
		// (from 16 entries on) wrap back into range; some variants fit exactly
		name = "wrap"
		noTrunc = true
		k := 2 + r.Intn(15)
		style := r.Intn(6)
		tmp := append([]vrec{}, cur...)
		members := distinctCur(len(cur))
		for i := 0; i < k; i++ {
			var p int64
			switch style {
			case 0:
				p = capTotal()/int64(k) + int64(r.Intn(5)) - 2
			case 1:
				p = capTotal()/2 + int64(r.Intn(2))
			case 2:
				p = capTotal() - 1
			case 3:
				p = capTotal()
			case 4:
				p = []int64{capTotal(), capTotal() - 1, capTotal()/2 + 1, capTotal() / int64(k)}[r.Intn(4)]
			default:
				p = capTotal()/int64(k) - int64(len(cur)+2) // may fit once the members are removed
			}
			if p < 1 {
				p = 1
			}
			if i < len(members) && r.Chance(1, 4) { // raise a member instead of adding
				cs = append(cs, vrec{members[i].id, p, 0})
				continue
			}
			v := vrec{w.freshID(tmp), p, 0}
			tmp = append(tmp, v)
			cs = append(cs, v)
		}
		if len(cur) > 0 && (style == 5 || r.Chance(1, 3)) { // removals in the same change set
			used := map[uint64]bool{}
			for _, c := range cs {
				used[c.id] = true
			}
			for _, v := range cur {
				if !used[v.id] && (style == 5 || r.Bool()) {
					cs = append(cs, vrec{v.id, 0, 0})
				}
			}
		}
	case 16:
		// legal only if the decrease / removal is accounted before the increase
		name = "order-legal"
		v := pickCur()
		rm := room(cur)
		freed := v.power
		if v.power > 1 && r.Bool() {
			d := 1 + int64(r.Intn(int(min64(v.power-1, 1000))))
			cs = append(cs, vrec{v.id, v.power - d, 0})
			freed = d
		} else if len(cur) > 1 {
			cs = append(cs, vrec{v.id, 0, 0})
		} else {
			freed = 0
		}
		extra := int64(r.Intn(2)) // 0: exactly at the cap, 1: one above
		np := rm + freed + extra
		if np > capTotal() {
			np = capTotal()
		}
		if np < 1 {
			np = 1
		}
		var other *vrec
		for i := range cur {
			if cur[i].id != v.id {
				other = &cur[i]
			}
		}
		if other != nil && r.Bool() && other.power+np <= capTotal() {
			cs = append(cs, vrec{other.id, other.power + np, 0})
		} else {
			cs = append(cs, vrec{w.freshID(cur), np, 0})
		}
	case 13:
		name = "empty-changes"
	case 14:
		name = "replace-all" // remove every current validator and add new ones in one change set
		tmp := append([]vrec{}, cur...)
		for _, v := range cur {
			cs = append(cs, vrec{v.id, 0, 0})
		}
		for i := 0; i < 1+r.Intn(2); i++ {
			v := vrec{w.freshID(tmp), int64(1 + r.Intn(9)), 0}
			tmp = append(tmp, v)
			cs = append(cs, v)
		}
		if len(cs) > 12 {
			cs = cs[len(cs)-12:]
		}
	}
	if len(cs) > 12 && !noTrunc { // sort.Sort is a stable insertion sort only up to 12 elements
		cs = cs[:12]
	}
	// random presentation order
	p := r.Perm(len(cs))
	sh := make([]vrec, len(cs))
	for i, j := range p {
		sh[i] = cs[j]
	}
	return sh, name
}

func min64(a, b int64) int64 {
	if a < b {
		return a
	}
	return b
}

func pickTimes(r *c12Rand, allowBig bool) int64 {
	switch r.Pick(10, 4, 3, 2, 2, 1) {
	case 0:
		return 1
	case 1:
		return 2
	case 2:
		return 3
	case 3:
		return 4
	case 4:
		return 5
	default:
		if allowBig {
			return 1 << 16
		}
		return 5
	}
}

func runCase(o *c12Out, r *c12Rand, c int) {
	w := &world{o: o, r: r}
	for i := range w.slots {
		w.slots[i] = types.NewValidatorSet(nil)
	}
	o.Case(c, fmt.Sprintf("CASE %d", c))
	fair := c%8 == 7
	chainy := c%10 == 9 && !fair // mostly blocks through updateState on one carried state
	n := 1 + r.Intn(8)
	if r.Chance(1, 12) {
		n = 9 + r.Intn(8)
	}
	powers, kind := genPowers(r, n)
	if fair { // small totals so that the starvation bound fits into the run
		n = 1 + r.Intn(6)
		powers = make([]int64, n)
		for i := range powers {
			powers[i] = int64(1 + r.Intn(6))
		}
		if r.Chance(1, 3) {
			powers[r.Intn(n)] = int64(50 + r.Intn(951))
		}
		kind = 7
	}
	o.Count(fmt.Sprintf("powers.kind%d", kind))
	o.Count(fmt.Sprintf("nvals.%d", n))
	perm := r.Perm(16)
	init := make([]vrec, n)
	for i := range init {
		init[i] = vrec{uint64(perm[i] + 1), powers[i], 0}
		if r.Chance(1, 6) {
			init[i].prio = int64(r.Intn(100)) - 50 // ignored by NewValidatorSet
		}
	}
	ask := func() bool { return r.Chance(4, 5) }
	// malformed constructor inputs now and then (expected to panic)
	if r.Chance(1, 15) {
		bad := append([]vrec{}, init...)
		switch r.Intn(4) {
		case 0:
			bad = append(bad, bad[0])
		case 1:
			bad[0].power = -1
		case 2:
			bad[0].power = 0
		case 3:
			bad = append(bad, vrec{uint64(40), capTotal(), 0})
		}
		w.doNew(0, bad, ask())
	}
	if r.Chance(1, 40) {
		w.doNew(0, nil, ask())
		if r.Bool() {
			w.doInc(0, 1, ask()) // empty set: panics
		}
		if r.Bool() { // a set built by an update of the empty set: Proposer stays nil until asked
			cs, nm := w.genChanges(nil)
			w.doUpdate(0, cs, nm, false)
			cs, nm = w.genChanges(w.current(0))
			w.doUpdate(0, cs, nm, ask())
		}
	}
	w.doNew(0, init, ask())
	if chainy {
		w.doGenesis(0, ask())
	}
	if !fair && r.Chance(1, 5) {
		// priorities placed on the boundaries of the window rule, then the calls that renormalise
		sl := 1 + r.Intn(nSlots-1)
		w.doRaw(sl, w.genRaw(), r.Chance(1, 4))
		switch r.Intn(4) {
		case 0, 1:
			w.doInc(sl, int64(1+r.Intn(2)), ask())
		case 2:
			cur := w.current(sl)
			v := cur[r.Intn(len(cur))]
			np := v.power + int64(r.Intn(3)) - 1
			if np < 1 {
				np = 1
			}
			w.doUpdate(sl, []vrec{{v.id, np, 0}}, "power", ask())
		case 3:
			w.doCopyInc(sl, 1+r.Intn(nSlots-1), 1, ask())
		}
	}
	if !fair && r.Chance(1, 10) {
		// a set assembled by change sets alone (no round run, Proposer unset): priorities of old members
		// and newcomers differ, GetProposer() has to find the highest
		sl := 1 + r.Intn(nSlots-1)
		w.doNew(sl, nil, false)
		for i, k := 0, 2+r.Intn(3); i < k; i++ {
			cs, nm := w.genChanges(w.current(sl))
			w.doUpdate(sl, cs, nm, i == k-1 || r.Chance(1, 3))
		}
	}
	steps := 5 + r.Intn(36)
	if fair {
		steps = 3 + r.Intn(4)
	}
	bigUsed := false
	changed := false
	for s := 0; s < steps; s++ {
		slot := 0
		if r.Chance(1, 5) {
			slot = r.Intn(nSlots)
		}
		cur := w.current(slot)
		if len(cur) == 0 {
			if r.Chance(1, 6) {
				w.doInc(slot, 1, ask())
			} else {
				w.doCopy(0, slot, ask())
			}
			continue
		}
		if fair {
			T := total(cur).Int64()
			rounds := 50 + r.Intn(400)
			minp := cur[0].power
			for _, v := range cur {
				if v.power < minp {
					minp = v.power
				}
			}
			need := int64(1) << 40 // totals this large cannot be covered by a run of single rounds
			if tb := total(cur); tb.IsInt64() && T > 0 && T < 1<<30 {
				need = (int64(len(cur))+2)*T/minp + 1
			}
			if need > 0 && need <= 3000 && r.Chance(2, 3) {
				rounds = int(need) + r.Intn(50)
			}
			w.doRounds(slot, rounds, ask(), changed)
			changed = false
			cs, nm := w.genChanges(w.current(slot))
			if nm == "bad-cap" || nm == "cap-exact" || nm == "bad-toobig" || nm == "wrap" || nm == "order-legal" {
				cs, nm = []vrec{{cur[0].id, 1, 0}}, "collapse"
			}
			w.doUpdate(slot, cs, nm, ask())
			changed = true
			continue
		}
		weights := []int{10, 9, 2, 1, 1, 4, 3, 1}
		if chainy {
			weights = []int{3, 3, 1, 1, 1, 1, 24, 1}
		}
		switch r.Pick(weights...) {
		case 6:
			if !w.chainOn || r.Chance(1, 12) {
				w.doGenesis(slot, ask())
			} else {
				rep, nm := w.genReport(snapOrNil(w.chain.NextValidators))
				w.doBlock(rep, nm, ask())
			}
		case 7:
			k := pickTimes(r, false)
			if r.Chance(1, 30) {
				k = -int64(r.Intn(2))
			}
			w.doCopyInc(slot, r.Intn(nSlots), k, ask())
		case 5:
			rep, nm := w.genReport(cur)
			w.doReport(slot, rep, nm, ask())
		case 0:
			k := pickTimes(r, !bigUsed && c%50 == 3)
			if k > 5 {
				bigUsed = true
				if *c12Tier != "thorough" && len(cur) > 4 {
					k = 1 << 12 // quick tier: the 2^16-round calls only on sets of up to four validators
				}
			}
			if r.Chance(1, 60) {
				k = -int64(r.Intn(2))
			}
			w.doInc(slot, k, ask())
		case 1:
			cs, nm := w.genChanges(cur)
			w.doUpdate(slot, cs, nm, ask())
		case 2:
			w.doCopy(slot, r.Intn(nSlots), ask())
		case 3:
			w.doRounds(slot, 1+r.Intn(30), ask(), false)
		case 4:
			nv := 1 + r.Intn(5)
			ps, _ := genPowers(r, nv)
			p2 := r.Perm(16)
			rs := make([]vrec, nv)
			for i := range rs {
				rs[i] = vrec{uint64(p2[i] + 1), ps[i], 0}
			}
			w.doNew(r.Intn(nSlots), rs, ask())
		}
	}
	sig := fmt.Sprintf("%v|%s|%s", powers, strings.Join(w.kinds, ","), strings.Join(w.outs, ","))
	nontrivial := false
	for i, k := range w.kinds {
		if strings.HasPrefix(k, "upd.") || strings.HasPrefix(k, "block.") || w.outs[i] == "ok-rescaled" {
			nontrivial = true
		}
	}
	if nontrivial {
		o.Mark(sig)
	}
}

// ---------------------------------------------------------------- PRNG (copy of harness/internal/gen)

type c12Rand struct{ s uint64 }

func c12NewRand(seed uint64) *c12Rand { return &c12Rand{s: seed*0x9E3779B97F4A7C15 + 0x1234567} }

// Fork derives an independent stream for case i (so -only i regenerates the same case).
func (r *c12Rand) Fork(i uint64) *c12Rand {
	return &c12Rand{s: r.s ^ (i+1)*0xBF58476D1CE4E5B9}
}

func (r *c12Rand) U64() uint64 {
	r.s += 0x9E3779B97F4A7C15
	z := r.s
	z = (z ^ (z >> 30)) * 0xBF58476D1CE4E5B9
	z = (z ^ (z >> 27)) * 0x94D049BB133111EB
	return z ^ (z >> 31)
}

func (r *c12Rand) Intn(n int) int {
	if n <= 0 {
		return 0
	}
	return int(r.U64() % uint64(n))
}

func (r *c12Rand) Bool() bool { return r.U64()&1 == 1 }

// Chance returns true with probability num/den.
func (r *c12Rand) Chance(num, den int) bool { return r.Intn(den) < num }

// Pick returns an index distributed according to the weights.
func (r *c12Rand) Pick(weights ...int) int {
	t := 0
	for _, w := range weights {
		t += w
	}
	x := r.Intn(t)
	for i, w := range weights {
		if x < w {
			return i
		}
		x -= w
	}
	return len(weights) - 1
}

func (r *c12Rand) Bytes(n int) []byte {
	b := make([]byte, n)
	for i := range b {
		b[i] = byte(r.U64())
	}
	return b
}

// Perm returns a random permutation of 0..n-1.
func (r *c12Rand) Perm(n int) []int {
	p := make([]int, n)
	for i := range p {
		p[i] = i
	}
	for i := n - 1; i > 0; i-- {
		j := r.Intn(i + 1)
		p[i], p[j] = p[j], p[i]
	}
	return p
}

// ---------------------------------------------------------------- output files (copy of harness/internal/out)

type c12Out struct {
	dir              string
	fin, fimpl, forc *os.File
	In, Impl, Orc    *bufio.Writer
	Dist             map[string]int
	Samples          []string
	Cases, Ops       int
	Nontrivial       map[string]bool
	Rule             string
	Fails            int
	curCase          int
	curSample        []string
	maxSamples       int
}

var (
	c12Seed  = flag.Uint64("seed", 1, "PRNG seed")
	c12N     = flag.Int("n", 100, "number of generated cases")
	c12Dir   = flag.String("out", "", "output directory")
	c12Only  = flag.Int("only", -1, "generate and run only this case index")
	c12Tier  = flag.String("tier", "quick", "quick|thorough")
	c12Facts = flag.String("facts", "", "write Generated/C12Facts.v to this path and exit")
)


func c12Open() *c12Out {
	if *c12Dir == "" {
		fmt.Fprintln(os.Stderr, "-out required")
		os.Exit(2)
	}
	os.MkdirAll(*c12Dir, 0o755)
	o := &c12Out{dir: *c12Dir, Dist: map[string]int{}, Nontrivial: map[string]bool{}, maxSamples: 3}
	var err error
	if o.fin, err = os.Create(filepath.Join(*c12Dir, "in.txt")); err != nil {
		panic(err)
	}
	o.fimpl, _ = os.Create(filepath.Join(*c12Dir, "impl.txt"))
	o.forc, _ = os.Create(filepath.Join(*c12Dir, "oracle.txt"))
	o.In, o.Impl, o.Orc = bufio.NewWriterSize(o.fin, 1<<20), bufio.NewWriterSize(o.fimpl, 1<<20), bufio.NewWriterSize(o.forc, 1<<16)
	return o
}

// Want reports whether case i should be generated (honours -only).
func c12Want(i int) bool { return *c12Only < 0 || *c12Only == i }

// Case starts case n: header is the full "CASE n ..." line for the model driver.
func (o *c12Out) Case(n int, header string) {
	o.flushSample()
	o.curCase = n
	o.Cases++
	fmt.Fprintln(o.In, header)
	fmt.Fprintf(o.Impl, "CASE %d\n", n)
	o.curSample = []string{header}
}

// Op records one operation (model input line(s)) and the implementation's observable line.
func (o *c12Out) Op(input string, observed string) {
	o.Ops++
	fmt.Fprintln(o.In, input)
	fmt.Fprintln(o.Impl, observed)
	if len(o.curSample) < 40 {
		o.curSample = append(o.curSample, input+"  =>  "+observed)
	}
}

// InOnly writes an input line that produces no observable (declarations).
func (o *c12Out) InOnly(line string) {
	fmt.Fprintln(o.In, line)
	if len(o.curSample) < 40 {
		o.curSample = append(o.curSample, line)
	}
}

func (o *c12Out) flushSample() {
	if o.curSample != nil && len(o.Samples) < o.maxSamples {
		s := ""
		for _, l := range o.curSample {
			s += l + "\n"
		}
		o.Samples = append(o.Samples, s)
	}
	o.curSample = nil
}

// Fail records a direct-oracle failure on the implementation.
func (o *c12Out) Fail(step int, class string, detail string) {
	o.Fails++
	fmt.Fprintf(o.Orc, "FAIL case=%d step=%d class=%s %s\n", o.curCase, step, class, detail)
}

func (o *c12Out) Count(key string) { o.Dist[key]++ }

// Mark registers a distinct non-trivial case signature (counted once per distinct key).
func (o *c12Out) Mark(key string) { o.Nontrivial[key] = true }

func (o *c12Out) Close() {
	o.flushSample()
	o.In.Flush()
	o.Impl.Flush()
	o.Orc.Flush()
	o.fin.Close()
	o.fimpl.Close()
	o.forc.Close()
	keys := make([]string, 0, len(o.Dist))
	for k := range o.Dist {
		keys = append(keys, k)
	}
	sort.Strings(keys)
	st := map[string]interface{}{
		"cases": o.Cases, "ops": o.Ops, "distinct_nontrivial": len(o.Nontrivial),
		"rule": o.Rule, "dist": o.Dist, "samples": o.Samples, "oracle_failures": o.Fails,
		"seed": *c12Seed,
	}
	b, _ := json.MarshalIndent(st, "", " ")
	os.WriteFile(filepath.Join(o.dir, "stats.json"), b, 0o644)
}
