//go:build verif

// C01 only (this file is in C01's overlay, not in C04's): scripted schedule families, state oracles
// and the hand-crafted commit families of the agreement check.
//
//   - "relock": 4..7 real ConsensusStates under a director that holds every message and hands each
//     node exactly the votes the schedule wants it to see: validator X locks block A in round r1, a
//     polka for another block C (or for nil) forms in round r2 but nobody sees it complete, X re-locks
//     A in round r3, and the rest of the round-r2 polka reaches X late (after the re-lock, in the next
//     round) or — the legitimate neighbours — before the re-lock / still in round r2.  Gaps of
//     all-nil rounds, 0..2 Byzantine validators (equivocating towards X), a correct dissenter that
//     misses the proposal.  Afterwards the network is synchronous.  Oracles: the obligations of
//     Agreement.v on the signature log (lock rule!), agreement, commit quorum, and
//   - the lock-state oracle after EVERY input of EVERY run (random runs included): a correct
//     validator that holds a lock signed a precommit for exactly that block in exactly LockedRound
//     and for no block in a later round (the bookkeeping the two lock-release tests of state.go rely on).
//   - "direct:vc": hand-crafted commits against the real ValidatorSet.VerifyCommit (one validator's
//     CommitSig in several slots, slots permuted, addresses renamed / rotated / all naming one validator
//     (fix be3229d: a present slot must name its own validator, the block time is weighted by the names),
//     other height / round /
//     block / vote type under the signature, foreign keys, malformed slots, sizes n-1 / n+1, tallies at
//     the exact 2/3 boundary); observable = error class, predicted by the extracted Coq model
//     (C01/Sync.v verify_commit); direct oracle = an independent tally of the DISTINCT validators whose
//     key signed a precommit for the wanted (height, block).
//   - "direct:sync": harness-built chains with validator-set changes offered to the real block-sync
//     processor with forged commits mixed in (model: C01/Sync.v p_handle).
//   - block sync after the random runs: commits in which one Byzantine validator's CommitSig fills
//     every slot, genuine commits with renamed slot addresses; Byzantine proposals whose LastCommit is
//     forged the same ways (a correct validator
//     must never vote for such a block: independent tally of the LastCommit of every block a correct
//     validator signs for).
package consensus

import (
	"fmt"
	"math/big"
	"os"
	"strconv"
	"strings"
	"time"

	"github.com/kardiachain/go-kardia/blockchain"
	"github.com/kardiachain/go-kardia/configs"
	cstypes "github.com/kardiachain/go-kardia/consensus/types"
	"github.com/kardiachain/go-kardia/kai/kaidb/memorydb"
	"github.com/kardiachain/go-kardia/kai/state/cstate"
	"github.com/kardiachain/go-kardia/lib/common"
	"github.com/kardiachain/go-kardia/lib/crypto"
	"github.com/kardiachain/go-kardia/lib/log"
	"github.com/kardiachain/go-kardia/lib/p2p"
	kproto "github.com/kardiachain/go-kardia/proto/kardiachain/types"
	"github.com/kardiachain/go-kardia/trie"
	"github.com/kardiachain/go-kardia/types"
)

func init() {
	netC01Pick = c01Pick
	netC01Direct = c01Direct
	netC01Roles = c01Roles
	netC01Run = c01Run
	netC01AfterStep = c01AfterStep
	netC01OnSign = c01OnSign
	netC01SyncKinds = c01SyncKinds
	netC01ByzCommit = c01ByzCommit
	netC01ByzExtra = c01ByzExtra
	netC01OnCommit = c01OnCommit
	netC01NoteBlock = func(s *netSim, blk *types.Block, kind string) {
		if kind != "valid" {
			c01Of(s).invalid[blk.Hash()] = kind
		}
	}
}

// c01Pick: which family run idx belongs to.
func c01Pick(idx int) string {
	switch idx % 10 {
	case 1:
		return "resign"
	case 3:
		return "direct:vc"
	case 5:
		return "direct:sync"
	case 7:
		return "relock"
	case 8:
		if (idx/10)%2 == 0 {
			return "stale-lock"
		}
		return "commit-skip"
	}
	return ""
}

// ---------------------------------------------------------------------------------------------
// state of the scripted families / oracles of one run

type c01State struct {
	x        int // the validator that locks, re-locks and receives the late polka
	lcOK     map[common.Hash]bool
	lcForged int
	invalid  map[common.Hash]string // Byzantine blocks built to be invalid, and how
}

func c01Of(s *netSim) *c01State {
	if s.c01 == nil {
		s.c01 = &c01State{x: -1, lcOK: map[common.Hash]bool{}, invalid: map[common.Hash]string{}}
	}
	return s.c01.(*c01State)
}

// ---------------------------------------------------------------------------------------------
// oracles

// c01AfterStep: the lock bookkeeping of a correct validator against its own signature log.
func c01AfterStep(s *netSim, nd *netNode, what string) {
	cs := nd.cs
	ht := s.hs[cs.Height]
	if ht == nil {
		return
	}
	c01Maj23(s, nd, ht, what)
	idx, isVal := ht.idxOf[nd.id]
	if cs.LockedBlock == nil {
		if cs.LockedRound != 0 || cs.LockedBlockParts != nil {
			s.fail("lock-state", fmt.Sprintf("node=%d h=%d r=%d: no locked block but LockedRound=%d after %s", nd.id, cs.Height, cs.Round, cs.LockedRound, what))
		}
		if !isVal {
			return
		}
		// no lock: the lock of its last precommit for a block must have been released by a polka for
		// another value in a later round, up to the node's round (Lock.v: AUnlock / the nil polka)
		for k := len(ht.trace) - 1; k >= 0; k-- {
			e := ht.trace[k]
			if e.val != idx || e.typ != 2 || e.bid == 0 {
				continue
			}
			released := false
			for _, q := range ht.trace {
				if q.typ == 1 && q.round > e.round && q.round <= cs.Round && q.bid != e.bid && netQuorum(ht.signedPower(len(ht.trace), 1, q.round, q.bid), ht.total) {
					released = true
					break
				}
			}
			if !released {
				s.fail("lock-state", fmt.Sprintf("node=%d h=%d r=%d: holds no lock although it precommitted block %d in round %d and no polka for another value exists in a round in (%d, %d] (after %s)",
					nd.id, cs.Height, cs.Round, e.bid, e.round, e.round, cs.Round, what))
			}
			return
		}
		return
	}
	if cs.LockedBlockParts == nil {
		s.fail("lock-state", fmt.Sprintf("node=%d h=%d r=%d: locked block without parts after %s", nd.id, cs.Height, cs.Round, what))
		return
	}
	if cs.LockedRound < 1 || cs.LockedRound > cs.Round {
		s.fail("lock-state", fmt.Sprintf("node=%d h=%d r=%d: LockedRound=%d outside 1..Round after %s", nd.id, cs.Height, cs.Round, cs.LockedRound, what))
		return
	}
	if !isVal {
		return // not a validator at this height: it locks but signs nothing
	}
	locked := ht.bid(types.BlockID{Hash: cs.LockedBlock.Hash(), PartsHeader: cs.LockedBlockParts.Header()})
	// the last precommit for a block that this validator signed
	for k := len(ht.trace) - 1; k >= 0; k-- {
		e := ht.trace[k]
		if e.val != idx || e.typ != 2 || e.bid == 0 {
			continue
		}
		if e.bid != locked || e.round != cs.LockedRound {
			s.fail("lock-state", fmt.Sprintf("node=%d h=%d r=%d: locked on block %d with LockedRound=%d, but its last precommit for a block is for block %d in round %d (after %s)",
				nd.id, cs.Height, cs.Round, locked, cs.LockedRound, e.bid, e.round, what))
		}
		return
	}
	s.fail("lock-state", fmt.Sprintf("node=%d h=%d r=%d: locked on block %d (LockedRound=%d) without having signed a precommit for it (after %s)", nd.id, cs.Height, cs.Round, locked, cs.LockedRound, what))
}

// c01Maj23: a +2/3 majority of a node's vote set is backed by the power of the DISTINCT validators
// whose vote for that value the set holds (a quorum is a set of validators, however often one signs).
func c01Maj23(s *netSim, nd *netNode, ht *netHeight, what string) {
	cs := nd.cs
	lo := uint32(1)
	if cs.Round > 10 {
		lo = cs.Round - 10
	}
	for r := lo; r <= cs.Round+3; r++ {
		for _, vs := range []*types.VoteSet{cs.Votes.Prevotes(r), cs.Votes.Precommits(r)} {
			if vs == nil {
				continue
			}
			bid, ok := vs.TwoThirdsMajority()
			if !ok {
				continue
			}
			ba := vs.BitArrayByBlockID(bid)
			if ba == nil {
				continue
			}
			p := int64(0)
			for i, pw := range ht.powers {
				if ba.GetIndex(i) {
					p += pw
				}
			}
			if !netQuorum(p, ht.total) {
				s.fail("maj23-not-backed-by-distinct-validators", fmt.Sprintf("node=%d h=%d r=%d: its %s set of round %d reports +2/3 for block %d, but the validators whose vote for it the set holds have %d of %d voting power (after %s)",
					nd.id, cs.Height, cs.Round, map[bool]string{true: "precommit", false: "prevote"}[vs.Type() == kproto.PrecommitType], r, ht.bid(bid), p, ht.total, what))
				return
			}
		}
	}
}

// c01OnCommit: the commit a correct node saves is backed by the power of the distinct validators whose
// precommit for the block it carries (slot i = validator i, signature recovered independently).
func c01OnCommit(s *netSim, nd *netNode, ht *netHeight, seen *types.Commit) {
	p := int64(0)
	if seen != nil && len(seen.Signatures) == len(ht.powers) {
		for i := range seen.Signatures {
			if !seen.Signatures[i].ForBlock() {
				continue
			}
			if addr, ok := c01Recover(seen.GetVote(uint32(i))); ok && addr.Equal(s.keys[ht.nodeOf[i]].GetAddress()) {
				p += ht.powers[i]
			}
		}
	}
	if !netQuorum(p, ht.total) {
		s.fail("commit-not-backed-by-distinct-validators", fmt.Sprintf("height %d: node %d committed block %d in round %d on a commit in which the distinct validators with a valid precommit for it hold %d of %d voting power",
			ht.h, nd.id, ht.bid(seen.BlockID), seen.Round, p, ht.total))
	}
}

// c01Recover: the address whose key made the signature over the vote's sign bytes (secp256k1
// recovery: C11's trusted base), independent of any slot / address / index the vote carries.
func c01Recover(v *types.Vote) (common.Address, bool) {
	var addr common.Address
	ok := false
	netGuarded(func() {
		pub, err := crypto.SigToPub(crypto.Keccak256(types.VoteSignBytes(netChainID, v.ToProto())), v.Signature)
		if err == nil && pub != nil {
			addr, ok = crypto.PubkeyToAddress(*pub), true
		}
	})
	return addr, ok
}

// c01CommitPower: the voting power of the DISTINCT validators of height ht whose key signed a
// precommit for the commit's block (as the commit presents it: height, round, block id, the slot's
// timestamp), whatever slot the signature sits in and whatever address the slot names.
func c01CommitPower(s *netSim, ht *netHeight, commit *types.Commit) int64 {
	if commit == nil {
		return 0
	}
	seen := map[int]bool{}
	p := int64(0)
	for i := range commit.Signatures {
		if !commit.Signatures[i].ForBlock() || len(commit.Signatures[i].Signature) == 0 {
			continue
		}
		addr, ok := c01Recover(commit.GetVote(uint32(i)))
		if !ok {
			continue
		}
		id, known := s.idOf[addr]
		if !known {
			continue
		}
		vi, in := ht.idxOf[id]
		if !in || seen[vi] {
			continue
		}
		seen[vi] = true
		p += ht.powers[vi]
	}
	return p
}

// c01OnSign: a correct validator signs a vote for a block whose LastCommit does not prove the
// previous block (fewer than +2/3 of the distinct validators of the previous height signed it).
func c01OnSign(s *netSim, node int, ht *netHeight, e netSig, bid types.BlockID) {
	if e.bid == 0 {
		return
	}
	if e.typ == 2 && node < len(s.nodes) && s.nodes[node] != nil && s.nodes[node].cs != nil {
		// enterPrecommit sets the lock before it signs: what the node holds now is the lock of this precommit
		cs := s.nodes[node].cs
		lk := "-"
		if cs.LockedBlock != nil && cs.LockedBlockParts != nil {
			lk = fmt.Sprintf("%d@%d", ht.bid(types.BlockID{Hash: cs.LockedBlock.Hash(), PartsHeader: cs.LockedBlockParts.Header()}), cs.LockedRound)
		}
		ht.trace[len(ht.trace)-1].lock = lk
	}
	if how, bad := c01Of(s).invalid[bid.Hash]; bad {
		s.fail("vote-for-invalid-block", fmt.Sprintf("height %d: validator %d (node %d) signed a %s in round %d for block %d, which a Byzantine proposer built to be invalid (%s)",
			ht.h, e.val, node, map[int]string{1: "prevote", 2: "precommit"}[e.typ], e.round, e.bid, how))
	}
	if ht.h < 2 {
		return
	}
	blk := ht.blocks[bid.Hash]
	pht := s.hs[ht.h-1]
	if blk == nil || pht == nil || ht.state == nil {
		return
	}
	st := c01Of(s)
	ok, done := st.lcOK[blk.Hash()]
	if !done {
		lc := blk.LastCommit()
		ok = lc != nil && lc.Height == ht.h-1 && lc.BlockID.Equal(ht.state.LastBlockID) && len(lc.Signatures) == len(pht.powers) &&
			netQuorum(c01CommitPower(s, pht, lc), pht.total)
		if ok { // every present slot names the validator of the slot (the block time is weighted by the named validators)
			for i, sg := range lc.Signatures {
				if !sg.Absent() && !sg.ValidatorAddress.Equal(s.keys[pht.nodeOf[i]].GetAddress()) {
					ok = false
				}
			}
		}
		st.lcOK[blk.Hash()] = ok
	}
	if !ok {
		s.fail("vote-for-unjustified-lastcommit", fmt.Sprintf("height %d: validator %d (node %d) signed a %s for block %d in round %d, whose LastCommit carries valid precommits of %d of %d voting power for block %d of height %d (needed: more than 2/3, every present slot naming its own validator)",
			ht.h, e.val, node, map[int]string{1: "prevote", 2: "precommit"}[e.typ], e.bid, e.round, c01CommitPower(s, pht, blk.LastCommit()), pht.total, pht.bid(ht.state.LastBlockID), ht.h-1))
	}
}

// ---------------------------------------------------------------------------------------------
// forged commits (block sync after a run, LastCommit of Byzantine proposals)

// c01Repeat: a commit for (h, round, bid) in which the precommit of ONE validator (Byzantine
// validator b, which really signs it) fills every slot: with the signer's own address in each slot
// ("addr") or with the address of the slot's validator ("slot").
func c01Repeat(s *netSim, ht *netHeight, b int, round uint32, bid types.BlockID, how string) *types.Commit {
	v := s.byzVote(b, ht.h, kproto.PrecommitType, round, bid)
	if v == nil {
		return nil
	}
	sigs := make([]types.CommitSig, len(ht.powers))
	for i := range sigs {
		sigs[i] = v.CommitSig()
		if how == "slot" {
			sigs[i].ValidatorAddress = s.keys[ht.nodeOf[i]].GetAddress()
		}
	}
	return types.NewCommit(ht.h, round, bid, sigs)
}

// c01SyncKinds: additional forged offers for the block-sync part of a run.  Returns the two blocks
// to offer for heights h, h+1 and whether the kind applies.
func c01SyncKinds(s *netSim, h uint64, ht *netHeight, first, second *types.Block, kind string) (*types.Block, *types.Block, bool) {
	bl := s.byzIDs(ht)
	lc := second.LastCommit()
	rebuild := func(b *types.Block, c *types.Commit) *types.Block {
		return types.NewBlock(b.Header(), nil, c, nil, trie.NewStackTrie(nil))
	}
	switch kind {
	case "byz-repeated-addr", "byz-repeated-slot": // another block, "committed" by one Byzantine validator in every slot
		if len(bl) == 0 {
			return nil, nil, false
		}
		hd := first.Header()
		hd.GasLimit += 2
		ob := types.NewBlock(hd, nil, first.LastCommit(), nil, trie.NewStackTrie(nil))
		obid := types.BlockID{Hash: ob.Hash(), PartsHeader: ob.MakePartSet(types.BlockPartSizeBytes).Header()}
		c := c01Repeat(s, ht, bl[s.r.Intn(len(bl))], lc.Round, obid, strings.TrimPrefix(kind, "byz-repeated-"))
		if c == nil {
			return nil, nil, false
		}
		return ob, rebuild(second, c), true
	case "permuted": // the genuine signatures, each in another validator's slot
		n := len(lc.Signatures)
		if n < 2 {
			return nil, nil, false
		}
		sigs := make([]types.CommitSig, n)
		k := 1 + s.r.Intn(n-1)
		for i := range sigs {
			sigs[(i+k)%n] = lc.Signatures[i]
		}
		return first, rebuild(second, types.NewCommit(lc.Height, lc.Round, lc.BlockID, sigs)), true
	case "renamed": // the genuine signatures in their slots, the addresses moved on to other validators
		n := len(lc.Signatures)
		if n < 2 {
			return nil, nil, false
		}
		sigs := append([]types.CommitSig{}, lc.Signatures...)
		k := 1 + s.r.Intn(n-1)
		for i := range sigs {
			if !sigs[i].Absent() {
				sigs[i].ValidatorAddress = s.keys[ht.nodeOf[(i+k)%n]].GetAddress()
			}
		}
		return first, rebuild(second, types.NewCommit(lc.Height, lc.Round, lc.BlockID, sigs)), true
	case "other-round": // the genuine signatures under another round number
		return first, rebuild(second, types.NewCommit(lc.Height, lc.Round+1, lc.BlockID, append([]types.CommitSig{}, lc.Signatures...))), true
	}
	return nil, nil, false
}

// c01ByzCommit: sometimes the LastCommit of a Byzantine proposal is forged: the Byzantine proposer's
// own precommit for the (really committed) previous block in every slot, or too few signatures.
func c01ByzCommit(s *netSim, h uint64, commit *types.Commit) (*types.Commit, string) {
	pht := s.hs[h-1]
	if pht == nil || commit == nil || !s.r.Chance(1, 3) {
		return commit, ""
	}
	bl := s.byzIDs(pht)
	switch s.r.Intn(4) {
	case 3: // the genuine signatures in their slots, the (unsigned) addresses renamed: re-weighs the block-time median
		cp := types.NewCommit(commit.Height, commit.Round, commit.BlockID, append([]types.CommitSig{}, commit.Signatures...))
		n := len(cp.Signatures)
		if n != len(pht.powers) || n < 2 {
			return commit, ""
		}
		k, to, changed := 1+s.r.Intn(n-1), s.r.Intn(n), false
		all := s.r.Chance(1, 2)
		for i := range cp.Signatures {
			if cp.Signatures[i].Absent() {
				continue
			}
			j := (i + k) % n
			if all {
				j = to
			}
			if j != i {
				cp.Signatures[i].ValidatorAddress = s.keys[pht.nodeOf[j]].GetAddress()
				changed = true
			}
		}
		if !changed {
			return commit, ""
		}
		c01Of(s).lcForged++
		return cp, "lc-renamed"
	case 0, 1:
		if len(bl) == 0 {
			return commit, ""
		}
		how := []string{"addr", "slot"}[s.r.Intn(2)]
		if c := c01Repeat(s, pht, bl[s.r.Intn(len(bl))], commit.Round, commit.BlockID, how); c != nil {
			c01Of(s).lcForged++
			return c, "lc-repeated-" + how
		}
	case 2: // at most 2/3 of the power left
		cp := types.NewCommit(commit.Height, commit.Round, commit.BlockID, append([]types.CommitSig{}, commit.Signatures...))
		if len(cp.Signatures) != len(pht.powers) {
			return commit, ""
		}
		left := int64(0)
		for i, sg := range cp.Signatures {
			if sg.ForBlock() {
				left += pht.powers[i]
			}
		}
		for _, i := range s.r.Perm(len(cp.Signatures)) {
			if !netQuorum(left, pht.total) {
				break
			}
			if cp.Signatures[i].ForBlock() {
				left -= pht.powers[i]
				cp.Signatures[i] = types.NewCommitSigAbsent()
			}
		}
		if left == 0 {
			return commit, ""
		}
		c01Of(s).lcForged++
		return cp, "lc-insufficient"
	}
	return commit, ""
}

// ---------------------------------------------------------------------------------------------
// the director of the scripted schedules

type c01Dir struct {
	s    *netSim
	ht   *netHeight
	x    *netNode
	cor  []*netNode
	byz  []int
	a, c types.BlockID
	byzV map[string]*netMsg
	why  string
}

func (d *c01Dir) fail(why string) bool {
	if d.why == "" {
		d.why = why
	}
	if os.Getenv("C01_DEBUG") != "" {
		fmt.Printf("relock: %s; x=node%d byz=%v; %s\n", why, d.x.id, d.byz, d.s.dump())
	}
	return false
}

func (d *c01Dir) fire(l ...*netNode) {
	for _, nd := range l {
		if nd.dead == "" && nd.ticker.fire() {
			d.s.handleTock(nd, len(nd.ticker.tocks)-1)
		}
	}
}

// give hands nd every archived message of the height that satisfies pred and that nd has not been
// given yet, in the order of the archive.
func (d *c01Dir) give(nd *netNode, pred func(m *netMsg) bool) int {
	k := 0
	for _, m := range append([]*netMsg{}, d.ht.archive...) {
		if nd.dead != "" {
			break
		}
		if !nd.seen[m.id] && pred(m) {
			peer := fmt.Sprintf("n%d", m.from)
			if d.s.byz[m.from] {
				peer = fmt.Sprintf("byz%d", m.from)
			}
			d.s.deliver(nd, m, peer)
			k++
		}
	}
	return k
}

func (d *c01Dir) giveMsgs(nd *netNode, l []*netMsg) {
	for _, m := range l {
		if nd.dead == "" && !nd.seen[m.id] {
			peer := fmt.Sprintf("n%d", m.from)
			if d.s.byz[m.from] {
				peer = fmt.Sprintf("byz%d", m.from)
			}
			d.s.deliver(nd, m, peer)
		}
	}
}

// byzVote: the (archived) vote of Byzantine validator b, signed once per (type, round, block id).
func (d *c01Dir) byzVote(b int, typ kproto.SignedMsgType, round uint32, bid types.BlockID) *netMsg {
	k := fmt.Sprintf("%d/%d/%d/%s", b, typ, round, netBidKey(bid))
	if m, ok := d.byzV[k]; ok {
		return m
	}
	v := d.s.byzVote(b, d.ht.h, typ, round, bid)
	if v == nil {
		return nil
	}
	m := d.s.archiveMsg(&netMsg{h: d.ht.h, kind: 'V', vote: v, from: b})
	d.byzV[k] = m
	return m
}

func (d *c01Dir) votesOf(typ kproto.SignedMsgType, round uint32, correctOnly bool) []*netMsg {
	var l []*netMsg
	for _, m := range d.ht.archive {
		if m.kind == 'V' && m.vote.Type == typ && m.vote.Round == round && (!correctOnly || !d.s.byz[m.from]) {
			l = append(l, m)
		}
	}
	return l
}

func (d *c01Dir) power(l []*netMsg) int64 {
	p := int64(0)
	for _, m := range l {
		p += d.ht.powers[m.vote.ValidatorIndex]
	}
	return p
}

// view picks, among the candidate votes (at most one per validator), a subset that contains the
// vote of validator `own`, carries more than 2/3 of the power and — noPolka — no more than 2/3 for
// any single value.  nil when there is none.
func (d *c01Dir) view(cands []*netMsg, own int, noPolka bool) []*netMsg {
	if !noPolka {
		return cands
	}
	var feas [][]*netMsg
	for mask := 1; mask < 1<<uint(len(cands)); mask++ {
		var sub []*netMsg
		hasOwn := false
		by := map[string]int64{}
		tot := int64(0)
		for i, m := range cands {
			if mask&(1<<uint(i)) == 0 {
				continue
			}
			sub = append(sub, m)
			if m.from == own {
				hasOwn = true
			}
			p := d.ht.powers[m.vote.ValidatorIndex]
			by[netBidKey(m.vote.BlockID)] += p
			tot += p
		}
		if !hasOwn || !netQuorum(tot, d.ht.total) {
			continue
		}
		ok := true
		for _, p := range by {
			if netQuorum(p, d.ht.total) {
				ok = false
			}
		}
		if ok {
			feas = append(feas, sub)
		}
	}
	if len(feas) == 0 {
		return nil
	}
	return feas[d.s.r.Intn(len(feas))]
}

// byzProposal: Byzantine proposer b proposes block id bid (parts ps) in `round` with POL round pol.
func (d *c01Dir) byzProposal(b int, round, pol uint32, bid types.BlockID, ps *types.PartSet) {
	p := types.NewProposal(d.ht.h, round, pol, bid)
	pp := p.ToProto()
	if err := d.s.keys[b].SignProposal(netChainID, pp); err != nil {
		panic(err)
	}
	p.Signature = pp.Signature
	d.s.archiveMsg(&netMsg{h: d.ht.h, kind: 'P', prop: p, from: b})
	for i := 0; i < int(ps.Total()); i++ {
		d.s.archiveMsg(&netMsg{h: d.ht.h, kind: 'B', part: ps.GetPart(i), round: round, psh: ps.Header(), from: b})
	}
}

// proposalOf: the block id proposed in `round` (archive), zero if none.
func (d *c01Dir) proposalOf(round uint32) types.BlockID {
	for _, m := range d.ht.archive {
		if m.kind == 'P' && m.prop.Round == round {
			return m.prop.POLBlockID
		}
	}
	return types.BlockID{}
}

// giveProposal hands nd the proposal of `round` and the parts of block bid (the parts also when the
// node was given them in an earlier round: they are sent again with every proposal).
func (d *c01Dir) giveProposal(nd *netNode, round uint32, bid types.BlockID) {
	d.give(nd, func(m *netMsg) bool { return m.kind == 'P' && m.prop.Round == round })
	for _, m := range append([]*netMsg{}, d.ht.archive...) {
		if m.kind == 'B' && m.psh.Equals(bid.PartsHeader) && nd.dead == "" {
			mm := *m
			mm.round = round
			d.s.deliver(nd, &mm, fmt.Sprintf("n%d", m.from))
		}
	}
}

// c01Roles: Byzantine set (0..max, below one third) and the validator X of a scripted run.
func c01Roles(s *netSim, vals []*types.Validator) {
	n := s.n
	for k := range s.byz {
		s.byz[k] = false
	}
	maxf := (n - 1) / 3
	f := s.r.Pick(2, 3, 2)
	if f > maxf {
		f = maxf
	}
	if s.scenario == "resign" && f == 0 {
		f = 1
	}
	for _, k := range s.r.Perm(n)[:f] {
		s.byz[k] = true
	}
	var cor []int
	for k := 0; k < n; k++ {
		if !s.byz[k] {
			cor = append(cor, k)
		}
	}
	c01Of(s).x = cor[s.r.Intn(len(cor))]
}

func c01Run(s *netSim) bool {
	switch s.scenario {
	case "relock":
		d := &c01Dir{s: s, ht: s.hs[1], cor: s.correct(), byzV: map[string]*netMsg{}}
		ok := false
		if p := netGuarded(func() { ok = d.relock() }); p != "" {
			s.fail("harness-panic", "relock director: "+strings.Split(p, "\n")[0])
			return false
		}
		s.hold = nil
		if !ok {
			s.o.Count("scenario:relock:prefix-not-reached:" + d.why)
			// the prefix is legal whatever point it stopped at: the run goes on synchronously
		}
		return true
	case "resign":
		d := &c01Dir{s: s, ht: s.hs[1], cor: s.correct(), byzV: map[string]*netMsg{}}
		ok := false
		if p := netGuarded(func() { ok = d.resign() }); p != "" {
			s.fail("harness-panic", "resign director: "+strings.Split(p, "\n")[0])
			return false
		}
		s.hold = nil
		if !ok {
			s.o.Count("scenario:resign:prefix-not-reached:" + d.why)
		}
		return true
	}
	return false
}

// c01Flood: Byzantine validator b makes `tgt` track its conflicting votes for bid in (round, typ) — its
// first vote there is for nil, then a peer's +2/3 claim for bid (what ConsensusManager.Receive does with a
// VoteSetMaj23 message) — and then signs the same vote for bid k times with k different timestamps;
// finally the parts of the block, if the harness has them.  One validator, however often it signs, is
// one validator.
func c01Flood(s *netSim, tgt *netNode, b int, h uint64, round uint32, typ kproto.SignedMsgType, bid types.BlockID, k int) {
	ht := s.hs[h]
	if ht == nil || tgt.dead != "" || tgt.cs.Height != h {
		return
	}
	to := []int{tgt.id}
	if v := s.byzVote(b, h, typ, round, types.BlockID{}); v != nil {
		s.sendByz(&netMsg{h: h, kind: 'V', vote: v, from: b}, to, true)
	}
	s.setMaj23(tgt, b, round, typ, bid)
	for i := 0; i < k && tgt.dead == "" && tgt.cs.Height == h; i++ {
		if v := s.byzVote(b, h, typ, round, bid); v != nil {
			s.sendByz(&netMsg{h: h, kind: 'V', vote: v, from: b}, to, true)
		}
	}
	if ps := ht.psets[bid.Hash]; ps != nil && ps.Header().Equals(bid.PartsHeader) {
		for i := 0; i < int(ps.Total()) && tgt.dead == "" && tgt.cs.Height == h; i++ {
			s.deliver(tgt, &netMsg{h: h, kind: 'B', part: ps.GetPart(i), round: tgt.cs.Round, psh: ps.Header(), from: b}, fmt.Sprintf("byz%d", b))
		}
	}
	s.o.Count("byz:resign-flood")
}

// c01ByzExtra: the re-sign flood as one more action of the adversary of the random runs.
func c01ByzExtra(s *netSim, tgt *netNode, b int, h uint64, round uint32) bool {
	ht := s.hs[h]
	if ht == nil {
		return false
	}
	idx, ok := ht.idxOf[b]
	if !ok || ht.powers[idx] == 0 {
		return false
	}
	var bid types.BlockID
	// a block the harness has the parts of, if any; else any known id
	var cands []types.BlockID
	for _, hsh := range ht.blockL {
		if ps := ht.psets[hsh]; ps != nil {
			cands = append(cands, types.BlockID{Hash: hsh, PartsHeader: ps.Header()})
		}
	}
	if len(cands) > 0 {
		bid = cands[s.r.Intn(len(cands))]
	} else if len(ht.bidList) > 0 {
		bid = ht.bidList[s.r.Intn(len(ht.bidList))]
	} else {
		return false
	}
	typ := []kproto.SignedMsgType{kproto.PrevoteType, kproto.PrecommitType, kproto.PrecommitType}[s.r.Intn(3)]
	if s.r.Chance(1, 4) && round > 1 {
		round--
	}
	k := int(3*ht.total/ht.powers[idx])/2 + 2 + s.r.Intn(3) // enough to pass 2/3 if every signature counted
	if k > 40 {
		k = 40
	}
	c01Flood(s, tgt, b, h, round, typ, bid, k)
	return true
}

// resign: the correct validators other than the victim decide block X in round 1 together with the
// Byzantine validator Z; the victim hears only Z: the re-sign flood for another valid block Y.
func (d *c01Dir) resign() bool {
	s := d.s
	if d.ht == nil || len(d.cor) < 3 {
		return d.fail("setup")
	}
	d.byz = s.byzIDs(d.ht)
	if len(d.byz) == 0 {
		return d.fail("no-byzantine-validator")
	}
	z := d.byz[0]
	d.x = s.nodes[c01Of(s).x]
	x := d.x
	p1 := s.proposerOf(d.ht, 1)
	if p1 == x.id { // the victim must not be the one whose block the others decide
		for _, nd := range d.cor {
			if nd.id != p1 {
				d.x, x = nd, nd
				break
			}
		}
	}
	s.hold = func(m *netMsg, to int) bool { return true }
	d.fire(d.cor...) // NewHeight -> round 1
	if s.byz[p1] {
		blk, ps := s.byzBlock(d.ht.h, p1, "valid")
		if blk == nil {
			return d.fail("no-byz-block")
		}
		d.a = types.BlockID{Hash: blk.Hash(), PartsHeader: ps.Header()}
		d.byzProposal(p1, 1, 0, d.a, ps)
	} else {
		d.a = d.proposalOf(1)
	}
	if d.a.IsZero() {
		return d.fail("no-proposal")
	}
	// the other block
	yb, yps := s.byzBlock(d.ht.h, z, "valid")
	if yb == nil {
		return d.fail("no-byz-block")
	}
	d.c = types.BlockID{Hash: yb.Hash(), PartsHeader: yps.Header()}
	if d.c.Equal(d.a) {
		return d.fail("same-block")
	}
	typ := []kproto.SignedMsgType{kproto.PrecommitType, kproto.PrecommitType, kproto.PrevoteType}[s.r.Intn(3)]
	when := s.r.Intn(2) // the flood before / after the others decided
	zi := d.ht.idxOf[z]
	k := int(3*d.ht.total/d.ht.powers[zi])/2 + 2 + s.r.Intn(3)
	s.o.Count(fmt.Sprintf("scenario:resign:type=%d:when=%d", typ, when))
	if when == 0 {
		c01Flood(s, x, z, d.ht.h, 1, typ, d.c, k)
	}
	// the others decide X with all Byzantine validators voting for it
	var others []*netNode
	for _, nd := range d.cor {
		if nd.id != x.id {
			others = append(others, nd)
		}
	}
	for _, nd := range others {
		d.giveProposal(nd, 1, d.a)
	}
	for _, b := range d.byz {
		d.byzVote(b, kproto.PrevoteType, 1, d.a)
	}
	isOther := func(id int) bool { return id != x.id }
	for _, nd := range others {
		d.give(nd, func(m *netMsg) bool {
			return m.kind == 'V' && m.vote.Type == kproto.PrevoteType && m.vote.Round == 1 && m.vote.BlockID.Equal(d.a) && isOther(m.from)
		})
	}
	for _, b := range d.byz {
		d.byzVote(b, kproto.PrecommitType, 1, d.a)
	}
	for _, nd := range others {
		d.give(nd, func(m *netMsg) bool {
			return m.kind == 'V' && m.vote.Type == kproto.PrecommitType && m.vote.Round == 1 && m.vote.BlockID.Equal(d.a) && isOther(m.from)
		})
	}
	decided := 0
	for _, nd := range others {
		if nd.cs.Height > d.ht.h {
			decided++
		}
	}
	if decided == 0 {
		s.o.Count("scenario:resign:others-undecided")
	}
	if when == 1 {
		c01Flood(s, x, z, d.ht.h, 1, typ, d.c, k)
	}
	s.o.Mark("scenario-resign-prefix-reached")
	return true
}

// relock: see the head of the file.
func (d *c01Dir) relock() bool {
	s := d.s
	if d.ht == nil || len(d.cor) < 3 {
		return d.fail("setup")
	}
	d.byz = s.byzIDs(d.ht)
	d.x = s.nodes[c01Of(s).x]
	x := d.x
	s.hold = func(m *netMsg, to int) bool { return true }
	timing := []string{"after-relock", "next-round", "before-relock", "same-round"}[s.r.Pick(4, 4, 1, 1)]
	nilPolka := s.r.Chance(1, 4)
	// rounds
	p1 := s.proposerOf(d.ht, 1)
	g1, g2 := uint32(s.r.Pick(3, 1, 1)), uint32(s.r.Pick(3, 1, 1))
	r1, r2, r3 := uint32(1), uint32(0), uint32(0)
	for r := r1 + 1 + g1; r < 16 && r2 == 0; r++ {
		p := s.proposerOf(d.ht, r)
		if nilPolka {
			if s.byz[p] {
				r2 = r
			}
		} else if p != x.id && (s.byz[p] || p != p1) {
			r2 = r
		}
	}
	if r2 == 0 && nilPolka { // no Byzantine proposer at hand: the ordinary variant
		nilPolka = false
		for r := r1 + 1 + g1; r < 16 && r2 == 0; r++ {
			if p := s.proposerOf(d.ht, r); p != x.id && (s.byz[p] || p != p1) {
				r2 = r
			}
		}
	}
	for r := r2 + 1 + g2; r2 != 0 && r < 24 && r3 == 0; r++ {
		if p := s.proposerOf(d.ht, r); s.byz[p] || p == x.id || p == p1 {
			r3 = r
		}
	}
	if r2 == 0 || r3 == 0 {
		return d.fail("no-suitable-rounds")
	}
	s.o.Count("scenario:relock:timing:" + timing)
	s.o.Count(fmt.Sprintf("scenario:relock:nil-polka=%v", nilPolka))
	s.o.Count(fmt.Sprintf("scenario:relock:rounds:%d-%d-%d", r1, r2-r1, r3-r2))
	d.fire(d.cor...) // NewHeight -> round 1
	for r := r1; r <= r3; r++ {
		kind := "nil"
		switch r {
		case r1, r3:
			kind = "lock"
		case r2:
			kind = "hidden"
			if nilPolka {
				kind = "hidden-nil"
			}
		}
		late := ""
		if r == r2 && timing == "same-round" {
			late = "after-precommit"
		}
		if r == r3 && timing == "before-relock" {
			late = "before-proposal"
		}
		if r == r3 && timing == "after-relock" {
			late = "after-precommit"
		}
		if !d.round(r, kind, r == r1, r2, late, r == r3) {
			return false
		}
		if r == r1 {
			if x.cs.LockedBlock == nil || x.cs.LockedRound != r1 {
				return d.fail("x-not-locked-in-r1")
			}
		}
		if r == r3 && (x.cs.LockedBlock == nil || !x.cs.LockedBlock.HashesTo(d.a.Hash)) {
			return d.fail("x-not-locked-in-r3")
		}
	}
	// round r3 is over for nobody yet: everybody is in the precommit step of r3 with +2/3-any precommits
	d.fire(d.cor...) // -> round r3+1
	if timing == "next-round" {
		d.late(r2)
	}
	s.o.Mark("scenario-relock-prefix-reached:" + timing)
	return true
}

// late: X receives the prevotes of round r2 that complete the polka (the remaining correct ones and
// the Byzantine validators' prevotes for that value).
func (d *c01Dir) late(r2 uint32) {
	for _, b := range d.byz {
		d.byzVote(b, kproto.PrevoteType, r2, d.c)
	}
	d.give(d.x, func(m *netMsg) bool {
		return m.kind == 'V' && m.vote.Type == kproto.PrevoteType && m.vote.Round == r2 && m.vote.BlockID.Equal(d.c)
	})
	d.s.o.Count("scenario:relock:late-polka-delivered")
}

// round plays round r for every correct node.  kind: "lock" (a polka for A that only X sees),
// "hidden" / "hidden-nil" (a polka for C / nil that nobody sees complete), "nil" (no proposal).
func (d *c01Dir) round(r uint32, kind string, first bool, r2 uint32, late string, last bool) bool {
	s := d.s
	x := d.x
	for _, nd := range d.cor {
		if nd.dead != "" || nd.cs.Height != d.ht.h || nd.cs.Round != r {
			return d.fail(fmt.Sprintf("round-%d-not-entered", r))
		}
	}
	if late == "before-proposal" {
		d.late(r2)
	}
	prop := s.proposerOf(d.ht, r)
	var dissenter *netNode
	// ---- proposal
	switch kind {
	case "lock":
		if first {
			if s.byz[prop] {
				blk, ps := s.byzBlock(d.ht.h, prop, "valid")
				if blk == nil {
					return d.fail("no-byz-block")
				}
				d.a = types.BlockID{Hash: blk.Hash(), PartsHeader: ps.Header()}
				d.byzProposal(prop, r, 0, d.a, ps)
			} else {
				d.a = d.proposalOf(r)
			}
			if d.a.IsZero() {
				return d.fail("no-proposal-in-r1")
			}
		} else {
			if s.byz[prop] {
				ps := d.ht.psets[d.a.Hash]
				if ps == nil {
					return d.fail("block-a-unknown")
				}
				d.byzProposal(prop, r, 0, d.a, ps)
			} else if got := d.proposalOf(r); !got.Equal(d.a) {
				return d.fail("r3-proposal-is-not-a")
			}
		}
		// a correct validator that misses the proposal (always without Byzantine validators)
		if len(d.byz) == 0 || s.r.Chance(1, 3) {
			var cand []*netNode
			for _, nd := range d.cor {
				if nd.id != x.id && nd.id != prop {
					cand = append(cand, nd)
				}
			}
			if len(cand) == 0 {
				return d.fail("no-dissenter")
			}
			dissenter = cand[s.r.Intn(len(cand))]
		}
		var pm *netMsg
		for _, m := range d.ht.archive {
			if m.kind == 'P' && m.prop.Round == r {
				pm = m
			}
		}
		for _, nd := range d.cor {
			if dissenter != nil && nd.id == dissenter.id {
				continue
			}
			if pm != nil && pm.prop.POLRound >= 1 && nd.id != x.id {
				// the proposal names a POL round: the node needs those prevotes (a peer that has the
				// polka announces it, so conflicting Byzantine prevotes for that block are taken)
				s.setMaj23(nd, x.id, pm.prop.POLRound, kproto.PrevoteType, d.a)
				pr := pm.prop.POLRound
				d.give(nd, func(m *netMsg) bool {
					return m.kind == 'V' && m.vote.Type == kproto.PrevoteType && m.vote.Round == pr && m.vote.BlockID.Equal(d.a)
				})
			}
			d.giveProposal(nd, r, d.a)
		}
	case "hidden":
		if s.byz[prop] {
			blk, ps := s.byzBlock(d.ht.h, prop, "valid")
			if blk == nil {
				return d.fail("no-byz-block")
			}
			d.c = types.BlockID{Hash: blk.Hash(), PartsHeader: ps.Header()}
			d.byzProposal(prop, r, 0, d.c, ps)
		} else {
			d.c = d.proposalOf(r)
		}
		if d.c.IsZero() || d.c.Equal(d.a) {
			return d.fail("no-other-block-in-r2")
		}
		for _, nd := range d.cor {
			d.giveProposal(nd, r, d.c)
		}
	case "hidden-nil":
		d.c = types.BlockID{}
	}
	// whoever has not prevoted yet runs into the propose timeout
	for _, nd := range d.cor {
		if nd.cs.Round == r && nd.cs.Step <= cstypes.RoundStepPropose {
			d.fire(nd)
		}
	}
	for _, nd := range d.cor {
		if nd.dead != "" || nd.cs.Round != r || nd.cs.Step < cstypes.RoundStepPrevote {
			return d.fail(fmt.Sprintf("round-%d-%s-no-prevote", r, kind))
		}
	}
	// ---- prevotes: what each node gets to see
	correctPV := d.votesOf(kproto.PrevoteType, r, true)
	if kind == "hidden" || kind == "hidden-nil" {
		// the polka that nobody sees: the correct prevotes for the value plus the Byzantine ones
		var pol []*netMsg
		for _, m := range correctPV {
			if m.vote.BlockID.Equal(d.c) {
				pol = append(pol, m)
			}
		}
		pw := d.power(pol)
		for _, b := range d.byz {
			pw += d.ht.powers[d.ht.idxOf[b]]
		}
		if !netQuorum(pw, d.ht.total) {
			return d.fail("hidden-polka-impossible")
		}
	}
	for _, nd := range d.cor {
		cands := append([]*netMsg{}, correctPV...)
		noPolka := true
		for _, b := range d.byz {
			var m *netMsg
			switch kind {
			case "lock":
				if nd.id == x.id {
					m = d.byzVote(b, kproto.PrevoteType, r, d.a)
				} else {
					m = d.byzVote(b, kproto.PrevoteType, r, types.BlockID{})
				}
			case "hidden":
				if nd.id != x.id {
					m = d.byzVote(b, kproto.PrevoteType, r, types.BlockID{})
				}
			case "hidden-nil":
				// towards the others the Byzantine validators prevote an unknown block, so that the
				// nil prevotes they are shown stay below the quorum
				if nd.id != x.id {
					m = d.byzVote(b, kproto.PrevoteType, r, types.BlockID{Hash: common.BytesToHash([]byte{9, byte(b)}), PartsHeader: types.PartSetHeader{Total: 1, Hash: common.BytesToHash([]byte{8})}})
				}
			case "nil":
				m = d.byzVote(b, kproto.PrevoteType, r, types.BlockID{})
			}
			if m != nil {
				cands = append(cands, m)
			}
		}
		if kind == "lock" && nd.id == x.id {
			noPolka = false
		}
		if kind == "nil" && nd.id != x.id {
			noPolka = false
		}
		v := d.view(cands, nd.id, noPolka)
		if v == nil {
			return d.fail(fmt.Sprintf("no-view-%s", kind))
		}
		d.giveMsgs(nd, v)
	}
	// +2/3 any without a polka: the prevote-wait timeout
	for _, nd := range d.cor {
		if nd.cs.Round == r && nd.cs.Step == cstypes.RoundStepPrevoteWait {
			d.fire(nd)
		}
	}
	for _, nd := range d.cor {
		if nd.dead != "" || nd.cs.Round != r || nd.cs.Step < cstypes.RoundStepPrecommit || nd.cs.Step == cstypes.RoundStepCommit {
			return d.fail(fmt.Sprintf("round-%d-%s-no-precommit(node%d step %d)", r, kind, nd.id, nd.cs.Step))
		}
	}
	if late == "after-precommit" {
		d.late(r2)
	}
	// ---- precommits: everybody sees everything (X's precommit for A stays alone)
	for _, b := range d.byz {
		d.byzVote(b, kproto.PrecommitType, r, types.BlockID{})
	}
	for _, nd := range d.cor {
		d.give(nd, func(m *netMsg) bool { return m.kind == 'V' && m.vote.Type == kproto.PrecommitType && m.vote.Round == r })
	}
	for _, nd := range d.cor {
		if nd.dead != "" || nd.cs.Height != d.ht.h {
			return d.fail(fmt.Sprintf("round-%d-%s-decided", r, kind))
		}
	}
	if !last {
		d.fire(d.cor...) // precommit-wait timeout -> next round
	}
	return true
}

// ---------------------------------------------------------------------------------------------
// direct families (no network)

func c01Direct(o *netOut, r *netRand, idx int, kind string) {
	switch kind {
	case "direct:vc":
		o.Case(idx, fmt.Sprintf("CASE %d mode=C01 family=verify-commit", idx))
		o.Count("family:verify-commit")
		k := 60
		if *netTier == "thorough" {
			k = 150
		}
		for i := 0; i < k; i++ {
			c01VC(o, r, i)
		}
	case "direct:sync":
		o.Case(idx, fmt.Sprintf("CASE %d mode=C01 family=block-sync", idx))
		o.Count("family:block-sync")
		c01Sync(o, r)
	}
}

var c01Keys []*types.DefaultPrivValidator

func c01Key(i int) *types.DefaultPrivValidator {
	for len(c01Keys) <= i {
		k, err := crypto.ToECDSA(crypto.Keccak256([]byte(fmt.Sprintf("c01-direct-key-%d", len(c01Keys)))))
		if err != nil {
			panic(err)
		}
		c01Keys = append(c01Keys, types.NewDefaultPrivValidator(k))
	}
	return c01Keys[i]
}

func c01Bid(tag string) types.BlockID {
	return types.BlockID{Hash: common.BytesToHash(crypto.Keccak256([]byte("h" + tag))), PartsHeader: types.PartSetHeader{Total: 1, Hash: common.BytesToHash(crypto.Keccak256([]byte("p" + tag)))}}
}

// one slot of a hand-crafted commit with the harness's own record of what was signed by whom
type c01Slot struct {
	sig    types.CommitSig
	key    int    // index (in the validator set) of the validator whose key signed, -1: a key outside the set / nothing
	signed []byte // the sign bytes that were signed
}

// c01Sign: validator key `key` (index in keys; -1 = a key outside the set) signs a vote.
func c01Sign(keys []*types.DefaultPrivValidator, key int, typ kproto.SignedMsgType, h uint64, round uint32, bid types.BlockID, ts time.Time) c01Slot {
	pv := c01Key(900) // outside every set
	if key >= 0 {
		pv = keys[key]
	}
	v := &types.Vote{ValidatorAddress: pv.GetAddress(), Height: h, Round: round, Timestamp: ts, Type: typ, BlockID: bid}
	p := v.ToProto()
	if err := pv.SignVote(netChainID, p); err != nil {
		panic(err)
	}
	flag := types.BlockIDFlagCommit
	if bid.IsZero() {
		flag = types.BlockIDFlagNil
	}
	return c01Slot{sig: types.CommitSig{BlockIDFlag: flag, ValidatorAddress: pv.GetAddress(), Timestamp: ts, Signature: p.Signature},
		key: key, signed: types.VoteSignBytes(netChainID, p)}
}

// c01Powers: voting powers of a family, and (boundary families) nothing else: the subsets are searched.
func c01Powers(r *netRand, n int) ([]int64, string) {
	pw := make([]int64, n)
	fam := []string{"equal", "random", "thirds", "large", "dominant"}[r.Pick(3, 4, 4, 1, 1)]
	switch fam {
	case "equal":
		u := []int64{1, 1, 10, 1000003}[r.Intn(4)]
		for i := range pw {
			pw[i] = u
		}
	case "random":
		for i := range pw {
			pw[i] = int64(1 + r.Intn(20))
		}
	case "thirds": // total divisible by three
		t := int64(0)
		for i := range pw {
			pw[i] = int64(1 + r.Intn(9))
			t += pw[i]
		}
		pw[r.Intn(n)] += (3 - t%3) % 3
	case "large": // near the maximum total the set accepts
		for i := range pw {
			pw[i] = types.MaxTotalVotingPower/int64(n) - int64(r.Intn(3))
		}
	case "dominant":
		for i := range pw {
			pw[i] = int64(1 + r.Intn(3))
		}
		pw[r.Intn(n)] = int64(5 * n)
	}
	return pw, fam
}

func c01VCClass(err error) string {
	switch e := err.(type) {
	case nil:
		return "ok"
	case types.ErrNotEnoughVotingPowerSigned:
		return fmt.Sprintf("power %d %d", e.Got, e.Needed)
	case types.ErrInvalidCommitSignatures:
		return "size"
	case types.ErrInvalidCommitHeight:
		return "height"
	}
	if err == types.ErrNilCommit {
		return "nilcommit"
	}
	msg := err.Error()
	if strings.HasPrefix(msg, "Invalid commit -- wrong block id") {
		return "blockid"
	}
	if strings.HasPrefix(msg, "wrong validator address (#") {
		i := strings.Index(msg, ")")
		return "addr " + msg[len("wrong validator address (#"):i]
	}
	if strings.HasPrefix(msg, "wrong signature (#") {
		i := strings.Index(msg, ")")
		return "sig " + msg[len("wrong signature (#"):i]
	}
	return "basic"
}

// c01SlotTokens: "flag addrzero addr timezero sigempty signer" of every slot: addr = the member of
// the verifying set (addresses by index) that the slot's address names, signer = the validator whose
// key signed exactly the sign bytes this slot of this commit stands for (-1: none).
func c01SlotTokens(commit *types.Commit, slots []c01Slot, addrs []common.Address) []string {
	var l []string
	for i, sl := range slots {
		sg := commit.Signatures[i]
		named := -1
		for j, a := range addrs {
			if sg.ValidatorAddress.Equal(a) {
				named = j
			}
		}
		f := 0
		switch sg.BlockIDFlag {
		case types.BlockIDFlagAbsent:
			f = 1
		case types.BlockIDFlagCommit:
			f = 2
		case types.BlockIDFlagNil:
			f = 3
		}
		signer := -1
		if f >= 2 && sl.key >= 0 && sl.signed != nil {
			netGuarded(func() {
				if string(commit.VoteSignBytes(netChainID, uint32(i))) == string(sl.signed) {
					signer = sl.key
				}
			})
		}
		l = append(l, fmt.Sprintf("%d %d %d %d %d %d", f, netB(sg.ValidatorAddress.Equal(common.Address{})), named, netB(sg.Timestamp.IsZero()), netB(len(sg.Signature) == 0), signer))
	}
	return l
}

// c01VC: one hand-crafted commit against the real VerifyCommit.
func c01VC(o *netOut, r *netRand, step int) {
	n := []int{1, 2, 3, 3, 4, 4, 5, 6, 6, 7, 8, 9}[r.Intn(12)]
	pw, fam := c01Powers(r, n)
	var vals []*types.Validator
	for i := 0; i < n; i++ {
		vals = append(vals, types.NewValidator(c01Key(i).GetAddress(), pw[i]))
	}
	vs := types.NewValidatorSet(vals)
	keys := make([]*types.DefaultPrivValidator, n) // by index in the (sorted) set
	powers := make([]int64, n)
	total := new(big.Int)
	for i, v := range vs.Validators {
		for j := 0; j < n; j++ {
			if c01Key(j).GetAddress().Equal(v.Address) {
				keys[i] = c01Key(j)
			}
		}
		powers[i] = v.VotingPower
		total.Add(total, big.NewInt(v.VotingPower))
	}
	hw := uint64(1 + r.Intn(5))
	rc := uint32(1 + r.Intn(3))
	bw, other := c01Bid("want"), c01Bid("other")
	ids := map[string]int{netBidKey(bw): 1, netBidKey(other): 2}
	now := time.Unix(1700000000, 0).UTC()
	// the honest base: every validator precommits the block / nil / is absent
	slots := make([]c01Slot, n)
	mk := func(i int, bid types.BlockID) c01Slot {
		return c01Sign(keys, i, kproto.PrecommitType, hw, rc, bid, now.Add(time.Duration(i+1)*time.Millisecond))
	}
	absent := c01Slot{sig: types.NewCommitSigAbsent(), key: -1}
	for i := range slots {
		switch r.Pick(15, 2, 3) {
		case 0:
			slots[i] = mk(i, bw)
		case 1:
			slots[i] = mk(i, types.BlockID{})
		case 2:
			slots[i] = absent
		}
	}
	chc, crc, cbid := hw, rc, bw
	nilCommit := false
	forBlock := func() []int {
		var l []int
		for i, sl := range slots {
			if sl.sig.ForBlock() {
				l = append(l, i)
			}
		}
		return l
	}
	kinds := []string{"honest", "repeat-addr", "repeat-slot", "rotate", "swap-two", "addr-garbage", "addr-rotate", "addr-one", "addr-all-to-one", "commit-other-height", "field-other-height",
		"commit-other-block", "sig-other-block", "sig-other-round", "sig-other-height", "sig-prevote", "foreign-key", "ts-tamper", "empty-sig",
		"absent-dirty", "unknown-flag", "size-minus", "size-plus", "zero-block", "no-sigs", "nil-commit", "boundary-exact", "boundary-above", "nil-heavy", "all-absent", "two-thirds-minus-dup"}
	kind := kinds[r.Pick(8, 4, 4, 2, 2, 2, 2, 2, 2, 1, 1, 1, 1, 1, 1, 1, 1, 1, 1, 1, 1, 1, 1, 1, 1, 1, 4, 4, 1, 1, 3)]
	pick := func() int { return r.Intn(n) }
	// subsets for the boundary families: the for-block set becomes exactly the chosen subset
	subset := func(want func(sum, tot *big.Int) bool, best func(a, b *big.Int) bool) (uint, bool) {
		var bm uint
		var bs *big.Int
		for mask := uint(0); mask < 1<<uint(n); mask++ {
			sum := new(big.Int)
			for i := 0; i < n; i++ {
				if mask&(1<<uint(i)) != 0 {
					sum.Add(sum, big.NewInt(powers[i]))
				}
			}
			if want(sum, total) && (bs == nil || best(sum, bs)) {
				bm, bs = mask, sum
			}
		}
		return bm, bs != nil
	}
	three, two := big.NewInt(3), big.NewInt(2)
	above := func(sum, tot *big.Int) bool {
		return new(big.Int).Mul(sum, three).Cmp(new(big.Int).Mul(tot, two)) > 0
	}
	switch kind {
	case "repeat-addr", "repeat-slot", "two-thirds-minus-dup":
		// one validator's CommitSig in several slots; "two-thirds-minus-dup": the genuine signers stay
		// at or below 2/3 and a duplicate of one of them would lift the sum over it
		if kind == "two-thirds-minus-dup" {
			if m, ok := subset(func(s, t *big.Int) bool { return !above(s, t) && s.Sign() > 0 }, func(a, b *big.Int) bool { return a.Cmp(b) > 0 }); ok {
				for i := range slots {
					if m&(1<<uint(i)) != 0 {
						slots[i] = mk(i, bw)
					} else {
						slots[i] = absent
					}
				}
			}
		}
		fb := forBlock()
		if len(fb) == 0 {
			slots[0] = mk(0, bw)
			fb = []int{0}
		}
		j := fb[r.Intn(len(fb))]
		for i := range slots {
			if i != j && (kind != "two-thirds-minus-dup" && r.Chance(2, 3) || kind == "two-thirds-minus-dup" && !slots[i].sig.ForBlock()) {
				slots[i] = slots[j]
				if kind == "repeat-slot" || (kind == "two-thirds-minus-dup" && r.Chance(1, 2)) {
					slots[i].sig.ValidatorAddress = keys[i].GetAddress()
				}
			}
		}
	case "rotate":
		k := 1
		if n > 1 {
			k = 1 + r.Intn(n-1)
		}
		ns := make([]c01Slot, n)
		for i := range slots {
			ns[(i+k)%n] = slots[i]
		}
		slots = ns
	case "swap-two":
		if n >= 2 {
			i, j := pick(), pick()
			slots[i], slots[j] = slots[j], slots[i]
		}
	case "addr-garbage": // addresses are not signed; a present slot must name its own validator
		for i := range slots {
			if !slots[i].sig.Absent() && r.Chance(1, 2) {
				slots[i].sig.ValidatorAddress = []common.Address{keys[pick()].GetAddress(), common.BytesToAddress([]byte{7, byte(i)})}[r.Intn(2)]
			}
		}
	case "addr-rotate": // the genuine signatures in their slots, the addresses moved on by k slots
		k := 1
		if n > 1 {
			k = 1 + r.Intn(n-1)
		}
		for i := range slots {
			if !slots[i].sig.Absent() {
				slots[i].sig.ValidatorAddress = keys[(i+k)%n].GetAddress()
			}
		}
	case "addr-one":
		i := pick()
		if !slots[i].sig.Absent() {
			slots[i].sig.ValidatorAddress = keys[(i+1+r.Intn(n))%n].GetAddress() // may be the right one when n = 1
		}
	case "addr-all-to-one": // every slot names the same (heaviest / random) validator
		j := pick()
		for i := range slots {
			if !slots[i].sig.Absent() {
				slots[i].sig.ValidatorAddress = keys[j].GetAddress()
			}
		}
	case "commit-other-height": // a complete commit of another height
		chc = hw + 1
		for i := range slots {
			if !slots[i].sig.Absent() {
				slots[i] = c01Sign(keys, i, kproto.PrecommitType, chc, rc, bw, now.Add(time.Duration(i+1)*time.Millisecond))
			}
		}
	case "field-other-height":
		chc = []uint64{hw + 1, hw - 1}[r.Intn(2)]
	case "commit-other-block":
		cbid = other
		for i := range slots {
			if slots[i].sig.ForBlock() {
				slots[i] = mk(i, other)
			}
		}
	case "sig-other-block":
		i := pick()
		slots[i] = mk(i, other)
	case "sig-other-round":
		i := pick()
		slots[i] = c01Sign(keys, i, kproto.PrecommitType, hw, rc+1, bw, now)
	case "sig-other-height":
		i := pick()
		slots[i] = c01Sign(keys, i, kproto.PrecommitType, hw+1, rc, bw, now)
	case "sig-prevote":
		i := pick()
		slots[i] = c01Sign(keys, i, kproto.PrevoteType, hw, rc, bw, now)
	case "foreign-key":
		i := pick()
		slots[i] = c01Sign(keys, -1, kproto.PrecommitType, hw, rc, bw, now)
		if r.Chance(1, 2) {
			slots[i].sig.ValidatorAddress = keys[i].GetAddress()
		}
	case "ts-tamper":
		i := pick()
		if !slots[i].sig.Absent() {
			slots[i].sig.Timestamp = slots[i].sig.Timestamp.Add(time.Nanosecond)
		}
	case "empty-sig":
		i := pick()
		if !slots[i].sig.Absent() {
			slots[i].sig.Signature = nil
		}
	case "absent-dirty":
		i := pick()
		slots[i] = absent
		switch r.Intn(3) {
		case 0:
			slots[i].sig.ValidatorAddress = keys[i].GetAddress()
		case 1:
			slots[i].sig.Timestamp = now
		case 2:
			slots[i].sig.Signature = []byte{1, 2, 3}
		}
	case "unknown-flag":
		i := pick()
		slots[i].sig.BlockIDFlag = types.BlockIDFlag([]byte{0, 4, 9}[r.Intn(3)])
	case "size-minus":
		slots = slots[:n-1]
	case "size-plus":
		slots = append(slots, []c01Slot{absent, slots[pick()]}[r.Intn(2)])
	case "zero-block":
		cbid = types.BlockID{}
	case "no-sigs":
		slots = nil
	case "nil-commit":
		nilCommit = true
	case "boundary-exact", "boundary-above":
		var m uint
		var ok bool
		if kind == "boundary-exact" { // the largest sum that is not above two thirds
			m, ok = subset(func(s, t *big.Int) bool { return !above(s, t) }, func(a, b *big.Int) bool { return a.Cmp(b) > 0 })
		} else { // the smallest sum above two thirds
			m, ok = subset(above, func(a, b *big.Int) bool { return a.Cmp(b) < 0 })
		}
		if ok {
			for i := range slots {
				if m&(1<<uint(i)) != 0 {
					slots[i] = mk(i, bw)
				} else if r.Chance(1, 2) {
					slots[i] = mk(i, types.BlockID{})
				} else {
					slots[i] = absent
				}
			}
		}
	case "nil-heavy":
		for i := range slots {
			if r.Chance(2, 3) {
				slots[i] = mk(i, types.BlockID{})
			}
		}
	case "all-absent":
		for i := range slots {
			slots[i] = absent
		}
	}
	o.Count("vc:" + kind)
	o.Count("vc:powers:" + fam)
	var commit *types.Commit
	if !nilCommit {
		sigs := make([]types.CommitSig, len(slots))
		for i := range slots {
			sigs[i] = slots[i].sig
		}
		commit = types.NewCommit(chc, crc, cbid, sigs)
	}
	// the implementation
	cls := ""
	if p := netGuarded(func() { cls = c01VCClass(vs.VerifyCommit(netChainID, bw, hw, commit)) }); p != "" {
		cls = "PANIC"
		o.Fail(step, "verifycommit-panic", fmt.Sprintf("kind=%s n=%d: %s", kind, n, strings.Split(p, "\n")[0]))
	}
	o.Count("vc:result:" + strings.Fields(cls)[0])
	o.Mark("vc:" + kind + ":" + strings.Fields(cls)[0])
	// the model input
	in := []string{"VC", fmt.Sprint(n)}
	for _, p := range powers {
		in = append(in, fmt.Sprint(p))
	}
	in = append(in, fmt.Sprint(hw), "1")
	if commit == nil {
		in = append(in, "N")
	} else {
		in = append(in, "C", fmt.Sprint(chc), fmt.Sprint(crc), fmt.Sprint(ids[netBidKey(cbid)]), fmt.Sprint(len(slots)))
		addrs := make([]common.Address, n)
		for i := range addrs {
			addrs[i] = keys[i].GetAddress()
		}
		in = append(in, c01SlotTokens(commit, slots, addrs)...)
	}
	o.Op(strings.Join(in, " "), "vc "+cls)
	// direct oracle (fix be3229d): an accepted commit names, in every present slot, the validator of that slot
	if cls == "ok" {
		for i, sl := range slots {
			if i < n && !sl.sig.Absent() && !sl.sig.ValidatorAddress.Equal(keys[i].GetAddress()) {
				o.Fail(step, "verifycommit-accepts-forged-address", fmt.Sprintf("kind=%s n=%d powers=%v: VerifyCommit accepted a commit whose slot %d names %X, not validator %d (the block time is weighted by the named validators)", kind, n, powers, i, sl.sig.ValidatorAddress.Bytes()[:4], i))
				break
			}
		}
	}
	// the direct oracle: distinct validators whose key signed a precommit for (hw, bw) — any round, any
	// timestamp — and whose signature is in the commit
	just := new(big.Int)
	seen := map[int]bool{}
	for _, sl := range slots {
		if sl.key < 0 || sl.signed == nil || seen[sl.key] || len(sl.sig.Signature) == 0 {
			continue
		}
		for rr := uint32(1); rr <= rc+1; rr++ {
			v := &types.Vote{Type: kproto.PrecommitType, Height: hw, Round: rr, BlockID: bw, Timestamp: sl.sig.Timestamp}
			if string(types.VoteSignBytes(netChainID, v.ToProto())) == string(sl.signed) {
				seen[sl.key] = true
				just.Add(just, big.NewInt(powers[sl.key]))
				break
			}
		}
	}
	justified := new(big.Int).Mul(just, three).Cmp(new(big.Int).Mul(total, two)) > 0
	if cls == "ok" && !justified {
		o.Fail(step, "verifycommit-accepts-unjustified", fmt.Sprintf("kind=%s n=%d powers=%v: VerifyCommit accepted a commit in which the distinct validators that signed a precommit for the block hold %v of %v voting power", kind, n, powers, just, total))
	}
	if cls != "ok" && kind == "honest" && justified {
		o.Fail(step, "verifycommit-refuses-wellformed", fmt.Sprintf("kind=%s n=%d powers=%v: %s", kind, n, powers, cls))
	}
}

// ---------------------------------------------------------------------------------------------
// direct:sync — a harness-built chain (all keys are the harness's: what-if inputs) offered to the
// real block-sync processor, forged offers mixed in

type c01ChainH struct {
	block  *types.Block
	id     types.BlockID
	state  cstate.LatestBlockState // before this height
	keys   []*types.DefaultPrivValidator
	powers []int64
	total  int64
	commit *types.Commit // the genuine commit for this block
	slots  []c01Slot
	round  uint32
}

func c01Sync(o *netOut, r *netRand) {
	n := 3 + r.Intn(4)
	s := &netSim{o: o, r: r, mode: "C01", tag: "d", hs: map[uint64]*netHeight{}, idOf: map[common.Address]int{},
		plan: map[uint64][]int64{}, failed: map[string]bool{}, n: n, byz: make([]bool, n)}
	pw := make([]int64, n)
	var vals []*types.Validator
	for i := 0; i < n; i++ {
		s.keys = append(s.keys, c01Key(i))
		s.idOf[c01Key(i).GetAddress()] = i
		pw[i] = int64(1 + r.Intn(12))
		vals = append(vals, types.NewValidator(c01Key(i).GetAddress(), pw[i]))
	}
	L := 3 + r.Intn(5)
	cur := append([]int64{}, pw...)
	for bh := uint64(1); bh+2 <= uint64(L)+1; bh++ {
		if !r.Chance(1, 3) {
			continue
		}
		np := append([]int64{}, cur...)
		for k := range np {
			if r.Chance(1, 2) {
				np[k] = int64(1 + r.Intn(12))
			}
		}
		if n >= 4 && r.Chance(1, 2) {
			np[r.Intn(n)] = 0
		}
		s.plan[bh] = np
		cur = np
		o.Count("sync:valset-change")
	}
	vs := types.NewValidatorSet(vals)
	gen := cstate.LatestBlockState{ChainID: netChainID, InitialHeight: 1, LastBlockID: types.NewZeroBlockID(),
		LastBlockTime: netGenesisTime, Validators: vs, LastValidators: vs, NextValidators: vs.CopyIncrementProposerPriority(1),
		ConsensusParams: *configs.DefaultConsensusParams()}
	newExec := func() (*netBlockOps, *cstate.BlockExecutor, func()) {
		db := memorydb.New()
		store := cstate.NewStore(db)
		netWriteGenesisBlock(db)
		store.Save(gen.Copy())
		dummy := &netNode{sim: s, id: -1, byz: true}
		bo := &netBlockOps{node: dummy, db: db, blocks: map[uint64]*types.Block{}, parts: map[uint64]*types.PartSet{}, seen: map[uint64]*types.Commit{}}
		dummy.bo = bo
		exec := cstate.NewBlockExecutor(store, log.New(), netEv{}, bo)
		eb := types.NewEventBus()
		eb.SetLogger(log.New())
		eb.Start()
		exec.SetEventBus(eb)
		return bo, exec, func() { eb.Stop() }
	}
	// ---- build the chain: L+1 blocks, so that L heights can be adopted
	_, bexec, bstop := newExec()
	defer bstop()
	chain := map[uint64]*c01ChainH{}
	st := gen.Copy()
	last := types.NewCommit(0, 0, types.BlockID{}, nil)
	for h := uint64(1); h <= uint64(L)+1; h++ {
		ch := &c01ChainH{state: st.Copy()}
		for _, v := range st.Validators.Validators {
			ch.keys = append(ch.keys, s.keys[s.idOf[v.Address]])
			ch.powers = append(ch.powers, v.VotingPower)
			ch.total += v.VotingPower
		}
		ts := st.LastBlockTime
		if h > 1 {
			ts = cstate.MedianTime(last, st.LastValidators)
		}
		hd := &types.Header{Height: h, Time: ts, LastBlockID: st.LastBlockID, ProposerAddress: st.Validators.GetProposer().Address,
			ValidatorsHash: st.Validators.Hash(), NextValidatorsHash: st.NextValidators.Hash(), AppHash: st.AppHash, GasLimit: uint64(5000 + h)}
		ch.block = types.NewBlock(hd, nil, last, nil, trie.NewStackTrie(nil))
		ch.id = types.BlockID{Hash: ch.block.Hash(), PartsHeader: ch.block.MakePartSet(types.BlockPartSizeBytes).Header()}
		ch.round = uint32(1 + r.Intn(3))
		// the genuine commit: a random set above two thirds signs for the block
		nv := len(ch.keys)
		forB := make([]bool, nv)
		sum := int64(0)
		for _, i := range r.Perm(nv) {
			if netQuorum(sum, ch.total) && r.Chance(1, 2) {
				break
			}
			forB[i] = true
			sum += ch.powers[i]
		}
		base := netGenesisTime.Add(time.Duration(h) * time.Second)
		ch.slots = make([]c01Slot, nv)
		for i := range ch.slots {
			switch {
			case forB[i]:
				ch.slots[i] = c01Sign(ch.keys, i, kproto.PrecommitType, h, ch.round, ch.id, base.Add(time.Duration(i)*time.Millisecond))
			case r.Chance(1, 2):
				ch.slots[i] = c01Sign(ch.keys, i, kproto.PrecommitType, h, ch.round, types.BlockID{}, base.Add(time.Duration(i)*time.Millisecond))
			default:
				ch.slots[i] = c01Slot{sig: types.NewCommitSigAbsent(), key: -1}
			}
		}
		ch.commit = c01MkCommit(h, ch.round, ch.id, ch.slots)
		chain[h] = ch
		var err error
		var ns cstate.LatestBlockState
		if p := netGuarded(func() { ns, _, err = bexec.ApplyBlock(st, ch.id, ch.block) }); p != "" || err != nil {
			o.Fail(int(h), "harness-sync-build", fmt.Sprintf("height %d: %v %s", h, err, strings.Split(p, "\n")[0]))
			return
		}
		st = ns
		last = ch.commit
	}
	// ---- the processor under test
	bo, exec, stop := newExec()
	defer stop()
	proc := blockchain.VerifNewProcessor(bo, exec, gen.Copy())
	ids := map[string]int{}
	intern := func(b types.BlockID) int {
		if b.IsZero() {
			return 0
		}
		k := netBidKey(b)
		if _, ok := ids[k]; !ok {
			ids[k] = len(ids) + 1
		}
		return ids[k]
	}
	o.InOnly("PINIT")
	for h := uint64(1); h <= uint64(L)+1; h++ {
		l := []string{"PVALS", fmt.Sprint(h), fmt.Sprint(len(chain[h].powers))}
		for _, p := range chain[h].powers {
			l = append(l, fmt.Sprint(p))
		}
		o.InOnly(strings.Join(l, " "))
	}
	queued := map[uint64]string{} // height -> peer (the harness's own view of the queue)
	type offered struct {
		blk     *types.Block
		slots   []c01Slot        // of its LastCommit
		addrs   []common.Address // the validators (by index) entitled to sign its LastCommit
		just    bool             // its LastCommit is signed by +2/3 distinct validators of the previous height for the genuine previous block
		renamed bool             // ... but some present slot names another validator than its own
		kind    string
	}
	addrsOf := func(h uint64) []common.Address {
		var l []common.Address
		if ch := chain[h]; ch != nil {
			for _, k := range ch.keys {
				l = append(l, k.GetAddress())
			}
		}
		return l
	}
	inQueue := map[uint64]*offered{}
	step := 0
	offer := func(peer int, of *offered) {
		step++
		b := of.blk
		h := b.Height()
		std := types.BlockID{Hash: b.Hash(), PartsHeader: b.MakePartSet(types.BlockPartSizeBytes).Header()}
		in := []string{"PB", fmt.Sprint(peer), fmt.Sprint(h), fmt.Sprint(intern(std))}
		if lc := b.LastCommit(); lc == nil {
			in = append(in, "N")
		} else {
			in = append(in, "C", fmt.Sprint(lc.Height), fmt.Sprint(lc.Round), fmt.Sprint(intern(lc.BlockID)), fmt.Sprint(len(lc.Signatures)))
			in = append(in, c01SlotTokens(lc, of.slots, of.addrs)...)
		}
		res := proc.BlockReceived(p2p.ID(fmt.Sprintf("p%d", peer)), b)
		obs := "pb ok"
		if strings.HasPrefix(res, "panic:duplicate block") {
			obs = "pb dup"
			o.Count("sync:duplicate-offer-panics")
		} else if res != "" {
			obs = "pb PANIC"
			o.Fail(step, "blocksync-panic", res)
		} else if h > proc.Height() {
			queued[h] = fmt.Sprint(peer)
			inQueue[h] = of
		}
		o.Op(strings.Join(in, " "), obs)
	}
	process := func() (string, uint64) {
		step++
		before := proc.Height()
		res, rh := proc.Process()
		obs := "pp " + res
		if res == "processed" || res == "refused" {
			obs += fmt.Sprint(" ", rh)
		}
		if strings.HasPrefix(res, "panic:") {
			obs = "pp PANIC"
			o.Fail(step, "blocksync-panic", res)
		}
		o.Op("PP", obs)
		o.Count("sync:process:" + strings.Fields(res)[0])
		switch res {
		case "processed":
			h := before + 1
			of1, of2 := inQueue[h], inQueue[h+1]
			if got := bo.blocks[h]; got == nil || got.Hash() != chain[h].block.Hash() {
				o.Fail(step, "blocksync-adopted-uncommitted", fmt.Sprintf("height %d: the processor adopted a block (offer kind %v) that is not the block +2/3 signed", h, of1))
			} else if of2 != nil && !of2.just {
				o.Fail(step, "blocksync-adopted-on-unjustified-commit", fmt.Sprintf("height %d: adopted on the strength of a %s commit in which the distinct signers hold at most 2/3", h, of2.kind))
			} else if of2 != nil && of2.renamed {
				o.Fail(step, "blocksync-adopted-on-forged-address-commit", fmt.Sprintf("height %d: adopted on the strength of a %s commit whose slots name other validators than their signers (the next block's time is weighted by the named validators)", h, of2.kind))
			}
			delete(queued, h)
			delete(inQueue, h)
		case "refused":
			// both peers' blocks are gone
			p1, p2 := queued[before+1], queued[before+2]
			for h, p := range queued {
				if p == p1 || p == p2 {
					delete(queued, h)
					delete(inQueue, h)
				}
			}
		}
		return res, rh
	}
	genuine := func(h uint64) *offered {
		of := &offered{blk: chain[h].block, just: true, kind: "genuine"}
		if h > 1 {
			of.slots = chain[h-1].slots
			of.addrs = addrsOf(h - 1)
		}
		return of
	}
	// forged second block for height h+1: block h+1 rebuilt around a forged commit for height h
	forged := func(h uint64) (first, second *offered) {
		ch, nx := chain[h], chain[h+1]
		nv := len(ch.keys)
		kinds := []string{"repeat-addr", "repeat-slot", "other-block-repeated", "other-block-minority", "insufficient", "rotate", "other-round", "other-height",
			"nil-commit", "size-minus", "size-plus", "prev-set", "ts-tamper", "sig-prevote", "renamed-rotate", "renamed-one", "renamed-all-to-one"}
		kind := kinds[r.Intn(len(kinds))]
		o.Count("sync:forged:" + kind)
		slots := append([]c01Slot{}, ch.slots...)
		cid, crd, chh := ch.id, ch.round, h
		fb := ch.block
		var fbs []c01Slot
		if h > 1 {
			fbs = chain[h-1].slots
		}
		var fbIdx []int
		for i, sl := range slots {
			if sl.sig.ForBlock() {
				fbIdx = append(fbIdx, i)
			}
		}
		nilC := false
		otherBlock := func() {
			hd := ch.block.Header()
			hd.GasLimit += uint64(1 + r.Intn(50))
			fb = types.NewBlock(hd, nil, ch.block.LastCommit(), nil, trie.NewStackTrie(nil))
			cid = types.BlockID{Hash: fb.Hash(), PartsHeader: fb.MakePartSet(types.BlockPartSizeBytes).Header()}
		}
		base := netGenesisTime.Add(time.Duration(h) * time.Second)
		switch kind {
		case "repeat-addr", "repeat-slot":
			j := fbIdx[r.Intn(len(fbIdx))]
			for i := range slots {
				slots[i] = ch.slots[j]
				if kind == "repeat-slot" {
					slots[i].sig.ValidatorAddress = ch.keys[i].GetAddress()
				}
			}
		case "other-block-repeated", "other-block-minority": // another block, signed by at most a third / one signature everywhere
			otherBlock()
			var signers []int
			sum := int64(0)
			for _, i := range r.Perm(nv) {
				if 3*(sum+ch.powers[i]) < ch.total {
					signers = append(signers, i)
					sum += ch.powers[i]
				}
			}
			if len(signers) == 0 {
				signers = []int{r.Intn(nv)} // what one validator alone can forge
			}
			for i := range slots {
				slots[i] = c01Slot{sig: types.NewCommitSigAbsent(), key: -1}
			}
			for _, i := range signers {
				slots[i] = c01Sign(ch.keys, i, kproto.PrecommitType, h, crd, cid, base.Add(time.Duration(i)*time.Millisecond))
			}
			if kind == "other-block-repeated" {
				j := signers[0]
				for i := range slots {
					if i != j {
						slots[i] = slots[j]
						if r.Chance(1, 2) {
							slots[i].sig.ValidatorAddress = ch.keys[i].GetAddress()
						}
					}
				}
			}
		case "insufficient":
			left := int64(0)
			for _, i := range fbIdx {
				left += ch.powers[i]
			}
			for _, i := range r.Perm(nv) {
				if !netQuorum(left, ch.total) {
					break
				}
				if slots[i].sig.ForBlock() {
					left -= ch.powers[i]
					slots[i] = c01Slot{sig: types.NewCommitSigAbsent(), key: -1}
				}
			}
		case "rotate":
			if nv < 2 {
				slots[0] = c01Slot{sig: types.NewCommitSigAbsent(), key: -1}
			} else {
				k := 1 + r.Intn(nv-1)
				ns := make([]c01Slot, nv)
				for i := range slots {
					ns[(i+k)%nv] = slots[i]
				}
				slots = ns
			}
		case "other-round":
			crd++
		case "other-height":
			chh = h + 1
		case "nil-commit":
			nilC = true
		case "size-minus":
			slots = slots[:nv-1]
		case "size-plus":
			slots = append(slots, c01Slot{sig: types.NewCommitSigAbsent(), key: -1})
		case "prev-set": // signed by the validators of the previous height, in their order
			if h < 2 {
				crd++
				break
			}
			pc := chain[h-1]
			slots = make([]c01Slot, len(pc.keys))
			for i := range slots {
				key := -1
				for j := range ch.keys {
					if ch.keys[j] == pc.keys[i] {
						key = j
					}
				}
				slots[i] = c01SignWith(pc.keys[i], key, kproto.PrecommitType, h, crd, cid, base.Add(time.Duration(i)*time.Millisecond))
			}
		case "renamed-rotate", "renamed-one", "renamed-all-to-one": // the genuine signatures in their slots under other validators' addresses
			k, one, to := 1+r.Intn(nv), fbIdx[r.Intn(len(fbIdx))], r.Intn(nv)
			for i := range slots {
				if slots[i].sig.Absent() {
					continue
				}
				switch kind {
				case "renamed-rotate":
					slots[i].sig.ValidatorAddress = ch.keys[(i+k)%nv].GetAddress()
				case "renamed-one":
					if i == one {
						slots[i].sig.ValidatorAddress = ch.keys[(i+k)%nv].GetAddress()
					}
				case "renamed-all-to-one":
					slots[i].sig.ValidatorAddress = ch.keys[to].GetAddress()
				}
			}
		case "ts-tamper":
			j := fbIdx[r.Intn(len(fbIdx))]
			slots[j].sig.Timestamp = slots[j].sig.Timestamp.Add(time.Nanosecond)
		case "sig-prevote":
			j := fbIdx[r.Intn(len(fbIdx))]
			slots[j] = c01Sign(ch.keys, j, kproto.PrevoteType, h, crd, cid, base)
		}
		var fc *types.Commit
		if !nilC {
			fc = c01MkCommit(chh, crd, cid, slots)
		}
		// is the forged commit nevertheless a proof for the genuine block? (distinct signers of a
		// precommit for (h, genuine id) in any round)
		just := int64(0)
		seen := map[int]bool{}
		if !nilC && cid.Equal(ch.id) {
			for _, sl := range slots {
				if sl.key < 0 || sl.signed == nil || seen[sl.key] {
					continue
				}
				for rr := uint32(1); rr <= ch.round+1; rr++ {
					v := &types.Vote{Type: kproto.PrecommitType, Height: h, Round: rr, BlockID: ch.id, Timestamp: sl.sig.Timestamp}
					if string(types.VoteSignBytes(netChainID, v.ToProto())) == string(sl.signed) {
						seen[sl.key] = true
						just += ch.powers[sl.key]
						break
					}
				}
			}
		}
		renamed := false
		for i, sl := range slots {
			if i < nv && !sl.sig.Absent() && !sl.sig.ValidatorAddress.Equal(ch.keys[i].GetAddress()) {
				renamed = true
			}
		}
		sb := types.NewBlock(nx.block.Header(), nil, fc, nil, trie.NewStackTrie(nil))
		return &offered{blk: fb, slots: fbs, addrs: addrsOf(h - 1), just: true, kind: kind + ":first"},
			&offered{blk: sb, slots: slots, addrs: addrsOf(h), just: netQuorum(just, ch.total), renamed: renamed, kind: kind}
	}
	for guard := 0; proc.Height() < uint64(L) && guard < 200; guard++ {
		h := proc.Height() + 1
		switch r.Pick(5, 4, 1, 1, 1) {
		case 0: // the genuine pair (whatever is missing of it), then process
			for _, hh := range []uint64{h, h + 1} {
				if _, ok := queued[hh]; !ok {
					offer(1+r.Intn(2), genuine(hh))
				}
			}
			process()
		case 1: // a forged pair from the bad peer
			if _, ok := queued[h]; ok {
				break
			}
			if _, ok := queued[h+1]; ok {
				break
			}
			f1, f2 := forged(h)
			offer(3, f1)
			offer(3, f2)
			res, _ := process()
			o.Mark("sync-forged:" + f2.kind + ":" + res)
		case 2: // a block far ahead / already adopted / a duplicate
			hh := []uint64{h + 2, h + 3, h - 1, h, h + 1}[r.Intn(5)]
			if hh >= 1 && hh <= uint64(L)+1 {
				if _, dup := queued[hh]; !dup || r.Chance(1, 3) {
					offer(1+r.Intn(2), genuine(hh))
				}
			}
		case 3: // a peer is reported
			peer := 1 + r.Intn(3)
			step++
			proc.PeerError(p2p.ID(fmt.Sprintf("p%d", peer)))
			for hh, p := range queued {
				if p == fmt.Sprint(peer) {
					delete(queued, hh)
					delete(inQueue, hh)
				}
			}
			o.Op(fmt.Sprintf("PE %d", peer), "pe")
		case 4: // process with whatever is queued
			process()
		}
	}
	if proc.Height() < uint64(L) {
		o.Fail(step, "blocksync-refuses-committed", fmt.Sprintf("the processor stopped at height %d of %d", proc.Height(), L))
	} else {
		o.Mark("sync-direct-complete")
	}
}

func c01MkCommit(h uint64, round uint32, bid types.BlockID, slots []c01Slot) *types.Commit {
	sigs := make([]types.CommitSig, len(slots))
	for i := range slots {
		sigs[i] = slots[i].sig
	}
	return types.NewCommit(h, round, bid, sigs)
}

// c01SignWith: like c01Sign with an explicit key; keyIdx is the key's index in the set that will be
// asked to verify (-1: not a member).
func c01SignWith(pv *types.DefaultPrivValidator, keyIdx int, typ kproto.SignedMsgType, h uint64, round uint32, bid types.BlockID, ts time.Time) c01Slot {
	v := &types.Vote{ValidatorAddress: pv.GetAddress(), Height: h, Round: round, Timestamp: ts, Type: typ, BlockID: bid}
	p := v.ToProto()
	if err := pv.SignVote(netChainID, p); err != nil {
		panic(err)
	}
	flag := types.BlockIDFlagCommit
	if bid.IsZero() {
		flag = types.BlockIDFlagNil
	}
	return c01Slot{sig: types.CommitSig{BlockIDFlag: flag, ValidatorAddress: pv.GetAddress(), Timestamp: ts, Signature: p.Signature},
		key: keyIdx, signed: types.VoteSignBytes(netChainID, p)}
}

var _ = strconv.Itoa
