//go:build verif

package consensus

import (
	"fmt"
	"testing"
	"time"

	"github.com/kardiachain/go-kardia/configs"
	cstypes "github.com/kardiachain/go-kardia/consensus/types"
	"github.com/kardiachain/go-kardia/kai/kaidb/memorydb"
	"github.com/kardiachain/go-kardia/kai/state/cstate"
	"github.com/kardiachain/go-kardia/lib/common"
	"github.com/kardiachain/go-kardia/lib/crypto"
	"github.com/kardiachain/go-kardia/lib/log"
	stypes "github.com/kardiachain/go-kardia/mainchain/staking/types"
	kproto "github.com/kardiachain/go-kardia/proto/kardiachain/types"
	"github.com/kardiachain/go-kardia/trie"
	"github.com/kardiachain/go-kardia/types"
)

var _ = cstypes.RoundStepNewHeight
var _ = kproto.PrevoteType
var _ = trie.NewStackTrie

type c03BlockOps struct {
	height uint64
}

func (b *c03BlockOps) Base() uint64                              { return 0 }
func (b *c03BlockOps) Height() uint64                            { return b.height }
func (b *c03BlockOps) LoadBlock(height uint64) *types.Block      { return nil }
func (b *c03BlockOps) LoadBlockCommit(height uint64) *types.Commit { return nil }
func (b *c03BlockOps) LoadSeenCommit(height uint64) *types.Commit  { return nil }
func (b *c03BlockOps) CreateProposalBlock(height uint64, state cstate.LatestBlockState, proposerAddr common.Address, commit *types.Commit) (*types.Block, *types.PartSet) {
	var ts time.Time
	if height == 1 {
		ts = state.LastBlockTime
	} else {
		ts = cstate.MedianTime(commit, state.LastValidators)
	}
	h := &types.Header{Height: height, Time: ts, LastBlockID: state.LastBlockID, ProposerAddress: proposerAddr,
		ValidatorsHash: state.Validators.Hash(), NextValidatorsHash: state.NextValidators.Hash(), AppHash: state.AppHash}
	blk := types.NewBlock(h, nil, commit, nil, trie.NewStackTrie(nil))
	return blk, blk.MakePartSet(types.BlockPartSizeBytes)
}
func (b *c03BlockOps) CommitAndValidateBlockTxs(block *types.Block, lastCommit stypes.LastCommitInfo, byzVals []stypes.Evidence) ([]*types.Validator, common.Hash, error) {
	return nil, common.Hash{}, nil
}
func (b *c03BlockOps) SaveBlock(block *types.Block, partSet *types.PartSet, seenCommit *types.Commit) {
	b.height = block.Height()
}
func (b *c03BlockOps) LoadBlockPart(height uint64, index int) *types.Part { return nil }
func (b *c03BlockOps) LoadBlockMeta(height uint64) *types.BlockMeta       { return nil }
func (b *c03BlockOps) Config() *configs.ChainConfig                       { return configs.TestChainConfig }

type c03Ev struct{}

func (c03Ev) AddEvidenceFromConsensus(ev types.Evidence) error                     { return nil }
func (c03Ev) Update(s cstate.LatestBlockState, ev types.EvidenceList)               {}
func (c03Ev) CheckEvidence(evList types.EvidenceList) error                         { return nil }

type c03Ticker struct{ sched []timeoutInfo }

func (t *c03Ticker) Start() error                   { return nil }
func (t *c03Ticker) Stop() error                    { return nil }
func (t *c03Ticker) Chan() <-chan timeoutInfo       { return nil }
func (t *c03Ticker) ScheduleTimeout(ti timeoutInfo) { t.sched = append(t.sched, ti) }
func (t *c03Ticker) SetLogger(log.Logger)           {}

func TestVerifC03(t *testing.T) {
	log.Root().SetHandler(log.DiscardHandler())
	n := 4
	var pvs []*types.DefaultPrivValidator
	var vals []*types.Validator
	for i := 0; i < n; i++ {
		k, _ := crypto.ToECDSA(crypto.Keccak256([]byte(fmt.Sprintf("c03-%d", i))))
		pv := types.NewDefaultPrivValidator(k)
		pvs = append(pvs, pv)
		vals = append(vals, types.NewValidator(pv.GetAddress(), 10))
	}
	vs := types.NewValidatorSet(vals)
	st := cstate.LatestBlockState{ChainID: "kaicon", InitialHeight: 1, LastBlockID: types.NewZeroBlockID(),
		LastBlockTime: time.Unix(1600000000, 0), Validators: vs, LastValidators: vs, NextValidators: vs.CopyIncrementProposerPriority(1),
		ConsensusParams: *configs.DefaultConsensusParams()}
	store := cstate.NewStore(memorydb.New())
	store.Save(st)
	bo := &c03BlockOps{}
	logger := log.New()
	be := cstate.NewBlockExecutor(store, logger, c03Ev{}, bo)
	cs := NewConsensusState(logger, configs.TestConsensusConfig(), st, bo, be, c03Ev{})
	tk := &c03Ticker{}
	cs.timeoutTicker = tk
	// who am i
	me := 0
	for i, pv := range pvs {
		if pv.GetAddress().Equal(vs.Validators[0].Address) {
			me = i
		}
	}
	cs.SetPrivValidator(pvs[me])
	eb := types.NewEventBus()
	eb.SetLogger(logger)
	eb.Start()
	cs.SetEventBus(eb)
	fmt.Println("H/R/S", cs.Height, cs.Round, cs.Step, "proposer", vs.GetProposer().Address.Hex(), "me", pvs[me].GetAddress().Hex())
	cs.handleTimeout(timeoutInfo{Height: 1, Round: 1, Step: cstypes.RoundStepNewHeight}, cs.RoundState)
	fmt.Println("H/R/S", cs.Height, cs.Round, cs.Step, "sched", tk.sched, "iq", len(cs.internalMsgQueue))
	for len(cs.internalMsgQueue) > 0 {
		mi := <-cs.internalMsgQueue
		cs.handleMsg(mi)
		fmt.Printf("  handled %T -> H/R/S %d %d %d\n", mi.Msg, cs.Height, cs.Round, cs.Step)
	}
	cs.handleTimeout(timeoutInfo{Height: 1, Round: 1, Step: cstypes.RoundStepPropose}, cs.RoundState)
	fmt.Println("H/R/S", cs.Height, cs.Round, cs.Step, "sched", tk.sched, "iq", len(cs.internalMsgQueue))
	eb.Stop()
}
