//go:build verif

// C03 in-package harness (injected with `go test -overlay`, tag verif; nothing in /repo is edited).
//
// A real ConsensusState is assembled by hand (in-memory state store, the real cstate.BlockExecutor
// and validateBlock, a stub BaseBlockOperations that builds proposal blocks the way
// blockchain.BlockOperations does, a recording PrivValidator, a manual ticker with the monotone
// filter of ticker.go, nil WAL) and is driven synchronously through cs.handleMsg /
// cs.handleTimeout.  The harness holds the keys of all other validators and feeds adversarial
// scripts; after every input the projection of the RoundState and every signature / timeout /
// commit request made during that input is printed (impl.txt) and compared with the extracted
// Coq model (coq/theories/C03/Node.v) run on the same script (in.txt).  Independently of the
// model, the C03 obligations are checked directly on the signature log against the messages
// delivered so far (oracle.txt).
//
// Reusable by C01/C04/C05/C19: c03NewNode (one node), c03Net (keys, validator set, genesis
// state), c03Node.deliver* and c03Node.drainOne (synchronous stepping), c03Node.events.
package consensus

import (
	"bufio"
	"encoding/json"
	"flag"
	"fmt"
	"math/big"
	"os"
	"path/filepath"
	"sort"
	"strings"
	"testing"
	"time"

	"github.com/kardiachain/go-kardia/configs"
	cstypes "github.com/kardiachain/go-kardia/consensus/types"
	"github.com/kardiachain/go-kardia/kai/kaidb/memorydb"
	"github.com/kardiachain/go-kardia/kai/state/cstate"
	"github.com/kardiachain/go-kardia/lib/common"
	"github.com/kardiachain/go-kardia/lib/crypto"
	"github.com/kardiachain/go-kardia/lib/log"
	"github.com/kardiachain/go-kardia/lib/p2p"
	stypes "github.com/kardiachain/go-kardia/mainchain/staking/types"
	kproto "github.com/kardiachain/go-kardia/proto/kardiachain/types"
	"github.com/kardiachain/go-kardia/trie"
	"github.com/kardiachain/go-kardia/types"
)

// ---------------------------------------------------------------------------------------------
// flags and the two tiny helpers copied from verif/harness/internal/{gen,out}

var (
	c03Seed  = flag.Uint64("seed", 1, "PRNG seed")
	c03N     = flag.Int("n", 100, "number of generated cases")
	c03Dir   = flag.String("out", "", "output directory")
	c03Only  = flag.Int("only", -1, "generate and run only this case index")
	c03Tier  = flag.String("tier", "quick", "quick|thorough")
	c03Facts = flag.String("facts", "", "unused (no source-derived facts for C03)")
)

type c03Rand struct{ s uint64 }

func c03NewRand(seed uint64) *c03Rand { return &c03Rand{s: seed*0x9E3779B97F4A7C15 + 0x1234567} }
func (r *c03Rand) Fork(i uint64) *c03Rand {
	return &c03Rand{s: r.s ^ (i+1)*0xBF58476D1CE4E5B9}
}
func (r *c03Rand) U64() uint64 {
	r.s += 0x9E3779B97F4A7C15
	z := r.s
	z = (z ^ (z >> 30)) * 0xBF58476D1CE4E5B9
	z = (z ^ (z >> 27)) * 0x94D049BB133111EB
	return z ^ (z >> 31)
}
func (r *c03Rand) Intn(n int) int {
	if n <= 0 {
		return 0
	}
	return int(r.U64() % uint64(n))
}
func (r *c03Rand) Chance(num, den int) bool { return r.Intn(den) < num }
func (r *c03Rand) Pick(weights ...int) int {
	t := 0
	for _, w := range weights {
		t += w
	}
	x := r.Intn(t)
	for i, w := range weights {
		if x < w {
			return i
		}
		x -= w
	}
	return len(weights) - 1
}
func (r *c03Rand) Perm(n int) []int {
	p := make([]int, n)
	for i := range p {
		p[i] = i
	}
	for i := n - 1; i > 0; i-- {
		j := r.Intn(i + 1)
		p[i], p[j] = p[j], p[i]
	}
	return p
}

type c03Out struct {
	dir           string
	in, impl, orc *bufio.Writer
	files         []*os.File
	dist          map[string]int
	samples       []string
	cases, ops    int
	nontrivial    map[string]bool
	rule          string
	fails         int
	curCase       int
	curSample     []string
}

func c03Open(dir string) *c03Out {
	os.MkdirAll(dir, 0o755)
	o := &c03Out{dir: dir, dist: map[string]int{}, nontrivial: map[string]bool{}}
	for _, n := range []string{"in.txt", "impl.txt", "oracle.txt"} {
		f, err := os.Create(filepath.Join(dir, n))
		if err != nil {
			panic(err)
		}
		o.files = append(o.files, f)
	}
	o.in, o.impl, o.orc = bufio.NewWriterSize(o.files[0], 1<<20), bufio.NewWriterSize(o.files[1], 1<<20), bufio.NewWriterSize(o.files[2], 1<<16)
	return o
}
func (o *c03Out) flushSample() {
	if o.curSample != nil && len(o.samples) < 3 {
		o.samples = append(o.samples, strings.Join(o.curSample, "\n")+"\n")
	}
	o.curSample = nil
}
func (o *c03Out) Case(n int, header string) {
	o.flushSample()
	o.curCase = n
	o.cases++
	fmt.Fprintln(o.in, header)
	fmt.Fprintf(o.impl, "CASE %d\n", n)
	o.curSample = []string{header}
}
func (o *c03Out) Op(input, observed string) {
	o.ops++
	fmt.Fprintln(o.in, input)
	fmt.Fprintln(o.impl, observed)
	if len(o.curSample) < 60 {
		o.curSample = append(o.curSample, input+"  =>  "+observed)
	}
}
func (o *c03Out) InOnly(line string) {
	fmt.Fprintln(o.in, line)
	if len(o.curSample) < 60 {
		o.curSample = append(o.curSample, line)
	}
}
func (o *c03Out) Fail(step int, class, detail string) {
	o.fails++
	fmt.Fprintf(o.orc, "FAIL case=%d step=%d class=%s %s\n", o.curCase, step, class, detail)
}
func (o *c03Out) Count(k string) { o.dist[k]++ }
func (o *c03Out) Mark(k string)  { o.nontrivial[k] = true }
func (o *c03Out) Close() {
	o.flushSample()
	o.in.Flush()
	o.impl.Flush()
	o.orc.Flush()
	for _, f := range o.files {
		f.Close()
	}
	st := map[string]interface{}{"cases": o.cases, "ops": o.ops, "distinct_nontrivial": len(o.nontrivial),
		"rule": o.rule, "dist": o.dist, "samples": o.samples, "oracle_failures": o.fails, "seed": *c03Seed}
	b, _ := json.MarshalIndent(st, "", " ")
	os.WriteFile(filepath.Join(o.dir, "stats.json"), b, 0o644)
}

// ---------------------------------------------------------------------------------------------
// network-wide data: keys, validator set, genesis state

const c03ChainID = "kaicon"

var c03Genesis = time.Unix(1600000000, 0).UTC()

type c03Net struct {
	n      int
	pvs    []*types.DefaultPrivValidator // by validator index
	vals   *types.ValidatorSet
	powers []int64
	total  int64
	state  cstate.LatestBlockState
}

// c03NewNet builds n validators with the given powers; keys are derived from tag so that a run is
// reproducible.  Index i of pvs is validator index i of the (sorted) validator set.
func c03NewNet(tag string, powers []int64) *c03Net {
	n := len(powers)
	var vals []*types.Validator
	byAddr := map[common.Address]*types.DefaultPrivValidator{}
	for i := 0; i < n; i++ {
		k, err := crypto.ToECDSA(crypto.Keccak256([]byte(fmt.Sprintf("c03-key-%s-%d", tag, i))))
		if err != nil {
			panic(err)
		}
		pv := types.NewDefaultPrivValidator(k)
		byAddr[pv.GetAddress()] = pv
		vals = append(vals, types.NewValidator(pv.GetAddress(), powers[i]))
	}
	vs := types.NewValidatorSet(vals)
	net := &c03Net{n: n, vals: vs}
	for _, v := range vs.Validators {
		net.pvs = append(net.pvs, byAddr[v.Address])
		net.powers = append(net.powers, v.VotingPower)
		net.total += v.VotingPower
	}
	net.state = cstate.LatestBlockState{ChainID: c03ChainID, InitialHeight: 1, LastBlockID: types.NewZeroBlockID(),
		LastBlockTime: c03Genesis, Validators: vs, LastValidators: vs, NextValidators: vs.CopyIncrementProposerPriority(1),
		ConsensusParams: *configs.DefaultConsensusParams()}
	return net
}

// ---------------------------------------------------------------------------------------------
// one node: the real ConsensusState with recording stubs around it

type c03Event struct {
	kind            string // sv sp sc cm
	typ             int
	height          uint64
	round           uint32
	pol             uint32
	bid             types.BlockID
	step            int
	block           *types.Block
	seenCommit      *types.Commit
	partsIncomplete bool
	ts              time.Time      // sv: the timestamp of the vote being signed
	obj             *types.Block   // sv: the block object the node holds for the vote's hash at signing time
	parts           types.PartSetHeader // cm: header of the part set saved with the block
}

type c03Node struct {
	net    *c03Net
	cs     *ConsensusState
	me     int // validator index, -1 if not a validator
	events []c03Event
	ticker *c03Ticker
	bo     *c03BlockOps
	store  cstate.Store
	probe  *cstate.BlockExecutor // separate executor for harness-side validateBlock queries (own cache)
	eb     *types.EventBus
	// sigHook is told about every vote the node's key signs (content and signature bytes)
	sigHook func(vote *kproto.Vote)
}

type c03BlockOps struct {
	node    *c03Node
	height  uint64
	created []*types.Block // blocks built by CreateProposalBlock, in order
	createR []uint32
	createS []cstate.LatestBlockState
}

func (b *c03BlockOps) Base() uint64                                { return 0 }
func (b *c03BlockOps) Height() uint64                              { return b.height }
func (b *c03BlockOps) LoadBlock(height uint64) *types.Block        { return nil }
func (b *c03BlockOps) LoadBlockCommit(height uint64) *types.Commit { return nil }
func (b *c03BlockOps) LoadSeenCommit(height uint64) *types.Commit  { return nil }

// CreateProposalBlock mirrors blockchain.BlockOperations.CreateProposalBlock (no txs, no evidence).
func (b *c03BlockOps) CreateProposalBlock(height uint64, state cstate.LatestBlockState, proposerAddr common.Address, commit *types.Commit) (*types.Block, *types.PartSet) {
	var ts time.Time
	if height == 1 {
		ts = state.LastBlockTime
	} else {
		ts = cstate.MedianTime(commit, state.LastValidators)
	}
	h := &types.Header{Height: height, Time: ts, LastBlockID: state.LastBlockID, ProposerAddress: proposerAddr,
		ValidatorsHash: state.Validators.Hash(), NextValidatorsHash: state.NextValidators.Hash(), AppHash: state.AppHash,
		GasLimit: configs.BlockGasLimit}
	blk := types.NewBlock(h, nil, commit, nil, trie.NewStackTrie(nil))
	b.created = append(b.created, blk)
	b.createR = append(b.createR, b.node.cs.Round)
	b.createS = append(b.createS, state)
	return blk, blk.MakePartSet(types.BlockPartSizeBytes)
}
func (b *c03BlockOps) CommitAndValidateBlockTxs(block *types.Block, lastCommit stypes.LastCommitInfo, byzVals []stypes.Evidence) ([]*types.Validator, common.Hash, error) {
	return nil, common.Hash{}, nil
}

// SaveBlock mirrors blockchain.BlockOperations.SaveBlock's sanity checks.
func (b *c03BlockOps) SaveBlock(block *types.Block, partSet *types.PartSet, seenCommit *types.Commit) {
	if block == nil {
		common.PanicSanity("BlockOperations try to save a nil block")
	}
	if g, w := block.Height(), b.height+1; g != w {
		common.PanicSanity(common.Fmt("BlockOperations can only save contiguous blocks. Wanted %v, got %v", w, g))
	}
	if !partSet.IsComplete() {
		panic("BlockOperations can only save complete block part sets")
	}
	b.node.events = append(b.node.events, c03Event{kind: "cm", height: block.Height(), round: seenCommit.Round, block: block, seenCommit: seenCommit, bid: seenCommit.BlockID, parts: partSet.Header()})
	b.height = block.Height()
}
func (b *c03BlockOps) LoadBlockPart(height uint64, index int) *types.Part { return nil }
func (b *c03BlockOps) LoadBlockMeta(height uint64) *types.BlockMeta       { return nil }
func (b *c03BlockOps) Config() *configs.ChainConfig                       { return configs.TestChainConfig }

type c03Ev struct{}

func (c03Ev) AddEvidenceFromConsensus(ev types.Evidence) error        { return nil }
func (c03Ev) Update(s cstate.LatestBlockState, ev types.EvidenceList) {}
func (c03Ev) CheckEvidence(evList types.EvidenceList) error           { return nil }

// c03Ticker: TimeoutTicker without a clock.  ScheduleTimeout applies timeoutRoutine's monotone
// filter (ticker.go, transcribed); an accepted timeout may later be delivered once by the harness.
type c03Ticker struct {
	node    *c03Node
	last    timeoutInfo
	pending []timeoutInfo
}

func (t *c03Ticker) Start() error             { return nil }
func (t *c03Ticker) Stop() error              { return nil }
func (t *c03Ticker) Chan() <-chan timeoutInfo { return nil }
func (t *c03Ticker) SetLogger(log.Logger)     {}
func (t *c03Ticker) ScheduleTimeout(newti timeoutInfo) {
	t.node.events = append(t.node.events, c03Event{kind: "sc", height: newti.Height, round: newti.Round, step: int(newti.Step)})
	ti := t.last
	if newti.Height < ti.Height {
		return
	} else if newti.Height == ti.Height {
		if newti.Round < ti.Round {
			return
		} else if newti.Round == ti.Round {
			if ti.Step > 0 && newti.Step <= ti.Step {
				return
			}
		}
	}
	t.last = newti
	t.pending = append([]timeoutInfo{newti}, t.pending...)
}

// take removes (h,r,s) from the deliverable set; false if it was never accepted / already delivered
func (t *c03Ticker) take(h uint64, r uint32, s cstypes.RoundStepType) bool {
	for i, ti := range t.pending {
		if ti.Height == h && ti.Round == r && ti.Step == s {
			t.pending = append(t.pending[:i:i], t.pending[i+1:]...)
			return true
		}
	}
	return false
}

// c03PV records every signing request before delegating to the real DefaultPrivValidator.
type c03PV struct {
	*types.DefaultPrivValidator
	node *c03Node
}

func (p *c03PV) SignVote(chainID string, vote *kproto.Vote) error {
	bid, _ := types.BlockIDFromProto(&vote.BlockID)
	// the block object behind the vote, read at the moment of signing (LockedBlock first, as the
	// code does in doPrevote / enterPrecommit)
	var obj *types.Block
	if cs := p.node.cs; cs != nil && !bid.Hash.IsZero() {
		if cs.LockedBlock.HashesTo(bid.Hash) {
			obj = cs.LockedBlock
		} else if cs.ProposalBlock.HashesTo(bid.Hash) {
			obj = cs.ProposalBlock
		}
	}
	p.node.events = append(p.node.events, c03Event{kind: "sv", typ: int(vote.Type), height: vote.Height, round: vote.Round, bid: *bid, ts: vote.Timestamp, obj: obj})
	err := p.DefaultPrivValidator.SignVote(chainID, vote)
	if err == nil && p.node.sigHook != nil {
		p.node.sigHook(vote)
	}
	return err
}
func (p *c03PV) SignProposal(chainID string, proposal *kproto.Proposal) error {
	bid, _ := types.BlockIDFromProto(&proposal.BlockID)
	p.node.events = append(p.node.events, c03Event{kind: "sp", height: proposal.Height, round: proposal.Round, pol: proposal.PolRound, bid: *bid})
	return p.DefaultPrivValidator.SignProposal(chainID, proposal)
}

// c03NewNode assembles a ConsensusState for validator index me (-1: a key outside the set).
func c03NewNode(net *c03Net, me int, cfg *configs.ConsensusConfig) *c03Node {
	nd := &c03Node{net: net, me: me}
	nd.store = cstate.NewStore(memorydb.New())
	nd.store.Save(net.state)
	nd.bo = &c03BlockOps{node: nd}
	logger := log.New()
	be := cstate.NewBlockExecutor(nd.store, logger, c03Ev{}, nd.bo)
	nd.probe = cstate.NewBlockExecutor(nd.store, logger, c03Ev{}, nd.bo)
	// (before fix 23dc084 NewTimeoutTicker() could panic through its nil logger when the zero-duration
	// timer had already fired; the retry is kept so that the harness also runs on older trees)
	var cs *ConsensusState
	for try := 0; cs == nil && try < 50; try++ {
		c03Guarded(func() { cs = NewConsensusState(logger, cfg, net.state.Copy(), nd.bo, be, c03Ev{}) })
	}
	nd.cs = cs
	nd.ticker = &c03Ticker{node: nd, last: *EmptyTimeoutInfo()}
	cs.timeoutTicker = nd.ticker
	var key *types.DefaultPrivValidator
	if me >= 0 {
		key = net.pvs[me]
	} else {
		k, _ := crypto.ToECDSA(crypto.Keccak256([]byte("c03-outsider")))
		key = types.NewDefaultPrivValidator(k)
	}
	cs.SetPrivValidator(&c03PV{DefaultPrivValidator: key, node: nd})
	nd.eb = types.NewEventBus()
	nd.eb.SetLogger(logger)
	if err := nd.eb.Start(); err != nil {
		panic(err)
	}
	cs.SetEventBus(nd.eb)
	cs.scheduleRound0(cs.GetRoundState()) // what OnStart does
	return nd
}

func (nd *c03Node) close() { nd.eb.Stop() }

// guarded runs f and converts a Go panic into a returned string (what receiveRoutine logs as
// CONSENSUS FAILURE before stopping).
func c03Guarded(f func()) (panicked string) {
	defer func() {
		if r := recover(); r != nil {
			panicked = fmt.Sprint(r)
			if panicked == "" {
				panicked = "panic"
			}
		}
	}()
	f()
	return ""
}

func (nd *c03Node) deliverMsg(m Message, peer p2p.ID) string {
	return c03Guarded(func() { nd.cs.handleMsg(msgInfo{Msg: m, PeerID: peer}) })
}
func (nd *c03Node) deliverTimeout(h uint64, r uint32, s cstypes.RoundStepType) string {
	return c03Guarded(func() { nd.cs.handleTimeout(timeoutInfo{Height: h, Round: r, Step: s}, nd.cs.RoundState) })
}

// ---------------------------------------------------------------------------------------------
// the script runner for one case

type c03Block struct {
	blk     *types.Block
	parts   *types.PartSet
	hashID  int
	partsID int
	validAt uint64 // height at which the block is a valid extension of the node's chain (0: never)
	kind    string
	content string // Keccak of the block's bytes: blocks with one header hash can differ in their body
	held    bool   // all parts were given to the node
	// height at which the node itself signed a non-nil vote for this very object (so its executor
	// has validated it at that height)
	votedAt uint64
}

// c03Bad: a part set whose bytes do not decode to a block that passes Block.ValidateBasic
// (BlockFromProto fails in addProposalBlockPart): the header of a block with a tampered body
type c03Bad struct {
	hash    common.Hash // the hash a proposal for it names (the header's)
	parts   *types.PartSet
	hashID  int
	partsID int
	kind    string
}

// c03SigInfo: who signed which canonical vote content (ideal-signature view of a real signature)
type c03SigInfo struct {
	id     int
	signer int // address id of the key
	typ    int
	h      uint64
	r      uint32
	bid    types.BlockID
	ts     int64
}

type c03RecvVote struct {
	typ    int
	height uint64
	round  uint32
	bid    string
	idx    int
	ok     bool
}

type c03Case struct {
	o      *c03Out
	r      *c03Rand
	net    *c03Net
	nd     *c03Node
	opNo   int
	hashes map[common.Hash]int
	partsH map[string]int
	blocks []*c03Block
	byHash map[common.Hash][]*c03Block // blocks with that header hash (twins share it)
	byContent map[string]*c03Block
	sigReg  map[string]*c03SigInfo
	bads    []*c03Bad
	tsMode  int // timestamps of the adversary's votes: 0 wall clock, 1 one hour ahead, 2 pinned to genesis, 3 genesis + height ns
	// oracle state
	recv        []c03RecvVote
	signedKey   map[string]string
	precommits  []c03Event // non-nil precommits signed, this height
	lastHRS     [3]uint64
	voteClock   int64
	campaign    []func()
	declaredH   uint64
	createdSeen int
	maxRound    uint32
	dead        bool
	propTbl     map[uint64][]int // height -> proposer index by round (1-based)
	byz         map[int]bool      // validators whose delivered, well-signed votes no correct validator could have sent
	firstVote   map[string]string // (type,h,r,idx) -> block id key, to spot equivocation
	seen        map[uint64]*types.Commit
}

func (c *c03Case) hid(h common.Hash) int {
	if h.IsZero() {
		return 0
	}
	if id, ok := c.hashes[h]; ok {
		return id
	}
	id := len(c.hashes) + 1
	c.hashes[h] = id
	return id
}
func (c *c03Case) pid(p types.PartSetHeader) int {
	if p.IsZero() {
		return 0
	}
	k := fmt.Sprintf("%d/%x", p.Total, p.Hash[:])
	if id, ok := c.partsH[k]; ok {
		return id
	}
	id := len(c.partsH) + 1
	c.partsH[k] = id
	return id
}
func (c *c03Case) bidS(b types.BlockID) string {
	if b.Hash.IsZero() && b.PartsHeader.IsZero() {
		return "-"
	}
	return fmt.Sprintf("%d:%d", c.hid(b.Hash), c.pid(b.PartsHeader))
}
func c03BidKey(b types.BlockID) string {
	return fmt.Sprintf("%x/%d/%x", b.Hash[:], b.PartsHeader.Total, b.PartsHeader.Hash[:])
}

// --- specification of "valid extension of the node's own chain" (independent re-statement of
// validateBlock: height, parent id, last-commit verification, app/validator hashes, time rule)

func c03SpecMedian(commit *types.Commit, vals *types.ValidatorSet) time.Time {
	type wt struct {
		t time.Time
		w int64
	}
	var l []wt
	total := int64(0)
	for _, s := range commit.Signatures {
		if s.Absent() {
			continue
		}
		if _, v := vals.GetByAddress(s.ValidatorAddress); v != nil {
			l = append(l, wt{s.Timestamp, v.VotingPower})
			total += v.VotingPower
		}
	}
	sort.SliceStable(l, func(i, j int) bool { return l[i].t.UnixNano() < l[j].t.UnixNano() })
	median := total / 2
	for _, e := range l {
		if median <= e.w {
			return e.t
		}
		median -= e.w
	}
	return time.Time{}
}

func c03SpecValid(st cstate.LatestBlockState, b *types.Block) bool {
	if b.ValidateBasic(trie.NewStackTrie(nil)) != nil {
		return false
	}
	h := b.Header()
	if h.Height != st.LastBlockHeight+1 {
		return false
	}
	if !h.LastBlockID.Equal(st.LastBlockID) || !h.AppHash.Equal(st.AppHash) ||
		!h.ValidatorsHash.Equal(st.Validators.Hash()) || !h.NextValidatorsHash.Equal(st.NextValidators.Hash()) {
		return false
	}
	lc := b.LastCommit()
	if h.Height == st.InitialHeight {
		if lc != nil && len(lc.Signatures) != 0 {
			return false
		}
		if !h.Time.Equal(st.LastBlockTime) {
			return false
		}
	} else {
		if lc == nil || lc.Height != h.Height-1 || !lc.BlockID.Equal(st.LastBlockID) || len(lc.Signatures) != st.LastValidators.Size() {
			return false
		}
		tally, total := new(big.Int), new(big.Int)
		for i, v := range st.LastValidators.Validators {
			total.Add(total, big.NewInt(v.VotingPower))
			s := lc.Signatures[i]
			if s.Absent() {
				continue
			}
			if s.ValidatorAddress != v.Address { // the median weighs the slot by this address
				return false
			}
			if !types.VerifySignature(v.Address, crypto.Keccak256(lc.VoteSignBytes(st.ChainID, uint32(i))), s.Signature) {
				return false
			}
			if s.ForBlock() {
				tally.Add(tally, big.NewInt(v.VotingPower))
			}
		}
		if new(big.Int).Mul(tally, big.NewInt(3)).Cmp(new(big.Int).Mul(total, big.NewInt(2))) <= 0 {
			return false
		}
		if !h.Time.After(st.LastBlockTime) || !h.Time.Equal(c03SpecMedian(lc, st.LastValidators)) {
			return false
		}
	}
	if !st.Validators.HasAddress(h.ProposerAddress) {
		return false
	}
	return len(b.Evidence().Evidence) == 0
}

// --- block generation

func (c *c03Case) lastCommitFor(height uint64) *types.Commit {
	if height == 1 {
		return types.NewCommit(0, 0, types.BlockID{}, nil)
	}
	cs := c.nd.cs
	// the node's LastCommit (with late precommits) when it is for the previous height, else the
	// commit the node saved with the block (after a commit in round 0 the node's LastCommit is stale)
	if cs.LastCommit != nil && cs.LastCommit.GetHeight() == height-1 && cs.LastCommit.HasTwoThirdsMajority() && c.r.Chance(1, 2) {
		return cs.LastCommit.MakeCommit()
	}
	if sc, ok := c.seen[height-1]; ok {
		return sc
	}
	return types.NewCommit(0, 0, types.BlockID{}, nil)
}

func (c *c03Case) newBlock(kind string) *c03Block {
	cs := c.nd.cs
	st := cs.state
	height := cs.Height
	commit := c.lastCommitFor(height)
	ts := st.LastBlockTime
	if height > 1 {
		ts = cstate.MedianTime(commit, st.LastValidators)
	}
	h := &types.Header{Height: height, Time: ts, LastBlockID: st.LastBlockID,
		ProposerAddress: c.net.vals.Validators[c.r.Intn(c.net.n)].Address,
		ValidatorsHash:  st.Validators.Hash(), NextValidatorsHash: st.NextValidators.Hash(), AppHash: st.AppHash,
		GasLimit: uint64(1000 + c.r.Intn(1000000))}
	switch kind {
	case "valid":
	case "height+":
		h.Height = height + 1
	case "height-":
		if height > 1 {
			h.Height = height - 1
		} else {
			h.Height = height + 2
		}
	case "parent":
		h.LastBlockID = types.BlockID{Hash: common.BytesToHash([]byte{1, byte(c.r.Intn(200))}), PartsHeader: types.PartSetHeader{Total: 1, Hash: common.BytesToHash([]byte{2})}}
	case "apphash":
		h.AppHash = common.BytesToHash([]byte{3, byte(c.r.Intn(200))})
	case "valhash":
		h.ValidatorsHash = common.BytesToHash([]byte{4, byte(c.r.Intn(200))})
	case "nextvalhash":
		h.NextValidatorsHash = common.BytesToHash([]byte{5, byte(c.r.Intn(200))})
	case "time":
		h.Time = ts.Add(time.Duration(1+c.r.Intn(5)) * time.Second)
	case "time+1":
		h.Time = ts.Add(time.Nanosecond)
	case "time-1":
		h.Time = ts.Add(-time.Nanosecond)
	case "proposer":
		h.ProposerAddress = common.BytesToAddress([]byte{6, byte(c.r.Intn(200))})
	case "commit":
		if height == 1 {
			// a non-empty commit in the first block
			commit = types.NewCommit(0, 1, types.BlockID{Hash: common.BytesToHash([]byte{7}), PartsHeader: types.PartSetHeader{Total: 1, Hash: common.BytesToHash([]byte{8})}},
				[]types.CommitSig{types.NewCommitSigForBlock([]byte{1, 2, 3}, c.net.vals.Validators[0].Address, c03Genesis)})
		} else {
			// drop signatures until at most 2/3 remain
			cp := types.NewCommit(commit.Height, commit.Round, commit.BlockID, append([]types.CommitSig{}, commit.Signatures...))
			left := c.net.total
			for _, i := range c.r.Perm(len(cp.Signatures)) {
				if 3*left <= 2*c.net.total {
					break
				}
				if !cp.Signatures[i].Absent() {
					cp.Signatures[i] = types.NewCommitSigAbsent()
				}
				left -= c.net.powers[i]
			}
			commit = cp
			h.Time = cstate.MedianTime(commit, st.LastValidators)
		}
	case "commit-addr", "commit-sig", "commit-size":
		if height == 1 || len(commit.Signatures) < 2 {
			kind = "valid"
			break
		}
		cp := types.NewCommit(commit.Height, commit.Round, commit.BlockID, append([]types.CommitSig{}, commit.Signatures...))
		var present []int
		for i, s := range cp.Signatures {
			if !s.Absent() {
				present = append(present, i)
			}
		}
		if len(present) < 2 {
			kind = "valid"
			break
		}
		i := present[c.r.Intn(len(present))]
		j := present[c.r.Intn(len(present))]
		for j == i {
			j = present[c.r.Intn(len(present))]
		}
		switch kind {
		case "commit-addr": // slot i names validator j (its signature is still validator i's)
			cp.Signatures[i].ValidatorAddress = cp.Signatures[j].ValidatorAddress
		case "commit-sig": // slot i carries validator j's signature
			cp.Signatures[i].Signature = cp.Signatures[j].Signature
		case "commit-size":
			cp.Signatures = append(cp.Signatures, types.NewCommitSigAbsent())
		}
		commit = cp
		h.Time = cstate.MedianTime(commit, st.LastValidators)
	}
	if height > 1 && kind == "valid" && !ts.After(st.LastBlockTime) {
		// the votes of the last commit carry times at or before the last block time: no block
		// with the prescribed median time is after it
		kind = "time-stale"
	}
	blk := types.NewBlock(h, nil, commit, nil, trie.NewStackTrie(nil))
	return c.register(blk, kind, []uint32{types.BlockPartSizeBytes, 300, 150}[c.r.Pick(3, 1, 1)], st)
}

// newTwin builds a block with the header (hence the hash) of orig and another last commit: at the
// first height the commit's height/round/id are free (the twin is as valid as orig); later, a commit
// with another round, height or block id over the same signatures (the header only commits to the
// signatures) does not verify, so the twin is not a valid block although its hash is orig's.
func (c *c03Case) newTwin(orig *c03Block) *c03Block {
	st := c.nd.cs.state
	lc := orig.blk.LastCommit()
	var commit *types.Commit
	kind := "twin"
	if lc == nil || len(lc.Signatures) == 0 {
		commit = types.NewCommit(0, uint32(1+c.r.Intn(3)), types.BlockID{}, nil)
		kind = "twin-first"
	} else {
		sigs := append([]types.CommitSig{}, lc.Signatures...)
		switch c.r.Intn(3) {
		case 0:
			commit = types.NewCommit(lc.Height, lc.Round+1, lc.BlockID, sigs)
		case 1:
			commit = types.NewCommit(lc.Height+1, lc.Round, lc.BlockID, sigs)
		default:
			bid := lc.BlockID
			bid.PartsHeader.Total++
			commit = types.NewCommit(lc.Height, lc.Round, bid, sigs)
		}
	}
	blk := types.NewBlock(orig.blk.Header(), nil, commit, nil, trie.NewStackTrie(nil))
	if blk.Hash() != orig.blk.Hash() {
		c.o.Fail(c.opNo, "harness-twin-hash", "the twin does not have the hash of the original")
	}
	if kind == "twin-first" && orig.validAt == 0 {
		kind = "twin"
	}
	return c.register(blk, kind, []uint32{types.BlockPartSizeBytes, 300}[c.r.Pick(2, 1)], st)
}

// otherEncoding registers the SAME block cut into parts of another size: another parts header for
// the same bytes (the part size is not fixed by any check of the code).
func (c *c03Case) otherEncoding(orig *c03Block) *c03Block {
	size := uint32(300)
	if orig.parts.Total() > 1 && orig.parts.Total() == orig.blk.MakePartSet(300).Total() {
		size = 150
	}
	ps := orig.blk.MakePartSet(size)
	if ps.HasHeader(orig.parts.Header()) {
		ps = orig.blk.MakePartSet(types.BlockPartSizeBytes)
	}
	for _, b := range c.byHash[orig.blk.Hash()] {
		if b.parts.HasHeader(ps.Header()) {
			return b
		}
	}
	b := &c03Block{blk: orig.blk, parts: ps, kind: "other-part-size", content: orig.content, validAt: orig.validAt}
	b.hashID = orig.hashID
	b.partsID = c.pid(ps.Header())
	c.blocks = append(c.blocks, b)
	c.byHash[orig.blk.Hash()] = append(c.byHash[orig.blk.Hash()], b)
	c.o.InOnly(fmt.Sprintf("BLOCK %d %d %d", b.hashID, b.partsID, b.validAt))
	c.o.Count("block:other-part-size")
	return b
}

// newBad builds the bytes of a block of the current height that BlockFromProto rejects: the header
// of a valid block with (a) one signature of the last commit dropped or, at the first height, a
// signature added (LastCommitHash mismatch), or (b) another evidence hash in the header (the header
// hash changes, Header.EvidenceHash no longer matches the empty evidence list).
func (c *c03Case) newBad() *c03Bad {
	var l []*c03Block
	for _, b := range c.blocks {
		if b.validAt == c.nd.cs.Height {
			l = append(l, b)
		}
	}
	var orig *c03Block
	if len(l) > 0 {
		orig = l[c.r.Intn(len(l))]
	} else {
		orig = c.newBlock("valid")
	}
	pb, err := orig.blk.ToProto()
	if err != nil {
		panic(err)
	}
	kind := "bad-lastcommit"
	hash := orig.blk.Hash()
	if c.r.Chance(1, 2) {
		kind = "bad-evidencehash"
		pb.Header.EvidenceHash = common.BytesToHash([]byte{12, byte(c.r.Intn(200))}).Bytes()
		if h, err := types.HeaderFromProto(&pb.Header); err == nil {
			hash = h.Hash()
		}
	} else if pb.LastCommit != nil && len(pb.LastCommit.Signatures) > 1 {
		pb.LastCommit.Signatures = pb.LastCommit.Signatures[1:]
	} else if pb.LastCommit != nil {
		cs := types.NewCommitSigForBlock([]byte{1, 2, 3}, c.net.vals.Validators[0].Address, c03Genesis)
		pb.LastCommit.Signatures = append(pb.LastCommit.Signatures, *cs.ToProto())
	}
	bz, err := pb.Marshal()
	if err != nil {
		panic(err)
	}
	if _, err := types.BlockFromProto(pb, trie.NewStackTrie(nil)); err == nil {
		c.o.Fail(c.opNo, "harness-bad-block-decodes", kind)
	}
	ps := types.NewPartSetFromData(bz, []uint32{types.BlockPartSizeBytes, 300}[c.r.Pick(2, 1)])
	for _, x := range c.bads {
		if x.parts.HasHeader(ps.Header()) {
			return x
		}
	}
	b := &c03Bad{hash: hash, parts: ps, hashID: c.hid(hash), partsID: c.pid(ps.Header()), kind: kind}
	c.bads = append(c.bads, b)
	c.o.Count("block:" + kind)
	return b
}

func (c *c03Case) opBadBlock(h uint64, r uint32, b *c03Bad, peer int) {
	in := fmt.Sprintf("KB %d %d %d", h, r, b.partsID)
	c.run(in, func() string {
		pid := p2p.ID(fmt.Sprintf("peer%d", peer))
		for i := 0; i < int(b.parts.Total()); i++ {
			if p := c.nd.deliverMsg(&BlockPartMessage{Height: h, Round: r, Part: b.parts.GetPart(i)}, pid); p != "" {
				return p
			}
		}
		return ""
	})
}

func c03ContentKey(blk *types.Block) string {
	pb, err := blk.ToProto()
	if err != nil {
		panic(err)
	}
	bz, err := pb.Marshal()
	if err != nil {
		panic(err)
	}
	return string(crypto.Keccak256(bz))
}

var c03ValidKinds = map[string]bool{"valid": true, "twin-first": true}

// register interns a block, declares it to the model and checks the validity notions against each other.
func (c *c03Case) register(blk *types.Block, kind string, partSize uint32, st cstate.LatestBlockState) *c03Block {
	ck := c03ContentKey(blk)
	if b, ok := c.byContent[ck]; ok {
		return b
	}
	ps := blk.MakePartSet(partSize)
	b := &c03Block{blk: blk, parts: ps, kind: kind, content: ck}
	b.hashID = c.hid(blk.Hash())
	b.partsID = c.pid(ps.Header())
	spec := c03SpecValid(st, blk)
	probe := cstate.NewBlockExecutor(c.nd.store, log.New(), c03Ev{}, c.nd.bo) // fresh cache
	verr := probe.ValidateBlock(st, blk)
	impl := verr == nil
	if spec {
		b.validAt = st.LastBlockHeight + 1
	}
	if kind == "own" && !spec {
		c.o.Count("own-proposal-block-invalid") // createProposalBlock from a stale LastCommit (after a round-0 commit), or vote times not after the last block time
	}
	if kind != "own" && kind != "stale" && spec != c03ValidKinds[kind] {
		c.o.Fail(c.opNo, "harness-block-kind", fmt.Sprintf("kind=%s spec=%v", kind, spec))
	}
	if spec != impl {
		c.o.Fail(c.opNo, "validateBlock-vs-spec", fmt.Sprintf("kind=%s height=%d spec=%v validateBlock=%v", kind, st.LastBlockHeight+1, spec, impl))
	}
	c.blocks = append(c.blocks, b)
	c.byHash[blk.Hash()] = append(c.byHash[blk.Hash()], b)
	c.byContent[ck] = b
	c.o.InOnly(fmt.Sprintf("BLOCK %d %d %d", b.hashID, b.partsID, b.validAt))
	// the Gallina transcription of validateBlock (C03/Validate.v) on the same block and chain state
	cl := c03VerrClass(verr, blk)
	c.o.Op(c.vbLine(st, blk), "vb:"+cl)
	c.o.Count("validateBlock:" + cl)
	c.o.Count("block:" + kind)
	return b
}

// c03VerrClass maps validateBlock's error to the small enum the model prints.
func c03VerrClass(err error, blk *types.Block) string {
	if err == nil {
		return "ok"
	}
	if _, ok := err.(types.ErrNotEnoughVotingPowerSigned); ok {
		return "commit-power"
	}
	if _, ok := err.(types.ErrInvalidCommitHeight); ok {
		return "commit-height"
	}
	if _, ok := err.(types.ErrInvalidCommitSignatures); ok {
		return "commit-size"
	}
	if _, ok := err.(*types.ErrEvidenceOverflow); ok {
		return "evidence-count"
	}
	if err == cstate.ErrLastCommitSig {
		return "firstcommit"
	}
	m := err.Error()
	switch {
	case m == "nil LastCommit":
		if blk.Height() > 1 {
			return "basic"
		}
		return "nilcommit"
	case strings.HasPrefix(m, "wrong Block.Header.Height"):
		return "height"
	case strings.HasPrefix(m, "wrong Block.Header.LastBlockID."):
		return "lastid"
	case strings.HasPrefix(m, "wrong Block.Header.AppHash"):
		return "app"
	case strings.HasPrefix(m, "wrong Block.Header.ValidatorsHash"):
		return "vals"
	case strings.HasPrefix(m, "wrong Block.Header.NextValidatorHash"):
		return "nextvals"
	case strings.HasPrefix(m, "Invalid commit -- wrong block id"):
		return "commit-blockid"
	case strings.HasPrefix(m, "wrong validator address"):
		return "commit-addr"
	case strings.HasPrefix(m, "wrong signature"):
		return "commit-sig"
	case strings.Contains(m, "not greater than last block time"):
		return "time-not-after"
	case strings.HasPrefix(m, "invalid block time"):
		return "time-not-median"
	case strings.Contains(m, "is not equal to genesis time"):
		return "time-genesis"
	case strings.Contains(m, "lower than initial height"):
		return "below-initial"
	case strings.HasPrefix(m, "block proposer is not a validator"):
		return "proposer"
	}
	return "basic" // Block.ValidateBasic / Commit.ValidateBasic
}

func c03Nano(t time.Time) int64 {
	if t.IsZero() {
		return 0
	}
	return t.UnixNano()
}

// addrID: validator index + 1 for the validators of the run, 0 for the zero address, 99 otherwise
func (c *c03Case) addrID(a common.Address) int {
	if a == (common.Address{}) {
		return 0
	}
	if i, v := c.net.vals.GetByAddress(a); v != nil {
		return int(i) + 1
	}
	return 99
}

func (c *c03Case) bid3(b types.BlockID) string {
	return fmt.Sprintf("%d %d %d", c.hid(b.Hash), b.PartsHeader.Total, c.hid(b.PartsHeader.Hash))
}

// vbLine projects (chain state, block) onto the data of C03/Validate.v.
func (c *c03Case) vbLine(st cstate.LatestBlockState, blk *types.Block) string {
	maxEv, _ := types.MaxEvidencePerBlock(int64(st.ConsensusParams.Block.MaxBytes))
	h := blk.Header()
	l := []string{"VB", fmt.Sprint(st.InitialHeight), fmt.Sprint(st.LastBlockHeight), c.bid3(st.LastBlockID), fmt.Sprint(c03Nano(st.LastBlockTime)),
		fmt.Sprint(c.hid(st.AppHash)), fmt.Sprint(c.hid(st.Validators.Hash())), fmt.Sprint(c.hid(st.NextValidators.Hash())), fmt.Sprint(maxEv), "|",
		fmt.Sprint(h.Height), fmt.Sprint(c03Nano(h.Time)), c.bid3(h.LastBlockID), fmt.Sprint(c.hid(h.AppHash)), fmt.Sprint(c.hid(h.ValidatorsHash)),
		fmt.Sprint(c.hid(h.NextValidatorsHash)), fmt.Sprint(c.addrID(h.ProposerAddress))}
	lc := blk.LastCommit()
	lchOK := (lc == nil && h.LastCommitHash.IsZero()) || (lc != nil && h.LastCommitHash.Equal(lc.Hash()))
	l = append(l, "1", fmt.Sprint(c03b(lchOK)), fmt.Sprint(len(blk.Evidence().Evidence)), "1", "|")
	if lc == nil {
		l = append(l, "N")
		return strings.Join(l, " ")
	}
	l = append(l, "C", fmt.Sprint(lc.Height), fmt.Sprint(lc.Round), c.bid3(lc.BlockID), fmt.Sprint(len(lc.Signatures)))
	for _, s := range lc.Signatures {
		l = append(l, fmt.Sprint(int(s.BlockIDFlag)), fmt.Sprint(c.addrID(s.ValidatorAddress)), fmt.Sprint(c03Nano(s.Timestamp)))
		if len(s.Signature) == 0 {
			l = append(l, "0 1 0 0 0 0 0 0 0 0 0")
			continue
		}
		si := c.sigReg[string(s.Signature)]
		if si == nil { // bytes nobody signed
			si = &c03SigInfo{id: len(c.sigReg) + 1000}
			l = append(l, fmt.Sprintf("%d 0 0 0 0 0 0 0 0 0 0", si.id))
			continue
		}
		l = append(l, fmt.Sprintf("%d 0 %d 1 %d %d %d %s %d", si.id, si.signer, si.typ, si.h, si.r, c.bid3(si.bid), si.ts))
	}
	return strings.Join(l, " ")
}

// regSig records the ideal-signature view of a signature made with validator key `signer`.
func (c *c03Case) regSig(sig []byte, signer int, v *kproto.Vote) {
	if _, ok := c.sigReg[string(sig)]; ok {
		return
	}
	bid, err := types.BlockIDFromProto(&v.BlockID)
	if err != nil {
		bid = &types.BlockID{}
	}
	c.sigReg[string(sig)] = &c03SigInfo{id: len(c.sigReg) + 1, signer: signer + 1, typ: int(v.Type), h: v.Height, r: v.Round, bid: *bid, ts: c03Nano(v.Timestamp)}
}

func (c *c03Case) blocksAt(height uint64) []*c03Block {
	var l []*c03Block
	for _, b := range c.blocks {
		if b.blk.Height() == height || b.validAt == height {
			l = append(l, b)
		}
	}
	return l
}

var c03InvalidKinds = []string{"height+", "height-", "parent", "apphash", "valhash", "nextvalhash", "time", "proposer", "commit",
	"time+1", "time-1", "commit-addr", "commit-sig", "commit-size"}

// someBlock returns a block for the current height: an existing one or a new one.
func (c *c03Case) someBlock() *c03Block {
	if h := c.nd.cs.Height; h > 1 && c.r.Chance(1, 14) {
		// a block of the previous height (valid there, validated by the node there) offered again
		if l := c.staleBlocks(); len(l) > 0 {
			c.o.Count("family:stale-block-offered")
			return l[c.r.Intn(len(l))]
		}
	}
	if c.r.Chance(1, 16) {
		// a twin (same header hash, other last commit) of a block that is valid at this height
		var l []*c03Block
		for _, b := range c.blocks {
			if b.validAt == c.nd.cs.Height && b.kind != "twin-first" && b.kind != "other-part-size" {
				l = append(l, b)
			}
		}
		if len(l) > 0 && (c.nd.cs.Height > 1 || c.r.Chance(1, 3)) {
			c.o.Count("family:twin-offered")
			return c.newTwin(l[c.r.Intn(len(l))])
		}
	}
	l := c.blocksAt(c.nd.cs.Height)
	if len(l) > 0 && c.r.Chance(3, 4) {
		return l[c.r.Intn(len(l))]
	}
	if len(l) >= 5 {
		return l[c.r.Intn(len(l))]
	}
	if c.r.Chance(2, 3) {
		return c.newBlock("valid")
	}
	return c.newBlock(c03InvalidKinds[c.r.Intn(len(c03InvalidKinds))])
}

// someBid: the id of a block, sometimes with the parts header of another block, sometimes unknown.
func (c *c03Case) someBid(b *c03Block) types.BlockID {
	id := types.BlockID{Hash: b.blk.Hash(), PartsHeader: b.parts.Header()}
	switch c.r.Pick(30, 2, 1) {
	case 1:
		o := c.someBlock()
		id.PartsHeader = o.parts.Header()
		if o != b {
			c.o.Count("bid:mismatched-parts")
		}
	case 2:
		id = types.BlockID{Hash: common.BytesToHash([]byte{9, byte(c.r.Intn(3))}), PartsHeader: types.PartSetHeader{Total: 1, Hash: common.BytesToHash([]byte{10, byte(c.r.Intn(3))})}}
		c.o.Count("bid:unknown")
	}
	return id
}

// --- observation

func (c *c03Case) blkS(b *types.Block, ps *types.PartSet) string {
	if b == nil {
		return "-"
	}
	return fmt.Sprintf("%d:%d", c.hid(b.Hash()), c.pid(ps.Header()))
}

func (c *c03Case) outsS(evs []c03Event) []string {
	var l []string
	for _, e := range evs {
		switch e.kind {
		case "sv":
			l = append(l, fmt.Sprintf("sv:%d:%d:%d:%s", e.typ, e.height, e.round, c.bidS(e.bid)))
		case "sp":
			l = append(l, fmt.Sprintf("sp:%d:%d:%d:%s", e.height, e.round, e.pol, c.bidS(e.bid)))
		case "sc":
			l = append(l, fmt.Sprintf("sc:%d:%d:%d", e.height, e.round, e.step))
		case "cm":
			l = append(l, fmt.Sprintf("cm:%d:%d:%d", e.height, e.round, c.hid(e.block.Hash())))
		}
	}
	return l
}

func (c *c03Case) observe(evs []c03Event, panicked string) string {
	outs := c.outsS(evs)
	if panicked != "" {
		outs = append(outs, "PANIC")
		return "X " + strings.Join(outs, " ")
	}
	cs := c.nd.cs
	p := "0"
	if cs.Proposal != nil {
		p = "1"
	}
	pb := "-"
	if cs.ProposalBlock != nil {
		pb = fmt.Sprint(c.hid(cs.ProposalBlock.Hash()))
	}
	pp := "-"
	if cs.ProposalBlockParts != nil {
		k := "0"
		if cs.ProposalBlockParts.IsComplete() {
			k = "1"
		}
		pp = fmt.Sprintf("%d:%s", c.pid(cs.ProposalBlockParts.Header()), k)
	}
	tt := "0"
	if cs.TriggeredTimeoutPrecommit {
		tt = "1"
	}
	return fmt.Sprintf("S %d %d %d L %d %s V %d %s P %s B %s PP %s CR %d TT %s O %s",
		cs.Height, cs.Round, int(cs.Step), cs.LockedRound, c.blkS(cs.LockedBlock, cs.LockedBlockParts),
		cs.ValidRound, c.blkS(cs.ValidBlock, cs.ValidBlockParts), p, pb, pp, cs.CommitRound, tt, strings.Join(outs, " "))
}

// --- direct oracles (independent of the model)

func (c *c03Case) powerFor(typ int, h uint64, r uint32, bidKey string) int64 {
	seen := map[int]bool{}
	sum := int64(0)
	for _, v := range c.recv {
		if v.ok && v.typ == typ && v.height == h && v.round == r && v.bid == bidKey && !seen[v.idx] {
			seen[v.idx] = true
			sum += c.net.powers[v.idx]
		}
	}
	return sum
}
func (c *c03Case) quorum(p int64) bool { return 3*p > 2*c.net.total }

// polkaOther: some round in (lo, hi] has +2/3 prevotes for a value whose hash differs from h
func (c *c03Case) polkaOther(height uint64, lo, hi uint32, hash common.Hash) bool {
	keys := map[string]bool{}
	for _, v := range c.recv {
		if v.ok && v.typ == int(kproto.PrevoteType) && v.height == height && v.round > lo && v.round <= hi {
			keys[fmt.Sprintf("%d|%s", v.round, v.bid)] = true
		}
	}
	for k := range keys {
		var r uint32
		var bid string
		i := strings.Index(k, "|")
		fmt.Sscan(k[:i], &r)
		bid = k[i+1:]
		if strings.HasPrefix(bid, fmt.Sprintf("%x/", hash[:])) {
			continue
		}
		if c.quorum(c.powerFor(int(kproto.PrevoteType), height, r, bid)) {
			return true
		}
	}
	return false
}

// heldValid: the node was given a block with that hash / one that is valid at that height
func (c *c03Case) heldValid(hash common.Hash, height uint64) (held, valid bool) {
	for _, b := range c.byHash[hash] {
		if b.held {
			held = true
			if b.validAt == height && height != 0 {
				valid = true
			}
		}
	}
	return
}

// objectCheck: the very block object the node held for the hash it voted for (blocks with one
// header hash may differ in their last commit) must be a valid block of that height, and the
// vote's time must be after that block's time (BFT time: the next block's median time has to be
// after this block's).
func (c *c03Case) objectCheck(e c03Event) {
	if e.obj == nil {
		c.o.Fail(c.opNo, "vote-for-block-not-in-hand", fmt.Sprintf("type=%d h=%d r=%d bid=%s: neither LockedBlock nor ProposalBlock hashes to it at signing time", e.typ, e.height, e.round, c.bidS(e.bid)))
		return
	}
	b := c.byContent[c03ContentKey(e.obj)]
	if b == nil || b.validAt != e.height {
		k := "?"
		if b != nil {
			k = b.kind
		}
		c.o.Fail(c.opNo, "vote-for-invalid-block-object", fmt.Sprintf("type=%d h=%d r=%d bid=%s kind=%s: the block in hand is not a valid block of this height (same hash as a valid one: %v)",
			e.typ, e.height, e.round, c.bidS(e.bid), k, len(c.byHash[e.bid.Hash]) > 1))
	}
	if b != nil {
		b.votedAt = e.height
	}
	if !e.ts.After(e.obj.Time()) {
		c.o.Fail(c.opNo, "vote-time-not-after-block-time", fmt.Sprintf("type=%d h=%d r=%d vote=%d block=%d", e.typ, e.height, e.round, e.ts.UnixNano(), e.obj.Time().UnixNano()))
	} else if e.obj.Time().After(time.Now().Add(10 * time.Minute)) {
		c.o.Mark(fmt.Sprintf("vote-time-pushed-by-block-time type=%d", e.typ))
	}
}

func (c *c03Case) oracles(evs []c03Event, panicked string) {
	cs := c.nd.cs
	for _, e := range evs {
		switch e.kind {
		case "sv":
			key := fmt.Sprintf("v/%d/%d/%d", e.typ, e.height, e.round)
			if prev, ok := c.signedKey[key]; ok {
				c.o.Fail(c.opNo, "double-sign-vote", fmt.Sprintf("type=%d h=%d r=%d first=%s second=%s", e.typ, e.height, e.round, prev, c.bidS(e.bid)))
			}
			c.signedKey[key] = c.bidS(e.bid)
			if e.bid.IsZero() {
				continue
			}
			held, valid := c.heldValid(e.bid.Hash, e.height)
			c.objectCheck(e)
			if e.typ == int(kproto.PrecommitType) {
				if !c.quorum(c.powerFor(int(kproto.PrevoteType), e.height, e.round, c03BidKey(e.bid))) {
					c.o.Fail(c.opNo, "precommit-without-polka", fmt.Sprintf("h=%d r=%d bid=%s", e.height, e.round, c.bidS(e.bid)))
				}
				if !held || !valid {
					c.o.Fail(c.opNo, "precommit-block-not-held-or-invalid", fmt.Sprintf("h=%d r=%d bid=%s held=%v valid=%v", e.height, e.round, c.bidS(e.bid), held, valid))
				}
				c.precommits = append(c.precommits, e)
				c.o.Mark(fmt.Sprintf("precommit-block r=%d", e.round))
			} else {
				if !held || !valid {
					c.o.Fail(c.opNo, "prevote-block-not-held-or-invalid", fmt.Sprintf("h=%d r=%d bid=%s held=%v valid=%v", e.height, e.round, c.bidS(e.bid), held, valid))
				}
				for _, pc := range c.precommits {
					if pc.height == e.height && pc.round < e.round && pc.bid.Hash != e.bid.Hash {
						if !c.polkaOther(e.height, pc.round, e.round, pc.bid.Hash) {
							c.o.Fail(c.opNo, "lock-rule", fmt.Sprintf("h=%d precommitted %s at r=%d, prevoted %s at r=%d without a +2/3 prevote set for another value in between",
								e.height, c.bidS(pc.bid), pc.round, c.bidS(e.bid), e.round))
						} else {
							c.o.Mark(fmt.Sprintf("unlocked-then-prevoted-other %d->%d", pc.round, e.round))
						}
					}
				}
			}
		case "sp":
			key := fmt.Sprintf("p/%d/%d", e.height, e.round)
			if prev, ok := c.signedKey[key]; ok {
				c.o.Fail(c.opNo, "double-sign-proposal", fmt.Sprintf("h=%d r=%d first=%s second=%s", e.height, e.round, prev, c.bidS(e.bid)))
			}
			c.signedKey[key] = c.bidS(e.bid)
			if c.nd.me < 0 || c.proposerAt(e.height, e.round) != c.nd.me {
				c.o.Fail(c.opNo, "proposal-not-proposer", fmt.Sprintf("h=%d r=%d", e.height, e.round))
			}
		case "cm":
			if !c.quorum(c.powerFor(int(kproto.PrecommitType), e.height, e.round, c03BidKey(e.bid))) {
				c.o.Fail(c.opNo, "commit-without-quorum", fmt.Sprintf("h=%d r=%d bid=%s", e.height, e.round, c.bidS(e.bid)))
			}
			b := c.byContent[c03ContentKey(e.block)]
			if b == nil || b.validAt != e.height || !e.block.HashesTo(e.bid.Hash) {
				c.o.Fail(c.opNo, "commit-invalid-block", fmt.Sprintf("h=%d r=%d bid=%s", e.height, e.round, c.bidS(e.bid)))
			}
			if b != nil {
				// the saved part set must be one the node was given in full, of a valid body with this hash
				// (of this very body, but for the known same-hash-other-body confusion: the node may lock
				// body X under the part set of body X' and later save X with the parts of X')
				ok := false
				for _, x := range c.byHash[e.block.Hash()] {
					if x.held && x.validAt == e.height && x.parts.HasHeader(e.parts) {
						ok = true
						if x.content != b.content {
							c.o.Count("commit:block-saved-with-the-parts-of-another-body")
						}
					}
				}
				if !ok {
					c.o.Fail(c.opNo, "commit-block-not-held", fmt.Sprintf("h=%d r=%d bid=%s", e.height, e.round, c.bidS(e.bid)))
				}
			}
			if b != nil {
				b.votedAt = e.height
			}
			c.o.Mark(fmt.Sprintf("commit r=%d", e.round))
			c.seen[e.height] = e.seenCommit
		}
	}
	if panicked == "" {
		cur := [3]uint64{cs.Height, uint64(cs.Round), uint64(cs.Step)}
		if cur[0] < c.lastHRS[0] || (cur[0] == c.lastHRS[0] && (cur[1] < c.lastHRS[1] || (cur[1] == c.lastHRS[1] && cur[2] < c.lastHRS[2]))) {
			c.o.Fail(c.opNo, "round-not-monotone", fmt.Sprintf("%v -> %v", c.lastHRS, cur))
		}
		c.lastHRS = cur
	}
}

// proposerAt: proposer index at (height, round), from the validator set alone (C12 code):
// Validators(h) = genesis set advanced h-1 times (no validator updates in these runs), then round-1 times.
func (c *c03Case) proposerAt(height uint64, round uint32) int {
	if l, ok := c.propTbl[height]; ok && int(round) < len(l) {
		return l[round]
	}
	return -1
}

// c03ProposerIdx: proposer index at (height, round) from the validator set alone (as buildProposers)
func c03ProposerIdx(net *c03Net, h uint64, r uint32) int {
	vs := net.vals.Copy()
	if h > 1 {
		vs.IncrementProposerPriority(int64(h - 1))
	}
	if r > 1 {
		vs.IncrementProposerPriority(int64(r - 1))
	}
	idx, _ := net.vals.GetByAddress(vs.GetProposer().Address)
	return int(idx)
}

func (c *c03Case) buildProposers() {
	c.propTbl = map[uint64][]int{}
	for h := uint64(1); h <= c03MaxHeights+1; h++ {
		vs := c.net.vals.Copy()
		if h > 1 {
			vs.IncrementProposerPriority(int64(h - 1))
		}
		l := []int{-1}
		s := []string{"PROPOSERS", fmt.Sprint(h)}
		for r := uint32(1); r <= c03MaxRounds; r++ {
			w := vs.Copy()
			if r > 1 {
				w.IncrementProposerPriority(int64(r - 1))
			}
			idx, _ := c.net.vals.GetByAddress(w.GetProposer().Address)
			l = append(l, int(idx))
			s = append(s, fmt.Sprint(idx))
		}
		c.propTbl[h] = l
		c.o.InOnly(strings.Join(s, " "))
	}
}

const c03MaxRounds = 24
const c03MaxHeights = 5

func (c *c03Case) declareHeight() {
	cs := c.nd.cs
	if c.declaredH == cs.Height {
		return
	}
	c.declaredH = cs.Height
	c.precommits = nil
	// the table handed to the model must be the node's own view at the start of the height
	if idx, _ := cs.Validators.GetByAddress(cs.Validators.GetProposer().Address); cs.Step == cstypes.RoundStepNewHeight && int(idx) != c.proposerAt(cs.Height, 1) {
		c.o.Fail(c.opNo, "harness-proposer-table", fmt.Sprintf("h=%d node=%d table=%d", cs.Height, idx, c.proposerAt(cs.Height, 1)))
	}
}

// --- executing one op on the implementation

func (c *c03Case) run(input string, f func() string) {
	if c.dead {
		return
	}
	c.declareHeight()
	nd := c.nd
	nd.events = nil
	panicked := f()
	// blocks built by the node itself during this op
	for ; c.createdSeen < len(nd.bo.created); c.createdSeen++ {
		blk := nd.bo.created[c.createdSeen]
		// validity of an own block refers to the height it was built for
		b := c.register(blk, "own", types.BlockPartSizeBytes, nd.bo.createS[c.createdSeen])
		b.held = true
		c.o.InOnly(fmt.Sprintf("CREATE %d %d %d %d", blk.Height(), nd.bo.createR[c.createdSeen], b.hashID, b.partsID))
	}
	c.oracles(nd.events, panicked)
	c.o.Op(input, c.observe(nd.events, panicked))
	c.opNo++
	if panicked != "" {
		c.dead = true
		cl := "other"
		switch {
		case strings.Contains(panicked, "prevoted for an invalid block"):
			cl = "polka-for-invalid-block"
		case strings.Contains(panicked, "committed an invalid block"):
			cl = "commit-of-invalid-block"
		case strings.Contains(panicked, "nil VoteSet"):
			cl = "nil-LastCommit"
		case strings.Contains(panicked, "complete block part sets"):
			cl = "save-incomplete-parts"
		case strings.Contains(panicked, "ProposalBlockParts header"):
			cl = "commit-parts-header"
		case strings.Contains(panicked, "LastCommit cannot be empty"):
			cl = "round0-commit-lastcommit-empty"
		case strings.Contains(panicked, "nil pointer"):
			cl = "nil-part"
		}
		c.o.Count("panic:" + cl)
		c.o.Mark("panic:" + cl)
		if bp := c.byzPower(); 3*bp <= c.net.total {
			if why := c.sameHashOtherBody(cl); why != "" {
				// KNOWN FINDING (known_findings.json): the code matches the polka / commit block with the
				// block in hand by hash alone, votes carry hash + parts header
				c.o.Fail(c.opNo-1, "halt-same-hash-other-body", fmt.Sprintf("%s panic=%s evident-byzantine-power=%d total=%d", why, cl, bp, c.net.total))
				c.o.Mark("halt-same-hash-other-body:" + cl)
			} else {
				c.o.Fail(c.opNo-1, "panic-with-at-most-one-third-byzantine", fmt.Sprintf("class=%s evident-byzantine-power=%d total=%d", cl, bp, c.net.total))
			}
		}
		if cl == "other" {
			c.o.Count("panic-text:" + strings.Split(panicked, "\n")[0])
		}
	}
	if c.nd.cs.Round > c.maxRound {
		c.maxRound = c.nd.cs.Round
	}
}

// --- op constructors

func (c *c03Case) signVoteAs(idx int, typ kproto.SignedMsgType, h uint64, r uint32, bid types.BlockID, mode int) (*types.Vote, bool) {
	c.voteClock++
	// wall clock like the node's own votes (BFT time: a later height's median must be after the last block time)
	ts := time.Now().Round(0).UTC().Add(time.Duration(c.voteClock) * time.Millisecond)
	switch c.tsMode {
	case 1: // clocks one hour ahead: the next block's time is in the node's future
		ts = ts.Add(time.Hour)
	case 2: // every vote carries the genesis time: the median never gets after the last block time
		ts = c03Genesis
	case 3: // the smallest admissible step: one nanosecond per height
		ts = c03Genesis.Add(time.Duration(h) * time.Nanosecond)
	}
	v := &types.Vote{ValidatorAddress: c.net.pvs[idx].GetAddress(), ValidatorIndex: uint32(idx), Height: h, Round: r,
		Timestamp: ts, Type: typ, BlockID: bid}
	ok := true
	signer := idx
	switch mode {
	case 1: // signed by another validator's key
		signer = (idx + 1 + c.r.Intn(c.net.n-1)) % c.net.n
		ok = false
	case 2: // index/address mismatch
		v.ValidatorIndex = uint32((idx + 1) % c.net.n)
		ok = false
	case 3: // index out of range
		v.ValidatorIndex = uint32(c.net.n + c.r.Intn(3))
		ok = false
	}
	pv := v.ToProto()
	if err := c.net.pvs[signer].SignVote(c03ChainID, pv); err != nil {
		panic(err)
	}
	v.Signature = pv.Signature
	c.regSig(pv.Signature, signer, pv)
	if mode == 4 { // content changed after signing
		v.Timestamp = v.Timestamp.Add(time.Second)
		ok = false
	}
	return v, ok
}

func (c *c03Case) opVote(peer int, v *types.Vote, ok bool) {
	typ := 1
	if v.Type == kproto.PrecommitType {
		typ = 2
	}
	in := fmt.Sprintf("V %d %d %d %d %d %d %d %d", peer, typ, v.Height, v.Round, c.hid(v.BlockID.Hash), c.pid(v.BlockID.PartsHeader), v.ValidatorIndex, c03b(ok))
	msg := &VoteMessage{Vote: v}
	c.run(in, func() string {
		if msg.ValidateBasic() != nil { // the reactor's filter (manager.go Receive)
			c.o.Count("vote:rejected-by-ValidateBasic")
			return ""
		}
		if ok {
			c.evidence(typ, v)
		}
		if int(v.ValidatorIndex) < c.net.n {
			c.recv = append(c.recv, c03RecvVote{typ: typ, height: v.Height, round: v.Round, bid: c03BidKey(v.BlockID), idx: int(v.ValidatorIndex), ok: ok})
		}
		pid := p2p.ID("")
		if peer > 0 {
			pid = p2p.ID(fmt.Sprintf("peer%d", peer))
		}
		return c.nd.deliverMsg(msg, pid)
	})
}

// evidence records validators that are provably faulty from the votes delivered so far: equivocation,
// a vote for something that is not a valid block of that height (unknown hash, invalid block,
// foreign parts header), or a vote in round 0.  Their power is a lower bound on the Byzantine power
// of the script; a panic with at most 1/3 of evident Byzantine power is reported as an oracle failure.
func (c *c03Case) evidence(typ int, v *types.Vote) {
	idx := int(v.ValidatorIndex)
	k := fmt.Sprintf("%d/%d/%d/%d", typ, v.Height, v.Round, idx)
	bk := c03BidKey(v.BlockID)
	if prev, ok := c.firstVote[k]; ok && prev != bk {
		c.byz[idx] = true
	} else if !ok {
		c.firstVote[k] = bk
	}
	if v.Round == 0 {
		c.byz[idx] = true
	}
	if !v.BlockID.IsZero() {
		good := false
		for _, b := range c.byHash[v.BlockID.Hash] {
			if b.validAt == v.Height && b.parts.HasHeader(v.BlockID.PartsHeader) {
				good = true
			}
		}
		if !good {
			c.byz[idx] = true
		}
	}
}

// sameHashOtherBody recognises the one halt that is a known defect of the repository: the node
// holds a body whose header hash is the hash of the +2/3 value (polka of the round for a halt in
// enterPrecommit, precommits of the commit round for a halt in finalizeCommit / SaveBlock), and
// ANOTHER body with that hash and another parts header, valid at this height, is in play: the +2/3
// value names it, or the node's ProposalBlockParts were switched to its header by a polka for it.
// Anything else stays an ordinary failure.
func (c *c03Case) sameHashOtherBody(cl string) string {
	cs := c.nd.cs
	var maj types.BlockID
	var ok bool
	switch cl {
	case "polka-for-invalid-block":
		if vs := cs.Votes.Prevotes(cs.Round); vs != nil {
			maj, ok = vs.TwoThirdsMajority()
		}
	case "commit-of-invalid-block", "save-incomplete-parts", "commit-parts-header":
		if vs := cs.Votes.Precommits(cs.CommitRound); vs != nil {
			maj, ok = vs.TwoThirdsMajority()
		}
	}
	if !ok || maj.IsZero() {
		return ""
	}
	for _, blk := range []*types.Block{cs.LockedBlock, cs.ProposalBlock} {
		if blk == nil || blk.Hash() != maj.Hash {
			continue
		}
		held := c.byContent[c03ContentKey(blk)]
		if held == nil {
			continue
		}
		for _, o := range c.byHash[maj.Hash] {
			if o == held || o.parts.HasHeader(held.parts.Header()) || o.validAt != cs.Height {
				continue
			}
			// the +2/3 value names the other body, or an earlier polka for the other body made the
			// node replace its part set by that body's (empty) one while keeping the block in hand
			if o.parts.HasHeader(maj.PartsHeader) || (cs.ProposalBlockParts != nil && o.parts.HasHeader(cs.ProposalBlockParts.Header())) {
				return fmt.Sprintf("in-hand=%s(valid=%v) other-body=%s(valid) +2/3-names-other=%v h=%d", held.kind, held.validAt == cs.Height, o.kind, o.parts.HasHeader(maj.PartsHeader), cs.Height)
			}
		}
	}
	return ""
}

func (c *c03Case) byzPower() int64 {
	s := int64(0)
	for i := range c.byz {
		s += c.net.powers[i]
	}
	return s
}

func c03b(b bool) int {
	if b {
		return 1
	}
	return 0
}

func (c *c03Case) opProposal(p *types.Proposal, signer int, peer int) {
	s := "-"
	if signer >= 0 {
		s = fmt.Sprint(signer)
	}
	in := fmt.Sprintf("P %d %d %d %d %d %s", p.Height, p.Round, p.POLRound, c.hid(p.POLBlockID.Hash), c.pid(p.POLBlockID.PartsHeader), s)
	msg := &ProposalMessage{Proposal: p}
	c.run(in, func() string {
		if msg.ValidateBasic() != nil {
			c.o.Count("proposal:rejected-by-ValidateBasic")
			return ""
		}
		pid := p2p.ID("")
		if peer > 0 {
			pid = p2p.ID(fmt.Sprintf("peer%d", peer))
		}
		return c.nd.deliverMsg(msg, pid)
	})
}

func (c *c03Case) opBlock(h uint64, r uint32, b *c03Block, peer int) {
	in := fmt.Sprintf("K %d %d %d %d", h, r, b.hashID, b.partsID)
	c.run(in, func() string {
		if h == c.nd.cs.Height {
			b.held = true
		}
		pid := p2p.ID("")
		if peer > 0 {
			pid = p2p.ID(fmt.Sprintf("peer%d", peer))
		}
		for i := 0; i < int(b.parts.Total()); i++ {
			if p := c.nd.deliverMsg(&BlockPartMessage{Height: h, Round: r, Part: b.parts.GetPart(i)}, pid); p != "" {
				return p
			}
		}
		return ""
	})
}

func (c *c03Case) opTimeout(h uint64, r uint32, s cstypes.RoundStepType) {
	in := fmt.Sprintf("T %d %d %d", h, r, int(s))
	c.run(in, func() string {
		if !c.nd.ticker.take(h, r, s) {
			c.o.Count("timeout:never-scheduled")
			return ""
		}
		return c.nd.deliverTimeout(h, r, s)
	})
}

// drainOne delivers the oldest message of the internal queue (own proposal / block parts / vote).
func (c *c03Case) drainOne() bool {
	cs := c.nd.cs
	select {
	case mi := <-cs.internalMsgQueue:
		switch m := mi.Msg.(type) {
		case *VoteMessage:
			c.opVote(0, m.Vote, true)
		case *ProposalMessage:
			signer := c.nd.me
			c.opProposal(m.Proposal, signer, 0)
		case *BlockPartMessage:
			// all parts of one block arrive together
			parts := []*BlockPartMessage{m}
			if m.Part != nil {
				for n := int(m.Part.Proof.Total) - 1; n > 0; n-- {
					nx := <-cs.internalMsgQueue
					parts = append(parts, nx.Msg.(*BlockPartMessage))
				}
			}
			if m.Part == nil {
				c.run(fmt.Sprintf("NP %d %d", m.Height, m.Round), func() string { return c.nd.deliverMsg(m, "") })
				return true
			}
			// find the block these parts belong to (an own block, or the valid block re-proposed)
			var blk *c03Block
			for _, b := range c.blocks {
				if b.parts.Total() != uint32(len(parts)) {
					continue
				}
				if ok, err := types.NewPartSetFromHeader(b.parts.Header()).AddPart(m.Part); ok && err == nil {
					blk = b
				}
			}
			if blk == nil {
				// the node re-proposes bytes that are not a well-formed block (it can only have them in
				// ValidBlockParts if addProposalBlockPart accepted them): deliver them as such
				for _, x := range c.bads {
					if x.parts.Total() != uint32(len(parts)) {
						continue
					}
					if ok, err := types.NewPartSetFromHeader(x.parts.Header()).AddPart(m.Part); ok && err == nil {
						c.o.Fail(c.opNo, "node-proposes-undecodable-bytes", fmt.Sprintf("h=%d r=%d kind=%s", m.Height, m.Round, x.kind))
						c.run(fmt.Sprintf("KB %d %d %d", m.Height, m.Round, x.partsID), func() string {
							for _, pm := range parts {
								if p := c.nd.deliverMsg(pm, ""); p != "" {
									return p
								}
							}
							return ""
						})
						return true
					}
				}
				c.o.Fail(c.opNo, "node-proposes-unknown-bytes", fmt.Sprintf("h=%d r=%d", m.Height, m.Round))
				c.dead = true
				return true
			}
			c.run(fmt.Sprintf("K %d %d %d %d", m.Height, m.Round, blk.hashID, blk.partsID), func() string {
				blk.held = true
				for _, pm := range parts {
					if p := c.nd.deliverMsg(pm, ""); p != "" {
						return p
					}
				}
				return ""
			})
		}
		return true
	default:
		return false
	}
}

// --- the adversary

func (c *c03Case) pickRound() uint32 {
	cur := c.nd.cs.Round
	switch c.r.Pick(60, 14, 6, 12, 4, 4) {
	case 0:
		return cur
	case 1:
		return cur + 1
	case 2:
		return cur + 2 + uint32(c.r.Intn(2))
	case 3:
		if cur > 1 {
			return 1 + uint32(c.r.Intn(int(cur-1)))
		}
		return cur
	case 4:
		return 0
	default:
		if c.nd.cs.LockedRound > 0 {
			return c.nd.cs.LockedRound
		}
		return cur
	}
}

// value for a vote campaign: the proposal block, the locked block, nil, another block
func (c *c03Case) pickValue() types.BlockID {
	cs := c.nd.cs
	switch c.r.Pick(40, 22, 10, 28) {
	case 0:
		if cs.Proposal != nil {
			return cs.Proposal.POLBlockID
		}
		if cs.ProposalBlock != nil && cs.ProposalBlockParts != nil {
			return types.BlockID{Hash: cs.ProposalBlock.Hash(), PartsHeader: cs.ProposalBlockParts.Header()}
		}
	case 1:
		return types.BlockID{}
	case 2:
		if cs.LockedBlock != nil {
			return types.BlockID{Hash: cs.LockedBlock.Hash(), PartsHeader: cs.LockedBlockParts.Header()}
		}
	}
	return c.someBid(c.someBlock())
}

// campaign: votes of one (type, round, value) from a random set of other validators, queued so that
// other inputs can interleave
func (c *c03Case) startCampaign() {
	typ := kproto.PrevoteType
	if c.r.Chance(2, 5) {
		typ = kproto.PrecommitType
	}
	h := c.nd.cs.Height
	r := c.pickRound()
	bid := c.pickValue()
	order := c.r.Perm(c.net.n)
	count := 1 + c.r.Intn(c.net.n)
	if c.r.Chance(3, 5) {
		count = c.net.n
	}
	c.o.Count(fmt.Sprintf("campaign:type%d", typ))
	for _, idx := range order[:count] {
		idx := idx
		if idx == c.nd.me {
			continue // the node's own key is never used by the adversary
		}
		c.campaign = append(c.campaign, func() {
			mode := c.r.Pick(90, 3, 2, 2, 3)
			hh := h
			switch c.r.Pick(94, 2, 2, 2) {
			case 1:
				hh = h + 1
			case 2:
				if h > 0 {
					hh = h - 1
				}
			case 3:
				hh = 0
			}
			b := bid
			if c.r.Chance(1, 60) { // malformed block id: hash without parts header (dropped by the reactor)
				b = types.BlockID{Hash: common.BytesToHash([]byte{11})}
			}
			v, ok := c.signVoteAs(idx, typ, hh, r, b, mode)
			c.opVote(1+c.r.Intn(3), v, ok)
		})
	}
}

func (c *c03Case) advProposal() {
	cs := c.nd.cs
	b := c.someBlock()
	bid := c.someBid(b)
	if c.r.Chance(1, 14) {
		bad := c.newBad()
		bid = types.BlockID{Hash: bad.hash, PartsHeader: bad.parts.Header()}
		c.o.Count("family:proposal-for-undecodable-bytes")
	}
	h, r := cs.Height, cs.Round
	switch c.r.Pick(88, 4, 4, 4) {
	case 1:
		r = cs.Round + 1
	case 2:
		if r > 1 {
			r--
		}
	case 3:
		h++
	}
	pol := uint32(0)
	switch c.r.Pick(60, 25, 8, 7) {
	case 1:
		if r > 1 {
			pol = 1 + uint32(c.r.Intn(int(r-1)))
		}
	case 2:
		pol = r
	case 3:
		pol = r + 1 + uint32(c.r.Intn(3))
	}
	if cs.ValidRound > 0 && c.r.Chance(1, 3) {
		pol = cs.ValidRound
	}
	p := types.NewProposal(h, r, pol, bid)
	signer := c.proposerAt(cs.Height, cs.Round)
	// the proposer of the node's current round as the node computes it (round-dependent)
	if c.r.Chance(1, 8) {
		signer = c.r.Intn(c.net.n)
	}
	if signer == c.nd.me { // cannot sign for the node itself: use somebody else (a wrong proposer)
		signer = (signer + 1) % c.net.n
	}
	pp := p.ToProto()
	if err := c.net.pvs[signer].SignProposal(c03ChainID, pp); err != nil {
		panic(err)
	}
	p.Signature = pp.Signature
	s := signer
	if c.r.Chance(1, 12) { // content changed after signing: nobody's signature
		p.POLRound++
		s = -1
	}
	c.o.Count("proposal:" + b.kind)
	c.opProposal(p, s, 1+c.r.Intn(3))
}

func (c *c03Case) advBlock() {
	cs := c.nd.cs
	var b *c03Block
	if cs.ProposalBlockParts != nil && c.r.Chance(4, 5) {
		for _, x := range c.blocks {
			if x.parts.HasHeader(cs.ProposalBlockParts.Header()) {
				b = x
			}
		}
	}
	if cs.ProposalBlockParts != nil && !cs.ProposalBlockParts.IsComplete() {
		for _, x := range c.bads {
			if x.parts.HasHeader(cs.ProposalBlockParts.Header()) && c.r.Chance(4, 5) {
				c.o.Mark("undecodable-bytes-completed")
				c.opBadBlock(cs.Height, cs.Round, x, 1+c.r.Intn(3))
				return
			}
		}
	}
	if b == nil {
		b = c.someBlock()
	}
	h, r := cs.Height, cs.Round
	switch c.r.Pick(90, 5, 5) {
	case 1:
		h++
	case 2:
		if r > 1 {
			r--
		}
	}
	c.opBlock(h, r, b, 1+c.r.Intn(3))
}

func (c *c03Case) advTimeout() {
	tk := c.nd.ticker
	cs := c.nd.cs
	if len(tk.pending) > 0 && c.r.Chance(9, 10) {
		ti := tk.pending[0]
		if c.r.Chance(1, 4) {
			ti = tk.pending[c.r.Intn(len(tk.pending))]
		}
		c.opTimeout(ti.Height, ti.Round, ti.Step)
		return
	}
	// a timeout the ticker never accepted
	c.opTimeout(cs.Height, cs.Round+uint32(c.r.Intn(3)), cstypes.RoundStepType(1+c.r.Intn(8)))
}

// staleBlocks: blocks that were valid at the previous height (first the ones the node voted for or committed)
func (c *c03Case) staleBlocks() []*c03Block {
	h := c.nd.cs.Height
	var voted, other []*c03Block
	for _, b := range c.blocks {
		if b.validAt == h-1 && h > 1 {
			if b.votedAt == h-1 {
				voted = append(voted, b)
			} else {
				other = append(other, b)
			}
		}
	}
	if len(voted) > 0 {
		return voted
	}
	return other
}

func (c *c03Case) drainAll() {
	for !c.dead && c.drainOne() {
	}
}

// skipToRound makes the node enter `target` through +2/3-any prevotes of that round split over
// three values none of which reaches +2/3 (no polka).  False if the others' power does not suffice.
func (c *c03Case) skipToRound(h uint64, target uint32) bool {
	cs := c.nd.cs
	vals := []types.BlockID{{}, {Hash: common.BytesToHash([]byte{9, 1}), PartsHeader: types.PartSetHeader{Total: 1, Hash: common.BytesToHash([]byte{10, 1})}},
		{Hash: common.BytesToHash([]byte{9, 2}), PartsHeader: types.PartSetHeader{Total: 1, Hash: common.BytesToHash([]byte{10, 2})}}}
	sums := make([]int64, 3)
	k := 0
	for _, idx := range c.r.Perm(c.net.n) {
		if idx == c.nd.me || c.dead {
			continue
		}
		// never let one value reach +2/3
		for try := 0; try < 3 && 3*(sums[k%3]+c.net.powers[idx]) > 2*c.net.total; try++ {
			k++
		}
		if 3*(sums[k%3]+c.net.powers[idx]) > 2*c.net.total {
			continue
		}
		sums[k%3] += c.net.powers[idx]
		v, ok := c.signVoteAs(idx, kproto.PrevoteType, h, target, vals[k%3], 0)
		c.opVote(1+c.r.Intn(3), v, ok)
		k++
	}
	c.drainAll()
	return !c.dead && cs.Height == h && cs.Round == target
}

// proposeFresh gives the node, in a round in which it has neither a proposal nor prevoted and whose
// proposer is somebody else, a correctly signed proposal for b and then b itself: the node runs
// doPrevote on b (validateBlock through its executor's cache) if it is not locked.
func (c *c03Case) proposeFresh(b *c03Block) bool {
	cs := c.nd.cs
	h := cs.Height
	if c.dead || cs.Step == cstypes.RoundStepCommit {
		return false
	}
	if cs.Proposal != nil || cs.Step > cstypes.RoundStepPropose || c.proposerAt(h, cs.Round) == c.nd.me || c.proposerAt(h, cs.Round) < 0 {
		target := cs.Round + 1
		for c.proposerAt(h, target) == c.nd.me && target < c03MaxRounds-4 {
			target++
		}
		if target >= c03MaxRounds-4 || !c.skipToRound(h, target) {
			return false
		}
	}
	if c.dead || cs.Height != h || cs.Proposal != nil || cs.Step > cstypes.RoundStepPropose {
		return false
	}
	signer := c.proposerAt(h, cs.Round)
	if signer == c.nd.me || signer < 0 {
		return false
	}
	p := types.NewProposal(h, cs.Round, 0, types.BlockID{Hash: b.blk.Hash(), PartsHeader: b.parts.Header()})
	pp := p.ToProto()
	if err := c.net.pvs[signer].SignProposal(c03ChainID, pp); err != nil {
		panic(err)
	}
	p.Signature = pp.Signature
	r := cs.Round
	c.opProposal(p, signer, 1)
	c.opBlock(h, r, b, 1)
	c.drainAll()
	return true
}

// directedSameHash: the two scripted exhibitions of the known finding "halt-same-hash-other-body";
// everybody but the proposer of the round follows the protocol.
//   variant 1 (first height): the victim is given body B, the others a second body with B's header
//     hash — B with an empty last commit of another round, or B cut into parts of another size —
//     prevote and precommit it;
//   variant 2 (second height): the victim is given B's header with B's last commit under Round+1
//     (not a valid block), the others the valid B and prevote it.
func (c *c03Case) directedSameHash(variant int) {
	cs := c.nd.cs
	others := func(typ kproto.SignedMsgType, h uint64, r uint32, b *c03Block) {
		bid := types.BlockID{Hash: b.blk.Hash(), PartsHeader: b.parts.Header()}
		for idx := 0; idx < c.net.n && !c.dead; idx++ {
			if idx == c.nd.me {
				continue
			}
			v, ok := c.signVoteAs(idx, typ, h, r, bid, 0)
			c.opVote(1, v, ok)
			c.drainAll()
		}
	}
	propose := func(h uint64, r uint32, b *c03Block) {
		signer := c.proposerAt(h, r)
		p := types.NewProposal(h, r, 0, types.BlockID{Hash: b.blk.Hash(), PartsHeader: b.parts.Header()})
		pp := p.ToProto()
		if err := c.net.pvs[signer].SignProposal(c03ChainID, pp); err != nil {
			panic(err)
		}
		p.Signature = pp.Signature
		c.opProposal(p, signer, 1)
		c.opBlock(h, r, b, 1)
		c.drainAll()
	}
	c.opTimeout(1, 1, cstypes.RoundStepNewHeight)
	c.drainAll()
	b1 := c.newBlock("valid")
	if variant == 1 {
		var second *c03Block
		if c.r.Chance(1, 2) {
			second = c.newTwin(b1)
		} else {
			second = c.otherEncoding(b1)
		}
		c.o.Count("family:directed-same-hash:first-height:" + second.kind)
		propose(1, 1, b1)
		others(kproto.PrevoteType, 1, 1, second)
		others(kproto.PrecommitType, 1, 1, second)
		return
	}
	propose(1, 1, b1)
	others(kproto.PrevoteType, 1, 1, b1)
	others(kproto.PrecommitType, 1, 1, b1)
	if c.dead || cs.Height != 2 {
		return
	}
	c.declareHeight()
	c.opTimeout(2, 1, cstypes.RoundStepNewHeight)
	c.drainAll()
	b := c.newBlock("valid")
	tw := c.newTwin(b)
	c.o.Count("family:directed-same-hash:later-height:" + tw.kind)
	propose(2, 1, tw)
	others(kproto.PrevoteType, 2, 1, b)
}

// advTwinProbe: the node has validated B at this height (it voted for it); in a fresh round it is
// proposed a twin of B — the header of B with another last commit, hence B's hash — which at
// heights after the first is NOT a valid block (the commit does not verify).  An executor that
// recognises validated blocks by their hash alone lets the node prevote (and later precommit and
// commit) the twin.
func (c *c03Case) advTwinProbe() {
	cs := c.nd.cs
	if cs.LockedBlock != nil || cs.Step == cstypes.RoundStepCommit {
		return
	}
	var l []*c03Block
	for _, b := range c.blocks {
		if b.validAt == cs.Height && b.votedAt == cs.Height && b.kind != "twin-first" && b.kind != "other-part-size" {
			l = append(l, b)
		}
	}
	if len(l) == 0 {
		return
	}
	c.o.Count("family:twin-probe")
	tw := c.newTwin(l[c.r.Intn(len(l))])
	if c.proposeFresh(tw) {
		c.o.Mark(fmt.Sprintf("twin-probe-completed h>1=%v", cs.Height > 1))
	}
}

// advStaleProbe: at a new height the node is proposed a block of the previous height that its
// executor validated there (the committed block or another one it voted for).  The executor's
// memory of validated blocks must not outlive the height.
func (c *c03Case) advStaleProbe() {
	cs := c.nd.cs
	if cs.Height < 2 || cs.LockedBlock != nil || cs.Step == cstypes.RoundStepCommit {
		return
	}
	l := c.staleBlocks()
	if len(l) == 0 {
		return
	}
	c.o.Count("family:stale-probe")
	if c.proposeFresh(l[c.r.Intn(len(l))]) {
		c.o.Mark("stale-probe-completed")
	}
}

// advCatchupFlood: one peer sends votes for four rounds the node does not track yet (beyond
// round+1): HeightVoteSet lets a peer open two such rounds, the third and fourth are refused.
func (c *c03Case) advCatchupFlood() {
	cs := c.nd.cs
	h, base := cs.Height, cs.Round+2
	peer := 4 + c.r.Intn(3) // a peer that has not opened any round yet (the other families use peers 1..3)
	c.o.Count("family:catchup-flood")
	typ := kproto.PrevoteType
	if c.r.Chance(1, 2) {
		typ = kproto.PrecommitType
	}
	bid := c.pickValue()
	for k := uint32(0); k < 4 && !c.dead && cs.Height == h; k++ {
		idx := c.r.Intn(c.net.n)
		if idx == c.nd.me {
			continue
		}
		v, ok := c.signVoteAs(idx, typ, h, base+k, bid, 0)
		c.opVote(peer, v, ok)
	}
}

// advUnlockProbe: while the node is locked on B, deliver a complete +2/3 prevote set for another
// valid block C in a round BEFORE the lock round (which must not release the lock), skip to a later
// round with +2/3-any prevotes split over several values (no polka), and give the node a complete
// proposal for C there: a node that wrongly released the lock now prevotes C and the lock-rule
// oracle fires.
func (c *c03Case) advUnlockProbe() {
	cs := c.nd.cs
	if cs.LockedBlock == nil || cs.Step == cstypes.RoundStepCommit {
		return
	}
	c.o.Count("family:unlock-probe")
	h, lr := cs.Height, cs.LockedRound
	blkC := c.newBlock("valid")
	bidC := types.BlockID{Hash: blkC.blk.Hash(), PartsHeader: blkC.parts.Header()}
	drain := func() {
		for !c.dead && c.drainOne() {
		}
	}
	for _, idx := range c.r.Perm(c.net.n) {
		if idx == c.nd.me || c.dead {
			continue
		}
		v, ok := c.signVoteAs(idx, kproto.PrevoteType, h, lr-1, bidC, 0)
		c.opVote(1+c.r.Intn(3), v, ok)
	}
	drain()
	if c.dead || cs.Height != h {
		return
	}
	// a later round whose proposer is not the node
	target := cs.Round + 1
	for c.proposerAt(h, target) == c.nd.me && target < c03MaxRounds-4 {
		target++
	}
	vals := []types.BlockID{{}, {Hash: common.BytesToHash([]byte{9, 1}), PartsHeader: types.PartSetHeader{Total: 1, Hash: common.BytesToHash([]byte{10, 1})}},
		{Hash: common.BytesToHash([]byte{9, 2}), PartsHeader: types.PartSetHeader{Total: 1, Hash: common.BytesToHash([]byte{10, 2})}}}
	sums := make([]int64, 3)
	k := 0
	for _, idx := range c.r.Perm(c.net.n) {
		if idx == c.nd.me || c.dead {
			continue
		}
		// never let one value reach +2/3
		for try := 0; try < 3 && 3*(sums[k%3]+c.net.powers[idx]) > 2*c.net.total; try++ {
			k++
		}
		if 3*(sums[k%3]+c.net.powers[idx]) > 2*c.net.total {
			continue
		}
		sums[k%3] += c.net.powers[idx]
		v, ok := c.signVoteAs(idx, kproto.PrevoteType, h, target, vals[k%3], 0)
		c.opVote(1+c.r.Intn(3), v, ok)
		k++
	}
	drain()
	if c.dead || cs.Height != h || cs.Round != target || cs.Proposal != nil {
		return
	}
	p := types.NewProposal(h, target, 0, bidC)
	signer := c.proposerAt(h, target)
	if signer == c.nd.me || signer < 0 {
		return
	}
	pp := p.ToProto()
	if err := c.net.pvs[signer].SignProposal(c03ChainID, pp); err != nil {
		panic(err)
	}
	p.Signature = pp.Signature
	c.opProposal(p, signer, 1)
	c.opBlock(h, target, blkC, 1)
	drain()
	c.o.Mark("unlock-probe-completed")
}

func (c *c03Case) script(maxOps int) {
	cs := c.nd.cs
	for c.opNo < maxOps && !c.dead {
		if cs.Round > c03MaxRounds-3 || cs.Height >= c03MaxHeights {
			return
		}
		// own messages: usually promptly, sometimes late (interleaved with peer messages)
		if len(cs.internalMsgQueue) > 0 && c.r.Chance(3, 4) {
			c.drainOne()
			continue
		}
		if len(c.campaign) > 0 && c.r.Chance(3, 4) {
			f := c.campaign[0]
			c.campaign = c.campaign[1:]
			f()
			continue
		}
		if cs.LockedBlock != nil && cs.Step != cstypes.RoundStepCommit && c.r.Chance(1, 10) {
			c.advUnlockProbe()
			continue
		}
		if cs.Step != cstypes.RoundStepCommit && cs.Round < c03MaxRounds-10 && c.r.Chance(1, 60) {
			c.advCatchupFlood()
			continue
		}
		if cs.LockedBlock == nil && cs.Step != cstypes.RoundStepCommit && c.r.Chance(1, 25) {
			if cs.Height > 1 && c.r.Chance(1, 2) {
				c.advStaleProbe()
			} else {
				c.advTwinProbe()
			}
			continue
		}
		wProp, wBlock, wCamp, wTime := 8, 8, 30, 14
		switch cs.Step {
		case cstypes.RoundStepNewHeight:
			wTime = 60
		case cstypes.RoundStepNewRound, cstypes.RoundStepPropose:
			if cs.Proposal == nil {
				wProp = 40
			} else if cs.ProposalBlock == nil {
				wBlock = 50
			}
			wTime = 10
		case cstypes.RoundStepCommit:
			wBlock = 40
		}
		if cs.ProposalBlockParts != nil && cs.ProposalBlock == nil {
			wBlock += 20
		}
		switch c.r.Pick(wProp, wBlock, wCamp, wTime) {
		case 0:
			c.advProposal()
		case 1:
			c.advBlock()
		case 2:
			c.startCampaign()
		case 3:
			c.advTimeout()
		}
	}
}

func TestVerifC03(t *testing.T) {
	if *c03Facts != "" {
		os.WriteFile(*c03Facts, []byte("(* C03 has no source-derived facts *)\n"), 0o644)
		return
	}
	if *c03Dir == "" {
		t.Skip("-out required")
	}
	log.Root().SetHandler(log.DiscardHandler())
	o := c03Open(*c03Dir)
	o.rule = "distinct (event, round) signatures: non-nil precommit at round r, commit at round r, prevote for another block after an unlock (r -> r'), panic class"
	root := c03NewRand(*c03Seed)
	for i := 0; i < *c03N; i++ {
		if *c03Only >= 0 && *c03Only != i {
			continue
		}
		r := root.Fork(uint64(i))
		n := 4 + r.Intn(4)
		powers := make([]int64, n)
		for k := range powers {
			powers[k] = 10
			if r.Chance(1, 2) {
				powers[k] = int64(1 + r.Intn(10))
			}
		}
		if r.Chance(1, 14) {
			// near-maximal voting powers: the total sits at the cap (MaxTotalVotingPower = MaxInt64/8), so
			// the int64 quorum arithmetic (total*2/3+1), the running sums and the median's total/2 work
			// at the largest values a validator set admits
			for k := range powers {
				powers[k] = types.MaxTotalVotingPower/int64(n) - int64(r.Intn(5))
			}
			if r.Chance(1, 2) {
				powers[r.Intn(n)] = int64(1 + r.Intn(3))
			}
			o.Count("family:near-maximal-powers")
		}
		directed := 0 // the scripted exhibitions of the known finding: two cases in every forty
		switch i % 40 {
		case 7:
			directed = 1
		case 27:
			directed = 2
		}
		if directed != 0 {
			n, powers = 4, []int64{10, 10, 10, 10}
		}
		net := c03NewNet(fmt.Sprint(i%7), powers)
		me := r.Intn(n)
		if r.Chance(1, 12) {
			me = -1
		}
		if directed != 0 {
			// the victim proposes neither at (1,1) nor at (2,1)
			for me = 0; me == c03ProposerIdx(net, 1, 1) || me == c03ProposerIdx(net, 2, 1); me++ {
			}
		}
		cfg := configs.TestConsensusConfig()
		switch r.Pick(60, 25, 15) {
		case 1:
			cfg.CreateEmptyBlocksInterval = 3500 * time.Millisecond
		case 2:
			cfg.IsCreateEmptyBlocks = false
		}
		cfg.IsSkipTimeoutCommit = r.Chance(1, 4)
		if directed != 0 {
			cfg = configs.TestConsensusConfig()
		}
		nd := c03NewNode(net, me, cfg)
		c := &c03Case{o: o, r: r, net: net, nd: nd, hashes: map[common.Hash]int{}, partsH: map[string]int{},
			seen: map[uint64]*types.Commit{}, byz: map[int]bool{}, firstVote: map[string]string{}, byHash: map[common.Hash][]*c03Block{}, byContent: map[string]*c03Block{}, sigReg: map[string]*c03SigInfo{}, signedKey: map[string]string{}}
		c.tsMode = r.Pick(70, 12, 6, 12)
		if directed != 0 {
			c.tsMode = 0
		}
		if me >= 0 {
			nd.sigHook = func(v *kproto.Vote) { c.regSig(v.Signature, me, v) }
		}
		ms := "-"
		if me >= 0 {
			ms = fmt.Sprint(me)
		}
		o.Case(i, fmt.Sprintf("CASE %d %s %d %d %d 1", i, ms, c03b(cfg.IsSkipTimeoutCommit), c03b(cfg.IsCreateEmptyBlocks), c03b(cfg.CreateEmptyBlocksInterval > 0)))
		l := []string{"VALS"}
		for _, p := range net.powers {
			l = append(l, fmt.Sprint(p))
		}
		o.InOnly(strings.Join(l, " "))
		c.buildProposers()
		c.lastHRS = [3]uint64{nd.cs.Height, uint64(nd.cs.Round), uint64(nd.cs.Step)}
		if directed != 0 {
			c.directedSameHash(directed)
			if !c.dead {
				// (a repaired node survives the scenario: not a failure)
				o.Count(fmt.Sprintf("directed-same-hash:variant-%d-survived", directed))
			} else {
				o.Count(fmt.Sprintf("directed-same-hash:variant-%d-halted", directed))
			}
		}
		c.script(60 + r.Intn(120))
		o.Count(fmt.Sprintf("final-height:%d", nd.cs.Height))
		o.Count(fmt.Sprintf("n:%d", n))
		o.Count(fmt.Sprintf("vote-times:%d", c.tsMode))
		if c.maxRound >= 3 {
			o.Count("reached-round>=3")
		}
		nd.close()
	}
	o.Close()
}
