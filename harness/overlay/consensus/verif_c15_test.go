//go:build verif

// C15 harness (in package consensus: msgInfo, timeoutInfo, repairWalFile are unexported).
// Drives the real BaseWAL / WALEncoder / WALDecoder / auto.Group / GroupReader / repairWalFile /
// SearchForEndHeight on generated message sequences, then on corrupted copies of the bytes they
// produced; prints the projected observables for the extracted Coq model (in.txt / impl.txt) and
// evaluates the property directly on the implementation (oracle.txt).
package consensus

import (
	"bufio"
	"bytes"
	"crypto/sha256"
	"encoding/binary"
	"encoding/hex"
	"encoding/json"
	"flag"
	"fmt"
	"hash/crc32"
	"io"
	"os"
	"path/filepath"
	"runtime"
	"sort"
	"strings"
	"testing"
	"time"

	"github.com/gogo/protobuf/proto"
	cstypes "github.com/kardiachain/go-kardia/consensus/types"
	auto "github.com/kardiachain/go-kardia/lib/autofile"
	"github.com/kardiachain/go-kardia/lib/common"
	"github.com/kardiachain/go-kardia/lib/merkle"
	kos "github.com/kardiachain/go-kardia/lib/os"
	"github.com/kardiachain/go-kardia/lib/p2p"
	kcons "github.com/kardiachain/go-kardia/proto/kardiachain/consensus"
	kproto "github.com/kardiachain/go-kardia/proto/kardiachain/types"
	"github.com/kardiachain/go-kardia/types"
)

var (
	c15Seed  = flag.Uint64("seed", 1, "PRNG seed")
	c15N     = flag.Int("n", 100, "number of generated cases")
	c15Dir   = flag.String("out", "", "output directory")
	c15Only  = flag.Int("only", -1, "generate and run only this case index")
	c15Tier  = flag.String("tier", "quick", "quick|thorough")
	c15Facts = flag.String("facts", "", "write Generated/C15Facts.v to this path and exit")
)

// ---------------------------------------------------------------- PRNG (copy of harness/internal/gen)

type c15Rand struct{ s uint64 }

func c15NewRand(seed uint64) *c15Rand { return &c15Rand{s: seed*0x9E3779B97F4A7C15 + 0x1234567} }
func (r *c15Rand) Fork(i uint64) *c15Rand {
	return &c15Rand{s: r.s ^ (i+1)*0xBF58476D1CE4E5B9}
}
func (r *c15Rand) U64() uint64 {
	r.s += 0x9E3779B97F4A7C15
	z := r.s
	z = (z ^ (z >> 30)) * 0xBF58476D1CE4E5B9
	z = (z ^ (z >> 27)) * 0x94D049BB133111EB
	return z ^ (z >> 31)
}
func (r *c15Rand) Intn(n int) int {
	if n <= 0 {
		return 0
	}
	return int(r.U64() % uint64(n))
}
func (r *c15Rand) Bool() bool               { return r.U64()&1 == 1 }
func (r *c15Rand) Chance(num, den int) bool { return r.Intn(den) < num }
func (r *c15Rand) Pick(weights ...int) int {
	t := 0
	for _, w := range weights {
		t += w
	}
	x := r.Intn(t)
	for i, w := range weights {
		if x < w {
			return i
		}
		x -= w
	}
	return len(weights) - 1
}
func (r *c15Rand) Bytes(n int) []byte {
	b := make([]byte, n)
	for i := range b {
		b[i] = byte(r.U64())
	}
	return b
}

// ---------------------------------------------------------------- output files (copy of harness/internal/out)

type c15Out struct {
	dir              string
	fin, fimpl, forc *os.File
	In, Impl, Orc    *bufio.Writer
	Dist             map[string]int
	Samples          []string
	Cases, Ops       int
	Nontrivial       map[string]bool
	Rule             string
	Fails            int
	curCase          int
	curSample        []string
}

func c15Open(dir string) *c15Out {
	os.MkdirAll(dir, 0o755)
	o := &c15Out{dir: dir, Dist: map[string]int{}, Nontrivial: map[string]bool{}}
	var err error
	if o.fin, err = os.Create(filepath.Join(dir, "in.txt")); err != nil {
		panic(err)
	}
	o.fimpl, _ = os.Create(filepath.Join(dir, "impl.txt"))
	o.forc, _ = os.Create(filepath.Join(dir, "oracle.txt"))
	o.In, o.Impl, o.Orc = bufio.NewWriterSize(o.fin, 1<<20), bufio.NewWriterSize(o.fimpl, 1<<20), bufio.NewWriterSize(o.forc, 1<<16)
	return o
}
func (o *c15Out) Case(n int, header string) {
	o.flushSample()
	o.curCase = n
	o.Cases++
	fmt.Fprintln(o.In, header)
	fmt.Fprintf(o.Impl, "CASE %d\n", n)
	o.curSample = []string{header}
}
func c15Short(s string) string {
	if len(s) > 300 {
		return s[:300] + "..."
	}
	return s
}
func (o *c15Out) Op(input, observed string) {
	o.Ops++
	fmt.Fprintln(o.In, input)
	fmt.Fprintln(o.Impl, observed)
	if len(o.curSample) < 40 {
		o.curSample = append(o.curSample, c15Short(input)+"  =>  "+c15Short(observed))
	}
}
func (o *c15Out) InOnly(line string) {
	fmt.Fprintln(o.In, line)
	if len(o.curSample) < 40 {
		o.curSample = append(o.curSample, c15Short(line))
	}
}
func (o *c15Out) flushSample() {
	if o.curSample != nil && len(o.Samples) < 3 {
		o.Samples = append(o.Samples, strings.Join(o.curSample, "\n")+"\n")
	}
	o.curSample = nil
}
func (o *c15Out) Fail(step int, class, detail string) {
	o.Fails++
	fmt.Fprintf(o.Orc, "FAIL case=%d step=%d class=%s %s\n", o.curCase, step, class, c15Short(detail))
}
func (o *c15Out) Count(key string) { o.Dist[key]++ }
func (o *c15Out) Mark(key string)  { o.Nontrivial[key] = true }
func (o *c15Out) Close(seed uint64) {
	o.flushSample()
	o.In.Flush()
	o.Impl.Flush()
	o.Orc.Flush()
	o.fin.Close()
	o.fimpl.Close()
	o.forc.Close()
	st := map[string]interface{}{
		"cases": o.Cases, "ops": o.Ops, "distinct_nontrivial": len(o.Nontrivial),
		"rule": o.Rule, "dist": o.Dist, "samples": o.Samples, "oracle_failures": o.Fails, "seed": seed,
	}
	b, _ := json.MarshalIndent(st, "", " ")
	os.WriteFile(filepath.Join(o.dir, "stats.json"), b, 0o644)
}

// ---------------------------------------------------------------- small helpers

var c15Castagnoli = crc32.MakeTable(crc32.Castagnoli) // independent of the package's own crc32c variable

func c15Hex(b []byte) string {
	if len(b) == 0 {
		return "-"
	}
	return hex.EncodeToString(b)
}

// payload token: hex, or z:<prefix>:<fill>:<count>:<suffix> when there is a long run of one byte
func c15Tok(b []byte) string {
	if len(b) <= 2048 {
		return c15Hex(b)
	}
	best, bestLen := 0, 0
	for i := 0; i < len(b); {
		j := i
		for j < len(b) && b[j] == b[i] {
			j++
		}
		if j-i > bestLen {
			best, bestLen = i, j-i
		}
		i = j
	}
	if bestLen < 1024 {
		return c15Hex(b)
	}
	return fmt.Sprintf("z:%s:%02x:%d:%s", c15Hex(b[:best]), b[best], bestLen, c15Hex(b[best+bestLen:]))
}

// fingerprint of a byte string: hex if short, else length and sha256 prefix
func c15FP(b []byte) string {
	if len(b) <= 48 {
		return c15Hex(b)
	}
	h := sha256.Sum256(b)
	return fmt.Sprintf("%d:%s", len(b), hex.EncodeToString(h[:8]))
}

func c15Digest(s string) string {
	h := sha256.Sum256([]byte(s))
	return hex.EncodeToString(h[:8])
}

func c15Frame(p []byte) []byte {
	f := make([]byte, 8+len(p))
	binary.BigEndian.PutUint32(f[0:4], crc32.Checksum(p, c15Castagnoli))
	binary.BigEndian.PutUint32(f[4:8], uint32(len(p)))
	copy(f[8:], p)
	return f
}

// ---------------------------------------------------------------- message rendering (independent of protobuf)

func c15RenderBlockID(b types.BlockID) string {
	return fmt.Sprintf("%x/%d/%x", b.Hash[:], b.PartsHeader.Total, b.PartsHeader.Hash[:])
}
func c15RenderTime(t time.Time) string { return fmt.Sprintf("%d.%d", t.Unix(), t.Nanosecond()) }

func c15RenderMsg(m Message) string {
	switch v := m.(type) {
	case *VoteMessage:
		x := v.Vote
		return fmt.Sprintf("V|%x|%d|%d|%d|%s|%d|%s|%x", x.ValidatorAddress[:], x.ValidatorIndex, x.Height, x.Round,
			c15RenderTime(x.Timestamp), x.Type, c15RenderBlockID(x.BlockID), x.Signature)
	case *ProposalMessage:
		x := v.Proposal
		return fmt.Sprintf("P|%d|%d|%d|%s|%s|%x", x.Height, x.Round, x.POLRound, c15RenderTime(x.Timestamp),
			c15RenderBlockID(x.POLBlockID), x.Signature)
	case *BlockPartMessage:
		x := v.Part
		aunts := ""
		for _, a := range x.Proof.Aunts {
			aunts += hex.EncodeToString(a) + ","
		}
		return fmt.Sprintf("B|%d|%d|%d|%x|%d|%d|%x|%s", v.Height, v.Round, x.Index, sha256.Sum256(x.Bytes), x.Proof.Total,
			x.Proof.Index, x.Proof.LeafHash, aunts) + fmt.Sprintf("|%d", len(x.Bytes))
	case *HasVoteMessage:
		return fmt.Sprintf("H|%d|%d|%d|%d", v.Height, v.Round, v.Type, v.Index)
	case *NewRoundStepMessage:
		return fmt.Sprintf("N|%d|%d|%d|%d|%d", v.Height, v.Round, v.Step, v.SecondsSinceStartTime, v.LastCommitRound)
	case *NewValidBlockMessage:
		return fmt.Sprintf("NVB|%d|%d|%d/%x|%s|%v", v.Height, v.Round, v.BlockPartsHeader.Total, v.BlockPartsHeader.Hash[:],
			c15RenderBits(v.BlockParts), v.IsCommit)
	case *ProposalPOLMessage:
		return fmt.Sprintf("PPOL|%d|%d|%s", v.Height, v.ProposalPOLRound, c15RenderBits(v.ProposalPOL))
	case *VoteSetMaj23Message:
		return fmt.Sprintf("M23|%d|%d|%d|%s", v.Height, v.Round, v.Type, c15RenderBlockID(v.BlockID))
	case *VoteSetBitsMessage:
		return fmt.Sprintf("VSB|%d|%d|%d|%s|%s", v.Height, v.Round, v.Type, c15RenderBlockID(v.BlockID), c15RenderBits(v.Votes))
	}
	return fmt.Sprintf("?%T", m)
}

// bit by bit through the public accessor (a nil array and an array of size 0 are the same thing on the wire)
func c15RenderBits(b *common.BitArray) string {
	if b == nil || b.Size() == 0 {
		return "0:"
	}
	n := b.Size()
	if n > 20000 || (n+63)/64 != len(b.Elems) { // GetIndex is only defined on a consistent array
		return fmt.Sprintf("%d:raw/%d/%x", n, len(b.Elems), b.Elems)
	}
	bs := make([]byte, n)
	for i := 0; i < n; i++ {
		if b.GetIndex(i) {
			bs[i] = '1'
		} else {
			bs[i] = '0'
		}
	}
	return fmt.Sprintf("%d:%x/%d", n, sha256.Sum256(bs), len(b.Elems))
}

// bit arrays at the word boundaries of the encoding (63/64/65, 127/128/129), tiny, random, and at the maximum
func c15Bits(r *c15Rand, max int) *common.BitArray {
	sizes := []int{1, 2, 63, 64, 65, 127, 128, 129, 1 + r.Intn(300), max - 1, max}
	n := sizes[r.Intn(len(sizes))]
	if n > max {
		n = max
	}
	if n < 1 {
		n = 1
	}
	ba := common.NewBitArray(n)
	mode := r.Intn(4)
	for i := 0; i < n; i++ {
		switch mode {
		case 0:
			ba.SetIndex(i, r.Bool())
		case 1:
			ba.SetIndex(i, true)
		case 2:
			ba.SetIndex(i, i == n-1 || i == 0)
		}
	}
	return ba
}

func c15Render(m WALMessage, t time.Time) string {
	ts := c15RenderTime(t) + "#"
	switch v := m.(type) {
	case EndHeightMessage:
		return ts + fmt.Sprintf("EH|%d", v.Height)
	case timeoutInfo:
		return ts + fmt.Sprintf("TI|%d|%d|%d|%d", int64(v.Duration), v.Height, v.Round, v.Step)
	case types.EventDataRoundState:
		return ts + fmt.Sprintf("RS|%d|%d|%q", v.Height, v.Round, v.Step)
	case msgInfo:
		return ts + fmt.Sprintf("MI|%q|", string(v.PeerID)) + c15RenderMsg(v.Msg)
	}
	return ts + fmt.Sprintf("?%T", m)
}

// ---------------------------------------------------------------- generators

func c15Hash(r *c15Rand) common.Hash {
	var h common.Hash
	if r.Chance(1, 10) {
		return h
	}
	copy(h[:], r.Bytes(32))
	return h
}

func c15U64(r *c15Rand) uint64 {
	switch r.Pick(5, 2, 1, 1) {
	case 0:
		return uint64(r.Intn(1000))
	case 1:
		return r.U64()
	case 2:
		return 0
	default:
		return ^uint64(0) - uint64(r.Intn(3))
	}
}
func c15U32(r *c15Rand) uint32 {
	switch r.Pick(5, 2, 1) {
	case 0:
		return uint32(r.Intn(50))
	case 1:
		return uint32(r.U64())
	default:
		return ^uint32(0)
	}
}
func c15Time(r *c15Rand) time.Time {
	switch r.Pick(6, 1, 1, 1) {
	case 0:
		return time.Unix(1500000000+int64(r.Intn(300000000)), int64(r.Intn(1000000000))).UTC()
	case 1:
		return time.Time{}
	case 2:
		return time.Unix(int64(r.Intn(100)), 0).UTC()
	default:
		return time.Date(9999, 12, 31, 23, 59, 59, 999999999, time.UTC)
	}
}
func c15BlockID(r *c15Rand, mode int) types.BlockID {
	// mode 0: zero, 1: complete, 2: arbitrary (may be incomplete)
	var b types.BlockID
	switch mode {
	case 0:
	case 1:
		copy(b.Hash[:], r.Bytes(32))
		b.Hash[0] |= 1
		b.PartsHeader.Total = uint32(1 + r.Intn(100))
		copy(b.PartsHeader.Hash[:], r.Bytes(32))
		b.PartsHeader.Hash[0] |= 1
	default:
		b.Hash = c15Hash(r)
		b.PartsHeader.Total = uint32(r.Intn(3))
		b.PartsHeader.Hash = c15Hash(r)
	}
	return b
}

func c15Sig(r *c15Rand, bad bool) []byte {
	if bad && r.Chance(1, 3) {
		return nil
	}
	switch r.Pick(6, 2, 1) {
	case 0:
		return r.Bytes(65)
	case 1:
		return r.Bytes(1 + r.Intn(100))
	default:
		return bytes.Repeat([]byte{byte(r.Intn(256))}, 1+r.Intn(64))
	}
}

var c15Steps = []string{"RoundStepNewHeight", "RoundStepNewRound", "RoundStepPropose", "RoundStepPrevote",
	"RoundStepPrevoteWait", "RoundStepPrecommit", "RoundStepPrecommitWait", "RoundStepCommit", "", "x"}

type c15Gen struct {
	r         *c15Rand
	nextH     int64
	bigBytes  int  // size range for block part bytes
	allowBad  bool // messages that the validators reject may be generated
	zeroTails bool // favour payloads ending in zero bytes
}

// returns the message and whether the package's own validators accept it (then it must read back)
func (g *c15Gen) msg() (WALMessage, bool, string) {
	r := g.r
	switch r.Pick(20, 15, 12, 53) {
	case 0:
		h := g.nextH
		switch r.Pick(12, 1, 1, 1) {
		case 0:
			g.nextH++
		case 1:
			h = int64(r.U64()) // arbitrary, maybe negative
		case 2:
			h = 0
		default:
			if h > 0 {
				h-- // duplicate of the previous marker
			}
		}
		if g.zeroTails && r.Chance(1, 2) {
			h = 0
		}
		return EndHeightMessage{Height: h}, true, "endheight"
	case 1:
		return timeoutInfo{Duration: time.Duration(int64(r.U64()) >> uint(r.Intn(64))), Height: c15U64(r), Round: c15U32(r),
			Step: cstypes.RoundStepType(r.Intn(256))}, true, "timeout"
	case 2:
		st := c15Steps[r.Intn(len(c15Steps))]
		if r.Chance(1, 8) {
			st = hex.EncodeToString(r.Bytes(r.Intn(20)))
		}
		return types.EventDataRoundState{Height: c15U64(r), Round: c15U32(r), Step: st}, true, "roundstate"
	}
	peer := ""
	if r.Chance(2, 3) {
		peer = hex.EncodeToString(r.Bytes(20))
	}
	bad := g.allowBad && r.Chance(1, 8)
	var m Message
	kind := ""
	switch r.Pick(40, 20, 25, 10, 5, 5, 5, 5, 5) {
	case 5:
		total := []int{1, 2, 63, 64, 65, 128, 1 + r.Intn(200), types.MaxBlockPartsCount}[r.Intn(8)]
		nv := &NewValidBlockMessage{Height: c15U64(r), Round: c15U32(r), IsCommit: r.Bool()}
		nv.BlockPartsHeader.Total = uint32(total)
		copy(nv.BlockPartsHeader.Hash[:], r.Bytes(32))
		nv.BlockParts = c15Bits(r, total)
		for nv.BlockParts.Size() != total {
			nv.BlockParts = c15Bits(r, total)
		}
		if bad {
			switch r.Intn(3) {
			case 0:
				nv.BlockPartsHeader.Total++
			case 1:
				nv.BlockParts = &common.BitArray{Bits: uint(total), Elems: make([]uint64, (total+63)/64+1)}
			default:
				nv.BlockParts = nil
			}
		}
		m, kind = nv, "newvalidblock"
	case 6:
		pp := &ProposalPOLMessage{Height: c15U64(r), ProposalPOLRound: c15U32(r), ProposalPOL: c15Bits(r, types.MaxVotesCount)}
		if bad {
			if r.Bool() {
				pp.ProposalPOL = &common.BitArray{Bits: uint(65 + r.Intn(100)), Elems: []uint64{r.U64()}}
			} else {
				pp.ProposalPOL = c15Bits(r, types.MaxVotesCount+1+r.Intn(64))
			}
		}
		m, kind = pp, "proposalpol"
	case 7:
		mj := &VoteSetMaj23Message{Height: c15U64(r), Round: c15U32(r), Type: kproto.SignedMsgType(1 + r.Intn(2)), BlockID: c15BlockID(r, r.Intn(2))}
		if bad {
			if r.Bool() {
				mj.Type = kproto.SignedMsgType(r.Intn(40))
			} else {
				mj.BlockID = c15BlockID(r, 2)
			}
		}
		m, kind = mj, "votesetmaj23"
	case 8:
		vb := &VoteSetBitsMessage{Height: c15U64(r), Round: c15U32(r), Type: kproto.SignedMsgType(1 + r.Intn(2)), BlockID: c15BlockID(r, r.Intn(2))}
		if !r.Chance(1, 5) { // the array may be absent ("the node does not have any")
			vb.Votes = c15Bits(r, types.MaxVotesCount)
		}
		if bad {
			switch r.Intn(3) {
			case 0:
				vb.Type = kproto.SignedMsgType(r.Intn(40))
			case 1:
				vb.Votes = &common.BitArray{Bits: uint(1 + r.Intn(64)), Elems: []uint64{1, 2}}
			default:
				vb.BlockID = c15BlockID(r, 2)
			}
		}
		m, kind = vb, "votesetbits"
	case 0:
		v := &types.Vote{ValidatorIndex: c15U32(r), Height: c15U64(r), Round: c15U32(r), Timestamp: c15Time(r),
			Type: kproto.SignedMsgType(1 + r.Intn(2)), Signature: c15Sig(r, bad)}
		copy(v.ValidatorAddress[:], r.Bytes(20))
		if r.Chance(1, 4) {
			v.BlockID = c15BlockID(r, 0)
		} else {
			v.BlockID = c15BlockID(r, 1)
		}
		if bad {
			switch r.Intn(3) {
			case 0:
				v.Type = kproto.SignedMsgType(r.Intn(40))
			case 1:
				v.BlockID = c15BlockID(r, 2)
			}
		}
		m, kind = &VoteMessage{Vote: v}, "vote"
	case 1:
		p := &types.Proposal{Height: c15U64(r), Round: c15U32(r), POLRound: c15U32(r), Timestamp: c15Time(r),
			POLBlockID: c15BlockID(r, 1), Signature: c15Sig(r, bad)}
		if bad && r.Bool() {
			p.POLBlockID = c15BlockID(r, 2)
		}
		m, kind = &ProposalMessage{Proposal: p}, "proposal"
	case 2:
		n := r.Intn(60)
		if g.bigBytes > 0 && r.Chance(1, 2) {
			n = r.Intn(g.bigBytes)
		}
		var data []byte
		switch r.Pick(3, 1, 1) {
		case 0:
			data = r.Bytes(n)
		case 1:
			data = bytes.Repeat([]byte{byte(r.Intn(256))}, n)
		default:
			data = make([]byte, n) // zeros
		}
		part := &types.Part{Index: c15U32(r), Bytes: data}
		part.Proof = merkle.SimpleProof{Total: c15U64(r), Index: c15U64(r), LeafHash: r.Bytes(32)}
		for i := r.Intn(4); i > 0; i-- {
			part.Proof.Aunts = append(part.Proof.Aunts, r.Bytes(32))
		}
		if bad {
			if r.Bool() {
				part.Proof.LeafHash = r.Bytes(r.Intn(32))
			} else {
				part.Proof.Aunts = append(part.Proof.Aunts, r.Bytes(r.Intn(32)))
			}
		}
		m, kind = &BlockPartMessage{Height: c15U64(r), Round: c15U32(r), Part: part}, "blockpart"
	case 3:
		hv := &HasVoteMessage{Height: c15U64(r), Round: c15U32(r), Type: kproto.SignedMsgType(1 + r.Intn(2)), Index: c15U32(r)}
		if bad {
			hv.Type = kproto.SignedMsgType(r.Intn(40))
		}
		m, kind = hv, "hasvote"
	default:
		ns := &NewRoundStepMessage{Height: c15U64(r), Round: c15U32(r), Step: cstypes.RoundStepType(1 + r.Intn(8)),
			SecondsSinceStartTime: r.U64() >> 20, LastCommitRound: c15U32(r)}
		if bad {
			ns.Step = cstypes.RoundStepType(r.Intn(256))
		}
		m, kind = ns, "newroundstep"
	}
	return msgInfo{Msg: m, PeerID: p2p.ID(peer)}, c15Valid(m), kind
}

// the package's own validity conditions for a consensus message to be read back from protobuf
func c15Valid(m Message) bool {
	switch v := m.(type) {
	case *VoteMessage:
		return v.Vote.ValidateBasic() == nil
	case *ProposalMessage:
		return v.Proposal.ValidateBasic() == nil
	case *BlockPartMessage:
		return v.Part.ValidateBasic() == nil && v.Part.Proof.ValidateBasic() == nil
	}
	return m.ValidateBasic() == nil
}

// ---------------------------------------------------------------- payload table (the model's deser/ser/end_height)

type c15Entry struct {
	ok     bool
	digest string
	reser  []byte
	eh     *int64
	panics bool
}

// the real unmarshal path of Decode, applied to a payload directly
func c15Deser(p []byte) (e c15Entry) {
	defer func() {
		if x := recover(); x != nil {
			e = c15Entry{panics: true}
		}
	}()
	var res kcons.TimedWALMessage
	if err := proto.Unmarshal(p, &res); err != nil {
		return c15Entry{}
	}
	wm, err := WALFromProto(res.Msg)
	if err != nil {
		return c15Entry{}
	}
	e.ok = true
	e.digest = c15Digest(c15Render(wm, res.Time))
	if eh, ok := wm.(EndHeightMessage); ok {
		h := eh.Height
		e.eh = &h
	}
	pb, err := WALToProto(wm)
	if err == nil {
		e.reser, _ = proto.Marshal(&kcons.TimedWALMessage{Time: res.Time, Msg: pb})
	}
	return e
}

// ---------------------------------------------------------------- classification of Decode results

func c15Class(err error) string {
	if err == io.EOF {
		return "eof"
	}
	dce, ok := err.(DataCorruptionError)
	if !ok {
		return "err?"
	}
	s := dce.Cause().Error()
	switch {
	case strings.HasPrefix(s, "failed to read checksum"):
		return "c:crcread"
	case strings.HasPrefix(s, "failed to read length"):
		return "c:lenread"
	case strings.HasPrefix(s, "length "):
		return "c:toobig"
	case strings.HasPrefix(s, "failed to read data"):
		return "c:dataread"
	case strings.HasPrefix(s, "checksums do not match"):
		return "c:crc"
	case strings.HasPrefix(s, "failed to decode data"), strings.HasPrefix(s, "failed to convert from proto"):
		return "c:decode"
	}
	return "c:?"
}

func c15DecodeOne(dec *WALDecoder) (tok string) {
	defer func() {
		if x := recover(); x != nil {
			tok = "PANIC"
		}
	}()
	m, err := dec.Decode()
	if err != nil {
		return c15Class(err)
	}
	return "m:" + c15Digest(c15Render(m.Msg, m.Time))
}

// set when a Decode call was seen to allocate far more than the message size limit: the rest of
// the run is cut short (every further damaged length field would cost gigabytes again)
var c15Abort bool

const c15AllocSlack = 64 << 20

// decodes until eof (cont) or the first error; returns the observable tokens.  A Decode call that
// takes suspiciously long is checked against the allocation counter.
func c15DecodeAll(rd io.Reader, cont bool) []string {
	dec := NewWALDecoder(rd)
	var toks []string
	var before, after runtime.MemStats
	runtime.ReadMemStats(&before)
	for i := 0; ; i++ {
		if i > 200000 {
			toks = append(toks, "LOOP")
			break
		}
		t0 := time.Now()
		t := c15DecodeOne(dec)
		if time.Since(t0) > 40*time.Millisecond {
			runtime.ReadMemStats(&after)
			if after.TotalAlloc-before.TotalAlloc > uint64(i+1)*uint64(4*maxMsgSizeBytes)+c15AllocSlack {
				toks = append(toks, "ALLOC")
				c15Abort = true
				break
			}
		}
		toks = append(toks, t)
		if t == "eof" || t == "PANIC" || t == "err?" {
			break
		}
		if strings.HasPrefix(t, "c:") && !cont {
			break
		}
	}
	return toks
}

// ---------------------------------------------------------------- edits of the byte stream

type c15Edit struct {
	kind string // t b e a i d
	off  int
	n    int
	data []byte
}

func (e c15Edit) String() string {
	switch e.kind {
	case "t":
		return fmt.Sprintf("t %d", e.off)
	case "b":
		return fmt.Sprintf("b %d", e.off)
	case "e":
		return fmt.Sprintf("e %d %s", e.off, c15Hex(e.data))
	case "a":
		return fmt.Sprintf("a %s", c15Tok(e.data))
	case "i":
		return fmt.Sprintf("i %d %s", e.off, c15Hex(e.data))
	case "d":
		return fmt.Sprintf("d %d %d", e.off, e.n)
	}
	return "?"
}

func c15Apply(base []byte, eds []c15Edit) []byte {
	b := append([]byte(nil), base...)
	for _, e := range eds {
		switch e.kind {
		case "t":
			if e.off < len(b) {
				b = b[:e.off]
			}
		case "b":
			if e.off/8 < len(b) {
				b[e.off/8] ^= 1 << uint(e.off%8)
			}
		case "e":
			for i, x := range e.data {
				if e.off+i < len(b) {
					b[e.off+i] = x
				}
			}
		case "a":
			b = append(b, e.data...)
		case "i":
			o := e.off
			if o > len(b) {
				o = len(b)
			}
			nb := append([]byte(nil), b[:o]...)
			nb = append(nb, e.data...)
			b = append(nb, b[o:]...)
		case "d":
			o := e.off
			if o > len(b) {
				o = len(b)
			}
			end := o + e.n
			if end > len(b) {
				end = len(b)
			}
			b = append(append([]byte(nil), b[:o]...), b[end:]...)
		}
	}
	return b
}

func c15EditsStr(eds []c15Edit) string {
	s := make([]string, len(eds))
	for i, e := range eds {
		s[i] = e.String()
	}
	return strings.Join(s, " ")
}

// ---------------------------------------------------------------- one case

type c15Tee struct {
	w      io.Writer
	frames *[][]byte
}

func (t *c15Tee) Write(p []byte) (int, error) {
	*t.frames = append(*t.frames, append([]byte(nil), p...))
	return t.w.Write(p)
}

type c15Written struct {
	payload []byte
	digest  string // expected observable when this frame is decoded: digest or "ERR"
	eh      *int64
	valid   bool
}

type c15Case struct {
	o      *c15Out
	r      *c15Rand
	idx    int
	tmp    string
	nvar   int
	step   int
	table  map[string]c15Entry
	tabOrd []string
	lines  [][2]string // buffered (input, observed); observed "" = InOnly
	wr     []c15Written
	// the snapshot the corruption phase works on
	sizes []int // sizes of the files of the snapshot (rotated..., head)
	base  []byte
	exp   []c15Written // frames wholly inside base, in order
	whole bool         // base ends at a frame boundary
	// index in exp of the first frame of each file of the snapshot
	fileStart  []int
	forceSmall bool
	mono       bool // the positive end-height markers of exp increase strictly
	decodable  bool // every frame of exp reads back
}

func (c *c15Case) addEntry(p []byte) c15Entry {
	k := string(p)
	if e, ok := c.table[k]; ok {
		return e
	}
	e := c15Deser(p)
	if e.panics {
		c.o.Fail(c.step, "panic-unmarshal", "payload="+c15FP(p))
	}
	c.table[k] = e
	c.tabOrd = append(c.tabOrd, k)
	if e.ok && !bytes.Equal(e.reser, p) {
		c.addEntry(e.reser) // repairWalFile writes the re-marshalled payload: the second pass reads that one
	}
	return e
}

func (c *c15Case) op(in, obs string) { c.step++; c.lines = append(c.lines, [2]string{in, obs}) }

func (c *c15Case) emit(header string) {
	c.o.Case(c.idx, header)
	for _, k := range c.tabOrd {
		e := c.table[k]
		p := []byte(k)
		if !e.ok {
			c.o.InOnly(fmt.Sprintf("P %s ERR - -", c15Tok(p)))
			continue
		}
		rs := "="
		if !bytes.Equal(e.reser, p) {
			rs = c15Tok(e.reser)
		}
		eh := "-"
		if e.eh != nil {
			eh = fmt.Sprint(*e.eh)
		}
		c.o.InOnly(fmt.Sprintf("P %s %s %s %s", c15Tok(p), e.digest, rs, eh))
	}
	for _, l := range c.lines {
		if l[1] == "" {
			c.o.InOnly(l[0])
		} else {
			c.o.Op(l[0], l[1])
		}
	}
}

func c15WriteClass(err error) string {
	if err == nil {
		return "ok"
	}
	if strings.HasPrefix(err.Error(), "msg is too big") {
		return "toobig"
	}
	return "err?"
}

func c15GroupObs(g *auto.Group) string {
	sz, err := g.Head.Size()
	if err != nil {
		sz = -1
	}
	return fmt.Sprintf("%d %d", g.MaxIndex(), sz)
}

// the rotated files that exist on disk (own directory scan, independent of readGroupInfo): sorted indices and sizes
func c15DirScan(head string) (idx []int, size map[int]int64, headSize int64) {
	size = map[int]int64{}
	ents, _ := os.ReadDir(filepath.Dir(head))
	base := filepath.Base(head)
	for _, e := range ents {
		fi, err := e.Info()
		if err != nil {
			continue
		}
		if e.Name() == base {
			headSize = fi.Size()
			continue
		}
		var i int
		if n, _ := fmt.Sscanf(strings.TrimPrefix(e.Name(), base+"."), "%d", &i); n == 1 && e.Name() == fmt.Sprintf("%s.%03d", base, i) {
			idx = append(idx, i)
			size[i] = fi.Size()
		}
	}
	sort.Ints(idx)
	return
}

// the files of the group from the oldest one that still exists to the head; first = index of the first one
func c15ReadGroupFiles(head string, maxIndex int) (files [][]byte, first int) {
	idx, _, _ := c15DirScan(head)
	first = maxIndex
	if len(idx) > 0 {
		first = idx[0]
	}
	for i := first; i < maxIndex; i++ {
		b, _ := os.ReadFile(fmt.Sprintf("%s.%03d", head, i))
		files = append(files, b)
	}
	b, _ := os.ReadFile(head)
	files = append(files, b)
	return files, first
}

// materialises a byte stream as a file group with the given file sizes (the head takes the rest)
func c15WriteGroup(dir string, sizes []int, data []byte) string {
	os.MkdirAll(dir, 0o700)
	head := filepath.Join(dir, "wal")
	off := 0
	for i := 0; i < len(sizes)-1; i++ {
		end := off + sizes[i]
		if end > len(data) {
			end = len(data)
		}
		if off > len(data) {
			off = len(data)
		}
		os.WriteFile(fmt.Sprintf("%s.%03d", head, i), data[off:end], 0o600)
		off = end
	}
	if off > len(data) {
		off = len(data)
	}
	os.WriteFile(head, data[off:], 0o600)
	return head
}

// ---------------------------------------------------------------- direct oracles

// checks a decode sequence against the frames that were written at these positions.
// strict: the bytes are exactly whole written frames (every frame must come back, then eof).
func (c *c15Case) checkSeq(what string, toks []string, exp []c15Written, cont, strict bool) {
	pos := 0
	for i, t := range toks {
		switch {
		case t == "PANIC":
			c.o.Fail(c.step, "panic-decode", what)
			return
		case t == "ALLOC":
			c.o.Fail(c.step, "allocation-above-limit", what+": a Decode call allocated far more than maxMsgSizeBytes")
			return
		case t == "LOOP" || t == "err?" || t == "c:?":
			c.o.Fail(c.step, "unclassified-result", what+" tok="+t)
			return
		case strings.HasPrefix(t, "m:"):
			d := t[2:]
			if !cont {
				if pos >= len(exp) || exp[pos].digest != d {
					c.o.Fail(c.step, "different-message", fmt.Sprintf("%s decode#%d returned a message that was not written at that position", what, i))
					return
				}
				pos++
			} else {
				for pos < len(exp) && exp[pos].digest != d {
					pos++
				}
				if pos >= len(exp) {
					c.o.Fail(c.step, "different-message", fmt.Sprintf("%s decode#%d (ignore mode) returned a message that was not written", what, i))
					return
				}
				pos++
			}
		case strings.HasPrefix(t, "c:"):
			if strict {
				// only a written frame that the validators reject may fail, and only as a decode error
				if pos >= len(exp) || exp[pos].digest != "ERR" || t != "c:decode" {
					c.o.Fail(c.step, "valid-log-reported-corrupt", fmt.Sprintf("%s decode#%d=%s", what, i, t))
					return
				}
				pos++
			}
		case t == "eof":
			if strict && pos != len(exp) {
				c.o.Fail(c.step, "messages-lost", fmt.Sprintf("%s eof after %d of %d frames", what, pos, len(exp)))
				return
			}
		}
	}
	if strict {
		last := toks[len(toks)-1]
		if last != "eof" && cont {
			c.o.Fail(c.step, "no-eof", what)
		}
	}
}

// independent re-statement of "longest valid prefix" (io.ReadFull semantics, stdlib CRC)
func (c *c15Case) specRepair(b []byte) (out []byte, off int) {
	for {
		if len(b)-off < 8 {
			return
		}
		crc := binary.BigEndian.Uint32(b[off:])
		ln := int(binary.BigEndian.Uint32(b[off+4:]))
		if ln > maxMsgSizeBytes || off+8+ln > len(b) {
			return
		}
		p := b[off+8 : off+8+ln]
		if crc32.Checksum(p, c15Castagnoli) != crc {
			return
		}
		e, ok := c.table[string(p)]
		if !ok {
			e = c.addEntry(p)
		}
		if !e.ok {
			return
		}
		out = append(out, c15Frame(e.reser)...)
		off += 8 + ln
	}
}

// ---------------------------------------------------------------- the test

func TestVerifC15(t *testing.T) {
	if *c15Facts != "" {
		tmp, _ := os.MkdirTemp("", "c15facts")
		defer os.RemoveAll(tmp)
		g, err := auto.OpenGroup(filepath.Join(tmp, "wal"))
		if err != nil {
			t.Fatal(err)
		}
		body := "(* GENERATED from /repo's working tree by the harness (-facts); do not edit. *)\n" +
			"From Coq Require Import NArith.\n" +
			fmt.Sprintf("Definition max_msg_size_bytes : N := %d%%N.\n", maxMsgSizeBytes) +
			fmt.Sprintf("Definition head_buf_size : N := %d%%N.\n", g.VerifHeadBufSize()) +
			fmt.Sprintf("Definition max_files_to_remove : N := %d%%N.\n", auto.VerifMaxFilesToRemove())
		g.Close()
		g.Head.Close()
		if err := os.WriteFile(*c15Facts, []byte(body), 0o644); err != nil {
			t.Fatal(err)
		}
		return
	}
	if *c15Dir == "" {
		t.Skip("-out required")
	}
	o := c15Open(*c15Dir)
	o.Rule = "per case: random WAL messages of all kinds written through the real BaseWAL (Write/WriteSync, head-size ticks, flushes); " +
		"then GroupReader/os.File decodes, SearchForEndHeight and repairWalFile on the written bytes and on truncated / bit-flipped / " +
		"length-edited / spliced / garbage-extended copies (exhaustive offsets for small logs)"
	// WAL files of the cases: $TMPDIR if set, else /dev/shm (fsync-heavy: tmpfs is ~3x faster), else the -out directory
	scratch := *c15Dir
	if d := os.Getenv("TMPDIR"); d != "" {
		scratch = d
	} else if st, err := os.Stat("/dev/shm"); err == nil && st.IsDir() {
		scratch = "/dev/shm"
	}
	tmp, err := os.MkdirTemp(scratch, "verif_c15_wal")
	if err != nil {
		tmp, err = os.MkdirTemp(*c15Dir, "wal")
	}
	if err != nil {
		t.Fatal(err)
	}
	defer os.RemoveAll(tmp)
	root := c15NewRand(*c15Seed)
	for i := 0; i < *c15N; i++ {
		if *c15Only >= 0 && *c15Only != i {
			continue
		}
		c := &c15Case{o: o, r: root.Fork(uint64(i)), idx: i, tmp: filepath.Join(tmp, fmt.Sprintf("c%d", i)), table: map[string]c15Entry{}}
		o.curCase = i // oracle lines are written while the case runs, its trace is emitted at the end
		func() {
			// a panic out of the WAL / group code (or of the harness) must not lose the oracle lines written so far
			defer func() {
				if x := recover(); x != nil {
					o.Fail(c.step, "panic", fmt.Sprintf("%v", x))
					c.emit(fmt.Sprintf("CASE %d 0 0", c.idx))
					c15Abort = true
				}
			}()
			c.run(*c15Tier)
		}()
		os.RemoveAll(c.tmp)
		if c15Abort {
			break
		}
	}
	o.Close(*c15Seed)
}

func (c *c15Case) run(tier string) {
	r, o := c.r, c.o
	profile := r.Pick(50, 36, 14)
	if c.idx%41 == 7 {
		profile = 3 // megabyte-sized frames at the message size limit
	}
	c.forceSmall = c.idx%16 == 3 // a short log on which every single bit is flipped
	if c.forceSmall {
		profile = 0
	}
	c.addEntry(nil) // the empty payload (zero length field): what the real unmarshal path says about it
	pname := []string{"small", "medium", "big", "maxsize"}[profile]
	o.Count("profile:" + pname)
	var limit int64
	switch r.Pick(3, 5, 1, 1) {
	case 0:
		limit = 0
	case 1:
		limit = int64(40 + r.Intn(700))
		if profile >= 2 {
			limit = int64(1000 + r.Intn(200000))
		}
	case 2:
		limit = -1
	default:
		limit = 1 << 40
	}
	os.MkdirAll(c.tmp, 0o700)
	walPath := filepath.Join(c.tmp, "live", "wal")
	wal, err := NewWAL(walPath, auto.GroupHeadSizeLimit(limit), auto.GroupCheckDuration(time.Hour))
	if err != nil {
		o.Fail(0, "harness-newwal", err.Error())
		return
	}
	grp := wal.Group()
	bufcap := grp.VerifHeadBufSize()
	var frames [][]byte
	wal.enc = NewWALEncoder(&c15Tee{w: grp, frames: &frames})

	g := &c15Gen{r: r, nextH: int64(r.Intn(3)), allowBad: r.Chance(1, 3), zeroTails: r.Chance(1, 5)}
	nmsg := 0
	switch profile {
	case 0:
		nmsg = 1 + r.Intn(4)
		if c.forceSmall {
			nmsg = 1 + r.Intn(3)
		}
	case 1:
		nmsg = 4 + r.Intn(30)
	case 2:
		nmsg = 3 + r.Intn(12)
		g.bigBytes = 65536
	case 3:
		nmsg = 3 + r.Intn(2)
	}
	total := 0
	tick := func() {
		func() {
			defer func() {
				if x := recover(); x != nil {
					o.Fail(c.step, "panic-rotate", fmt.Sprint(x))
				}
			}()
			grp.VerifCheckHeadSizeLimit()
		}()
		c.op("T", "t "+c15GroupObs(grp))
	}
	flushed := true
	started := false
	restarts := 0
	curLimit := limit
	// Stop the WAL and start a new BaseWAL on the same files, as a node restart does: the real Start
	// runs OnStart, which writes EndHeightMessage{0} with WriteSync whenever the head file is empty.
	restart := func() {
		if started {
			wal.Stop()
		} else {
			grp.FlushAndSync()
			grp.Close()
		}
		grp.Head.Close()
		headBefore := int64(-1)
		if st, err := os.Stat(walPath); err == nil {
			headBefore = st.Size()
		}
		nw, err := NewWAL(walPath, auto.GroupHeadSizeLimit(curLimit), auto.GroupCheckDuration(time.Hour))
		if err != nil {
			o.Fail(c.step, "harness-newwal", err.Error())
			return
		}
		wal = nw
		grp = wal.Group()
		wal.enc = NewWALEncoder(&c15Tee{w: grp, frames: &frames})
		wal.SetFlushInterval(time.Hour)
		nf := len(frames)
		serr := wal.Start()
		started = true
		restarts++
		cls := "ok"
		if serr != nil {
			cls = "err?"
			o.Fail(c.step, "start-error", serr.Error())
		}
		// direct oracle: the height-0 marker that catchupReplay looks for at the initial height is written
		// exactly when the head file is empty (first start, or the head was rotated away), never otherwise
		if headBefore == 0 && len(frames) == nf {
			o.Fail(c.step, "start-marker-missing", fmt.Sprintf("Start on an empty head file (max index %d) wrote no #ENDHEIGHT 0", wal.Group().MaxIndex()))
		}
		if headBefore > 0 && len(frames) != nf {
			o.Fail(c.step, "start-marker-on-nonempty-head", fmt.Sprintf("Start wrote %d frame(s) into a head of %d bytes", len(frames)-nf, headBefore))
		}
		var payload []byte
		if len(frames) == nf+1 && len(frames[nf]) >= 8 {
			payload = frames[nf][8:]
			e := c.addEntry(payload)
			w := c15Written{payload: payload, valid: true, eh: e.eh, digest: "ERR"}
			if e.ok {
				w.digest = e.digest
			}
			if e.eh == nil || *e.eh != 0 {
				o.Fail(c.step, "start-marker", "OnStart wrote something that is not EndHeightMessage{0}")
			}
			c.wr = append(c.wr, w)
			if g.nextH < 1 {
				g.nextH = 1
			}
			o.Count("restart:marker-written")
			if grp.MaxIndex() > 0 {
				o.Mark("restart-on-rotated-empty-head")
			}
		} else {
			pb, _ := WALToProto(EndHeightMessage{0})
			payload, _ = proto.Marshal(&kcons.TimedWALMessage{Time: time.Now().UTC(), Msg: pb})
			o.Count("restart:head-not-empty")
		}
		flushed = true
		c.op("RS "+c15Tok(payload), "rs "+cls+" "+c15GroupObs(grp))
	}
	// what AutoFile's close ticker does: the head file is closed under the writer and re-opened (O_APPEND) by the next use
	closeHead := func() {
		if err := grp.VerifCloseHeadFile(); err != nil {
			o.Fail(c.step, "harness-closehead", err.Error())
		}
		o.Count("op:head-file-closed")
		c.op("K", "k "+c15GroupObs(grp))
	}
	// the ticker's second check: checkTotalSizeLimit with a limit at / around the current total, a fraction of it, 0 or negative
	prunedBytes := int64(0)
	prune := func() {
		idx, size, headSize := c15DirScan(walPath)
		total := headSize
		for _, i := range idx {
			total += size[i]
		}
		var tl int64
		switch r.Pick(4, 4, 3, 1, 1) {
		case 0:
			tl = total + int64(r.Intn(3)-1)
		case 1:
			tl = total/2 + int64(r.Intn(3)-1)
		case 2:
			tl = 1 + int64(r.Intn(int(total)+2))
		case 3:
			tl = 0
		default:
			tl = -1 - int64(r.Intn(3))
		}
		grp.VerifSetTotalSizeLimit(tl)
		func() {
			defer func() {
				if x := recover(); x != nil {
					o.Fail(c.step, "panic-prune", fmt.Sprint(x))
				}
			}()
			grp.VerifCheckTotalSizeLimit()
		}()
		idx2, size2, headSize2 := c15DirScan(walPath)
		// direct oracle (independent re-statement): the oldest rotated files go while the total is at or above the
		// limit, at most maxFilesToRemove per tick; the head is never touched; a limit of 0 switches it off
		k := 0
		rem := total
		if tl != 0 {
			for k < auto.VerifMaxFilesToRemove() && k < len(idx) && rem >= tl {
				rem -= size[idx[k]]
				k++
			}
		}
		okp := len(idx2) == len(idx)-k && headSize2 == headSize
		for j := 0; okp && j < len(idx2); j++ {
			okp = idx2[j] == idx[k+j] && size2[idx2[j]] == size[idx[k+j]]
		}
		if _, err := os.Stat(walPath); err != nil {
			o.Fail(c.step, "prune-removed-head", "")
		}
		if !okp {
			o.Fail(c.step, "prune", fmt.Sprintf("limit=%d total=%d rotated before=%v after=%v expected %d oldest removed (head %d -> %d)", tl, total, idx, idx2, k, headSize, headSize2))
		}
		still := map[int]bool{}
		for _, i := range idx2 {
			still[i] = true
		}
		for _, i := range idx { // what is really gone (the expectation is k oldest files)
			if !still[i] {
				prunedBytes += size[i]
			}
		}
		if k > 0 {
			o.Count("op:prune-removed")
			o.Mark(fmt.Sprintf("prune-removed:%d", k))
			if k == len(idx) {
				o.Mark("prune-left-only-head")
			}
		} else {
			o.Count("op:prune-nothing")
		}
		total2 := headSize2
		for _, i := range idx2 {
			total2 += size2[i]
		}
		c.op(fmt.Sprintf("C %d", tl), fmt.Sprintf("c %d %d %d", len(idx2), grp.MaxIndex(), total2))
	}
	pruning := profile != 3 && r.Chance(1, 3)
	if profile != 3 && r.Chance(1, 2) {
		restart() // the very first start: marker 0 into the empty head
	}
	for k := 0; k < nmsg; k++ {
		if r.Chance(3, 10) {
			tick()
			if sz, _ := grp.Head.Size(); sz == 0 && grp.MaxIndex() > 0 && grp.Buffered() == 0 && r.Chance(1, 2) {
				restart() // the head was rotated away and is empty: the restart marker lands in the newest file
			}
		}
		if profile != 3 && r.Chance(1, 12) {
			restart()
		}
		if r.Chance(1, 10) {
			closeHead()
		}
		if pruning && r.Chance(1, 4) {
			if r.Bool() {
				tick()
			}
			prune()
			if r.Chance(1, 3) {
				restart() // OpenGroup takes the indices from what is left in the directory
			}
		}
		var m WALMessage
		var valid bool
		var kind string
		direct := false
		var fixedT time.Time
		bufEdge := profile == 2 && r.Chance(1, 4)
		if (profile == 3 && (k == 1 || k == 2 || r.Chance(1, 3))) || bufEdge {
			// message size boundary: a vote whose signature length puts the payload at max-1, max, max+1, or far above
			// (every such case has one message of exactly the maximum and one a byte above it);
			// write-buffer boundary: a frame that exactly fills what is left of the group's bufio buffer, or the whole buffer, +-1
			v := &types.Vote{ValidatorIndex: 1, Height: 5, Round: 0, Timestamp: time.Unix(1600000000, 0).UTC(), Type: kproto.PrevoteType,
				BlockID: c15BlockID(r, 1), Signature: []byte{1}}
			m = msgInfo{Msg: &VoteMessage{Vote: v}, PeerID: ""}
			fixedT = time.Unix(1600000000, 5).UTC()
			size := func() int {
				pb, _ := WALToProto(m)
				b, _ := proto.Marshal(&kcons.TimedWALMessage{Time: fixedT, Msg: pb})
				return len(b)
			}
			target := maxMsgSizeBytes + []int{-1, 0, 1, 700}[r.Pick(2, 4, 4, 1)]
			switch {
			case bufEdge:
				d := r.Intn(3) - 1
				if avail := bufcap - grp.Buffered(); r.Bool() && avail-8+d > size() {
					target = avail - 8 + d
					kind = fmt.Sprintf("vote-frame-fills-buffer-rest%+d", d)
				} else {
					target = bufcap - 8 + d
					kind = fmt.Sprintf("vote-frame-fills-buffer%+d", d)
				}
			case k == 1:
				target = maxMsgSizeBytes
			case k == 2:
				target = maxMsgSizeBytes + 1
			}
			if !bufEdge {
				kind = fmt.Sprintf("vote-size-max%+d", target-maxMsgSizeBytes)
			}
			v.Signature = bytes.Repeat([]byte{0xab}, target-size())
			for s := size(); s != target; s = size() {
				v.Signature = bytes.Repeat([]byte{0xab}, len(v.Signature)+target-s)
			}
			valid, direct = true, true
			o.Mark(kind)
		} else {
			m, valid, kind = g.msg()
		}
		o.Count("msg:" + kind)
		if !valid {
			o.Count("msg-rejected-by-validators")
		}
		nf := len(frames)
		var werr error
		opc := "W"
		func() {
			defer func() {
				if x := recover(); x != nil {
					werr = fmt.Errorf("PANIC %v", x)
				}
			}()
			switch {
			case direct:
				opc = "E"
				werr = wal.enc.Encode(&TimedWALMessage{fixedT, m})
				flushed = false
			case r.Chance(1, 3):
				opc = "S"
				werr = wal.WriteSync(m)
				flushed = true
			default:
				werr = wal.Write(m)
				flushed = false
			}
		}()
		cls := c15WriteClass(werr)
		var payload []byte
		if len(frames) == nf+1 {
			fr := frames[nf]
			if len(fr) < 8 {
				o.Fail(c.step, "short-frame-written", "")
				return
			}
			payload = fr[8:]
			// direct oracle on the encoder: crc | length | payload, with the stdlib CRC
			if !bytes.Equal(fr, c15Frame(payload)) {
				o.Fail(c.step, "frame-format", "written frame is not be32(crc32c)|be32(len)|payload: "+c15FP(fr[:8]))
			}
			if len(payload) > maxMsgSizeBytes {
				o.Fail(c.step, "oversize-written", fmt.Sprint(len(payload)))
			}
			total += len(fr)
		} else {
			// nothing reached the group: the model only needs a payload of the same size
			tm := time.Now().UTC()
			if direct {
				tm = fixedT
			}
			pb, _ := WALToProto(m)
			payload, _ = proto.Marshal(&kcons.TimedWALMessage{Time: tm, Msg: pb})
			if cls == "ok" {
				o.Fail(c.step, "write-lost", "Write returned nil but wrote nothing")
			}
			if len(payload) <= maxMsgSizeBytes-16 && cls == "toobig" {
				o.Fail(c.step, "small-message-refused", fmt.Sprint(len(payload)))
			}
			if direct && len(payload) <= maxMsgSizeBytes && cls == "toobig" {
				o.Fail(c.step, "size-limit-too-strict", fmt.Sprintf("Encode refused a payload of %d bytes (limit %d)", len(payload), maxMsgSizeBytes))
			}
			if direct && len(payload) > maxMsgSizeBytes && cls != "toobig" {
				o.Fail(c.step, "oversize-not-refused", fmt.Sprintf("Encode accepted a payload of %d bytes (limit %d)", len(payload), maxMsgSizeBytes))
			}
		}
		if strings.HasPrefix(cls, "err") {
			o.Fail(c.step, "write-error", fmt.Sprint(werr))
		}
		if cls == "ok" {
			e := c.addEntry(payload)
			w := c15Written{payload: payload, valid: valid, eh: e.eh}
			if e.ok {
				w.digest = e.digest
			} else {
				w.digest = "ERR"
			}
			// direct oracle: what the payload decodes to is the message that was written (rendered independently)
			var res kcons.TimedWALMessage
			if err := proto.Unmarshal(payload, &res); err == nil {
				want := c15Digest(c15Render(m, res.Time))
				if valid && (!e.ok || e.digest != want) {
					o.Fail(c.step, "roundtrip", fmt.Sprintf("kind=%s valid message does not read back unchanged (decodable=%v)", kind, e.ok))
				}
				if !valid && e.ok && e.digest != want {
					o.Fail(c.step, "roundtrip-changed", "kind="+kind)
				}
				if valid && e.ok && !bytes.Equal(e.reser, payload) {
					o.Fail(c.step, "reencode-differs", "kind="+kind)
				}
			} else if valid {
				o.Fail(c.step, "roundtrip", "kind="+kind+" written payload does not unmarshal: "+err.Error())
			}
			c.wr = append(c.wr, w)
		}
		c.op(opc+" "+c15Tok(payload), "w "+cls+" "+c15GroupObs(grp))
		if r.Chance(1, 10) {
			grp.FlushAndSync()
			flushed = true
			c.op("F", "f "+c15GroupObs(grp))
		}
		if r.Chance(1, 4) {
			tick()
		}
		if r.Chance(1, 6) {
			// head-size boundary: limit := size of the head file on disk, -1, +1; then the ticker's check
			grp.FlushAndSync()
			flushed = true
			c.op("F", "f "+c15GroupObs(grp))
			sz, _ := grp.Head.Size()
			d := int64(r.Intn(3) - 1)
			nl := sz + d
			if nl == 0 {
				nl = 1
			}
			grp.VerifSetHeadSizeLimit(nl)
			curLimit = nl
			c.op(fmt.Sprintf("L %d", nl), "")
			before := grp.MaxIndex()
			tick()
			rotated := grp.MaxIndex() != before
			// direct oracle: rotate iff size >= limit
			if rotated != (sz >= nl) {
				o.Fail(c.step, "head-size-limit", fmt.Sprintf("size=%d limit=%d rotated=%v", sz, nl, rotated))
			}
			o.Mark(fmt.Sprintf("limit-boundary:%+d", d))
		}
		if r.Chance(1, 25) {
			func() {
				defer func() {
					if x := recover(); x != nil {
						o.Fail(c.step, "panic-rotate", fmt.Sprint(x))
					}
				}()
				grp.RotateFile()
			}()
			flushed = true
			c.op("R", "r "+c15GroupObs(grp))
		}
	}
	if profile != 3 {
		if sz, _ := grp.Head.Size(); sz == 0 && grp.MaxIndex() > 0 && grp.Buffered() == 0 && r.Chance(2, 3) {
			restart()
		}
	}
	if r.Chance(4, 5) && !flushed {
		grp.FlushAndSync()
		flushed = true
		c.op("F", "f "+c15GroupObs(grp))
	}
	if flushed {
		o.Count("end:flushed")
	} else {
		o.Count("end:unflushed")
	}

	// ---- snapshot of the files on disk
	if pruning && r.Chance(1, 2) {
		prune()
		if r.Chance(1, 3) {
			restart()
		}
	}
	files, firstIdx := c15ReadGroupFiles(walPath, grp.MaxIndex())
	if firstIdx > 0 {
		o.Mark("oldest-file-index>0")
	}
	fps := make([]string, len(files))
	c.sizes = nil
	c.base = nil
	for i, f := range files {
		fps[i] = c15FP(f)
		c.sizes = append(c.sizes, len(f))
		c.base = append(c.base, f...)
	}
	c.op("G", fmt.Sprintf("g %d %s", len(files), strings.Join(fps, " ")))
	if len(files) > 1 {
		o.Mark(fmt.Sprintf("rotated-files:%d", minInt(len(files), 6)))
	}
	// direct oracle: the disk holds a prefix of the frames written (minus the whole oldest records whose files were
	// pruned), every rotated file ends at a record boundary
	var all []byte
	bound := map[int]bool{0: true}
	for _, w := range c.wr {
		all = append(all, c15Frame(w.payload)...)
		bound[len(all)] = true
	}
	if prunedBytes > int64(len(all)) || !bound[int(prunedBytes)] {
		o.Fail(c.step, "prune-inside-record", fmt.Sprintf("%d bytes pruned of %d written", prunedBytes, len(all)))
		prunedBytes = 0
	}
	all = all[prunedBytes:]
	kept := c.wr
	for a := int64(0); a < prunedBytes && len(kept) > 0; kept = kept[1:] {
		a += int64(8 + len(kept[0].payload))
	}
	if prunedBytes > 0 {
		o.Count("end:records-pruned")
	}
	if !bytes.HasPrefix(all, c.base) {
		o.Fail(c.step, "disk-not-prefix-of-written", "")
	}
	if flushed && len(all) != len(c.base) {
		o.Fail(c.step, "flushed-bytes-missing", fmt.Sprintf("%d of %d", len(c.base), len(all)))
	}
	off := 0
	fileStart := make([]int, len(files)) // index (in the kept records) of the first frame of each file
	for i, f := range files {
		if !bound[off+int(prunedBytes)] {
			o.Fail(c.step, "rotation-inside-record", fmt.Sprintf("file %d starts at offset %d", i, off))
		}
		n, a := 0, 0
		for n < len(kept) && a < off {
			a += 8 + len(kept[n].payload)
			n++
		}
		fileStart[i] = n
		off += len(f)
	}
	c.exp = nil
	a := 0
	for _, w := range kept {
		if a+8+len(w.payload) <= len(c.base) {
			c.exp = append(c.exp, w)
			a += 8 + len(w.payload)
		}
	}
	c.whole = a == len(c.base)
	c.fileStart = fileStart
	if !c.whole {
		o.Mark("disk-ends-inside-frame")
	}

	// ---- live reads through the group the WAL wrote
	nlive := 2
	if profile == 3 {
		nlive = 1
	}
	for k := 0; k < nlive; k++ {
		idx := r.Intn(len(files))
		cont := r.Bool()
		gr, err := grp.NewReader(firstIdx + idx)
		if err != nil {
			o.Fail(c.step, "newreader", err.Error())
			continue
		}
		toks := c15DecodeAll(gr, cont)
		gr.Close()
		c.checkSeq(fmt.Sprintf("live-read idx=%d", firstIdx+idx), toks, c.exp[minInt(fileStart[idx], len(c.exp)):], cont, c.whole)
		c.op(fmt.Sprintf("D %d %d", firstIdx+idx, b2i(cont)), "d "+strings.Join(toks, " "))
	}
	// searches: every written marker value sometimes, neighbours, absent heights
	var markers []int64
	for _, w := range c.exp {
		if w.eh != nil {
			markers = append(markers, *w.eh)
		}
	}
	// what real logs satisfy: the positive markers increase strictly; markers <= 0 (OnStart's
	// EndHeightMessage{0} on every empty head) may repeat anywhere
	mono := true
	lastPos := int64(0)
	for _, m := range markers {
		if m > 0 {
			if m <= lastPos {
				mono = false
			}
			lastPos = m
		}
	}
	decodable := true
	for _, w := range c.exp {
		if w.digest == "ERR" {
			decodable = false
		}
	}
	c.mono, c.decodable = mono, decodable
	if !mono {
		o.Count("markers:positive-non-monotone")
	} else {
		o.Count("markers:positive-monotone")
	}
	nsearch := 3
	if profile == 1 {
		nsearch = 6
	}
	if profile == 3 {
		nsearch = 1
	}
	var heights []int64
	for k := 0; k < nsearch; k++ {
		var h int64
		switch {
		case len(markers) > 0 && r.Chance(3, 5):
			h = markers[r.Intn(len(markers))]
			if r.Chance(1, 5) {
				h += int64(r.Intn(3) - 1)
			}
		case r.Chance(1, 4):
			h = int64(r.U64())
		default:
			h = int64(r.Intn(12)) - 1
		}
		heights = append(heights, h)
	}
	if restarts > 0 && profile != 3 {
		// after a restart: every written height (and one above the last)
		seen := map[int64]bool{}
		for _, m := range markers {
			if !seen[m] && len(seen) < 16 {
				seen[m] = true
				heights = append(heights, m)
			}
		}
		heights = append(heights, lastPos+1)
	}
	for _, h := range heights {
		ign := r.Chance(2, 3)
		obs := c.searchObs(wal, h, ign)
		// direct oracle: found iff written; for a height written once, the reader is positioned just after it
		if mono && c.whole && (ign || decodable) {
			pos, cnt := -1, 0
			for i, w := range c.exp {
				if w.eh != nil && *w.eh == h {
					pos = i
					cnt++
				}
			}
			want := "s notfound"
			if pos >= 0 {
				switch {
				case pos+1 >= len(c.exp):
					want = "s found eof"
				case c.exp[pos+1].digest == "ERR":
					want = "s found c:decode"
				default:
					want = "s found m:" + c.exp[pos+1].digest
				}
			}
			got := obs
			if cnt > 1 { // a repeated non-positive marker: only the found flag is determined
				want = "s found"
				if len(got) > len(want) {
					got = got[:len(want)]
				}
			}
			if got != want {
				o.Fail(c.step, "search", fmt.Sprintf("height=%d ignore=%v restarts=%d got=[%s] want=[%s]", h, ign, restarts, obs, want))
			}
			if pos >= 0 {
				o.Count("search:found")
			} else {
				o.Count("search:absent")
			}
			if restarts > 0 {
				o.Count("search:after-restart")
			}
		}
		c.op(fmt.Sprintf("SE %d %d", h, b2i(ign)), obs)
	}
	if started {
		wal.Stop()
	} else {
		grp.Close()
	}
	grp.Head.Close()

	// ---- corruption phase on copies of the snapshot
	c.op("SNAP", "")
	c.corrupt(tier, profile)
	c.emit(fmt.Sprintf("CASE %d %d %d", c.idx, limit, bufcap))
	_ = total
}

func b2i(b bool) int {
	if b {
		return 1
	}
	return 0
}
func minInt(a, b int) int {
	if a < b {
		return a
	}
	return b
}

func (c *c15Case) searchObs(wal *BaseWAL, h int64, ign bool) (obs string) {
	defer func() {
		if x := recover(); x != nil {
			obs = "s PANIC"
			c.o.Fail(c.step, "panic-search", fmt.Sprint(x))
		}
	}()
	rd, found, err := wal.SearchForEndHeight(h, &WALSearchOptions{IgnoreDataCorruptionErrors: ign})
	switch {
	case err != nil:
		if found || rd != nil {
			c.o.Fail(c.step, "search-error-and-found", "")
		}
		return "s err " + c15Class(err)
	case !found:
		if rd != nil {
			c.o.Fail(c.step, "search-reader-without-found", "")
		}
		return "s notfound"
	}
	dec := NewWALDecoder(rd)
	nxt := c15DecodeOne(dec)
	rd.Close()
	if nxt == "PANIC" {
		c.o.Fail(c.step, "panic-decode", "after search")
	}
	return "s found " + nxt
}

// one corrupted variant: reader kind k ("f" os.File on the flattened log, "g" GroupReader over the re-split files)
func (c *c15Case) variant(k string, cont bool, eds []c15Edit, exp []c15Written, strict bool, allocCheck bool) {
	o := c.o
	if c15Abort {
		return
	}
	data := c15Apply(c.base, eds)
	c.nvar++
	dir := filepath.Join(c.tmp, fmt.Sprintf("v%d", c.nvar))
	var toks []string
	var before runtime.MemStats
	if allocCheck {
		runtime.ReadMemStats(&before)
	}
	if k == "f" {
		os.MkdirAll(dir, 0o700)
		p := filepath.Join(dir, "wal")
		os.WriteFile(p, data, 0o600)
		f, err := os.Open(p)
		if err != nil {
			o.Fail(c.step, "harness-open", err.Error())
			return
		}
		toks = c15DecodeAll(f, cont)
		f.Close()
	} else {
		head := c15WriteGroup(dir, c.sizes, data)
		g, err := auto.OpenGroup(head)
		if err != nil {
			o.Fail(c.step, "harness-opengroup", err.Error())
			return
		}
		gr, err := g.NewReader(g.MinIndex())
		if err != nil {
			o.Fail(c.step, "harness-newreader", err.Error())
		} else {
			toks = c15DecodeAll(gr, cont)
			gr.Close()
		}
		g.Close()
		g.Head.Close()
	}
	if allocCheck {
		var after runtime.MemStats
		runtime.ReadMemStats(&after)
		if d := after.TotalAlloc - before.TotalAlloc; d > uint64(len(data))*64+uint64(maxMsgSizeBytes)*8+(8<<20) {
			o.Fail(c.step, "allocation-above-limit", fmt.Sprintf("decoding %d bytes allocated %d bytes", len(data), d))
		}
	}
	os.RemoveAll(dir)
	c.checkSeq("variant "+k+" "+c15EditsStr(eds), toks, exp, cont, strict)
	// direct oracle on the size limit: a declared length above the limit is refused as such, others never are
	c.checkTooBig(data, toks, k)
	c.op(fmt.Sprintf("X %s %d %s", k, b2i(cont), c15EditsStr(eds)), "x "+strings.Join(toks, " "))
}

// walks the frames the decoder went through (first error only) and checks the too-big class
func (c *c15Case) checkTooBig(data []byte, toks []string, k string) {
	off := 0
	for _, t := range toks {
		if len(data)-off < 8 {
			return
		}
		ln := int(binary.BigEndian.Uint32(data[off+4:]))
		if strings.HasPrefix(t, "m:") {
			if ln > maxMsgSizeBytes {
				c.o.Fail(c.step, "oversize-accepted", fmt.Sprintf("declared length %d", ln))
			}
			off += 8 + ln
			continue
		}
		if ln > maxMsgSizeBytes && t != "c:toobig" {
			c.o.Fail(c.step, "oversize-not-refused", fmt.Sprintf("declared length %d result %s", ln, t))
		}
		if ln <= maxMsgSizeBytes && t == "c:toobig" {
			c.o.Fail(c.step, "size-limit-too-strict", fmt.Sprintf("declared length %d", ln))
		}
		return
	}
}

func (c *c15Case) repairVariant(eds []c15Edit, pureTruncation bool, exp []c15Written) {
	o := c.o
	if c15Abort {
		return
	}
	data := c15Apply(c.base, eds)
	c.nvar++
	dir := filepath.Join(c.tmp, fmt.Sprintf("r%d", c.nvar))
	os.MkdirAll(dir, 0o700)
	// exactly the steps of ConsensusState.OnStart: the corrupted WAL stays where it is, is backed up by
	// copying, and is then repaired in place from the backup
	src, dst := filepath.Join(dir, "wal.CORRUPTED"), filepath.Join(dir, "wal")
	os.WriteFile(dst, data, 0o600)
	if cerr := kos.CopyFile(dst, src); cerr != nil {
		o.Fail(c.step, "harness-copy", cerr.Error())
		return
	}
	var err error
	func() {
		defer func() {
			if x := recover(); x != nil {
				err = fmt.Errorf("PANIC")
				o.Fail(c.step, "panic-repair", fmt.Sprint(x))
			}
		}()
		err = repairWalFile(src, dst)
	}()
	out, _ := os.ReadFile(dst)
	// second replay pass over the repaired WAL, through a group reader as catchupReplay does
	var pass2 []string
	if g2, gerr := auto.OpenGroup(dst); gerr == nil {
		if gr, rerr := g2.NewReader(g2.MinIndex()); rerr == nil {
			pass2 = c15DecodeAll(gr, false)
			gr.Close()
		}
		g2.Close()
		g2.Head.Close()
	}
	os.RemoveAll(dir)
	if len(pass2) == 0 || pass2[len(pass2)-1] != "eof" {
		o.Fail(c.step, "repaired-wal-still-corrupt", fmt.Sprintf("edits=[%s] second pass=%v", c15EditsStr(eds), pass2))
	}
	c.checkSeq("second pass after repair "+c15EditsStr(eds), pass2, exp, true, false)
	st := "ok"
	if err != nil {
		st = "err"
	}
	want, off := c.specRepair(data)
	if !bytes.Equal(out, want) {
		// the os.File reader zero-fills a short last read: a frame cut inside a run of trailing zero bytes is completed
		okQuirk := false
		if bytes.HasPrefix(out, want) && off < len(data) {
			extra := out[len(want):]
			rem := data[off:]
			if len(extra) > len(rem) && bytes.HasPrefix(extra, rem) && len(bytes.Trim(extra[len(rem):], "\x00")) == 0 && len(rem) > 4 {
				okQuirk = true
				o.Count("repair:zero-completed-last-frame")
				o.Mark("repair-zero-completed")
				if pureTruncation && !bytes.HasPrefix(c.base, out) {
					okQuirk = false
				}
			}
		}
		if !okQuirk {
			o.Fail(c.step, "repair-not-longest-valid-prefix", fmt.Sprintf("edits=[%s] got=%s want=%s", c15EditsStr(eds), c15FP(out), c15FP(want)))
		}
	}
	if st == "err" {
		o.Fail(c.step, "repair-error", fmt.Sprint(err))
	}
	c.op("XR "+c15EditsStr(eds), fmt.Sprintf("r %s %s | %s", st, c15FP(out), strings.Join(pass2, " ")))
}

func (c *c15Case) searchVariant(h int64, ign bool, eds []c15Edit) (obs string) {
	if c15Abort {
		return ""
	}
	data := c15Apply(c.base, eds)
	c.nvar++
	dir := filepath.Join(c.tmp, fmt.Sprintf("s%d", c.nvar))
	head := c15WriteGroup(dir, c.sizes, data)
	wal, err := NewWAL(head)
	if err != nil {
		c.o.Fail(c.step, "harness-newwal", err.Error())
		return ""
	}
	obs = c.searchObs(wal, h, ign)
	wal.Group().Close()
	wal.Group().Head.Close()
	os.RemoveAll(dir)
	c.op(fmt.Sprintf("XS %d %d %s", h, b2i(ign), c15EditsStr(eds)), obs)
	return obs
}

// the file of the snapshot that holds frame i of exp
func (c *c15Case) fileOf(i int) int {
	f := 0
	for j, st := range c.fileStart {
		if st <= i {
			f = j
		}
	}
	return f
}

func (c *c15Case) nextTok(ws []c15Written, pos int, damaged int) string {
	switch {
	case pos+1 >= len(ws):
		return "eof"
	case pos+1 == damaged:
		return "c:crc"
	case ws[pos+1].digest == "ERR":
		return "c:decode"
	}
	return "m:" + ws[pos+1].digest
}

// One frame (index d) damaged in its CRC field or payload — the decoder stays in step with the records.  Direct
// oracle for SearchForEndHeight: told to skip corrupted entries it finds every intact marker (and nothing else),
// positioned after it; told not to, it finds the marker or reports the damage, depending only on whether the
// damaged record lies on its way (newer files first, each read to the end of the log).
func (c *c15Case) searchDamaged(d int) {
	r := c.r
	offs := c.frameOffsets()
	fo, plen := offs[d], len(c.exp[d].payload)
	pos := fo + r.Intn(4)
	if plen > 0 && r.Chance(2, 3) {
		pos = fo + 8 + r.Intn(plen)
	}
	eds := []c15Edit{{kind: "b", off: pos*8 + r.Intn(8)}}
	var markers []int64
	for _, w := range c.exp {
		if w.eh != nil {
			markers = append(markers, *w.eh)
		}
	}
	var h int64
	switch {
	case c.exp[d].eh != nil && r.Chance(1, 3):
		h = *c.exp[d].eh
	case len(markers) > 0 && r.Chance(4, 5):
		h = markers[r.Intn(len(markers))]
	default:
		h = int64(r.Intn(12)) - 1
	}
	ign := r.Chance(2, 3)
	obs := c.searchVariant(h, ign, eds)
	c.o.Count("variant:search-one-frame-damaged")
	if !(c.mono && c.whole && c.decodable) || obs == "" {
		return
	}
	mp, cnt := -1, 0
	for i, w := range c.exp {
		if w.eh != nil && *w.eh == h {
			mp = i
			cnt++
		}
	}
	if cnt > 1 {
		return
	}
	var want []string
	switch {
	case mp < 0 || mp == d: // never written, or the marker itself is the damaged record
		want = []string{"s notfound"}
		if !ign {
			want = append(want, "s err c:crc")
		}
	default:
		found := "s found " + c.nextTok(c.exp, mp, d)
		onTheWay := c.fileOf(d) > c.fileOf(mp) || (c.fileOf(d) == c.fileOf(mp) && d < mp)
		if ign || !onTheWay {
			want = []string{found}
		} else {
			want = []string{"s err c:crc"}
		}
	}
	ok := false
	for _, w := range want {
		ok = ok || w == obs
	}
	if !ok {
		c.o.Fail(c.step, "search-damaged", fmt.Sprintf("height=%d ignore=%v frame %d of %d damaged (%s), marker at frame %d: got=[%s] want=%v",
			h, ign, d, len(c.exp), c15EditsStr(eds), mp, obs, want))
	}
}

// The OnStart repair steps inside a file group: the rotated files stay as they are, the head file is backed up by
// copying and repaired in place; then the whole group is replayed and searched, as the second catchupReplay does.
func (c *c15Case) repairGroupVariant(eds []c15Edit, h int64, ign bool) {
	o := c.o
	if c15Abort {
		return
	}
	data := c15Apply(c.base, eds)
	c.nvar++
	dir := filepath.Join(c.tmp, fmt.Sprintf("q%d", c.nvar))
	head := c15WriteGroup(dir, c.sizes, data)
	headStart := 0
	for _, sz := range c.sizes[:len(c.sizes)-1] {
		headStart += sz
	}
	if headStart > len(data) {
		headStart = len(data)
	}
	hd := data[headStart:]
	bak := head + ".CORRUPTED"
	if cerr := kos.CopyFile(head, bak); cerr != nil {
		o.Fail(c.step, "harness-copy", cerr.Error())
		return
	}
	var err error
	func() {
		defer func() {
			if x := recover(); x != nil {
				err = fmt.Errorf("PANIC")
				o.Fail(c.step, "panic-repair", fmt.Sprint(x))
			}
		}()
		err = repairWalFile(bak, head)
	}()
	out, _ := os.ReadFile(head)
	if b, _ := os.ReadFile(bak); !bytes.Equal(b, hd) {
		o.Fail(c.step, "repair-backup-changed", "the .CORRUPTED backup is not the corrupted head file")
	}
	st := "ok"
	if err != nil {
		st = "err"
		o.Fail(c.step, "repair-error", fmt.Sprint(err))
	}
	var toks []string
	sobs := "s -"
	if wal, werr := NewWAL(head); werr == nil {
		g2 := wal.Group()
		if gr, rerr := g2.NewReader(g2.MinIndex()); rerr == nil {
			toks = c15DecodeAll(gr, false)
			gr.Close()
		}
		sobs = c.searchObs(wal, h, ign)
		g2.Close()
		g2.Head.Close()
	} else {
		o.Fail(c.step, "harness-newwal", werr.Error())
	}
	os.RemoveAll(dir)
	want, off := c.specRepair(hd)
	quirk := false
	if !bytes.Equal(out, want) {
		if bytes.HasPrefix(out, want) && off < len(hd) {
			extra, rem := out[len(want):], hd[off:]
			if len(extra) > len(rem) && bytes.HasPrefix(extra, rem) && len(bytes.Trim(extra[len(rem):], "\x00")) == 0 && len(rem) > 4 {
				quirk = true
				o.Count("repair:zero-completed-last-frame")
			}
		}
		if !quirk {
			o.Fail(c.step, "repair-not-longest-valid-prefix", fmt.Sprintf("group head, edits=[%s] got=%s want=%s", c15EditsStr(eds), c15FP(out), c15FP(want)))
		}
	}
	// the records the repaired group must hold: those of the untouched rotated files, then those of the head's valid prefix
	nRot := c.fileStart[len(c.fileStart)-1]
	if nRot > len(c.exp) {
		nRot = len(c.exp)
	}
	if !quirk && bytes.Equal(data[:headStart], c.base[:headStart]) {
		keptW := append([]c15Written(nil), c.exp[:nRot]...)
		for a := 0; a+8 <= len(want); {
			ln := int(binary.BigEndian.Uint32(want[a+4:]))
			pl := want[a+8 : a+8+ln]
			e := c.table[string(pl)]
			keptW = append(keptW, c15Written{payload: pl, digest: e.digest, eh: e.eh, valid: true})
			a += 8 + ln
		}
		dec := true
		for _, w := range keptW {
			dec = dec && w.digest != "ERR"
		}
		if dec {
			wt := make([]string, 0, len(keptW)+1)
			for _, w := range keptW {
				wt = append(wt, "m:"+w.digest)
			}
			wt = append(wt, "eof")
			if strings.Join(toks, " ") != strings.Join(wt, " ") {
				o.Fail(c.step, "repaired-group-replay", fmt.Sprintf("edits=[%s]: replay of the repaired group gives %d tokens ending %v, want %d records then eof",
					c15EditsStr(eds), len(toks), toks[maxInt(0, len(toks)-2):], len(keptW)))
			}
			mono, lastPos, mp, cnt := true, int64(0), -1, 0
			for i, w := range keptW {
				if w.eh != nil {
					if *w.eh > 0 {
						mono = mono && *w.eh > lastPos
						lastPos = *w.eh
					}
					if *w.eh == h {
						mp = i
						cnt++
					}
				}
			}
			if mono && cnt <= 1 {
				ws := "s notfound"
				if mp >= 0 {
					ws = "s found " + c.nextTok(keptW, mp, -1)
				}
				if sobs != ws {
					o.Fail(c.step, "search-after-repair", fmt.Sprintf("edits=[%s] height=%d ignore=%v got=[%s] want=[%s]", c15EditsStr(eds), h, ign, sobs, ws))
				}
			}
			o.Count("repair-group:checked-strictly")
		}
	}
	c.op(fmt.Sprintf("XG %d %d %s", h, b2i(ign), c15EditsStr(eds)),
		fmt.Sprintf("rg %s %s | %s | %s", st, c15FP(out), strings.Join(toks, " "), sobs))
}

func maxInt(a, b int) int {
	if a > b {
		return a
	}
	return b
}

func (c *c15Case) frameOffsets() []int {
	offs := []int{0}
	a := 0
	for _, w := range c.exp {
		a += 8 + len(w.payload)
		offs = append(offs, a)
	}
	return offs
}

func (c *c15Case) corrupt(tier string, profile int) {
	r, o := c.r, c.o
	L := len(c.base)
	kinds := []string{"f", "g"}
	offs := c.frameOffsets()
	// unmodified copies: everything written comes back, through both readers
	for _, k := range kinds {
		if profile == 3 && k == "g" {
			continue // the live read above went through the GroupReader already
		}
		c.variant(k, false, nil, c.exp, c.whole, false)
	}
	if profile != 3 {
		c.variant("g", true, nil, c.exp, c.whole, false)
	}
	c.repairVariant(nil, true, c.exp)
	if L == 0 {
		return
	}
	if profile == 3 {
		// megabyte-sized frames: only the size-limit boundary of the decoder and a few cuts
		for i := 0; i < 3; i++ {
			fo := offs[r.Intn(len(offs))]
			if fo+8 > L {
				continue
			}
			var b [4]byte
			binary.BigEndian.PutUint32(b[:], uint32(maxMsgSizeBytes)+uint32(i)-1)
			c.variant(kinds[(i+1)%2], false, []c15Edit{{kind: "e", off: fo + 4, data: b[:]}}, c.exp, false, true)
			o.Count("variant:length-edit")
		}
		n := r.Intn(L)
		c.variant("g", false, []c15Edit{{kind: "t", off: n}}, c.exp, false, false)
		return
	}
	small := L <= 420 || (c.forceSmall && L <= 900)
	exhaustiveBits := small && (tier == "thorough" && c.idx%4 == 0 || c.forceSmall)
	// ---- truncation at every offset (small logs) or at sampled offsets incl. all header boundaries of some frames
	var cuts []int
	if small {
		for n := 0; n < L; n++ {
			cuts = append(cuts, n)
		}
		o.Mark("exhaustive-truncation")
		o.Count("logs-with-exhaustive-truncation")
	} else {
		seen := map[int]bool{}
		add := func(n int) {
			if n >= 0 && n < L && !seen[n] {
				seen[n] = true
				cuts = append(cuts, n)
			}
		}
		for i := 0; i < 6; i++ {
			fo := offs[r.Intn(len(offs))]
			for d := -1; d <= 9; d++ {
				add(fo + d)
			}
		}
		for i := 0; i < 10; i++ {
			add(r.Intn(L))
		}
		// cuts inside trailing zero bytes of a payload (zero-fill quirk of the os.File reader)
		for i := 1; i < len(offs); i++ {
			if c.base[offs[i]-1] == 0 {
				add(offs[i] - 1)
				if offs[i]-3 > offs[i-1]+8 {
					add(offs[i] - 3)
				}
			}
		}
		sort.Ints(cuts)
	}
	for _, n := range cuts {
		k := kinds[r.Intn(2)]
		if small {
			for _, kk := range kinds {
				c.variant(kk, false, []c15Edit{{kind: "t", off: n}}, c.exp, false, false)
			}
		} else {
			c.variant(k, r.Chance(1, 4), []c15Edit{{kind: "t", off: n}}, c.exp, false, false)
		}
		o.Count("variant:truncation")
		if small || r.Chance(1, 2) {
			c.repairVariant([]c15Edit{{kind: "t", off: n}}, true, c.exp)
			o.Count("variant:repair-truncated")
		}
	}
	// ---- single-bit flips
	var bits []int
	if exhaustiveBits {
		for b := 0; b < 8*L; b++ {
			bits = append(bits, b)
		}
		o.Mark("exhaustive-bitflips")
		o.Count("logs-with-exhaustive-bitflips")
	} else {
		nb := 48
		if !small {
			nb = 24
		}
		for i := 0; i < nb; i++ {
			switch r.Pick(2, 1, 1) {
			case 0:
				bits = append(bits, r.Intn(8*L))
			case 1: // in a CRC field
				bits = append(bits, 8*offs[r.Intn(len(offs)-1+b2i(len(offs) == 1))]+r.Intn(32))
			default: // in a length field
				bits = append(bits, 8*(offs[r.Intn(len(offs)-1+b2i(len(offs) == 1))]+4)+r.Intn(32))
			}
		}
	}
	for _, b := range bits {
		if b >= 8*L {
			continue
		}
		ed := []c15Edit{{kind: "b", off: b}}
		k := kinds[r.Intn(2)]
		if exhaustiveBits {
			k = kinds[b%2]
		}
		inLen := false
		for _, fo := range offs {
			if b/8 >= fo+4 && b/8 < fo+8 {
				inLen = true
			}
		}
		c.variant(k, !exhaustiveBits && r.Chance(1, 4), ed, c.exp, false, inLen && !exhaustiveBits)
		o.Count("variant:bitflip")
		if !exhaustiveBits && r.Chance(1, 4) || exhaustiveBits && b%16 == 0 {
			c.repairVariant(ed, false, c.exp)
			o.Count("variant:repair-bitflip")
		}
	}
	// ---- other damage
	nOther := 16
	if profile == 1 {
		nOther = 40
	}
	for i := 0; i < nOther; i++ {
		var eds []c15Edit
		exp := c.exp
		what := ""
		atLimit := false
		fi := r.Intn(len(offs))
		fo := offs[fi]
		switch r.Pick(4, 3, 3, 2, 2, 2, 2) {
		case 0: // length field set to a chosen value
			what = "length-edit"
			if fo+8 > L {
				continue
			}
			var nl uint32
			switch r.Pick(2, 2, 2, 1, 1, 1) {
			case 0:
				nl = uint32(maxMsgSizeBytes) + uint32(r.Intn(3)) - 1
				atLimit = true
			case 1:
				nl = uint32(r.U64())
			case 2:
				nl = binary.BigEndian.Uint32(c.base[fo+4:]) + uint32(r.Intn(5)) - 2
			case 3:
				nl = 0
			case 4:
				nl = 0xFFFFFFFF
			default:
				nl = uint32(L - fo - 8 + r.Intn(3) - 1)
			}
			var b [4]byte
			binary.BigEndian.PutUint32(b[:], nl)
			eds = []c15Edit{{kind: "e", off: fo + 4, data: b[:]}}
		case 1: // random multi-byte overwrite
			what = "multi-byte-edit"
			eds = []c15Edit{{kind: "e", off: r.Intn(L), data: r.Bytes(1 + r.Intn(12))}}
			if r.Bool() {
				eds = append(eds, c15Edit{kind: "e", off: r.Intn(L), data: r.Bytes(1 + r.Intn(4))})
			}
		case 2: // garbage suffix
			what = "garbage-suffix"
			var gb []byte
			switch r.Pick(3, 1, 1, 1) {
			case 0:
				gb = r.Bytes(1 + r.Intn(40))
			case 1:
				gb = make([]byte, 1+r.Intn(20)) // zeros: crc 0, length 0
			case 2:
				gb = append([]byte{0, 0, 0, 0, 0xff, 0xff, 0xff, 0xff}, r.Bytes(r.Intn(8))...)
			default: // header announcing exactly the limit, little data
				gb = make([]byte, 8)
				binary.BigEndian.PutUint32(gb[4:], uint32(maxMsgSizeBytes)+uint32(r.Intn(2)))
				atLimit = true
				gb = append(gb, r.Bytes(r.Intn(30))...)
			}
			eds = []c15Edit{{kind: "a", data: gb}}
		case 3: // a well-formed frame around a damaged copy of a real payload (CRC recomputed): decoder internals
			what = "crafted-frame"
			if len(c.exp) == 0 {
				continue
			}
			p := append([]byte(nil), c.exp[r.Intn(len(c.exp))].payload...)
			if len(p) > 4096 {
				continue
			}
			stepWant := ""
			switch r.Pick(3, 2, 1, 1, 2) {
			case 4:
				// a well-formed protobuf TimeoutInfo whose step does not fit the uint8 the WAL message holds (255 does):
				// it must be refused, never read back as a timeout with a truncated step
				step := []uint32{255, 256, 257, 511, 1 << 31, 0xFFFFFFFF, uint32(r.Intn(1024))}[r.Intn(7)]
				ti := &kcons.TimeoutInfo{Duration: time.Duration(r.Intn(1 << 30)), Height: c15U64(r), Round: c15U32(r), Step: step}
				tm := time.Unix(1600000000+int64(r.Intn(1000)), int64(r.Intn(1000))).UTC()
				p, _ = proto.Marshal(&kcons.TimedWALMessage{Time: tm, Msg: &kcons.WALMessage{Sum: &kcons.WALMessage_TimeoutInfo{TimeoutInfo: ti}}})
				stepWant = "ERR"
				if step <= 255 {
					stepWant = c15Digest(c15Render(timeoutInfo{Duration: ti.Duration, Height: ti.Height, Round: ti.Round, Step: cstypes.RoundStepType(step)}, tm))
				}
				o.Mark(fmt.Sprintf("crafted-timeout-step>255:%v", step > 255))
			case 0:
				if len(p) > 0 {
					p[r.Intn(len(p))] ^= byte(1 << uint(r.Intn(8)))
				}
			case 1:
				p = p[:r.Intn(len(p)+1)]
			case 2:
				p = append(p, r.Bytes(1+r.Intn(6))...)
			default:
				p = r.Bytes(r.Intn(24))
			}
			e := c.addEntry(p)
			w := c15Written{payload: p, digest: "ERR"}
			if e.ok {
				w.digest = e.digest
				o.Count("crafted-frame:decodable")
			} else {
				o.Count("crafted-frame:undecodable")
			}
			if stepWant != "" && w.digest != stepWant {
				o.Fail(c.step, "timeout-step-overflow", fmt.Sprintf("a TimeoutInfo frame reads back as %s, want %s", w.digest, stepWant))
			}
			eds = []c15Edit{{kind: "a", data: c15Frame(p)}}
			if c.whole {
				exp = append(append([]c15Written(nil), c.exp...), w)
			}
		case 4: // bytes removed
			what = "bytes-deleted"
			eds = []c15Edit{{kind: "d", off: r.Intn(L), n: 1 + r.Intn(20)}}
		case 5: // bytes inserted
			what = "bytes-inserted"
			eds = []c15Edit{{kind: "i", off: r.Intn(L), data: r.Bytes(1 + r.Intn(9))}}
		default: // CRC field overwritten
			what = "crc-edit"
			if fo+4 > L {
				continue
			}
			eds = []c15Edit{{kind: "e", off: fo, data: r.Bytes(4)}}
		}
		o.Count("variant:" + what)
		which := r.Pick(5, 2, 2)
		if atLimit {
			which = 0
		}
		switch which {
		case 0:
			// deletions/insertions may re-align a later written frame: the order check still applies (subsequence) in ignore mode
			cont := r.Chance(1, 3)
			if what == "bytes-deleted" || what == "bytes-inserted" {
				cont = true
			}
			k := kinds[r.Intn(2)]
			if atLimit && !r.Chance(1, 12) {
				k = "g" // the os.File reader zero-fills and checksums a megabyte here (done, rarely)
			}
			c.variant(k, cont, eds, exp, false, what == "length-edit" || what == "garbage-suffix")
		case 1:
			c.repairVariant(eds, false, exp)
		default:
			var h int64 = int64(r.Intn(10))
			for _, w := range c.exp {
				if w.eh != nil && r.Chance(1, 3) {
					h = *w.eh
				}
			}
			c.searchVariant(h, r.Chance(3, 4), eds)
		}
	}
	// ---- one record damaged, SearchForEndHeight with and without IgnoreDataCorruptionErrors
	if len(c.exp) > 0 {
		nd := 4
		if profile == 1 {
			nd = 8
		}
		for i := 0; i < nd; i++ {
			c.searchDamaged(r.Intn(len(c.exp)))
		}
	}
	// ---- the OnStart repair steps inside the file group (head damaged, rotated files intact — mostly)
	headStart := 0
	for _, sz := range c.sizes[:len(c.sizes)-1] {
		headStart += sz
	}
	ng := 5
	if profile == 1 {
		ng = 8
	}
	for i := 0; i < ng; i++ {
		var eds []c15Edit
		hl := L - headStart
		switch {
		case hl <= 0 || r.Chance(1, 6):
			eds = []c15Edit{{kind: "a", data: r.Bytes(1 + r.Intn(24))}}
		case r.Chance(1, 8):
			eds = []c15Edit{{kind: "b", off: r.Intn(8 * L)}} // anywhere: a damaged rotated file is not repaired
		default:
			switch r.Pick(4, 3, 2, 1) {
			case 0:
				eds = []c15Edit{{kind: "b", off: 8*headStart + r.Intn(8*hl)}}
			case 1:
				eds = []c15Edit{{kind: "t", off: headStart + r.Intn(hl)}}
			case 2:
				eds = []c15Edit{{kind: "e", off: headStart + r.Intn(hl), data: r.Bytes(1 + r.Intn(6))}}
			default:
				eds = nil
			}
		}
		var h int64 = int64(r.Intn(10))
		for _, w := range c.exp {
			if w.eh != nil && r.Chance(1, 3) {
				h = *w.eh
			}
		}
		c.repairGroupVariant(eds, h, r.Chance(2, 3))
		o.Count("variant:repair-in-group")
		if len(c.sizes) > 1 {
			o.Mark("repair-in-rotated-group")
		}
	}
}
