//go:build verif

// C18 harness, second part: operation sequences on the real HeightVoteSet and the real TxFetcher, the
// node's own next steps after a delivery (timeouts, round changes, round skips, commits), and the
// announce / wait / drop / deliver sequence over several connections on the real tx-pool reactor.
package consensus

import (
	"bytes"
	"fmt"
	"math/big"
	mrand "math/rand"
	"reflect"
	"sort"
	"strconv"
	"strings"
	"sync"
	"time"

	cstypes "github.com/kardiachain/go-kardia/consensus/types"
	"github.com/kardiachain/go-kardia/lib/common"
	"github.com/kardiachain/go-kardia/lib/crypto"
	"github.com/kardiachain/go-kardia/lib/log"
	"github.com/kardiachain/go-kardia/lib/mclock"
	"github.com/kardiachain/go-kardia/lib/p2p"
	"github.com/kardiachain/go-kardia/lib/rlp"
	"github.com/kardiachain/go-kardia/mainchain/fetcher"
	"github.com/kardiachain/go-kardia/mainchain/tx_pool"
	prototx "github.com/kardiachain/go-kardia/proto/kardiachain/txpool"
	kproto "github.com/kardiachain/go-kardia/proto/kardiachain/types"
	"github.com/kardiachain/go-kardia/types"
)

func c18Rounds(rs []uint32) string {
	if len(rs) == 0 {
		return "-"
	}
	sort.Slice(rs, func(a, b int) bool { return rs[a] < rs[b] })
	s := make([]string, len(rs))
	for i, r := range rs {
		s[i] = strconv.FormatUint(uint64(r), 10)
	}
	return strings.Join(s, ",")
}

// which of the candidate rounds have vote sets
func c18HVSRounds(hvs *cstypes.HeightVoteSet, upto uint32, mentioned map[uint32]bool) string {
	cand := map[uint32]bool{}
	for r := uint32(0); r <= upto; r++ {
		cand[r] = true
	}
	for r := range mentioned {
		cand[r] = true
	}
	var have []uint32
	for r := range cand {
		if hvs.Prevotes(r) != nil {
			have = append(have, r)
		}
	}
	return c18Rounds(have)
}

// ---------------------------------------------------------------------------------------------
// HeightVoteSet driven directly: votes of several peers for tracked and untracked rounds, SetRound
// as enterNewRound calls it (never more than one round back)

func (c *c18Ctx) caseHVS() {
	r, j := c.r, c.j
	j.Case(c.n, fmt.Sprintf("CASE %d hvs", c.n))
	pvs, vs := c18Validators()
	const height = 5
	var hvs *cstypes.HeightVoteSet
	res := c18Setup(func() { hvs = cstypes.NewHeightVoteSet(log.New(), c18ChainID, height, vs) })
	if res.panicked || res.hang {
		j.Fail("setup-heightvoteset", res.pmsg+" "+res.site)
		return
	}
	j.InOnly("HI")
	cur := uint32(1) // hvs.round
	maxSet := uint32(1)
	top := uint32(1)
	mentioned := map[uint32]bool{}
	peers := []p2p.ID{"peer-a", "peer-b", "peer-c"}
	mkVote := func(vi int, typ kproto.SignedMsgType, round uint32, signed bool) *types.Vote {
		hh := common.BytesToHash(crypto.Keccak256([]byte("hvs-block")))
		v := &types.Vote{ValidatorAddress: pvs[vi].GetAddress(), ValidatorIndex: uint32(vi), Height: height, Round: round,
			Timestamp: time.Unix(1600000500, 0).UTC(), Type: typ, BlockID: types.BlockID{Hash: hh, PartsHeader: types.PartSetHeader{Total: 1, Hash: hh}}}
		if signed {
			func() {
				defer func() { recover() }()
				pb := v.ToProto()
				if pvs[vi].SignVote(c18ChainID, pb) == nil {
					v.Signature = pb.Signature
				}
			}()
		}
		if len(v.Signature) == 0 {
			v.Signature = make([]byte, 65)
		}
		return v
	}
	nops := 6 + r.Intn(16)
	for k := 0; k < nops; k++ {
		if r.Chance(3, 5) {
			// a peer's vote
			var round uint32
			switch r.Pick(30, 40, 12, 8, 10) {
			case 0:
				round = uint32(r.Intn(int(cur) + 1))
			case 1:
				round = cur + uint32(1+r.Intn(4))
			case 2:
				round = cur + uint32(5+r.Intn(20))
			case 3:
				round = []uint32{1<<32 - 1, 1<<32 - 2, 1 << 31, 1<<31 - 1}[r.Intn(4)]
			case 4:
				round = top + uint32(r.Intn(3))
			}
			typ := kproto.SignedMsgType(1 + r.Intn(2))
			if r.Chance(1, 12) {
				typ = []kproto.SignedMsgType{0, 3, 32, -1}[r.Intn(4)]
			}
			pi := r.Intn(len(peers))
			v := mkVote(r.Intn(len(pvs)), typ, round, r.Chance(3, 4))
			mentioned[round] = true
			if round > top && round < 1<<20 {
				top = round
			}
			j.Count("hvs/addvote")
			j.Pending(fmt.Sprintf("HA %d %d %d", int32(typ), round, pi))
			var err error
			res := c18Guard(func() { _, err = hvs.AddVote(v, peers[pi]) })
			what := fmt.Sprintf("HeightVoteSet.AddVote(type %d, round %d) from %s with hvs.round=%d", int32(typ), round, peers[pi], cur)
			if obs, term := c.classify(res, what, "alloc-heightvoteset"); term {
				j.Result(obs)
				return
			}
			cls := "VS"
			switch err {
			case cstypes.ErrNilVoteType:
				cls = "ERRTYPE"
			case cstypes.ErrGotVoteFromUnwantedRound:
				cls = "UNWANTED"
			}
			rl := c18HVSRounds(hvs, top+3, mentioned)
			j.Result(cls + " R=" + rl)
			j.Mark("hvs-add-" + cls)
			// direct: peers can make the node track only a bounded number of rounds (two each) beyond
			// the ones it tracks by itself (0..hvs.round)
			if have := len(strings.Split(rl, ",")); rl != "-" && have > int(maxSet)+1+2*len(peers) {
				j.Fail("heightvoteset-unbounded-catchup", fmt.Sprintf("%s: %d rounds have vote sets (%s); the node tracks 0..%d by itself and each of the %d peers may open two", what, have, rl, maxSet, len(peers)))
			}
			if cls == "VS" && hvs.Prevotes(round) == nil {
				j.Fail("heightvoteset-round-missing", what+": the vote was taken but the round has no vote set")
			}
			continue
		}
		// the node enters a round: SetRound(round+1), round >= its current round
		var nr uint32
		switch r.Pick(15, 50, 20, 15) {
		case 0:
			nr = cur - 1 // the lowest argument enterNewRound can produce (same round again)
			if cur == 1 {
				nr = 1
			}
		case 1:
			nr = cur + 1
		case 2:
			nr = cur + uint32(2+r.Intn(4))
		case 3:
			nr = cur
		}
		j.Count("hvs/setround")
		j.Pending(fmt.Sprintf("HR %d", nr))
		res := c18Guard(func() { hvs.SetRound(nr) })
		what := fmt.Sprintf("HeightVoteSet.SetRound(%d) with hvs.round=%d after the peers' votes for rounds %s", nr, cur, c18MentionedAbove(mentioned, cur))
		if obs, term := c.classify(res, what, "alloc-heightvoteset"); term {
			j.Result(obs)
			return
		}
		cur = nr
		if nr > maxSet {
			maxSet = nr
		}
		if nr > top {
			top = nr
		}
		j.Result("OK R=" + c18HVSRounds(hvs, top+3, mentioned))
		j.Mark(fmt.Sprintf("hvs-set-%d", len(mentioned)))
		for q := uint32(1); q <= nr; q++ {
			if hvs.Prevotes(q) == nil || hvs.Precommits(q) == nil {
				j.Fail("heightvoteset-round-missing", fmt.Sprintf("%s: round %d has no vote sets afterwards", what, q))
				break
			}
		}
	}
}

func c18MentionedAbove(m map[uint32]bool, cur uint32) string {
	var rs []uint32
	for r := range m {
		if r > cur {
			rs = append(rs, r)
		}
	}
	return c18Rounds(rs)
}

// ---------------------------------------------------------------------------------------------
// The node's own steps inside a consensus case

const c18LocalPeer = p2p.ID("ffeeddccbbaa99887766554433221100ffeeddcc")

func (cc *c18ConsCase) hvLine() string {
	cs := cc.node.cs
	cs.mtx.RLock()
	votes, round := cs.Votes, cs.Round
	cs.mtx.RUnlock()
	return "R=" + c18HVSRounds(votes, round+3, cc.mentioned)
}

// hvs.round of the node's HeightVoteSet (unexported: read through reflect)
func c18HVSRound(hvs *cstypes.HeightVoteSet) uint32 {
	return uint32(reflect.ValueOf(hvs).Elem().FieldByName("round").Uint())
}

func (cc *c18ConsCase) obsLine(tag string) string {
	cs := cc.node.cs
	cs.mtx.RLock()
	defer cs.mtx.RUnlock()
	return fmt.Sprintf("%s %d %d", tag, cs.Height, c18HVSRound(cs.Votes))
}

// tells the model where the node stands and compares the rounds that have vote sets
func (cc *c18ConsCase) hvObserve() {
	cc.c.j.InOnly(cc.obsLine("NOBS"))
	cc.c.j.Op("HS", cc.hvLine())
	// direct: once SetRound has run, every round from 1 to hvs.round is tracked
	cs := cc.node.cs
	cs.mtx.RLock()
	votes := cs.Votes
	cs.mtx.RUnlock()
	if rl := cc.hvLine(); rl != "R=-" {
		// peers (the case's peer and the injected validators' votes) open at most two rounds each
		if have, hr := len(strings.Split(rl, ",")), c18HVSRound(votes); hr < 1<<20 && have > int(hr)+1+2*2 {
			cc.c.j.Fail("heightvoteset-unbounded-catchup", fmt.Sprintf("node's HeightVoteSet at round %d tracks %d rounds (%s): more than two per peer beyond its own", hr, have, rl))
		}
	}
	if hr := c18HVSRound(votes); hr > 1 && hr < 1<<20 {
		for q := uint32(1); q <= hr; q++ {
			if votes.Prevotes(q) == nil || votes.Precommits(q) == nil {
				cc.c.j.Fail("heightvoteset-round-missing", fmt.Sprintf("node's HeightVoteSet at round %d: round %d has no vote sets", hr, q))
				break
			}
		}
	}
}

// one step the node takes without any further peer message; returns true when the case must end
func (cc *c18ConsCase) localStep() bool {
	c, r, j, n := cc.c, cc.c.r, cc.c.j, cc.node
	cs := n.cs
	H, R := cs.Height, cs.Round
	me := n.myIndex()
	var run func()
	in := ""
	label := ""
	inject := func(typ kproto.SignedMsgType, round uint32, bid types.BlockID) {
		for i := range n.pvs {
			if i != me {
				cs.handleMsg(msgInfo{&VoteMessage{n.signedVote(i, typ, H, round, bid)}, c18LocalPeer})
			}
		}
		n.drainInternal()
	}
	switch r.Pick(34, 12, 18, 20, 10, 6) {
	case 0:
		// the pending timeout fires (the ticker keeps the last one scheduled)
		if len(n.tk.sched) == 0 {
			return false
		}
		ti := n.tk.sched[len(n.tk.sched)-1]
		label = fmt.Sprintf("timeout-%d", ti.Step)
		in = fmt.Sprintf("N FIRE %d %d %d", ti.Height, ti.Round, ti.Step)
		run = func() { cs.handleTimeout(ti, cs.RoundState); n.drainInternal() }
	case 1:
		// the other validators prevote nil in the node's round
		label = "prevotes-nil"
		in = fmt.Sprintf("N VOTES 1 %d %d", R, len(n.pvs)-1)
		cc.mentioned[R] = true
		run = func() { inject(kproto.PrevoteType, R, types.BlockID{}) }
	case 2:
		// ... precommit nil: precommit wait, and the timeout after it moves the node to the next round
		label = "precommits-nil"
		in = fmt.Sprintf("N VOTES 2 %d %d", R, len(n.pvs)-1)
		cc.mentioned[R] = true
		run = func() { inject(kproto.PrecommitType, R, types.BlockID{}) }
	case 3:
		// +2/3 of the others are ahead: round skip
		k := uint32(1 + r.Intn(3))
		typ := kproto.SignedMsgType(1 + r.Intn(2))
		label = fmt.Sprintf("skip-%d", k)
		in = fmt.Sprintf("N VOTES %d %d %d", int32(typ), R+k, len(n.pvs)-1)
		cc.mentioned[R+k] = true
		run = func() { inject(typ, R+k, types.BlockID{}) }
	case 4:
		// the others commit the block the node knows
		if cs.ProposalBlock == nil || cs.ProposalBlockParts == nil {
			return false
		}
		bid := types.BlockID{Hash: cs.ProposalBlock.Hash(), PartsHeader: cs.ProposalBlockParts.Header()}
		label = "commit"
		in = fmt.Sprintf("N VOTES 2 %d %d", R, len(n.pvs)-1)
		cc.mentioned[R] = true
		run = func() { inject(kproto.PrecommitType, R, bid) }
	case 5:
		// a timeout the node did schedule earlier for this round arrives late
		var cands []timeoutInfo
		for _, ti := range n.tk.sched {
			if ti.Height == H && ti.Round == R {
				cands = append(cands, ti)
			}
		}
		if len(cands) == 0 {
			return false
		}
		ti := cands[r.Intn(len(cands))]
		label = fmt.Sprintf("late-timeout-%d", ti.Step)
		in = fmt.Sprintf("N FIRE %d %d %d", ti.Height, ti.Round, ti.Step)
		run = func() { cs.handleTimeout(ti, cs.RoundState); n.drainInternal() }
	}
	j.Count("cons/local-" + label)
	j.Pending(in)
	res := c18Guard(run)
	what := fmt.Sprintf("the node's own step [%s] at height %d round %d step %d (consensus routine: CONSENSUS FAILURE) after the peer's deliveries ... %s", label, H, R, cs.Step, strings.Join(cc.recent, " | "))
	obs, term := c.classify(res, what, "alloc-consensus-localstep")
	if term {
		j.Result(obs + "-CS")
		cc.probes(what)
		return true
	}
	j.Result("OK")
	j.Mark(fmt.Sprintf("cons-local-%s-%d", label, cs.Step))
	cc.probes(what)
	if c.dead {
		return true
	}
	cc.hvObserve()
	return false
}

// ---------------------------------------------------------------------------------------------
// TxFetcher driven directly with a simulated clock: announce / wait / request / deliver / drop

type c18Clock struct {
	mclock.Simulated
	mu    sync.Mutex
	pend  map[*c18Timer]int64 // deadline, ns
	fired int
}

type c18Timer struct {
	c     *c18Clock
	inner mclock.Timer
}

func (c *c18Clock) AfterFunc(d time.Duration, f func()) mclock.Timer {
	t := &c18Timer{c: c}
	c.mu.Lock()
	c.pend[t] = int64(c.Simulated.Now()) + int64(d)
	c.mu.Unlock()
	t.inner = c.Simulated.AfterFunc(d, func() {
		c.mu.Lock()
		delete(c.pend, t)
		c.fired++
		c.mu.Unlock()
		f()
	})
	return t
}

func (t *c18Timer) Stop() bool {
	t.c.mu.Lock()
	delete(t.c.pend, t)
	t.c.mu.Unlock()
	return t.inner.Stop()
}

// pending deadlines in ms, sorted
func (c *c18Clock) deadlines() []int64 {
	c.mu.Lock()
	defer c.mu.Unlock()
	var out []int64
	for _, at := range c.pend {
		out = append(out, at/1e6)
	}
	sort.Slice(out, func(a, b int) bool { return out[a] < out[b] })
	return out
}

func (c *c18Clock) nowMs() int64 { return int64(c.Simulated.Now()) / 1e6 }

// rand source that makes Intn(n) return k % n
type c18Src struct{ k int64 }

func (s *c18Src) Int63() int64 { return s.k << 32 }
func (s *c18Src) Seed(int64)   {}

type c18Fetch struct {
	c      *c18Ctx
	f      *fetcher.TxFetcher
	clk    *c18Clock
	src    *c18Src
	step   chan struct{}
	hashes []common.Hash // universe, in byte order
	idx    map[common.Hash]int
	txs    map[int]*types.Transaction
	known  map[common.Hash]bool
	under  map[common.Hash]bool
	verd   map[common.Hash]int
	mu     sync.Mutex
}

var c18PeerNames = []string{"A", "B", "C", "D", "E"}

func c18PeerIdx(p string) int {
	for i, n := range c18PeerNames {
		if n == p {
			return i
		}
	}
	return -1
}

func (w *c18Fetch) hs(l []common.Hash) []int {
	out := make([]int, len(l))
	for i, h := range l {
		if k, ok := w.idx[h]; ok {
			out[i] = k
		} else {
			out[i] = -1
		}
	}
	return out
}

func c18Ints(l []int, sorted bool) string {
	if sorted {
		sort.Ints(l)
	}
	s := make([]string, len(l))
	for i, x := range l {
		s[i] = strconv.Itoa(x)
	}
	return "[" + strings.Join(s, ",") + "]"
}

func c18PS(l []string) string {
	out := make([]int, len(l))
	for i, p := range l {
		out[i] = c18PeerIdx(p)
	}
	return c18Ints(out, true)
}

func c18Compress(s string) string {
	if len(s) <= 1500 {
		return s
	}
	acc := uint64(7)
	for i := 0; i < len(s); i++ {
		acc = (acc*131 + uint64(s[i])) % 2147483647
	}
	return fmt.Sprintf("H%d:%d", len(s), acc)
}

// canonical rendering of the trackers (the model driver prints the same)
func (w *c18Fetch) render(st fetcher.VerifState, timers bool) string {
	type kv struct {
		k int
		v string
	}
	join := func(l []kv) string {
		if len(l) == 0 {
			return "-"
		}
		sort.Slice(l, func(a, b int) bool { return l[a].k < l[b].k })
		s := make([]string, len(l))
		for i, e := range l {
			s[i] = strconv.Itoa(e.k) + ":" + e.v
		}
		return strings.Join(s, ";")
	}
	var wl, wt, ws, an, ad, fe, rq, al []kv
	for h, ps := range st.Waitlist {
		wl = append(wl, kv{w.idx[h], c18PS(ps)})
	}
	for h, t := range st.Waittime {
		wt = append(wt, kv{w.idx[h], strconv.FormatInt(t/1e6, 10)})
	}
	for p, hs := range st.Waitslots {
		ws = append(ws, kv{c18PeerIdx(p), c18Ints(w.hs(hs), true)})
	}
	for p, hs := range st.Announces {
		an = append(an, kv{c18PeerIdx(p), c18Ints(w.hs(hs), true)})
	}
	for h, ps := range st.Announced {
		ad = append(ad, kv{w.idx[h], c18PS(ps)})
	}
	for h, p := range st.Fetching {
		fe = append(fe, kv{w.idx[h], strconv.Itoa(c18PeerIdx(p))})
	}
	for p, r := range st.Requests {
		rq = append(rq, kv{c18PeerIdx(p), c18Ints(w.hs(r.Hashes), false) + "/" + c18Ints(w.hs(r.Stolen), true) + "/" + strconv.FormatInt(r.Time/1e6, 10)})
	}
	for h, ps := range st.Alternates {
		al = append(al, kv{w.idx[h], c18PS(ps)})
	}
	un := w.hs(st.Under)
	var tm []string
	for _, d := range w.clk.deadlines() {
		tm = append(tm, strconv.FormatInt(d, 10))
	}
	tms := "-"
	if len(tm) > 0 {
		tms = strings.Join(tm, ",")
	}
	if !timers {
		tms = "x"
	}
	return c18Compress(fmt.Sprintf("now=%d W=%s T=%s S=%s A=%s D=%s F=%s R=%s L=%s U=%s tm=%s",
		w.clk.nowMs(), join(wl), join(wt), join(ws), join(an), join(ad), join(fe), join(rq), join(al), c18Ints(un, true), tms))
}

// the consistency the fetcher's crash sites rely on, checked on the implementation's trackers
func (w *c18Fetch) invariants(st fetcher.VerifState) string {
	in := func(l []common.Hash, h common.Hash) bool {
		for _, x := range l {
			if x == h {
				return true
			}
		}
		return false
	}
	inS := func(l []string, p string) bool {
		for _, x := range l {
			if x == p {
				return true
			}
		}
		return false
	}
	for h, p := range st.Fetching {
		rq, ok := st.Requests[p]
		if !ok {
			return fmt.Sprintf("transaction %d is marked as being fetched from peer %s, which has no request in flight (a delivery of it from anybody else dereferences the missing request)", w.idx[h], p)
		}
		if !in(rq.Hashes, h) || in(rq.Stolen, h) {
			return fmt.Sprintf("transaction %d is marked as being fetched from peer %s, whose request does not (any longer) cover it", w.idx[h], p)
		}
		if _, ok := st.Alternates[h]; !ok {
			return fmt.Sprintf("transaction %d is being fetched but has no alternates entry", w.idx[h])
		}
	}
	for p, rq := range st.Requests {
		for _, h := range rq.Hashes {
			if in(rq.Stolen, h) {
				continue
			}
			if st.Fetching[h] != p {
				return fmt.Sprintf("request to peer %s covers transaction %d, which is not marked as being fetched from it", p, w.idx[h])
			}
		}
	}
	for h := range st.Alternates {
		if _, ok := st.Fetching[h]; !ok {
			return fmt.Sprintf("transaction %d has an alternates entry but is not being fetched (the next scheduling of it panics)", w.idx[h])
		}
	}
	for h := range st.Announced {
		if _, ok := st.Fetching[h]; ok {
			return fmt.Sprintf("transaction %d is both queued and being fetched (its timeout or partial delivery panics)", w.idx[h])
		}
		if _, ok := st.Waitlist[h]; ok {
			return fmt.Sprintf("transaction %d is both waiting and queued (the wait timer panics)", w.idx[h])
		}
	}
	for h := range st.Waitlist {
		if _, ok := st.Fetching[h]; ok {
			return fmt.Sprintf("transaction %d is both waiting and being fetched", w.idx[h])
		}
	}
	for h := range st.Waittime {
		if _, ok := st.Waitlist[h]; !ok {
			return fmt.Sprintf("transaction %d has a wait time but no wait list", w.idx[h])
		}
	}
	for p, hs := range st.Announces {
		for _, h := range hs {
			if _, ok := st.Fetching[h]; ok {
				if !inS(st.Alternates[h], p) {
					return fmt.Sprintf("peer %s announced transaction %d (being fetched) but is not among its alternates", p, w.idx[h])
				}
			} else if !inS(st.Announced[h], p) {
				return fmt.Sprintf("peer %s announced transaction %d but is not among its queued origins", p, w.idx[h])
			}
		}
	}
	// the per-hash and per-peer indexes agree: an origin recorded under a hash is a peer that is
	// recorded as announcing it (otherwise dropping the peer leaves the entry behind for ever)
	for h, ps := range st.Announced {
		for _, p := range ps {
			if !in(st.Announces[p], h) {
				return fmt.Sprintf("peer %s is a queued origin of transaction %d but is not tracked as announcing it", p, w.idx[h])
			}
		}
		if len(ps) == 0 {
			return fmt.Sprintf("transaction %d is queued with no origin", w.idx[h])
		}
	}
	for h, ps := range st.Alternates {
		for _, p := range ps {
			if !in(st.Announces[p], h) {
				return fmt.Sprintf("peer %s is an alternate origin of transaction %d (in flight) but is not tracked as announcing it", p, w.idx[h])
			}
		}
	}
	for h, ps := range st.Waitlist {
		for _, p := range ps {
			if !in(st.Waitslots[p], h) {
				return fmt.Sprintf("peer %s waits for transaction %d but has no wait slot for it", p, w.idx[h])
			}
		}
		if len(ps) == 0 {
			return fmt.Sprintf("transaction %d is waiting with no origin", w.idx[h])
		}
	}
	for p, hs := range st.Waitslots {
		for _, h := range hs {
			if !inS(st.Waitlist[h], p) {
				return fmt.Sprintf("peer %s has a wait slot for transaction %d, which does not list it", p, w.idx[h])
			}
		}
	}
	return ""
}

func (w *c18Fetch) waitSteps(n int, what string) bool {
	for i := 0; i < n; i++ {
		select {
		case <-w.step:
		case <-time.After(c18HangConfirm):
			w.c.j.Fail("hang-txfetcher-loop", what+": the fetcher loop did not complete its iteration within a minute")
			w.c.dead = true
			return false
		}
	}
	return true
}

func (c *c18Ctx) caseFetcher() {
	r, j := c.r, c.j
	big5k := r.Chance(1, 25)
	j.Case(c.n, fmt.Sprintf("CASE %d fetcher", c.n))
	w := &c18Fetch{c: c, idx: map[common.Hash]int{}, txs: map[int]*types.Transaction{}, known: map[common.Hash]bool{}, under: map[common.Hash]bool{}, verd: map[common.Hash]int{}}
	// universe: real transactions and hashes nobody can deliver, numbered in byte order
	nTx, nPh := 6+r.Intn(8), 2+r.Intn(4)
	if big5k {
		nPh = 4200 + r.Intn(1200)
		j.Count("fetcher/big-announcement")
	}
	byHash := map[common.Hash]*types.Transaction{}
	for i := 0; i < nTx; i++ {
		tx := types.NewTransaction(uint64(i), common.BytesToAddress(r.Bytes(20)), big.NewInt(int64(r.Intn(1000))), 21000, big.NewInt(1), r.Bytes(r.Intn(6)))
		byHash[tx.Hash()] = tx
		w.hashes = append(w.hashes, tx.Hash())
	}
	for i := 0; i < nPh; i++ {
		w.hashes = append(w.hashes, common.BytesToHash(r.Bytes(32)))
	}
	sort.Slice(w.hashes, func(a, b int) bool { return bytes.Compare(w.hashes[a][:], w.hashes[b][:]) < 0 })
	var txIdx []int
	for i, h := range w.hashes {
		w.idx[h] = i
		if tx := byHash[h]; tx != nil {
			w.txs[i] = tx
			txIdx = append(txIdx, i)
		}
	}
	w.clk = &c18Clock{pend: map[*c18Timer]int64{}}
	w.src = &c18Src{}
	w.step = make(chan struct{})
	hasTx := func(h common.Hash) bool { w.mu.Lock(); defer w.mu.Unlock(); return w.known[h] }
	addTxs := func(txs []*types.Transaction) []error {
		w.mu.Lock()
		defer w.mu.Unlock()
		errs := make([]error, len(txs))
		for i, tx := range txs {
			switch w.verd[tx.Hash()] {
			case 0:
				w.known[tx.Hash()] = true
			case 1:
				errs[i] = fetcher.ErrAlreadyKnown
			case 2:
				errs[i] = []error{fetcher.ErrUnderpriced, fetcher.ErrReplaceUnderpriced}[int(tx.Nonce())%2]
				w.under[tx.Hash()] = true
			case 3:
				errs[i] = fetcher.ErrBlacklistedSender
			default:
				errs[i] = fetcher.ErrInvalidSender
			}
		}
		return errs
	}
	fetchTxs := func(peer string, hashes []common.Hash) error { return nil }
	res := c18Setup(func() {
		w.f = fetcher.NewTxFetcherForTests(hasTx, addTxs, fetchTxs, w.clk, mrand.New(w.src))
		w.f.VerifSetStep(w.step)
		w.f.Start()
	})
	if res.panicked || res.hang {
		j.Fail("setup-txfetcher", res.pmsg+" "+res.site)
		return
	}
	defer w.f.Stop()
	j.InOnly("FI")
	nops := 8 + r.Intn(30)
	if c.tier == "thorough" {
		nops += r.Intn(30)
	}
	if big5k {
		nops = 4 + r.Intn(5) // the trackers hold thousands of entries: keep the model's work small
	}
	pickHashes := func() []common.Hash {
		n := 1 + r.Intn(4)
		if r.Chance(1, 12) {
			n = 0
		}
		if big5k && r.Chance(1, 3) {
			n = 3000 + r.Intn(2500)
			if n > len(w.hashes) {
				n = len(w.hashes)
			}
			s := r.Intn(len(w.hashes) - n + 1)
			return append([]common.Hash(nil), w.hashes[s:s+n]...)
		}
		var hs []common.Hash
		for i := 0; i < n; i++ {
			// few distinct hashes, so that peers overlap
			var k int
			if r.Chance(3, 4) {
				k = txIdx[r.Intn(len(txIdx))]
			} else {
				k = r.Intn(len(w.hashes))
			}
			hs = append(hs, w.hashes[k])
		}
		return hs
	}
	npeers := 2 + r.Intn(3)
	var st fetcher.VerifState
	snap := func(what string) bool {
		st = w.f.VerifState()
		j.Result(w.render(st, true))
		if msg := w.invariants(st); msg != "" {
			j.Fail("txfetcher-bookkeeping", msg+" -- after: "+what)
			return false
		}
		return true
	}
	st = w.f.VerifState()
	hist := []string{}
	for k := 0; k < nops && !c.dead; k++ {
		w.src.k = int64(r.Intn(8))
		now := w.clk.nowMs()
		// a timer that is already due fires before anything else
		dl := w.clk.deadlines()
		kind := r.Pick(34, 26, 14, 24, 2)
		if len(dl) > 0 && dl[0] <= now {
			kind = 3
		}
		switch kind {
		case 0:
			p := r.Intn(npeers)
			hs := pickHashes()
			unknown := 0
			for _, h := range hs {
				if !w.known[h] && !w.under[h] {
					unknown++
				}
			}
			in := fmt.Sprintf("FN %d %d %s", w.src.k, p, c18Ints(w.hs(hs), false))
			hist = append(hist, c18Short(in))
			j.Count("fetcher/notify")
			j.Pending(in)
			w.f.Notify(c18PeerNames[p], hs)
			exp := 0
			if unknown > 0 {
				exp = 1
			}
			if !w.waitSteps(exp, in) {
				j.Result("HANG")
				return
			}
			if !snap(strings.Join(hist, " ; ")) {
				return
			}
		case 1:
			p := r.Intn(npeers)
			direct := r.Bool()
			var ids []int
			if rq, ok := st.Requests[c18PeerNames[p]]; ok && r.Chance(3, 4) {
				direct = r.Chance(4, 5)
				// answer to the request: all of it, a part, a permutation, something else on top
				for _, h := range rq.Hashes {
					if _, real := w.txs[w.idx[h]]; real && r.Chance(3, 4) {
						ids = append(ids, w.idx[h])
					}
				}
				if r.Chance(1, 4) && len(ids) > 1 {
					ids[0], ids[len(ids)-1] = ids[len(ids)-1], ids[0]
				}
				if r.Chance(1, 5) {
					ids = append(ids, txIdx[r.Intn(len(txIdx))])
				}
			} else {
				for i, n := 0, r.Intn(4); i < n; i++ {
					ids = append(ids, txIdx[r.Intn(len(txIdx))])
				}
				// what somebody else is being asked for: a stolen delivery
				if len(st.Fetching) > 0 && r.Chance(1, 2) {
					var fs []int
					for h := range st.Fetching {
						if _, real := w.txs[w.idx[h]]; real {
							fs = append(fs, w.idx[h])
						}
					}
					sort.Ints(fs)
					if len(fs) > 0 {
						ids = append(ids, fs[r.Intn(len(fs))])
					}
				}
			}
			var txs []*types.Transaction
			var parts []string
			seen := map[int]bool{}
			w.mu.Lock()
			for _, id := range ids {
				if seen[id] {
					continue // one verdict per transaction and delivery
				}
				seen[id] = true
				tx := w.txs[id]
				v := 0
				if w.known[tx.Hash()] {
					v = 1
				} else {
					v = []int{0, 0, 0, 0, 0, 0, 0, 2, 3, 4}[r.Intn(10)]
				}
				w.verd[tx.Hash()] = v
				txs = append(txs, tx)
				parts = append(parts, fmt.Sprintf("%d:%d", id, v))
			}
			w.mu.Unlock()
			d := 0
			if direct {
				d = 1
			}
			lst := "-"
			if len(parts) > 0 {
				lst = strings.Join(parts, ",")
			}
			in := fmt.Sprintf("FE %d %d %d %s", w.src.k, p, d, lst)
			hist = append(hist, in)
			j.Count(fmt.Sprintf("fetcher/enqueue-direct=%d", d))
			j.Pending(in)
			w.f.Enqueue(c18PeerNames[p], txs, direct)
			if !w.waitSteps(1, in) {
				j.Result("HANG")
				return
			}
			if !snap(strings.Join(hist, " ; ")) {
				return
			}
		case 2:
			p := r.Intn(npeers)
			name := c18PeerNames[p]
			// the Go loops of rescheduleWait / rescheduleTimeout stop early at the first entry that is
			// about to expire; with two such entries of different age the timer depends on map order
			old := map[int64]bool{}
			if _, ok := st.Waitslots[name]; ok {
				for _, t := range st.Waittime {
					if now-t/1e6 > 400 {
						old[t] = true
					}
				}
			}
			oldr := map[int64]bool{}
			if _, ok := st.Requests[name]; ok {
				for q, rq := range st.Requests {
					if q != name && !rq.Dangling && now-rq.Time/1e6 > 4900 {
						oldr[rq.Time] = true
					}
				}
			}
			if len(old) > 1 || len(oldr) > 1 {
				j.Count("fetcher/drop-skipped-ambiguous-timer")
				continue
			}
			in := fmt.Sprintf("FD %d %d", w.src.k, p)
			hist = append(hist, in)
			j.Count("fetcher/drop")
			j.Pending(in)
			w.f.Drop(name)
			if !w.waitSteps(1, in) {
				j.Result("HANG")
				return
			}
			if !snap(strings.Join(hist, " ; ")) {
				return
			}
		case 3:
			d := []int64{0, 1, 50, 99, 100, 101, 399, 400, 401, 499, 500, 501, 600, 1000, 4899, 4900, 4901, 4999, 5000, 5001, 6000}[r.Intn(21)]
			if len(dl) > 0 {
				// never more than one timer per step of the clock (two triggers at once are taken in
				// random order by the loop's select)
				if len(dl) > 1 && dl[0] == dl[1] && dl[0] <= now+d {
					j.Count("fetcher/ended-two-timers-at-once")
					return
				}
				if dl[0] <= now+d || r.Chance(1, 3) {
					d = dl[0] - now
					if d < 0 {
						d = 0
					}
					if r.Chance(1, 5) && dl[0] > now {
						d-- // one millisecond short of the deadline
					}
				}
			}
			in := fmt.Sprintf("FT %d %d", w.src.k, d)
			hist = append(hist, in)
			j.Count("fetcher/advance")
			j.Pending(in)
			w.clk.mu.Lock()
			f0 := w.clk.fired
			w.clk.mu.Unlock()
			w.clk.Run(time.Duration(d) * time.Millisecond)
			w.clk.mu.Lock()
			fired := w.clk.fired - f0
			w.clk.mu.Unlock()
			if fired > 0 {
				j.Count("fetcher/timer-fired")
			}
			if !w.waitSteps(fired, in) {
				j.Result("HANG")
				return
			}
			if !snap(strings.Join(hist, " ; ")) {
				return
			}
		case 4:
			// the pool learns a transaction by other means
			id := txIdx[r.Intn(len(txIdx))]
			w.mu.Lock()
			w.known[w.txs[id].Hash()] = true
			w.mu.Unlock()
			in := fmt.Sprintf("FK %d", id)
			hist = append(hist, in)
			j.InOnly(in)
		}
		if len(hist) > 14 {
			hist = hist[len(hist)-14:]
		}
	}
	j.Mark(fmt.Sprintf("fetcher-%d-%d-%d", len(st.Requests), len(st.Fetching), len(st.Waitlist)))
	if c.dead {
		return
	}
	// every peer goes away: nothing may stay behind in any tracker (timers are left out of the
	// comparison here: which entry the early break of rescheduleWait/Timeout stops at is map order)
	for p := 0; p < len(c18PeerNames); p++ {
		w.src.k = int64(r.Intn(8))
		in := fmt.Sprintf("FDX %d %d", w.src.k, p)
		j.Count("fetcher/drop-all")
		j.Pending(in)
		w.f.Drop(c18PeerNames[p])
		if !w.waitSteps(1, in) {
			j.Result("HANG")
			return
		}
		st = w.f.VerifState()
		j.Result(w.render(st, false))
		if msg := w.invariants(st); msg != "" {
			j.Fail("txfetcher-bookkeeping", msg+" -- after: "+strings.Join(hist, " ; ")+" ; then every peer dropped")
			return
		}
	}
	if n := len(st.Waitlist) + len(st.Waittime) + len(st.Waitslots) + len(st.Announces) + len(st.Announced) + len(st.Fetching) + len(st.Requests) + len(st.Alternates); n > 0 {
		j.Fail("fetcher-state-leaked-after-all-peers-dropped", fmt.Sprintf("%d entries stay behind with no peer connected (waitlist=%d waittime=%d waitslots=%d announces=%d announced=%d fetching=%d requests=%d alternates=%d) -- after: %s ; then every peer dropped",
			n, len(st.Waitlist), len(st.Waittime), len(st.Waitslots), len(st.Announces), len(st.Announced), len(st.Fetching), len(st.Requests), len(st.Alternates), strings.Join(hist, " ; ")))
	}
}

// ---------------------------------------------------------------------------------------------
// The same sequence on the real reactor, in real time, with real peers: A announces, the wait
// timeout passes and A is asked, A is removed, B (or A's successor) delivers; afterwards the
// fetcher must still serve a new announcement

func c18TxEncode(txs []*types.Transaction, pooled bool) []byte {
	var raw [][]byte
	for _, tx := range txs {
		b, _ := rlp.EncodeToBytes(tx)
		raw = append(raw, b)
	}
	var m *prototx.Message
	if pooled {
		m = &prototx.Message{Sum: &prototx.Message_PooledTransactions{PooledTransactions: &prototx.PooledTransactions{Txs: raw}}}
	} else {
		m = &prototx.Message{Sum: &prototx.Message_Txs{Txs: &prototx.Txs{Txs: raw}}}
	}
	bz, _ := m.Marshal()
	return bz
}

func c18TxRequested(p *c18Peer, h common.Hash) bool {
	p.mtx.Lock()
	defer p.mtx.Unlock()
	for _, s := range p.sent {
		pm := prototx.Message{}
		if pm.Unmarshal(s[1].([]byte)) != nil {
			continue
		}
		if rq, ok := pm.Sum.(*prototx.Message_RequestPooledTransactions); ok {
			for _, x := range rq.RequestPooledTransactions.Hashes {
				if common.BytesToHash(x) == h {
					return true
				}
			}
		}
	}
	return false
}

// waits (polling) until cond holds; the deadline only bounds a really stuck node
func c18Until(cond func() bool, max time.Duration) bool {
	dl := time.Now().Add(max)
	for !cond() {
		if time.Now().After(dl) {
			return false
		}
		time.Sleep(5 * time.Millisecond)
	}
	return true
}

func (c *c18Ctx) txDropScenario(w *c18TxWorld, txR *tx_pool.Reactor, sw *p2p.Switch, mkSigned func() *types.Transaction) {
	r, j := c.r, c.j
	j.Count("tx/drop-scenario")
	a := c18NewPeer(p2p.ID("aaaaaaaaaaaaaaaaaaaaaaaaaaaaaaaaaaaaaaaa"))
	b := c18NewPeer(p2p.ID("bbbbbbbbbbbbbbbbbbbbbbbbbbbbbbbbbbbbbbbb"))
	for _, p := range []*c18Peer{a, b} {
		c18AddToSwitch(sw, p)
		txR.AddPeer(p)
	}
	tx := mkSigned()
	if tx == nil {
		return
	}
	both := r.Chance(1, 3) // B announces it too: A's request has an alternate
	variant := r.Intn(4)
	j.Pending(fmt.Sprintf("TS both=%v variant=%d", both, variant))
	ann := tx_pool.MustEncode(tx_pool.NewPooledTransactionHashes{tx.Hash()})
	res := c18Guard(func() {
		txR.Receive(tx_pool.TxpoolChannel, a, ann)
		if both {
			txR.Receive(tx_pool.TxpoolChannel, b, ann)
		}
	})
	if obs, term := c.classify(res, "txpool drop scenario: announcement", "alloc-txpool-hashes"); term {
		j.Result(obs)
		return
	}
	// the arrive timeout passes: one of the announcers is asked
	asked := c18Until(func() bool { return c18TxRequested(a, tx.Hash()) || c18TxRequested(b, tx.Hash()) }, c18HangConfirm)
	if !asked {
		j.Result("NOFETCH")
		j.Fail("txfetcher-stopped-fetching", "an announced transaction was never requested from its announcer")
		return
	}
	first, second := a, b
	if c18TxRequested(b, tx.Hash()) {
		first, second = b, a
	}
	// the peer that was asked goes away before answering
	switch variant {
	case 0, 1:
		sw.StopPeerForError(first, fmt.Errorf("c18: gone"))
	case 2:
		c18Guard(func() { txR.Receive(tx_pool.TxpoolChannel, first, []byte{0xff}) }) // malformed: stopped by the reactor
	case 3:
		// stays, but never answers
	}
	time.Sleep(time.Duration(r.Intn(20)) * time.Millisecond)
	// somebody else has the transaction
	res = c18Guard(func() { txR.Receive(tx_pool.TxpoolChannel, second, c18TxEncode([]*types.Transaction{tx}, variant == 1)) })
	if obs, term := c.classify(res, "txpool drop scenario: delivery from another peer", "alloc-txpool-txs"); term {
		j.Result(obs)
		return
	}
	time.Sleep(30 * time.Millisecond)
	// the fetcher is alive and has not lost track: a new announcement from a new peer is served
	cpeer := c18NewPeer(p2p.ID("cccccccccccccccccccccccccccccccccccccccc"))
	c18AddToSwitch(sw, cpeer)
	txR.AddPeer(cpeer)
	tx2 := mkSigned()
	if tx2 != nil {
		c18Guard(func() {
			txR.Receive(tx_pool.TxpoolChannel, cpeer, tx_pool.MustEncode(tx_pool.NewPooledTransactionHashes{tx2.Hash()}))
		})
		if !c18Until(func() bool { return c18TxRequested(cpeer, tx2.Hash()) }, c18HangConfirm) {
			j.Result("NOFETCH")
			j.Fail("txfetcher-stopped-fetching", fmt.Sprintf("after announce / request / drop (variant %d, both=%v) / delivery by another peer, a new announcement from a new peer was not requested within a minute", variant, both))
			return
		}
	}
	if !w.pool.Has(tx.Hash()) {
		errs := w.pool.AddRemotes([]*types.Transaction{tx})
		j.Count(fmt.Sprintf("tx/drop-scenario-tx-not-pooled:%v", errs))
	}
	j.Result("OK")
	for _, p := range []*c18Peer{a, b, cpeer} {
		if p.IsRunning() {
			sw.StopPeerForError(p, fmt.Errorf("c18: end of scenario"))
		}
	}
}
