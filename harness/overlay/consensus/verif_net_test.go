//go:build verif

// C01 / C04 in-package network harness (injected with `go test -overlay`, tag verif; nothing in
// /repo is edited).
//
// n = 4..7 REAL ConsensusStates (distinct keys, random voting powers, f Byzantine validators with
// less than one third of the power) are connected by a simulated network owned by the harness.
// Every message a correct node emits (own proposal, block parts, votes: taken from
// cs.internalMsgQueue, i.e. exactly what the reactor gossips once the node has processed it) goes
// into a pool; a seeded scheduler picks the next delivery (delay, drop, duplicate, reorder,
// partitions that heal) or the next timeout to fire.  Byzantine validators are played by the harness
// with the real keys (equivocating proposals/votes, withholding, amnesia, a prevote presented as a
// precommit, stale messages, adversarial timestamps, relays).  After an adversarial prefix every
// height is finished under a synchronous network (reliable gossip modelled on manager.go: a node is
// given the votes of the rounds it tracks, the proposal of its round, the parts it is waiting for,
// and the commit + block of a height it is behind on; timeouts fire in deadline order only when
// nothing is deliverable).
//
// TestVerifC01: signature log of all validators per height (trace of coq/theories/C01/Agreement.v),
// commits of correct nodes; direct oracles agreement / commit-without-quorum / obligations /
// block sync through the real blockchain processor; the extracted checker (Checker.all_obey_b,
// commit_quorum_b) is run on the same trace by ocaml/C01/driver.ml.
// TestVerifC04: progress oracle (no-progress with the stuck state dumped), restarts from the saved
// state, start from a genesis document; the decisions of the REAL timeoutTicker routine
// (scheduled / ignored, read from its log records) and the timeouts fired are replayed against the
// Coq Ticker model by ocaml/C04/driver.ml.
package consensus

import (
	"bufio"
	"encoding/json"
	"flag"
	"fmt"
	"math/big"
	"os"
	"path/filepath"
	"runtime/debug"
	"sort"
	"strings"
	"sync"
	"testing"
	"time"

	"github.com/kardiachain/go-kardia/blockchain"
	"github.com/kardiachain/go-kardia/configs"
	cstypes "github.com/kardiachain/go-kardia/consensus/types"
	"github.com/kardiachain/go-kardia/kai/kaidb"
	"github.com/kardiachain/go-kardia/kai/kaidb/memorydb"
	"github.com/kardiachain/go-kardia/kai/rawdb"
	"github.com/kardiachain/go-kardia/kai/state/cstate"
	"github.com/kardiachain/go-kardia/lib/common"
	"github.com/kardiachain/go-kardia/lib/crypto"
	"github.com/kardiachain/go-kardia/lib/log"
	"github.com/kardiachain/go-kardia/lib/p2p"
	"github.com/kardiachain/go-kardia/mainchain/genesis"
	stypes "github.com/kardiachain/go-kardia/mainchain/staking/types"
	kproto "github.com/kardiachain/go-kardia/proto/kardiachain/types"
	"github.com/kardiachain/go-kardia/trie"
	"github.com/kardiachain/go-kardia/types"
)

// ---------------------------------------------------------------------------------------------
// flags (shared by the overlay files compiled into one test binary: registered once) and the two
// tiny helpers copied from verif/harness/internal/{gen,out}

var (
	netSeed = flag.Uint64("seed", 1, "PRNG seed")
	netN    = flag.Int("n", 10, "number of generated runs")
	netDir  = flag.String("out", "", "output directory")
	netOnly = flag.Int("only", -1, "run only this case index")
	netTier = flag.String("tier", "quick", "quick|thorough")
	netFac  = flag.String("facts", "", "unused (no source-derived facts)")
)

// Hooks filled in by verif_c01_test.go, which is part of C01's overlay only (C04's test binary does
// not contain that file: every hook is nil there and the C04 runs are exactly what they were).
var (
	netC01Pick      func(idx int) string                                  // scripted family of C01 run idx ("" = random run)
	netC01Direct    func(o *netOut, r *netRand, idx int, kind string)     // families that need no network ("direct:...")
	netC01Roles     func(s *netSim, vals []*types.Validator)              // Byzantine set / roles of a scripted C01 run
	netC01Run       func(s *netSim) bool                                  // scripted prefix of a C01 run
	netC01AfterStep func(s *netSim, nd *netNode, what string)             // state oracles after every input of a node
	netC01OnSign    func(s *netSim, node int, ht *netHeight, e netSig, bid types.BlockID) // oracles on a correct node's signature
	netC01SyncKinds func(s *netSim, h uint64, ht *netHeight, first, second *types.Block, kind string) (*types.Block, *types.Block, bool)
	netC01ByzCommit func(s *netSim, h uint64, commit *types.Commit) (*types.Commit, string) // forged LastCommit of a Byzantine proposal
	netC01NoteBlock func(s *netSim, blk *types.Block, kind string)                          // a Byzantine block and how it was made
	netC01ByzExtra  func(s *netSim, tgt *netNode, b int, h uint64, round uint32) bool      // additional Byzantine strategies (true = acted)
	netC01OnCommit  func(s *netSim, nd *netNode, ht *netHeight, seen *types.Commit)          // oracles on a correct node's commit
)

// ---- C04 section: hooks filled in by verif_c04_test.go, which is part of C04's overlay only (nil in
// C01's test binary: the C01 runs are exactly what they were).
var (
	netC04AfterStep func(s *netSim, nd *netNode, what string)           // state oracles after every input of a node
	netC04Tock      func(s *netSim, nd *netNode, ti timeoutInfo) func() // called before handleTimeout; the result after it
	netC04Extra     func(o *netOut, r *netRand, idx int, k int)         // k-th direct family case (no network), case index idx
	netC04ExtraN    func(n int) int                                     // number of direct family cases after n runs
	netC04Facts     func() string                                       // Generated/C04Facts.v (-facts)
)

// ---- end of C04 section

type netRand struct{ s uint64 }

func netNewRand(seed uint64) *netRand { return &netRand{s: seed*0x9E3779B97F4A7C15 + 0x7654321} }
func (r *netRand) Fork(i uint64) *netRand {
	return &netRand{s: r.s ^ (i+1)*0xBF58476D1CE4E5B9}
}
func (r *netRand) U64() uint64 {
	r.s += 0x9E3779B97F4A7C15
	z := r.s
	z = (z ^ (z >> 30)) * 0xBF58476D1CE4E5B9
	z = (z ^ (z >> 27)) * 0x94D049BB133111EB
	return z ^ (z >> 31)
}
func (r *netRand) Intn(n int) int {
	if n <= 0 {
		return 0
	}
	return int(r.U64() % uint64(n))
}
func (r *netRand) Chance(num, den int) bool { return r.Intn(den) < num }
func (r *netRand) Pick(weights ...int) int {
	t := 0
	for _, w := range weights {
		t += w
	}
	x := r.Intn(t)
	for i, w := range weights {
		if x < w {
			return i
		}
		x -= w
	}
	return len(weights) - 1
}
func (r *netRand) Perm(n int) []int {
	p := make([]int, n)
	for i := range p {
		p[i] = i
	}
	for i := n - 1; i > 0; i-- {
		j := r.Intn(i + 1)
		p[i], p[j] = p[j], p[i]
	}
	return p
}

type netOut struct {
	dir           string
	in, impl, orc *bufio.Writer
	files         []*os.File
	dist          map[string]int
	samples       []string
	cases, ops    int
	nontrivial    map[string]bool
	rule          string
	fails         int
	curCase       int
	curSample     []string
}

func netOpen(dir string) *netOut {
	os.MkdirAll(dir, 0o755)
	o := &netOut{dir: dir, dist: map[string]int{}, nontrivial: map[string]bool{}}
	for _, n := range []string{"in.txt", "impl.txt", "oracle.txt"} {
		f, err := os.Create(filepath.Join(dir, n))
		if err != nil {
			panic(err)
		}
		o.files = append(o.files, f)
	}
	o.in, o.impl, o.orc = bufio.NewWriterSize(o.files[0], 1<<20), bufio.NewWriterSize(o.files[1], 1<<20), bufio.NewWriterSize(o.files[2], 1<<16)
	return o
}
func (o *netOut) flushSample() {
	if o.curSample != nil && len(o.samples) < 3 {
		o.samples = append(o.samples, strings.Join(o.curSample, "\n")+"\n")
	}
	o.curSample = nil
}
func (o *netOut) Case(n int, header string) {
	o.flushSample()
	o.curCase = n
	o.cases++
	fmt.Fprintln(o.in, header)
	fmt.Fprintf(o.impl, "CASE %d\n", n)
	o.curSample = []string{header}
}
func (o *netOut) Op(input, observed string) {
	o.ops++
	fmt.Fprintln(o.in, input)
	fmt.Fprintln(o.impl, observed)
	if len(o.curSample) < 40 {
		o.curSample = append(o.curSample, input+"  =>  "+observed)
	}
}
func (o *netOut) InOnly(line string) {
	fmt.Fprintln(o.in, line)
	if len(o.curSample) < 40 {
		o.curSample = append(o.curSample, line)
	}
}
func (o *netOut) Fail(step int, class, detail string) {
	o.fails++
	fmt.Fprintf(o.orc, "FAIL case=%d step=%d class=%s %s\n", o.curCase, step, class, strings.ReplaceAll(detail, "\n", " | "))
}
func (o *netOut) Count(k string) { o.dist[k]++ }
func (o *netOut) Mark(k string)  { o.nontrivial[k] = true }
func (o *netOut) Close() {
	o.flushSample()
	o.in.Flush()
	o.impl.Flush()
	o.orc.Flush()
	for _, f := range o.files {
		f.Close()
	}
	st := map[string]interface{}{"cases": o.cases, "ops": o.ops, "distinct_nontrivial": len(o.nontrivial),
		"rule": o.rule, "dist": o.dist, "samples": o.samples, "oracle_failures": o.fails, "seed": *netSeed}
	b, _ := json.MarshalIndent(st, "", " ")
	os.WriteFile(filepath.Join(o.dir, "stats.json"), b, 0o644)
}

func netGuarded(f func()) (panicked string) {
	defer func() {
		if r := recover(); r != nil {
			panicked = fmt.Sprint(r)
			if panicked == "" {
				panicked = "panic"
			}
			if os.Getenv("NET_DEBUG") != "" {
				fmt.Println(panicked)
				fmt.Println(string(debug.Stack()))
			}
		}
	}()
	f()
	return ""
}

func netB(b bool) int {
	if b {
		return 1
	}
	return 0
}

// ---------------------------------------------------------------------------------------------
// the real timeoutTicker as the decision procedure for ScheduleTimeout

// netTickLog captures the log records of one real timeoutTicker routine: "Received tick" for every
// request and "Scheduled timeout" when the request replaced the pending timeout.
type netTickLog struct {
	mu        sync.Mutex
	cond      *sync.Cond
	received  int
	scheduled int
}

func (l *netTickLog) Log(r *log.Record) error {
	switch r.Msg {
	case "Received tick":
		l.mu.Lock()
		l.received++
		l.cond.Broadcast()
		l.mu.Unlock()
	case "Scheduled timeout":
		l.mu.Lock()
		l.scheduled++
		l.mu.Unlock()
	}
	return nil
}

// netTicker implements TimeoutTicker.  Acceptance of a request is decided by the REAL
// timeoutRoutine (ticker.go) running in its goroutine: the request is forwarded with a duration of
// an hour (the real timer never fires during a run) followed by a sentinel request for height 0,
// which the routine always ignores; when the sentinel has been received the decision on the
// request is final and is read off the log records.  Firing is done by the harness: the pending
// timeout is the last accepted request (what timer.Reset(ti.Duration) arms).
type netTicker struct {
	sim      *netSim
	node     int
	real     TimeoutTicker
	lg       *netTickLog
	sent     int
	pending  *timeoutInfo
	deadline time.Duration // virtual time at which the pending timeout fires in the synchronous phase
	tocks    []timeoutInfo // fired, not yet handled by the receive routine (tockChan)
	trans    timeoutInfo   // the transcription of the filter, cross-checked against the real routine
	stuck    bool          // C04 section: the real routine did not answer within netTickWait
}

func netNewTicker(sim *netSim, node int) *netTicker {
	t := &netTicker{sim: sim, node: node, trans: *EmptyTimeoutInfo()}
	t.lg = &netTickLog{}
	t.lg.cond = sync.NewCond(&t.lg.mu)
	for try := 0; t.real == nil && try < 100; try++ {
		netGuarded(func() { t.real = NewTimeoutTicker() }) // see NewConsensusState below: nil logger in stopTimer
	}
	l := log.New()
	l.SetHandler(t.lg)
	t.real.SetLogger(l)
	t.real.Start()
	return t
}

func (t *netTicker) Start() error             { return nil }
func (t *netTicker) Stop() error              { return nil }
func (t *netTicker) Chan() <-chan timeoutInfo { return nil }
func (t *netTicker) SetLogger(log.Logger)     {}

// C04 section: the only wall-clock wait of the harness.  It is reached only when the timeoutRoutine does
// not read its tick channel at all (a failure); generous, so that a heavily loaded machine cannot
// produce it, and paid once per ticker (a ticker that did not answer is not asked again).
const netTickWait = 120 * time.Second

func (t *netTicker) waitReceived(n int) bool {
	done := make(chan struct{})
	go func() {
		t.lg.mu.Lock()
		for t.lg.received < n {
			t.lg.cond.Wait()
		}
		t.lg.mu.Unlock()
		close(done)
	}()
	select {
	case <-done:
		return true
	case <-time.After(netTickWait):
		return false
	}
}

func (t *netTicker) ScheduleTimeout(newti timeoutInfo) {
	if t.stuck { // C04 section: see netTickWait
		return
	}
	t.lg.mu.Lock()
	before := t.lg.scheduled
	t.lg.mu.Unlock()
	fwd := newti
	fwd.Duration = time.Hour
	t.real.ScheduleTimeout(fwd)
	t.real.ScheduleTimeout(timeoutInfo{Duration: time.Hour, Height: 0, Round: 0, Step: 0})
	t.sent += 2
	if !t.waitReceived(t.sent) {
		t.stuck = true
		t.sim.fail("harness-ticker-stuck", fmt.Sprintf("node=%d the timeoutRoutine did not answer", t.node))
		return
	}
	t.lg.mu.Lock()
	accepted := t.lg.scheduled > before
	t.lg.mu.Unlock()
	// transcription (ticker.go timeoutRoutine), only to cross-check the reading of the log
	ti := t.trans
	tr := true
	if newti.Height < ti.Height {
		tr = false
	} else if newti.Height == ti.Height {
		if newti.Round < ti.Round {
			tr = false
		} else if newti.Round == ti.Round {
			if ti.Step > 0 && newti.Step <= ti.Step {
				tr = false
			}
		}
	}
	if tr {
		t.trans = newti
	}
	if tr != accepted {
		t.sim.fail("harness-ticker-transcription", fmt.Sprintf("node=%d %d/%d/%d real=%v transcription=%v", t.node, newti.Height, newti.Round, newti.Step, accepted, tr))
	}
	t.sim.tickOp(fmt.Sprintf("S %d %d %d %d", t.node, newti.Height, newti.Round, int(newti.Step)), map[bool]string{true: "acc", false: "ign"}[accepted])
	if accepted {
		c := newti
		t.pending = &c
		d := newti.Duration
		if newti.Step == cstypes.RoundStepNewHeight {
			d = t.sim.nodes0(t.node).TimeoutCommit // StartTime-now depends on the real clock: use the configured wait
		}
		if d < 0 {
			d = 0
		}
		t.deadline = t.sim.vnow + d
	}
}

// fire: timer.C -> tockChan (the pending timeout leaves the timer)
func (t *netTicker) fire() bool {
	if t.pending == nil {
		return false
	}
	ti := *t.pending
	t.pending = nil
	t.tocks = append(t.tocks, ti)
	t.sim.tickOp(fmt.Sprintf("F %d", t.node), fmt.Sprintf("fire %d %d %d", ti.Height, ti.Round, int(ti.Step)))
	return true
}

// ---------------------------------------------------------------------------------------------
// block store / application stub of one node (rawdb over the node's memorydb, like kvstore)

type netBlockOps struct {
	node   *netNode
	db     kaidb.Database
	height uint64
	blocks map[uint64]*types.Block
	parts  map[uint64]*types.PartSet
	seen   map[uint64]*types.Commit
}

func (b *netBlockOps) Base() uint64                         { return 0 }
func (b *netBlockOps) Height() uint64                       { return b.height }
func (b *netBlockOps) LoadBlock(height uint64) *types.Block { return b.blocks[height] }
func (b *netBlockOps) LoadBlockCommit(height uint64) *types.Commit {
	if nx := b.blocks[height+1]; nx != nil {
		return nx.LastCommit()
	}
	return nil
}
func (b *netBlockOps) LoadSeenCommit(height uint64) *types.Commit { return rawdb.ReadSeenCommit(b.db, height) }

// CreateProposalBlock mirrors blockchain.BlockOperations.CreateProposalBlock (no txs, no evidence).
func (b *netBlockOps) CreateProposalBlock(height uint64, state cstate.LatestBlockState, proposerAddr common.Address, commit *types.Commit) (*types.Block, *types.PartSet) {
	var ts time.Time
	if height == 1 {
		ts = state.LastBlockTime
	} else {
		ts = cstate.MedianTime(commit, state.LastValidators)
	}
	h := &types.Header{Height: height, Time: ts, LastBlockID: state.LastBlockID, ProposerAddress: proposerAddr,
		ValidatorsHash: state.Validators.Hash(), NextValidatorsHash: state.NextValidators.Hash(), AppHash: state.AppHash,
		GasLimit: configs.BlockGasLimit}
	blk := types.NewBlock(h, nil, commit, nil, trie.NewStackTrie(nil))
	ps := blk.MakePartSet(types.BlockPartSizeBytes)
	b.node.sim.height(height, &state)
	b.node.sim.noteBlock(blk, ps, true)
	// diagnostic only: is the node's own proposal a valid block? (fresh executor: no cache)
	if err := cstate.NewBlockExecutor(b.node.store, log.New(), netEv{}, b).ValidateBlock(state, blk); err != nil {
		b.node.sim.o.Count("own-proposal-invalid")
		b.node.sim.ownInvalid = fmt.Sprintf("node %d h=%d: %v", b.node.id, height, err)
	}
	return blk, ps
}

// CommitAndValidateBlockTxs: the application.  Validator updates are a function of the block height
// only (the run's plan), so every node computes the same next validator set.
func (b *netBlockOps) CommitAndValidateBlockTxs(block *types.Block, lastCommit stypes.LastCommitInfo, byzVals []stypes.Evidence) ([]*types.Validator, common.Hash, error) {
	return b.node.sim.appValidators(block.Height()), common.Hash{}, nil
}

// SaveBlock mirrors blockchain.BlockOperations.SaveBlock's sanity checks and kvstore's writes.
func (b *netBlockOps) SaveBlock(block *types.Block, partSet *types.PartSet, seenCommit *types.Commit) {
	if block == nil {
		common.PanicSanity("BlockOperations try to save a nil block")
	}
	if g, w := block.Height(), b.height+1; g != w {
		common.PanicSanity(common.Fmt("BlockOperations can only save contiguous blocks. Wanted %v, got %v", w, g))
	}
	if !partSet.IsComplete() {
		panic("BlockOperations can only save complete block part sets")
	}
	rawdb.WriteBlock(b.db, block, partSet, seenCommit)
	rawdb.WriteHeadBlockHash(b.db, block.Hash())
	b.blocks[block.Height()] = block
	b.parts[block.Height()] = partSet
	b.seen[block.Height()] = seenCommit
	b.height = block.Height()
	if b.node != nil && b.node.sim != nil {
		b.node.sim.onCommit(b.node, block, partSet, seenCommit)
	}
}
func (b *netBlockOps) LoadBlockPart(height uint64, index int) *types.Part {
	if ps := b.parts[height]; ps != nil {
		return ps.GetPart(index)
	}
	return nil
}
func (b *netBlockOps) LoadBlockMeta(height uint64) *types.BlockMeta {
	if blk := b.blocks[height]; blk != nil {
		return types.NewBlockMeta(blk, b.parts[height])
	}
	return nil
}
func (b *netBlockOps) Config() *configs.ChainConfig { return configs.TestChainConfig }

type netEv struct{}

func (netEv) AddEvidenceFromConsensus(ev types.Evidence) error        { return nil }
func (netEv) Update(s cstate.LatestBlockState, ev types.EvidenceList) {}
func (netEv) CheckEvidence(evList types.EvidenceList) error           { return nil }

// netPV records every signature of a correct validator in the global chronological trace before
// delegating to the real DefaultPrivValidator.
type netPV struct {
	*types.DefaultPrivValidator
	node *netNode
}

func (p *netPV) SignVote(chainID string, vote *kproto.Vote) error {
	bid, _ := types.BlockIDFromProto(&vote.BlockID)
	if cs := p.node.cs; cs != nil && cs.Height == vote.Height {
		p.node.sim.height(vote.Height, &cs.state)
	}
	p.node.sim.logSig(p.node.id, vote.Type, vote.Height, vote.Round, *bid)
	return p.DefaultPrivValidator.SignVote(chainID, vote)
}
func (p *netPV) SignProposal(chainID string, proposal *kproto.Proposal) error {
	p.node.sim.o.Count("sig:proposal")
	return p.DefaultPrivValidator.SignProposal(chainID, proposal)
}

// ---------------------------------------------------------------------------------------------
// the simulated network

const netChainID = "kaicon"

var netGenesisTime = time.Unix(1600000000, 0).UTC()

type netNode struct {
	sim    *netSim
	id     int // node id = key index
	byz    bool
	key    *types.DefaultPrivValidator
	cs     *ConsensusState
	ticker *netTicker
	bo     *netBlockOps
	db     kaidb.Database
	store  cstate.Store
	eb     *types.EventBus
	cfg    *configs.ConsensusConfig
	dead   string
	seen   map[int]bool // archive message ids already handed to this node
	seenAt map[int]int  // ... and the node's maj23 epoch at that time
	majSet map[string]bool
	majEpoch int
	restarts int
}

type netSig struct {
	val   int // validator index at that height
	node  int
	typ   int // 1 prevote, 2 precommit
	round uint32
	bid   int // 0 = nil
	lock  string // C01: a correct validator's (LockedBlock@LockedRound) when it signed a precommit for a block
}

type netCommitRec struct {
	node  int
	round uint32
	bid   int
	hash  common.Hash
}

type netMsg struct {
	id    int
	h     uint64
	kind  byte // 'V' 'P' 'B'
	vote  *types.Vote
	prop  *types.Proposal
	part  *types.Part
	round uint32 // block part: round field
	psh   types.PartSetHeader
	from  int // node id of the origin
}

type netFlight struct {
	m    *netMsg
	from int
	to   int
}

// everything the harness knows about one height
type netHeight struct {
	h       uint64
	vals    *types.ValidatorSet
	idxOf   map[int]int // node id -> validator index
	nodeOf  []int       // validator index -> node id
	powers  []int64
	total   int64
	state   *cstate.LatestBlockState // chain state before this height (from the first correct node that reached it)
	bids    map[string]int
	bidList []types.BlockID
	trace   []netSig
	sigSeen map[string]bool
	archive []*netMsg
	arcKey  map[string]*netMsg
	parts   map[string]map[int]*types.Part // parts known to correct nodes, by part set header
	blocks  map[common.Hash]*types.Block    // blocks known to the harness (own blocks of correct nodes, Byzantine blocks)
	psets   map[common.Hash]*types.PartSet
	blockL  []common.Hash
	commits []netCommitRec
	syncR0  int // highest round of a correct node when the synchronous phase for this height began (-1: not begun)
}

type netSim struct {
	o       *netOut
	r       *netRand
	mode    string // "C01" | "C04"
	tag     string
	n       int
	nodes   []*netNode
	keys    []*types.DefaultPrivValidator
	idOf    map[common.Address]int
	byz     []bool
	genesis cstate.LatestBlockState
	genDoc  *genesis.Genesis
	hs      map[uint64]*netHeight
	flights []*netFlight
	msgSeq  int
	vnow    time.Duration
	group   []int // partition group per node; nil = connected
	plan    map[uint64][]int64 // block height -> new powers by node id (0 = removed); applies to height+2
	curPow  []int64            // powers by node id of the newest planned set
	byzTime bool               // Byzantine validators use adversarial timestamps
	mirror  bool               // Byzantine validators echo every correct vote back to its signer
	deferOwn bool              // own messages are sometimes processed late
	ownInvalid string          // last validation error of a correct node's own proposal block (diagnostic)
	scenario string            // "" = random run, else the name of a scripted prefix
	hold     func(m *netMsg, to int) bool // scripted prefixes: messages held back by the network
	byzQuiet bool              // Byzantine validators withhold everything during the synchronous phases
	step    int
	failed  map[string]bool
	tickOps []string // C04: ticker log (input, observed)
	tickObs []string
	heights int
	stuck   bool
	voteClock int64
	lastCfg *configs.ConsensusConfig
	c01     interface{} // state of verif_c01_test.go's scripted families and oracles
	c04     interface{} // C04 section: state of verif_c04_test.go's oracles
}

func (s *netSim) fail(class, detail string) {
	if s.failed[class] {
		return
	}
	s.failed[class] = true
	if s.mode == "C01" && class == "no-progress" {
		// liveness belongs to C04 (same generator, same oracle, reported there); a stuck C01 run is
		// counted, its heights reached so far are still checked for agreement
		s.o.Count("run:stuck:" + strings.SplitN(detail, ":", 2)[0])
		s.o.Mark("stuck-run")
		return
	}
	if s.scenario != "" {
		detail = s.scenario + ": " + detail
	}
	s.o.Fail(s.step, class, detail)
}

func (s *netSim) tickOp(in, obs string) {
	if s.mode == "C04" {
		s.tickOps = append(s.tickOps, in)
		s.tickObs = append(s.tickObs, obs)
	}
}

func netBidKey(b types.BlockID) string {
	return fmt.Sprintf("%x/%d/%x", b.Hash[:], b.PartsHeader.Total, b.PartsHeader.Hash[:])
}
func netPshKey(p types.PartSetHeader) string { return fmt.Sprintf("%d/%x", p.Total, p.Hash[:]) }

// height returns the bookkeeping of height h, created from the chain state st (state before h).
func (s *netSim) height(h uint64, st *cstate.LatestBlockState) *netHeight {
	if ht, ok := s.hs[h]; ok {
		return ht
	}
	if st == nil {
		return nil
	}
	c := st.Copy()
	ht := &netHeight{h: h, vals: c.Validators, idxOf: map[int]int{}, state: &c, bids: map[string]int{}, sigSeen: map[string]bool{},
		arcKey: map[string]*netMsg{}, parts: map[string]map[int]*types.Part{}, blocks: map[common.Hash]*types.Block{},
		psets: map[common.Hash]*types.PartSet{}, syncR0: -1}
	for i, v := range c.Validators.Validators {
		id := s.idOf[v.Address]
		ht.idxOf[id] = i
		ht.nodeOf = append(ht.nodeOf, id)
		ht.powers = append(ht.powers, v.VotingPower)
		ht.total += v.VotingPower
	}
	// the run's assumption: Byzantine power below one third at every height
	bp := int64(0)
	for i, id := range ht.nodeOf {
		if s.byz[id] {
			bp += ht.powers[i]
		}
	}
	if 3*bp >= ht.total {
		s.fail("harness-byz-power", fmt.Sprintf("h=%d byz=%d total=%d", h, bp, ht.total))
	}
	s.hs[h] = ht
	return ht
}

func (ht *netHeight) bid(b types.BlockID) int {
	if b.IsZero() {
		return 0
	}
	k := netBidKey(b)
	if id, ok := ht.bids[k]; ok {
		return id
	}
	id := len(ht.bids) + 1
	ht.bids[k] = id
	ht.bidList = append(ht.bidList, b)
	return id
}

// logSig appends a signature to the chronological trace of its height.
func (s *netSim) logSig(node int, typ kproto.SignedMsgType, h uint64, round uint32, bid types.BlockID) {
	ht := s.hs[h]
	if ht == nil {
		s.o.Count("sig:unknown-height")
		return
	}
	idx, ok := ht.idxOf[node]
	if !ok {
		s.o.Count("sig:non-validator")
		return
	}
	t := 1
	if typ == kproto.PrecommitType {
		t = 2
	}
	e := netSig{val: idx, node: node, typ: t, round: round, bid: ht.bid(bid)}
	k := fmt.Sprintf("%d/%d/%d/%d", e.val, e.typ, e.round, e.bid)
	if ht.sigSeen[k] {
		if !s.byz[node] {
			s.o.Count("sig:correct-node-signed-twice-same")
		}
		return
	}
	ht.sigSeen[k] = true
	ht.trace = append(ht.trace, e)
	if s.byz[node] {
		s.o.Count("sig:byz")
	} else {
		s.o.Count("sig:correct")
		if netC01OnSign != nil && s.mode == "C01" {
			netC01OnSign(s, node, ht, e, bid)
		}
	}
}

func (s *netSim) noteBlock(blk *types.Block, ps *types.PartSet, own bool) {
	ht := s.hs[blk.Height()]
	if ht == nil {
		return
	}
	if _, ok := ht.blocks[blk.Hash()]; !ok {
		ht.blockL = append(ht.blockL, blk.Hash())
	}
	ht.blocks[blk.Hash()] = blk
	ht.psets[blk.Hash()] = ps
}

// appValidators: the application's validator set after executing block `height` (nil = unchanged).
func (s *netSim) appValidators(height uint64) []*types.Validator {
	pw, ok := s.plan[height]
	if !ok {
		return nil
	}
	var l []*types.Validator
	for id, p := range pw {
		if p > 0 {
			l = append(l, types.NewValidator(s.keys[id].GetAddress(), p))
		}
	}
	return l
}

func (s *netSim) onCommit(nd *netNode, block *types.Block, ps *types.PartSet, seen *types.Commit) {
	ht := s.hs[block.Height()]
	if ht == nil || nd.byz {
		return
	}
	ht.commits = append(ht.commits, netCommitRec{node: nd.id, round: seen.Round, bid: ht.bid(seen.BlockID), hash: block.Hash()})
	if s.mode == "C01" && netC01OnCommit != nil {
		netC01OnCommit(s, nd, ht, seen)
	}
	// C04: the block time rule on the real LastCommit (cstate.MedianTime) against the Coq transcription
	if s.mode == "C04" && len(ht.commits) == 1 && block.Height() > 1 {
		if pht := s.hs[block.Height()-1]; pht != nil && block.LastCommit() != nil && len(block.LastCommit().Signatures) == len(pht.powers) {
			l := []string{"M"}
			for i, sg := range block.LastCommit().Signatures {
				if !sg.Absent() {
					l = append(l, fmt.Sprintf("%d:%d", sg.Timestamp.UnixNano(), pht.powers[i]))
				}
			}
			s.tickOps = append(s.tickOps, strings.Join(l, " "))
			s.tickObs = append(s.tickObs, fmt.Sprintf("median %d", cstate.MedianTime(block.LastCommit(), pht.vals).UnixNano()))
			if !block.Time().Equal(cstate.MedianTime(block.LastCommit(), pht.vals)) {
				s.fail("block-time-not-median", fmt.Sprintf("height %d", block.Height()))
			}
		}
	}
	s.o.Count("commit")
	if seen.Round > 1 {
		s.o.Count("commit:round>1")
		s.o.Mark(fmt.Sprintf("commit-round-%d", seen.Round))
	}
}

// newNode assembles a ConsensusState for node id from the given chain state; db/bo are kept over restarts.
func (s *netSim) newNode(id int, state cstate.LatestBlockState, old *netNode) *netNode {
	nd := &netNode{sim: s, id: id, byz: s.byz[id], key: s.keys[id], seen: map[int]bool{}, seenAt: map[int]int{}, majSet: map[string]bool{}}
	if old != nil {
		nd.db, nd.store, nd.bo, nd.cfg, nd.restarts = old.db, old.store, old.bo, old.cfg, old.restarts+1
		nd.bo.node = nd
	} else {
		nd.db = memorydb.New()
		nd.store = cstate.NewStore(nd.db)
		nd.bo = &netBlockOps{node: nd, db: nd.db, blocks: map[uint64]*types.Block{}, parts: map[uint64]*types.PartSet{}, seen: map[uint64]*types.Commit{}}
		nd.cfg = s.newCfg()
		netWriteGenesisBlock(nd.db)
		if s.genDoc != nil {
			st, err := nd.store.LoadStateFromDBOrGenesisDoc(s.genDoc)
			if err != nil {
				panic(err)
			}
			state = st
		} else {
			nd.store.Save(state)
		}
	}
	logger := log.New()
	be := cstate.NewBlockExecutor(nd.store, logger, netEv{}, nd.bo)
	// NewTimeoutTicker() calls stopTimer() before a logger is set; when the zero-duration timer has
	// already fired and its channel is empty, stopTimer logs through the nil logger and panics
	// (rare, timing dependent): retry.
	var cs *ConsensusState
	var p string
	for try := 0; cs == nil && try < 100; try++ {
		p = netGuarded(func() { cs = NewConsensusState(logger, nd.cfg, state.Copy(), nd.bo, be, netEv{}) })
		if p != "" && !strings.Contains(p, "nil pointer") && !strings.Contains(p, "invalid memory") {
			break
		}
	}
	if cs == nil {
		s.fail("restart-panic", fmt.Sprintf("node=%d NewConsensusState: %s", id, p))
		return nil
	}
	nd.cs = cs
	if s.mode == "C04" {
		s.tickOps = append(s.tickOps, fmt.Sprintf("R %d", id))
		s.tickObs = append(s.tickObs, "")
	}
	nd.ticker = netNewTicker(s, id)
	cs.timeoutTicker = nd.ticker
	cs.SetPrivValidator(&netPV{DefaultPrivValidator: nd.key, node: nd})
	nd.eb = types.NewEventBus()
	nd.eb.SetLogger(logger)
	if err := nd.eb.Start(); err != nil {
		panic(err)
	}
	cs.SetEventBus(nd.eb)
	s.height(cs.Height, &cs.state)
	cs.scheduleRound0(cs.GetRoundState()) // what OnStart does
	return nd
}

// netWriteGenesisBlock does what genesis.Genesis.Commit writes for the height-0 block (without
// executing the staking set-up: the application is a stub here), so that cstate.Store.Load finds a head.
func netWriteGenesisBlock(db kaidb.Database) {
	head := &types.Header{Time: netGenesisTime, Height: 0, GasLimit: configs.GenesisGasLimit}
	block := types.NewBlock(head, nil, &types.Commit{}, nil, trie.NewStackTrie(nil))
	rawdb.WriteBlock(db, block, block.MakePartSet(types.BlockPartSizeBytes), &types.Commit{})
	rawdb.WriteCanonicalHash(db, block.Hash(), block.Height())
	rawdb.WriteHeadBlockHash(db, block.Hash())
	rawdb.WriteAppHash(db, block.Height(), block.AppHash())
}

func (s *netSim) newCfg() *configs.ConsensusConfig {
	cfg := configs.TestConsensusConfig()
	if s.scenario != "" {
		s.lastCfg = cfg
		return cfg
	}
	if s.r.Chance(1, 3) {
		cfg.CreateEmptyBlocksInterval = 35 * time.Millisecond
	}
	cfg.IsSkipTimeoutCommit = s.r.Chance(1, 4)
	s.lastCfg = cfg
	return cfg
}

func (s *netSim) nodes0(id int) *configs.ConsensusConfig {
	if id < len(s.nodes) && s.nodes[id] != nil && s.nodes[id].cfg != nil {
		return s.nodes[id].cfg
	}
	return s.lastCfg
}

func (s *netSim) correct() []*netNode {
	var l []*netNode
	for _, nd := range s.nodes {
		if !nd.byz && nd.dead == "" {
			l = append(l, nd)
		}
	}
	return l
}

// ---- running inputs on a node

var netTrace = func() int {
	v := -1
	fmt.Sscan(os.Getenv("NET_TRACE"), &v)
	return v
}()

func (s *netSim) guard(nd *netNode, what string, f func()) {
	if nd.dead != "" {
		return
	}
	var before string
	if netTrace >= 0 && nd.id == netTrace {
		before = fmt.Sprintf("h=%d r=%d s=%d locked@%d valid@%d", nd.cs.Height, nd.cs.Round, nd.cs.Step, nd.cs.LockedRound, nd.cs.ValidRound)
		defer func() {
			after := fmt.Sprintf("h=%d r=%d s=%d locked@%d valid@%d", nd.cs.Height, nd.cs.Round, nd.cs.Step, nd.cs.LockedRound, nd.cs.ValidRound)
			if after != before {
				fmt.Printf("TRACE step=%d node%d %s: %s -> %s\n", s.step, nd.id, what, before, after)
			}
		}()
	}
	if p := netGuarded(f); p != "" {
		nd.dead = p
		s.o.Count("panic")
		s.fail("panic", fmt.Sprintf("node=%d h=%d r=%d step=%d during %s: %s", nd.id, nd.cs.Height, nd.cs.Round, nd.cs.Step, what, strings.Split(p, "\n")[0]))
	}
	// a new height may have begun
	if nd.dead == "" {
		s.height(nd.cs.Height, &nd.cs.state)
		if netC01AfterStep != nil && s.mode == "C01" {
			netC01AfterStep(s, nd, what)
		}
		if netC04AfterStep != nil && s.mode == "C04" { // C04 section
			netC04AfterStep(s, nd, what)
		}
	}
}

// archiveMsg registers a message as known to the correct part of the network (it will be gossiped).
func (s *netSim) archiveMsg(m *netMsg) *netMsg {
	ht := s.hs[m.h]
	if ht == nil {
		return m
	}
	var k string
	switch m.kind {
	case 'V':
		k = fmt.Sprintf("V/%d/%d/%d/%s/%x", m.vote.ValidatorIndex, m.vote.Type, m.vote.Round, netBidKey(m.vote.BlockID), m.vote.Signature)
	case 'P':
		k = fmt.Sprintf("P/%d/%d/%s/%x", m.prop.Round, m.prop.POLRound, netBidKey(m.prop.POLBlockID), m.prop.Signature)
	case 'B':
		k = fmt.Sprintf("B/%s/%d", netPshKey(m.psh), m.part.Index)
		pk := netPshKey(m.psh)
		if ht.parts[pk] == nil {
			ht.parts[pk] = map[int]*types.Part{}
		}
		ht.parts[pk][int(m.part.Index)] = m.part
	}
	if old, ok := ht.arcKey[k]; ok {
		return old
	}
	s.msgSeq++
	m.id = s.msgSeq
	ht.arcKey[k] = m
	ht.archive = append(ht.archive, m)
	return m
}

func (m *netMsg) message() Message {
	switch m.kind {
	case 'V':
		return &VoteMessage{Vote: m.vote}
	case 'P':
		return &ProposalMessage{Proposal: m.prop}
	}
	return &BlockPartMessage{Height: m.h, Round: m.round, Part: m.part}
}

// drain processes the node's own messages (internalMsgQueue) and hands each to the network.
func (s *netSim) drain(nd *netNode, max int) int {
	k := 0
	for nd.dead == "" && (max <= 0 || k < max) {
		var mi msgInfo
		select {
		case mi = <-nd.cs.internalMsgQueue:
		default:
			return k
		}
		k++
		s.guard(nd, "own message", func() { nd.cs.handleMsg(mi) })
		var m *netMsg
		switch x := mi.Msg.(type) {
		case *VoteMessage:
			m = &netMsg{h: x.Vote.Height, kind: 'V', vote: x.Vote, from: nd.id}
		case *ProposalMessage:
			m = &netMsg{h: x.Proposal.Height, kind: 'P', prop: x.Proposal, from: nd.id}
		case *BlockPartMessage:
			psh := types.PartSetHeader{Total: uint32(x.Part.Proof.Total), Hash: common.BytesToHash(x.Part.Proof.ComputeRootHash())}
			m = &netMsg{h: x.Height, kind: 'B', part: x.Part, round: x.Round, psh: psh, from: nd.id}
		}
		if m == nil {
			continue
		}
		m = s.archiveMsg(m)
		nd.seen[m.id] = true
		for _, o := range s.nodes {
			if o.id != nd.id && !o.byz {
				s.flights = append(s.flights, &netFlight{m: m, from: nd.id, to: o.id})
			}
		}
		if s.mirror && m.kind == 'V' {
			s.byzMirror(nd, m.vote)
		}
	}
	return k
}

func (s *netSim) settle(nd *netNode) {
	if s.deferOwn && s.r.Chance(1, 4) {
		return
	}
	s.drain(nd, 0)
}

// deliver hands a message to a correct node the way the reactor does (ValidateBasic filter first).
func (s *netSim) deliver(nd *netNode, m *netMsg, peer string) {
	if nd.dead != "" || nd.byz {
		return
	}
	msg := m.message()
	if m.kind == 'P' {
		if m.prop.ValidateBasic() != nil {
			return
		}
	} else if msg.ValidateBasic() != nil {
		s.o.Count("deliver:rejected-by-ValidateBasic")
		return
	}
	if m.id != 0 {
		nd.seen[m.id] = true
		// "refused before" is only remembered for a vote the node could have taken (its height, a round
		// it tracks): a refusal for an unwanted round is transient (peers offer the vote again later)
		if m.kind != 'V' || netVoteSetOf(nd.cs, m.vote) != nil {
			nd.seenAt[m.id] = nd.majEpoch
		}
	}
	what := "peer message"
	if netTrace >= 0 {
		switch m.kind {
		case 'V':
			what = fmt.Sprintf("vote from=%d type=%d h=%d r=%d bid=%d", m.from, m.vote.Type, m.h, m.vote.Round, func() int {
				if ht := s.hs[m.h]; ht != nil {
					return ht.bid(m.vote.BlockID)
				}
				return -1
			}())
		case 'P':
			what = fmt.Sprintf("proposal from=%d h=%d r=%d pol=%d", m.from, m.h, m.prop.Round, m.prop.POLRound)
		case 'B':
			what = fmt.Sprintf("part from=%d h=%d r=%d idx=%d", m.from, m.h, m.round, m.part.Index)
		}
	}
	s.guard(nd, what, func() { nd.cs.handleMsg(msgInfo{Msg: msg, PeerID: p2p.ID(peer)}) })
	s.settle(nd)
}

func (s *netSim) handleTock(nd *netNode, k int) {
	ti := nd.ticker.tocks[k]
	nd.ticker.tocks = append(nd.ticker.tocks[:k:k], nd.ticker.tocks[k+1:]...)
	var c04After func() // C04 section: the observation of handleTimeout (before the node's own messages are processed)
	if netC04Tock != nil && s.mode == "C04" && nd.dead == "" {
		c04After = netC04Tock(s, nd, ti)
	}
	s.guard(nd, "timeout", func() { nd.cs.handleTimeout(ti, nd.cs.RoundState) })
	if c04After != nil {
		c04After()
	}
	s.o.Count(fmt.Sprintf("timeout:step%d", ti.Step))
	s.settle(nd)
}

// ---------------------------------------------------------------------------------------------
// Byzantine validators (played by the harness with the real keys)

func (s *netSim) byzIDs(ht *netHeight) []int {
	var l []int
	for _, id := range ht.nodeOf {
		if s.byz[id] {
			l = append(l, id)
		}
	}
	return l
}

func (s *netSim) byzTimestamp() time.Time {
	s.voteClock++
	now := time.Now().Round(0).UTC().Add(time.Duration(s.voteClock) * time.Microsecond)
	if s.byzTime {
		switch s.r.Pick(2, 1, 1) {
		case 1:
			return netGenesisTime.Add(-time.Hour) // far in the past
		case 2:
			return now.Add(time.Hour)
		}
	}
	return now
}

// byzVote signs (and logs) a vote of Byzantine validator b.
func (s *netSim) byzVote(b int, h uint64, typ kproto.SignedMsgType, round uint32, bid types.BlockID) *types.Vote {
	ht := s.hs[h]
	if ht == nil {
		return nil
	}
	idx, ok := ht.idxOf[b]
	if !ok {
		return nil
	}
	v := &types.Vote{ValidatorAddress: s.keys[b].GetAddress(), ValidatorIndex: uint32(idx), Height: h, Round: round,
		Timestamp: s.byzTimestamp(), Type: typ, BlockID: bid}
	pv := v.ToProto()
	s.logSig(b, typ, h, round, bid)
	if err := s.keys[b].SignVote(netChainID, pv); err != nil {
		panic(err)
	}
	v.Signature = pv.Signature
	return v
}

func (s *netSim) sendByz(m *netMsg, to []int, now bool) {
	for _, j := range to {
		nd := s.nodes[j]
		if nd.byz || nd.dead != "" {
			continue
		}
		if now {
			am := s.archiveMsg(m) // once a correct node has it, gossip can spread it
			s.deliver(nd, am, fmt.Sprintf("byz%d", m.from))
		} else {
			s.flights = append(s.flights, &netFlight{m: m, from: m.from, to: j})
		}
	}
}

func (s *netSim) byzMirror(nd *netNode, v *types.Vote) {
	ht := s.hs[v.Height]
	if ht == nil {
		return
	}
	for _, b := range s.byzIDs(ht) {
		if bv := s.byzVote(b, v.Height, v.Type, v.Round, v.BlockID); bv != nil {
			s.o.Count("byz:mirror-vote")
			s.flights = append(s.flights, &netFlight{m: &netMsg{h: v.Height, kind: 'V', vote: bv, from: b}, from: b, to: nd.id})
		}
	}
}

func (s *netSim) subset() []int {
	var l []int
	for _, nd := range s.nodes {
		if !nd.byz && s.r.Chance(1, 2) {
			l = append(l, nd.id)
		}
	}
	if len(l) == 0 {
		c := s.correct()
		if len(c) > 0 {
			l = append(l, c[s.r.Intn(len(c))].id)
		}
	}
	return l
}

func (s *netSim) lastCommitFor(h uint64) *types.Commit {
	if h == 1 {
		return types.NewCommit(0, 0, types.BlockID{}, nil)
	}
	var cands []*types.Commit
	for _, nd := range s.correct() {
		if nd.cs.Height == h && nd.cs.LastCommit != nil && nd.cs.LastCommit.HasTwoThirdsMajority() {
			cands = append(cands, nd.cs.LastCommit.MakeCommit())
		}
		if c := nd.bo.seen[h-1]; c != nil {
			cands = append(cands, c)
		}
	}
	if len(cands) == 0 {
		return nil
	}
	return cands[s.r.Intn(len(cands))]
}

// byzBlock builds a block for height h on top of the chain; kind "valid" or an invalid variant.
func (s *netSim) byzBlock(h uint64, proposer int, kind string) (*types.Block, *types.PartSet) {
	ht := s.hs[h]
	if ht == nil {
		return nil, nil
	}
	st := ht.state
	commit := s.lastCommitFor(h)
	if commit == nil {
		return nil, nil
	}
	if s.mode == "C01" && netC01ByzCommit != nil && h > 1 && kind == "valid" {
		var fk string
		if commit, fk = netC01ByzCommit(s, h, commit); fk != "" {
			kind = fk
		}
	}
	ts := st.LastBlockTime
	if h > 1 {
		ts = cstate.MedianTime(commit, st.LastValidators)
	}
	hd := &types.Header{Height: h, Time: ts, LastBlockID: st.LastBlockID, ProposerAddress: s.keys[proposer].GetAddress(),
		ValidatorsHash: st.Validators.Hash(), NextValidatorsHash: st.NextValidators.Hash(), AppHash: st.AppHash,
		GasLimit: uint64(1000 + s.r.Intn(1000000))}
	switch kind {
	case "apphash":
		hd.AppHash = common.BytesToHash([]byte{3, byte(s.r.Intn(200))})
	case "time":
		hd.Time = ts.Add(time.Duration(1+s.r.Intn(5)) * time.Second)
	case "valhash":
		hd.NextValidatorsHash = common.BytesToHash([]byte{5, byte(s.r.Intn(200))})
	case "parent":
		hd.LastBlockID = types.BlockID{Hash: common.BytesToHash([]byte{1, byte(s.r.Intn(200))}), PartsHeader: types.PartSetHeader{Total: 1, Hash: common.BytesToHash([]byte{2})}}
	}
	blk := types.NewBlock(hd, nil, commit, nil, trie.NewStackTrie(nil))
	size := []uint32{types.BlockPartSizeBytes, 400, 200}[s.r.Pick(3, 1, 1)]
	ps := blk.MakePartSet(size)
	s.noteBlock(blk, ps, false)
	s.o.Count("byz:block:" + kind)
	if s.mode == "C01" && netC01NoteBlock != nil {
		netC01NoteBlock(s, blk, kind)
	}
	return blk, ps
}

func (s *netSim) proposerOf(ht *netHeight, round uint32) int {
	vs := ht.vals.Copy()
	if round > 1 {
		vs.IncrementProposerPriority(int64(round - 1))
	}
	return s.idOf[vs.GetProposer().Address]
}

// byzPropose: Byzantine validator b proposes in (h, round): one or two different blocks to
// different subsets, with or without all the parts.
func (s *netSim) byzPropose(b int, h uint64, round uint32, now bool) {
	ht := s.hs[h]
	kind := "valid"
	if s.r.Chance(1, 5) {
		kind = []string{"apphash", "time", "valhash", "parent"}[s.r.Intn(4)]
	}
	nvar := 1 + s.r.Intn(2)
	var targets [][]int
	if nvar == 1 {
		targets = [][]int{s.subset()}
		if s.r.Chance(1, 2) {
			targets[0] = nil
			for _, nd := range s.correct() {
				targets[0] = append(targets[0], nd.id)
			}
		}
	} else {
		var a, c []int
		for _, nd := range s.correct() {
			if s.r.Chance(1, 2) {
				a = append(a, nd.id)
			} else {
				c = append(c, nd.id)
			}
		}
		targets = [][]int{a, c}
		s.o.Count("byz:equivocating-proposal")
	}
	for v := 0; v < nvar; v++ {
		var blk *types.Block
		var ps *types.PartSet
		// sometimes re-propose a block already known at this height (e.g. a correct node's block)
		if len(ht.blocks) > 0 && s.r.Chance(1, 4) {
			hsh := ht.blockL[s.r.Intn(len(ht.blockL))]
			blk, ps = ht.blocks[hsh], ht.psets[hsh]
		} else {
			blk, ps = s.byzBlock(h, b, kind)
		}
		if blk == nil {
			return
		}
		bid := types.BlockID{Hash: blk.Hash(), PartsHeader: ps.Header()}
		pol := uint32(0)
		if round > 1 && s.r.Chance(1, 3) {
			pol = 1 + uint32(s.r.Intn(int(round-1)))
		}
		p := types.NewProposal(h, round, pol, bid)
		pp := p.ToProto()
		if err := s.keys[b].SignProposal(netChainID, pp); err != nil {
			panic(err)
		}
		p.Signature = pp.Signature
		withhold := s.r.Chance(1, 6)
		s.sendByz(&netMsg{h: h, kind: 'P', prop: p, from: b}, targets[v], now)
		for i := 0; i < int(ps.Total()); i++ {
			if withhold && i == int(ps.Total())-1 {
				s.o.Count("byz:withheld-part")
				break
			}
			s.sendByz(&netMsg{h: h, kind: 'B', part: ps.GetPart(i), round: round, psh: ps.Header(), from: b}, targets[v], now)
		}
		// and votes for the own block to the same subset
		if s.r.Chance(2, 3) {
			if pv := s.byzVote(b, h, kproto.PrevoteType, round, bid); pv != nil {
				s.sendByz(&netMsg{h: h, kind: 'V', vote: pv, from: b}, targets[v], now)
			}
		}
	}
	s.o.Count("byz:proposal")
}

// byzAct: one action of the adversary.
func (s *netSim) byzAct(now bool) {
	cor := s.correct()
	if len(cor) == 0 {
		return
	}
	tgt := cor[s.r.Intn(len(cor))]
	h := tgt.cs.Height
	ht := s.hs[h]
	if ht == nil {
		return
	}
	bl := s.byzIDs(ht)
	if len(bl) == 0 {
		return
	}
	b := bl[s.r.Intn(len(bl))]
	round := tgt.cs.Round
	if s.mode == "C01" && netC01ByzExtra != nil && s.r.Chance(1, 10) && netC01ByzExtra(s, tgt, b, h, round) {
		return
	}
	switch s.r.Pick(50, 12, 8, 12, 6, 6, 6) {
	case 1:
		if round > 1 {
			round--
		}
	case 2:
		round++
	case 3:
		round += 2 + uint32(s.r.Intn(2))
	case 4:
		round = 1
	}
	switch s.r.Pick(16, 46, 6, 8, 12, 12) {
	case 0: // proposal (as the proposer of the round when it is its turn, else in the target's round anyway)
		if s.proposerOf(ht, tgt.cs.Round) == b {
			round = tgt.cs.Round
		} else if s.proposerOf(ht, tgt.cs.Round+1) == b {
			round = tgt.cs.Round + 1
		} else {
			s.o.Count("byz:proposal-not-proposer")
		}
		s.byzPropose(b, h, round, now)
	case 1: // vote for nil / a known block id / what the target itself voted for, to a subset
		typ := kproto.PrevoteType
		if s.r.Chance(1, 2) {
			typ = kproto.PrecommitType
		}
		var bid types.BlockID
		switch s.r.Pick(2, 5, 3) {
		case 1:
			if len(ht.bidList) > 0 {
				bid = ht.bidList[s.r.Intn(len(ht.bidList))]
			}
		case 2:
			if _, in := ht.idxOf[tgt.id]; !in {
				break
			}
			if vs := tgt.cs.Votes.Prevotes(round); vs != nil {
				if own := vs.GetByAddress(tgt.key.GetAddress()); own != nil {
					bid = own.BlockID
				}
			}
		}
		if v := s.byzVote(b, h, typ, round, bid); v != nil {
			to := s.subset()
			if s.r.Chance(1, 2) {
				to = []int{tgt.id}
			}
			s.sendByz(&netMsg{h: h, kind: 'V', vote: v, from: b}, to, now)
			s.o.Count("byz:vote")
		}
	case 2: // a signed prevote presented as a precommit (same signature)
		var bid types.BlockID
		if len(ht.bidList) > 0 {
			bid = ht.bidList[s.r.Intn(len(ht.bidList))]
		}
		if v := s.byzVote(b, h, kproto.PrevoteType, round, bid); v != nil {
			c := v.Copy()
			c.Type = kproto.PrecommitType
			s.sendByz(&netMsg{h: h, kind: 'V', vote: c, from: b}, s.subset(), true)
			s.o.Count("byz:prevote-as-precommit")
		}
	case 3: // stale: a vote for an earlier height
		if h > 1 {
			if pht := s.hs[h-1]; pht != nil && len(pht.bidList) > 0 {
				typ := []kproto.SignedMsgType{kproto.PrevoteType, kproto.PrecommitType}[s.r.Intn(2)]
				if v := s.byzVote(b, h-1, typ, 1+uint32(s.r.Intn(3)), pht.bidList[s.r.Intn(len(pht.bidList))]); v != nil {
					s.sendByz(&netMsg{h: h - 1, kind: 'V', vote: v, from: b}, s.subset(), now)
					s.o.Count("byz:stale-vote")
				}
			}
		}
	case 4: // amnesia / equivocation pair: precommit X in round r, prevote Y in round r+1 (and r)
		if len(ht.bidList) >= 1 {
			x := ht.bidList[s.r.Intn(len(ht.bidList))]
			y := types.BlockID{}
			if len(ht.bidList) > 1 {
				y = ht.bidList[s.r.Intn(len(ht.bidList))]
			}
			to := s.subset()
			for _, v := range []*types.Vote{s.byzVote(b, h, kproto.PrecommitType, round, x), s.byzVote(b, h, kproto.PrevoteType, round+1, y), s.byzVote(b, h, kproto.PrevoteType, round, y)} {
				if v != nil {
					s.sendByz(&netMsg{h: h, kind: 'V', vote: v, from: b}, to, now)
				}
			}
			s.o.Count("byz:amnesia")
		}
	case 5: // relay any message of the archive (any round, any height near the target) to the target
		hh := h
		if s.r.Chance(1, 4) && h > 1 {
			hh = h - 1
		}
		if a := s.hs[hh]; a != nil && len(a.archive) > 0 {
			m := a.archive[s.r.Intn(len(a.archive))]
			s.deliver(tgt, m, fmt.Sprintf("byz%d", b))
			s.o.Count("byz:relay")
		}
	}
}

// ---------------------------------------------------------------------------------------------
// the adversarial scheduler

func (s *netSim) connected(a, b int) bool {
	if s.group == nil || s.byz[a] || s.byz[b] {
		return true
	}
	return s.group[a] == s.group[b]
}

// deliverable: a correct sender's vote for a round the receiver does not track yet is held back
// (the reactor sends a peer only the votes of the peer's own round; Byzantine relays are not bound
// by that and use their own catch-up allowance in HeightVoteSet).
func (s *netSim) deliverable(f *netFlight) bool {
	nd := s.nodes[f.to]
	if nd.dead != "" || !s.connected(f.from, f.to) || (s.hold != nil && s.hold(f.m, f.to)) {
		return false
	}
	if f.m.kind == 'V' && !s.byz[f.from] && f.m.h == nd.cs.Height && nd.cs.Votes.Prevotes(f.m.vote.Round) == nil {
		return false
	}
	return true
}

func (s *netSim) deliverFlight(i int, remove bool) {
	f := s.flights[i]
	if remove {
		s.flights[i] = s.flights[len(s.flights)-1]
		s.flights = s.flights[:len(s.flights)-1]
	}
	m := f.m
	if m.id == 0 {
		m = s.archiveMsg(m)
	}
	peer := fmt.Sprintf("n%d", f.from)
	if s.byz[f.from] {
		peer = fmt.Sprintf("byz%d", f.from)
	}
	s.deliver(s.nodes[f.to], m, peer)
}

func (s *netSim) pruneFlights() {
	minH := uint64(1 << 62)
	for _, nd := range s.correct() {
		if nd.cs.Height < minH {
			minH = nd.cs.Height
		}
	}
	k := 0
	for _, f := range s.flights {
		if f.m.h+1 >= minH && s.nodes[f.to].dead == "" {
			s.flights[k] = f
			k++
		}
	}
	s.flights = s.flights[:k]
}

func netVoteSetOf(cs *ConsensusState, v *types.Vote) *types.VoteSet {
	if v.Height != cs.Height {
		return nil
	}
	if v.Type == kproto.PrevoteType {
		return cs.Votes.Prevotes(v.Round)
	}
	return cs.Votes.Precommits(v.Round)
}

// netHasVote: the node's vote set holds exactly this vote (same validator, same block id)
func netHasVote(cs *ConsensusState, v *types.Vote) bool {
	vs := netVoteSetOf(cs, v)
	if vs == nil {
		return false
	}
	ba := vs.BitArrayByBlockID(v.BlockID)
	return ba != nil && ba.GetIndex(int(v.ValidatorIndex))
}

// setMaj23 is what the reactor does on a VoteSetMaj23Message from a peer (manager.go Receive):
// the peer claims +2/3 for blockID; conflicting votes for that block id are then accepted.
func (s *netSim) setMaj23(nd *netNode, peer int, round uint32, typ kproto.SignedMsgType, bid types.BlockID) {
	k := fmt.Sprintf("%d/%d/%d/%d/%s", nd.cs.Height, peer, round, typ, netBidKey(bid))
	if nd.majSet[k] {
		return
	}
	var vs *types.VoteSet
	if typ == kproto.PrevoteType {
		vs = nd.cs.Votes.Prevotes(round)
	} else {
		vs = nd.cs.Votes.Precommits(round)
	}
	if vs == nil {
		return // a round the node does not track yet (SetPeerMaj23 is a no-op there); asked again later
	}
	nd.majSet[k] = true
	if err := nd.cs.Votes.SetPeerMaj23(round, typ, p2p.ID(fmt.Sprintf("n%d", peer)), bid); err == nil {
		nd.majEpoch++
		s.o.Count("maj23-claim")
	}
}

// queryMaj23 mirrors queryMaj23Routine: every connected correct peer tells the node about the +2/3
// majorities it has seen (its round, its proposal's POL round, the commit of a height it has left).
func (s *netSim) queryMaj23(nd *netNode) {
	h := nd.cs.Height
	for _, o := range s.correct() {
		if o.id == nd.id || !s.connected(o.id, nd.id) {
			continue
		}
		if o.cs.Height == h {
			rounds := []uint32{o.cs.Round}
			if o.cs.Proposal != nil && o.cs.Proposal.POLRound > 0 {
				rounds = append(rounds, o.cs.Proposal.POLRound)
			}
			for _, r := range rounds {
				if vs := o.cs.Votes.Prevotes(r); vs != nil {
					if bid, ok := vs.TwoThirdsMajority(); ok {
						s.setMaj23(nd, o.id, r, kproto.PrevoteType, bid)
					}
				}
				if vs := o.cs.Votes.Precommits(r); vs != nil {
					if bid, ok := vs.TwoThirdsMajority(); ok {
						s.setMaj23(nd, o.id, r, kproto.PrecommitType, bid)
					}
				}
			}
		} else if c := o.bo.seen[h]; c != nil {
			s.setMaj23(nd, o.id, c.Round, kproto.PrecommitType, c.BlockID)
		}
	}
}

// catchup gives a node that is behind the commit (precommits of the seen commit) and the block parts
// of its height from a correct node that has committed it (gossipVotesRoutine's LastCommit /
// LoadBlockCommit branch and gossipDataForCatchup).
func (s *netSim) catchup(nd *netNode) bool {
	h := nd.cs.Height
	var src *netNode
	for _, o := range s.correct() {
		if o.id != nd.id && o.bo.seen[h] != nil && s.connected(o.id, nd.id) {
			src = o
			break
		}
	}
	if src == nil {
		return false
	}
	did := false
	commit := src.bo.seen[h]
	if nd.cs.Step < cstypes.RoundStepCommit {
		for i := range commit.Signatures {
			if commit.Signatures[i].Absent() {
				continue
			}
			v := commit.GetVote(uint32(i))
			if netHasVote(nd.cs, v) {
				continue
			}
			m := s.archiveMsg(&netMsg{h: h, kind: 'V', vote: v, from: src.id})
			if at, ok := nd.seenAt[m.id]; ok && at >= nd.majEpoch && nd.cs.Votes.Precommits(commit.Round) != nil {
				continue // refused before and nothing has changed since
			}
			hBefore := nd.cs.Height
			s.deliver(nd, m, fmt.Sprintf("c%d", src.id))
			s.queryMaj23(nd)
			did = true
			if nd.dead != "" || nd.cs.Height != hBefore {
				return true
			}
		}
	}
	if nd.cs.Height == h && nd.cs.Step == cstypes.RoundStepCommit && nd.cs.ProposalBlockParts != nil && !nd.cs.ProposalBlockParts.IsComplete() {
		ps := src.bo.parts[h]
		if nd.cs.ProposalBlockParts.HasHeader(ps.Header()) {
			for i := 0; i < int(ps.Total()); i++ {
				if nd.cs.Height != h || nd.dead != "" {
					break
				}
				if nd.cs.ProposalBlockParts.GetPart(i) == nil {
					s.deliver(nd, &netMsg{h: h, kind: 'B', part: ps.GetPart(i), round: nd.cs.Round, psh: ps.Header(), from: src.id}, fmt.Sprintf("c%d", src.id))
					did = true
				}
			}
		}
	}
	if did {
		s.o.Count("catchup")
	}
	return did
}

// restart replaces the node by a new ConsensusState built from what it saved (state store + block
// store); only between heights (crash recovery inside a height is C05's subject: the WAL is nil here).
func (s *netSim) restart(nd *netNode) {
	if nd.dead != "" || nd.cs.Step != cstypes.RoundStepNewHeight || len(nd.cs.internalMsgQueue) > 0 {
		return
	}
	want := nd.cs.state
	var st cstate.LatestBlockState
	if p := netGuarded(func() { st = nd.store.Load() }); p != "" {
		s.fail("restart-load-panic", fmt.Sprintf("node=%d h=%d: %s", nd.id, nd.cs.Height, strings.Split(p, "\n")[0]))
		return
	}
	if st.IsEmpty() {
		if want.LastBlockHeight == 0 {
			st = want.Copy() // nothing committed yet: the node starts from its genesis state again
		} else {
			s.fail("restart-state-missing", fmt.Sprintf("node=%d h=%d", nd.id, nd.cs.Height))
			return
		}
	}
	if st.LastBlockHeight != want.LastBlockHeight || !st.LastBlockID.Equal(want.LastBlockID) ||
		!st.Validators.Hash().Equal(want.Validators.Hash()) || !st.NextValidators.Hash().Equal(want.NextValidators.Hash()) {
		s.fail("restart-state-differs", fmt.Sprintf("node=%d height %d/%d", nd.id, st.LastBlockHeight, want.LastBlockHeight))
	}
	if st.Validators.GetProposer() == nil || want.Validators.GetProposer() == nil || !st.Validators.GetProposer().Address.Equal(want.Validators.GetProposer().Address) {
		s.fail("restart-proposer-mismatch", fmt.Sprintf("node=%d h=%d restarted node expects another proposer", nd.id, nd.cs.Height))
		// reported (C14's defect); the run goes on with the state the node had in memory, so that what
		// follows is not a consequence of this failure
		st = want.Copy()
		s.o.Count("restart:state-repaired-after-mismatch")
	} else if !netSamePriorities(st.Validators, want.Validators) {
		// C04 section: same root cause (Store.Load returns Validators with other proposer priorities), not
		// visible in round 1: the restarted node would expect another proposer in a later round of the height
		s.fail("restart-proposer-mismatch", fmt.Sprintf("node=%d h=%d restarted node has other proposer priorities (same proposer in round 1, another one in a later round)", nd.id, nd.cs.Height))
		st = want.Copy()
		s.o.Count("restart:state-repaired-after-mismatch")
	}
	nd.eb.Stop()
	nn := s.newNode(nd.id, st, nd)
	if nn == nil {
		nd.dead = "restart failed"
		return
	}
	s.nodes[nd.id] = nn
	s.o.Count("restart")
	s.o.Mark("restart")
}

// C04 section: the proposer priorities of two validator sets with the same members are the same
func netSamePriorities(a, b *types.ValidatorSet) bool {
	if a == nil || b == nil || len(a.Validators) != len(b.Validators) {
		return false
	}
	for i := range a.Validators {
		if !a.Validators[i].Address.Equal(b.Validators[i].Address) || a.Validators[i].ProposerPriority != b.Validators[i].ProposerPriority {
			return false
		}
	}
	return true
}

func (s *netSim) adversarial(budget int) {
	for k := 0; k < budget; k++ {
		s.step++
		cor := s.correct()
		if len(cor) == 0 {
			return
		}
		nd := cor[s.r.Intn(len(cor))]
		switch s.r.Pick(52, 6, 9, 5, 4, 3, 13, 2, 3, 2, 1) {
		case 0: // deliver (random order = reordering; not picking = delay)
			if len(s.flights) == 0 {
				continue
			}
			for try := 0; try < 8; try++ {
				i := s.r.Intn(len(s.flights))
				if s.deliverable(s.flights[i]) {
					s.deliverFlight(i, true)
					s.o.Count("net:deliver")
					break
				}
			}
		case 1: // a node processes own messages it had left in its queue
			if s.drain(nd, 1+s.r.Intn(3)) > 0 {
				s.o.Count("net:own-late")
			}
		case 2: // a timeout fires (any node, whatever the duration: asynchrony)
			if nd.ticker.fire() {
				if nd.ticker.deadline > s.vnow {
					s.vnow = nd.ticker.deadline
				}
				if s.r.Chance(4, 5) {
					s.handleTock(nd, len(nd.ticker.tocks)-1)
				} else {
					s.o.Count("net:tock-delayed")
				}
			}
		case 3: // a fired timeout reaches the receive routine late
			if n := len(nd.ticker.tocks); n > 0 {
				s.handleTock(nd, s.r.Intn(n))
				s.o.Count("net:tock-late")
			}
		case 4: // drop
			if len(s.flights) > 0 {
				i := s.r.Intn(len(s.flights))
				s.flights[i] = s.flights[len(s.flights)-1]
				s.flights = s.flights[:len(s.flights)-1]
				s.o.Count("net:drop")
			}
		case 5: // duplicate
			if len(s.flights) > 0 {
				i := s.r.Intn(len(s.flights))
				if s.deliverable(s.flights[i]) {
					s.deliverFlight(i, false)
					s.o.Count("net:duplicate")
				}
			}
		case 6:
			s.byzAct(s.r.Chance(2, 3))
		case 7: // partition / heal
			if s.group == nil {
				s.group = make([]int, s.n)
				for i := range s.group {
					s.group[i] = s.r.Intn(2)
				}
				s.o.Count("net:partition")
			} else {
				s.group = nil
				s.o.Count("net:heal")
			}
		case 8:
			s.catchup(nd)
		case 9: // a correct node forwards a message it has seen to another node
			if ht := s.hs[nd.cs.Height]; ht != nil && len(ht.archive) > 0 {
				m := ht.archive[s.r.Intn(len(ht.archive))]
				o := cor[s.r.Intn(len(cor))]
				if o.seen[m.id] && o.id != nd.id && s.deliverable(&netFlight{m: m, from: o.id, to: nd.id}) {
					s.deliver(nd, m, fmt.Sprintf("n%d", o.id))
					s.o.Count("net:forward")
				}
			}
		case 10:
			if s.mode == "C04" {
				s.restart(nd)
			}
		}
		if k%64 == 63 {
			s.pruneFlights()
		}
	}
	s.group = nil
}

// ---------------------------------------------------------------------------------------------
// the synchronous phase

// gossipTo: everything the correct part of the network knows and the node can use now.
func (s *netSim) gossipTo(nd *netNode) bool {
	did := s.drain(nd, 0) > 0
	if nd.dead != "" {
		return false
	}
	cs := nd.cs
	h := cs.Height
	s.queryMaj23(nd)
	// behind by a height: commit and block from a peer
	if s.catchup(nd) {
		did = true
		if nd.dead != "" || cs.Height != h {
			return true
		}
	}
	// late precommits of the previous height while waiting in NewHeight
	if cs.Step == cstypes.RoundStepNewHeight && h > 1 {
		if pht := s.hs[h-1]; pht != nil {
			for _, m := range pht.archive {
				if m.kind == 'V' && m.vote.Type == kproto.PrecommitType && !nd.seen[m.id] && cs.LastCommit != nil && m.vote.Round == cs.LastCommit.GetRound() {
					s.deliver(nd, m, fmt.Sprintf("n%d", m.from))
					did = true
					if cs.Height != h || cs.Step != cstypes.RoundStepNewHeight {
						break
					}
				}
			}
		}
	}
	ht := s.hs[h]
	if ht == nil || nd.dead != "" || cs.Height != h {
		return did
	}
	for i := 0; i < len(ht.archive); i++ {
		m := ht.archive[i]
		if nd.dead != "" || cs.Height != h {
			return true
		}
		switch m.kind {
		case 'V':
			if cs.Votes.Prevotes(m.vote.Round) == nil || netHasVote(cs, m.vote) {
				continue
			}
			if at, ok := nd.seenAt[m.id]; ok && at >= nd.majEpoch {
				continue // refused before (bad signature, or conflicting without a +2/3 claim) and nothing has changed
			}
		case 'P':
			if nd.seen[m.id] || m.prop.Round != cs.Round || cs.Proposal != nil {
				continue
			}
		case 'B':
			if cs.ProposalBlockParts == nil || cs.ProposalBlockParts.IsComplete() || !cs.ProposalBlockParts.HasHeader(m.psh) ||
				cs.ProposalBlockParts.GetPart(int(m.part.Index)) != nil {
				continue
			}
		}
		peer := fmt.Sprintf("n%d", m.from)
		if s.byz[m.from] {
			peer = "relay"
		}
		if os.Getenv("NET_DEBUG") == "2" {
			fmt.Printf("gossip step=%d to=%d kind=%c id=%d from=%d h=%d\n", s.step, nd.id, m.kind, m.id, m.from, m.h)
		}
		s.deliver(nd, m, peer)
		did = true
	}
	return did
}

func (s *netSim) dump() string {
	var l []string
	for _, nd := range s.nodes {
		if nd.byz {
			l = append(l, fmt.Sprintf("node%d:byz", nd.id))
			continue
		}
		cs := nd.cs
		ht := s.hs[cs.Height]
		bs := func(b *types.Block) string {
			if b == nil || ht == nil {
				return "-"
			}
			for k, id := range ht.bids {
				if strings.HasPrefix(k, fmt.Sprintf("%x/", b.Hash().Bytes())) {
					return fmt.Sprint(id)
				}
			}
			return "?"
		}
		prop, parts, pend := "-", "-", "-"
		if cs.Proposal != nil {
			prop = fmt.Sprintf("r%d/pol%d", cs.Proposal.Round, cs.Proposal.POLRound)
		}
		if cs.ProposalBlockParts != nil {
			parts = fmt.Sprintf("%d/%d", cs.ProposalBlockParts.Count(), cs.ProposalBlockParts.Total())
		}
		if nd.ticker.pending != nil {
			pend = fmt.Sprintf("%d/%d/%d", nd.ticker.pending.Height, nd.ticker.pending.Round, nd.ticker.pending.Step)
		}
		pvs, pcs, prp := "-", "-", "-"
		if v := cs.Votes.Prevotes(cs.Round); v != nil {
			pvs = v.BitArray().String()
		}
		if v := cs.Votes.Precommits(cs.Round); v != nil {
			pcs = v.BitArray().String()
		}
		if pp := cs.Validators.GetProposer(); pp != nil {
			prp = fmt.Sprint(s.idOf[pp.Address])
		}
		l = append(l, fmt.Sprintf("node%d:h=%d r=%d step=%d prevotes=%s precommits=%s proposer=node%s restarts=%d locked=%s@%d valid=%s@%d proposal=%s block=%s parts=%s timeout=%s dead=%q",
			nd.id, cs.Height, cs.Round, cs.Step, pvs, pcs, prp, nd.restarts, bs(cs.LockedBlock), cs.LockedRound, bs(cs.ValidBlock), cs.ValidRound, prop, bs(cs.ProposalBlock), parts, pend, nd.dead))
		if os.Getenv("NET_DEBUG") != "" {
			own, _ := cs.Validators.GetByAddress(nd.key.GetAddress())
			l = append(l, fmt.Sprintf("  [node%d ownidx=%d valhash=%x lastcommit=%v]", nd.id, own, cs.Validators.Hash().Bytes()[:4], cs.LastCommit != nil))
			if ht != nil {
				for _, m := range ht.archive {
					if m.kind == 'V' && m.vote.Round == cs.Round && m.from != nd.id && !netHasVote(cs, m.vote) {
						at, ok := nd.seenAt[m.id]
						err := m.vote.Verify(netChainID, s.keys[m.from].GetAddress())
						l = append(l, fmt.Sprintf("  [missing vote from node%d idx=%d type=%d seenAt=%d,%v epoch=%d verify=%v]", m.from, m.vote.ValidatorIndex, m.vote.Type, at, ok, nd.majEpoch, err))
					}
				}
			}
		}
	}
	if s.ownInvalid != "" {
		l = append(l, "last invalid own proposal: "+s.ownInvalid)
	}
	return strings.Join(l, "; ")
}

// synchronous runs the network synchronously until every correct node has committed height
// `target` (true) or the progress bound is exceeded (false, reported as no-progress).
func (s *netSim) synchronous(target uint64) bool {
	s.group = nil
	done := func() bool {
		for _, nd := range s.correct() {
			if nd.cs.Height <= target {
				return false
			}
		}
		return true
	}
	bound := uint32(20 * s.n)
	start := map[uint64]uint32{} // height -> highest round of a correct node when first seen in this phase
	iter := 0
	for !done() {
		iter++
		s.step++
		if iter > 6000*s.n {
			s.fail("no-progress", fmt.Sprintf("target height %d: the synchronous phase does not terminate (livelock); %s", target, s.dump()))
			return false
		}
		cor := s.correct()
		if len(cor) == 0 {
			return false
		}
		// Byzantine validators keep acting (their messages are delivered at once, then gossiped)
		if !s.byzQuiet && s.r.Chance(1, 6) {
			s.byzAct(true)
		}
		// flights of correct nodes are superseded by gossip; Byzantine flights arrive
		k := 0
		var byzF []*netFlight
		for _, f := range s.flights {
			if s.byz[f.from] {
				byzF = append(byzF, f)
			}
		}
		s.flights = s.flights[:k]
		for _, f := range byzF {
			s.flights = append(s.flights, f)
			s.deliverFlight(len(s.flights)-1, true)
		}
		// late tocks reach the receive routine
		for _, nd := range cor {
			for len(nd.ticker.tocks) > 0 && nd.dead == "" {
				s.handleTock(nd, 0)
			}
		}
		// deliver to a fixpoint
		progress := false
		for _, i := range s.r.Perm(len(cor)) {
			if s.gossipTo(cor[i]) {
				progress = true
			}
		}
		// the round bound
		for _, nd := range cor {
			if nd.cs.Height > target {
				continue
			}
			r0, ok := start[nd.cs.Height]
			if !ok {
				r0 = 0
				for _, o := range cor {
					if o.cs.Height == nd.cs.Height && o.cs.Round > r0 {
						r0 = o.cs.Round
					}
				}
				start[nd.cs.Height] = r0
			}
			if nd.cs.Round > r0+bound {
				s.fail("no-progress", fmt.Sprintf("height %d: no commit within %d rounds of synchrony (round %d -> %d); %s", nd.cs.Height, bound, r0, nd.cs.Round, s.dump()))
				return false
			}
		}
		if progress {
			continue
		}
		// nothing deliverable: the earliest pending timeout fires
		var first *netNode
		for _, nd := range cor {
			if nd.ticker.pending != nil && (first == nil || nd.ticker.deadline < first.ticker.deadline) {
				first = nd
			}
		}
		if first == nil {
			if done() {
				break
			}
			s.fail("no-progress", fmt.Sprintf("target height %d: nothing deliverable and no timeout pending (deadlock); %s", target, s.dump()))
			return false
		}
		if first.ticker.deadline > s.vnow {
			s.vnow = first.ticker.deadline
		}
		first.ticker.fire()
		s.handleTock(first, len(first.ticker.tocks)-1)
	}
	return true
}

// ---------------------------------------------------------------------------------------------
// direct oracles on the signature log

func netQuorum(p, total int64) bool {
	return new(big.Int).Mul(big.NewInt(p), big.NewInt(3)).Cmp(new(big.Int).Mul(big.NewInt(total), big.NewInt(2))) > 0
}

// power of the distinct validators that signed (typ, round, bid) within trace[:upto]
func (ht *netHeight) signedPower(upto int, typ int, round uint32, bid int) int64 {
	seen := map[int]bool{}
	p := int64(0)
	for _, e := range ht.trace[:upto] {
		if e.typ == typ && e.round == round && e.bid == bid && !seen[e.val] {
			seen[e.val] = true
			p += ht.powers[e.val]
		}
	}
	return p
}

// obligations of validator val on its own signing events (independent re-statement of the four
// clauses of Agreement.obeys); returns the first violated clause or "".
func (ht *netHeight) obligations(val int) string {
	tr := ht.trace
	for k, e := range tr {
		if e.val != val {
			continue
		}
		if e.typ == 2 {
			for _, d := range tr[:k] {
				if d.val == val && d.typ == 2 && d.round == e.round && d.bid != e.bid {
					return fmt.Sprintf("two-precommits round=%d blocks=%d,%d", e.round, d.bid, e.bid)
				}
				if d.val == val && d.typ == 1 && d.round > e.round {
					return fmt.Sprintf("round-went-back precommit-round=%d after prevote-round=%d", e.round, d.round)
				}
			}
			if e.bid != 0 && !netQuorum(ht.signedPower(k, 1, e.round, e.bid), ht.total) {
				return fmt.Sprintf("precommit-without-polka round=%d block=%d", e.round, e.bid)
			}
		} else {
			for _, d := range tr[:k] {
				if d.val != val || d.typ != 2 || d.bid == 0 || d.round >= e.round || d.bid == e.bid {
					continue
				}
				ok := false
				for _, q := range tr[:k] {
					if q.typ == 1 && q.round > d.round && q.round <= e.round && q.bid != d.bid && netQuorum(ht.signedPower(k, 1, q.round, q.bid), ht.total) {
						ok = true
						break
					}
				}
				if !ok {
					return fmt.Sprintf("lock-broken precommit(block=%d,round=%d) then prevote(block=%d,round=%d) without a polka for another value in between", d.bid, d.round, e.bid, e.round)
				}
			}
		}
	}
	return ""
}

func (s *netSim) checkHeights() {
	var hl []uint64
	for h := range s.hs {
		hl = append(hl, h)
	}
	sort.Slice(hl, func(i, j int) bool { return hl[i] < hl[j] })
	for _, h := range hl {
		ht := s.hs[h]
		if len(ht.trace) == 0 && len(ht.commits) == 0 {
			continue
		}
		// agreement
		for _, c := range ht.commits {
			if c.hash != ht.commits[0].hash {
				s.fail("agreement", fmt.Sprintf("height %d: node %d committed block %d (round %d), node %d committed block %d (round %d)", h,
					ht.commits[0].node, ht.commits[0].bid, ht.commits[0].round, c.node, c.bid, c.round))
			}
		}
		var bad []string
		for i, id := range ht.nodeOf {
			if s.byz[id] {
				continue
			}
			if why := ht.obligations(i); why != "" {
				bad = append(bad, fmt.Sprint(i))
				s.fail("obligation", fmt.Sprintf("height %d validator %d (node %d): %s", h, i, id, why))
			}
		}
		if s.mode != "C01" {
			for _, c := range ht.commits {
				if !netQuorum(ht.signedPower(len(ht.trace), 2, c.round, c.bid), ht.total) {
					s.fail("commit-without-quorum", fmt.Sprintf("height %d node %d round %d block %d", h, c.node, c.round, c.bid))
				}
			}
			continue
		}
		// the trace for the extracted checker
		s.o.InOnly(fmt.Sprintf("H %d %d", h, len(ht.powers)))
		pl, fl := []string{"VALS"}, []string{"FAULTY"}
		for i, p := range ht.powers {
			pl = append(pl, fmt.Sprint(p))
			fl = append(fl, fmt.Sprint(netB(s.byz[ht.nodeOf[i]])))
		}
		s.o.InOnly(strings.Join(pl, " "))
		s.o.InOnly(strings.Join(fl, " "))
		for _, e := range ht.trace {
			s.o.InOnly(fmt.Sprintf("S %d %d %d %d", e.val, e.typ, e.round, e.bid))
			if e.lock != "" { // the lock of the automaton (C01/Monitor.v) at this point of the trace
				s.o.Op(fmt.Sprintf("L %d", e.val), fmt.Sprintf("lock %d %s", e.val, e.lock))
			}
		}
		bs := "-"
		if len(bad) > 0 {
			bs = strings.Join(bad, ",")
		}
		s.o.Op("OBEY", fmt.Sprintf("h=%d obey=%d bad=%s auto=%d", h, netB(len(bad) == 0), bs, netB(len(bad) == 0)))
		for _, c := range ht.commits {
			q := netQuorum(ht.signedPower(len(ht.trace), 2, c.round, c.bid), ht.total)
			if !q {
				s.fail("commit-without-quorum", fmt.Sprintf("height %d node %d round %d block %d", h, c.node, c.round, c.bid))
			}
			s.o.Op(fmt.Sprintf("C %d %d %d", c.node, c.round, c.bid), fmt.Sprintf("h=%d node=%d quorum=%d", h, c.node, netB(q)))
		}
		s.o.Count(fmt.Sprintf("trace-len<=%d", (len(ht.trace)/20+1)*20))
	}
}

// ---------------------------------------------------------------------------------------------
// block sync: a late node catches up through the real blockchain processor

func (s *netSim) blockSync() {
	var src *netNode
	for _, nd := range s.correct() {
		if src == nil || nd.bo.height > src.bo.height {
			src = nd
		}
	}
	if src == nil || src.bo.height < 2 {
		return
	}
	H := src.bo.height
	db := memorydb.New()
	store := cstate.NewStore(db)
	netWriteGenesisBlock(db)
	gen := s.genesis.Copy()
	if s.genDoc != nil {
		gen, _ = store.LoadStateFromDBOrGenesisDoc(s.genDoc)
	} else {
		store.Save(gen)
	}
	dummy := &netNode{sim: s, id: -1, byz: true}
	bo := &netBlockOps{node: dummy, db: db, blocks: map[uint64]*types.Block{}, parts: map[uint64]*types.PartSet{}, seen: map[uint64]*types.Commit{}}
	dummy.bo = bo
	exec := cstate.NewBlockExecutor(store, log.New(), netEv{}, bo)
	eb := types.NewEventBus()
	eb.SetLogger(log.New())
	eb.Start()
	defer eb.Stop()
	exec.SetEventBus(eb)
	proc := blockchain.VerifNewProcessor(bo, exec, gen)
	queued := map[uint64]bool{}
	offer := func(peer string, b *types.Block) {
		if queued[b.Height()] {
			return
		}
		queued[b.Height()] = true
		if r := proc.BlockReceived(p2p.ID(peer), b); r != "" {
			s.fail("blocksync-panic", r)
		}
	}
	rebuild := func(b *types.Block, lc *types.Commit) *types.Block {
		return types.NewBlock(b.Header(), nil, lc, nil, trie.NewStackTrie(nil))
	}
	for h := uint64(1); h < H; h++ {
		first, second := src.bo.blocks[h], src.bo.blocks[h+1]
		ht := s.hs[h]
		if s.r.Chance(1, 2) && !queued[h] && !queued[h+1] && ht != nil {
			kinds := []string{"insufficient", "foreign", "other-block", "byz-only"}
			if s.mode == "C01" && netC01SyncKinds != nil {
				kinds = append(kinds, "byz-repeated-addr", "byz-repeated-slot", "renamed", "permuted", "other-round", "renamed")
			}
			kind := kinds[s.r.Intn(len(kinds))]
			bf, bs := first, second
			lc := second.LastCommit()
			switch kind {
			case "insufficient", "foreign", "other-block", "byz-only":
			default:
				var ok bool
				if bf, bs, ok = netC01SyncKinds(s, h, ht, first, second, kind); !ok {
					s.o.Count("blocksync:kind-not-applicable:" + kind)
					kind = "insufficient"
					bf, bs = first, second
				}
			}
			switch kind {
			case "insufficient": // the commit keeps at most 2/3 of the power
				cp := types.NewCommit(lc.Height, lc.Round, lc.BlockID, append([]types.CommitSig{}, lc.Signatures...))
				left := int64(0)
				for i, sg := range cp.Signatures {
					if sg.ForBlock() {
						left += ht.powers[i]
					}
				}
				for _, i := range s.r.Perm(len(cp.Signatures)) {
					if !netQuorum(left, ht.total) {
						break
					}
					if cp.Signatures[i].ForBlock() {
						left -= ht.powers[i]
						cp.Signatures[i] = types.NewCommitSigAbsent()
					}
				}
				bs = rebuild(second, cp)
			case "foreign": // right addresses, signatures by other keys
				cp := types.NewCommit(lc.Height, lc.Round, lc.BlockID, append([]types.CommitSig{}, lc.Signatures...))
				for i := range cp.Signatures {
					if cp.Signatures[i].Absent() {
						continue
					}
					k, _ := crypto.ToECDSA(crypto.Keccak256([]byte(fmt.Sprintf("net-foreign-%d", i))))
					v := cp.GetVote(uint32(i)).ToProto()
					types.NewDefaultPrivValidator(k).SignVote(netChainID, v)
					cp.Signatures[i].Signature = v.Signature
				}
				bs = rebuild(second, cp)
			case "other-block", "byz-only": // another block of that height
				hd := first.Header()
				hd.GasLimit++
				ob := types.NewBlock(hd, nil, first.LastCommit(), nil, trie.NewStackTrie(nil))
				bf = ob
				if kind == "byz-only" { // with a commit for it signed by the Byzantine validators only
					obid := types.BlockID{Hash: ob.Hash(), PartsHeader: ob.MakePartSet(types.BlockPartSizeBytes).Header()}
					sigs := make([]types.CommitSig, len(ht.powers))
					for i := range sigs {
						sigs[i] = types.NewCommitSigAbsent()
						if id := ht.nodeOf[i]; s.byz[id] {
							if v := s.byzVote(id, h, kproto.PrecommitType, lc.Round, obid); v != nil {
								sigs[i] = v.CommitSig()
							}
						}
					}
					bs = rebuild(second, types.NewCommit(h, lc.Round, obid, sigs))
				}
			}
			offer("bad", bf)
			offer("bad", bs)
			res, rh := proc.Process()
			s.o.Count("blocksync:bad-" + kind + ":" + res)
			if res == "processed" || proc.Height() >= h {
				cls := "blocksync-adopted-uncommitted"
				if kind == "renamed" { // the block is the committed one, the proof names other validators than its signers
					cls = "blocksync-adopted-on-forged-address-commit"
				}
				s.fail(cls, fmt.Sprintf("height %d: the processor adopted a block offered with a %s commit", h, kind))
				return
			}
			if res != "refused" || rh != h {
				s.fail("blocksync-unexpected", fmt.Sprintf("height %d kind %s: %s %d", h, kind, res, rh))
				return
			}
			delete(queued, h)
			delete(queued, h+1)
		}
		offer("good", first)
		offer("good", second)
		res, _ := proc.Process()
		if res != "processed" {
			// a committed block the processor cannot adopt (e.g. committed with a non-standard part size)
			psh := src.bo.parts[h].Header()
			std := first.MakePartSet(types.BlockPartSizeBytes).Header()
			s.o.Count(fmt.Sprintf("blocksync:genuine-%s:standard-parts=%v", res, psh.Equals(std)))
			if psh.Equals(std) {
				s.fail("blocksync-refuses-committed", fmt.Sprintf("height %d: %s", h, res))
			} else {
				// the block was committed with a part size other than types.BlockPartSizeBytes (Byzantine
				// proposer); the processor recomputes the block id with the standard size and can never
				// verify the commit: a syncing node is stuck below this height.  Liveness (C04), not agreement.
				s.o.Mark("blocksync-nonstandard-parts-refused")
				if s.mode == "C04" {
					s.fail("blocksync-nonstandard-parts-refused", fmt.Sprintf("height %d: committed block id has parts header %d/%x, the processor expects %d/%x: %s",
						h, psh.Total, psh.Hash[:4], std.Total, std.Hash[:4], res))
				}
			}
			return
		}
		s.o.Count("blocksync:processed")
		if got := bo.blocks[h]; got == nil || got.Hash() != first.Hash() || proc.Height() != h {
			s.fail("blocksync-adopted-uncommitted", fmt.Sprintf("height %d: adopted block differs from the committed one", h))
			return
		}
	}
	s.o.Mark("blocksync-complete")
}

// ---------------------------------------------------------------------------------------------
// scripted adversarial prefixes

// flush delivers every message in flight that the network does not hold back, to a fixpoint.
func (s *netSim) flush() {
	for progress := true; progress; {
		progress = false
		for i := 0; i < len(s.flights); {
			if s.deliverable(s.flights[i]) {
				// in order: move the flight to the end, where deliverFlight removes it without reordering
				f := s.flights[i]
				copy(s.flights[i:], s.flights[i+1:])
				s.flights[len(s.flights)-1] = f
				s.deliverFlight(len(s.flights)-1, true)
				progress = true
			} else {
				i++
			}
		}
	}
}

// bftTimeScenario: four validators of equal power, one Byzantine.  Height 1 is decided in round 1;
// the Byzantine validator's precommit carries a timestamp before the genesis time; the network
// delays the correct precommits so that every correct node commits on exactly three precommits
// (its own, one other correct one, the Byzantine one) and leaves the NewHeight step of height 2
// before the remaining precommit arrives.  From then on the network is synchronous.
func (s *netSim) bftTimeScenario() bool {
	cor := s.correct()
	if len(cor) != 3 {
		return false
	}
	isPC := func(m *netMsg) bool { return m.kind == 'V' && m.h == 1 && m.vote.Type == kproto.PrecommitType }
	for _, nd := range cor {
		if nd.ticker.fire() {
			s.handleTock(nd, 0)
		}
	}
	s.hold = func(m *netMsg, to int) bool { return isPC(m) }
	s.flush()
	var bid types.BlockID
	for _, nd := range cor {
		vs := nd.cs.Votes.Precommits(1)
		var own *types.Vote
		if vs != nil {
			own = vs.GetByAddress(nd.key.GetAddress())
		}
		if own == nil || own.BlockID.IsZero() {
			s.o.Count("scenario:bft-time:prefix-not-reached")
			return false
		}
		bid = own.BlockID
	}
	ht := s.hs[1]
	b := s.byzIDs(ht)[0]
	v := &types.Vote{ValidatorAddress: s.keys[b].GetAddress(), ValidatorIndex: uint32(ht.idxOf[b]), Height: 1, Round: 1,
		Timestamp: netGenesisTime.Add(-time.Hour), Type: kproto.PrecommitType, BlockID: bid}
	pv := v.ToProto()
	s.logSig(b, kproto.PrecommitType, 1, 1, bid)
	if err := s.keys[b].SignVote(netChainID, pv); err != nil {
		panic(err)
	}
	v.Signature = pv.Signature
	for _, nd := range cor {
		s.deliver(nd, s.archiveMsg(&netMsg{h: 1, kind: 'V', vote: v, from: b}), fmt.Sprintf("byz%d", b))
	}
	allowed := map[[2]int]bool{{cor[1].id, cor[0].id}: true, {cor[0].id, cor[1].id}: true, {cor[0].id, cor[2].id}: true}
	s.hold = func(m *netMsg, to int) bool { return isPC(m) && !allowed[[2]int{m.from, to}] }
	s.flush()
	for _, nd := range cor {
		if nd.cs.Height != 2 || nd.cs.Step != cstypes.RoundStepNewHeight {
			s.o.Count("scenario:bft-time:prefix-not-reached")
			return false
		}
	}
	for _, nd := range cor {
		if nd.ticker.fire() {
			s.handleTock(nd, len(nd.ticker.tocks)-1)
		}
	}
	s.hold = nil
	s.o.Mark("scenario-bft-time-prefix-reached")
	return true
}

// staleLockScenario: four validators of equal power, one Byzantine (B), correct proposers P1, P2 in
// rounds 1 and 2, X the third correct validator.
//  round 1: everybody prevotes P1's block A; only X sees the polka (it locks A and precommits A);
//           P1 and P2 see two prevotes for A and B's nil prevote, precommit nil and move on.
//  round 2: P2 proposes a new block C; P1, P2 and B prevote C: P1 and P2 lock C.  X is still in round 1.
//  round 3: P1 and P2 prevote C again.
//  X now receives the round-2 prevotes (the polka for C completes while X is in round 1, the vote
//  that completes it makes X skip to round 2) and then the round-3 prevotes (+2/3 any: X skips to
//  round 3 before it prevoted or precommitted in round 2).  From then on the network is synchronous
//  and B is silent.
func (s *netSim) staleLockScenario() bool {
	ht := s.hs[1]
	cor := s.correct()
	if len(cor) != 3 || ht == nil {
		return false
	}
	b := s.byzIDs(ht)[0]
	p1, p2 := s.nodes[s.proposerOf(ht, 1)], s.nodes[s.proposerOf(ht, 2)]
	var x *netNode
	for _, nd := range cor {
		if nd.id != p1.id && nd.id != p2.id {
			x = nd
		}
	}
	if x == nil || p1.byz || p2.byz || p1.id == p2.id {
		s.o.Count("scenario:stale-lock:setup-not-applicable")
		return false
	}
	notReached := func(why string) bool {
		s.o.Count("scenario:stale-lock:prefix-not-reached:" + why)
		return false
	}
	fireAll := func(l ...*netNode) {
		for _, nd := range l {
			if nd.ticker.fire() {
				s.handleTock(nd, len(nd.ticker.tocks)-1)
			}
		}
	}
	toAll := func(v *types.Vote, l ...*netNode) {
		if v == nil {
			return
		}
		m := s.archiveMsg(&netMsg{h: 1, kind: 'V', vote: v, from: b})
		for _, nd := range l {
			s.deliver(nd, m, fmt.Sprintf("byz%d", b))
		}
	}
	// the network during the prefix: X receives round-1 prevotes only; nothing from X reaches P1, P2
	s.hold = func(m *netMsg, to int) bool {
		if to == x.id {
			return !(m.kind != 'V' && m.h == 1 && (m.kind == 'B' || m.prop.Round == 1)) && !(m.kind == 'V' && m.vote.Round == 1 && m.vote.Type == kproto.PrevoteType)
		}
		return m.from == x.id
	}
	fireAll(cor...) // NewHeight -> round 1, P1 proposes
	s.flush()
	if x.cs.LockedRound != 1 || p1.cs.LockedBlock != nil || p2.cs.LockedBlock != nil {
		return notReached("round1-lock")
	}
	a := types.BlockID{Hash: x.cs.LockedBlock.Hash(), PartsHeader: x.cs.LockedBlockParts.Header()}
	toAll(s.byzVote(b, 1, kproto.PrevoteType, 1, types.BlockID{}), p1, p2) // +2/3 any prevotes
	fireAll(p1, p2)                                                         // PrevoteWait -> precommit nil
	s.flush()
	toAll(s.byzVote(b, 1, kproto.PrecommitType, 1, types.BlockID{}), p1, p2) // +2/3 nil precommits
	s.flush()
	fireAll(p1, p2) // PrecommitWait -> round 2, P2 proposes
	s.flush()
	if p1.cs.Round != 2 || p2.cs.Round != 2 || p2.cs.Proposal == nil || p1.cs.ProposalBlock == nil {
		return notReached("round2-proposal")
	}
	c := p2.cs.Proposal.POLBlockID
	if c.Equal(a) {
		return notReached("same-block")
	}
	toAll(s.byzVote(b, 1, kproto.PrevoteType, 2, c), p1, p2) // polka for C at round 2
	s.flush()
	if p1.cs.LockedRound != 2 || p2.cs.LockedRound != 2 {
		return notReached("round2-lock")
	}
	toAll(s.byzVote(b, 1, kproto.PrecommitType, 2, types.BlockID{}), p1, p2) // +2/3 any precommits, no commit
	s.flush()
	fireAll(p1, p2) // PrecommitWait -> round 3
	s.flush()
	for k := 0; k < 3; k++ { // propose timeout of round 3 where no complete proposal arrived
		for _, nd := range []*netNode{p1, p2} {
			if nd.cs.Round == 3 && nd.cs.Step <= cstypes.RoundStepPropose {
				fireAll(nd)
			}
		}
		s.flush()
	}
	if p1.cs.Round != 3 || p2.cs.Round != 3 || p1.cs.Step < cstypes.RoundStepPrevote || p2.cs.Step < cstypes.RoundStepPrevote {
		return notReached("round3-prevotes")
	}
	if x.cs.Round != 1 || x.cs.LockedRound != 1 {
		return notReached("x-moved")
	}
	// X receives the prevotes of rounds 2 and 3
	for _, r := range []uint32{2, 3} {
		if r == 3 {
			if v := s.byzVote(b, 1, kproto.PrevoteType, 3, types.BlockID{}); v != nil {
				s.archiveMsg(&netMsg{h: 1, kind: 'V', vote: v, from: b})
			}
		}
		for _, m := range append([]*netMsg{}, ht.archive...) {
			if m.kind == 'V' && m.vote.Type == kproto.PrevoteType && m.vote.Round == r && m.from != x.id {
				s.deliver(x, m, fmt.Sprintf("n%d", m.from))
			}
		}
	}
	if x.cs.Round != 3 || x.cs.LockedRound != 1 {
		return notReached(fmt.Sprintf("x-at-round-%d-locked-%d", x.cs.Round, x.cs.LockedRound))
	}
	s.hold = nil
	s.o.Mark("scenario-stale-lock-prefix-reached")
	return true
}

// commitSkipScenario: four validators of equal power, one Byzantine (B), correct proposers P1, P2 in
// rounds 1 and 2, X the third correct validator; X never receives P1's proposal.
//  round 1: P1, P2 and B prevote P1's block A; P1 and P2 precommit A; B shows a precommit for nil to
//           P1 and P2 (they go on to round 2) and a precommit for A to X, which has now +2/3
//           precommits for A: X enters the commit step and waits for the block.
//  round 2: P2 re-proposes A; P1, P2 prevote A, B prevotes nil.  X receives these three prevotes
//           (+2/3 any for a later round) ... and leaves the commit step for round 2.
//  B now shows its precommit for A to P1 and P2 as well: they commit height 1 with exactly the
//  precommits X already has.  From then on the network is synchronous and B is silent.
func (s *netSim) commitSkipScenario() bool {
	ht := s.hs[1]
	cor := s.correct()
	if len(cor) != 3 || ht == nil {
		return false
	}
	b := s.byzIDs(ht)[0]
	p1, p2 := s.nodes[s.proposerOf(ht, 1)], s.nodes[s.proposerOf(ht, 2)]
	var x *netNode
	for _, nd := range cor {
		if nd.id != p1.id && nd.id != p2.id {
			x = nd
		}
	}
	if x == nil || p1.byz || p2.byz || p1.id == p2.id {
		s.o.Count("scenario:commit-skip:setup-not-applicable")
		return false
	}
	notReached := func(why string) bool {
		s.o.Count("scenario:commit-skip:prefix-not-reached:" + why)
		return false
	}
	fireAll := func(l ...*netNode) {
		for _, nd := range l {
			if nd.ticker.fire() {
				s.handleTock(nd, len(nd.ticker.tocks)-1)
			}
		}
	}
	byzTo := func(v *types.Vote, l ...*netNode) {
		if v == nil {
			return
		}
		m := s.archiveMsg(&netMsg{h: 1, kind: 'V', vote: v, from: b})
		for _, nd := range l {
			s.deliver(nd, m, fmt.Sprintf("byz%d", b))
		}
	}
	votesTo := func(nd *netNode, typ kproto.SignedMsgType, round uint32) {
		for _, m := range append([]*netMsg{}, ht.archive...) {
			if m.kind == 'V' && m.vote.Type == typ && m.vote.Round == round && m.from != nd.id {
				s.deliver(nd, m, fmt.Sprintf("n%d", m.from))
			}
		}
	}
	s.hold = func(m *netMsg, to int) bool { return to == x.id || m.from == x.id }
	fireAll(cor...) // NewHeight -> round 1, P1 proposes A
	s.flush()
	if p2.cs.ProposalBlock == nil || p1.cs.ProposalBlock == nil {
		return notReached("round1-proposal")
	}
	a := types.BlockID{Hash: p1.cs.ProposalBlock.Hash(), PartsHeader: p1.cs.ProposalBlockParts.Header()}
	byzTo(s.byzVote(b, 1, kproto.PrevoteType, 1, a), p1, p2) // polka for A at P1, P2
	s.flush()
	if p1.cs.LockedRound != 1 || p2.cs.LockedRound != 1 {
		return notReached("round1-lock")
	}
	byzTo(s.byzVote(b, 1, kproto.PrecommitType, 1, types.BlockID{}), p1, p2) // +2/3 any precommits
	s.flush()
	fireAll(p1, p2) // PrecommitWait -> round 2, P2 re-proposes A
	s.flush()
	if p1.cs.Round != 2 || p2.cs.Round != 2 || p1.cs.Step < cstypes.RoundStepPrevote || p2.cs.Step < cstypes.RoundStepPrevote {
		return notReached("round2-prevotes")
	}
	// X: +2/3 precommits for A in round 1 (P1, P2, B)
	votesTo(x, kproto.PrecommitType, 1) // P1:A, P2:A, B:nil (B's nil precommit is the one X gets first)
	if x.cs.Step == cstypes.RoundStepCommit {
		return notReached("x-commit-too-early")
	}
	// the conflicting precommit of B for A needs a +2/3 claim to be counted (as from a peer's VoteSetMaj23)
	s.setMaj23(x, p1.id, 1, kproto.PrecommitType, a)
	pcA := s.byzVote(b, 1, kproto.PrecommitType, 1, a)
	byzTo(pcA, x)
	if x.cs.Step != cstypes.RoundStepCommit || x.cs.CommitRound != 1 {
		return notReached(fmt.Sprintf("x-not-in-commit-step-%d", x.cs.Step))
	}
	// X: +2/3 any prevotes of round 2
	if v := s.byzVote(b, 1, kproto.PrevoteType, 2, types.BlockID{}); v != nil {
		s.archiveMsg(&netMsg{h: 1, kind: 'V', vote: v, from: b})
	}
	votesTo(x, kproto.PrevoteType, 2)
	if x.cs.Round != 2 || x.cs.Step == cstypes.RoundStepCommit {
		// the repaired behaviour (fix c2849ff): X stays in the commit step; the rest of the schedule
		// must then let everybody commit
		s.o.Count("scenario:commit-skip:x-stays-in-commit-step")
	} else {
		s.o.Count("scenario:commit-skip:x-left-commit-step")
	}
	// P1, P2 commit height 1 in round 1 with {P1, P2, B}
	for _, nd := range []*netNode{p1, p2} {
		s.setMaj23(nd, x.id, 1, kproto.PrecommitType, a)
	}
	byzTo(pcA, p1, p2)
	if p1.cs.Height != 2 || p2.cs.Height != 2 {
		return notReached("p-not-committed")
	}
	s.hold = nil
	s.o.Mark("scenario-commit-skip-prefix-reached")
	return true
}

// ---------------------------------------------------------------------------------------------
// one run

func netByzOK(pw []int64, byz []bool) bool {
	t, b := int64(0), int64(0)
	for i, p := range pw {
		t += p
		if byz[i] {
			b += p
		}
	}
	return t > 0 && 3*b < t
}

func netRun(o *netOut, r *netRand, idx int, mode string) {
	s := &netSim{o: o, r: r, mode: mode, tag: fmt.Sprint(idx % 5), hs: map[uint64]*netHeight{}, idOf: map[common.Address]int{},
		plan: map[uint64][]int64{}, failed: map[string]bool{}}
	n := 4 + r.Intn(4)
	if mode == "C04" && idx%10 == 9 {
		s.scenario = "bft-time"
	}
	if mode == "C04" && idx%10 == 8 {
		s.scenario = "stale-lock"
	}
	if mode == "C04" && idx%10 == 7 {
		s.scenario = "commit-skip"
	}
	c01Scripted := false // a scripted family of verif_c01_test.go (its own roles, 4..7 validators)
	if mode == "C01" && netC01Pick != nil {
		s.scenario = netC01Pick(idx)
		if strings.HasPrefix(s.scenario, "direct:") {
			netC01Direct(o, r, idx, s.scenario)
			return
		}
		c01Scripted = s.scenario != "" && s.scenario != "stale-lock" && s.scenario != "commit-skip"
	}
	switch s.scenario {
	case "bft-time", "stale-lock", "commit-skip":
		n = 4
	}
	s.n = n
	pw := make([]int64, n)
	dist := []string{"equal", "random", "skewed", "one-third-edge"}[r.Pick(3, 4, 2, 2)]
	if s.scenario != "" {
		dist = "equal"
	}
	for k := range pw {
		switch dist {
		case "equal":
			pw[k] = 10
			if s.scenario != "" {
				pw[k] = 1
			}
		case "random":
			pw[k] = int64(1 + r.Intn(12))
		case "skewed":
			pw[k] = int64(1 + r.Intn(3))
		case "one-third-edge":
			pw[k] = 3
		}
	}
	if dist == "skewed" {
		pw[r.Intn(n)] = int64(4 + r.Intn(int(n)))
	}
	if c01Scripted { // equal powers of a random unit
		u := []int64{1, 1, 3, 10, 1 << 33}[r.Intn(5)]
		for k := range pw {
			pw[k] = u
		}
	}
	if dist == "one-third-edge" { // one validator just below a third of the total
		// total = 3(n-1) + x with 3x < total  <=>  2x < 3(n-1)
		pw[0] = int64((3*(n-1) - 1) / 2)
	}
	// the Byzantine set: greedily, keeping its power below one third
	s.byz = make([]bool, n)
	if !r.Chance(1, 8) {
		for _, k := range r.Perm(n) {
			s.byz[k] = true
			if !netByzOK(pw, s.byz) || r.Chance(1, 4) {
				s.byz[k] = false
			}
		}
		if dist == "one-third-edge" {
			for k := range s.byz {
				s.byz[k] = k == 0
			}
		}
	}
	for i := 0; i < n; i++ {
		k, err := crypto.ToECDSA(crypto.Keccak256([]byte(fmt.Sprintf("net-key-%s-%d", s.tag, i))))
		if err != nil {
			panic(err)
		}
		pv := types.NewDefaultPrivValidator(k)
		s.keys = append(s.keys, pv)
		s.idOf[pv.GetAddress()] = i
	}
	s.heights = 3
	if *netTier == "thorough" && r.Chance(1, 3) {
		s.heights = 4 + r.Intn(2)
	}
	// validator-set changes decided by the application (effective two heights later)
	s.curPow = append([]int64{}, pw...)
	if r.Chance(1, 2) && s.scenario == "" {
		for _, bh := range []uint64{1, 2} {
			if !r.Chance(2, 3) {
				continue
			}
			for try := 0; try < 20; try++ {
				np := append([]int64{}, s.curPow...)
				for k := range np {
					if r.Chance(1, 2) {
						np[k] = int64(1 + r.Intn(12))
					}
				}
				if n >= 5 && r.Chance(1, 3) {
					np[r.Intn(n)] = 0 // a validator leaves the set
				}
				if netByzOK(np, s.byz) {
					s.plan[bh] = np
					s.curPow = np
					o.Count("valset-change")
					break
				}
			}
		}
	}
	var vals []*types.Validator
	for i := 0; i < n; i++ {
		vals = append(vals, types.NewValidator(s.keys[i].GetAddress(), pw[i]))
	}
	useDoc := r.Chance(1, 2)
	if c01Scripted {
		netC01Roles(s, vals)
	} else if s.scenario != "" {
		// exactly one Byzantine validator, not the proposer of the first two rounds
		vs0 := types.NewValidatorSet(vals)
		prop := vs0.GetProposer().Address
		prop2 := vs0.CopyIncrementProposerPriority(1).GetProposer().Address
		for k := range s.byz {
			s.byz[k] = false
		}
		for k := range s.byz {
			if a := s.keys[k].GetAddress(); !a.Equal(prop) && !a.Equal(prop2) {
				s.byz[k] = true
				break
			}
		}
	}
	if useDoc {
		doc := &genesis.Genesis{ChainID: netChainID, InitialHeight: 1, Timestamp: netGenesisTime, ConsensusParams: configs.DefaultConsensusParams()}
		for i := 0; i < n; i++ {
			doc.Validators = append(doc.Validators, &genesis.GenesisValidator{Name: fmt.Sprint(i), Address: s.keys[i].GetAddress().Hex(),
				SelfDelegate: new(big.Int).Mul(big.NewInt(pw[i]), configs.PowerReduction).String(), StartWithGenesis: true})
		}
		s.genDoc = doc
		st, err := cstate.MakeGenesisState(doc)
		if err != nil {
			panic(err)
		}
		s.genesis = st
		o.Count("start:genesis-doc")
	} else {
		vs := types.NewValidatorSet(vals)
		s.genesis = cstate.LatestBlockState{ChainID: netChainID, InitialHeight: 1, LastBlockID: types.NewZeroBlockID(),
			LastBlockTime: netGenesisTime, Validators: vs, LastValidators: vs, NextValidators: vs.CopyIncrementProposerPriority(1),
			ConsensusParams: *configs.DefaultConsensusParams()}
		o.Count("start:state")
	}
	s.byzTime = r.Chance(1, 4)
	s.mirror = r.Chance(1, 4)
	s.deferOwn = r.Chance(1, 3)
	s.byzQuiet = r.Chance(2, 5)
	if s.scenario != "" {
		s.byzTime, s.mirror, s.deferOwn, s.byzQuiet = false, false, false, true
	}
	nb := 0
	for _, b := range s.byz {
		nb += netB(b)
	}
	o.Case(idx, fmt.Sprintf("CASE %d mode=%s n=%d byz=%d powers=%s doc=%d byztime=%d mirror=%d quiet=%d scenario=%s", idx, mode, n, nb, dist, netB(useDoc), netB(s.byzTime), netB(s.mirror), netB(s.byzQuiet), map[bool]string{true: "-", false: s.scenario}[s.scenario == ""]))
	o.Count(fmt.Sprintf("n:%d", n))
	o.Count(fmt.Sprintf("byz:%d", nb))
	o.Count("powers:" + dist)
	for i := 0; i < n; i++ {
		if s.byz[i] {
			s.nodes = append(s.nodes, &netNode{sim: s, id: i, byz: true, key: s.keys[i], seen: map[int]bool{}})
			continue
		}
		nd := s.newNode(i, s.genesis, nil)
		if nd == nil {
			return
		}
		s.nodes = append(s.nodes, nd)
	}
	ok := true
	if s.scenario == "bft-time" {
		ok = s.bftTimeScenario() && s.synchronous(2)
		o.Count("scenario:bft-time")
	}
	if s.scenario == "stale-lock" {
		ok = s.staleLockScenario() && s.synchronous(1)
		o.Count("scenario:stale-lock")
	}
	if s.scenario == "commit-skip" {
		ok = s.commitSkipScenario() && s.synchronous(1)
		o.Count("scenario:commit-skip")
	}
	if c01Scripted {
		ok = netC01Run(s) && s.synchronous(1)
		o.Count("scenario:" + s.scenario)
	}
	for T := uint64(1); T <= uint64(s.heights) && ok && s.scenario == ""; T++ {
		budget := 0
		switch r.Pick(2, 4, 4) {
		case 1:
			budget = 20 + r.Intn(100)
		case 2:
			budget = 100 + r.Intn(500)
		}
		if budget == 0 {
			o.Count("height:synchronous-from-start")
		}
		s.adversarial(budget)
		ok = s.synchronous(T)
	}
	if !ok {
		o.Count("run:stuck")
	}
	maxR := uint32(0)
	for _, ht := range s.hs {
		for _, e := range ht.trace {
			if e.round > maxR {
				maxR = e.round
			}
		}
	}
	o.Count(fmt.Sprintf("max-round<=%d", (maxR/3+1)*3))
	if s.scenario == "" {
		s.blockSync()
	}
	s.checkHeights()
	if mode == "C04" {
		for k, in := range s.tickOps {
			if s.tickObs[k] == "" {
				o.InOnly(in)
			} else {
				o.Op(in, s.tickObs[k])
			}
		}
	}
	for _, nd := range s.nodes {
		if nd.eb != nil {
			nd.eb.Stop()
		}
	}
}

func netMain(t *testing.T, mode string) {
	if *netFac != "" {
		facts := "(* no source-derived facts *)\n"
		if mode == "C04" && netC04Facts != nil { // C04 section
			facts = netC04Facts()
		}
		os.WriteFile(*netFac, []byte(facts), 0o644)
		return
	}
	if *netDir == "" {
		t.Skip("-out required")
	}
	log.Root().SetHandler(log.DiscardHandler())
	o := netOpen(*netDir)
	if mode == "C01" {
		o.rule = "distinct commit rounds, block-sync outcomes, restarts (o.Mark keys)"
	} else {
		o.rule = "distinct commit rounds and restarts (o.Mark keys)"
	}
	root := netNewRand(*netSeed)
	for i := 0; i < *netN; i++ {
		if *netOnly >= 0 && *netOnly != i {
			continue
		}
		if p := netGuarded(func() { netRun(o, root.Fork(uint64(i)), i, mode) }); p != "" {
			o.Fail(0, "harness-panic", strings.Split(p, "\n")[0])
		}
	}
	// C04 section: the direct families (ticker routine, handleTimeout grid, timeout arithmetic, weighted
	// median) follow the runs, with case indices n, n+1, ...
	if mode == "C04" && netC04Extra != nil {
		for k := 0; k < netC04ExtraN(*netN); k++ {
			idx := *netN + k
			if *netOnly >= 0 && *netOnly != idx {
				continue
			}
			if p := netGuarded(func() { netC04Extra(o, root.Fork(uint64(idx)), idx, k) }); p != "" {
				o.Fail(0, "harness-panic", strings.Split(p, "\n")[0])
			}
		}
	}
	o.Close()
}

func TestVerifC01(t *testing.T) { netMain(t, "C01") }
func TestVerifC04(t *testing.T) { netMain(t, "C04") }
