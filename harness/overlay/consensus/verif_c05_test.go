//go:build verif

// C05 in-package harness (injected with `go test -overlay`, tag verif; nothing in /repo is edited).
//
// A real single-validator node is assembled the way mainchain/backend.go does it (NewBlockChain,
// cstate.NewStore, evidence.NewPool, tx_pool.NewTxPool, NewBlockOperations, NewBlockExecutor,
// Store.LoadStateFromDBOrGenesisDoc, NewConsensusState, OnStart with the real receiveRoutine,
// ticker, BaseWAL and catchupReplay) over
//
//   - a RECORDING kaidb.Database: every Put / Delete / batch Write is appended, as one atomic
//     durable write, to a totally ordered log of durable writes;
//   - a RECORDING WAL: the real BaseWAL over a temporary directory; every Write / WriteSync /
//     FlushAndSync of the consensus code is noted with the byte offset it ends at; only what an
//     fsync (WriteSync / FlushAndSync) covered is durable, each fsync that extends the durable
//     prefix is one entry of the same ordered log;
//   - a RECORDING PrivValidator: every vote / proposal signed, with the log position.
//
// The node runs several heights.  Then, for EVERY prefix of the durable-write log, the database
// and the WAL file are rebuilt from the prefix (the crash image) and a NEW node is started on it
// exactly as a restart would; it runs until it commits one more height or is stuck.  For a sample
// of crash points the restarted node is crashed AGAIN at a prefix of its own durable log.
//
// impl.txt carries the recovery observables per crash point, compared with the extracted Coq
// model (coq/theories/C05/Model.v) which predicts them from the classified kinds of the
// durable writes; oracle.txt carries the direct oracles of the property (restart-fails,
// stores-diverge, block-replaced, double-sign, height-redecided, block-lost, diverges-from-twin,
// own-msg-not-durable).
package consensus

import (
	"bufio"
	"bytes"
	"encoding/binary"
	"encoding/json"
	"flag"
	"fmt"
	"io"
	"math/big"
	"os"
	"path/filepath"
	"runtime/debug"
	"sort"
	"strings"
	"sync"
	"testing"
	"time"

	"github.com/kardiachain/go-kardia/configs"
	cstypes "github.com/kardiachain/go-kardia/consensus/types"
	"github.com/kardiachain/go-kardia/kai/kaidb"
	"github.com/kardiachain/go-kardia/kai/kaidb/memorydb"
	"github.com/kardiachain/go-kardia/kai/rawdb"
	"github.com/kardiachain/go-kardia/kai/state/cstate"
	"github.com/kardiachain/go-kardia/lib/common"
	"github.com/kardiachain/go-kardia/lib/crypto"
	"github.com/kardiachain/go-kardia/lib/log"
	"github.com/kardiachain/go-kardia/mainchain/blockchain"
	"github.com/kardiachain/go-kardia/mainchain/genesis"
	"github.com/kardiachain/go-kardia/mainchain/staking"
	"github.com/kardiachain/go-kardia/mainchain/tx_pool"
	kproto "github.com/kardiachain/go-kardia/proto/kardiachain/types"
	"github.com/kardiachain/go-kardia/types"
	"github.com/kardiachain/go-kardia/types/evidence"
)

// ---------------------------------------------------------------------------------------------
// flags and the two tiny helpers copied from verif/harness/internal/{gen,out}

var (
	crSeed  = flag.Uint64("seed", 1, "PRNG seed")
	crN     = flag.Int("n", 4, "number of generated cases (scenarios)")
	crDir   = flag.String("out", "", "output directory")
	crOnly  = flag.Int("only", -1, "generate and run only this case index")
	crTier  = flag.String("tier", "quick", "quick|thorough")
	crFacts = flag.String("facts", "", "unused (no source-derived facts for C05)")
)

type crRand struct{ s uint64 }

func crNewRand(seed uint64) *crRand { return &crRand{s: seed*0x9E3779B97F4A7C15 + 0x1234567} }
func (r *crRand) Fork(i uint64) *crRand {
	return &crRand{s: r.s ^ (i+1)*0xBF58476D1CE4E5B9}
}
func (r *crRand) U64() uint64 {
	r.s += 0x9E3779B97F4A7C15
	z := r.s
	z = (z ^ (z >> 30)) * 0xBF58476D1CE4E5B9
	z = (z ^ (z >> 27)) * 0x94D049BB133111EB
	return z ^ (z >> 31)
}
func (r *crRand) Intn(n int) int {
	if n <= 0 {
		return 0
	}
	return int(r.U64() % uint64(n))
}
func (r *crRand) Chance(num, den int) bool { return r.Intn(den) < num }

type crOut struct {
	dir           string
	in, impl, orc *bufio.Writer
	files         []*os.File
	dist          map[string]int
	samples       []string
	cases, ops    int
	nontrivial    map[string]bool
	rule          string
	fails         int
	curCase       int
	curSample     []string
}

func crOpen(dir string) *crOut {
	os.MkdirAll(dir, 0o755)
	o := &crOut{dir: dir, dist: map[string]int{}, nontrivial: map[string]bool{}}
	for _, n := range []string{"in.txt", "impl.txt", "oracle.txt"} {
		f, err := os.Create(filepath.Join(dir, n))
		if err != nil {
			panic(err)
		}
		o.files = append(o.files, f)
	}
	o.in, o.impl, o.orc = bufio.NewWriterSize(o.files[0], 1<<20), bufio.NewWriterSize(o.files[1], 1<<20), bufio.NewWriterSize(o.files[2], 1<<16)
	return o
}
func (o *crOut) flushSample() {
	if o.curSample != nil && len(o.samples) < 3 {
		o.samples = append(o.samples, strings.Join(o.curSample, "\n")+"\n")
	}
	o.curSample = nil
}
func (o *crOut) Case(n int, header string) {
	o.flushSample()
	o.curCase = n
	o.cases++
	fmt.Fprintln(o.in, header)
	fmt.Fprintf(o.impl, "CASE %d\n", n)
	o.curSample = []string{header}
}
func (o *crOut) Op(input, observed string) {
	o.ops++
	fmt.Fprintln(o.in, input)
	fmt.Fprintln(o.impl, observed)
	if len(o.curSample) < 60 {
		o.curSample = append(o.curSample, input+"  =>  "+observed)
	}
}
func (o *crOut) InOnly(line string) {
	fmt.Fprintln(o.in, line)
	if len(o.curSample) < 60 {
		o.curSample = append(o.curSample, line)
	}
}
func (o *crOut) Fail(step int, class, detail string) {
	o.fails++
	fmt.Fprintf(o.orc, "FAIL case=%d step=%d class=%s %s\n", o.curCase, step, class, detail)
}
func (o *crOut) Count(k string) { o.dist[k]++ }
func (o *crOut) Mark(k string)  { o.nontrivial[k] = true }
func (o *crOut) Close() {
	o.flushSample()
	o.in.Flush()
	o.impl.Flush()
	o.orc.Flush()
	for _, f := range o.files {
		f.Close()
	}
	st := map[string]interface{}{"cases": o.cases, "ops": o.ops, "distinct_nontrivial": len(o.nontrivial),
		"rule": o.rule, "dist": o.dist, "samples": o.samples, "oracle_failures": o.fails, "seed": *crSeed}
	b, _ := json.MarshalIndent(st, "", " ")
	os.WriteFile(filepath.Join(o.dir, "stats.json"), b, 0o644)
}

// ---------------------------------------------------------------------------------------------
// the ordered log of durable writes

type crOp struct {
	del  bool
	k, v []byte
}

// crWrite is one atomic durable write: a database Put/Delete/batch, or a WAL fsync that made
// the WAL prefix [0, walLen) durable.
type crWrite struct {
	wal     bool
	ops     []crOp
	walLen  int // durable WAL length after this entry
	walBuf  int // bytes handed to the WAL (durable or not) when this entry was made
	kind    string
	height  uint64 // height the entry belongs to (0: none)
	desc    string
	nsigs   int // number of signatures requested before this entry
	nacted  int // number of own messages acted upon before this entry
	walMsgs int // number of WAL messages (records) covered by walLen
}

type crSig struct {
	proposal bool
	typ      int
	height   uint64
	round    uint32
	bid      types.BlockID
	at       int // len(log) when the signature was requested
}

// crActed: an own (internal) message returned from the WAL write, i.e. it is now acted upon /
// published.  end is the WAL offset its record ends at; durable says whether an fsync covered it.
type crActed struct {
	proposal bool
	vote     bool
	typ      int
	height   uint64
	round    uint32
	bid      types.BlockID
	at       int // len(log) after the WAL call returned
	end      int
	durable  bool
}

type crWalRec struct {
	end  int    // byte offset the record ends at
	kind string // eh:<h> | own-prop | own-part | own-vote:<t> | peer | timeout | step
}

type crRec struct {
	mu     sync.Mutex
	log    []crWrite
	sigs   []crSig
	acted  []crActed
	recs   []crWalRec
	walBuf int // bytes written to the WAL so far
	walDur int // durable prefix
	notify chan struct{}
	frozen bool
}

func crNewRec() *crRec { return &crRec{notify: make(chan struct{}, 1)} }

func (r *crRec) ping() {
	select {
	case r.notify <- struct{}{}:
	default:
	}
}

func (r *crRec) addDB(ops []crOp) {
	if len(ops) == 0 {
		return
	}
	r.mu.Lock()
	if !r.frozen {
		w := crWrite{ops: ops, walLen: r.walDur, walBuf: r.walBuf, nsigs: len(r.sigs), nacted: len(r.acted)}
		w.kind, w.height, w.desc = crClassify(ops)
		r.log = append(r.log, w)
	}
	r.mu.Unlock()
	r.ping()
}

// ---------------------------------------------------------------------------------------------
// classification of database writes by the keys they touch (rawdb/schema.go prefixes)

func crU64(b []byte) uint64 {
	if len(b) < 8 {
		return 0
	}
	return binary.BigEndian.Uint64(b[:8])
}

func crKeyKind(k []byte) (string, uint64) {
	s := string(k)
	switch {
	case s == "LastBlock":
		return "head", 0
	case s == "SnapshotRoot", s == "SnapshotJournal", s == "SnapshotGenerator", s == "SnapshotRecovery", s == "SnapshotSyncStatus", s == "SnapshotDisabled":
		return "snap", 0
	case strings.HasPrefix(s, "ConsensusStatesInfo"):
		return "csother", 0
	case strings.HasPrefix(s, "ConsensusState") && len(k) == len("ConsensusState")+8:
		return "cstate", crU64(k[len("ConsensusState"):])
	case strings.HasPrefix(s, "ConsensusValidatorsInfo"):
		return "valinfo", 0
	case strings.HasPrefix(s, "ConsensusParamsInfo"):
		return "paraminfo", 0
	case strings.HasPrefix(s, "evidence-"):
		return "evidence", 0
	case strings.HasPrefix(s, "kardia-config-"):
		return "chaincfg", 0
	case strings.HasPrefix(s, "secure-key-"):
		return "preimage", 0
	case strings.HasPrefix(s, "sm") && len(k) == 10:
		return "seencommit", crU64(k[2:])
	case strings.HasPrefix(s, "ah") && len(k) == 10:
		return "apphash", crU64(k[2:])
	case k[0] == 'h' && len(k) == 10 && k[9] == 'n':
		return "canon", crU64(k[1:])
	case k[0] == 'H' && len(k) == 33:
		return "hashheight", 0
	case k[0] == 'i' && len(k) == 41:
		return "blockinfo", crU64(k[1:])
	case k[0] == 'm' && len(k) == 9:
		return "meta", crU64(k[1:])
	case k[0] == 'p' && len(k) >= 9 && len(k) <= 13:
		return "part", crU64(k[1:])
	case k[0] == 'c' && len(k) == 9:
		return "commit", crU64(k[1:])
	case k[0] == 'l' && len(k) == 33:
		return "txlookup", 0
	case k[0] == 'a' && len(k) == 33, k[0] == 'o' && len(k) == 65:
		return "snapdata", 0
	case len(k) == 32:
		return "trienode", 0
	case k[0] == 'c' && len(k) == 33:
		return "code", 0
	}
	return "other", 0
}

// crClassify names an atomic write after the set of key kinds it contains.
func crClassify(ops []crOp) (kind string, height uint64, desc string) {
	cnt := map[string]int{}
	hs := map[string]uint64{}
	dels := 0
	for _, op := range ops {
		kk, h := crKeyKind(op.k)
		cnt[kk]++
		if h > hs[kk] {
			hs[kk] = h
		}
		if op.del {
			dels++
		}
	}
	var names []string
	for k := range cnt {
		names = append(names, k)
	}
	sort.Strings(names)
	for i, n := range names {
		names[i] = fmt.Sprintf("%s*%d", n, cnt[n])
	}
	desc = strings.Join(names, ",")
	if dels > 0 {
		desc += fmt.Sprintf(" (%d deletes)", dels)
	}
	switch {
	case cnt["meta"] > 0 && cnt["seencommit"] > 0:
		return "block", hs["meta"], desc
	case cnt["cstate"] > 0:
		return "cstate", hs["cstate"], desc
	case cnt["head"] > 0 && cnt["canon"] > 0:
		return "head", hs["canon"], desc
	case cnt["apphash"] > 0 && cnt["blockinfo"] > 0:
		return "binfo", hs["apphash"], desc
	case cnt["trienode"]+cnt["code"] == len(ops):
		return "trie", 0, desc
	case cnt["head"] > 0:
		return "headptr", 0, desc
	case cnt["snap"]+cnt["snapdata"] == len(ops):
		return "snap", 0, desc
	case cnt["evidence"] == len(ops):
		return "evidence", 0, desc
	case cnt["preimage"] == len(ops):
		return "preimage", 0, desc
	case cnt["chaincfg"] > 0:
		return "chaincfg", 0, desc
	case cnt["apphash"] == len(ops):
		return "apphash1", hs["apphash"], desc
	case cnt["canon"] == len(ops):
		return "canon1", hs["canon"], desc
	case cnt["blockinfo"] == len(ops):
		return "binfo1", hs["blockinfo"], desc
	}
	return "other", 0, desc
}

// ---------------------------------------------------------------------------------------------
// recording database

type crDB struct {
	inner *memorydb.Database
	rec   *crRec
}

func (d *crDB) Has(k []byte) (bool, error)   { return d.inner.Has(k) }
func (d *crDB) Get(k []byte) ([]byte, error) { return d.inner.Get(k) }
func (d *crDB) Put(k, v []byte) error {
	if err := d.inner.Put(k, v); err != nil {
		return err
	}
	d.rec.addDB([]crOp{{k: common.CopyBytes(k), v: common.CopyBytes(v)}})
	return nil
}
func (d *crDB) Delete(k []byte) error {
	if err := d.inner.Delete(k); err != nil {
		return err
	}
	d.rec.addDB([]crOp{{del: true, k: common.CopyBytes(k)}})
	return nil
}
func (d *crDB) NewBatch() kaidb.Batch { return &crBatch{db: d} }
func (d *crDB) NewIterator(prefix, start []byte) kaidb.Iterator {
	return d.inner.NewIterator(prefix, start)
}
func (d *crDB) Stat(p string) (string, error) { return d.inner.Stat(p) }
func (d *crDB) Compact(s, l []byte) error     { return nil }
func (d *crDB) Close() error                  { return nil }

type crBatch struct {
	db   *crDB
	ops  []crOp
	size int
}

func (b *crBatch) Put(k, v []byte) error {
	b.ops = append(b.ops, crOp{k: common.CopyBytes(k), v: common.CopyBytes(v)})
	b.size += len(k) + len(v)
	return nil
}
func (b *crBatch) Delete(k []byte) error {
	b.ops = append(b.ops, crOp{del: true, k: common.CopyBytes(k)})
	b.size += len(k)
	return nil
}
func (b *crBatch) ValueSize() int { return b.size }
func (b *crBatch) Write() error {
	if len(b.ops) == 0 {
		return nil
	}
	ib := b.db.inner.NewBatch()
	for _, op := range b.ops {
		if op.del {
			ib.Delete(op.k)
		} else {
			ib.Put(op.k, op.v)
		}
	}
	if err := ib.Write(); err != nil {
		return err
	}
	b.db.rec.addDB(append([]crOp{}, b.ops...))
	return nil
}
func (b *crBatch) Reset() { b.ops, b.size = nil, 0 }
func (b *crBatch) Replay(w kaidb.KeyValueWriter) error {
	for _, op := range b.ops {
		var err error
		if op.del {
			err = w.Delete(op.k)
		} else {
			err = w.Put(op.k, op.v)
		}
		if err != nil {
			return err
		}
	}
	return nil
}

// crImageDB rebuilds the database holding exactly the first n durable writes.
func crImageDB(log []crWrite, n int) *memorydb.Database {
	db := memorydb.New()
	for i := 0; i < n && i < len(log); i++ {
		for _, op := range log[i].ops {
			if op.del {
				db.Delete(op.k)
			} else {
				db.Put(op.k, op.v)
			}
		}
	}
	return db
}

// ---------------------------------------------------------------------------------------------
// recording WAL around the real BaseWAL

type crWAL struct {
	inner *BaseWAL
	rec   *crRec
	path  string
	raw   bool // true: do not record (after the code replaced the WAL itself)
}

func crWalMsgKind(m WALMessage) string {
	switch x := m.(type) {
	case EndHeightMessage:
		return fmt.Sprintf("eh:%d", x.Height)
	case msgInfo:
		own := x.PeerID == ""
		p := "peer"
		if own {
			p = "own"
		}
		switch mm := x.Msg.(type) {
		case *ProposalMessage:
			return p + "-prop"
		case *BlockPartMessage:
			return p + "-part"
		case *VoteMessage:
			return fmt.Sprintf("%s-vote:%d", p, int(mm.Vote.Type))
		}
		return p + "-msg"
	case timeoutInfo:
		return "timeout"
	case types.EventDataRoundState:
		return "step"
	}
	return "unknown"
}

func (w *crWAL) size() int {
	st, err := os.Stat(w.path)
	if err != nil {
		return 0
	}
	return int(st.Size())
}

func (w *crWAL) note(m WALMessage, sync bool) {
	r := w.rec
	// make the bytes visible in the file so that the record's end offset is known; what is
	// DURABLE is decided by the calls of the code under test alone
	w.inner.group.FlushAndSync()
	end := w.size()
	r.mu.Lock()
	if !r.frozen {
		kind := "sync"
		if m != nil {
			kind = crWalMsgKind(m)
			r.recs = append(r.recs, crWalRec{end: end, kind: kind})
		}
		r.walBuf = end
		if sync && end > r.walDur {
			r.walDur = end
			e := crWrite{wal: true, walLen: end, walBuf: end, kind: "wal:" + kind, nsigs: len(r.sigs), nacted: len(r.acted), walMsgs: len(r.recs)}
			if x, ok := m.(EndHeightMessage); ok {
				e.height = uint64(x.Height)
			}
			e.desc = fmt.Sprintf("WAL fsync up to byte %d (%s)", end, kind)
			r.log = append(r.log, e)
		}
		if mi, ok := m.(msgInfo); ok && mi.PeerID == "" {
			a := crActed{at: len(r.log), end: end, durable: end <= r.walDur}
			switch mm := mi.Msg.(type) {
			case *ProposalMessage:
				a.proposal, a.height, a.round, a.bid = true, mm.Proposal.Height, mm.Proposal.Round, mm.Proposal.POLBlockID
				r.acted = append(r.acted, a)
			case *VoteMessage:
				a.vote, a.typ, a.height, a.round, a.bid = true, int(mm.Vote.Type), mm.Vote.Height, mm.Vote.Round, mm.Vote.BlockID
				r.acted = append(r.acted, a)
			}
		}
	}
	r.mu.Unlock()
	r.ping()
}

func (w *crWAL) Write(m WALMessage) error {
	err := w.inner.Write(m)
	if err == nil {
		w.note(m, false)
	}
	return err
}
func (w *crWAL) WriteSync(m WALMessage) error {
	err := w.inner.WriteSync(m)
	if err == nil {
		w.note(m, true)
	}
	return err
}
func (w *crWAL) FlushAndSync() error {
	err := w.inner.FlushAndSync()
	if err == nil {
		w.note(nil, true)
	}
	return err
}
func (w *crWAL) SearchForEndHeight(h int64, o *WALSearchOptions) (rd io.ReadCloser, found bool, err error) {
	return w.inner.SearchForEndHeight(h, o)
}
func (w *crWAL) Start() error { return nil } // the inner WAL is started by crOpenWAL
func (w *crWAL) Stop() error  { return w.inner.Stop() }
func (w *crWAL) Wait()        { w.inner.Wait() }

// crOpenWAL opens (as ConsensusState.OpenWAL does) the WAL file of cfg and wraps it.
func crOpenWAL(cfg *configs.ConsensusConfig, rec *crRec, logger log.Logger) (*crWAL, error) {
	inner, err := NewWAL(cfg.WalFile())
	if err != nil {
		return nil, err
	}
	inner.SetLogger(logger)
	inner.SetFlushInterval(time.Hour) // no periodic fsync: durability comes from the code's own calls only
	if err := inner.Start(); err != nil {
		return nil, err
	}
	w := &crWAL{inner: inner, rec: rec, path: cfg.WalFile()}
	// BaseWAL.OnStart fsyncs #ENDHEIGHT 0 into an empty file
	sz := w.size()
	rec.mu.Lock()
	if sz > rec.walDur {
		if rec.walDur == 0 && len(rec.recs) == 0 {
			rec.recs = append(rec.recs, crWalRec{end: sz, kind: "eh:0"})
			rec.log = append(rec.log, crWrite{wal: true, walLen: sz, walBuf: sz, kind: "wal:eh:0", desc: fmt.Sprintf("WAL fsync up to byte %d (eh:0, BaseWAL.OnStart)", sz), nsigs: len(rec.sigs), nacted: len(rec.acted), walMsgs: 1})
		}
		rec.walDur, rec.walBuf = sz, sz
	}
	rec.mu.Unlock()
	return w, nil
}

// ---------------------------------------------------------------------------------------------
// recording PrivValidator

type crPV struct {
	*types.DefaultPrivValidator
	rec *crRec
}

func (p *crPV) SignVote(chainID string, vote *kproto.Vote) error {
	bid, _ := types.BlockIDFromProto(&vote.BlockID)
	p.rec.mu.Lock()
	p.rec.sigs = append(p.rec.sigs, crSig{typ: int(vote.Type), height: vote.Height, round: vote.Round, bid: *bid, at: len(p.rec.log)})
	p.rec.mu.Unlock()
	return p.DefaultPrivValidator.SignVote(chainID, vote)
}
func (p *crPV) SignProposal(chainID string, proposal *kproto.Proposal) error {
	bid, _ := types.BlockIDFromProto(&proposal.BlockID)
	p.rec.mu.Lock()
	p.rec.sigs = append(p.rec.sigs, crSig{proposal: true, height: proposal.Height, round: proposal.Round, bid: *bid, at: len(p.rec.log)})
	p.rec.mu.Unlock()
	return p.DefaultPrivValidator.SignProposal(chainID, proposal)
}

// ---------------------------------------------------------------------------------------------
// scenario constants and node assembly (mainchain/backend.go New, by hand)

const crChainID = "kaicon"

var crGenesisTime = time.Unix(1600000000, 0).UTC()

type crScenario struct {
	archive  bool // TrieDirtyDisabled: flush the state trie every block
	snapshot bool // SnapshotLimit > 0
	heights  int
	txAt     map[uint64]int // txs submitted while the node is at this height
}

type crEnv struct {
	key     *types.DefaultPrivValidator
	userKey [2]*types.DefaultPrivValidator
	sc      crScenario
}

func crNewEnv(sc crScenario) *crEnv {
	e := &crEnv{sc: sc}
	k, _ := crypto.ToECDSA(crypto.Keccak256([]byte("c05-validator-key")))
	e.key = types.NewDefaultPrivValidator(k)
	for i := range e.userKey {
		k, _ := crypto.ToECDSA(crypto.Keccak256([]byte(fmt.Sprintf("c05-user-key-%d", i))))
		e.userKey[i] = types.NewDefaultPrivValidator(k)
	}
	return e
}

func (e *crEnv) genesis() *genesis.Genesis {
	bal, _ := big.NewInt(0).SetString("15000000000000000000000000", 10)
	alloc := genesis.GenesisAlloc{e.key.GetAddress(): genesis.GenesisAccount{Balance: bal}}
	for _, u := range e.userKey {
		alloc[u.GetAddress()] = genesis.GenesisAccount{Balance: new(big.Int).Set(bal)}
	}
	return &genesis.Genesis{
		ChainID:         crChainID,
		InitialHeight:   1,
		Timestamp:       crGenesisTime,
		Config:          configs.TestnetChainConfig,
		GasLimit:        configs.BlockGasLimit,
		Alloc:           alloc,
		ConsensusParams: configs.DefaultConsensusParams(),
		Consensus:       configs.TestConsensusConfig(),
		Validators: []*genesis.GenesisValidator{{
			Name: "c05-validator-one-0123456789abcdef", Address: e.key.GetAddress().Hex(), CommissionRate: "100000000000000000", MaxRate: "250000000000000000",
			MaxChangeRate: "50000000000000000", SelfDelegate: "13000000000000000000000000", StartWithGenesis: true,
		}},
	}
}

func (e *crEnv) cacheConfig() *blockchain.CacheConfig {
	// mainchain/config.go defaults: TrieCleanCache 154 (256 with NoPruning), TrieDirtyCache 256, TrieTimeout 60m,
	// SnapshotCache 102; backend.go maps NoPruning to TrieDirtyDisabled
	c := &blockchain.CacheConfig{TrieCleanLimit: 16, TrieDirtyLimit: 256, TrieTimeLimit: 60 * time.Minute,
		TrieDirtyDisabled: e.sc.archive, SnapshotWait: true}
	if e.sc.snapshot {
		c.SnapshotLimit = 16
	}
	if e.sc.archive {
		c.TrieDirtyLimit = 0
	}
	return c
}

type crNode struct {
	env    *crEnv
	rec    *crRec
	db     *crDB
	dir    string
	bc     *blockchain.BlockChain
	store  cstate.Store
	txPool *tx_pool.TxPool
	bo     *blockchain.BlockOperations
	cs     *ConsensusState
	eb     *types.EventBus
	wal    *crWAL
	ccfg   *configs.ConsensusConfig
	state0 cstate.LatestBlockState // state the node was started from
	stage  string                  // last assembly stage reached
	failed string                  // panic / error text of a failed start
	boHt   uint64                  // BlockOperations.Height() at start
}

func crGuard(f func()) (panicked string) {
	defer func() {
		if r := recover(); r != nil {
			panicked = fmt.Sprint(r)
			if panicked == "" {
				panicked = "panic"
			}
			if os.Getenv("C05_STACK") != "" {
				fmt.Println(panicked)
				fmt.Println(string(debug.Stack()))
			}
		}
	}()
	f()
	return ""
}

// crStartNode assembles and starts a node on (mem, walBytes) — a fresh node when both are empty.
// Every stage runs guarded; nd.failed != "" tells that the start did not succeed, nd.stage where.
func crStartNode(env *crEnv, mem *memorydb.Database, walBytes []byte, rec *crRec) *crNode {
	nd := &crNode{env: env, rec: rec}
	dir, err := os.MkdirTemp("", "c05-node-")
	if err != nil {
		panic(err)
	}
	nd.dir = dir
	nd.db = &crDB{inner: mem, rec: rec}
	ccfg := configs.TestConsensusConfig()
	ccfg.RootDir = dir
	ccfg.TimeoutPropose = 400 * time.Millisecond
	ccfg.TimeoutCommit = 2 * time.Millisecond
	nd.ccfg = ccfg
	if walBytes != nil {
		os.MkdirAll(filepath.Dir(ccfg.WalFile()), 0o700)
		if err := os.WriteFile(ccfg.WalFile(), walBytes, 0o600); err != nil {
			panic(err)
		}
		rec.walDur, rec.walBuf = len(walBytes), len(walBytes)
	}
	logger := log.New()
	gs := env.genesis()
	step := func(name string, f func() error) bool {
		nd.stage = name
		var err error
		if p := crGuard(func() { err = f() }); p != "" {
			nd.failed = "panic: " + p
			return false
		}
		if err != nil {
			nd.failed = "error: " + err.Error()
			return false
		}
		return true
	}
	ok := step("NewBlockChain", func() error {
		bc, err := blockchain.NewBlockChain(nd.db, env.cacheConfig(), gs)
		nd.bc = bc
		return err
	}) && step("NewStore+evidence.NewPool", func() error {
		nd.store = cstate.NewStore(nd.db)
		return nil
	})
	if !ok {
		return nd
	}
	var evPool *evidence.Pool
	var blockExec *cstate.BlockExecutor
	var st cstate.LatestBlockState
	ok = step("evidence.NewPool", func() error {
		var err error
		evPool, err = evidence.NewPool(nd.store, nd.db, nd.bc)
		return err
	}) && step("NewTxPool", func() error {
		nd.txPool = tx_pool.NewTxPool(tx_pool.TxPoolConfig{GlobalSlots: 64, GlobalQueue: 5120000}, nd.bc.Config(), nd.bc)
		return nil
	}) && step("NewBlockOperations", func() error {
		su, err := staking.NewSmcStakingUtil()
		if err != nil {
			return err
		}
		nd.bo = blockchain.NewBlockOperations(logger, nd.bc, nd.txPool, evPool, su)
		nd.boHt = nd.bo.Height()
		blockExec = cstate.NewBlockExecutor(nd.store, logger, evPool, nd.bo)
		return nil
	}) && step("LoadStateFromDBOrGenesisDoc", func() error {
		var err error
		st, err = nd.store.LoadStateFromDBOrGenesisDoc(gs)
		nd.state0 = st
		return err
	}) && step("NewConsensusState", func() error {
		// NewTimeoutTicker() may log through a nil logger when its zero timer already fired (timing
		// dependent, unrelated to C05): retry on exactly that panic
		var p string
		for try := 0; try < 50; try++ {
			p = crGuard(func() { nd.cs = NewConsensusState(logger, ccfg, st, nd.bo, blockExec, evPool) })
			if p == "" || !strings.Contains(p, "nil pointer") {
				break
			}
		}
		if p != "" {
			panic(p)
		}
		nd.cs.SetPrivValidator(&crPV{DefaultPrivValidator: env.key, rec: rec})
		nd.eb = types.NewEventBus()
		nd.eb.SetLogger(logger)
		if err := nd.eb.Start(); err != nil {
			return err
		}
		nd.cs.SetEventBus(nd.eb)
		return nil
	}) && step("OpenWAL", func() error {
		w, err := crOpenWAL(ccfg, rec, logger)
		if err != nil {
			return err
		}
		nd.wal = w
		nd.cs.wal = w
		return nil
	}) && step("OnStart", func() error {
		return nd.cs.Start()
	})
	if ok {
		nd.stage = "running"
	}
	return nd
}

// kill stops the node's goroutines WITHOUT any graceful flush of the chain (BlockChain.Stop is what
// a clean shutdown would call; a crash does not).
func (nd *crNode) kill() {
	nd.rec.mu.Lock()
	nd.rec.frozen = true
	nd.rec.mu.Unlock()
	crGuard(func() {
		if nd.cs != nil && nd.cs.IsRunning() {
			nd.cs.Stop()
			select {
			case <-nd.cs.done:
			case <-time.After(2 * time.Second):
			}
		} else if nd.wal != nil {
			nd.wal.inner.Stop()
		}
	})
	crGuard(func() {
		if nd.txPool != nil {
			nd.txPool.Stop()
		}
	})
	crGuard(func() {
		if nd.eb != nil {
			nd.eb.Stop()
		}
	})
}

func (nd *crNode) walBytes() []byte {
	b, _ := os.ReadFile(nd.ccfg.WalFile())
	return b
}

func (nd *crNode) cleanup() { os.RemoveAll(nd.dir) }

// dead reports whether the receive routine has exited on its own (CONSENSUS FAILURE).
func (nd *crNode) dead() bool {
	if nd.cs == nil {
		return true
	}
	select {
	case <-nd.cs.done:
		return true
	default:
		return false
	}
}

func (nd *crNode) hrs() (uint64, uint32, cstypes.RoundStepType) {
	rs := nd.cs.GetRoundState()
	return rs.Height, rs.Round, rs.Step
}


// ---------------------------------------------------------------------------------------------
// capture of the few log records that are the only place where the code reports the outcome of
// catchupReplay / WAL repair / a dying receive routine

type crLogCap struct {
	mu   sync.Mutex
	recs []string
}

var crLogs = &crLogCap{}

func (c *crLogCap) handler() log.Handler {
	return log.FuncHandler(func(r *log.Record) error {
		var key string
		switch {
		case strings.HasPrefix(r.Msg, "Error on catchup replay"):
			key = "replay-err"
		case r.Msg == "Replay: Done":
			key = "replay-done"
		case strings.HasPrefix(r.Msg, "WAL file is corrupted"):
			key = "wal-corrupted"
		case r.Msg == "Successful repair":
			key = "wal-repaired"
		case strings.HasPrefix(r.Msg, "CONSENSUS FAILURE"):
			key = "consensus-failure"
		case strings.HasPrefix(r.Msg, "Error on ApplyBlock"):
			key = "applyblock-err"
		case strings.HasPrefix(r.Msg, "Calling finalizeCommit on already stored block"):
			key = "already-stored"
		case strings.HasPrefix(r.Msg, "Head state missing, repairing"):
			key = "head-state-missing"
		case strings.HasPrefix(r.Msg, "Empty database, resetting chain"), strings.HasPrefix(r.Msg, "Head block missing, resetting chain"):
			key = "chain-reset"
		default:
			if os.Getenv("C05_LOG") != "" && r.Lvl <= log.LvlError {
				fmt.Printf("LOG %s %v\n", r.Msg, r.Ctx)
			}
			return nil
		}
		e := ""
		for i := 0; i+1 < len(r.Ctx); i += 2 {
			if k, ok := r.Ctx[i].(string); ok && k == "err" {
				e = fmt.Sprint(r.Ctx[i+1])
			}
		}
		c.mu.Lock()
		c.recs = append(c.recs, key+"|"+e)
		c.mu.Unlock()
		if os.Getenv("C05_LOG") != "" {
			fmt.Printf("LOG %s %s\n", key, strings.Split(e, "\n")[0])
		}
		return nil
	})
}
func (c *crLogCap) take() []string {
	c.mu.Lock()
	defer c.mu.Unlock()
	r := c.recs
	c.recs = nil
	return r
}

func crFind(recs []string, key string) (string, bool) {
	for _, r := range recs {
		if strings.HasPrefix(r, key+"|") {
			return r[len(key)+1:], true
		}
	}
	return "", false
}

func crPanicClass(p string) string {
	switch {
	case p == "":
		return "-"
	case strings.Contains(p, "can only save contiguous blocks"):
		return "save-noncontiguous"
	case strings.Contains(p, "block meta not found"):
		return "blockmeta-missing"
	case strings.Contains(p, "LastCommit cannot be empty"):
		return "lastcommit-empty"
	case strings.Contains(p, "Failed EvidencePool.Update"):
		return "evpool-height"
	case strings.Contains(p, "committed an invalid block"), strings.Contains(p, "Block validation failed"):
		return "commit-invalid-block"
	case strings.Contains(p, "updateToState() expected state height"):
		return "updateToState-height"
	case strings.Contains(p, "Inconsistent cs.state.LastBlockHeight"):
		return "cs-state-inconsistent"
	case strings.Contains(p, "failed to load consensus params"):
		return "consparams-missing"
	case strings.Contains(p, "nil pointer"):
		return "nil-deref"
	case strings.Contains(p, "Could not find") || strings.Contains(p, "could not find"):
		return "not-found"
	}
	return "other"
}

// ---------------------------------------------------------------------------------------------
// crash images

type crImg struct {
	ops    [][]crOp  // durable database writes, in order
	wal    []byte    // durable WAL file (nil: no file)
	pub    []crActed // own messages that may have been published before the crash
	desc   string    // "after durable write #k = ..."
	window string    // after:<kind>/before:<kind>
	tail   string    // synced | buffered | torn
}

func (im *crImg) db() *memorydb.Database {
	db := memorydb.New()
	for _, w := range im.ops {
		for _, op := range w {
			if op.del {
				db.Delete(op.k)
			} else {
				db.Put(op.k, op.v)
			}
		}
	}
	return db
}

// crLife: what one run of a node left behind
type crLife struct {
	log    []crWrite
	sigs   []crSig
	acted  []crActed
	recs   []crWalRec
	walAll []byte
}

func crLifeOf(rec *crRec, walAll []byte) *crLife {
	rec.mu.Lock()
	defer rec.mu.Unlock()
	return &crLife{log: rec.log, sigs: rec.sigs, acted: rec.acted, recs: rec.recs, walAll: walAll}
}

func crKindShort(w crWrite) string {
	if w.height > 0 || w.kind == "block" || w.kind == "cstate" || w.kind == "head" || w.kind == "binfo" {
		return fmt.Sprintf("%s(%d)", w.kind, w.height)
	}
	return w.kind
}

// cut: the crash image after the first j durable writes of life l that itself started on base.
// tail = synced: only fsynced WAL bytes; buffered: everything handed to the WAL so far (process
// kill, OS alive); torn: the fsynced prefix plus a broken piece of the next record.
func crCut(base *crImg, l *crLife, j int, tail string) *crImg {
	im := &crImg{tail: tail}
	im.ops = append(im.ops, base.ops...)
	im.pub = append(im.pub, base.pub...)
	walLen, walBuf := len(base.wal), len(base.wal)
	for i := 0; i < j; i++ {
		if !l.log[i].wal {
			im.ops = append(im.ops, l.log[i].ops)
		}
		walLen, walBuf = l.log[i].walLen, l.log[i].walBuf
	}
	// bytes handed to the WAL up to the NEXT durable write (they precede it in time)
	if j < len(l.log) {
		nb := l.log[j].walBuf
		if l.log[j].wal {
			// the records before the one being fsynced were already written
			for _, r := range l.recs {
				if r.end < l.log[j].walLen && r.end > walBuf {
					walBuf = r.end
				}
			}
		} else if nb > walBuf {
			walBuf = nb
		}
	} else if len(l.walAll) > walBuf {
		walBuf = len(l.walAll)
	}
	if walBuf > len(l.walAll) {
		walBuf = len(l.walAll)
	}
	if walLen > len(l.walAll) {
		walLen = len(l.walAll)
	}
	switch tail {
	case "buffered":
		walLen = walBuf
	case "torn":
		if walBuf > walLen {
			// first unsynced record, cut in the middle
			next := walBuf
			for _, r := range l.recs {
				if r.end > walLen {
					next = r.end
					break
				}
			}
			walLen = walLen + (next-walLen)/2
		} else {
			im.tail = "synced"
		}
	}
	if walLen > 0 {
		im.wal = append([]byte{}, l.walAll[:walLen]...)
	}
	for _, a := range l.acted {
		if a.at <= j {
			im.pub = append(im.pub, a)
		}
	}
	after, before := "start", "end"
	if j > 0 {
		after = crKindShort(l.log[j-1])
	}
	if j < len(l.log) {
		before = crKindShort(l.log[j])
	}
	im.window = "after:" + after + "/before:" + before
	if j > 0 {
		im.desc = fmt.Sprintf("after durable write #%d = %s [%s]", j-1, crKindShort(l.log[j-1]), l.log[j-1].desc)
	} else {
		im.desc = "before the first durable write"
	}
	return im
}

// ---------------------------------------------------------------------------------------------
// facts read directly from a database (crash image or final state), with rawdb accessors only

type crFacts struct {
	hs     uint64            // block store height: highest contiguous height with a block meta
	hh     int64             // height of the block the head pointer names (-1: no head pointer / dangling)
	hcMax  int64             // highest height with a consensus-state record (-1: none)
	hcHead bool              // consensus-state record present at the head height
	canon  map[uint64]common.Hash
	meta   map[uint64]common.Hash
	app    map[uint64]common.Hash
	hasSt  map[uint64]bool // state trie root of height h present on disk
	gen    bool            // genesis block complete (canonical hash 0 + head pointer + chain config)
}

func crReadFacts(db kaidb.Database) *crFacts {
	f := &crFacts{hh: -1, hcMax: -1, canon: map[uint64]common.Hash{}, meta: map[uint64]common.Hash{}, app: map[uint64]common.Hash{}, hasSt: map[uint64]bool{}}
	crGuard(func() {
		for h := uint64(0); h < 64; h++ {
			bm := rawdb.ReadBlockMeta(db, h)
			if bm == nil {
				if h == 0 {
					continue
				}
				break
			}
			f.meta[h] = bm.BlockID.Hash
			if h > f.hs {
				f.hs = h
			}
		}
		for h := uint64(0); h <= f.hs+1; h++ {
			if c := rawdb.ReadCanonicalHash(db, h); c != (common.Hash{}) {
				f.canon[h] = c
			}
			if a := rawdb.ReadAppHash(db, h); a != (common.Hash{}) {
				f.app[h] = a
				if ok, _ := db.Has(a[:]); ok {
					f.hasSt[h] = true
				}
			}
			if rawdb.ReadConsensusStateHeight(db, h) != nil {
				f.hcMax = int64(h)
			}
		}
		hash := rawdb.ReadHeadBlockHash(db)
		if hash != (common.Hash{}) {
			if n := rawdb.ReadHeaderHeight(db, hash); n != nil {
				f.hh = int64(*n)
				f.hcHead = rawdb.ReadConsensusStateHeight(db, *n) != nil
			}
		}
		_, g0 := f.canon[0]
		f.gen = g0 && f.hh >= 0
	})
	return f
}

// ---------------------------------------------------------------------------------------------
// one restart on a crash image

type crRun struct {
	img      *crImg
	pre      *crFacts // facts of the image
	nd       *crNode
	rec      *crRec
	life     *crLife
	logs     []string
	started  bool
	stage    string
	failCls  string
	hh0      int64  // head height after NewBlockChain's repair
	hc0      int64  // LastBlockHeight of the loaded consensus state (-1: not reached)
	fellBack bool   // Store.Load returned nothing and the genesis state was used although the chain is past genesis
	start    uint64 // consensus start height
	bo0      uint64 // BlockOperations.Height() at start
	replay   string
	repaired bool
	end      string // committed | stuck | dead | wall | notstarted
	endH     uint64
	endR     uint32
	panicCls string
	post     *crFacts
	finalHH  int64
}

func crRestart(env *crEnv, img *crImg, wall time.Duration) *crRun {
	crLogs.take()
	r := &crRun{img: img, hc0: -1, hh0: -1, finalHH: -1}
	mem := img.db()
	r.pre = crReadFacts(mem)
	r.rec = crNewRec()
	nd := crStartNode(env, mem, img.wal, r.rec)
	r.nd = nd
	r.stage = nd.stage
	if nd.bc != nil {
		crGuard(func() { r.hh0 = int64(nd.bc.CurrentBlock().Height()) })
	}
	if nd.cs != nil {
		r.hc0 = int64(nd.state0.LastBlockHeight)
		r.start = nd.state0.LastBlockHeight + 1
		r.bo0 = nd.boHt
		r.fellBack = nd.state0.LastBlockHeight == 0 && r.hh0 > 0
	}
	if nd.failed != "" {
		r.failCls = crPanicClass(nd.failed)
		if strings.HasPrefix(nd.failed, "error:") {
			r.failCls = "error"
		}
		r.end = "notstarted"
	} else {
		r.started = true
		r.end = nd.runUntil(r.start+1, 2, wall)
	}
	if nd.cs != nil {
		crGuard(func() { r.endH, r.endR, _ = nd.hrs() })
	}
	nd.kill()
	r.logs = crLogs.take()
	r.life = crLifeOf(r.rec, nd.walBytes())
	// replay outcome as the code reported it
	switch e, bad := crFind(r.logs, "replay-err"); {
	case !r.started && nd.stage != "OnStart":
		r.replay = "-"
	case bad && strings.Contains(e, "wal should not contain #ENDHEIGHT"):
		r.replay = "eh-present"
	case bad && strings.Contains(e, "WAL does not contain #ENDHEIGHT for"):
		r.replay = "no-marker"
	case bad && strings.Contains(e, "below initial height"):
		r.replay = "below-initial"
	case bad:
		r.replay = "other-error"
	default:
		if _, ok := crFind(r.logs, "replay-done"); ok {
			r.replay = "replayed"
		} else {
			r.replay = "aborted"
		}
	}
	if _, ok := crFind(r.logs, "wal-repaired"); ok {
		r.repaired = true
	}
	if e, ok := crFind(r.logs, "consensus-failure"); ok {
		r.panicCls = crPanicClass(e)
		if r.panicCls == "other" && os.Getenv("C05_LOG") != "" {
			fmt.Println("PANIC-TEXT", strings.Split(e, "\n")[0])
		}
	} else if _, ok := crFind(r.logs, "applyblock-err"); ok {
		r.panicCls = "applyblock-error"
	} else {
		r.panicCls = "-"
	}
	r.post = crReadFacts(mem)
	if nd.bc != nil {
		crGuard(func() { r.finalHH = int64(nd.bc.CurrentBlock().Height()) })
	}
	nd.cleanup()
	return r
}

// runUntil lets the started node run until its consensus height reaches h, it exceeds maxRound at
// one height, its receive routine dies, or the wall-clock bound passes.
func (nd *crNode) runUntil(h uint64, maxRound uint32, wall time.Duration) string {
	deadline := time.After(wall)
	tick := time.NewTicker(time.Millisecond)
	defer tick.Stop()
	for {
		if nd.dead() {
			return "dead"
		}
		ch, cr, _ := nd.hrs()
		if ch >= h {
			return "committed"
		}
		if cr > maxRound {
			return "stuck"
		}
		select {
		case <-deadline:
			return "wall"
		case <-nd.rec.notify:
		case <-tick.C:
		}
	}
}

// ---------------------------------------------------------------------------------------------
// signatures after the restart against what was published before the crash

func crBidKey(b types.BlockID) string {
	if b.Hash.IsZero() && b.PartsHeader.IsZero() {
		return "nil"
	}
	return fmt.Sprintf("%x/%d/%x", b.Hash[:], b.PartsHeader.Total, b.PartsHeader.Hash[:])
}

func crSigKey(proposal bool, typ int, h uint64, rd uint32) string {
	if proposal {
		return fmt.Sprintf("p:%d:%d", h, rd)
	}
	return fmt.Sprintf("v%d:%d:%d", typ, h, rd)
}

type crSigRel struct {
	key  string
	rel  string // = same value as published, ! conflicts with a published one, + nothing published at this (h, r, type)
	sig  crSig
	prev string
}

func crRelate(pub []crActed, sigs []crSig) []crSigRel {
	m := map[string]string{}
	for _, a := range pub {
		m[crSigKey(a.proposal, a.typ, a.height, a.round)] = crBidKey(a.bid)
	}
	var out []crSigRel
	for _, s := range sigs {
		k := crSigKey(s.proposal, s.typ, s.height, s.round)
		rel := "+"
		prev, ok := m[k]
		if ok {
			if prev == crBidKey(s.bid) {
				rel = "="
			} else {
				rel = "!"
			}
		}
		out = append(out, crSigRel{key: k, rel: rel, sig: s, prev: prev})
	}
	return out
}
