//go:build verif

// C05 in-package harness (injected with `go test -overlay`, tag verif; nothing in /repo is edited).
//
// A real single-validator node is assembled the way mainchain/backend.go does it (NewBlockChain,
// cstate.NewStore, evidence.NewPool, tx_pool.NewTxPool, NewBlockOperations, NewBlockExecutor,
// Store.LoadStateFromDBOrGenesisDoc, NewConsensusState, OnStart with the real receiveRoutine,
// ticker, BaseWAL and catchupReplay) over
//
//   - a RECORDING kaidb.Database: every Put / Delete / batch Write is appended, as one atomic
//     durable write, to a totally ordered log of durable writes;
//   - a RECORDING WAL: the real BaseWAL over a temporary directory; every Write / WriteSync /
//     FlushAndSync of the consensus code is noted with the byte offset it ends at; only what an
//     fsync (WriteSync / FlushAndSync) covered is durable, each fsync that extends the durable
//     prefix is one entry of the same ordered log;
//   - a RECORDING PrivValidator: every vote / proposal signed, with the log position.
//
// The node runs several heights.  Then, for EVERY prefix of the durable-write log, the database
// and the WAL group are rebuilt from the prefix (the crash image) and a NEW node is started on it
// exactly as a restart would; it runs until it commits one more height or is stuck.  For a sample
// of crash points the restarted node is crashed AGAIN at a prefix of its own durable log.
//
// Families: both state-cache modes, snapshots on/off, blocks with and without transactions;
// unsynced WAL tail lost / kept / torn; WAL ROTATION (cases idx%8 in {6,7}: head-size limit 1 byte
// = a rotation after every fsync, or a random limit; the real checkHeadSizeLimit runs between any
// two WAL writes; images without head file when the crash follows a rotation: BaseWAL.OnStart
// writes #ENDHEIGHT 0 into the new head and catchupReplay must find the markers in wal.NNN);
// a restarted node whose POOL holds a transaction it has never seen (idx%8 == 7: re-created
// blocks differ from every original block, a skipped replay shows at every height).
//
// Time: the node's timeouts are LOGICAL (crTicker): no outcome depends on the machine's speed.
//
// impl.txt carries the recovery observables per crash point, compared with the extracted Coq
// model (coq/theories/C05/Model.v) which predicts them from the classified kinds of the
// durable writes, the WAL records and the rotation marks; oracle.txt carries the direct oracles of
// the property (restart-fails, stores-diverge, block-replaced, double-sign, height-redecided,
// height-rerun, block-lost, diverges-from-twin, no-progress, own-msg-not-durable, pipeline-order,
// replay-class-vs-wal = catchupReplay's outcome against the #ENDHEIGHT markers decoded from the image).
package consensus

import (
	"bufio"
	"bytes"
	"encoding/binary"
	"encoding/json"
	"flag"
	"fmt"
	"io"
	"math/big"
	"os"
	"os/exec"
	"path/filepath"
	"runtime/debug"
	"sort"
	"strings"
	"sync"
	"sync/atomic"
	"testing"
	"time"

	"github.com/gogo/protobuf/proto"
	"github.com/kardiachain/go-kardia/configs"
	cstypes "github.com/kardiachain/go-kardia/consensus/types"
	"github.com/kardiachain/go-kardia/kai/kaidb"
	"github.com/kardiachain/go-kardia/kai/kaidb/memorydb"
	"github.com/kardiachain/go-kardia/kai/rawdb"
	"github.com/kardiachain/go-kardia/kai/state/cstate"
	auto "github.com/kardiachain/go-kardia/lib/autofile"
	"github.com/kardiachain/go-kardia/lib/common"
	"github.com/kardiachain/go-kardia/lib/crypto"
	"github.com/kardiachain/go-kardia/lib/log"
	"github.com/kardiachain/go-kardia/mainchain/blockchain"
	"github.com/kardiachain/go-kardia/mainchain/genesis"
	"github.com/kardiachain/go-kardia/mainchain/staking"
	"github.com/kardiachain/go-kardia/mainchain/tx_pool"
	kproto "github.com/kardiachain/go-kardia/proto/kardiachain/types"
	"github.com/kardiachain/go-kardia/trie"
	"github.com/kardiachain/go-kardia/types"
	"github.com/kardiachain/go-kardia/types/evidence"
)

// ---------------------------------------------------------------------------------------------
// flags and the two tiny helpers copied from verif/harness/internal/{gen,out}

var (
	crSeed      = flag.Uint64("seed", 1, "PRNG seed")
	crN         = flag.Int("n", 4, "number of generated cases (scenarios)")
	crDir       = flag.String("out", "", "output directory")
	crOnly      = flag.Int("only", -1, "generate and run only this case index")
	crTier      = flag.String("tier", "quick", "quick|thorough")
	crFactsFlag = flag.String("facts", "", "unused (no source-derived facts for C05)")
)

type crRand struct{ s uint64 }

func crNewRand(seed uint64) *crRand { return &crRand{s: seed*0x9E3779B97F4A7C15 + 0x1234567} }
func (r *crRand) Fork(i uint64) *crRand {
	return &crRand{s: r.s ^ (i+1)*0xBF58476D1CE4E5B9}
}
func (r *crRand) U64() uint64 {
	r.s += 0x9E3779B97F4A7C15
	z := r.s
	z = (z ^ (z >> 30)) * 0xBF58476D1CE4E5B9
	z = (z ^ (z >> 27)) * 0x94D049BB133111EB
	return z ^ (z >> 31)
}
func (r *crRand) Intn(n int) int {
	if n <= 0 {
		return 0
	}
	return int(r.U64() % uint64(n))
}
func (r *crRand) Chance(num, den int) bool { return r.Intn(den) < num }

type crOut struct {
	dir           string
	in, impl, orc *bufio.Writer
	files         []*os.File
	dist          map[string]int
	samples       []string
	cases, ops    int
	nontrivial    map[string]bool
	rule          string
	fails         int
	curCase       int
	curSample     []string
}

func crOpen(dir string) *crOut {
	os.MkdirAll(dir, 0o755)
	o := &crOut{dir: dir, dist: map[string]int{}, nontrivial: map[string]bool{}}
	for _, n := range []string{"in.txt", "impl.txt", "oracle.txt"} {
		f, err := os.Create(filepath.Join(dir, n))
		if err != nil {
			panic(err)
		}
		o.files = append(o.files, f)
	}
	o.in, o.impl, o.orc = bufio.NewWriterSize(o.files[0], 1<<20), bufio.NewWriterSize(o.files[1], 1<<20), bufio.NewWriterSize(o.files[2], 1<<16)
	return o
}
func (o *crOut) flushSample() {
	if o.curSample != nil && len(o.samples) < 3 {
		o.samples = append(o.samples, strings.Join(o.curSample, "\n")+"\n")
	}
	o.curSample = nil
}
func (o *crOut) Case(n int, header string) {
	o.flushSample()
	o.curCase = n
	o.cases++
	fmt.Fprintln(o.in, header)
	fmt.Fprintf(o.impl, "CASE %d\n", n)
	o.curSample = []string{header}
}
func (o *crOut) Op(input, observed string) {
	o.ops++
	fmt.Fprintln(o.in, input)
	fmt.Fprintln(o.impl, observed)
	if len(o.curSample) < 60 {
		o.curSample = append(o.curSample, input+"  =>  "+observed)
	}
}
func (o *crOut) InOnly(line string) {
	fmt.Fprintln(o.in, line)
	if len(o.curSample) < 60 {
		o.curSample = append(o.curSample, line)
	}
}
func (o *crOut) Fail(step int, class, detail string) {
	o.fails++
	fmt.Fprintf(o.orc, "FAIL case=%d step=%d class=%s %s\n", o.curCase, step, class, detail)
}
func (o *crOut) Count(k string) { o.dist[k]++ }
func (o *crOut) Mark(k string)  { o.nontrivial[k] = true }
func (o *crOut) Close() {
	o.flushSample()
	o.in.Flush()
	o.impl.Flush()
	o.orc.Flush()
	for _, f := range o.files {
		f.Close()
	}
	var keys []string
	for k := range o.nontrivial {
		keys = append(keys, k)
	}
	sort.Strings(keys)
	st := map[string]interface{}{"cases": o.cases, "ops": o.ops, "distinct_nontrivial": len(o.nontrivial),
		"rule": o.rule, "dist": o.dist, "samples": o.samples, "oracle_failures": o.fails, "seed": *crSeed}
	if os.Getenv("C05_CHILD") != "" {
		st["nontrivial_keys"] = keys
	}
	b, _ := json.MarshalIndent(st, "", " ")
	os.WriteFile(filepath.Join(o.dir, "stats.json"), b, 0o644)
}

// ---------------------------------------------------------------------------------------------
// the ordered log of durable writes

type crOp struct {
	del  bool
	k, v []byte
}

// crWrite is one atomic durable write: a database Put/Delete/batch, or a WAL fsync that made
// the WAL prefix [0, walLen) durable.
type crWrite struct {
	wal     bool
	ops     []crOp
	walLen  int // durable WAL length after this entry
	walBuf  int // bytes handed to the WAL (durable or not) when this entry was made
	kind    string
	height  uint64 // height the entry belongs to (0: none)
	desc    string
	nsigs   int // number of signatures requested before this entry
	nacted  int // number of own messages acted upon before this entry
	walMsgs int // number of WAL messages (records) covered by walLen
	aux     int // block: 1 if the saved block carries transactions; head: 1 if the head pointer names a block never saved
	rot     bool // WAL entry: the head was rotated (flushed, fsynced, renamed to wal.NNN); walLen is the cut
}

type crSig struct {
	proposal bool
	typ      int
	height   uint64
	round    uint32
	bid      types.BlockID
	at       int // len(log) when the signature was requested
}

// crActed: an own (internal) message returned from the WAL write, i.e. it is now acted upon /
// published.  end is the WAL offset its record ends at; durable says whether an fsync covered it.
type crActed struct {
	proposal bool
	vote     bool
	typ      int
	height   uint64
	round    uint32
	bid      types.BlockID
	at       int // len(log) after the WAL call returned
	end      int
	durable  bool
}

type crWalRec struct {
	end  int    // byte offset the record ends at
	kind string // eh:<h> | own-prop | own-part | own-vote:<t> | peer | timeout | step
	tok  string // the same with height / round for the model
}

type crRec struct {
	mu     sync.Mutex
	log    []crWrite
	sigs   []crSig
	acted  []crActed
	recs   []crWalRec
	walBuf int // bytes written to the WAL so far (logical offset over all files of the group)
	walDur int // durable prefix
	rotBase int // bytes in the rotated files the life started on
	notify chan struct{}
	frozen bool
	saved  map[common.Hash]bool   // hashes with a hash->height entry (blocks saved with WriteBlock)
	apps   map[uint64]common.Hash // app hash per height
}

func crNewRec() *crRec {
	return &crRec{notify: make(chan struct{}, 1), saved: map[common.Hash]bool{}, apps: map[uint64]common.Hash{}}
}

// process-wide (one case per process): transactions per block hash (from the node's own block
// parts) and the hashes of the blocks ever saved with WriteBlock
var (
	crKnownMu  sync.Mutex
	crBlockTxs = map[common.Hash]int{}
	crPartAcc  = map[string][]byte{}
)

func crNoteParts(m *BlockPartMessage) {
	if m.Part == nil {
		return
	}
	crKnownMu.Lock()
	defer crKnownMu.Unlock()
	key := fmt.Sprintf("%d/%d/%x", m.Height, m.Round, m.Part.Proof.LeafHash)
	_ = key
	acc := fmt.Sprintf("%d/%d/%d", m.Height, m.Round, m.Part.Proof.Total)
	if m.Part.Index == 0 {
		crPartAcc[acc] = nil
	}
	crPartAcc[acc] = append(crPartAcc[acc], m.Part.Bytes...)
	if uint64(m.Part.Index)+1 == uint64(m.Part.Proof.Total) {
		var pbb = new(kproto.Block)
		if err := proto.Unmarshal(crPartAcc[acc], pbb); err == nil {
			if b, err := types.BlockFromProto(pbb, trie.NewStackTrie(nil)); err == nil {
				crBlockTxs[b.Hash()] = len(b.Transactions())
			}
		}
		delete(crPartAcc, acc)
	}
}

func crTxsOf(h common.Hash) int {
	crKnownMu.Lock()
	defer crKnownMu.Unlock()
	return crBlockTxs[h]
}

func (r *crRec) ping() {
	select {
	case r.notify <- struct{}{}:
	default:
	}
}

func (r *crRec) addDB(ops []crOp) {
	if len(ops) == 0 {
		return
	}
	r.mu.Lock()
	if !r.frozen {
		w := crWrite{ops: ops, walLen: r.walDur, walBuf: r.walBuf, nsigs: len(r.sigs), nacted: len(r.acted)}
		w.kind, w.height, w.desc = crClassify(ops)
		for _, op := range ops {
			if op.del {
				continue
			}
			if len(op.k) == 33 && op.k[0] == 'H' {
				h := common.BytesToHash(op.k[1:])
				r.saved[h] = true
				if w.kind == "block" && crTxsOf(h) > 0 {
					w.aux = 1
				}
			}
		}
		for _, op := range ops {
			if !op.del && string(op.k) == "LastBlock" && !r.saved[common.BytesToHash(op.v)] {
				w.aux = 1
			}
		}
		for _, op := range ops {
			if !op.del && len(op.k) == 10 && op.k[0] == 'a' && op.k[1] == 'h' {
				h := crU64(op.k[2:])
				if prev, ok := r.apps[h]; ok && w.kind == "binfo" && prev != common.BytesToHash(op.v) {
					w.aux = 1 // the block is applied again and yields ANOTHER state root (not on disk yet)
				}
				r.apps[h] = common.BytesToHash(op.v)
			}
		}
		r.log = append(r.log, w)
	}
	r.mu.Unlock()
	r.ping()
}

// ---------------------------------------------------------------------------------------------
// classification of database writes by the keys they touch (rawdb/schema.go prefixes)

func crU64(b []byte) uint64 {
	if len(b) < 8 {
		return 0
	}
	return binary.BigEndian.Uint64(b[:8])
}

func crKeyKind(k []byte) (string, uint64) {
	s := string(k)
	switch {
	case s == "LastBlock":
		return "head", 0
	case s == "SnapshotRoot", s == "SnapshotJournal", s == "SnapshotGenerator", s == "SnapshotRecovery", s == "SnapshotSyncStatus", s == "SnapshotDisabled":
		return "snap", 0
	case strings.HasPrefix(s, "ConsensusStatesInfo"):
		return "csother", 0
	case strings.HasPrefix(s, "ConsensusState") && len(k) == len("ConsensusState")+8:
		return "cstate", crU64(k[len("ConsensusState"):])
	case strings.HasPrefix(s, "ConsensusValidatorsInfo"):
		return "valinfo", 0
	case strings.HasPrefix(s, "ConsensusParamsInfo"):
		return "paraminfo", 0
	case strings.HasPrefix(s, "evidence-"):
		return "evidence", 0
	case strings.HasPrefix(s, "kardia-config-"):
		return "chaincfg", 0
	case strings.HasPrefix(s, "secure-key-"):
		return "preimage", 0
	case strings.HasPrefix(s, "sm") && len(k) == 10:
		return "seencommit", crU64(k[2:])
	case strings.HasPrefix(s, "ah") && len(k) == 10:
		return "apphash", crU64(k[2:])
	case k[0] == 'h' && len(k) == 10 && k[9] == 'n':
		return "canon", crU64(k[1:])
	case k[0] == 'H' && len(k) == 33:
		return "hashheight", 0
	case k[0] == 'i' && len(k) == 41:
		return "blockinfo", crU64(k[1:])
	case k[0] == 'm' && len(k) == 9:
		return "meta", crU64(k[1:])
	case k[0] == 'p' && len(k) >= 9 && len(k) <= 13:
		return "part", crU64(k[1:])
	case k[0] == 'c' && len(k) == 9:
		return "commit", crU64(k[1:])
	case k[0] == 'l' && len(k) == 33:
		return "txlookup", 0
	case k[0] == 'a' && len(k) == 33, k[0] == 'o' && len(k) == 65:
		return "snapdata", 0
	case len(k) == 32:
		return "trienode", 0
	case k[0] == 'c' && len(k) == 33:
		return "code", 0
	}
	return "other", 0
}

// crClassify names an atomic write after the set of key kinds it contains.
func crClassify(ops []crOp) (kind string, height uint64, desc string) {
	cnt := map[string]int{}
	hs := map[string]uint64{}
	dels := 0
	for _, op := range ops {
		kk, h := crKeyKind(op.k)
		cnt[kk]++
		if h > hs[kk] {
			hs[kk] = h
		}
		if op.del {
			dels++
		}
	}
	var names []string
	for k := range cnt {
		names = append(names, k)
	}
	sort.Strings(names)
	for i, n := range names {
		names[i] = fmt.Sprintf("%s*%d", n, cnt[n])
	}
	desc = strings.Join(names, ",")
	if dels > 0 {
		desc += fmt.Sprintf(" (%d deletes)", dels)
	}
	switch {
	case cnt["meta"] > 0 && cnt["seencommit"] > 0:
		return "block", hs["meta"], desc
	case cnt["cstate"] > 0:
		return "cstate", hs["cstate"], desc
	case cnt["head"] > 0 && cnt["canon"] > 0:
		return "head", hs["canon"], desc
	case cnt["apphash"] > 0 && cnt["blockinfo"] > 0:
		return "binfo", hs["apphash"], desc
	case cnt["trienode"]+cnt["code"] == len(ops):
		return "trie", 0, desc
	case cnt["head"] > 0:
		return "headptr", 0, desc
	case cnt["snap"]+cnt["snapdata"] == len(ops):
		return "snap", 0, desc
	case cnt["evidence"] == len(ops):
		return "evidence", 0, desc
	case cnt["preimage"] == len(ops):
		return "preimage", 0, desc
	case cnt["chaincfg"] > 0:
		return "chaincfg", 0, desc
	case cnt["apphash"] == len(ops):
		return "apphash1", hs["apphash"], desc
	case cnt["canon"] == len(ops):
		return "canon1", hs["canon"], desc
	case cnt["blockinfo"] == len(ops):
		return "binfo1", hs["blockinfo"], desc
	}
	return "other", 0, desc
}

// ---------------------------------------------------------------------------------------------
// recording database

type crDB struct {
	inner *memorydb.Database
	rec   *crRec
}

func (d *crDB) Has(k []byte) (bool, error)   { return d.inner.Has(k) }
func (d *crDB) Get(k []byte) ([]byte, error) { return d.inner.Get(k) }
func (d *crDB) Put(k, v []byte) error {
	if err := d.inner.Put(k, v); err != nil {
		return err
	}
	d.rec.addDB([]crOp{{k: common.CopyBytes(k), v: common.CopyBytes(v)}})
	return nil
}
func (d *crDB) Delete(k []byte) error {
	if err := d.inner.Delete(k); err != nil {
		return err
	}
	d.rec.addDB([]crOp{{del: true, k: common.CopyBytes(k)}})
	return nil
}
func (d *crDB) NewBatch() kaidb.Batch { return &crBatch{db: d} }
func (d *crDB) NewIterator(prefix, start []byte) kaidb.Iterator {
	return d.inner.NewIterator(prefix, start)
}
func (d *crDB) Stat(p string) (string, error) { return d.inner.Stat(p) }
func (d *crDB) Compact(s, l []byte) error     { return nil }
func (d *crDB) Close() error                  { return nil }

type crBatch struct {
	db   *crDB
	ops  []crOp
	size int
}

func (b *crBatch) Put(k, v []byte) error {
	b.ops = append(b.ops, crOp{k: common.CopyBytes(k), v: common.CopyBytes(v)})
	b.size += len(k) + len(v)
	return nil
}
func (b *crBatch) Delete(k []byte) error {
	b.ops = append(b.ops, crOp{del: true, k: common.CopyBytes(k)})
	b.size += len(k)
	return nil
}
func (b *crBatch) ValueSize() int { return b.size }
func (b *crBatch) Write() error {
	if len(b.ops) == 0 {
		return nil
	}
	ib := b.db.inner.NewBatch()
	for _, op := range b.ops {
		if op.del {
			ib.Delete(op.k)
		} else {
			ib.Put(op.k, op.v)
		}
	}
	if err := ib.Write(); err != nil {
		return err
	}
	b.db.rec.addDB(append([]crOp{}, b.ops...))
	return nil
}
func (b *crBatch) Reset() { b.ops, b.size = nil, 0 }
func (b *crBatch) Replay(w kaidb.KeyValueWriter) error {
	for _, op := range b.ops {
		var err error
		if op.del {
			err = w.Delete(op.k)
		} else {
			err = w.Put(op.k, op.v)
		}
		if err != nil {
			return err
		}
	}
	return nil
}

// crImageDB rebuilds the database holding exactly the first n durable writes.
func crImageDB(log []crWrite, n int) *memorydb.Database {
	db := memorydb.New()
	for i := 0; i < n && i < len(log); i++ {
		for _, op := range log[i].ops {
			if op.del {
				db.Delete(op.k)
			} else {
				db.Put(op.k, op.v)
			}
		}
	}
	return db
}

// ---------------------------------------------------------------------------------------------
// recording WAL around the real BaseWAL

type crWAL struct {
	inner   *BaseWAL
	rec     *crRec
	path    string
	pending func() int // transactions pending in the pool (what a proposal block built now carries)
	raw     bool       // true: do not record (after the code replaced the WAL itself)
	cs      *ConsensusState
	raced   int32      // atomic; 1: a propose/prevote/precommit timeout was handled while own messages were still queued (slow machine)
	limit   int64      // head size limit of the group (0: the default, never reached)
	ticking int32      // atomic; 1: the group's ticker may fire (not while ConsensusState.OnStart runs: its first tick comes groupCheckDuration after the WAL was started, OnStart takes milliseconds)
	rotBase int        // bytes in the rotated files wal.000 ..
}

func crWalMsgKind(m WALMessage) string {
	switch x := m.(type) {
	case EndHeightMessage:
		return fmt.Sprintf("eh:%d", x.Height)
	case msgInfo:
		own := x.PeerID == ""
		p := "peer"
		if own {
			p = "own"
		}
		switch mm := x.Msg.(type) {
		case *ProposalMessage:
			return p + "-prop"
		case *BlockPartMessage:
			return p + "-part"
		case *VoteMessage:
			return fmt.Sprintf("%s-vote:%d", p, int(mm.Vote.Type))
		}
		return p + "-msg"
	case timeoutInfo:
		return "timeout"
	case types.EventDataRoundState:
		return "step"
	}
	return "unknown"
}

func crWalMsgTok(m WALMessage) string {
	switch x := m.(type) {
	case EndHeightMessage:
		return fmt.Sprintf("eh:%d", x.Height)
	case msgInfo:
		if x.PeerID != "" {
			return "peer"
		}
		switch mm := x.Msg.(type) {
		case *ProposalMessage:
			return fmt.Sprintf("prop:%d:%d:#%x", mm.Proposal.Height, mm.Proposal.Round, mm.Proposal.POLBlockID.Hash[:])
		case *BlockPartMessage:
			ph := common.Hash{}
			if mm.Part != nil && mm.Part.Proof.Total == 1 {
				var pbb = new(kproto.Block)
				if err := proto.Unmarshal(mm.Part.Bytes, pbb); err == nil {
					if b, err := types.BlockFromProto(pbb, trie.NewStackTrie(nil)); err == nil {
						ph = b.Hash()
					}
				}
			}
			return fmt.Sprintf("part:%d:%d:#%x", mm.Height, mm.Round, ph[:])
		case *VoteMessage:
			n := "b"
			if mm.Vote.BlockID.Hash.IsZero() {
				n = "n"
			}
			return fmt.Sprintf("vote:%d:%d:%d:%s", int(mm.Vote.Type), mm.Vote.Height, mm.Vote.Round, n)
		}
		return "peer"
	case timeoutInfo:
		return fmt.Sprintf("timeout:%d:%d:%d", x.Height, x.Round, int(x.Step))
	}
	return "step"
}

func (w *crWAL) headSize() int {
	st, err := os.Stat(w.path)
	if err != nil {
		return 0
	}
	return int(st.Size())
}

// size: logical length of the WAL on disk = rotated files + head
func (w *crWAL) size() int { return w.rotBase + w.headSize() }

// checkRotate is the group's ticker firing at this instant: the REAL checkHeadSizeLimit runs
// (head file size >= limit => RotateFile: flush, fsync, close, rename to wal.NNN; no new head is
// created).  A rotation is one durable write of the ordered log: it makes everything handed to
// the WAL so far durable and leaves the group without a head file.
func (w *crWAL) checkRotate() {
	if w.limit <= 0 || atomic.LoadInt32(&w.ticking) == 0 {
		return
	}
	g := w.inner.group
	before := g.MaxIndex()
	g.VerifC05CheckHeadSizeLimit()
	if g.MaxIndex() == before {
		return
	}
	r := w.rec
	r.mu.Lock()
	end := r.walBuf
	w.rotBase = end
	if !r.frozen {
		r.walDur = end
		r.log = append(r.log, crWrite{wal: true, rot: true, walLen: end, walBuf: end, kind: "wal:rotate", nsigs: len(r.sigs), nacted: len(r.acted), walMsgs: len(r.recs),
			desc: fmt.Sprintf("WAL head rotated at byte %d (file index %d)", end, before)})
	}
	r.mu.Unlock()
	r.ping()
}

func (w *crWAL) note(m WALMessage, sync bool) {
	r := w.rec
	if ti, ok := m.(timeoutInfo); ok && ti.Step >= cstypes.RoundStepPropose && w.cs != nil {
		// this runs in the receive routine, right after its select took the timeout off the ticker:
		// own messages (proposal, parts, votes) are queued synchronously by the routine itself, so a
		// non-empty queue here means that the timeout overtook them only because the machine is slow
		// (a stale timeout - handleTimeout ignores it - may come with anything)
		cs := w.cs
		stale := ti.Height != cs.Height || ti.Round < cs.Round || (ti.Round == cs.Round && ti.Step < cs.Step)
		if !stale && len(cs.internalMsgQueue) > 0 {
			atomic.StoreInt32(&w.raced, 1)
		}
	}
	// the record's end offset = bytes in the file + bytes still in the group's buffer; what is
	// DURABLE is decided by the calls of the code under test alone
	end := w.size() + w.inner.group.Buffered()
	r.mu.Lock()
	if !r.frozen {
		kind := "sync"
		if m != nil {
			kind = crWalMsgKind(m)
			r.recs = append(r.recs, crWalRec{end: end, kind: kind, tok: crWalMsgTok(m)})
		}
		r.walBuf = end
		if sync && end > r.walDur {
			r.walDur = end
			e := crWrite{wal: true, walLen: end, walBuf: end, kind: "wal:" + kind, nsigs: len(r.sigs), nacted: len(r.acted), walMsgs: len(r.recs)}
			if x, ok := m.(EndHeightMessage); ok {
				e.height = uint64(x.Height)
			}
			e.desc = fmt.Sprintf("WAL fsync up to byte %d (%s)", end, kind)
			r.log = append(r.log, e)
		}
		if mi, ok := m.(msgInfo); ok && mi.PeerID == "" {
			if bp, ok := mi.Msg.(*BlockPartMessage); ok {
				crNoteParts(bp)
			}
			if pm, ok := mi.Msg.(*ProposalMessage); ok && w.pending != nil {
				// until its parts are seen, the proposed block is known by the pool content it was built from
				crKnownMu.Lock()
				if _, known := crBlockTxs[pm.Proposal.POLBlockID.Hash]; !known {
					crBlockTxs[pm.Proposal.POLBlockID.Hash] = w.pending()
				}
				crKnownMu.Unlock()
			}
			a := crActed{at: len(r.log), end: end, durable: end <= r.walDur}
			switch mm := mi.Msg.(type) {
			case *ProposalMessage:
				a.proposal, a.height, a.round, a.bid = true, mm.Proposal.Height, mm.Proposal.Round, mm.Proposal.POLBlockID
				r.acted = append(r.acted, a)
			case *VoteMessage:
				a.vote, a.typ, a.height, a.round, a.bid = true, int(mm.Vote.Type), mm.Vote.Height, mm.Vote.Round, mm.Vote.BlockID
				r.acted = append(r.acted, a)
			}
		}
	}
	r.mu.Unlock()
	r.ping()
}

func (w *crWAL) Write(m WALMessage) error {
	err := w.inner.Write(m)
	if err == nil {
		w.note(m, false)
		w.checkRotate()
	}
	return err
}
func (w *crWAL) WriteSync(m WALMessage) error {
	err := w.inner.WriteSync(m)
	if err == nil {
		w.note(m, true)
		w.checkRotate()
	}
	return err
}
func (w *crWAL) FlushAndSync() error {
	err := w.inner.FlushAndSync()
	if err == nil {
		w.note(nil, true)
		w.checkRotate()
	}
	return err
}
func (w *crWAL) SearchForEndHeight(h int64, o *WALSearchOptions) (rd io.ReadCloser, found bool, err error) {
	return w.inner.SearchForEndHeight(h, o)
}
func (w *crWAL) Start() error { return nil } // the inner WAL is started by crOpenWAL
func (w *crWAL) Stop() error  { return w.inner.Stop() }
func (w *crWAL) Wait()        { w.inner.Wait() }

// crOpenWAL opens (as ConsensusState.OpenWAL does) the WAL file of cfg and wraps it.
func crOpenWAL(cfg *configs.ConsensusConfig, rec *crRec, logger log.Logger, limit int64) (*crWAL, error) {
	var opts []func(*auto.Group)
	if limit > 0 {
		// the group's own ticker never fires: the harness decides when checkHeadSizeLimit runs (checkRotate)
		opts = append(opts, auto.GroupHeadSizeLimit(limit), auto.GroupCheckDuration(time.Hour))
	}
	inner, err := NewWAL(cfg.WalFile(), opts...)
	if err != nil {
		return nil, err
	}
	inner.SetLogger(logger)
	inner.SetFlushInterval(time.Hour) // no periodic fsync: durability comes from the code's own calls only
	w := &crWAL{inner: inner, rec: rec, path: cfg.WalFile(), limit: limit, rotBase: rec.rotBase}
	headEmpty := w.headSize() == 0
	if err := inner.Start(); err != nil {
		return nil, err
	}
	// BaseWAL.OnStart fsyncs #ENDHEIGHT 0 into an empty head: the first boot, and every restart on a
	// group whose head was rotated away and not written again before the crash
	sz := w.size()
	rec.mu.Lock()
	if sz > rec.walDur {
		if headEmpty {
			rec.recs = append(rec.recs, crWalRec{end: sz, kind: "eh:0", tok: "eh:0"})
			rec.log = append(rec.log, crWrite{wal: true, walLen: sz, walBuf: sz, kind: "wal:eh:0", desc: fmt.Sprintf("WAL fsync up to byte %d (eh:0, BaseWAL.OnStart)", sz), nsigs: len(rec.sigs), nacted: len(rec.acted), walMsgs: len(rec.recs)})
		}
		rec.walDur, rec.walBuf = sz, sz
	}
	rec.mu.Unlock()
	return w, nil
}

// ---------------------------------------------------------------------------------------------
// logical timeouts: progress of the node under test never depends on real time
//
// crTicker wraps the REAL timeoutTicker (which keeps deciding which scheduled timeout supersedes
// which).  Every timeout is scheduled with duration 0, so the real ticker fires it at once; the
// relay then HOLDS the fired timeout until the node is quiescent - no own message queued, no
// message being handled - and only then hands it to the receive routine.  For a single validator
// without peers this is exactly what a real timeout does on a machine that is fast enough (own
// messages are queued synchronously by the receive routine itself; nothing else can arrive while
// it waits), and it cannot be overtaken by a slow machine: a timeout is never offered to the
// routine's select together with queued own messages.  A timeout released while the routine is
// between taking a message off the queue and handling it is seen by the select only after that
// message was handled, when it is either stale (ignored by handleTimeout) or still due.
type crTicker struct {
	inner    TimeoutTicker
	cs       *ConsensusState
	out      chan timeoutInfo
	quit     chan struct{}
	once     sync.Once
	held     int32  // atomic: a fired timeout waits in the relay
	nsched   int64  // atomic: timeouts scheduled
	gated    bool   // first life: the NewHeight timeout of height h is held until release(h)
	released uint64 // atomic
}

func crNewTicker(cs *ConsensusState, gated bool) *crTicker {
	return &crTicker{inner: cs.timeoutTicker, cs: cs, out: make(chan timeoutInfo, tickTockBufferSize), quit: make(chan struct{}), gated: gated}
}
func (t *crTicker) Start() error {
	if err := t.inner.Start(); err != nil {
		return err
	}
	go t.relay()
	return nil
}
func (t *crTicker) Stop() error {
	t.once.Do(func() { close(t.quit) })
	return t.inner.Stop()
}
func (t *crTicker) Chan() <-chan timeoutInfo { return t.out }
func (t *crTicker) ScheduleTimeout(ti timeoutInfo) {
	ti.Duration = 0
	atomic.AddInt64(&t.nsched, 1)
	t.inner.ScheduleTimeout(ti)
}
func (t *crTicker) SetLogger(l log.Logger) { t.inner.SetLogger(l) }
func (t *crTicker) release(h uint64)       { atomic.StoreUint64(&t.released, h) }

// quiescent: nothing queued for the receive routine and it is not inside handleMsg/handleTimeout
func (t *crTicker) quiescent() bool {
	if len(t.cs.internalMsgQueue) > 0 || len(t.cs.peerMsgQueue) > 0 {
		return false
	}
	if !t.cs.mtx.TryLock() {
		return false
	}
	t.cs.mtx.Unlock()
	return true
}

func (t *crTicker) relay() {
	for {
		select {
		case ti := <-t.inner.Chan():
			atomic.StoreInt32(&t.held, 1)
			for !(t.quiescent() && (!t.gated || ti.Step != cstypes.RoundStepNewHeight || ti.Height <= atomic.LoadUint64(&t.released))) {
				select {
				case <-t.quit:
					return
				case <-time.After(100 * time.Microsecond):
				}
			}
			select {
			case t.out <- ti:
			case <-t.quit:
				return
			}
			atomic.StoreInt32(&t.held, 0)
		case <-t.quit:
			return
		}
	}
}

// ---------------------------------------------------------------------------------------------
// recording PrivValidator

type crPV struct {
	*types.DefaultPrivValidator
	rec *crRec
}

func (p *crPV) SignVote(chainID string, vote *kproto.Vote) error {
	bid, _ := types.BlockIDFromProto(&vote.BlockID)
	p.rec.mu.Lock()
	p.rec.sigs = append(p.rec.sigs, crSig{typ: int(vote.Type), height: vote.Height, round: vote.Round, bid: *bid, at: len(p.rec.log)})
	p.rec.mu.Unlock()
	return p.DefaultPrivValidator.SignVote(chainID, vote)
}
func (p *crPV) SignProposal(chainID string, proposal *kproto.Proposal) error {
	bid, _ := types.BlockIDFromProto(&proposal.BlockID)
	p.rec.mu.Lock()
	p.rec.sigs = append(p.rec.sigs, crSig{proposal: true, height: proposal.Height, round: proposal.Round, bid: *bid, at: len(p.rec.log)})
	p.rec.mu.Unlock()
	return p.DefaultPrivValidator.SignProposal(chainID, proposal)
}

// ---------------------------------------------------------------------------------------------
// scenario constants and node assembly (mainchain/backend.go New, by hand)

const crChainID = "kaicon"

var crGenesisTime = time.Unix(1600000000, 0).UTC()

type crScenario struct {
	archive  bool // TrieDirtyDisabled: flush the state trie every block
	snapshot bool // SnapshotLimit > 0
	heights  int
	txAt     map[uint64]int // txs submitted while the node is at this height
	rotLimit int64          // > 0: WAL head size limit (the head is rotated at the first check that finds it this large)
	repool   bool           // a restarted node finds a transaction it has never seen in its pool before it proposes (re-created blocks differ from every original block)
}

type crEnv struct {
	key     *types.DefaultPrivValidator
	userKey [3]*types.DefaultPrivValidator // [2]: sender of the transactions a restarted node finds in its pool (sc.repool)
	sc      crScenario
	gated   bool // the next node started runs height by height (crTicker.release): the first life
}

func crNewEnv(sc crScenario) *crEnv {
	e := &crEnv{sc: sc}
	k, _ := crypto.ToECDSA(crypto.Keccak256([]byte("c05-validator-key")))
	e.key = types.NewDefaultPrivValidator(k)
	for i := range e.userKey {
		k, _ := crypto.ToECDSA(crypto.Keccak256([]byte(fmt.Sprintf("c05-user-key-%d", i))))
		e.userKey[i] = types.NewDefaultPrivValidator(k)
	}
	return e
}

func (e *crEnv) genesis() *genesis.Genesis {
	bal, _ := big.NewInt(0).SetString("15000000000000000000000000", 10)
	alloc := genesis.GenesisAlloc{e.key.GetAddress(): genesis.GenesisAccount{Balance: bal}}
	for _, u := range e.userKey {
		alloc[u.GetAddress()] = genesis.GenesisAccount{Balance: new(big.Int).Set(bal)}
	}
	return &genesis.Genesis{
		ChainID:         crChainID,
		InitialHeight:   1,
		Timestamp:       crGenesisTime,
		Config:          configs.TestnetChainConfig,
		GasLimit:        configs.BlockGasLimit,
		Alloc:           alloc,
		ConsensusParams: configs.DefaultConsensusParams(),
		Consensus:       configs.TestConsensusConfig(),
		Validators: []*genesis.GenesisValidator{{
			Name: "c05-validator-one-0123456789abcdef", Address: e.key.GetAddress().Hex(), CommissionRate: "100000000000000000", MaxRate: "250000000000000000",
			MaxChangeRate: "50000000000000000", SelfDelegate: "13000000000000000000000000", StartWithGenesis: true,
		}},
	}
}

func (e *crEnv) cacheConfig() *blockchain.CacheConfig {
	// mainchain/config.go defaults: TrieCleanCache 154 (256 with NoPruning), TrieDirtyCache 256, TrieTimeout 60m,
	// SnapshotCache 102; backend.go maps NoPruning to TrieDirtyDisabled
	c := &blockchain.CacheConfig{TrieCleanLimit: 16, TrieDirtyLimit: 256, TrieTimeLimit: 60 * time.Minute,
		TrieDirtyDisabled: e.sc.archive, SnapshotWait: true}
	if e.sc.snapshot {
		c.SnapshotLimit = 16
	}
	if e.sc.archive {
		c.TrieDirtyLimit = 0
	}
	return c
}

type crNode struct {
	env       *crEnv
	rec       *crRec
	db        *crDB
	dir       string
	bc        *blockchain.BlockChain
	store     cstate.Store
	txPool    *tx_pool.TxPool
	bo        *blockchain.BlockOperations
	cs        *ConsensusState
	eb        *types.EventBus
	wal       *crWAL
	tk        *crTicker
	poolRefused bool // sc.repool: the pool refused the new transaction (a chain on an empty state): the pool is empty
	ccfg      *configs.ConsensusConfig
	state0    cstate.LatestBlockState // state the node was started from
	stage     string                  // last assembly stage reached
	failed    string                  // panic / error text of a failed start
	boHt      uint64                  // BlockOperations.Height() at start
	hh0       int64                   // head height right after NewBlockChain (its repair included)
	startLogs []string                // captured log records of OnStart (catchupReplay, repair)
}

func crGuard(f func()) (panicked string) {
	defer func() {
		if r := recover(); r != nil {
			panicked = fmt.Sprint(r)
			if panicked == "" {
				panicked = "panic"
			}
			if os.Getenv("C05_STACK") != "" {
				fmt.Println(panicked)
				fmt.Println(string(debug.Stack()))
			}
		}
	}()
	f()
	return ""
}

// crStartNode assembles and starts a node on (mem, walBytes) — a fresh node when both are empty.
// Every stage runs guarded; nd.failed != "" tells that the start did not succeed, nd.stage where.
func crStartNode(env *crEnv, mem *memorydb.Database, walBytes []byte, rots []int, rec *crRec) *crNode {
	nd := &crNode{env: env, rec: rec, hh0: -1}
	if crTmpRoot == "" {
		base := ""
		if st, err := os.Stat("/dev/shm"); err == nil && st.IsDir() {
			base = "/dev/shm" // fsync on tmpfs is cheap; durability is logical in this harness
		}
		crTmpRoot, _ = os.MkdirTemp(base, "c05-")
	}
	dir, err := os.MkdirTemp(crTmpRoot, "node-")
	if err != nil {
		panic(err)
	}
	nd.dir = dir
	nd.db = &crDB{inner: mem, rec: rec}
	for it := mem.NewIterator([]byte("ah"), nil); it.Next(); {
		if k := it.Key(); len(k) == 10 {
			rec.apps[crU64(k[2:])] = common.BytesToHash(it.Value())
		}
	}
	for it := mem.NewIterator([]byte("H"), nil); it.Next(); {
		if k := it.Key(); len(k) == 33 {
			rec.saved[common.BytesToHash(k[1:])] = true
		}
	}
	ccfg := configs.TestConsensusConfig()
	ccfg.RootDir = dir
	ccfg.TimeoutPropose = 2 * time.Second // not waited for in real time: see crTicker
	ccfg.TimeoutCommit = 2 * time.Millisecond
	nd.ccfg = ccfg
	if walBytes != nil || len(rots) > 0 {
		// the WAL group of the image: wal.000 .. wal.(n-1) cut at the rotation offsets, and the head;
		// no head file when nothing was written after the last rotation (RotateFile creates none)
		os.MkdirAll(filepath.Dir(ccfg.WalFile()), 0o700)
		prev := 0
		for i, off := range rots {
			if err := os.WriteFile(fmt.Sprintf("%s.%03d", ccfg.WalFile(), i), walBytes[prev:off], 0o600); err != nil {
				panic(err)
			}
			prev = off
		}
		if prev < len(walBytes) || len(rots) == 0 {
			if err := os.WriteFile(ccfg.WalFile(), walBytes[prev:], 0o600); err != nil {
				panic(err)
			}
		}
		rec.walDur, rec.walBuf, rec.rotBase = len(walBytes), len(walBytes), prev
	}
	// log records carry the generation of the node that wrote them: a record of a node that was
	// killed earlier (its goroutines may linger on a slow machine) is never attributed to this one
	gen := atomic.AddInt64(&crNodeGen, 1)
	logger := log.New("c05node", gen)
	gs := env.genesis()
	step := func(name string, f func() error) bool {
		nd.stage = name
		var err error
		if p := crGuard(func() { err = f() }); p != "" {
			nd.failed = "panic: " + p
			return false
		}
		if err != nil {
			nd.failed = "error: " + err.Error()
			return false
		}
		return true
	}
	ok := step("NewBlockChain", func() error {
		bc, err := blockchain.NewBlockChain(nd.db, env.cacheConfig(), gs)
		nd.bc = bc
		if err == nil {
			nd.hh0 = int64(bc.CurrentBlock().Height())
		}
		return err
	}) && step("NewStore+evidence.NewPool", func() error {
		nd.store = cstate.NewStore(nd.db)
		return nil
	})
	if !ok {
		return nd
	}
	var evPool *evidence.Pool
	var blockExec *cstate.BlockExecutor
	var st cstate.LatestBlockState
	ok = step("evidence.NewPool", func() error {
		var err error
		evPool, err = evidence.NewPool(nd.store, nd.db, nd.bc)
		return err
	}) && step("NewTxPool", func() error {
		nd.txPool = tx_pool.NewTxPool(tx_pool.TxPoolConfig{GlobalSlots: 64, GlobalQueue: 5120000}, nd.bc.Config(), nd.bc)
		return nil
	}) && step("NewBlockOperations", func() error {
		su, err := staking.NewSmcStakingUtil()
		if err != nil {
			return err
		}
		nd.bo = blockchain.NewBlockOperations(logger, nd.bc, nd.txPool, evPool, su)
		nd.boHt = nd.bo.Height()
		blockExec = cstate.NewBlockExecutor(nd.store, logger, evPool, nd.bo)
		return nil
	}) && step("repool", func() error {
		if env.gated || !env.sc.repool {
			return nil
		}
		// a transaction this node has never seen (its amount names the node), valid on the head state
		st, err := nd.bc.State()
		if err != nil {
			return nil // no head state: nothing can be added; the restart will report it
		}
		from := env.userKey[2]
		n := st.GetNonce(from.GetAddress())
		to := common.BytesToAddress([]byte{0xc0, 0x05, 0xee})
		tx := types.NewTransaction(n, to, big.NewInt(500000+gen), 100000, big.NewInt(1000000000), nil)
		stx, err := types.SignTx(types.HomesteadSigner{}, tx, from.GetPrivKey())
		if err != nil {
			panic(err)
		}
		if err := nd.txPool.AddLocal(stx); err != nil {
			atomic.AddInt64(&crRepoolRejected, 1)
			nd.poolRefused = true
			if os.Getenv("C05_DBG") != "" {
				fmt.Println("DBG repool refused:", err, "head", nd.hh0)
			}
			return nil
		}
		for t0 := time.Now(); time.Since(t0) < 120*time.Second; time.Sleep(200 * time.Microsecond) {
			if pend, _ := nd.txPool.ContentFrom(from.GetAddress()); len(pend) > 0 {
				break
			}
		}
		return nil
	}) && step("LoadStateFromDBOrGenesisDoc", func() error {
		var err error
		st, err = nd.store.LoadStateFromDBOrGenesisDoc(gs)
		nd.state0 = st
		return err
	}) && step("NewConsensusState", func() error {
		// NewTimeoutTicker() may log through a nil logger when its zero timer already fired (timing
		// dependent, unrelated to C05): retry on exactly that panic
		var p string
		for try := 0; try < 50; try++ {
			p = crGuard(func() { nd.cs = NewConsensusState(logger, ccfg, st, nd.bo, blockExec, evPool) })
			if p == "" || !strings.Contains(p, "nil pointer") {
				break
			}
		}
		if p != "" {
			panic(p)
		}
		nd.tk = crNewTicker(nd.cs, env.gated)
		nd.cs.timeoutTicker = nd.tk
		nd.cs.SetPrivValidator(&crPV{DefaultPrivValidator: env.key, rec: rec})
		nd.eb = types.NewEventBus()
		nd.eb.SetLogger(logger)
		if err := nd.eb.Start(); err != nil {
			return err
		}
		nd.cs.SetEventBus(nd.eb)
		return nil
	}) && step("OpenWAL", func() error {
		w, err := crOpenWAL(ccfg, rec, logger, env.sc.rotLimit)
		if err != nil {
			return err
		}
		w.pending = func() (n int) {
			crGuard(func() { n = nd.txPool.PendingSize() })
			return n
		}
		w.cs = nd.cs
		nd.wal = w
		nd.cs.wal = w
		return nil
	}) && step("OnStart", func() error {
		crLogs.take()
		err := nd.cs.Start()
		nd.startLogs = crLogs.take()
		atomic.StoreInt32(&nd.wal.ticking, 1)
		return err
	})
	if ok {
		nd.stage = "running"
	}
	return nd
}

// kill stops the node's goroutines WITHOUT any graceful flush of the chain (BlockChain.Stop is what
// a clean shutdown would call; a crash does not).
func (nd *crNode) kill() {
	nd.rec.mu.Lock()
	nd.rec.frozen = true
	nd.rec.mu.Unlock()
	crGuard(func() {
		if nd.cs != nil && nd.cs.IsRunning() {
			nd.cs.Stop()
			if nd.stage == "running" { // the receive routine exists only after a successful OnStart
				// event-based: returns as soon as the routine has exited; the bound only protects
				// against a routine that hangs for good
				select {
				case <-nd.cs.done:
				case <-time.After(90 * time.Second):
				}
			}
		}
	})
	crGuard(func() {
		if nd.wal != nil && nd.wal.inner.IsRunning() {
			nd.wal.inner.Stop()
		}
	})
	crGuard(func() {
		if nd.cs != nil {
			if w, ok := nd.cs.wal.(*BaseWAL); ok && w.IsRunning() {
				w.Stop()
			}
		}
	})
	crGuard(func() {
		if nd.txPool != nil {
			nd.txPool.Stop()
		}
	})
	crGuard(func() {
		if nd.eb != nil {
			nd.eb.Stop()
		}
	})
}

// walBytes: the logical WAL = the files of the group in index order, the head last
func (nd *crNode) walBytes() []byte {
	var all []byte
	for i := 0; ; i++ {
		b, err := os.ReadFile(fmt.Sprintf("%s.%03d", nd.ccfg.WalFile(), i))
		if err != nil {
			break
		}
		all = append(all, b...)
	}
	b, _ := os.ReadFile(nd.ccfg.WalFile())
	if all == nil {
		return b
	}
	return append(all, b...)
}

// cleanup: node directories live under one parent that is removed when the test ends (a WAL group
// whose ticker outlives its directory panics in its own goroutine)
func (nd *crNode) cleanup() {}

var crTmpRoot string

// crArchiveMode: state-cache mode of the case this process runs (one case per process)
var crArchiveMode bool

// dead reports whether the receive routine has exited on its own (CONSENSUS FAILURE).
func (nd *crNode) dead() bool {
	if nd.cs == nil {
		return true
	}
	select {
	case <-nd.cs.done:
		return true
	default:
		return false
	}
}

func (nd *crNode) hrs() (uint64, uint32, cstypes.RoundStepType) {
	rs := nd.cs.GetRoundState()
	return rs.Height, rs.Round, rs.Step
}

// ---------------------------------------------------------------------------------------------
// capture of the few log records that are the only place where the code reports the outcome of
// catchupReplay / WAL repair / a dying receive routine

type crLogCap struct {
	mu   sync.Mutex
	recs []string
}

var crLogs = &crLogCap{}

var crNodeGen int64 // generation of the node whose log records are captured

var crRepoolRejected int64 // transactions the pool of a restarted node refused (harness error)

func (c *crLogCap) handler() log.Handler {
	return log.FuncHandler(func(r *log.Record) error {
		var key string
		switch {
		case strings.HasPrefix(r.Msg, "Error on catchup replay"):
			key = "replay-err"
		case r.Msg == "Replay: Done":
			key = "replay-done"
		case strings.HasPrefix(r.Msg, "WAL file is corrupted"):
			key = "wal-corrupted"
		case r.Msg == "Successful repair":
			key = "wal-repaired"
		case strings.HasPrefix(r.Msg, "CONSENSUS FAILURE"):
			key = "consensus-failure"
		case strings.HasPrefix(r.Msg, "Error on ApplyBlock"):
			key = "applyblock-err"
		case strings.HasPrefix(r.Msg, "Calling finalizeCommit on already stored block"):
			key = "already-stored"
		case strings.HasPrefix(r.Msg, "Head state missing, repairing"):
			key = "head-state-missing"
		case strings.HasPrefix(r.Msg, "Empty database, resetting chain"), strings.HasPrefix(r.Msg, "Head block missing, resetting chain"):
			key = "chain-reset"
		default:
			if os.Getenv("C05_LOG") != "" && r.Lvl <= log.LvlError {
				fmt.Printf("LOG %s %v\n", r.Msg, r.Ctx)
			}
			return nil
		}
		e := ""
		for i := 0; i+1 < len(r.Ctx); i += 2 {
			if k, ok := r.Ctx[i].(string); ok && k == "err" {
				e = fmt.Sprint(r.Ctx[i+1])
			}
			if k, ok := r.Ctx[i].(string); ok && k == "c05node" {
				if g, ok := r.Ctx[i+1].(int64); ok && g != atomic.LoadInt64(&crNodeGen) {
					return nil // a node killed earlier
				}
			}
		}
		c.mu.Lock()
		c.recs = append(c.recs, key+"|"+e)
		c.mu.Unlock()
		if os.Getenv("C05_LOG") != "" {
			fmt.Printf("LOG %s %s\n", key, strings.Split(e, "\n")[0])
		}
		return nil
	})
}
func (c *crLogCap) take() []string {
	c.mu.Lock()
	defer c.mu.Unlock()
	r := c.recs
	c.recs = nil
	return r
}

func crFind(recs []string, key string) (string, bool) {
	for _, r := range recs {
		if strings.HasPrefix(r, key+"|") {
			return r[len(key)+1:], true
		}
	}
	return "", false
}

func crPanicClass(p string) string {
	switch {
	case p == "":
		return "-"
	case strings.Contains(p, "can only save contiguous blocks"):
		return "save-noncontiguous"
	case strings.Contains(p, "block meta not found"):
		return "blockmeta-missing"
	case strings.Contains(p, "LastCommit cannot be empty"):
		return "lastcommit-empty"
	case strings.Contains(p, "Failed EvidencePool.Update"):
		return "evpool-height"
	case strings.Contains(p, "committed an invalid block"), strings.Contains(p, "Block validation failed"):
		return "commit-invalid-block"
	case strings.Contains(p, "updateToState() expected state height"):
		return "updateToState-height"
	case strings.Contains(p, "Inconsistent cs.state.LastBlockHeight"):
		return "cs-state-inconsistent"
	case strings.Contains(p, "failed to load consensus params"):
		return "consparams-missing"
	case strings.Contains(p, "nil pointer"):
		return "nil-deref"
	case strings.Contains(p, "Could not find") || strings.Contains(p, "could not find"):
		return "not-found"
	}
	return "other"
}

// ---------------------------------------------------------------------------------------------
// crash images

type crImg struct {
	ops    [][]crOp  // durable database writes, in order
	wal    []byte    // durable WAL, all files of the group concatenated (nil: no file)
	rots   []int     // offsets at which the WAL is cut into rotated files (the rest is the head)
	pub    []crActed // own messages that may have been published before the crash
	desc   string    // "after durable write #k = ..."
	window string    // after:<kind>/before:<kind>
	tail   string    // synced | buffered | torn
	nrecs  int       // complete WAL records the recorder believes the image holds (-1: unknown)
	w1     string    // second-crash images: window of the first crash
	w2     string    // second-crash images: window of the second crash (within the recovering life)
}

// headState: single (never rotated) | present (rotated files and a head) | rotated-away (the group
// has no head: the process died after a rotation and before the next flush)
func (im *crImg) headState() string {
	switch {
	case len(im.rots) == 0:
		return "single"
	case im.rots[len(im.rots)-1] == len(im.wal):
		return "rotated-away"
	}
	return "present"
}

func (im *crImg) db() *memorydb.Database {
	db := memorydb.New()
	for _, w := range im.ops {
		for _, op := range w {
			if op.del {
				db.Delete(op.k)
			} else {
				db.Put(op.k, op.v)
			}
		}
	}
	return db
}

// crLife: what one run of a node left behind
type crLife struct {
	log    []crWrite
	sigs   []crSig
	acted  []crActed
	recs   []crWalRec
	walAll []byte
}

func crLifeOf(rec *crRec, walAll []byte) *crLife {
	rec.mu.Lock()
	defer rec.mu.Unlock()
	return &crLife{log: rec.log, sigs: rec.sigs, acted: rec.acted, recs: rec.recs, walAll: walAll}
}

func crKindShort(w crWrite) string {
	if w.height > 0 || w.kind == "block" || w.kind == "cstate" || w.kind == "head" || w.kind == "binfo" {
		return fmt.Sprintf("%s(%d)", w.kind, w.height)
	}
	return w.kind
}

// cut: the crash image after the first j durable writes of life l that itself started on base.
// tail = synced: only fsynced WAL bytes; buffered: everything handed to the WAL so far (process
// kill, OS alive); torn: the fsynced prefix plus a broken piece of the next record.
func crCut(base *crImg, l *crLife, j int, tail string) *crImg {
	im := &crImg{tail: tail}
	im.ops = append(im.ops, base.ops...)
	im.pub = append(im.pub, base.pub...)
	im.rots = append(im.rots, base.rots...)
	walLen, walBuf := len(base.wal), len(base.wal)
	for i := 0; i < j; i++ {
		if !l.log[i].wal {
			im.ops = append(im.ops, l.log[i].ops)
		}
		if l.log[i].rot {
			im.rots = append(im.rots, l.log[i].walLen)
		}
		walLen, walBuf = l.log[i].walLen, l.log[i].walBuf
	}
	// bytes handed to the WAL up to the NEXT durable write (they precede it in time)
	if j < len(l.log) {
		nb := l.log[j].walBuf
		if l.log[j].wal {
			// the records before the one being fsynced were already written
			for _, r := range l.recs {
				if r.end < l.log[j].walLen && r.end > walBuf {
					walBuf = r.end
				}
			}
		} else if nb > walBuf {
			walBuf = nb
		}
	} else if len(l.walAll) > walBuf {
		walBuf = len(l.walAll)
	}
	if walBuf > len(l.walAll) {
		walBuf = len(l.walAll)
	}
	if walLen > len(l.walAll) {
		walLen = len(l.walAll)
	}
	switch tail {
	case "buffered":
		walLen = walBuf
	case "torn":
		if walBuf > walLen {
			// first unsynced record, cut in the middle
			next := walBuf
			for _, r := range l.recs {
				if r.end > walLen {
					next = r.end
					break
				}
			}
			walLen = walLen + (next-walLen)/2
		} else {
			im.tail = "synced"
		}
	}
	if walLen > 0 {
		im.wal = append([]byte{}, l.walAll[:walLen]...)
	}
	for _, a := range l.acted {
		if a.at <= j {
			im.pub = append(im.pub, a)
		}
	}
	// the window is named after the neighbouring writes of the commit pipeline; a rotation of the
	// WAL head in between is an orthogonal dimension (im.rots, reported as wal-head=...)
	after, before := "start", "end"
	ja, jb := j, j
	for ja > 0 && l.log[ja-1].rot {
		ja--
	}
	for jb < len(l.log) && l.log[jb].rot {
		jb++
	}
	if ja > 0 {
		after = crKindShort(l.log[ja-1])
	}
	if jb < len(l.log) {
		before = crKindShort(l.log[jb])
	} else if ja > 0 {
		// the life was stopped inside a commit pipeline: name the write that would have come next
		last := l.log[ja-1]
		switch {
		case last.wal && strings.HasPrefix(last.kind, "wal:eh:") && last.height > 0:
			before = fmt.Sprintf("binfo(%d)", last.height)
		case last.kind == "binfo" && crArchiveMode:
			before = "trie"
		case last.kind == "binfo":
			before = fmt.Sprintf("head(%d)", last.height)
		case last.kind == "head":
			before = fmt.Sprintf("cstate(%d)", last.height)
		case last.kind == "trie" && ja > 1 && l.log[ja-2].kind == "binfo":
			before = fmt.Sprintf("head(%d)", l.log[ja-2].height)
		}
	}
	im.window = "after:" + after + "/before:" + before
	if j > 0 {
		im.desc = fmt.Sprintf("after durable write #%d = %s [%s]", j-1, crKindShort(l.log[j-1]), l.log[j-1].desc)
	} else {
		im.desc = "before the first durable write"
	}
	return im
}

// ---------------------------------------------------------------------------------------------
// facts read directly from a database (crash image or final state), with rawdb accessors only

type crFacts struct {
	hs     uint64 // block store height: highest contiguous height with a block meta
	hh     int64  // height of the block the head pointer names (-1: no head pointer / dangling)
	hcMax  int64  // highest height with a consensus-state record (-1: none)
	hcHead bool   // consensus-state record present at the head height
	canon  map[uint64]common.Hash
	meta   map[uint64]common.Hash
	app    map[uint64]common.Hash
	hasSt  map[uint64]bool // state trie root of height h present on disk
	gen    bool            // genesis block complete (canonical hash 0 + head pointer + chain config)
}

func crReadFacts(db kaidb.Database) *crFacts {
	f := &crFacts{hh: -1, hcMax: -1, canon: map[uint64]common.Hash{}, meta: map[uint64]common.Hash{}, app: map[uint64]common.Hash{}, hasSt: map[uint64]bool{}}
	crGuard(func() {
		for h := uint64(0); h < 64; h++ {
			bm := rawdb.ReadBlockMeta(db, h)
			if bm == nil {
				if h == 0 {
					continue
				}
				break
			}
			f.meta[h] = bm.BlockID.Hash
			if h > f.hs {
				f.hs = h
			}
		}
		for h := uint64(0); h <= f.hs+1; h++ {
			if c := rawdb.ReadCanonicalHash(db, h); c != (common.Hash{}) {
				f.canon[h] = c
			}
			if a := rawdb.ReadAppHash(db, h); a != (common.Hash{}) {
				f.app[h] = a
				if ok, _ := db.Has(a[:]); ok {
					f.hasSt[h] = true
				}
			}
			if rawdb.ReadConsensusStateHeight(db, h) != nil {
				f.hcMax = int64(h)
			}
		}
		hash := rawdb.ReadHeadBlockHash(db)
		if hash != (common.Hash{}) {
			if n := rawdb.ReadHeaderHeight(db, hash); n != nil {
				f.hh = int64(*n)
				f.hcHead = rawdb.ReadConsensusStateHeight(db, *n) != nil
			}
		}
		_, g0 := f.canon[0]
		f.gen = g0 && f.hh >= 0
	})
	return f
}

// ---------------------------------------------------------------------------------------------
// one restart on a crash image

type crRun struct {
	img      *crImg
	pre      *crFacts // facts of the image
	nd       *crNode
	rec      *crRec
	life     *crLife
	logs     []string
	started  bool
	stage    string
	failCls  string
	hh0      int64  // head height after NewBlockChain's repair
	hc0      int64  // LastBlockHeight of the loaded consensus state (-1: not reached)
	fellBack bool   // Store.Load returned nothing and the genesis state was used although the chain is past genesis
	start    uint64 // consensus start height
	bo0      uint64 // BlockOperations.Height() at start
	replay   string
	repaired bool
	end      string // committed | stuck | dead | wall | notstarted
	endH     uint64
	endR     uint32
	panicCls string
	post     *crFacts
	finalHH  int64
	raced    bool // a step timeout was handled while own messages were still queued: the machine was too slow for this run
	walCheck bool // the replay class the code reported agrees with the #ENDHEIGHT markers of the image file
	walExpect string // the class those markers call for
}

func crRestart(env *crEnv, img *crImg, settle, wall time.Duration) *crRun {
	crLogs.take()
	r := &crRun{img: img, hc0: -1, hh0: -1, finalHH: -1}
	mem := img.db()
	r.pre = crReadFacts(mem)
	r.rec = crNewRec()
	t0 := time.Now()
	nd := crStartNode(env, mem, img.wal, img.rots, r.rec)
	t1 := time.Now()
	r.nd = nd
	r.stage = nd.stage
	r.hh0 = nd.hh0
	if nd.cs != nil {
		r.hc0 = int64(nd.state0.LastBlockHeight)
		r.start = nd.state0.LastBlockHeight + 1
		r.bo0 = nd.boHt
		r.fellBack = nd.state0.LastBlockHeight == 0 && r.hh0 > 0
	}
	if nd.failed != "" {
		r.failCls = crPanicClass(nd.failed)
		if strings.HasPrefix(nd.failed, "error:") {
			r.failCls = "error"
		}
		r.end = "notstarted"
	} else {
		r.started = true
		r.end = nd.runUntil(r.start+1, 2, settle, wall)
	}
	if nd.cs != nil {
		crGuard(func() { r.endH, r.endR, _ = nd.hrs() })
	}
	t2 := time.Now()
	nd.kill()
	t3 := time.Now()
	if nd.wal != nil && atomic.LoadInt32(&nd.wal.raced) != 0 {
		r.raced = true
	}
	r.logs = append(append([]string{}, nd.startLogs...), crLogs.take()...)
	r.life = crLifeOf(r.rec, nd.walBytes())
	// replay outcome as the code reported it
	switch e, bad := crFind(nd.startLogs, "replay-err"); {
	case !r.started && nd.stage != "OnStart":
		r.replay = "-"
	case bad && strings.Contains(e, "wal should not contain #ENDHEIGHT"):
		r.replay = "eh-present"
	case bad && strings.Contains(e, "WAL does not contain #ENDHEIGHT for"):
		r.replay = "no-marker"
	case bad && strings.Contains(e, "below initial height"):
		r.replay = "below-initial"
	case bad:
		r.replay = "other-error"
	default:
		if _, ok := crFind(nd.startLogs, "replay-done"); ok {
			r.replay = "replayed"
		} else {
			r.replay = "aborted"
		}
	}
	// direct check of the reported class against the #ENDHEIGHT markers the image's WAL holds, whatever
	// files of the group they are in (decoded here from the logical record stream, independent of
	// SearchForEndHeight): marker of the start height => "eh-present"; else marker of the previous
	// height (0 for the initial height; BaseWAL.OnStart puts one into an empty head) => replayed; else
	// "no-marker"
	r.walExpect = ""
	if r.replay == "eh-present" || r.replay == "replayed" || r.replay == "no-marker" {
		hasStart, hasPrev, monotone, lastM := false, false, true, int64(0)
		prev := int64(r.start) - 1
		if r.start <= 1 {
			prev = 0
		}
		headEmpty := len(img.wal) == 0 || (len(img.rots) > 0 && img.rots[len(img.rots)-1] == len(img.wal))
		if prev == 0 && headEmpty {
			hasPrev = true
		}
		dec := NewWALDecoder(bytes.NewReader(img.wal))
		for {
			m, err := dec.Decode()
			if err != nil {
				break
			}
			if e, ok := m.Msg.(EndHeightMessage); ok {
				if e.Height != 0 {
					if e.Height <= lastM {
						monotone = false
					}
					lastM = e.Height
				}
				if e.Height == int64(r.start) {
					hasStart = true
				}
				if e.Height == prev {
					hasPrev = true
				}
			}
		}
		switch {
		case hasStart:
			r.walExpect = "eh-present"
		case hasPrev:
			r.walExpect = "replayed"
		default:
			r.walExpect = "no-marker"
		}
		r.walCheck = r.walExpect == r.replay
		if !monotone {
			// heights were run again on this WAL (genesis fallback, rewound head: reported under those
			// causes): SearchForEndHeight is specified for increasing markers only
			r.walCheck = true
		}
		if _, rep := crFind(r.logs, "wal-repaired"); rep || img.tail == "torn" {
			// a torn tail: the first replay pass may have run through a commit before the damage was met;
			// the class then belongs to the next height (see F7 in the report)
			r.walCheck = true
		}
		if !r.walCheck && os.Getenv("C05_DBG") != "" {
			fmt.Printf("DBG replay class %s but the image WAL (%d bytes, cuts %v) says %s for start %d tail=%s window=%s logs=%v\n", r.replay, len(img.wal), img.rots, r.walExpect, r.start, img.tail, img.window, nd.startLogs)
		}
	} else {
		r.walCheck = true
	}
	if _, ok := crFind(r.logs, "wal-repaired"); ok {
		r.repaired = true
	}
	if e, ok := crFind(r.logs, "consensus-failure"); ok {
		r.panicCls = crPanicClass(e)
		if r.panicCls == "other" && os.Getenv("C05_LOG") != "" {
			fmt.Println("PANIC-TEXT", strings.Split(e, "\n")[0])
		}
	} else if _, ok := crFind(r.logs, "applyblock-err"); ok {
		r.panicCls = "applyblock-error"
	} else {
		r.panicCls = "-"
	}
	r.post = crReadFacts(mem)
	if nd.bc != nil {
		crGuard(func() { r.finalHH = int64(nd.bc.CurrentBlock().Height()) })
	}
	nd.cleanup()
	if os.Getenv("C05_TIME") != "" {
		fmt.Printf("TIME start=%v run=%v kill=%v total=%v failed=%q\n", t1.Sub(t0), t2.Sub(t1), t3.Sub(t2), time.Since(t0), strings.Split(nd.failed, "\n")[0])
	}
	return r
}

// runUntil lets the started node run until its consensus height reaches h ("committed"), it exceeds
// maxRound at one height ("stuck"), its receive routine dies ("dead"), it HANGS ("wall": for the
// whole settle period nothing was queued, nothing was being handled, no timeout was waiting in the
// relay, and height/round/step, the durable-write log, the WAL records, the signatures and the
// number of scheduled timeouts did not change - no real-time wait of the node is involved, every
// timeout is logical), or the wall-clock bound passes while the node is NOT hung ("slow": the
// machine, never reported).
func (nd *crNode) runUntil(h uint64, maxRound uint32, settle, wall time.Duration) string {
	deadline := time.After(wall)
	tick := time.NewTicker(time.Millisecond)
	defer tick.Stop()
	last, since := "", time.Now()
	for {
		if nd.dead() {
			return "dead"
		}
		ch, cr, st := nd.hrs()
		if ch >= h {
			return "committed"
		}
		if cr > maxRound {
			return "stuck"
		}
		nd.rec.mu.Lock()
		snap := fmt.Sprintf("%d/%d/%d %d %d %d %d", ch, cr, st, len(nd.rec.log), len(nd.rec.recs), len(nd.rec.sigs), atomic.LoadInt64(&nd.tk.nsched))
		nd.rec.mu.Unlock()
		if snap != last || atomic.LoadInt32(&nd.tk.held) != 0 || !nd.tk.quiescent() {
			last, since = snap, time.Now()
		} else if time.Since(since) > settle {
			return "wall"
		}
		select {
		case <-deadline:
			return "slow"
		case <-nd.rec.notify:
		case <-tick.C:
		}
	}
}

// ---------------------------------------------------------------------------------------------
// signatures after the restart against what was published before the crash

func crBidKey(b types.BlockID) string {
	if b.Hash.IsZero() && b.PartsHeader.IsZero() {
		return "nil"
	}
	return fmt.Sprintf("%x/%d/%x", b.Hash[:], b.PartsHeader.Total, b.PartsHeader.Hash[:])
}

func crSigKey(proposal bool, typ int, h uint64, rd uint32) string {
	if proposal {
		return fmt.Sprintf("p:%d:%d", h, rd)
	}
	return fmt.Sprintf("v%d:%d:%d", typ, h, rd)
}

type crSigRel struct {
	key  string
	rel  string // = same value as published, ! conflicts with a published one, + nothing published at this (h, r, type)
	sig  crSig
	prev string
}

func crRelate(pub []crActed, sigs []crSig) []crSigRel {
	m := map[string]string{}
	for _, a := range pub {
		m[crSigKey(a.proposal, a.typ, a.height, a.round)] = crBidKey(a.bid)
	}
	var out []crSigRel
	for _, s := range sigs {
		k := crSigKey(s.proposal, s.typ, s.height, s.round)
		rel := "+"
		prev, ok := m[k]
		if ok {
			if prev == crBidKey(s.bid) {
				rel = "="
			} else {
				rel = "!"
			}
		}
		out = append(out, crSigRel{key: k, rel: rel, sig: s, prev: prev})
	}
	return out
}

// ---------------------------------------------------------------------------------------------
// a case: one scenario, its first life, every crash point, sampled second crashes

func (e *crEnv) makeTx(user int, nonce uint64) *types.Transaction {
	to := common.BytesToAddress([]byte{0xc0, 0x05, byte(user)})
	tx := types.NewTransaction(nonce, to, big.NewInt(1000+int64(nonce)), 100000, big.NewInt(1000000000), nil)
	stx, err := types.SignTx(types.HomesteadSigner{}, tx, e.userKey[user].GetPrivKey())
	if err != nil {
		panic(err)
	}
	return stx
}

type crCase struct {
	o        *crOut
	r        *crRand
	env      *crEnv
	opNo     int
	life0    *crLife
	facts0   *crFacts // final facts of the first life (the twin)
	appFixed bool     // a genesis state reloaded at height 0 equals MakeGenesisState's (app hash)
	thorough bool
	stuckConfirmed int // restarted nodes of this case that made no progress within 8 s, 45 s and 120 s
}

func crB(b bool) int {
	if b {
		return 1
	}
	return 0
}

func crFactsS(f *crFacts) string {
	var st []string
	for h := uint64(0); h <= f.hs+1; h++ {
		if f.hasSt[h] {
			st = append(st, fmt.Sprint(h))
		}
	}
	s := "-"
	if len(st) > 0 {
		s = strings.Join(st, ",")
	}
	return fmt.Sprintf("hs=%d hh=%d hc=%d hcHead=%d st=%s", f.hs, f.hh, f.hcMax, crB(f.hcHead), s)
}

// sigs of the height the restarted node starts at (up to its next commit)
func crSigsOf(rels []crSigRel, start uint64) []crSigRel {
	var l []crSigRel
	for _, x := range rels {
		if x.sig.height <= start {
			l = append(l, x)
		}
	}
	return l
}

func crSigsS(rels []crSigRel, withRel bool) string {
	if len(rels) == 0 {
		return "-"
	}
	var l []string
	for _, x := range rels {
		v := "b"
		if x.sig.bid.Hash.IsZero() {
			v = "n"
		}
		if withRel {
			v += x.rel
		}
		l = append(l, x.key+v)
	}
	return strings.Join(l, ",")
}

// replaced: what happened to the block stored at the start height
func crReplaced(r *crRun) string {
	h := r.start
	was, ok := r.pre.meta[h]
	if !ok || h == 0 {
		return "-"
	}
	var l []string
	if now, ok2 := r.post.meta[h]; ok2 && now != was {
		l = append(l, "meta")
	}
	if cn, ok3 := r.post.canon[h]; ok3 && cn != was {
		l = append(l, "canon")
	}
	if len(l) == 0 {
		return "-"
	}
	return strings.Join(l, "+")
}

// observe prints the observable line of one restart
func (c *crCase) observe(r *crRun, rels []crSigRel, withRel bool) string {
	st := "ok"
	if !r.started {
		st = "FAIL@" + r.stage + ":" + r.failCls
	}
	hhE := fmt.Sprint(r.finalHH)
	if r.started && r.finalHH >= int64(r.start) {
		hhE = "start"
	}
	return fmt.Sprintf("I %s | R %s hh=%d hc=%d start=%d bo=%d replay=%s repaired=%d | E %s panic=%s head=%s repl=%s | S %s",
		crFactsS(r.pre), st, r.hh0, r.hc0, r.start, r.bo0, r.replay, crB(r.repaired),
		r.end, r.panicCls, hhE, crReplaced(r), crSigsS(rels, withRel))
}

// cause: the narrow root-cause tag of a run, from what the restart observed
func (c *crCase) cause(r *crRun) string {
	pubAt1 := false
	for _, a := range r.img.pub {
		if a.height == 1 {
			pubAt1 = true
		}
	}
	switch {
	case len(r.pre.canon) > 0 && r.pre.hs == 0 && (r.pre.hh < 0 || r.pre.app[0] == (common.Hash{})):
		return "genesis-commit-not-atomic"
	case r.pre.hh < 0 && r.pre.hs > 0:
		// the head pointer names a block that was never saved: left behind by a life that ran on the
		// genesis fallback and applied a re-created block (SaveBlock skipped as "already stored")
		return "genesis-fallback"
	case r.fellBack:
		return "genesis-fallback"
	case r.pre.hh >= 0 && r.hh0 >= 0 && r.hh0 < r.pre.hh:
		return "head-rewound"
	case r.hc0 >= 0 && r.hh0 >= 0 && r.hc0 < r.hh0:
		return "cstate-behind-head"
	case !c.appFixed && r.hc0 == 0 && r.pre.hcMax >= 0 && pubAt1 && r.replay != "eh-present":
		return "genesis-apphash"
	case r.replay == "eh-present":
		return "endheight-without-state"
	case r.repaired && r.replay == "no-marker":
		// the first replay pass ran through the commit before the torn tail was met (see F7 in the report)
		return "replay-resign"
	case r.replay == "no-marker":
		return "wal-marker-missing"
	case r.replay == "replayed" && r.start == 1 && len(r.img.rots) > 0 && r.img.rots[len(r.img.rots)-1] == len(r.img.wal) && len(r.img.pub) > 0:
		// the WAL head was rotated away in the initial height and not written again before the crash:
		// BaseWAL.OnStart put a fresh #ENDHEIGHT 0 into the new head, the search for marker 0 (newest file
		// first) stopped there and nothing of height 1 was replayed although own messages were published
		return "initial-height-marker-shadowed"
	case r.replay == "replayed":
		return "replay-resign"
	}
	return "other"
}

// oracles: the property itself, checked on one restart against the life before the crash
func (c *crCase) oracles(r *crRun, rels []crSigRel, twin *crFacts, inherited string) {
	img := r.img
	mode := "keep-recent"
	if c.env.sc.archive {
		mode = "flush-every-block"
	}
	cause := c.cause(r)
	own := false
	switch cause {
	case "genesis-fallback", "head-rewound", "genesis-commit-not-atomic":
		// the restarted node is in one of these situations itself: that is the root cause, whatever
		// the first crash was
		own = true
	}
	if inherited != "" && !own {
		cause = inherited
	}
	win, second := img.window, 0
	if img.w1 != "" {
		// second crash: the window that determines the root cause
		second = 1
		win = img.w2
		switch {
		case own && cause == "genesis-fallback":
			// the crash between head batch and consensus-state batch, in whichever life it happened
			if !strings.HasPrefix(img.w2, "after:head(") {
				win = img.w1
			}
		case own && cause == "genesis-commit-not-atomic":
			win = img.w1
		case own:
		case inherited != "":
			win = img.w1
		}
	}
	ctx := fmt.Sprintf("cause=%s mode=%s window=%s tail=%s second-crash=%d", cause, mode, win, img.tail, second)
	at := fmt.Sprintf(" wal-files=%d wal-head=%s crash-point=\"%s\"", len(img.rots)+1, img.headState(), img.desc)
	fail := func(class, more string) {
		c.o.Fail(c.opNo, class, fmt.Sprintf("%s %s%s", ctx, more, at))
		c.o.Count("oracle:" + class + ":" + cause)
	}
	// (1) starts without manual repair
	if !r.started {
		fail("restart-fails", fmt.Sprintf("stage=%s failure=%s pre[%s]", r.stage, r.failCls, crFactsS(r.pre)))
		return
	}
	// (2) the stores agree on one chain prefix, a prefix of what had been committed
	if r.hc0 != r.hh0 {
		fail("stores-diverge", fmt.Sprintf("head=%d consensus-state=%d block-store=%d start-height=%d", r.hh0, r.hc0, r.pre.hs, r.start))
	} else if r.hh0 >= 0 && uint64(r.hh0) > r.pre.hs {
		fail("stores-diverge", fmt.Sprintf("head=%d above block-store=%d", r.hh0, r.pre.hs))
	}
	for h := uint64(1); h <= r.pre.hs; h++ {
		was, ok := r.pre.meta[h]
		if !ok {
			continue
		}
		now, ok2 := r.post.meta[h]
		cn, ok3 := r.post.canon[h]
		if (ok2 && now != was) || (ok3 && cn != was) {
			fail("block-replaced", fmt.Sprintf("height=%d meta-changed=%v canonical-changed=%v", h, ok2 && now != was, ok3 && cn != was))
		}
	}
	// (3) no conflicting signature; no committed height decided differently; no finished height run again
	decided := map[uint64]string{}
	for _, a := range img.pub {
		if a.vote && a.typ == int(kproto.PrecommitType) && !a.bid.Hash.IsZero() {
			decided[a.height] = crBidKey(a.bid)
		}
	}
	seen := map[string]bool{}
	for _, x := range rels {
		if x.rel == "!" && !seen[x.key] {
			seen[x.key] = true
			// a conflicting vote is added to the vote set and gossiped; a conflicting proposal is adopted
			// (and gossiped) unless the logged one was replayed before it (setProposal keeps the first)
			kind := "vote"
			published := "published-again"
			if x.sig.proposal {
				kind = "proposal"
				if r.replay == "replayed" || (r.repaired && r.replay == "no-marker") {
					published = "replayed-original-wins"
					// ... unless the node went on to prevote the NEW block in that round: then the new
					// proposal is the one it holds (nothing was replayed before it)
					for _, y := range rels {
						if !y.sig.proposal && y.sig.typ == int(kproto.PrevoteType) && y.sig.height == x.sig.height && y.sig.round == x.sig.round &&
							crBidKey(y.sig.bid) == crBidKey(x.sig.bid) {
							published = "published-again"
						}
					}
				}
			}
			fail("double-sign", fmt.Sprintf("what=%s key=%s %s start-height=%d replay=%s", kind, x.key, published, r.start, r.replay))
		}
		if !x.sig.proposal && x.sig.typ == int(kproto.PrecommitType) && !x.sig.bid.Hash.IsZero() {
			if d, ok := decided[x.sig.height]; ok && d != crBidKey(x.sig.bid) && !seen["d"+fmt.Sprint(x.sig.height)] {
				seen["d"+fmt.Sprint(x.sig.height)] = true
				fail("height-redecided", fmt.Sprintf("height=%d start-height=%d", x.sig.height, r.start))
			}
		}
	}
	for _, x := range rels {
		if r.pre.hh >= 0 && x.sig.height <= uint64(r.pre.hh) && !seen["r"] {
			seen["r"] = true
			fail("height-rerun", fmt.Sprintf("signs at height=%d although the head before the restart was %d (block-store %d)", x.sig.height, r.pre.hh, r.pre.hs))
		}
	}
	// (4) flush-every-block: nothing lost, continues like the twin
	if c.env.sc.archive {
		if r.hh0 >= 0 && r.pre.hh >= 0 && r.hh0 < r.pre.hh {
			fail("block-lost", fmt.Sprintf("head %d -> %d at start", r.pre.hh, r.hh0))
		}
		if r.finalHH >= 0 && r.pre.hh >= 0 && r.finalHH < r.pre.hh {
			fail("block-lost", fmt.Sprintf("head %d -> %d after the recovery run", r.pre.hh, r.finalHH))
		}
		for h := uint64(1); h <= r.pre.hs; h++ {
			if _, ok := r.post.meta[h]; !ok {
				fail("block-lost", fmt.Sprintf("height=%d meta gone", h))
			}
		}
		if r.end != "committed" {
			fail("diverges-from-twin", fmt.Sprintf("no-progress end=%s panic=%s start-height=%d end-height=%d", r.end, r.panicCls, r.start, r.endH))
		} else {
			// the twin is at height (committed blocks)+1; a restarted node must resume there
			if want := r.pre.hs; r.start != want && r.start != want+1 {
				fail("diverges-from-twin", fmt.Sprintf("start-height=%d twin-height-in=[%d,%d]", r.start, want, want+1))
			}
			for h := uint64(1); h <= r.post.hs; h++ {
				if a, ok := r.post.app[h]; ok {
					if ta, ok2 := twin.app[h]; ok2 && r.post.meta[h] == twin.meta[h] && ta != a {
						fail("diverges-from-twin", fmt.Sprintf("app-hash differs at height=%d for the same block", h))
					}
				}
			}
		}
	} else if r.end == "dead" {
		// keep-recent mode: dropping blocks is allowed, dying is not
		fail("restart-fails", fmt.Sprintf("stage=running failure=dies-%s start-height=%d head=%d block-store=%d", r.panicCls, r.start, r.hh0, r.pre.hs))
	} else if r.end != "committed" {
		fail("no-progress", fmt.Sprintf("end=%s start-height=%d head=%d block-store=%d", r.end, r.start, r.hh0, r.pre.hs))
	}
}

func (c *crCase) step(in string, img *crImg, withRel bool, inherited string) (*crRun, string) {
	if img.nrecs >= 0 {
		// the recorder's record offsets must describe the image file (they are what the model is told)
		n := 0
		dec := NewWALDecoder(bytes.NewReader(img.wal))
		for {
			if _, err := dec.Decode(); err != nil {
				break
			}
			n++
		}
		if n != img.nrecs {
			c.o.Count("harness:offset-glitch-op-skipped")
			if img.tail == "synced" {
				c.o.Fail(c.opNo, "harness-wal-offsets", fmt.Sprintf("cause=harness decoded=%d recorded=%d window=%s", n, img.nrecs, img.window))
			}
			return nil, ""
		}
	}
	// No outcome depends on how fast the machine is: the node's timeouts are logical (crTicker), and
	// the outcomes decided by waiting are re-probed before they are believed:
	//  - "wall" (the node hangs: quiescent and unchanged for 3 s) is confirmed by a second run that
	//    must stay quiescent and unchanged for 15 s before it is reported;
	//  - "slow" (the wall-clock bound passed while the node was still working) is never reported:
	//    the run is repeated with a ten times longer bound, and the op is dropped if that is not enough;
	//  - a step timeout handled while own messages were queued (cannot happen with the logical
	//    ticker; kept as a tripwire): the run is discarded and repeated, never reported;
	//  - a replay class that disagrees with the WAL of the image is checked on a second run.
	var r *crRun
	settle, wall := 3*time.Second, 60*time.Second
	races, walls, slows, rechecks := 0, 0, 0, 0
	for {
		r = crRestart(c.env, img, settle, wall)
		if r.raced {
			c.o.Count("harness:step-timeout-raced-run-repeated")
			if races++; races > 2 {
				c.o.Count("harness:timing-unstable-op-skipped")
				return nil, ""
			}
			continue
		}
		if r.end == "slow" {
			c.o.Count("harness:slow-run-repeated")
			if slows++; slows > 1 {
				c.o.Count("harness:timing-unstable-op-skipped")
				return nil, ""
			}
			wall = 600 * time.Second
			continue
		}
		if r.end == "wall" && walls == 0 {
			if c.stuckConfirmed >= 3 {
				// three nodes of this case were confirmed hung (and reported) already
				c.o.Count("harness:hung-op-skipped-after-three-confirmed")
				return nil, ""
			}
			c.o.Count("harness:hung-run-confirmed-by-second-run")
			walls++
			settle = 15 * time.Second
			continue
		}
		if !r.walCheck && rechecks == 0 {
			c.o.Count("harness:restart-repeated")
			rechecks++
			continue
		}
		break
	}
	if r.end == "wall" {
		c.stuckConfirmed++
	}
	if !r.walCheck {
		// the WAL of the image holds the marker (or not) and catchupReplay said otherwise
		c.o.Fail(c.opNo, "replay-class-vs-wal", fmt.Sprintf("cause=wal-marker-search reported=%s wal-holds=%s start-height=%d wal-files=%d window=%s tail=%s crash-point=\"%s\"", r.replay, r.walExpect, r.start, len(img.rots)+1, img.window, img.tail, img.desc))
		c.o.Count("oracle:replay-class-vs-wal")
	}
	all := crRelate(img.pub, r.life.sigs)
	c.oracles(r, all, c.facts0, inherited)
	rels := crSigsOf(all, r.start)
	obs := c.observe(r, rels, withRel)
	if r.nd.poolRefused {
		// the model is told that this node's pool was empty
		in += " np"
		c.o.Count("pool:new-transaction-refused")
	}
	c.o.Op(in, obs)
	c.o.Count("end:" + r.end)
	c.o.Count("replay:" + r.replay)
	c.o.Count("tail:" + img.tail)
	cause := c.cause(r)
	c.o.Count("cause:" + cause)
	w := strings.NewReplacer("0", "", "1", "", "2", "", "3", "", "4", "", "5", "", "6", "", "7", "", "8", "", "9", "").Replace(img.window)
	c.o.Mark(fmt.Sprintf("%v|%s|%s|%s|%s|%s|%s", c.env.sc.archive, w, img.tail, r.end, r.replay, cause, img.headState()))
	if len(img.rots) > 0 {
		c.o.Count("wal-head:" + img.headState())
	}
	c.opNo++
	if os.Getenv("C05_DUMP") != "" {
		fmt.Printf("%-14s %-50s %s\n", in, img.window, obs)
	}
	return r, cause
}

// crNRecs: number of complete records of life l within the first n bytes of its WAL file
func crNRecs(l *crLife, n int) int {
	c := 0
	for _, rc := range l.recs {
		if rc.end <= n {
			c++
		}
	}
	return c
}

// crCuts: the rotation offsets of an image as record counts (a cut after that many records of the
// image's record list: n0 records of the base life, then the records of the recovering life)
func crCuts(img *crImg, l0 *crLife, n0 int, l1 *crLife) string {
	if len(img.rots) == 0 {
		return "-"
	}
	var c []string
	for _, off := range img.rots {
		n := crNRecs(l0, off)
		if n > n0 {
			n = n0
		}
		if l1 != nil {
			n += crNRecs(l1, off)
		}
		c = append(c, fmt.Sprint(n))
	}
	return strings.Join(c, ",")
}

// crLifeLines: a life for the model: its WAL records and its durable writes
func crLifeLines(o *crOut, id int, parent string, l *crLife, baseRecs int) {
	var ks []string
	for _, rc := range l.recs {
		t := rc.tok
		if i := strings.Index(t, ":#"); i >= 0 {
			// block hash -> does the block carry transactions
			t = fmt.Sprintf("%s:%d", t[:i], crB(crTxsOf(common.HexToHash(t[i+2:])) > 0))
		}
		ks = append(ks, t)
	}
	o.InOnly(fmt.Sprintf("LIFE %d %s %d %d", id, parent, len(l.log), len(l.recs)))
	o.InOnly("RECS " + strings.Join(ks, " "))
	for _, w := range l.log {
		if w.rot {
			o.InOnly(fmt.Sprintf("W rot %d", crNRecs(l, w.walLen)))
		} else if w.wal {
			o.InOnly(fmt.Sprintf("W wal %d", crNRecs(l, w.walLen)))
		} else {
			o.InOnly(fmt.Sprintf("W db %s %d %d", w.kind, w.height, w.aux))
		}
	}
}

func crRunCase(o *crOut, idx int, r *crRand, tier string) {
	sc := crScenario{archive: idx%2 == 0, snapshot: (idx/2)%2 == 0, heights: 3, txAt: map[uint64]int{}}
	if tier == "thorough" {
		sc.heights = 4 + r.Intn(3)
	}
	switch (idx / 4) % 3 {
	case 0:
		sc.txAt[2] = 2 // txs while the node is in height 2
	case 1:
		sc.txAt[1] = 1
		sc.txAt[uint64(sc.heights)] = 2
	case 2: // only empty blocks
	}
	if tier == "thorough" && idx >= 12 {
		for h := uint64(1); h <= uint64(sc.heights); h++ {
			sc.txAt[h] = r.Intn(3)
		}
	}
	if idx%8 >= 6 {
		// WAL rotation family: a small head size limit, checked (as the group's ticker would) between any
		// two WAL writes.  Crash points right after a rotation leave a group WITHOUT head: the restart
		// writes #ENDHEIGHT 0 into a new head and must find the real markers in the rotated files.
		sc.archive = idx%16 != 15 // flush-every-block, where a restart resumes at the crash height
		sc.snapshot = false
		if idx%8 == 6 {
			sc.rotLimit = 1 // every fsync is followed by a rotation: each file holds one fsynced record
		} else {
			sc.rotLimit = int64(700 + r.Intn(5000)) // a file holds the records of part of a height up to several heights
			sc.repool = true                         // and the restarted node's pool is not empty: replay must hold at EVERY height
			if tier != "thorough" || idx < 12 {
				sc.txAt = map[uint64]int{2: 1}
			}
		}
	}
	env := crNewEnv(sc)
	crArchiveMode = sc.archive
	c := &crCase{o: o, r: r, env: env, thorough: tier == "thorough"}
	// does a genesis state reloaded at height 0 equal the one MakeGenesisState builds?
	{
		db := memorydb.New()
		gs := env.genesis()
		if _, _, err := genesis.SetupGenesisBlock(db, gs); err != nil {
			panic(err)
		}
		st := cstate.NewStore(db)
		a, _ := st.LoadStateFromDBOrGenesisDoc(gs)
		b := st.Load()
		c.appFixed = a.AppHash == b.AppHash
	}

	// ---- first life
	crLogs.take()
	rec := crNewRec()
	// the first life runs height by height: the transactions of height h are pending in the pool
	// before the node enters height h (no race between the pool and the proposer)
	env.gated = true
	nd := crStartNode(env, memorydb.New(), nil, nil, rec)
	env.gated = false
	if nd.failed != "" {
		o.Case(idx, fmt.Sprintf("CASE %d %d %d %d %d %d %d", idx, crB(sc.archive), crB(sc.snapshot), sc.heights, crB(c.appFixed), sc.rotLimit, crB(sc.repool)))
		o.Fail(0, "first-start-fails", fmt.Sprintf("cause=stage-%s-%s %s", nd.stage, crPanicClass(nd.failed), strings.Split(nd.failed, "\n")[0]))
		nd.kill()
		return
	}
	nonce := [2]uint64{}
	stopped := ""
	for h := uint64(1); h <= uint64(sc.heights); h++ {
		mined := nonce
		for i := 0; i < sc.txAt[h]; i++ {
			u := i % 2
			if err := nd.txPool.AddLocal(env.makeTx(u, nonce[u])); err != nil {
				o.Fail(0, "harness-tx-rejected", err.Error())
			}
			nonce[u]++
		}
		// the pool drops mined transactions and promotes new ones asynchronously: wait for the event
		// (pending = exactly the transactions of this height), not for a duration
		for t0 := time.Now(); time.Since(t0) < 120*time.Second; time.Sleep(200 * time.Microsecond) {
			okp := true
			for u := range nonce {
				pend, _ := nd.txPool.ContentFrom(env.userKey[u].GetAddress())
				if uint64(len(pend)) != nonce[u]-mined[u] || (len(pend) > 0 && pend[0].Nonce() != mined[u]) {
					okp = false
				}
			}
			if okp {
				break
			}
		}
		nd.tk.release(h)
		e := nd.runUntil(h+1, 2, 5*time.Second, 600*time.Second)
		if e == "wall" {
			e = nd.runUntil(h+1, 2, 20*time.Second, 600*time.Second) // hung: confirmed over a longer period before it is reported
		}
		if e != "committed" {
			logs := crLogs.take()
			pc := "-"
			if x, ok := crFind(logs, "consensus-failure"); ok {
				pc = crPanicClass(x) + ": " + strings.Split(x, "\n")[0]
			}
			stopped = fmt.Sprintf("cause=first-life-%s at-height=%d panic=%s", e, h, pc)
			break
		}
	}
	if stopped == "" {
		// into the first messages of the next height: until the node has signed its proposal and
		// prevote there (or hangs)
		nd.rec.mu.Lock()
		n0 := len(nd.rec.sigs)
		nd.rec.mu.Unlock()
		nd.tk.release(uint64(sc.heights) + 1)
		for t0 := time.Now(); time.Since(t0) < 60*time.Second; {
			nd.rec.mu.Lock()
			n := len(nd.rec.sigs)
			nd.rec.mu.Unlock()
			if n >= n0+2 || nd.dead() {
				break
			}
			time.Sleep(200 * time.Microsecond)
		}
	}
	nd.kill()
	c.life0 = crLifeOf(rec, nd.walBytes())
	c.facts0 = crReadFacts(nd.db.inner)
	l := c.life0
	o.Case(idx, fmt.Sprintf("CASE %d %d %d %d %d %d %d", idx, crB(sc.archive), crB(sc.snapshot), sc.heights, crB(c.appFixed), sc.rotLimit, crB(sc.repool)))
	o.Count(fmt.Sprintf("mode:archive=%v,snapshot=%v", sc.archive, sc.snapshot))
	if sc.repool {
		o.Count("pool:new-transaction-after-restart")
	}
	if sc.rotLimit > 0 {
		o.Count("wal:rotating-head")
		if sc.rotLimit == 1 {
			o.Count("wal:rotation-after-every-fsync")
		}
	}
	if stopped != "" {
		o.Fail(0, "first-life-stops", stopped)
	}
	// own messages must be durable before they are acted upon (write-ahead discipline)
	for _, a := range l.acted {
		if !a.durable {
			o.Fail(0, "own-msg-not-durable", fmt.Sprintf("cause=acted-before-fsync key=%s", crSigKey(a.proposal, a.typ, a.height, a.round)))
		}
	}
	// the commit pipeline must save the block before #ENDHEIGHT and the state after it
	c.pipelineOracle(l)
	crLifeLines(o, 0, "-", l, 0)
	for _, w := range l.log {
		o.Count("write:" + w.kind)
	}
	if os.Getenv("C05_DUMP") != "" {
		for i, w := range l.log {
			fmt.Printf("#%d %s %d [%s]\n", i, w.kind, w.height, w.desc)
		}
	}
	base := &crImg{}
	type pick struct {
		k     int
		run   *crRun
		img   *crImg
		cause string
	}
	var picks []pick
	lastH := uint64(0)
	for _, w := range l.log {
		if w.kind == "cstate" && w.height > lastH {
			lastH = w.height
		}
	}
	variantsFrom := len(l.log)
	for i, w := range l.log {
		if w.kind == "cstate" && w.height+2 == lastH+1 { // the last two heights
			variantsFrom = i
		}
	}
	for k := 0; k <= len(l.log); k++ {
		img := crCut(base, l, k, "synced")
		img.nrecs = crNRecs(l, len(img.wal))
		run, cause := c.step(fmt.Sprintf("K %d synced %d %s", k, img.nrecs, crCuts(img, l, img.nrecs, nil)), img, true, "")
		if run == nil {
			continue
		}
		picks = append(picks, pick{k, run, img, cause})
		if !c.thorough && k < variantsFrom {
			continue
		}
		// the same crash point with the unsynced WAL tail surviving / torn
		if b := crCut(base, l, k, "buffered"); len(b.wal) != len(img.wal) {
			b.nrecs = crNRecs(l, len(b.wal))
			c.step(fmt.Sprintf("K %d buffered %d %s", k, b.nrecs, crCuts(b, l, b.nrecs, nil)), b, true, "")
			if t := crCut(base, l, k, "torn"); t.tail == "torn" {
				t.nrecs = crNRecs(l, len(t.wal))
				c.step(fmt.Sprintf("K %d torn %d %s", k, t.nrecs, crCuts(t, l, t.nrecs, nil)), t, true, "")
			}
		}
	}
	// ---- second crash: crash the recovering node again
	want := 5
	if c.thorough {
		want = 14
	}
	if sc.repool {
		// the model predicts one recovery from original blocks; a second recovery from the blocks of a
		// first recovery that had a non-empty pool (rounds decided nil, proposals of later rounds) is
		// covered in the cases with an empty pool only
		want = 0
		o.Count("second-crash:not-run-in-new-transaction-case")
	}
	seenW := map[string]bool{}
	var chosen []pick
	for i := len(picks) - 1; i >= 0 && len(chosen) < want; i-- {
		p := picks[i]
		w := strings.NewReplacer("0", "", "1", "", "2", "", "3", "", "4", "", "5", "", "6", "", "7", "", "8", "", "9", "").Replace(p.img.window)
		if seenW[w] || !p.run.started || p.run.repaired || len(p.run.life.log) == 0 {
			continue
		}
		seenW[w] = true
		chosen = append(chosen, p)
	}
	for n, p := range chosen {
		l1 := p.run.life
		crLifeLines(o, n+1, fmt.Sprint(p.k), l1, 0)
		inh := ""
		switch p.cause {
		case "genesis-fallback", "head-rewound", "endheight-without-state", "genesis-apphash", "cstate-behind-head":
			inh = p.cause
		}
		for j := 1; j <= len(l1.log); j++ {
			if !c.thorough && len(l1.log) > 8 && j%2 == 0 && j != len(l1.log) {
				continue
			}
			img2 := crCut(p.img, l1, j, "synced")
			img2.w1, img2.w2 = p.img.window, img2.window
			img2.window = "2nd:" + p.img.window + "+" + img2.window
			img2.desc = p.img.desc + "; restarted; second crash " + img2.desc
			img2.nrecs = crNRecs(l, len(p.img.wal)) + crNRecs(l1, len(img2.wal))
			n0 := crNRecs(l, len(p.img.wal))
			c.step(fmt.Sprintf("X %d %d %d synced %d %d %s", n+1, p.k, j, n0, crNRecs(l1, len(img2.wal)), crCuts(img2, l, n0, l1)), img2, false, inh)
		}
	}
}

// pipelineOracle: direct check of the order of the durable writes of every finished height:
// own proposal, prevote and precommit fsynced; then the block batch; then #ENDHEIGHT; then the
// application writes, the head pointer and the consensus-state record, in this order.
func (c *crCase) pipelineOracle(l *crLife) {
	pos := map[string]int{}
	for i, w := range l.log {
		if w.height > 0 && !w.wal {
			pos[fmt.Sprintf("%s:%d", w.kind, w.height)] = i
		}
		if w.wal && strings.HasPrefix(w.kind, "wal:eh:") {
			pos[fmt.Sprintf("eh:%d", w.height)] = i
		}
	}
	for h := uint64(1); h <= 64; h++ {
		cs, ok := pos[fmt.Sprintf("cstate:%d", h)]
		if !ok {
			break
		}
		b, ok1 := pos[fmt.Sprintf("block:%d", h)]
		e, ok2 := pos[fmt.Sprintf("eh:%d", h)]
		bi, ok3 := pos[fmt.Sprintf("binfo:%d", h)]
		hd, ok4 := pos[fmt.Sprintf("head:%d", h)]
		if !(ok1 && ok2 && ok3 && ok4) {
			c.o.Fail(0, "pipeline-order", fmt.Sprintf("cause=missing-write height=%d block=%v endheight=%v binfo=%v head=%v", h, ok1, ok2, ok3, ok4))
			continue
		}
		if !(b < e && e < bi && bi < hd && hd < cs) {
			c.o.Fail(0, "pipeline-order", fmt.Sprintf("cause=order height=%d block@%d endheight@%d binfo@%d head@%d cstate@%d", h, b, e, bi, hd, cs))
		}
		// the precommit that decided h must be durable before the block batch
		okv := false
		for _, a := range l.acted {
			if a.vote && a.typ == int(kproto.PrecommitType) && a.height == h && a.durable && a.at <= b {
				okv = true
			}
		}
		if !okv {
			c.o.Fail(0, "pipeline-order", fmt.Sprintf("cause=precommit-not-durable-before-block height=%d", h))
		}
	}
}

func TestVerifC05(t *testing.T) {
	if *crFactsFlag != "" {
		os.WriteFile(*crFactsFlag, []byte("(* C05 has no source-derived facts *)\n"), 0o644)
		return
	}
	log.Root().SetHandler(crLogs.handler())
	configs.AddDefaultContract()
	if *crDir == "" {
		t.Skip("-out required")
	}
	rule := "a case is one scenario (state-cache mode, snapshot on/off, heights, transactions per height); an op is one crash image (prefix of the durable-write log x WAL tail variant, or a second crash during recovery) restarted on a new node; distinct = (mode, window between two durable writes, tail, end class, replay class, root cause)"
	if *crOnly < 0 && *crN > 1 && os.Getenv("C05_CHILD") == "" {
		crFanOut(t, rule)
		return
	}
	o := crOpen(*crDir)
	o.rule = rule
	root := crNewRand(*crSeed)
	for i := 0; i < *crN; i++ {
		if *crOnly >= 0 && *crOnly != i {
			continue
		}
		crRunCase(o, i, root.Fork(uint64(i)), *crTier)
	}
	o.Close()
	if crTmpRoot != "" {
		os.RemoveAll(crTmpRoot)
	}
}

// crFanOut runs every case in its own process (the log capture and the node are process-wide)
// and concatenates the outputs in case order.
func crFanOut(t *testing.T, rule string) {
	par := 6
	if *crTier == "thorough" {
		par = 1 // sixteen shards run at once in that tier; a loaded machine makes the 2 s propose timeout fire
	}
	if par > *crN {
		par = *crN
	}
	type res struct {
		i   int
		err error
		out []byte
	}
	sem := make(chan struct{}, par)
	done := make(chan res, *crN)
	for i := 0; i < *crN; i++ {
		i := i
		go func() {
			sem <- struct{}{}
			defer func() { <-sem }()
			dir := filepath.Join(*crDir, fmt.Sprintf("case_%d", i))
			cmd := exec.Command(os.Args[0], "-test.run", "TestVerifC05", "-test.timeout", "0", "-seed", fmt.Sprint(*crSeed), "-n", fmt.Sprint(*crN),
				"-only", fmt.Sprint(i), "-out", dir, "-tier", *crTier)
			cmd.Env = append(os.Environ(), "C05_CHILD=1")
			out, err := cmd.CombinedOutput()
			done <- res{i, err, out}
		}()
	}
	for n := 0; n < *crN; n++ {
		r := <-done
		if r.err != nil {
			t.Fatalf("case %d: %v\n%s", r.i, r.err, r.out)
		}
		if os.Getenv("C05_DBG") != "" {
			os.Stdout.Write(r.out)
		}
	}
	os.MkdirAll(*crDir, 0o755)
	dist := map[string]int{}
	keys := map[string]bool{}
	var samples []string
	cases, ops, fails := 0, 0, 0
	var bufs [3]*os.File
	for n, name := range []string{"in.txt", "impl.txt", "oracle.txt"} {
		f, err := os.Create(filepath.Join(*crDir, name))
		if err != nil {
			t.Fatal(err)
		}
		bufs[n] = f
	}
	for i := 0; i < *crN; i++ {
		dir := filepath.Join(*crDir, fmt.Sprintf("case_%d", i))
		for n, name := range []string{"in.txt", "impl.txt", "oracle.txt"} {
			b, _ := os.ReadFile(filepath.Join(dir, name))
			bufs[n].Write(b)
		}
		var st struct {
			Cases   int            `json:"cases"`
			Ops     int            `json:"ops"`
			Dist    map[string]int `json:"dist"`
			Samples []string       `json:"samples"`
			Fails   int            `json:"oracle_failures"`
			Keys    []string       `json:"nontrivial_keys"`
		}
		b, _ := os.ReadFile(filepath.Join(dir, "stats.json"))
		json.Unmarshal(b, &st)
		cases += st.Cases
		ops += st.Ops
		fails += st.Fails
		for k, v := range st.Dist {
			dist[k] += v
		}
		for _, k := range st.Keys {
			keys[k] = true
		}
		if len(samples) < 3 {
			samples = append(samples, st.Samples...)
		}
		os.RemoveAll(dir)
	}
	for _, f := range bufs {
		f.Close()
	}
	if len(samples) > 3 {
		samples = samples[:3]
	}
	st := map[string]interface{}{"cases": cases, "ops": ops, "distinct_nontrivial": len(keys), "rule": rule, "dist": dist,
		"samples": samples, "oracle_failures": fails, "seed": *crSeed}
	b, _ := json.MarshalIndent(st, "", " ")
	os.WriteFile(filepath.Join(*crDir, "stats.json"), b, 0o644)
}
