//go:build verif

// C19 in-package harness (injected with `go test -overlay`, tag verif; nothing in /repo is edited).
//
// Every node of a case owns a real evidence.Pool over an in-memory kaidb that also holds the real
// cstate store and the blocks (rawdb.WriteBlock / WriteHeadBlockHash, so that Store.Load and
// LoadValidators work as in a node).  The harness owns the keys of all validators, plans a chain
// with changing validator sets and commit timestamps, and drives, per node:
//   PEER   proto round trip + ValidateBasic + Pool.AddEvidence        (what the evidence reactor does)
//   CONS   Pool.AddEvidenceFromConsensus
//   GEN    a real ConsensusState built on the node's state and seen commit; two conflicting votes go
//          through cs.tryAddVote, the evidence consensus hands to the pool is recorded
//   BLOCK  the node's real cstate.BlockExecutor.ValidateBlock on a real block of height state+1 carrying the
//          evidence (Block.ValidateBasic, header / commit / time checks, count limit, Pool.CheckEvidence)
//   APPLY  the real BlockExecutor.ApplyBlock on the chain's block (ValidateBlock, application stub answering
//          with the planned validator set, store.Save, Pool.Update) ; UPD  the same when the node validated
//          that block as a proposal before (validation cache hit: Update only), or Pool.Update alone
//          (also with a state that is not newer than the pool's: panic)
//   PEND   Pool.PendingEvidence ; RESTART  evidence.NewPool over the same database
//   META / VALS  the block store / state store receive block h / state h
// After every op the result class and the projection of the pool (pending and committed key
// families read from the database, the gossip list, Size) are printed (impl.txt) and compared with
// the extracted Coq model (coq/theories/C19/Model.v) run on the same ops (in.txt).  Independently
// of the model, the C19 obligations are checked from the harness's own knowledge of keys,
// signatures, validator sets and block times (oracle.txt).
package consensus

import (
	"bufio"
	"bytes"
	"encoding/binary"
	"encoding/json"
	"flag"
	"fmt"
	"math/big"
	"os"
	"path/filepath"
	"sort"
	"strings"
	"testing"
	"time"

	"github.com/kardiachain/go-kardia/configs"
	cstypes "github.com/kardiachain/go-kardia/consensus/types"
	"github.com/kardiachain/go-kardia/kai/kaidb/memorydb"
	"github.com/kardiachain/go-kardia/kai/rawdb"
	"github.com/kardiachain/go-kardia/kai/state/cstate"
	"github.com/kardiachain/go-kardia/lib/common"
	"github.com/kardiachain/go-kardia/lib/crypto"
	"github.com/kardiachain/go-kardia/lib/log"
	"github.com/kardiachain/go-kardia/lib/p2p"
	stypes "github.com/kardiachain/go-kardia/mainchain/staking/types"
	kproto "github.com/kardiachain/go-kardia/proto/kardiachain/types"
	"github.com/kardiachain/go-kardia/trie"
	"github.com/kardiachain/go-kardia/types"
	"github.com/kardiachain/go-kardia/types/evidence"
)

// ---------------------------------------------------------------------------------------------
// flags and the two tiny helpers copied from verif/harness/internal/{gen,out}

var (
	c19Seed  = flag.Uint64("seed", 1, "PRNG seed")
	c19N     = flag.Int("n", 100, "number of generated cases")
	c19Dir   = flag.String("out", "", "output directory")
	c19Only  = flag.Int("only", -1, "generate and run only this case index")
	c19Tier  = flag.String("tier", "quick", "quick|thorough")
	c19Facts = flag.String("facts", "", "write Generated/C19Facts.v to this path and exit")
)

type c19Rand struct{ s uint64 }

func c19NewRand(seed uint64) *c19Rand { return &c19Rand{s: seed*0x9E3779B97F4A7C15 + 0x1234567} }
func (r *c19Rand) Fork(i uint64) *c19Rand {
	return &c19Rand{s: r.s ^ (i+1)*0xBF58476D1CE4E5B9}
}
func (r *c19Rand) U64() uint64 {
	r.s += 0x9E3779B97F4A7C15
	z := r.s
	z = (z ^ (z >> 30)) * 0xBF58476D1CE4E5B9
	z = (z ^ (z >> 27)) * 0x94D049BB133111EB
	return z ^ (z >> 31)
}
func (r *c19Rand) Intn(n int) int {
	if n <= 0 {
		return 0
	}
	return int(r.U64() % uint64(n))
}
func (r *c19Rand) Chance(num, den int) bool { return r.Intn(den) < num }
func (r *c19Rand) Pick(weights ...int) int {
	t := 0
	for _, w := range weights {
		t += w
	}
	x := r.Intn(t)
	for i, w := range weights {
		if x < w {
			return i
		}
		x -= w
	}
	return len(weights) - 1
}

type c19Out struct {
	dir           string
	in, impl, orc *bufio.Writer
	files         []*os.File
	dist          map[string]int
	samples       []string
	cases, ops    int
	nontrivial    map[string]bool
	rule          string
	fails         int
	curCase       int
	curSample     []string
}

func c19Open(dir string) *c19Out {
	os.MkdirAll(dir, 0o755)
	o := &c19Out{dir: dir, dist: map[string]int{}, nontrivial: map[string]bool{}}
	for _, n := range []string{"in.txt", "impl.txt", "oracle.txt"} {
		f, err := os.Create(filepath.Join(dir, n))
		if err != nil {
			panic(err)
		}
		o.files = append(o.files, f)
	}
	o.in, o.impl, o.orc = bufio.NewWriterSize(o.files[0], 1<<20), bufio.NewWriterSize(o.files[1], 1<<20), bufio.NewWriterSize(o.files[2], 1<<16)
	return o
}
func (o *c19Out) flushSample() {
	if o.curSample != nil && len(o.samples) < 3 {
		o.samples = append(o.samples, strings.Join(o.curSample, "\n")+"\n")
	}
	o.curSample = nil
}
func (o *c19Out) Case(n int, header string) {
	o.flushSample()
	o.curCase = n
	o.cases++
	fmt.Fprintln(o.in, header)
	fmt.Fprintf(o.impl, "CASE %d\n", n)
	o.curSample = []string{header}
}
func (o *c19Out) Op(input, observed string) {
	o.ops++
	fmt.Fprintln(o.in, input)
	fmt.Fprintln(o.impl, observed)
	if len(o.curSample) < 40 {
		s := input
		if len(s) > 160 {
			s = s[:160] + "..."
		}
		o.curSample = append(o.curSample, s+"  =>  "+observed)
	}
}
func (o *c19Out) InOnly(line string) {
	fmt.Fprintln(o.in, line)
	if len(o.curSample) < 40 {
		s := line
		if len(s) > 160 {
			s = s[:160] + "..."
		}
		o.curSample = append(o.curSample, s)
	}
}
func (o *c19Out) Fail(step int, class, detail string) {
	o.fails++
	fmt.Fprintf(o.orc, "FAIL case=%d step=%d class=%s %s\n", o.curCase, step, class, detail)
}
func (o *c19Out) Count(k string) { o.dist[k]++ }
func (o *c19Out) Mark(k string)  { o.nontrivial[k] = true }
func (o *c19Out) Close() {
	o.flushSample()
	o.in.Flush()
	o.impl.Flush()
	o.orc.Flush()
	for _, f := range o.files {
		f.Close()
	}
	st := map[string]interface{}{"cases": o.cases, "ops": o.ops, "distinct_nontrivial": len(o.nontrivial),
		"rule": o.rule, "dist": o.dist, "samples": o.samples, "oracle_failures": o.fails, "seed": *c19Seed}
	b, _ := json.MarshalIndent(st, "", " ")
	os.WriteFile(filepath.Join(o.dir, "stats.json"), b, 0o644)
}

// ---------------------------------------------------------------------------------------------
// harness-side knowledge

const (
	c19ChainID    = "kai19"
	c19OtherChain = "kai19-other"
	c19NKeys      = 6 // keys 0..4 may be validators, key 5 never is
)

var c19Genesis = time.Unix(1600000000, 0).UTC()

type c19Key struct {
	pv   *types.DefaultPrivValidator
	addr common.Address
}

var c19Keys []*c19Key

func c19InitKeys() {
	if c19Keys != nil {
		return
	}
	for i := 0; i < c19NKeys; i++ {
		k, err := crypto.ToECDSA(crypto.Keccak256([]byte(fmt.Sprintf("c19-key-%d", i))))
		if err != nil {
			panic(err)
		}
		pv := types.NewDefaultPrivValidator(k)
		c19Keys = append(c19Keys, &c19Key{pv: pv, addr: pv.GetAddress()})
	}
}

// what the harness knows about a signature it produced
type c19Sig struct {
	id     int
	signer int // key index + 1
	chain  int // 1 = c19ChainID, 2 = the other chain
	typ    int
	height uint64
	round  uint32
	bid    types.BlockID
	ts     time.Time
}

type c19Member struct {
	key   int
	power int64
}

type c19Block struct {
	height  uint64
	block   *types.Block
	parts   *types.PartSet
	bid     types.BlockID
	time    time.Time
	evs     []*c19Ev
	state   cstate.LatestBlockState
	precoms []*types.Vote // precommits of the members of V_height for this block (or nil), by validator index
}

type c19Ev struct {
	id       int
	ev       *types.DuplicateVoteEvidence
	hash     common.Hash
	h8       uint64
	kind     string
	declared bool
	genBy    int    // node that generated it through consensus, -1 otherwise
	genCheck []bool // per node: acceptance by that node already checked
}

type c19Node struct {
	k         int
	db        *memorydb.Database
	store     cstate.Store
	pool      *evidence.Pool
	height    uint64 // state height
	metaH     uint64 // highest block written
	seen      map[uint64]*types.Commit
	commitLog map[string]int    // key -> times committed (Update)
	semLog    map[string]string // double-sign identity -> first committed key
	accepted  map[string]bool   // keys that went through verification or consensus at this node
	fromCons  map[string]bool   // keys that entered this pool through AddEvidenceFromConsensus (tryAddVote)
	tainted   map[string]bool   // keys the harness itself pushed through AddEvidenceFromConsensus without their being consensus-built
	dead      bool
	exec      *cstate.BlockExecutor // the node's real block executor (ValidateBlock / ApplyBlock, with its validation cache)
	eb        *types.EventBus
	validated map[common.Hash]bool // blocks this executor validated since its last ApplyBlock (its validation cache)
}

type c19Case struct {
	o       *c19Out
	r       *c19Rand
	params  kproto.ConsensusParams
	members map[uint64][]c19Member
	sets    map[uint64]*types.ValidatorSet
	blocks  []*c19Block
	nodes   []*c19Node
	sigs    map[string]*c19Sig
	addrID  map[common.Address]int
	bids    []types.BlockID
	evs     []*c19Ev
	byHash  map[common.Hash]*c19Ev
	step    int
	gens    []*c19Ev
	genRej  int
	aligned bool // block and vote times on whole seconds, age limits on whole seconds: exact expiry boundaries are hit
}

func c19Nanos(t time.Time) *big.Int {
	x := new(big.Int).Mul(big.NewInt(t.Unix()), big.NewInt(1000000000))
	return x.Add(x, big.NewInt(int64(t.Nanosecond())))
}

func c19H8(h common.Hash) uint64 { return binary.BigEndian.Uint64(h[:8]) }

func (c *c19Case) aid(a common.Address) int {
	if id, ok := c.addrID[a]; ok {
		return id
	}
	id := 90 + len(c.addrID)
	c.addrID[a] = id
	return id
}

func c19BidTok(b types.BlockID) string {
	return fmt.Sprintf("%d %d %d", c19H8(b.Hash), b.PartsHeader.Total, c19H8(b.PartsHeader.Hash))
}

func (c *c19Case) sigTok(sig []byte) string {
	if len(sig) == 0 {
		return "0 1 0 0 0 0 0 0 0 0 0"
	}
	s, ok := c.sigs[string(sig)]
	if !ok {
		s = &c19Sig{id: len(c.sigs) + 1}
		c.sigs[string(sig)] = s
	}
	return fmt.Sprintf("%d 0 %d %d %d %d %d %s %s", s.id, s.signer, s.chain, s.typ, s.height, s.round, c19BidTok(s.bid), c19Nanos(s.ts))
}

func (c *c19Case) voteTok(v *types.Vote) string {
	return fmt.Sprintf("%d %d %d %d %d %s %s %s", v.ValidatorIndex, c.aid(v.ValidatorAddress), v.Height, v.Round, int(v.Type),
		c19Nanos(v.Timestamp), c19BidTok(v.BlockID), c.sigTok(v.Signature))
}

func c19EvSize(ev *types.DuplicateVoteEvidence) int {
	p, err := types.EvidenceToProto(ev)
	if err != nil {
		panic(err)
	}
	return p.Size()
}

func (c *c19Case) evTok(ev *types.DuplicateVoteEvidence) string {
	return fmt.Sprintf("%d %d %d %d %s %s %s", c19H8(ev.Hash()), c19EvSize(ev), ev.TotalVotingPower, ev.ValidatorPower,
		c19Nanos(ev.Timestamp), c.voteTok(ev.VoteA), c.voteTok(ev.VoteB))
}

// register makes an evidence known to the case (and to the model, by an EV declaration)
func (c *c19Case) register(ev *types.DuplicateVoteEvidence, kind string) *c19Ev {
	h := ev.Hash()
	if e, ok := c.byHash[h]; ok {
		return e
	}
	e := &c19Ev{id: len(c.evs), ev: ev, hash: h, h8: c19H8(h), kind: kind, genBy: -1, genCheck: make([]bool, len(c.nodes))}
	for _, x := range c.evs {
		if x.h8 == e.h8 {
			panic("hash prefix collision")
		}
	}
	c.evs = append(c.evs, e)
	c.byHash[h] = e
	return e
}

func (c *c19Case) declare(e *c19Ev) {
	if !e.declared {
		e.declared = true
		c.o.InOnly(fmt.Sprintf("EV %d %s", e.id, c.evTok(e.ev)))
	}
}

func c19Key2(e *c19Ev) string { return fmt.Sprintf("%d/%d", e.ev.Height(), e.h8) }

// double-sign identity: who, where, and the unordered pair of signed vote contents
func c19Sem(ev *types.DuplicateVoteEvidence) string {
	ka := fmt.Sprintf("%s@%d", ev.VoteA.BlockID.Key(), ev.VoteA.Timestamp.UnixNano())
	kb := fmt.Sprintf("%s@%d", ev.VoteB.BlockID.Key(), ev.VoteB.Timestamp.UnixNano())
	if ka > kb {
		ka, kb = kb, ka
	}
	return fmt.Sprintf("%x/%d/%d/%d/%s/%s", ev.VoteA.ValidatorAddress, ev.VoteA.Height, ev.VoteA.Round, ev.VoteA.Type, ka, kb)
}

// signVote builds a vote of key k and signs it with that key over exactly these fields
func (c *c19Case) signVote(k int, chain string, typ kproto.SignedMsgType, h uint64, r uint32, bid types.BlockID, ts time.Time, idx uint32) *types.Vote {
	v := &types.Vote{Type: typ, Height: h, Round: r, BlockID: bid, Timestamp: ts, ValidatorAddress: c19Keys[k].addr, ValidatorIndex: idx}
	pb := v.ToProto()
	if err := c19Keys[k].pv.SignVote(chain, pb); err != nil {
		panic(err)
	}
	v.Signature = pb.Signature
	ch := 1
	if chain != c19ChainID {
		ch = 2
	}
	if _, ok := c.sigs[string(v.Signature)]; !ok {
		c.sigs[string(v.Signature)] = &c19Sig{id: len(c.sigs) + 1, signer: k + 1, chain: ch, typ: int(typ), height: h, round: r, bid: bid, ts: ts}
	}
	return v
}

// ---------------------------------------------------------------------------------------------
// chain plan

func (c *c19Case) planSet(h uint64) {
	if _, ok := c.members[h]; ok {
		return
	}
	var ms []c19Member
	if h == 1 {
		n := 2 + c.r.Intn(4)
		for _, k := range c19Perm(c.r, 5)[:n] {
			ms = append(ms, c19Member{key: k, power: int64(1 + c.r.Intn(20))})
		}
	} else {
		c.planSet(h - 1)
		ms = append(ms, c.members[h-1]...)
		if c.r.Chance(2, 5) {
			switch c.r.Intn(3) {
			case 0: // change a power
				i := c.r.Intn(len(ms))
				ms[i].power = int64(1 + c.r.Intn(20))
			case 1: // remove a member
				if len(ms) > 2 {
					i := c.r.Intn(len(ms))
					ms = append(ms[:i:i], ms[i+1:]...)
				}
			case 2: // add a member
				in := map[int]bool{}
				for _, m := range ms {
					in[m.key] = true
				}
				for k := 0; k < 5; k++ {
					if !in[k] {
						ms = append(ms, c19Member{key: k, power: int64(1 + c.r.Intn(20))})
						break
					}
				}
			}
		}
	}
	var vals []*types.Validator
	for _, m := range ms {
		vals = append(vals, types.NewValidator(c19Keys[m.key].addr, m.power))
	}
	set := types.NewValidatorSet(vals)
	// keep the harness's table in the order of the set (validator index = position)
	var ordered []c19Member
	for _, v := range set.Validators {
		for _, m := range ms {
			if c19Keys[m.key].addr == v.Address {
				ordered = append(ordered, m)
			}
		}
	}
	c.members[h] = ordered
	c.sets[h] = set
}

func c19Perm(r *c19Rand, n int) []int {
	p := make([]int, n)
	for i := range p {
		p[i] = i
	}
	for i := n - 1; i > 0; i-- {
		j := r.Intn(i + 1)
		p[i], p[j] = p[j], p[i]
	}
	return p
}

func (c *c19Case) keyOf(a common.Address) int {
	for i, k := range c19Keys {
		if k.addr == a {
			return i
		}
	}
	return -1
}

func (c *c19Case) powerOf(h uint64, key int) (int64, bool) {
	for _, m := range c.members[h] {
		if m.key == key {
			return m.power, true
		}
	}
	return 0, false
}

func (c *c19Case) totalOf(h uint64) int64 {
	var t int64
	for _, m := range c.members[h] {
		t += m.power
	}
	return t
}

// commitFrom builds a commit for block h out of a subset of its precommits holding more than 2/3
func (c *c19Case) commitFrom(h uint64, keepAll bool) *types.Commit {
	blk := c.blocks[h]
	vs := types.NewVoteSet(c19ChainID, h, 1, kproto.PrecommitType, c.sets[h])
	total := c.totalOf(h)
	var have int64
	for _, v := range blk.precoms {
		if v != nil && !v.BlockID.IsZero() {
			p, _ := c.powerOf(h, c.keyOf(v.ValidatorAddress))
			have += p
		}
	}
	for _, i := range c19Perm(c.r, len(blk.precoms)) {
		v := blk.precoms[i]
		if v == nil {
			continue
		}
		p, _ := c.powerOf(h, c.keyOf(v.ValidatorAddress))
		if !keepAll && c.r.Chance(1, 2) {
			if v.BlockID.IsZero() {
				continue
			}
			if 3*(have-p) > 2*total {
				have -= p
				continue
			}
		}
		if _, err := vs.AddVote(v); err != nil {
			panic(err)
		}
	}
	return vs.MakeCommit()
}

func (c *c19Case) stateAt(h uint64) cstate.LatestBlockState {
	c.planSet(h + 2)
	st := cstate.LatestBlockState{ChainID: c19ChainID, InitialHeight: 1, LastBlockHeight: h,
		Validators: c.sets[h+1], NextValidators: c.sets[h+2], LastHeightValidatorsChanged: 1, ConsensusParams: c.params}
	if h == 0 {
		st.LastBlockID = types.NewZeroBlockID()
		st.LastBlockTime = c19Genesis
		st.LastValidators = types.NewValidatorSet(nil)
	} else {
		st.LastBlockID = c.blocks[h].bid
		st.LastBlockTime = c.blocks[h].time
		st.LastValidators = c.sets[h]
	}
	return st
}

func (c *c19Case) tip() uint64 { return uint64(len(c.blocks) - 1) }

// mkBlock builds a block of height h (1 <= h <= tip+1) on top of chain block h-1 carrying evs: real header
// (median time of a real commit of block h-1, validator hashes of the plan), real commit, real evidence list.
func (c *c19Case) mkBlock(h uint64, evs []*c19Ev) (*types.Block, time.Time) {
	c.planSet(h + 2)
	var commit *types.Commit
	var ts time.Time
	if h == 1 {
		commit = &types.Commit{}
		ts = c19Genesis
	} else {
		commit = c.commitFrom(h-1, false)
		ts = cstate.MedianTime(commit, c.sets[h-1])
	}
	var list []types.Evidence
	for _, e := range evs {
		list = append(list, e.ev)
	}
	last := c.blocks[h-1].bid
	if h == 1 {
		last = types.NewZeroBlockID()
	}
	hd := &types.Header{Height: h, Time: ts, LastBlockID: last, ProposerAddress: c.sets[h].Validators[0].Address,
		ValidatorsHash: c.sets[h].Hash(), NextValidatorsHash: c.sets[h+1].Hash(), GasLimit: configs.BlockGasLimit}
	return types.NewBlock(hd, nil, commit, list, trie.NewStackTrie(nil)), ts
}

// newBlock creates block tip+1 carrying evs
func (c *c19Case) newBlock(evs []*c19Ev) *c19Block {
	blk, ts := c.mkBlock(c.tip()+1, evs)
	return c.adopt(blk, ts, evs)
}

// adopt makes blk (built by mkBlock for height tip+1) the next block of the chain
func (c *c19Case) adopt(blk *types.Block, ts time.Time, evs []*c19Ev) *c19Block {
	h := c.tip() + 1
	parts := blk.MakePartSet(types.BlockPartSizeBytes)
	b := &c19Block{height: h, block: blk, parts: parts, bid: types.BlockID{Hash: blk.Hash(), PartsHeader: parts.Header()}, time: ts, evs: evs}
	c.blocks = append(c.blocks, b)
	b.state = c.stateAt(h)
	// precommits for this block: every member signs, a few sign nil or stay silent
	gap := time.Duration(1+c.r.Intn(8)) * time.Second
	if c.r.Chance(1, 6) {
		gap = time.Duration(20+c.r.Intn(100)) * time.Second
	}
	if c.aligned {
		gap = time.Duration(1+c.r.Intn(3)) * time.Second
	}
	total := c.totalOf(h)
	var forBlock int64
	for i, val := range c.sets[h].Validators {
		k := c.keyOf(val.Address)
		vts := ts.Add(gap).Add(time.Duration(c.r.Intn(3000)) * time.Millisecond)
		if c.aligned {
			vts = ts.Add(gap)
		}
		bid := b.bid
		b.precoms = append(b.precoms, c.signVote(k, c19ChainID, kproto.PrecommitType, h, 1, bid, vts, uint32(i)))
		forBlock += val.VotingPower
	}
	// turn some into nil / absent while more than 2/3 remains
	for _, i := range c19Perm(c.r, len(b.precoms)) {
		p := c.sets[h].Validators[i].VotingPower
		if c.r.Chance(1, 5) && 3*(forBlock-p) > 2*total {
			forBlock -= p
			if c.r.Chance(1, 2) {
				b.precoms[i] = nil
			} else {
				old := b.precoms[i]
				b.precoms[i] = c.signVote(c.keyOf(old.ValidatorAddress), c19ChainID, kproto.PrecommitType, h, 1, types.BlockID{}, old.Timestamp, uint32(i))
			}
		}
	}
	return b
}

// ---------------------------------------------------------------------------------------------
// nodes

type c19BlockStore struct{ db *memorydb.Database }

func (b c19BlockStore) LoadBlockMeta(height uint64) *types.BlockMeta { return rawdb.ReadBlockMeta(b.db, height) }
func (b c19BlockStore) LoadBlockCommit(height uint64) *types.Commit  { return nil }

func (c *c19Case) stTok(h uint64) string {
	var t time.Time
	if h == 0 {
		t = c19Genesis
	} else {
		t = c.blocks[h].time
	}
	return fmt.Sprintf("%d %s %d %d 1", h, c19Nanos(t), c.params.Evidence.MaxAgeNumBlocks, int64(c.params.Evidence.MaxAgeDuration))
}

func (c *c19Case) newNode(k int) *c19Node {
	nd := &c19Node{k: k, db: memorydb.New(), seen: map[uint64]*types.Commit{}, commitLog: map[string]int{}, semLog: map[string]string{}, accepted: map[string]bool{}, tainted: map[string]bool{}, fromCons: map[string]bool{}}
	nd.store = cstate.NewStore(nd.db)
	g := c.blocks[0]
	rawdb.WriteBlock(nd.db, g.block, g.parts, &types.Commit{})
	rawdb.WriteHeadBlockHash(nd.db, g.block.Hash())
	nd.store.Save(c.stateAt(0))
	pool, err := evidence.NewPool(nd.store, nd.db, c19BlockStore{nd.db})
	if err != nil {
		panic(err)
	}
	pool.SetLogger(log.New())
	nd.pool = pool
	nd.eb = types.NewEventBus()
	nd.eb.SetLogger(log.New())
	if err := nd.eb.Start(); err != nil {
		panic(err)
	}
	c.newExec(nd)
	c.o.Op(fmt.Sprintf("%d INIT %s", k, c.stTok(0)), "ok "+c.proj(nd))
	c.o.Op(fmt.Sprintf("%d META 0 %s", k, c19Nanos(c19Genesis)), "ok "+c.proj(nd))
	return nd
}

// c19NodePool is the evidence pool the node's block executor talks to: the node's current real pool
type c19NodePool struct{ nd *c19Node }

func (p c19NodePool) Update(s cstate.LatestBlockState, ev types.EvidenceList) { p.nd.pool.Update(s, ev) }
func (p c19NodePool) CheckEvidence(l types.EvidenceList) error                 { return p.nd.pool.CheckEvidence(l) }

// newExec gives the node a fresh real BlockExecutor (node start / restart: empty validation cache)
func (c *c19Case) newExec(nd *c19Node) {
	nd.exec = cstate.NewBlockExecutor(nd.store, log.New(), c19NodePool{nd}, &c19BlockOps{nd: nd, c: c})
	nd.exec.SetEventBus(nd.eb)
	nd.validated = map[common.Hash]bool{}
}

func c19ParseKey(key []byte, prefix string) (uint64, uint64) {
	s := string(key[len(prefix):])
	var h uint64
	fmt.Sscanf(s[:16], "%X", &h)
	hb := common.FromHex(s[17:])
	return h, binary.BigEndian.Uint64(hb[:8])
}

func (c *c19Case) family(nd *c19Node, prefix string) []string {
	it := nd.db.NewIterator([]byte(prefix), nil)
	defer it.Release()
	var out []string
	for it.Next() {
		h, x := c19ParseKey(it.Key(), prefix)
		out = append(out, fmt.Sprintf("%d/%d", h, x))
	}
	return out
}

func c19Join(l []string) string {
	if len(l) == 0 {
		return "-"
	}
	return strings.Join(l, ",")
}

func (c *c19Case) proj(nd *c19Node) string {
	var lst []string
	for e := nd.pool.EvidenceFront(); e != nil; e = e.Next() {
		lst = append(lst, fmt.Sprint(c19H8(e.Value.(types.Evidence).Hash())))
	}
	return fmt.Sprintf("P=%s C=%s L=%s S=%d", c19Join(c.family(nd, "evidence-pending")), c19Join(c.family(nd, "evidence-committed")), c19Join(lst), nd.pool.Size())
}

func c19Guard(f func()) (panicked string) {
	defer func() {
		if r := recover(); r != nil {
			panicked = fmt.Sprint(r)
			if panicked == "" {
				panicked = "panic"
			}
		}
	}()
	f()
	return ""
}

// error class of an AddEvidence / CheckEvidence error
func c19Class(err error) string {
	if err == nil {
		return "ok"
	}
	inv, ok := err.(*types.ErrEvidenceInvalid)
	if !ok {
		return "err"
	}
	switch inv.Reason.(type) {
	case cstate.ErrNoConsensusStateForHeight, cstate.ErrNoValSetForHeight:
		return "inv:novals"
	}
	m := inv.Reason.Error()
	switch {
	case strings.HasPrefix(m, "don't have header"):
		return "inv:noheader"
	case strings.HasPrefix(m, "evidence has a different time"):
		return "inv:time"
	case strings.HasPrefix(m, "evidence from height") && strings.Contains(m, "is too old"):
		return "inv:expired"
	case strings.HasPrefix(m, "address") && strings.Contains(m, "was not a validator"):
		return "inv:notval"
	case strings.HasPrefix(m, "validator indices"):
		return "inv:index"
	case m == "evidence is too old":
		return "inv:expired"
	case strings.HasPrefix(m, "h/r/s does not match"):
		return "inv:hrs"
	case strings.HasPrefix(m, "validator addresses do not match"):
		return "inv:addr"
	case strings.HasPrefix(m, "block IDs are the same"):
		return "inv:sameid"
	case strings.HasPrefix(m, "validator power from evidence"):
		return "inv:power"
	case strings.HasPrefix(m, "total voting power from the evidence"):
		return "inv:total"
	case strings.HasPrefix(m, "verifying VoteA"):
		return "inv:siga"
	case strings.HasPrefix(m, "verifying VoteB"):
		return "inv:sigb"
	case m == "evidence was already committed":
		return "committed"
	case m == "duplicate evidence":
		return "duplicate"
	}
	return "inv:novals"
}

// ---------------------------------------------------------------------------------------------
// the direct oracles

// truth recomputes, from the harness's own tables, whether ev is a real double-signing of a member
// of the set of its height with the stated powers and the block's time.  "" = yes.
func (c *c19Case) truth(ev *types.DuplicateVoteEvidence) string {
	a, b := ev.VoteA, ev.VoteB
	if a.Height != b.Height || a.Round != b.Round || a.Type != b.Type {
		return "hrs"
	}
	if a.ValidatorAddress != b.ValidatorAddress {
		return "addr"
	}
	if a.BlockID.Hash == b.BlockID.Hash && a.BlockID.PartsHeader.Hash == b.BlockID.PartsHeader.Hash && a.BlockID.PartsHeader.Total == b.BlockID.PartsHeader.Total {
		return "sameid"
	}
	// votes exist only as prevotes and precommits, for nil or for a complete block id; the pair is listed once, in
	// the order of the ids (the other order is the same double-signing under another hash)
	if a.Type != kproto.PrevoteType && a.Type != kproto.PrecommitType {
		return "badtype"
	}
	for _, v := range []*types.Vote{a, b} {
		id := v.BlockID
		zero := id.Hash == (common.Hash{}) && id.PartsHeader.Hash == (common.Hash{}) && id.PartsHeader.Total == 0
		complete := id.Hash != (common.Hash{}) && !(id.PartsHeader.Hash == (common.Hash{}) && id.PartsHeader.Total == 0)
		if !zero && !complete {
			return "badblockid"
		}
	}
	if c19IDKey(a.BlockID) >= c19IDKey(b.BlockID) {
		return "unordered"
	}
	h := a.Height
	if h == 0 || h > c.tip() {
		return "noblock"
	}
	key := c.keyOf(a.ValidatorAddress)
	p, ok := c.powerOf(h, key)
	if key < 0 || !ok {
		return "notmember"
	}
	if p != ev.ValidatorPower {
		return "power"
	}
	if c.totalOf(h) != ev.TotalVotingPower {
		return "total"
	}
	for _, v := range []*types.Vote{a, b} {
		s, ok := c.sigs[string(v.Signature)]
		if !ok || s.signer == 0 {
			return "forged-signature"
		}
		if s.signer != key+1 || s.chain != 1 || s.typ != int(v.Type) || s.height != v.Height || s.round != v.Round ||
			s.bid.Hash != v.BlockID.Hash || s.bid.PartsHeader.Hash != v.BlockID.PartsHeader.Hash || s.bid.PartsHeader.Total != v.BlockID.PartsHeader.Total ||
			!s.ts.Equal(v.Timestamp) {
			return "signature-of-other-content"
		}
	}
	if !ev.Timestamp.Equal(c.blocks[h].time) {
		return "time"
	}
	idx, _ := c.sets[h].GetByAddress(a.ValidatorAddress)
	if int64(a.ValidatorIndex) != int64(idx) || int64(b.ValidatorIndex) != int64(idx) {
		return "index"
	}
	return ""
}

// c19IDKey orders block ids as BlockID.Key() does (two fixed-width hex strings, then the decimal total)
func c19IDKey(id types.BlockID) string {
	return fmt.Sprintf("%x%x:%d", id.Hash[:], id.PartsHeader.Hash[:], id.PartsHeader.Total)
}

// expired by the rule of the property: older than MaxAgeNumBlocks blocks AND older than MaxAgeDuration
func (c *c19Case) expiredAt(stateH uint64, evH uint64) bool {
	if evH == 0 || evH > c.tip() {
		return false
	}
	var now time.Time
	if stateH == 0 {
		now = c19Genesis
	} else {
		now = c.blocks[stateH].time
	}
	ageB := new(big.Int).Sub(new(big.Int).SetUint64(stateH), new(big.Int).SetUint64(evH))
	ageD := new(big.Int).Sub(c19Nanos(now), c19Nanos(c.blocks[evH].time))
	return ageB.Cmp(big.NewInt(c.params.Evidence.MaxAgeNumBlocks)) > 0 && ageD.Cmp(big.NewInt(int64(c.params.Evidence.MaxAgeDuration))) > 0
}

// acceptedNow is called when node nd accepted e (peer: newly pending; block: list accepted).
func (c *c19Case) acceptedNow(nd *c19Node, e *c19Ev, via string, wasPending bool) {
	if wasPending && nd.tainted[c19Key2(e)] {
		return // the harness, not consensus, put it there
	}
	if why := c.truth(e.ev); why != "" {
		origin := ""
		if wasPending && nd.fromCons[c19Key2(e)] {
			origin = " origin=consensus" // unverified: put into this pool by tryAddVote
		}
		c.o.Fail(c.step, "accepted-unsound:"+why, fmt.Sprintf("node=%d via=%s kind=%s ev=%d h=%d%s", nd.k, via, e.kind, e.id, e.ev.Height(), origin))
	}
	if nd.commitLog[c19Key2(e)] > 0 {
		c.o.Fail(c.step, "accepted-committed", fmt.Sprintf("node=%d via=%s kind=%s ev=%d", nd.k, via, e.kind, e.id))
	}
	if c.truth(e.ev) != "" {
		return // already reported as unsound; the expiry rule below is about the block's time, which it does not carry
	}
	if !wasPending && c.expiredAt(nd.height, e.ev.Height()) {
		c.o.Fail(c.step, "accepted-expired", fmt.Sprintf("node=%d via=%s kind=%s ev=%d h=%d state=%d", nd.k, via, e.kind, e.id, e.ev.Height(), nd.height))
	}
	if wasPending && c.expiredAt(nd.height, e.ev.Height()) {
		c.o.Fail(c.step, "accepted-expired-pending", fmt.Sprintf("node=%d via=%s kind=%s ev=%d h=%d state=%d", nd.k, via, e.kind, e.id, e.ev.Height(), nd.height))
	}
}

func (c *c19Case) pendingSet(nd *c19Node) map[string]bool {
	m := map[string]bool{}
	for _, k := range c.family(nd, "evidence-pending") {
		m[k] = true
	}
	return m
}

// afterOp: pending evidence may only leave the pending family by being committed in this op or by
// having expired; PendingEvidence(-1) lists exactly the pending family
func (c *c19Case) afterOp(nd *c19Node, before map[string]bool, committedNow map[string]bool) {
	now := c.pendingSet(nd)
	for k := range before {
		if now[k] || committedNow[k] {
			continue
		}
		var h uint64
		fmt.Sscanf(k, "%d/", &h)
		if c.expiredAt(nd.height, h) {
			continue
		}
		unsound := false
		for _, e := range c.evs {
			if c19Key2(e) == k && c.truth(e.ev) != "" {
				unsound = true
			}
		}
		if unsound {
			// it got there unverified (raw CONS of the harness, or tryAddVote: reported as generated-rejected /
			// accepted-unsound); the pool prunes by the evidence's own timestamp, which is not its block's time
			c.o.Count("pending-dropped-unsound-evidence")
			continue
		}
		c.o.Fail(c.step, "pending-dropped", fmt.Sprintf("node=%d key=%s state=%d", nd.k, k, nd.height))
	}
	allBasic := true
	for k := range now {
		for _, e := range c.evs {
			if c19Key2(e) == k && e.ev.ValidateBasic() != nil {
				allBasic = false
			}
		}
	}
	if allBasic {
		var got []string
		l, _ := nd.pool.PendingEvidence(-1)
		for _, ev := range l {
			got = append(got, fmt.Sprintf("%d/%d", ev.Height(), c19H8(ev.Hash())))
		}
		want := c.family(nd, "evidence-pending")
		if strings.Join(got, ",") != strings.Join(want, ",") {
			c.o.Fail(c.step, "pending-not-listed", fmt.Sprintf("node=%d family=%v listed=%v", nd.k, want, got))
		}
	}
}

func (c *c19Case) recordCommit(nd *c19Node, evs []*c19Ev) map[string]bool {
	m := map[string]bool{}
	for _, e := range evs {
		k := c19Key2(e)
		m[k] = true
		nd.commitLog[k]++
		if nd.commitLog[k] > 1 {
			c.o.Fail(c.step, "committed-twice", fmt.Sprintf("node=%d key=%s kind=%s", nd.k, k, e.kind))
		}
		sem := c19Sem(e.ev)
		if nd.tainted[k] {
			continue // put into this pool by the harness's raw CONS, never verified
		}
		if first, ok := nd.semLog[sem]; ok && first != k {
			c.o.Fail(c.step, "double-sign-punished-twice", fmt.Sprintf("node=%d first=%s again=%s kind=%s", nd.k, first, k, e.kind))
		} else {
			nd.semLog[sem] = k
		}
	}
	// the committed key family is exactly the log
	fam := c.family(nd, "evidence-committed")
	if len(fam) != len(nd.commitLog) {
		c.o.Fail(c.step, "committed-family-mismatch", fmt.Sprintf("node=%d family=%d log=%d", nd.k, len(fam), len(nd.commitLog)))
	}
	return m
}

// ---------------------------------------------------------------------------------------------
// ops

func (c *c19Case) run(nd *c19Node, input string, f func() string, committedNow func() map[string]bool) string {
	c.step++
	before := c.pendingSet(nd)
	var res string
	if p := c19Guard(func() { res = f() }); p != "" {
		res = "panic"
	}
	c.o.Op(input, res+" "+c.proj(nd))
	var cm map[string]bool
	if committedNow != nil {
		cm = committedNow()
	}
	c.afterOp(nd, before, cm)
	return res
}

func (c *c19Case) isPending(nd *c19Node, e *c19Ev) bool { return c.pendingSet(nd)[c19Key2(e)] }

func (c *c19Case) opPeer(nd *c19Node, e *c19Ev) string {
	c.declare(e)
	was := c.isPending(nd, e)
	wasCommitted := nd.commitLog[c19Key2(e)] > 0
	res := c.run(nd, fmt.Sprintf("%d PEER %d", nd.k, e.id), func() string {
		// the reactor's decodeMsg: proto round trip (EvidenceFromProto validates) + ValidateBasic
		pb, err := types.EvidenceToProto(e.ev)
		if err != nil {
			return "basic"
		}
		bz, err := pb.Marshal()
		if err != nil {
			return "basic"
		}
		var pb2 kproto.Evidence
		if err := pb2.Unmarshal(bz); err != nil {
			return "basic"
		}
		ev2, err := types.EvidenceFromProto(&pb2)
		if err != nil {
			return "basic"
		}
		if err := ev2.ValidateBasic(); err != nil {
			return "basic"
		}
		if ev2.Hash() != e.hash {
			c.o.Fail(c.step, "proto-roundtrip-changes-hash", fmt.Sprintf("ev=%d", e.id))
		}
		return c19Class(nd.pool.AddEvidence(ev2))
	}, nil)
	c.o.Count("peer:" + res)
	c.o.Mark("peer/" + e.kind + "/" + res)
	if res == "ok" && !was && !wasCommitted {
		if !c.isPending(nd, e) {
			c.o.Fail(c.step, "accepted-not-pending", fmt.Sprintf("node=%d ev=%d", nd.k, e.id))
		}
		nd.accepted[c19Key2(e)] = true
		c.acceptedNow(nd, e, "peer", false)
	}
	if res != "ok" && c.mustAccept(nd, e) {
		c.o.Fail(c.step, "sound-rejected:"+strings.TrimPrefix(res, "inv:"), fmt.Sprintf("node=%d via=peer ev=%d h=%d state=%d", nd.k, e.id, e.ev.Height(), nd.height))
	}
	c.countBoundary(nd, e)
	return res
}

// countBoundary: how often the exact expiry boundaries are exercised (distribution only)
func (c *c19Case) countBoundary(nd *c19Node, e *c19Ev) {
	h := e.ev.Height()
	if c.truth(e.ev) != "" || h > nd.height || nd.height == 0 {
		return
	}
	ageB := int64(nd.height) - int64(h)
	ageD := c.blocks[nd.height].time.Sub(c.blocks[h].time)
	mb, md := c.params.Evidence.MaxAgeNumBlocks, c.params.Evidence.MaxAgeDuration
	switch {
	case ageD == md && ageB > mb:
		c.o.Count("boundary:age-duration=max,blocks>max")
	case ageB == mb && ageD > md:
		c.o.Count("boundary:age-blocks=max,duration>max")
	case ageB == mb+1 && ageD > md:
		c.o.Count("boundary:age-blocks=max+1,duration>max")
	case ageB > mb && ageD > md && ageD <= md+time.Second:
		c.o.Count("boundary:age-duration<=max+1s,blocks>max")
	}
}

func (c *c19Case) opCons(nd *c19Node, e *c19Ev) {
	c.declare(e)
	res := c.run(nd, fmt.Sprintf("%d CONS %d", nd.k, e.id), func() string {
		if err := nd.pool.AddEvidenceFromConsensus(e.ev); err != nil {
			return "err"
		}
		return "ok"
	}, nil)
	nd.accepted[c19Key2(e)] = true
	if c.truth(e.ev) != "" {
		nd.tainted[c19Key2(e)] = true
	}
	c.o.Count("cons:" + res)
}

func (c *c19Case) idList(evs []*c19Ev) string {
	s := fmt.Sprint(len(evs))
	for _, e := range evs {
		c.declare(e)
		s += fmt.Sprintf(" %d", e.id)
	}
	return s
}

// blockClass maps the error of the real BlockExecutor.ValidateBlock / ApplyBlock to a result class; any
// error that is not about the block's evidence is a fault of the harness's chain plan and is reported.
func (c *c19Case) blockClass(err error) string {
	if err == nil {
		return "ok"
	}
	if _, ok := err.(*types.ErrEvidenceOverflow); ok {
		return "overflow"
	}
	if _, ok := err.(*types.ErrEvidenceInvalid); ok {
		return c19Class(err)
	}
	if strings.HasPrefix(err.Error(), "invalid evidence (#") {
		return "basic"
	}
	c.o.Fail(c.step, "harness-block-invalid", strings.ReplaceAll(err.Error(), "\n", " "))
	return "err"
}

// validateReal: the node's real BlockExecutor.ValidateBlock (cstate/execution.go, validation.go) on a real block
func (c *c19Case) validateReal(nd *c19Node, blk *types.Block) string {
	res := c.blockClass(nd.exec.ValidateBlock(c.stateAt(nd.height), blk))
	if res == "ok" {
		nd.validated[blk.Hash()] = true
	}
	return res
}

func (c *c19Case) maxNum() int64 {
	n, _ := types.MaxEvidencePerBlock(int64(c.params.Block.MaxBytes))
	return n
}

func (c *c19Case) blockAccepted(nd *c19Node, evs []*c19Ev, was map[string]bool, via string) {
	// the count limit of the property's anchor, from the harness's own arithmetic: a tenth of the block size
	// budget divided by the maximal size of one piece of evidence (484 bytes)
	if limit := c.params.Block.MaxBytes / 10 / 484; int64(len(evs)) > limit {
		c.o.Fail(c.step, "accepted-over-count-limit", fmt.Sprintf("node=%d via=%s evidence=%d limit=%d block-max-bytes=%d", nd.k, via, len(evs), limit, c.params.Block.MaxBytes))
	}
	seen := map[string]bool{}
	for _, e := range evs {
		k := c19Key2(e)
		if seen[k] {
			c.o.Fail(c.step, "duplicate-in-block-accepted", fmt.Sprintf("node=%d key=%s", nd.k, k))
		}
		seen[k] = true
		c.acceptedNow(nd, e, via, was[k])
		nd.accepted[k] = true
	}
}

// mustAccept: from the harness's own tables, e is a real double-signing of height <= the node's state height
// with its block's time, not expired at the node and not committed there: a correct node has to accept it
func (c *c19Case) mustAccept(nd *c19Node, e *c19Ev) bool {
	h := e.ev.Height()
	return c.truth(e.ev) == "" && h >= 1 && h <= nd.height && nd.metaH >= h && !c.expiredAt(nd.height, h) && nd.commitLog[c19Key2(e)] == 0
}

// rejectedList: a list of distinct evidence, within the count limit, each of which has to be accepted, was refused
func (c *c19Case) rejectedList(nd *c19Node, evs []*c19Ev, was map[string]bool, res, via string) {
	if int64(len(evs)) > c.maxNum() {
		return
	}
	seen := map[string]bool{}
	for _, e := range evs {
		if !c.mustAccept(nd, e) || seen[c19Key2(e)] {
			return
		}
		seen[c19Key2(e)] = true
	}
	c.o.Fail(c.step, "sound-rejected:"+strings.TrimPrefix(res, "inv:"), fmt.Sprintf("node=%d via=%s evs=%s state=%d", nd.k, via, c.idList(evs), nd.height))
}

func (c *c19Case) opBlock(nd *c19Node, evs []*c19Ev, why string) string {
	return c.opBlockOf(nd, evs, why, nil)
}

// opBlockOf: node nd validates block blk (height nd.height+1, carrying evs) as a proposal; blk == nil: a block
// is built for the occasion
func (c *c19Case) opBlockOf(nd *c19Node, evs []*c19Ev, why string, blk *types.Block) string {
	ids := c.idList(evs)
	was := c.pendingSet(nd)
	if blk == nil {
		blk, _ = c.mkBlock(nd.height+1, evs)
	}
	res := c.run(nd, fmt.Sprintf("%d BLOCK %d %s", nd.k, c.maxNum(), ids), func() string { return c.validateReal(nd, blk) }, nil)
	c.o.Count("block:" + res)
	kinds := ""
	for _, e := range evs {
		kinds += e.kind + ","
	}
	c.o.Mark("block/" + why + "/" + kinds + "/" + res)
	if res == "ok" {
		c.blockAccepted(nd, evs, was, "block")
	} else {
		c.rejectedList(nd, evs, was, res, "block")
	}
	if len(evs) == int(c.maxNum()) || len(evs) == int(c.maxNum())+1 {
		c.o.Count(fmt.Sprintf("boundary:block-count=max%+d", len(evs)-int(c.maxNum())))
	}
	return res
}

// advance applies the next block of the chain to node nd
func (c *c19Case) advance(nd *c19Node) {
	h := nd.height + 1
	if h > c.tip() {
		return
	}
	blk := c.blocks[h]
	if nd.metaH < h {
		seen := c.commitFrom(h, c.r.Chance(1, 3))
		nd.seen[h] = seen
		c.run(nd, fmt.Sprintf("%d META %d %s", nd.k, h, c19Nanos(blk.time)), func() string {
			rawdb.WriteBlock(nd.db, blk.block, blk.parts, seen)
			return "ok"
		}, nil)
		nd.metaH = h
		if c.r.Chance(1, 8) && len(c.evs) > 0 {
			c.opPeer(nd, c.evs[c.r.Intn(len(c.evs))])
		}
	}
	vt := fmt.Sprintf("%d VALS %d %d", nd.k, h, len(c.members[h]))
	for _, m := range c.members[h] {
		vt += fmt.Sprintf(" %d %d", m.key+1, m.power)
	}
	c.run(nd, vt, func() string {
		nd.store.Save(blk.state)
		rawdb.WriteHeadBlockHash(nd.db, blk.block.Hash())
		return "ok"
	}, nil)
	ids := c.idList(blk.evs)
	was := c.pendingSet(nd)
	var l types.EvidenceList
	for _, e := range blk.evs {
		l = append(l, e.ev)
	}
	// the real BlockExecutor.ApplyBlock: ValidateBlock (or its cache), the application (planned validators),
	// store.Save, Pool.Update
	applyReal := func() string {
		st, _, err := nd.exec.ApplyBlock(c.stateAt(h-1), blk.bid, blk.block)
		res := c.blockClass(err)
		if res == "ok" {
			nd.validated = map[common.Hash]bool{}
			if st.LastBlockHeight != h || !st.LastBlockTime.Equal(blk.time) || st.Validators.Hash() != c.sets[h+1].Hash() ||
				st.NextValidators.Hash() != c.sets[h+2].Hash() || st.LastValidators.Hash() != c.sets[h].Hash() {
				c.o.Fail(c.step, "harness-apply-state", fmt.Sprintf("node=%d height=%d got=%d", nd.k, h, st.LastBlockHeight))
			}
		}
		return res
	}
	if nd.validated[blk.block.Hash()] {
		// the node validated this very block as a proposal: ApplyBlock hits the validation cache, Update only
		res := c.run(nd, fmt.Sprintf("%d UPD %s %s", nd.k, c.stTok(h), ids), applyReal,
			func() map[string]bool { nd.height = h; return c.recordCommit(nd, blk.evs) })
		c.o.Count("upd-cache-hit:" + res)
		if res != "ok" {
			c.o.Fail(c.step, "validated-block-not-applied:"+res, fmt.Sprintf("node=%d height=%d evs=%s", nd.k, h, ids))
		}
		return
	}
	if c.r.Chance(1, 10) {
		// the pool is updated without this node having validated the block
		res := c.run(nd, fmt.Sprintf("%d UPD %s %s", nd.k, c.stTok(h), ids), func() string {
			nd.pool.Update(blk.state, l)
			return "ok"
		}, func() map[string]bool { nd.height = h; return c.recordCommit(nd, blk.evs) })
		c.o.Count("upd:" + res)
		return
	}
	validated := ""
	res := c.run(nd, fmt.Sprintf("%d APPLY %d %s %s", nd.k, c.maxNum(), c.stTok(h), ids), func() string {
		validated = applyReal()
		return validated
	}, func() map[string]bool {
		if validated != "ok" {
			return nil
		}
		c.blockAccepted(nd, blk.evs, was, "apply")
		nd.height = h
		return c.recordCommit(nd, blk.evs)
	})
	c.o.Count("apply:" + res)
	if res == "ok" {
		return
	}
	// a block of the chain refused by a correct node
	c.o.Fail(c.step, "chain-block-rejected:"+res, fmt.Sprintf("node=%d height=%d evs=%s", nd.k, h, ids))
	c.run(nd, fmt.Sprintf("%d UPD %s %s", nd.k, c.stTok(h), ids), func() string {
		nd.pool.Update(blk.state, l)
		return "ok"
	}, func() map[string]bool { nd.height = h; return c.recordCommit(nd, blk.evs) })
}

func (c *c19Case) opPending(nd *c19Node, maxBytes int64) []*c19Ev {
	var out []*c19Ev
	c.run(nd, fmt.Sprintf("%d PEND %d", nd.k, maxBytes), func() string {
		l, sz := nd.pool.PendingEvidence(maxBytes)
		var ks []string
		for _, ev := range l {
			ks = append(ks, fmt.Sprintf("%d/%d", ev.Height(), c19H8(ev.Hash())))
			if e, ok := c.byHash[ev.Hash()]; ok {
				out = append(out, e)
			}
		}
		return fmt.Sprintf("ok [%s] %d", c19Join(ks), sz)
	}, nil)
	return out
}

// capOf: the protobuf size of an EvidenceData holding the first k pending entries (what listEvidence measures)
func (c *c19Case) capOf(nd *c19Node, k int) (int64, bool) {
	fam := c.family(nd, "evidence-pending")
	var data kproto.EvidenceData
	for _, key := range fam[:k] {
		var found *c19Ev
		for _, e := range c.evs {
			if c19Key2(e) == key {
				found = e
			}
		}
		if found == nil || found.ev.ValidateBasic() != nil {
			return 0, false
		}
		pb, err := types.EvidenceToProto(found.ev)
		if err != nil {
			return 0, false
		}
		data.Evidence = append(data.Evidence, *pb)
	}
	return int64(data.Size()), true
}

func (c *c19Case) opPendingBoundary(nd *c19Node) {
	fam := c.family(nd, "evidence-pending")
	if len(fam) == 0 || nd.pool.Size() == 0 {
		c.opPending(nd, int64(c.r.Intn(3))-1)
		return
	}
	k := 1 + c.r.Intn(len(fam))
	sz, ok := c.capOf(nd, k)
	if !ok {
		return
	}
	d := int64(c.r.Intn(3)) - 1
	got := c.opPending(nd, sz+d)
	c.o.Count(fmt.Sprintf("boundary:pending-cap=size(first-k)%+d", d))
	// direct oracle: exactly the first k entries fit at cap sz, k-1 at sz-1
	want := k
	if d < 0 {
		want = k - 1
	}
	if d > 0 && k < len(fam) {
		if sz2, ok2 := c.capOf(nd, k+1); ok2 && sz2 <= sz+d {
			want = k + 1
		}
	}
	all := true
	for i := 0; i < len(fam); i++ {
		if _, ok := c.capOf(nd, i+1); !ok {
			all = false
		}
	}
	if all && len(got) != want {
		c.o.Fail(c.step, "pending-cap", fmt.Sprintf("node=%d cap=%d size-of-first-%d=%d listed=%d want=%d", nd.k, sz+d, k, sz, len(got), want))
	}
}

func (c *c19Case) opStaleUpdate(nd *c19Node) {
	if nd.height == 0 || nd.metaH != nd.height {
		return
	}
	h := nd.height
	if c.r.Chance(1, 2) {
		h = 1 + uint64(c.r.Intn(int(nd.height)))
	}
	var evs []*c19Ev
	if l, _ := nd.pool.PendingEvidence(-1); len(l) > 0 && c.r.Chance(2, 3) {
		if e, ok := c.byHash[l[c.r.Intn(len(l))].Hash()]; ok {
			evs = append(evs, e)
		}
	}
	ids := c.idList(evs)
	var l types.EvidenceList
	for _, e := range evs {
		l = append(l, e.ev)
	}
	before := c.proj(nd)
	res := c.run(nd, fmt.Sprintf("%d UPD %s %s", nd.k, c.stTok(h), ids), func() string {
		nd.pool.Update(c.blocks[h].state, l)
		return "ok"
	}, nil)
	c.o.Count(fmt.Sprintf("upd-stale:same-height=%v:%s", h == nd.height, res))
	if res != "panic" || c.proj(nd) != before || nd.pool.State().LastBlockHeight != nd.height {
		c.o.Fail(c.step, "stale-update-applied", fmt.Sprintf("node=%d pool-height=%d update-height=%d res=%s", nd.k, nd.height, h, res))
	}
}

func (c *c19Case) opRestart(nd *c19Node) {
	if nd.metaH != nd.height {
		return
	}
	res := c.run(nd, fmt.Sprintf("%d RESTART %s", nd.k, c.stTok(nd.height)), func() string {
		pool, err := evidence.NewPool(nd.store, nd.db, c19BlockStore{nd.db})
		if err != nil {
			nd.dead = true
			return "err"
		}
		pool.SetLogger(log.New())
		if st := pool.State(); st.LastBlockHeight != nd.height {
			c.o.Fail(c.step, "restart-state", fmt.Sprintf("node=%d loaded=%d want=%d", nd.k, st.LastBlockHeight, nd.height))
		}
		nd.pool = pool
		c.newExec(nd)
		return "ok"
	}, nil)
	c.o.Count("restart:" + res)
}

// ---------------------------------------------------------------------------------------------
// evidence universe

func (c *c19Case) someBid() types.BlockID { return c.bids[c.r.Intn(len(c.bids))] }

func (c *c19Case) twoBids() (types.BlockID, types.BlockID) {
	a := c.someBid()
	for {
		b := c.someBid()
		if a.Key() != b.Key() {
			return a, b
		}
	}
}

func c19CopyVote(v *types.Vote) *types.Vote {
	w := *v
	w.Signature = append([]byte(nil), v.Signature...)
	return &w
}

// mkEvidence builds evidence about height h; kind "valid" is a real double-signing, every other
// kind is one mutation away from it.
func (c *c19Case) mkEvidence(h uint64, kind string) *c19Ev {
	if kind == "height-zero" || kind == "height-huge" {
		return c.mkOutOfRange(kind)
	}
	c.planSet(h)
	ms := c.members[h]
	m := ms[c.r.Intn(len(ms))]
	set := c.sets[h]
	idx, _ := set.GetByAddress(c19Keys[m.key].addr)
	typ := kproto.PrevoteType
	if c.r.Chance(1, 2) {
		typ = kproto.PrecommitType
	}
	round := uint32(1 + c.r.Intn(3))
	b1, b2 := c.twoBids()
	var bt time.Time
	if h >= 1 && h <= c.tip() {
		bt = c.blocks[h].time
	} else {
		bt = c19Genesis.Add(time.Duration(h) * time.Hour)
	}
	t1 := bt.Add(time.Duration(c.r.Intn(5000)) * time.Millisecond)
	t2 := bt.Add(time.Duration(c.r.Intn(5000)) * time.Millisecond)
	v1 := c.signVote(m.key, c19ChainID, typ, h, round, b1, t1, uint32(idx))
	v2 := c.signVote(m.key, c19ChainID, typ, h, round, b2, t2, uint32(idx))
	ev := types.NewDuplicateVoteEvidence(v1, v2, bt, set)
	if ev == nil {
		panic("nil evidence")
	}
	ev = &types.DuplicateVoteEvidence{VoteA: c19CopyVote(ev.VoteA), VoteB: c19CopyVote(ev.VoteB), TotalVotingPower: ev.TotalVotingPower, ValidatorPower: ev.ValidatorPower, Timestamp: ev.Timestamp}
	other := (m.key + 1 + c.r.Intn(4)) % 5
	switch kind {
	case "valid":
	case "swapped":
		ev.VoteA, ev.VoteB = ev.VoteB, ev.VoteA
	case "sameid":
		ev.VoteB = c.signVote(m.key, c19ChainID, typ, h, round, ev.VoteA.BlockID, t2, uint32(idx))
	case "sameid-samevote":
		ev.VoteB = c19CopyVote(ev.VoteA)
	case "height":
		ev.VoteB = c.signVote(m.key, c19ChainID, typ, h+1, round, ev.VoteB.BlockID, t2, uint32(idx))
	case "height-a":
		ev.VoteA = c.signVote(m.key, c19ChainID, typ, h+1, round, ev.VoteA.BlockID, t1, uint32(idx))
	case "round":
		ev.VoteB = c.signVote(m.key, c19ChainID, typ, h, round+1, ev.VoteB.BlockID, t2, uint32(idx))
	case "type":
		ot := kproto.PrevoteType
		if typ == kproto.PrevoteType {
			ot = kproto.PrecommitType
		}
		ev.VoteB = c.signVote(m.key, c19ChainID, ot, h, round, ev.VoteB.BlockID, t2, uint32(idx))
	case "badtype":
		ev.VoteA = c.signVote(m.key, c19ChainID, kproto.SignedMsgType(3), h, round, ev.VoteA.BlockID, t1, uint32(idx))
		ev.VoteB = c.signVote(m.key, c19ChainID, kproto.SignedMsgType(3), h, round, ev.VoteB.BlockID, t2, uint32(idx))
	case "index-a":
		ev.VoteA.ValidatorIndex += uint32(1 + c.r.Intn(3))
	case "index-b":
		ev.VoteB.ValidatorIndex += uint32(1 + c.r.Intn(3))
	case "index-both":
		d := uint32(1 + c.r.Intn(3))
		ev.VoteA.ValidatorIndex += d
		ev.VoteB.ValidatorIndex += d
	case "addr-b":
		ev.VoteB.ValidatorAddress = c19Keys[other].addr
	case "addr-both": // votes claim another validator, signatures by m
		ev.VoteA.ValidatorAddress = c19Keys[other].addr
		ev.VoteB.ValidatorAddress = c19Keys[other].addr
	case "sig-b-otherkey":
		w := c.signVote(other, c19ChainID, typ, h, round, ev.VoteB.BlockID, ev.VoteB.Timestamp, uint32(idx))
		ev.VoteB.Signature = w.Signature
	case "sig-a-otherkey":
		w := c.signVote(other, c19ChainID, typ, h, round, ev.VoteA.BlockID, ev.VoteA.Timestamp, uint32(idx))
		ev.VoteA.Signature = w.Signature
	case "sig-b-otherchain":
		w := c.signVote(m.key, c19OtherChain, typ, h, round, ev.VoteB.BlockID, ev.VoteB.Timestamp, uint32(idx))
		ev.VoteB.Signature = w.Signature
	case "sig-a-otherchain":
		w := c.signVote(m.key, c19OtherChain, typ, h, round, ev.VoteA.BlockID, ev.VoteA.Timestamp, uint32(idx))
		ev.VoteA.Signature = w.Signature
	case "sig-a-otherblock": // signature of a vote for a third block
		var b3 types.BlockID
		for {
			b3 = c.someBid()
			if b3.Key() != ev.VoteA.BlockID.Key() {
				break
			}
		}
		w := c.signVote(m.key, c19ChainID, typ, h, round, b3, ev.VoteA.Timestamp, uint32(idx))
		ev.VoteA.Signature = w.Signature
	case "sig-b-othertime":
		ev.VoteB.Timestamp = ev.VoteB.Timestamp.Add(time.Nanosecond)
	case "sig-garbage":
		ev.VoteB.Signature = bytes.Repeat([]byte{byte(1 + c.r.Intn(200))}, 65)
	case "sig-short":
		ev.VoteA.Signature = ev.VoteA.Signature[:20+c.r.Intn(40)]
	case "sig-empty":
		ev.VoteB.Signature = nil
	case "power":
		ev.ValidatorPower += int64(1 + c.r.Intn(3))
	case "power-less":
		ev.ValidatorPower -= 1
	case "total":
		ev.TotalVotingPower += int64(1 + c.r.Intn(3))
	case "total-less":
		ev.TotalVotingPower -= 1
	case "time-plus":
		ev.Timestamp = ev.Timestamp.Add(time.Nanosecond)
	case "time-minus":
		ev.Timestamp = ev.Timestamp.Add(-time.Second)
	case "time-otherblock":
		if h > 1 && h-1 <= c.tip() {
			ev.Timestamp = c.blocks[h-1].time
		} else {
			ev.Timestamp = ev.Timestamp.Add(time.Minute)
		}
	case "time-zero":
		ev.Timestamp = time.Time{}
	case "nonmember": // a key that is not in the set of that height, with made-up powers
		out := 5
		in := map[int]bool{}
		for _, x := range ms {
			in[x.key] = true
		}
		for k := 0; k < 5; k++ {
			if !in[k] && c.r.Chance(1, 2) {
				out = k
			}
		}
		ev.VoteA = c.signVote(out, c19ChainID, typ, h, round, ev.VoteA.BlockID, t1, 0)
		ev.VoteB = c.signVote(out, c19ChainID, typ, h, round, ev.VoteB.BlockID, t2, 0)
	case "incomplete-bid":
		bad := types.BlockID{Hash: ev.VoteB.BlockID.Hash}
		if bad.Hash.IsZero() {
			bad.Hash = common.BytesToHash([]byte{0xff, 1})
		}
		ev.VoteB = c.signVote(m.key, c19ChainID, typ, h, round, bad, t2, uint32(idx))
	default:
		panic("kind " + kind)
	}
	return c.register(ev, kind)
}

// mkOutOfRange: a well-formed double-signing by a member of the first validator set about a height the chain
// will never have: 0 (the genesis block has a header but no validator set) or a height at / beyond the
// int64 boundary (verify subtracts in int64, isExpired and the pruning height in uint64)
func (c *c19Case) mkOutOfRange(kind string) *c19Ev {
	c.planSet(1)
	m := c.members[1][c.r.Intn(len(c.members[1]))]
	idx, _ := c.sets[1].GetByAddress(c19Keys[m.key].addr)
	var h uint64
	bt := c19Genesis
	if kind == "height-huge" {
		h = []uint64{1 << 63, 1<<63 - 1, 1<<63 + 1 + uint64(c.r.Intn(5)), ^uint64(0), ^uint64(0) - uint64(c.r.Intn(200000))}[c.r.Intn(5)]
		if c.tip() >= 1 && c.r.Chance(1, 2) {
			bt = c.blocks[1+uint64(c.r.Intn(int(c.tip())))].time
		}
	}
	b1, b2 := c.twoBids()
	v1 := c.signVote(m.key, c19ChainID, kproto.PrecommitType, h, 1, b1, bt, uint32(idx))
	v2 := c.signVote(m.key, c19ChainID, kproto.PrecommitType, h, 1, b2, bt, uint32(idx))
	ev := types.NewDuplicateVoteEvidence(v1, v2, bt, c.sets[1])
	return c.register(ev, kind)
}

var c19Kinds = []string{"height-zero", "height-huge", "swapped", "sameid", "sameid-samevote", "height", "height-a", "round", "type", "badtype", "index-a", "index-b", "index-both",
	"addr-b", "addr-both", "sig-b-otherkey", "sig-a-otherkey", "sig-b-otherchain", "sig-a-otherchain", "sig-a-otherblock", "sig-b-othertime",
	"sig-garbage", "sig-short", "sig-empty", "power", "power-less", "total", "total-less", "time-plus", "time-minus", "time-otherblock", "time-zero",
	"nonmember", "incomplete-bid"}

func (c *c19Case) pickHeight() uint64 {
	tip := c.tip()
	switch c.r.Pick(70, 10, 10, 5, 5) {
	case 0:
		if tip == 0 {
			return 1
		}
		return 1 + uint64(c.r.Intn(int(tip)))
	case 1:
		return tip + 1
	case 2:
		if tip == 0 {
			return 1
		}
		return tip
	case 3:
		return tip + 2 + uint64(c.r.Intn(3))
	}
	return 1
}

func (c *c19Case) freshEvidence() *c19Ev {
	h := c.pickHeight()
	if c.r.Chance(11, 20) {
		return c.mkEvidence(h, "valid")
	}
	return c.mkEvidence(h, c19Kinds[c.r.Intn(len(c19Kinds))])
}

// replayOf: the committed double-signing again, with another validator index in one vote or the votes swapped
func (c *c19Case) replayOf(e *c19Ev) *c19Ev {
	cp := *e.ev
	cp.VoteA, cp.VoteB = c19CopyVote(e.ev.VoteA), c19CopyVote(e.ev.VoteB)
	switch c.r.Intn(3) {
	case 0:
		cp.VoteA.ValidatorIndex += uint32(1 + c.r.Intn(5))
	case 1:
		cp.VoteB.ValidatorIndex += uint32(1 + c.r.Intn(5))
	default: // the same two votes in the other order
		cp.VoteA, cp.VoteB = cp.VoteB, cp.VoteA
		return c.register(&cp, "replay-swapped")
	}
	return c.register(&cp, "replay-index")
}

func (c *c19Case) someEvidence() *c19Ev {
	if c.r.Chance(1, 8) {
		var com []*c19Ev
		for _, e := range c.evs {
			for _, nd := range c.nodes {
				if nd.commitLog[c19Key2(e)] > 0 && c.truth(e.ev) == "" {
					com = append(com, e)
					break
				}
			}
		}
		if len(com) > 0 {
			return c.replayOf(com[c.r.Intn(len(com))])
		}
	}
	if len(c.evs) == 0 || c.r.Chance(1, 2) {
		return c.freshEvidence()
	}
	return c.evs[c.r.Intn(len(c.evs))]
}

// ---------------------------------------------------------------------------------------------
// GEN: the real tryAddVote

type c19RecPool struct {
	pool *evidence.Pool
	got  []types.Evidence
}

func (p *c19RecPool) AddEvidenceFromConsensus(ev types.Evidence) error {
	p.got = append(p.got, ev)
	return p.pool.AddEvidenceFromConsensus(ev)
}
func (p *c19RecPool) Update(s cstate.LatestBlockState, ev types.EvidenceList) { p.pool.Update(s, ev) }
func (p *c19RecPool) CheckEvidence(l types.EvidenceList) error                 { return p.pool.CheckEvidence(l) }

type c19BlockOps struct {
	nd *c19Node
	c  *c19Case // set for the node's block executor: the application answers with the planned validator set
}

func (b *c19BlockOps) Base() uint64                                { return 0 }
func (b *c19BlockOps) Height() uint64                              { return b.nd.height }
func (b *c19BlockOps) LoadBlock(height uint64) *types.Block        { return rawdb.ReadBlock(b.nd.db, height) }
func (b *c19BlockOps) LoadBlockCommit(height uint64) *types.Commit { return nil }
func (b *c19BlockOps) LoadSeenCommit(height uint64) *types.Commit  { return rawdb.ReadSeenCommit(b.nd.db, height) }
func (b *c19BlockOps) CreateProposalBlock(height uint64, state cstate.LatestBlockState, proposerAddr common.Address, commit *types.Commit) (*types.Block, *types.PartSet) {
	return nil, nil
}
func (b *c19BlockOps) CommitAndValidateBlockTxs(block *types.Block, lastCommit stypes.LastCommitInfo, byzVals []stypes.Evidence) ([]*types.Validator, common.Hash, error) {
	if b.c == nil {
		return nil, common.Hash{}, nil
	}
	// the staking contract's answer: the validators of height+2 as planned
	h := block.Height() + 2
	b.c.planSet(h)
	var vals []*types.Validator
	for _, m := range b.c.members[h] {
		vals = append(vals, types.NewValidator(c19Keys[m.key].addr, m.power))
	}
	return vals, common.Hash{}, nil
}
func (b *c19BlockOps) SaveBlock(block *types.Block, partSet *types.PartSet, seenCommit *types.Commit) {}
func (b *c19BlockOps) LoadBlockPart(height uint64, index int) *types.Part                          { return nil }
func (b *c19BlockOps) LoadBlockMeta(height uint64) *types.BlockMeta                                { return rawdb.ReadBlockMeta(b.nd.db, height) }
func (b *c19BlockOps) Config() *configs.ChainConfig                                                { return configs.TestChainConfig }

type c19Ticker struct{}

func (c19Ticker) Start() error                  { return nil }
func (c19Ticker) Stop() error                   { return nil }
func (c19Ticker) Chan() <-chan timeoutInfo      { return nil }
func (c19Ticker) ScheduleTimeout(timeoutInfo)   {}
func (c19Ticker) SetLogger(log.Logger)          {}

func (c *c19Case) valsTok(h uint64) string {
	if h == 0 {
		return "0"
	}
	s := fmt.Sprint(len(c.members[h]))
	for _, m := range c.members[h] {
		s += fmt.Sprintf(" %d %d", m.key+1, m.power)
	}
	return s
}

// opGen builds a ConsensusState for node nd at its current height and lets a validator equivocate.
func (c *c19Case) opGen(nd *c19Node) {
	if nd.metaH != nd.height {
		return
	}
	L := nd.height
	H := L + 1
	c.planSet(H + 2)
	late := L >= 1 && c.r.Chance(1, 4)
	st := c.stateAt(L)
	rec := &c19RecPool{pool: nd.pool}
	bo := &c19BlockOps{nd: nd}
	logger := log.New()
	be := cstate.NewBlockExecutor(nd.store, logger, rec, bo)
	var cs *ConsensusState
	for try := 0; cs == nil && try < 50; try++ {
		c19Guard(func() { cs = NewConsensusState(logger, configs.TestConsensusConfig(), st.Copy(), bo, be, rec) })
	}
	if cs == nil {
		panic("cannot build ConsensusState")
	}
	cs.config.IsSkipTimeoutCommit = false
	cs.timeoutTicker = c19Ticker{}
	eb := types.NewEventBus()
	eb.SetLogger(logger)
	if err := eb.Start(); err != nil {
		panic(err)
	}
	defer eb.Stop()
	cs.SetEventBus(eb)

	// which height the equivocation is about, and who equivocates
	vh := H
	if late {
		vh = L
	}
	set := c.sets[vh]
	total := c.totalOf(vh)
	var cand []int
	for i, v := range set.Validators {
		if 3*v.VotingPower < total { // alone it never forms +2/3 of anything
			if late && (c.blocks[L].precoms[i] == nil || nd.seen[L].Signatures[i].Absent()) {
				continue
			}
			cand = append(cand, i)
		}
	}
	if len(cand) == 0 {
		c.o.Count("gen:skipped")
		return
	}
	ei := cand[c.r.Intn(len(cand))]
	ek := c.keyOf(set.Validators[ei].Address)
	me := 5
	switch c.r.Pick(70, 20, 10) {
	case 1:
		me = c.keyOf(c.sets[H].Validators[c.r.Intn(len(c.sets[H].Validators))].Address)
	case 2:
		me = ek
	}
	cs.SetPrivValidator(c19Keys[me].pv)

	// the node's LastCommit as the harness knows it: the seen commit, plus late precommits
	type lc struct {
		addr common.Address
		ts   time.Time
	}
	var lastCommit []lc
	if L >= 1 {
		for _, s := range nd.seen[L].Signatures {
			if !s.Absent() {
				lastCommit = append(lastCommit, lc{s.ValidatorAddress, s.Timestamp})
			}
		}
		if c.r.Chance(1, 3) { // a late precommit of a validator the node had not seen
			for i, s := range nd.seen[L].Signatures {
				if s.Absent() && c.blocks[L].precoms[i] != nil && i != ei {
					v := c.blocks[L].precoms[i]
					var added bool
					c19Guard(func() { added, _ = cs.tryAddVote(v, p2p.ID("late")) })
					if added || cs.LastCommit.GetByIndex(uint32(i)) != nil {
						lastCommit = append(lastCommit, lc{v.ValidatorAddress, v.Timestamp})
						c.o.Count("gen:late-precommit-added")
					}
					break
				}
			}
		}
	}

	var va, vb *types.Vote
	now := st.LastBlockTime.Add(2 * time.Second)
	if late {
		va = c.blocks[L].precoms[ei]
		var b2 types.BlockID
		for {
			b2 = c.someBid()
			if b2.Key() != va.BlockID.Key() {
				break
			}
		}
		vb = c.signVote(ek, c19ChainID, kproto.PrecommitType, L, 1, b2, now, uint32(ei))
	} else {
		typ := kproto.PrevoteType
		if c.r.Chance(1, 2) {
			typ = kproto.PrecommitType
		}
		round := uint32(1 + c.r.Intn(2))
		b1, b2 := c.twoBids()
		va = c.signVote(ek, c19ChainID, typ, H, round, b1, now, uint32(ei))
		vb = c.signVote(ek, c19ChainID, typ, H, round, b2, now.Add(time.Millisecond), uint32(ei))
	}
	if cs.Step != cstypes.RoundStepNewHeight {
		panic("unexpected step")
	}

	c.step++
	before := c.pendingSet(nd)
	var err2 error
	pan := ""
	if !late {
		var e1 error
		var a1 bool
		pan = c19Guard(func() { a1, e1 = cs.tryAddVote(va, p2p.ID("peer")) })
		if pan != "" || e1 != nil || !a1 {
			c.o.Fail(c.step, "gen-first-vote-not-added", fmt.Sprintf("node=%d err=%v panic=%s", nd.k, e1, pan))
			return
		}
	}
	pan = c19Guard(func() { _, err2 = cs.tryAddVote(vb, p2p.ID("peer")) })
	_, conflict := err2.(*types.ErrVoteConflictingVotes)
	// a typed nil handed to the pool is the GNil outcome of the model
	var got *types.DuplicateVoteEvidence
	gotNil := false
	for _, g := range rec.got {
		if d, ok := g.(*types.DuplicateVoteEvidence); ok {
			if d == nil {
				gotNil = true
			} else {
				got = d
			}
		}
	}
	res := "ok"
	genS := " gen:self"
	var e *c19Ev
	switch {
	case pan != "":
		res = "panic"
		genS = " gen:nil"
		if !gotNil {
			genS = " gen:panic:" + strings.ReplaceAll(pan, " ", "_")
		}
		c.o.Fail(c.step, "consensus-panic-on-conflicting-vote", fmt.Sprintf("node=%d late=%v equivocator=%d in-next-set=%v panic=%q", nd.k, late, ek+1, c.sets[H].HasAddress(c19Keys[ek].addr), pan))
	case got != nil:
		e = c.register(got, "generated")
		e.genBy = nd.k
		if late {
			e.kind = "generated-late"
		}
		genS = fmt.Sprintf(" gen:%d,%d,%d,%d,%s", c.sigs[string(got.VoteA.Signature)].id, c.sigs[string(got.VoteB.Signature)].id,
			got.TotalVotingPower, got.ValidatorPower, c19Nanos(got.Timestamp))
		nd.accepted[c19Key2(e)] = true
		nd.fromCons[c19Key2(e)] = true
	default:
		if !conflict && me != ek {
			c.o.Fail(c.step, "gen-no-conflict", fmt.Sprintf("node=%d err=%v", nd.k, err2))
		}
		if conflict && me != ek {
			// no evidence although a conflict was reported: NewDuplicateVoteEvidence returned nil
			genS = " gen:nil"
		}
	}
	// model input
	lt := fmt.Sprint(len(lastCommit))
	for _, x := range lastCommit {
		lt += fmt.Sprintf(" %d %s", c.aid(x.addr), c19Nanos(x.ts))
	}
	newid, hash, size := len(c.evs), uint64(0), 0
	if e != nil {
		newid, hash, size = e.id, e.h8, c19EvSize(e.ev)
		e.declared = true
	}
	in := fmt.Sprintf("%d GEN %d 1 %s %d %s %s %s %d %d %s %s", nd.k, newid, c19Nanos(st.LastBlockTime), me+1, lt, c.valsTok(L), c.valsTok(H), hash, size, c.voteTok(va), c.voteTok(vb))
	c.o.Op(in, res+genS+" "+c.proj(nd))
	c.afterOp(nd, before, nil)
	gk := strings.TrimSpace(genS)
	if e != nil {
		gk = "gen:evidence"
	}
	c.o.Count(fmt.Sprintf("gen:late=%v:%s", late, strings.SplitN(gk, ":", 3)[1]))
	if e != nil {
		c.gens = append(c.gens, e)
		c.o.Mark(fmt.Sprintf("gen/late=%v/me-validator=%v", late, me != 5))
		// the generator's obligations, checked from the harness's knowledge once the block exists: see checkGenerated
	} else if me != ek && pan == "" {
		// a correct node saw the double-signing and produced no evidence at all
		c.o.Fail(c.step, "generated-rejected:nil", fmt.Sprintf("generator=%d late=%v equivocator=%d in-set-of-current-height=%v (tryAddVote builds the evidence from cs.Validators)", nd.k, late, ek+1, c.sets[H].HasAddress(c19Keys[ek].addr)))
	}
}

// checkGenerated: evidence generated by a correct node must be accepted by every other correct node
// that has the block of that height (same chain), unless it has expired there.
func (c *c19Case) checkGenerated() {
	for _, e := range c.gens {
		h := e.ev.Height()
		for _, nd := range c.nodes {
			if nd.k == e.genBy || e.genCheck[nd.k] || nd.dead || nd.height < h || nd.metaH != nd.height {
				continue
			}
			e.genCheck[nd.k] = true
			if c.expiredAt(nd.height, h) || nd.commitLog[c19Key2(e)] > 0 || c.isPending(nd, e) {
				continue
			}
			viaBlock := c.r.Chance(1, 2)
			var res string
			if viaBlock {
				res = c.opBlock(nd, []*c19Ev{e}, "generated")
			} else {
				res = c.opPeer(nd, e)
			}
			if res != "ok" {
				c.genRej++
				why := c.truth(e.ev)
				c.o.Fail(c.step, "generated-rejected:"+strings.TrimPrefix(res, "inv:"), fmt.Sprintf("generator=%d verifier=%d kind=%s ev=%d h=%d truth=%q evtime=%s blocktime=%s", e.genBy, nd.k, e.kind, e.id, h, why, c19Nanos(e.ev.Timestamp), c19Nanos(c.blocks[h].time)))
			} else {
				c.o.Count("generated-accepted")
			}
		}
	}
}

// ---------------------------------------------------------------------------------------------
// proposing

// proposalEvidence is CreateProposalBlock's evidence selection (mainchain/blockchain/block_operations.go):
//   _, maxEvidenceBytes := types.MaxEvidencePerBlock(lastState.ConsensusParams.Evidence.MaxBytes)
//   evidence, _ := bo.evPool.PendingEvidence(maxEvidenceBytes)
func (c *c19Case) proposalEvidence(nd *c19Node) []*c19Ev {
	_, maxBytes := types.MaxEvidencePerBlock(c.params.Evidence.MaxBytes)
	maxNumEvidence := maxBytes
	evs := c.opPending(nd, maxBytes)
	fam := c.family(nd, "evidence-pending")
	decodable := true // a stored value that fails ValidateBasic (only the harness's raw CONS puts one there) makes the listing fail
	for _, k := range fam {
		for _, e := range c.evs {
			if c19Key2(e) == k && e.ev.ValidateBasic() != nil {
				decodable = false
			}
		}
	}
	if len(fam) > 0 && len(evs) == 0 && decodable {
		first := ""
		for _, e := range c.evs {
			if c19Key2(e) == fam[0] {
				first = fmt.Sprintf("first-size=%d", c19EvSize(e.ev)+3)
			}
		}
		c.o.Fail(c.step, "pending-not-proposed", fmt.Sprintf("node=%d pending=%d proposed=0 PendingEvidence(maxBytes=%d) evidence-max-bytes=%d block-budget=%d %s", nd.k, len(fam), maxNumEvidence, c.params.Evidence.MaxBytes, maxBytes, first))
	}
	return evs
}

func (c *c19Case) tipNodes() []*c19Node {
	var l []*c19Node
	for _, nd := range c.nodes {
		if !nd.dead && nd.height == c.tip() && nd.metaH == nd.height {
			l = append(l, nd)
		}
	}
	return l
}

// extend creates the next block: a proposer picks evidence, every node at the tip validates it
func (c *c19Case) extend() {
	for _, nd := range c.nodes {
		for !nd.dead && nd.height < c.tip() {
			c.advance(nd)
		}
	}
	tips := c.tipNodes()
	if len(tips) == 0 {
		return
	}
	prop := tips[c.r.Intn(len(tips))]
	var evs []*c19Ev
	why := ""
	switch c.r.Pick(15, 45, 15, 25) {
	case 0:
		why = "proposer-default"
		evs = c.proposalEvidence(prop)
	case 1:
		why = "proposer-all"
		evs = c.opPending(prop, -1)
		if len(evs) > 3 {
			evs = evs[:3]
		}
	case 2:
		why = "empty"
	case 3:
		why = "adversarial"
		n := 1 + c.r.Intn(3)
		for i := 0; i < n; i++ {
			if len(evs) > 0 && c.r.Chance(1, 4) {
				evs = append(evs, evs[c.r.Intn(len(evs))]) // duplicate in the list
			} else if c.r.Chance(1, 3) && len(c.evs) > 0 {
				evs = append(evs, c.evs[c.r.Intn(len(c.evs))])
			} else {
				evs = append(evs, c.freshEvidence())
			}
		}
	}
	if why == "proposer-default" || why == "proposer-all" {
		var clean []*c19Ev
		for _, e := range evs {
			if !prop.tainted[c19Key2(e)] {
				clean = append(clean, e)
			}
		}
		evs = clean
	}
	cand, candT := c.mkBlock(c.tip()+1, evs)
	if len(evs) > 0 {
		verdict := map[string]bool{}
		all := true
		for _, nd := range tips {
			res := c.opBlockOf(nd, evs, why, cand)
			verdict[res] = true
			if res != "ok" {
				all = false
			}
		}
		taint := false
		for _, nd := range tips {
			for _, e := range evs {
				if nd.tainted[c19Key2(e)] {
					taint = true
				}
			}
		}
		if len(verdict) > 1 && verdict["ok"] && !taint {
			var vs []string
			for v := range verdict {
				vs = append(vs, v)
			}
			sort.Strings(vs)
			kinds := ""
			for _, e := range evs {
				kinds += e.kind + ","
			}
			origin := ""
			for _, nd := range tips {
				for _, e := range evs {
					if nd.fromCons[c19Key2(e)] && c.truth(e.ev) != "" {
						origin = " origin=consensus" // an unverified, unsound item put into a pool by tryAddVote is in the list
					}
				}
			}
			c.o.Fail(c.step, "block-validity-disagreement", fmt.Sprintf("height=%d proposer=%d why=%s kinds=%s verdicts=%v%s", c.tip()+1, prop.k, why, kinds, vs, origin))
		}
		if !all {
			c.o.Count("proposal-rejected:" + why)
			c.newBlock(nil)
			return
		}
		c.o.Count("proposal-accepted:" + why)
	} else if c.r.Chance(1, 2) {
		// an empty proposal validated by the nodes at the tip (their ApplyBlock then hits the validation cache)
		for _, nd := range tips {
			if c.r.Chance(2, 3) {
				c.opBlockOf(nd, nil, why, cand)
			}
		}
	}
	c.adopt(cand, candT, evs)
}

// ---------------------------------------------------------------------------------------------

func (c *c19Case) script(maxOps int) {
	for i := 0; i < maxOps; i++ {
		var live []*c19Node
		for _, nd := range c.nodes {
			if !nd.dead {
				live = append(live, nd)
			}
		}
		if len(live) == 0 {
			return
		}
		nd := live[c.r.Intn(len(live))]
		switch c.r.Pick(26, 22, 6, 10, 8, 5, 5, 3, 3, 2) {
		case 0: // the chain grows / a node catches up
			if nd.height == c.tip() {
				if c.tip() < 14 {
					c.extend()
				}
			}
			c.advance(nd)
			if c.r.Chance(2, 3) {
				for _, o := range live {
					if o != nd && o.height < c.tip() {
						c.advance(o)
					}
				}
			}
		case 1:
			c.opPeer(nd, c.someEvidence())
		case 2: // gossip: what one node holds reaches the other
			src := live[c.r.Intn(len(live))]
			l, _ := src.pool.PendingEvidence(-1)
			if len(l) > 0 {
				if e, ok := c.byHash[l[c.r.Intn(len(l))].Hash()]; ok {
					c.opPeer(nd, e)
				}
			}
		case 3:
			c.opGen(nd)
		case 4:
			n := 1 + c.r.Intn(3)
			if c.r.Chance(1, 6) {
				n = 4 + c.r.Intn(2)
			}
			var evs []*c19Ev
			for j := 0; j < n; j++ {
				if len(evs) > 0 && c.r.Chance(1, 4) {
					evs = append(evs, evs[c.r.Intn(len(evs))]) // a repetition of any earlier element (first, last, middle)
					c.o.Count(fmt.Sprintf("block-dup:len=%d", len(evs)))
				} else {
					evs = append(evs, c.someEvidence())
				}
			}
			c.opBlock(nd, evs, "loose")
		case 5:
			mb := int64(-1)
			switch c.r.Intn(4) {
			case 0:
				mb = int64(c.r.Intn(1500))
			case 1:
				mb = 0
			}
			c.opPending(nd, mb)
		case 6:
			c.opRestart(nd)
		case 8: // PendingEvidence with the byte cap at, just below and just above the size of the first k entries
			c.opPendingBoundary(nd)
		case 9: // Update with a state that is not newer than the pool's (the sanity check panics, nothing changes)
			c.opStaleUpdate(nd)
		case 7: // consensus hands over evidence it built itself (only evidence that is not committed there)
			e := c.someEvidence()
			if nd.commitLog[c19Key2(e)] == 0 {
				c.opCons(nd, e)
			}
		}
		c.checkGenerated()
	}
}

func c19FactsBody() string {
	p := configs.DefaultConsensusParams()
	maxNum, maxBytes := types.MaxEvidencePerBlock(p.Evidence.MaxBytes)
	s := "From Coq Require Import ZArith.\n"
	s += fmt.Sprintf("Definition default_max_age_num_blocks : Z := %d%%Z.\n", p.Evidence.MaxAgeNumBlocks)
	s += fmt.Sprintf("Definition default_max_age_duration : Z := %d%%Z.\n", int64(p.Evidence.MaxAgeDuration))
	s += fmt.Sprintf("Definition default_evidence_max_bytes : Z := %d%%Z.\n", p.Evidence.MaxBytes)
	s += fmt.Sprintf("Definition default_block_max_bytes : Z := %d%%Z.\n", p.Block.MaxBytes)
	s += fmt.Sprintf("Definition max_evidence_bytes : Z := %d%%Z.\n", types.MaxEvidenceBytes)
	s += fmt.Sprintf("Definition max_evidence_bytes_denominator : Z := %d%%Z.\n", types.MaxEvidenceBytesDenominator)
	s += "(* MaxEvidencePerBlock(Evidence.MaxBytes) = (count, bytes); CreateProposalBlock passes the bytes to PendingEvidence (commit e536522) *)\n"
	s += fmt.Sprintf("Definition default_proposal_evidence_count : Z := %d%%Z.\n", maxNum)
	s += fmt.Sprintf("Definition default_proposal_pending_cap : Z := %d%%Z.\n", maxBytes)
	return s
}

func TestVerifC19(t *testing.T) {
	if *c19Facts != "" {
		body := "(* GENERATED from /repo's working tree by the harness (-facts); do not edit. *)\n" + c19FactsBody()
		if err := os.WriteFile(*c19Facts, []byte(body), 0o644); err != nil {
			t.Fatal(err)
		}
		return
	}
	if *c19Dir == "" {
		t.Skip("-out required")
	}
	log.Root().SetHandler(log.DiscardHandler())
	c19InitKeys()
	o := c19Open(*c19Dir)
	o.rule = "distinct (op, evidence kind(s), result class) triples; generation modes"
	root := c19NewRand(*c19Seed)
	for i := 0; i < *c19N; i++ {
		if *c19Only >= 0 && *c19Only != i {
			continue
		}
		r := root.Fork(uint64(i))
		c := &c19Case{o: o, r: r, members: map[uint64][]c19Member{}, sets: map[uint64]*types.ValidatorSet{}, sigs: map[string]*c19Sig{},
			addrID: map[common.Address]int{}, byHash: map[common.Hash]*c19Ev{}}
		for k, key := range c19Keys {
			c.addrID[key.addr] = k + 1
		}
		c.params = *configs.DefaultConsensusParams()
		if !r.Chance(1, 10) {
			c.params.Evidence.MaxAgeNumBlocks = int64(1 + r.Intn(4))
			c.params.Evidence.MaxAgeDuration = time.Duration(3+r.Intn(40)) * time.Second
		}
		if r.Chance(1, 4) {
			// whole-second block times and limits: ageDuration == MaxAgeDuration and pruningTime == LastBlockTime happen
			c.aligned = true
			c.params.Evidence.MaxAgeNumBlocks = int64(1 + r.Intn(3))
			c.params.Evidence.MaxAgeDuration = time.Duration(2+r.Intn(7)) * time.Second
			o.Count("mode:aligned-times")
		}
		if r.Chance(1, 6) {
			c.params.Evidence.MaxBytes = 100 * 1048576 // large enough for the proposer's cap to let evidence in
		}
		if r.Chance(1, 12) {
			c.params.Block.MaxBytes = int64(484*10) * int64(1+r.Intn(2)) // at most 1 or 2 pieces of evidence per block
		}
		// block ids: nil, random ones, and ids that differ only in the parts total (9 vs 10: decimal order)
		c.bids = []types.BlockID{{}}
		for j := 0; j < 3; j++ {
			c.bids = append(c.bids, types.BlockID{Hash: common.BytesToHash(crypto.Keccak256([]byte(fmt.Sprintf("b%d-%d", i, j)))),
				PartsHeader: types.PartSetHeader{Total: uint32(1 + r.Intn(3)), Hash: common.BytesToHash(crypto.Keccak256([]byte(fmt.Sprintf("p%d-%d", i, j))))}})
		}
		x := c.bids[1]
		x.PartsHeader.Total = 9
		y := x
		y.PartsHeader.Total = 10
		z := x
		z.PartsHeader.Hash = common.BytesToHash(crypto.Keccak256([]byte("other-parts")))
		c.bids = append(c.bids, x, y, z)
		// genesis block
		c.planSet(2)
		ghd := &types.Header{Height: 0, Time: c19Genesis, GasLimit: configs.BlockGasLimit, ValidatorsHash: c.sets[1].Hash(), NextValidatorsHash: c.sets[1].Hash()}
		gb := types.NewBlock(ghd, nil, &types.Commit{}, nil, trie.NewStackTrie(nil))
		gp := gb.MakePartSet(types.BlockPartSizeBytes)
		c.blocks = []*c19Block{{height: 0, block: gb, parts: gp, bid: types.BlockID{Hash: gb.Hash(), PartsHeader: gp.Header()}, time: c19Genesis}}
		o.Case(i, fmt.Sprintf("CASE %d", i))
		nn := 2
		if r.Chance(1, 5) {
			nn = 3
		}
		c.nodes = make([]*c19Node, nn)
		for k := 0; k < nn; k++ {
			c.nodes[k] = c.newNode(k)
		}
		ops := 40 + r.Intn(60)
		if *c19Tier == "thorough" && r.Chance(1, 4) {
			ops *= 2
		}
		c.script(ops)
		for _, nd := range c.nodes {
			nd.eb.Stop()
		}
		o.Count(fmt.Sprintf("final-tip:%d", c.tip()))
		o.Count(fmt.Sprintf("nodes:%d", nn))
		committed := 0
		for _, nd := range c.nodes {
			committed += len(nd.commitLog)
		}
		if committed > 0 {
			o.Count("cases-with-committed-evidence")
		}
	}
	o.Close()
}

// ---------------------------------------------------------------------------------------------
// TestVerifC19Repro: the smallest deterministic instances of the C19 findings, on the real code
// (go test -tags verif -overlay ... -run TestVerifC19Repro -v ./consensus/ -out <dir>).

func (c *c19Case) commitOf(h uint64, idxs []int) *types.Commit {
	vs := types.NewVoteSet(c19ChainID, h, 1, kproto.PrecommitType, c.sets[h])
	for _, i := range idxs {
		if _, err := vs.AddVote(c.blocks[h].precoms[i]); err != nil {
			panic(err)
		}
	}
	return vs.MakeCommit()
}

func TestVerifC19Repro(t *testing.T) {
	if *c19Dir == "" {
		t.Skip("-out required")
	}
	log.Root().SetHandler(log.DiscardHandler())
	c19InitKeys()
	o := c19Open(filepath.Join(*c19Dir, "repro"))
	defer o.Close()
	c := &c19Case{o: o, r: c19NewRand(7), members: map[uint64][]c19Member{}, sets: map[uint64]*types.ValidatorSet{}, sigs: map[string]*c19Sig{},
		addrID: map[common.Address]int{}, byHash: map[common.Hash]*c19Ev{}}
	for k, key := range c19Keys {
		c.addrID[key.addr] = k + 1
	}
	c.params = *configs.DefaultConsensusParams()
	// four validators of power 10 at every height
	for h := uint64(1); h <= 8; h++ {
		var ms []c19Member
		var vals []*types.Validator
		for k := 0; k < 4; k++ {
			ms = append(ms, c19Member{key: k, power: 10})
			vals = append(vals, types.NewValidator(c19Keys[k].addr, 10))
		}
		c.members[h] = ms
		c.sets[h] = types.NewValidatorSet(vals)
	}
	c.bids = []types.BlockID{{}, {Hash: common.BytesToHash([]byte{1}), PartsHeader: types.PartSetHeader{Total: 1, Hash: common.BytesToHash([]byte{2})}},
		{Hash: common.BytesToHash([]byte{3}), PartsHeader: types.PartSetHeader{Total: 1, Hash: common.BytesToHash([]byte{4})}}}
	ghd := &types.Header{Height: 0, Time: c19Genesis, GasLimit: configs.BlockGasLimit, ValidatorsHash: c.sets[1].Hash(), NextValidatorsHash: c.sets[1].Hash()}
	gb := types.NewBlock(ghd, nil, &types.Commit{}, nil, trie.NewStackTrie(nil))
	gp := gb.MakePartSet(types.BlockPartSizeBytes)
	c.blocks = []*c19Block{{height: 0, block: gb, parts: gp, bid: types.BlockID{Hash: gb.Hash(), PartsHeader: gp.Header()}, time: c19Genesis}}
	o.Case(0, "CASE 0")
	c.nodes = make([]*c19Node, 2)
	A, B := c.newNode(0), c.newNode(1)
	c.nodes[0], c.nodes[1] = A, B

	// block 1, then precommits for it with four distinct timestamps
	b1 := c.newBlock(nil)
	for i := range b1.precoms {
		b1.precoms[i] = c.signVote(c.keyOf(c.sets[1].Validators[i].Address), c19ChainID, kproto.PrecommitType, 1, 1, b1.bid, b1.time.Add(time.Duration(i+1)*time.Second), uint32(i))
	}
	apply := func(nd *c19Node, h uint64, seen *types.Commit) {
		blk := c.blocks[h]
		rawdb.WriteBlock(nd.db, blk.block, blk.parts, seen)
		nd.store.Save(blk.state)
		rawdb.WriteHeadBlockHash(nd.db, blk.block.Hash())
		var l types.EvidenceList
		for _, e := range blk.evs {
			l = append(l, e.ev)
		}
		nd.pool.Update(blk.state, l)
		nd.height, nd.metaH, nd.seen[h] = h, h, seen
	}
	// A saw the precommits of validators 0,1,2 for block 1; B saw 1,2,3
	apply(A, 1, c.commitOf(1, []int{0, 1, 2}))
	apply(B, 1, c.commitOf(1, []int{1, 2, 3}))

	// A is at height 2 and receives two conflicting prevotes of validator index 3 for height 2
	gen := func(nd *c19Node, vh uint64, typ kproto.SignedMsgType, first *types.Vote) types.Evidence {
		rec := &c19RecPool{pool: nd.pool}
		bo := &c19BlockOps{nd: nd}
		logger := log.New()
		be := cstate.NewBlockExecutor(nd.store, logger, rec, bo)
		var cs *ConsensusState
		for try := 0; cs == nil && try < 50; try++ {
			c19Guard(func() { cs = NewConsensusState(logger, configs.TestConsensusConfig(), c.stateAt(nd.height).Copy(), bo, be, rec) })
		}
		cs.timeoutTicker = c19Ticker{}
		eb := types.NewEventBus()
		eb.SetLogger(logger)
		eb.Start()
		defer eb.Stop()
		cs.SetEventBus(eb)
		cs.SetPrivValidator(c19Keys[5].pv)
		ek := c.keyOf(c.sets[vh].Validators[3].Address)
		now := c.blocks[nd.height].time.Add(5 * time.Second)
		if first == nil {
			first = c.signVote(ek, c19ChainID, typ, vh, 1, c.bids[1], now, 3)
			if added, err := cs.tryAddVote(first, "p"); !added || err != nil {
				t.Fatalf("first vote: %v %v", added, err)
			}
		}
		second := c.signVote(ek, c19ChainID, typ, vh, 1, c.bids[2], now, 3)
		_, err := cs.tryAddVote(second, "p")
		if _, ok := err.(*types.ErrVoteConflictingVotes); !ok {
			t.Fatalf("no conflict: %v", err)
		}
		if len(rec.got) != 1 {
			t.Fatalf("evidence handed to the pool: %d", len(rec.got))
		}
		return rec.got[0]
	}
	ev := gen(A, 2, kproto.PrevoteType, nil)
	fmt.Printf("D1  A's evidence for height 2: timestamp %v (= weighted median of A's own LastCommit)\n", ev.Time())

	// block 2 is proposed by someone who saw precommits 1,2,3 of block 1; both nodes commit it
	h := &types.Header{Height: 2, LastBlockID: b1.bid, ProposerAddress: c.sets[2].Validators[0].Address, ValidatorsHash: c.sets[2].Hash(), NextValidatorsHash: c.sets[3].Hash(), GasLimit: configs.BlockGasLimit}
	commit := c.commitOf(1, []int{1, 2, 3})
	h.Time = cstate.MedianTime(commit, c.sets[1])
	blk := types.NewBlock(h, nil, commit, nil, trie.NewStackTrie(nil))
	parts := blk.MakePartSet(types.BlockPartSizeBytes)
	b2 := &c19Block{height: 2, block: blk, parts: parts, bid: types.BlockID{Hash: blk.Hash(), PartsHeader: parts.Header()}, time: h.Time}
	c.blocks = append(c.blocks, b2)
	b2.state = c.stateAt(2)
	for i := range c.sets[2].Validators {
		b2.precoms = append(b2.precoms, c.signVote(c.keyOf(c.sets[2].Validators[i].Address), c19ChainID, kproto.PrecommitType, 2, 1, b2.bid, b2.time.Add(time.Duration(i+1)*time.Second), uint32(i)))
	}
	fmt.Printf("D1  block 2 header time:       %v (= weighted median of the proposer's LastCommit)\n", b2.time)
	errB0 := B.pool.CheckEvidence(types.EvidenceList{ev})
	fmt.Printf("D3  before block 2 exists, B.CheckEvidence([evA]) (A proposing its evidence at height 2): %v\n", c19Class(errB0))
	apply(A, 2, c.commitOf(2, []int{1, 2, 3}))
	apply(B, 2, c.commitOf(2, []int{0, 1, 2}))
	fmt.Printf("D1  after block 2, B.AddEvidence(evA):    %v\n", c19Class(B.pool.AddEvidence(ev)))
	fmt.Printf("D1  after block 2, B.CheckEvidence([evA]): %v\n", c19Class(B.pool.CheckEvidence(types.EvidenceList{ev})))
	fmt.Printf("D1  after block 2, A.CheckEvidence([evA]): %v (pending at A: fast path)\n", c19Class(A.pool.CheckEvidence(types.EvidenceList{ev})))
	fmt.Printf("    harness truth of evA: %q\n", c.truth(ev.(*types.DuplicateVoteEvidence)))

	// D2: a late conflicting precommit for height 2 while A waits in NewHeight of height 3
	ev2 := gen(A, 2, kproto.PrecommitType, b2.precoms[3])
	fmt.Printf("D2  late precommit conflict at height 2: evidence timestamp %v, block 2 time %v, B.AddEvidence: %v\n", ev2.Time(), b2.time, c19Class(B.pool.AddEvidence(ev2)))

	// D4: the proposer's selection with the default parameters
	good := c.mkEvidence(2, "valid")
	fmt.Printf("D4  B.AddEvidence(valid evidence of height 2): %v, proto size %d\n", c19Class(B.pool.AddEvidence(good.ev)), c19EvSize(good.ev))
	maxNum, maxBytes := types.MaxEvidencePerBlock(c.params.Evidence.MaxBytes)
	l, _ := B.pool.PendingEvidence(maxNum)
	all, _ := B.pool.PendingEvidence(-1)
	fmt.Printf("D4  MaxEvidencePerBlock(%d) = (num %d, bytes %d); CreateProposalBlock calls PendingEvidence(%d): %d of %d pending evidence proposed\n",
		c.params.Evidence.MaxBytes, maxNum, maxBytes, maxNum, len(l), len(all))

	// D5: the same double-signing accepted and committed again with another validator index
	replay := *good.ev
	replay.VoteA = c19CopyVote(good.ev.VoteA)
	replay.VoteA.ValidatorIndex = 7
	B.pool.Update(func() cstate.LatestBlockState { s := c.stateAt(2); s.LastBlockHeight = 3; return s }(), types.EvidenceList{good.ev})
	fmt.Printf("D5  after committing the evidence, B.CheckEvidence([same]) : %v\n", c19Class(B.pool.CheckEvidence(types.EvidenceList{good.ev})))
	fmt.Printf("D5  same votes, VoteA.ValidatorIndex 3 -> 7: hash changes %v, B.CheckEvidence: %v, B.AddEvidence: %v\n",
		replay.Hash() != good.ev.Hash(), c19Class(B.pool.CheckEvidence(types.EvidenceList{&replay})), c19Class(B.pool.AddEvidence(&replay)))
}
