//go:build verif

// C20 harness, lib/p2p half (injected with -overlay, tag verif): what the transport-level cases
// of harness/overlay/conn/verif_c20x_test.go (package conn_test) need from this package's
// unexported parts.  Nothing here changes the behaviour of the transport.
package p2p

import (
	"crypto/ecdsa"
	"net"
	"time"

	"github.com/kardiachain/go-kardia/lib/p2p/conn"
)

// VerifC20Dial is MultiplexTransport.Dial with an empty peer configuration (the peer is never started).
func VerifC20Dial(mt *MultiplexTransport, addr NetAddress) (Peer, error) {
	return mt.Dial(addr, peerConfig{})
}

// VerifC20Accept is MultiplexTransport.Accept with an empty peer configuration.
func VerifC20Accept(mt *MultiplexTransport) (Peer, error) {
	return mt.Accept(peerConfig{})
}

// VerifC20SetTimeouts lifts the 1 s / 3 s defaults: the check runs on loaded machines and a
// timeout must never be mistaken for a rejection.
func VerifC20SetTimeouts(mt *MultiplexTransport, d time.Duration) {
	mt.dialTimeout = d
	mt.handshakeTimeout = d
}

// VerifC20ListenAddr is the address the transport's listener is bound to.
func VerifC20ListenAddr(mt *MultiplexTransport) net.Addr {
	if mt.listener == nil {
		return nil
	}
	return mt.listener.Addr()
}

// VerifC20PeerConnKey is the public key authenticated by the secret connection under the peer.
func VerifC20PeerConnKey(p Peer) (ecdsa.PublicKey, bool) {
	pp, ok := p.(*peer)
	if !ok {
		return ecdsa.PublicKey{}, false
	}
	sc, ok := pp.peerConn.conn.(*conn.SecretConnection)
	if !ok {
		return ecdsa.PublicKey{}, false
	}
	return sc.RemotePubKey(), true
}
