// Package out: the files every harness writes into its -out directory.
//
//	in.txt      the generated cases, in the line format the property's model driver reads
//	impl.txt    one observable line per operation as produced by the implementation
//	            (plus the "CASE n" separator lines, which the model driver echoes)
//	oracle.txt  "FAIL case=<n> step=<k> class=<signature> <detail>" for every direct
//	            property-oracle failure observed on the implementation
//	stats.json  counts, generator distribution and a few sample cases (for the evidence file)
package out

import (
	"bufio"
	"encoding/json"
	"flag"
	"fmt"
	"os"
	"path/filepath"
	"sort"
)

type Out struct {
	dir              string
	fin, fimpl, forc *os.File
	In, Impl, Orc    *bufio.Writer
	Dist             map[string]int
	Samples          []string
	Cases, Ops       int
	Nontrivial       map[string]bool
	Rule             string
	Fails            int
	curCase          int
	curSample        []string
	maxSamples       int
}

var (
	Seed = flag.Uint64("seed", 1, "PRNG seed")
	N    = flag.Int("n", 100, "number of generated cases")
	Dir  = flag.String("out", "", "output directory")
	Only = flag.Int("only", -1, "generate and run only this case index")
	Tier = flag.String("tier", "quick", "quick|thorough")
	// Facts: when set, the harness only writes the Coq file of source-derived constants/tables and exits.
	Facts = flag.String("facts", "", "write Generated/*Facts.v to this path and exit")
)

// WriteFacts is called first by every harness main: if -facts is given it writes the Coq
// file (header + body) and exits.
func WriteFacts(gen func() string) {
	if !flag.Parsed() {
		flag.Parse()
	}
	if *Facts == "" {
		return
	}
	body := "(* GENERATED from /repo's working tree by the harness (-facts); do not edit. *)\n" + gen()
	if err := os.WriteFile(*Facts, []byte(body), 0o644); err != nil {
		fmt.Fprintln(os.Stderr, err)
		os.Exit(1)
	}
	os.Exit(0)
}

func Open() *Out {
	if !flag.Parsed() {
		flag.Parse()
	}
	if *Dir == "" {
		fmt.Fprintln(os.Stderr, "-out required")
		os.Exit(2)
	}
	os.MkdirAll(*Dir, 0o755)
	o := &Out{dir: *Dir, Dist: map[string]int{}, Nontrivial: map[string]bool{}, maxSamples: 3}
	var err error
	if o.fin, err = os.Create(filepath.Join(*Dir, "in.txt")); err != nil {
		panic(err)
	}
	o.fimpl, _ = os.Create(filepath.Join(*Dir, "impl.txt"))
	o.forc, _ = os.Create(filepath.Join(*Dir, "oracle.txt"))
	o.In, o.Impl, o.Orc = bufio.NewWriterSize(o.fin, 1<<20), bufio.NewWriterSize(o.fimpl, 1<<20), bufio.NewWriterSize(o.forc, 1<<16)
	return o
}

// Want reports whether case i should be generated (honours -only).
func Want(i int) bool { return *Only < 0 || *Only == i }

// Case starts case n: header is the full "CASE n ..." line for the model driver.
func (o *Out) Case(n int, header string) {
	o.flushSample()
	o.curCase = n
	o.Cases++
	fmt.Fprintln(o.In, header)
	fmt.Fprintf(o.Impl, "CASE %d\n", n)
	o.curSample = []string{header}
}

// Op records one operation (model input line(s)) and the implementation's observable line.
func (o *Out) Op(input string, observed string) {
	o.Ops++
	fmt.Fprintln(o.In, input)
	fmt.Fprintln(o.Impl, observed)
	if len(o.curSample) < 40 {
		o.curSample = append(o.curSample, input+"  =>  "+observed)
	}
}

// InOnly writes an input line that produces no observable (declarations).
func (o *Out) InOnly(line string) {
	fmt.Fprintln(o.In, line)
	if len(o.curSample) < 40 {
		o.curSample = append(o.curSample, line)
	}
}

func (o *Out) flushSample() {
	if o.curSample != nil && len(o.Samples) < o.maxSamples {
		s := ""
		for _, l := range o.curSample {
			s += l + "\n"
		}
		o.Samples = append(o.Samples, s)
	}
	o.curSample = nil
}

// Fail records a direct-oracle failure on the implementation.
func (o *Out) Fail(step int, class string, detail string) {
	o.Fails++
	fmt.Fprintf(o.Orc, "FAIL case=%d step=%d class=%s %s\n", o.curCase, step, class, detail)
}

func (o *Out) Count(key string) { o.Dist[key]++ }

// Mark registers a distinct non-trivial case signature (counted once per distinct key).
func (o *Out) Mark(key string) { o.Nontrivial[key] = true }

func (o *Out) Close() {
	o.flushSample()
	o.In.Flush()
	o.Impl.Flush()
	o.Orc.Flush()
	o.fin.Close()
	o.fimpl.Close()
	o.forc.Close()
	keys := make([]string, 0, len(o.Dist))
	for k := range o.Dist {
		keys = append(keys, k)
	}
	sort.Strings(keys)
	st := map[string]interface{}{
		"cases": o.Cases, "ops": o.Ops, "distinct_nontrivial": len(o.Nontrivial),
		"rule": o.Rule, "dist": o.Dist, "samples": o.Samples, "oracle_failures": o.Fails,
		"seed": *Seed,
	}
	b, _ := json.MarshalIndent(st, "", " ")
	os.WriteFile(filepath.Join(o.dir, "stats.json"), b, 0o644)
}
