// Package gen: the single PRNG every harness derives its choices from (splitmix64),
// so that a (seed, case index) pair replays exactly.
package gen

type Rand struct{ s uint64 }

func New(seed uint64) *Rand { return &Rand{s: seed*0x9E3779B97F4A7C15 + 0x1234567} }

// Fork derives an independent stream for case i (so -only i regenerates the same case).
func (r *Rand) Fork(i uint64) *Rand {
	return &Rand{s: r.s ^ (i+1)*0xBF58476D1CE4E5B9}
}

func (r *Rand) U64() uint64 {
	r.s += 0x9E3779B97F4A7C15
	z := r.s
	z = (z ^ (z >> 30)) * 0xBF58476D1CE4E5B9
	z = (z ^ (z >> 27)) * 0x94D049BB133111EB
	return z ^ (z >> 31)
}

func (r *Rand) Intn(n int) int {
	if n <= 0 {
		return 0
	}
	return int(r.U64() % uint64(n))
}

func (r *Rand) Bool() bool { return r.U64()&1 == 1 }

// Chance returns true with probability num/den.
func (r *Rand) Chance(num, den int) bool { return r.Intn(den) < num }

// Pick returns an index distributed according to the weights.
func (r *Rand) Pick(weights ...int) int {
	t := 0
	for _, w := range weights {
		t += w
	}
	x := r.Intn(t)
	for i, w := range weights {
		if x < w {
			return i
		}
		x -= w
	}
	return len(weights) - 1
}

func (r *Rand) Bytes(n int) []byte {
	b := make([]byte, n)
	for i := range b {
		b[i] = byte(r.U64())
	}
	return b
}

// Perm returns a random permutation of 0..n-1.
func (r *Rand) Perm(n int) []int {
	p := make([]int, n)
	for i := range p {
		p[i] = i
	}
	for i := n - 1; i > 0; i-- {
		j := r.Intn(i + 1)
		p[i], p[j] = p[j], p[i]
	}
	return p
}
