package main
import ("fmt";"crypto/sha256";"hash/crc32";"strings";"github.com/kardiachain/go-kardia/lib/crypto")
func main(){ for _,m:=range []string{"","abc",strings.Repeat("a",135),strings.Repeat("b",136),strings.Repeat("c",200),strings.Repeat("d",55),strings.Repeat("e",56),strings.Repeat("f",64)} {
 s:=sha256.Sum256([]byte(m)); fmt.Printf("%x %x %08x\n",crypto.Keccak256([]byte(m)),s,crc32.Checksum([]byte(m),crc32.MakeTable(crc32.Castagnoli))) } }
