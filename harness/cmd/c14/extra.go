// C14 harness, second part: boundary families added in round 4.
//
//   - jump:   the chain's block heights start just below an encoding boundary of the height key
//     (2^8, 2^16, 2^24, 2^32, 2^40, 2^56, 2^63) instead of at 1, so that two heights that agree in
//     their low bytes / low 32 bits are both in the database (the genesis record at 0 is one of them)
//   - wild:   the next validator set of every step is hand-built instead of computed (the store never
//     looks inside): one validator and 100+ validators, full 20-byte addresses (0x00.., 0xff.., leading
//     zero bytes), powers 0, 1 and close to MaxTotalVotingPower, priorities 0, +-127/128, +-2^62,
//     MinInt64, MaxInt64, a proposer that is not a member / carries another priority than its member
//     entry, a cached total of 0 / the sum / a stale value, unsorted order; plus a malformed stream
//     (negative power in a member or in the proposer, empty set) that Load must refuse
//   - hand-built node states (model op ONode): InitialHeight 0 (records of an older version: Load
//     normalises to 1 exactly as MakeGenesisState does), arbitrary LastHeightValidatorsChanged /
//     LastHeightConsensusParamsChanged, a state without LastValidators above height 0 (Save must
//     panic and must leave the database exactly as it was), re-saving the same state
//   - nohead: the store is opened before any block is written
//
// and the oracle that a loaded set's TotalVotingPower() is what the saved set answered.
package main

import (
	"bytes"
	"fmt"
	"math"
	"sort"

	"github.com/kardiachain/go-kardia/kai/state/cstate"
	"github.com/kardiachain/go-kardia/lib/common"
	kproto "github.com/kardiachain/go-kardia/proto/kardiachain/types"
	"github.com/kardiachain/go-kardia/types"

	"verif/harness/internal/gen"
)

// maxTotal is types.MaxTotalVotingPower written down independently (MaxInt64 / 8).
const maxTotal = int64(math.MaxInt64) / 8

// jumpBases: the chain of a jump case starts a few blocks below one of these.
var jumpBoundaries = []uint64{1 << 7, 1 << 8, 1 << 16, 1 << 24, 1 << 32, 1 << 40, 1 << 56, 1<<63 - 64}

func (e *env) savedHeights() []uint64 {
	hs := make([]uint64, 0, len(e.saved))
	for h := range e.saved {
		hs = append(hs, h)
	}
	sort.Slice(hs, func(i, j int) bool { return hs[i] < hs[j] })
	return hs
}

// cachedTotal: the private totalVotingPower as ToProto writes it (0 = not computed).
func cachedTotal(vs *types.ValidatorSet) int64 {
	if vs == nil || len(vs.Validators) == 0 || vs.Proposer == nil {
		return 0
	}
	p, err := vs.ToProto()
	if err != nil || p == nil {
		return 0
	}
	return p.TotalVotingPower
}

func sumPowers(vs *types.ValidatorSet) (int64, bool) {
	var s int64
	for _, v := range vs.Validators {
		if v.VotingPower < 0 || v.VotingPower > maxTotal-s {
			return 0, false
		}
		s += v.VotingPower
	}
	return s, true
}

// validSet: what ValidatorSetFromProto must accept, written down independently of ValidateBasic.
func validSet(vs *types.ValidatorSet) bool {
	if vs == nil || len(vs.Validators) == 0 || vs.Proposer == nil || vs.Proposer.VotingPower < 0 {
		return false
	}
	for _, v := range vs.Validators {
		if v == nil || v.VotingPower < 0 {
			return false
		}
	}
	return true
}

// recordBad: the record that Load will find under the key of vs cannot be turned into a set.
func (e *env) recordBad(vs *types.ValidatorSet) bool {
	if vs == nil {
		return false
	}
	if len(vs.Validators) == 0 {
		return true
	}
	if lw := e.lastWritten[keylist(vs)]; lw != nil {
		return !validSet(lw)
	}
	return false
}

// expectBad: loading the state saved for height h must fail with "bad set".
func (e *env) expectBad(h uint64) bool {
	s := e.saved[h]
	if s == nil {
		return false
	}
	if h > 0 && e.recordBad(s.LastValidators) {
		return true
	}
	return e.recordBad(s.Validators) || e.recordBad(s.NextValidators)
}

// checkTotal: TotalVotingPower() of a loaded set (direct oracle; the cached value itself is an
// observable compared with the model).
func (e *env) checkTotal(name string, h uint64, saved, loaded *types.ValidatorSet) {
	if saved == nil || loaded == nil || keylist(saved) != keylist(loaded) {
		return
	}
	ref := saved
	if name != "NextValidators" {
		if lw := e.lastWritten[keylist(saved)]; lw != nil {
			ref = lw // the record under this key was written for that set (known finding: key without priorities)
		}
	}
	sum, ok := sumPowers(ref)
	if !ok {
		return
	}
	want := cachedTotal(ref)
	if want == 0 {
		want = sum
	}
	var got int64
	if pc := catch(func() { got = loaded.Copy().TotalVotingPower() }); pc != "" {
		e.o.Fail(e.step, "load-total-power-differs", fmt.Sprintf("set=%s height=%d TotalVotingPower() of the loaded set panicked, saved set answers %d", name, h, want))
		return
	}
	if got != want {
		e.o.Fail(e.step, "load-total-power-differs", fmt.Sprintf("set=%s height=%d saved=%d loaded=%d members=%s", name, h, want, got, keylist(saved)))
	}
}

// ---------------------------------------------------------------- wild sets

var extremePrios = []int64{0, 1, -1, 127, 128, -128, -129, 255, 256, 1 << 31, -(1 << 31), 1 << 62, -(1 << 62), math.MaxInt64, math.MinInt64, math.MaxInt64 - 1, math.MinInt64 + 1}

func wildAddr(r *gen.Rand) common.Address {
	switch r.Pick(4, 3, 1, 1, 2, 1) {
	case 0:
		return addr(1 + r.Intn(12))
	case 1:
		return common.BytesToAddress(r.Bytes(20))
	case 2:
		return common.Address{}
	case 3:
		return common.BytesToAddress(bytes.Repeat([]byte{0xff}, 20))
	case 4: // high byte set, the rest small: a truncated address collides with a small one
		a := addr(1 + r.Intn(12))
		a[0] = byte(0x80 + r.Intn(128))
		return a
	}
	a := common.BytesToAddress(r.Bytes(20)) // leading zero bytes
	for i := 0; i < 1+r.Intn(10); i++ {
		a[i] = 0
	}
	return a
}

func wildPrio(r *gen.Rand, mode int) int64 {
	switch mode {
	case 0:
		return int64(r.Intn(400)) - 200
	case 1:
		return extremePrios[r.Intn(len(extremePrios))]
	}
	if r.Bool() {
		return extremePrios[r.Intn(len(extremePrios))]
	}
	return int64(r.U64())
}

// wildSet builds a validator set by hand.  malformed: 0 none, 1 negative member power,
// 2 negative proposer power, 3 empty set.
func wildSet(r *gen.Rand, prev *types.ValidatorSet, malformed int, allowBig bool) *types.ValidatorSet {
	var vals []*types.Validator
	if malformed == 3 {
		return &types.ValidatorSet{Validators: []*types.Validator{}, Proposer: &types.Validator{}}
	}
	pm := r.Pick(3, 3, 2)
	if validSet(prev) && r.Chance(2, 5) {
		// same members and powers (same record key), other priorities / proposer / cached total
		for _, v := range prev.Validators {
			c := v.Copy()
			if r.Chance(2, 3) {
				c.ProposerPriority = wildPrio(r, pm)
			}
			vals = append(vals, c)
		}
	} else {
		n := 1
		switch r.Pick(2, 6, 2, 1) {
		case 1:
			n = 2 + r.Intn(5)
		case 2:
			n = 7 + r.Intn(14)
		case 3:
			n = 1
			if allowBig {
				n = 100 + r.Intn(41)
			}
		}
		seen := map[common.Address]bool{}
		powMode := r.Pick(5, 2, 2, 1)
		for len(vals) < n {
			a := wildAddr(r)
			if seen[a] {
				a = common.BytesToAddress(r.Bytes(20))
				if seen[a] {
					continue
				}
			}
			seen[a] = true
			var p int64
			switch powMode {
			case 0:
				p = int64(1 + r.Intn(50))
			case 1: // zero powers among small ones
				p = int64(r.Intn(3))
			case 2: // as large as the total bound allows
				p = maxTotal/int64(n) - int64(r.Intn(3))
			case 3: // proto varint boundaries
				bl := []int64{127, 128, 16383, 16384, 1<<31 - 1, 1 << 31, 1 << 32, 1<<56 - 1}
				if n > 8 {
					bl = bl[:7]
				}
				p = bl[r.Intn(len(bl))]
			}
			vals = append(vals, &types.Validator{Address: a, VotingPower: p, ProposerPriority: wildPrio(r, pm)})
		}
		if r.Chance(2, 3) { // the order the real code keeps: power descending, address ascending
			sort.SliceStable(vals, func(i, j int) bool {
				if vals[i].VotingPower != vals[j].VotingPower {
					return vals[i].VotingPower > vals[j].VotingPower
				}
				return bytes.Compare(vals[i].Address.Bytes(), vals[j].Address.Bytes()) < 0
			})
		}
	}
	var prop *types.Validator
	switch r.Pick(8, 1, 1) {
	case 0:
		prop = vals[r.Intn(len(vals))].Copy()
	case 1: // the member's entry and the proposer message disagree about the priority
		prop = vals[r.Intn(len(vals))].Copy()
		prop.ProposerPriority = wildPrio(r, 1)
	case 2: // not a member at all
		prop = &types.Validator{Address: common.BytesToAddress(r.Bytes(20)), VotingPower: int64(r.Intn(100)), ProposerPriority: wildPrio(r, pm)}
	}
	switch malformed {
	case 1:
		vals[r.Intn(len(vals))].VotingPower = -int64(1 + r.Intn(3))
		return &types.ValidatorSet{Validators: vals, Proposer: prop}
	case 2:
		prop.VotingPower = []int64{-1, -7, math.MinInt64}[r.Intn(3)]
		return &types.ValidatorSet{Validators: vals, Proposer: prop}
	}
	// valid: built through the public constructor that takes a cached total
	var sum int64
	for _, v := range vals {
		sum += v.VotingPower
	}
	total := sum
	switch r.Pick(5, 3, 2) {
	case 1:
		total = 0
	case 2:
		total = []int64{sum + 1, 1, -5, math.MaxInt64, sum - 1}[r.Intn(5)]
	}
	pv := &kproto.ValidatorSet{TotalVotingPower: total}
	for _, v := range vals {
		pv.Validators = append(pv.Validators, &kproto.Validator{Address: v.Address.Bytes(), VotingPower: v.VotingPower, ProposerPriority: v.ProposerPriority})
	}
	pv.Proposer = &kproto.Validator{Address: prop.Address.Bytes(), VotingPower: prop.VotingPower, ProposerPriority: prop.ProposerPriority}
	vs, err := types.ValidatorSetFromProto(pv)
	if err != nil {
		// the public constructor refuses a set that is valid by the independent rule (validSet): the
		// caller reports it; the case goes on with the same set built as a literal
		wildRefused = err.Error()
		return &types.ValidatorSet{Validators: vals, Proposer: prop}
	}
	return vs
}

// wildRefused: set by wildSet when ValidatorSetFromProto refused a valid hand-built set.
var wildRefused string

// jumpRange: prune ranges around the heights a jump case has saved; the loop of PruneState (and
// the model's) walks every height of the range, so ranges are kept below 2000 heights.
func (e *env) jumpRange(r *gen.Rand) (uint64, uint64) {
	hs := e.savedHeights()
	pick := func() uint64 {
		h := hs[r.Intn(len(hs))]
		switch r.Pick(4, 1, 1) {
		case 1:
			h++
		case 2:
			if h > 0 {
				h--
			}
		}
		return h
	}
	from, to := pick(), pick()
	switch r.Pick(5, 2, 1) {
	case 0:
		if from > to {
			from, to = to, from
		}
	case 1:
		from = uint64(r.Intn(2))
	}
	if to > from && to-from > 2000 {
		if r.Bool() {
			from = to - uint64(1+r.Intn(40))
		} else {
			to = from + uint64(1+r.Intn(300))
		}
	}
	return from, to
}

func bitlen(b uint64) int {
	n := 0
	for b > 1 {
		b >>= 1
		n++
	}
	if n == 62 {
		n = 63
	}
	return n
}

func snapEqual(a, b snap) bool {
	if a.load != b.load || len(a.vals) != len(b.vals) {
		return false
	}
	for h, v := range a.vals {
		if b.vals[h] != v || b.params[h] != a.params[h] {
			return false
		}
	}
	return true
}

// nodeSave: the node's state is replaced by a hand-built one (model op ONode) and saved.
func (e *env) nodeSave(st cstate.LatestBlockState, what string) bool {
	e.declareState(&st)
	e.o.Op("E "+stateTok(&st), "e ok")
	if pc := catch(func() { e.store.Save(st) }); pc != "" {
		e.o.Op("S", "s PANIC")
		e.o.Fail(e.step, "save-panic", "Save of a hand-built state ("+what+") panicked: "+pc)
		return false
	}
	e.o.Op("S", e.saveObs(st.LastBlockHeight))
	e.cur = st
	e.saved[st.LastBlockHeight] = copyState(st)
	delete(e.pruned, st.LastBlockHeight)
	e.noteSave(e.saved[st.LastBlockHeight])
	return true
}

// refusedSave: Save of a state without LastValidators above height 0 must panic and write nothing.
func (e *env) refusedSave(bad cstate.LatestBlockState) bool {
	before := e.snapshot()
	var keysBefore int
	if it := e.rec.Database.NewIterator(nil, nil); it != nil {
		for it.Next() {
			keysBefore++
		}
		it.Release()
	}
	e.o.Op("E "+stateTok(&bad), "e ok")
	pc := catch(func() { e.store.Save(bad) })
	if pc == "" {
		e.o.Op("S", "s ok")
		e.o.Fail(e.step, "save-accepted-incomplete-state", fmt.Sprintf("Save accepted a state of height %d without LastValidators", bad.LastBlockHeight))
		return false
	}
	e.o.Op("S", "s PANIC")
	keysAfter := 0
	if it := e.rec.Database.NewIterator(nil, nil); it != nil {
		for it.Next() {
			keysAfter++
		}
		it.Release()
	}
	if after := e.snapshot(); !snapEqual(before, after) || keysBefore != keysAfter {
		e.o.Fail(e.step, "failed-save-changed-store", fmt.Sprintf("height=%d: a Save that panicked changed the database (%d -> %d keys) or what is loaded: before=[%s] after=[%s]", bad.LastBlockHeight, keysBefore, keysAfter, before.load, after.load))
	}
	return true
}

// saveObs: the observable of a successful Save — the height suffix of the key the state record
// was put under, as the database saw it — and the direct oracle that two heights never share a key.
func (e *env) saveObs(h uint64) string {
	e.rec.mu.Lock()
	k := append([]byte(nil), e.rec.lastStateKey...)
	e.rec.lastStateKey = nil
	e.rec.mu.Unlock()
	if len(k) < 8 {
		return "s ok -" // no batch was written: the model comparison shows it
	}
	if prev, ok := e.stateKeys[string(k)]; ok && prev != h {
		e.o.Fail(e.step, "state-key-collision", fmt.Sprintf("heights %d and %d are saved under the same key %x", prev, h, k))
	}
	e.stateKeys[string(k)] = h
	return fmt.Sprintf("s ok %x", k[len(k)-8:])
}
