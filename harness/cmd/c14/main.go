// C14 harness: drives the real cstate.Store (Save / Load / LoadValidators / LoadConsensusParams /
// PruneState / LoadStateFromDBOrGenesisDoc) over an in-memory kaidb with chains of consensus
// states produced exactly as cstate.updateState produces them, prints every loaded field for the
// model driver, and evaluates the property directly: field-by-field equality of the loaded state
// with the state object that was saved (including every priority and the proposer of the three
// validator sets), membership of LoadValidators(h), and "pruning removes nothing a kept state needs".
package main

import (
	"bytes"
	"fmt"
	"math"
	"math/big"
	"runtime"
	"strings"
	"sync"
	"sync/atomic"
	"time"

	"github.com/kardiachain/go-kardia/configs"
	"github.com/kardiachain/go-kardia/kai/kaidb"
	"github.com/kardiachain/go-kardia/kai/kaidb/memorydb"
	"github.com/kardiachain/go-kardia/kai/rawdb"
	"github.com/kardiachain/go-kardia/kai/state/cstate"
	"github.com/kardiachain/go-kardia/lib/common"
	"github.com/kardiachain/go-kardia/mainchain/genesis"
	kstate "github.com/kardiachain/go-kardia/proto/kardiachain/state"
	kproto "github.com/kardiachain/go-kardia/proto/kardiachain/types"
	"github.com/kardiachain/go-kardia/trie"
	"github.com/kardiachain/go-kardia/types"

	"verif/harness/internal/gen"
	"verif/harness/internal/out"
)

// ---------------------------------------------------------------- value <-> token mapping

var chainNames = []string{"", "kai-verif-1", "kai-verif-2"}

func chainTok(s string) int {
	for i, c := range chainNames {
		if c == s {
			return i
		}
	}
	return 99
}

func addr(i int) common.Address { return common.BytesToAddress([]byte{byte(i)}) }
func bnum(b []byte) string      { return new(big.Int).SetBytes(b).String() }
func tmTok(t time.Time) int64 {
	if t.IsZero() {
		return 0
	}
	return t.UnixNano()
}

var paramPool []kproto.ConsensusParams

func initParams() {
	d := *configs.DefaultConsensusParams()
	t := *configs.TestConsensusParams()
	small := kproto.ConsensusParams{Block: kproto.BlockParams{MaxBytes: 7, MaxGas: 9, TimeIotaMs: 1}} // marshals to < 32 bytes
	d2 := d
	d2.Block.MaxBytes = d.Block.MaxBytes + 1 // differs from d only in the first varint byte of the first field
	d3 := d
	d3.Evidence.MaxBytes = d.Evidence.MaxBytes + 5
	paramPool = []kproto.ConsensusParams{d, t, small, d2, d3}
}

func paramTok(p kproto.ConsensusParams) int {
	for i := range paramPool {
		if paramPool[i].Equal(&p) {
			return i + 1
		}
	}
	return 0
}

func paramsKey(p kproto.ConsensusParams, lhc uint64) string {
	info := kstate.ConsensusParamsInfo{LastHeightChanged: lhc, ConsensusParams: p}
	bz, err := info.Marshal()
	if err != nil {
		panic(err)
	}
	return bnum(common.BytesToHash(bz).Bytes())
}

// set tokens for the model input: "nil" | n a p q ... pa pp pq cached-total
func setTok(vs *types.ValidatorSet) string {
	if vs == nil {
		return "nil"
	}
	s := fmt.Sprintf("%d", len(vs.Validators))
	for _, v := range vs.Validators {
		s += fmt.Sprintf(" %s %d %d", bnum(v.Address.Bytes()), v.VotingPower, v.ProposerPriority)
	}
	p := vs.Proposer
	if p == nil {
		p = &types.Validator{}
	}
	s += fmt.Sprintf(" %s %d %d %d", bnum(p.Address.Bytes()), p.VotingPower, p.ProposerPriority, cachedTotal(vs))
	return s
}

// observable form
func setObs(vs *types.ValidatorSet) string {
	if vs == nil {
		return "nil"
	}
	parts := []string{}
	for _, v := range vs.Validators {
		parts = append(parts, fmt.Sprintf("%s,%d,%d", bnum(v.Address.Bytes()), v.VotingPower, v.ProposerPriority))
	}
	p := vs.Proposer
	ps := "none"
	if p != nil {
		ps = fmt.Sprintf("%s,%d,%d", bnum(p.Address.Bytes()), p.VotingPower, p.ProposerPriority)
	}
	return strings.Join(parts, ";") + "@" + ps + fmt.Sprintf("#%d", cachedTotal(vs))
}

func keylist(vs *types.ValidatorSet) string {
	if vs == nil {
		return "nil"
	}
	parts := []string{}
	for _, v := range vs.Validators {
		parts = append(parts, fmt.Sprintf("%s:%d", bnum(v.Address.Bytes()), v.VotingPower))
	}
	return strings.Join(parts, ",")
}

func bidTok(b types.BlockID) string {
	return fmt.Sprintf("%s %d %s", bnum(b.Hash.Bytes()), b.PartsHeader.Total, bnum(b.PartsHeader.Hash.Bytes()))
}
func bidObs(b types.BlockID) string {
	return fmt.Sprintf("%s:%d:%s", bnum(b.Hash.Bytes()), b.PartsHeader.Total, bnum(b.PartsHeader.Hash.Bytes()))
}

func stateTok(s *cstate.LatestBlockState) string {
	return fmt.Sprintf("%d %d %d %d %s %d %d %d %s %d L %s V %s N %s", chainTok(s.ChainID), s.InitialHeight, s.LastBlockHeight, s.LastBlockTotalTx,
		bidTok(s.LastBlockID), tmTok(s.LastBlockTime), s.LastHeightValidatorsChanged, s.LastHeightConsensusParamsChanged, bnum(s.AppHash.Bytes()),
		paramTok(s.ConsensusParams), setTok(s.LastValidators), setTok(s.Validators), setTok(s.NextValidators))
}

func stateObs(s *cstate.LatestBlockState) string {
	return fmt.Sprintf("%d %d %d %d %s %d %d %d %s %d L=%s V=%s N=%s", chainTok(s.ChainID), s.InitialHeight, s.LastBlockHeight, s.LastBlockTotalTx,
		bidObs(s.LastBlockID), tmTok(s.LastBlockTime), s.LastHeightValidatorsChanged, s.LastHeightConsensusParamsChanged, bnum(s.AppHash.Bytes()),
		paramTok(s.ConsensusParams), setObs(s.LastValidators), setObs(s.Validators), setObs(s.NextValidators))
}

// ---------------------------------------------------------------- recording database
//
// recDB hands every call through to the wrapped kaidb but keeps the KEY SLICES it was given
// without copying them, together with a copy of their bytes at the time of the call.  A key
// constructor that returns memory it (or another constructor call) later overwrites — two keys
// sharing one backing array — shows up as a kept slice whose bytes changed afterwards.  This is
// deterministic: no scheduling is involved.  (In the node such aliasing makes a Save land under
// another height's key, or a Load mix two heights, whenever another goroutine computes a key
// between the key computation and the database's own copy of it.)
type recDB struct {
	kaidb.Database
	mu   sync.Mutex
	on   bool
	keys [][]byte
	was  []string
	// the key of the state record most recently put through a batch (Save), copied
	lastStateKey []byte
}

func (r *recDB) note(k []byte) {
	r.mu.Lock()
	if r.on && len(r.keys) < 200000 {
		r.keys = append(r.keys, k)
		r.was = append(r.was, string(k))
	}
	r.mu.Unlock()
}
func (r *recDB) enable(b bool) { r.mu.Lock(); r.on = b; r.mu.Unlock() }

func (r *recDB) Has(k []byte) (bool, error)   { r.note(k); return r.Database.Has(k) }
func (r *recDB) Get(k []byte) ([]byte, error) { r.note(k); return r.Database.Get(k) }
func (r *recDB) Put(k, v []byte) error        { r.note(k); return r.Database.Put(k, v) }
func (r *recDB) Delete(k []byte) error        { r.note(k); return r.Database.Delete(k) }
func (r *recDB) NewBatch() kaidb.Batch        { return &recBatch{Batch: r.Database.NewBatch(), r: r} }

type recBatch struct {
	kaidb.Batch
	r        *recDB
	shortest []byte
}

// The state record is the one with the shortest key of a Save batch (prefix + 8 height bytes; the
// validator and params records end in a 32-byte hash) — no prefix is spelled out here.
func (b *recBatch) Put(k, v []byte) error {
	b.r.note(k)
	if b.shortest == nil || len(k) < len(b.shortest) {
		b.shortest = append([]byte(nil), k...)
	}
	return b.Batch.Put(k, v)
}
func (b *recBatch) Write() error {
	b.r.mu.Lock()
	b.r.lastStateKey = b.shortest
	b.r.mu.Unlock()
	b.shortest = nil
	return b.Batch.Write()
}
func (b *recBatch) Delete(k []byte) error { b.r.note(k); return b.Batch.Delete(k) }

// changed returns the first kept key whose bytes are no longer what they were when it was used.
func (r *recDB) changed() (bool, string) {
	r.mu.Lock()
	defer r.mu.Unlock()
	for i, k := range r.keys {
		if string(k) != r.was[i] {
			return true, fmt.Sprintf("key #%d was %q (%x) when passed to the database and reads %x after later key constructions", i, prefixOf(r.was[i]), r.was[i], k)
		}
	}
	return false, ""
}

func prefixOf(k string) string {
	n := 0
	for n < len(k) && (k[n] >= 'A' && k[n] <= 'Z' || k[n] >= 'a' && k[n] <= 'z') {
		n++
	}
	return k[:n]
}

// ---------------------------------------------------------------- panics

func catch(f func()) (class string) {
	defer func() {
		if r := recover(); r != nil {
			class = "other"
			switch e := r.(type) {
			case runtime.Error:
				class = "nil"
			case error:
				s := e.Error()
				switch {
				case strings.Contains(s, "block meta not found"):
					class = "nometa"
				case strings.Contains(s, "failed to load consensus params"):
					class = "noparams"
				case strings.Contains(s, "validator set") || strings.Contains(s, "validator") || strings.Contains(s, "proposer"):
					class = "badset"
				}
			}
		}
	}()
	f()
	return ""
}

// ---------------------------------------------------------------- the case

type env struct {
	o      *out.Out
	r      *gen.Rand
	db     kaidb.Database
	rec    *recDB
	store  cstate.Store
	cur    cstate.LatestBlockState // state the "node" holds
	saved  map[uint64]*cstate.LatestBlockState
	head   uint64
	lastID types.BlockID
	step   int
	// declared keys (per case)
	vkeys map[string]bool
	pkeys map[string]bool
	// oracle book-keeping
	lastWritten map[string]*types.ValidatorSet // membership -> set most recently written under that membership's key
	pruned      map[uint64]bool                // heights whose state record the harness asked to prune
	prunes      [][2]uint64                    // (from', to) of every prune so far
	toExisted   []bool                         // per prune: the state of height `to` was saved (and kept) when it ran
	hashOf      map[string]common.Hash         // membership -> ValidatorSet.Hash()
	deletedBy   map[string]int                 // membership -> index of the prune after which its record was gone
	txNonce     uint64
	stateKeys   map[string]uint64 // state-record key bytes -> height saved under them
	fam         string            // classic | jump | wild | nohead
	legacy      bool   // the genesis state was re-saved with InitialHeight 0 (record of an older version)
}

func copyState(s cstate.LatestBlockState) *cstate.LatestBlockState {
	c := s
	if s.NextValidators != nil {
		c.NextValidators = deepSet(s.NextValidators)
	}
	if s.Validators != nil {
		c.Validators = deepSet(s.Validators)
	}
	if s.LastValidators != nil {
		c.LastValidators = deepSet(s.LastValidators)
	}
	return &c
}

func deepSet(vs *types.ValidatorSet) *types.ValidatorSet {
	c := vs.Copy()
	if vs.Proposer != nil {
		c.Proposer = vs.Proposer.Copy()
	}
	return c
}

func (e *env) declareSet(vs *types.ValidatorSet) {
	if vs == nil {
		return
	}
	k := keylist(vs)
	if e.vkeys[k] {
		return
	}
	e.vkeys[k] = true
	e.hashOf[k] = vs.Hash()
	s := fmt.Sprintf("VKEY %d", len(vs.Validators))
	for _, v := range vs.Validators {
		s += fmt.Sprintf(" %s %d", bnum(v.Address.Bytes()), v.VotingPower)
	}
	e.o.InOnly(s + " " + bnum(vs.Hash().Bytes()))
}

func (e *env) declareState(s *cstate.LatestBlockState) {
	e.declareSet(s.LastValidators)
	e.declareSet(s.Validators)
	e.declareSet(s.NextValidators)
	k := fmt.Sprintf("%d/%d", paramTok(s.ConsensusParams), s.LastHeightConsensusParamsChanged)
	if !e.pkeys[k] {
		e.pkeys[k] = true
		e.o.InOnly(fmt.Sprintf("PKEY %d %d %s", paramTok(s.ConsensusParams), s.LastHeightConsensusParamsChanged, paramsKey(s.ConsensusParams, s.LastHeightConsensusParamsChanged)))
	}
}

// writeBlock: a real block at height h on top of lastID, stored as the node stores it.
func (e *env) writeBlock(h uint64, tm time.Time, ntx int, app common.Hash) (*types.Block, types.BlockID) {
	hd := &types.Header{Height: h, Time: tm, LastBlockID: e.lastID, GasLimit: 1000000, AppHash: common.BytesToHash(e.r.Bytes(32))}
	var txs []*types.Transaction
	for i := 0; i < ntx; i++ {
		txs = append(txs, types.NewTransaction(e.txNonce, addr(200), big.NewInt(int64(1+e.r.Intn(1000))), 21000, big.NewInt(1), nil))
		e.txNonce++
	}
	b := types.NewBlock(hd, txs, &types.Commit{}, nil, trie.NewStackTrie(nil))
	ps := b.MakePartSet(types.BlockPartSizeBytes)
	rawdb.WriteBlock(e.db, b, ps, &types.Commit{})
	rawdb.WriteCanonicalHash(e.db, b.Hash(), h)
	rawdb.WriteHeadBlockHash(e.db, b.Hash())
	rawdb.WriteAppHash(e.db, h, app)
	id := types.BlockID{Hash: b.Hash(), PartsHeader: ps.Header()}
	e.lastID = id
	e.head = h
	return b, id
}

// updateState: the body of cstate.updateState (unexported) followed by ApplyBlock's AppHash assignment.
func updateState(st cstate.LatestBlockState, id types.BlockID, hd *types.Header, changes []*types.Validator, app common.Hash) (cstate.LatestBlockState, bool) {
	n := st.NextValidators.Copy()
	lh := st.LastHeightValidatorsChanged
	changed := false
	if len(changes) > 0 {
		if err := n.UpdateWithChangeSet(changes); err == nil {
			lh = hd.Height + 2
			changed = true
		} else {
			n = st.NextValidators.Copy() // the real code returns the error and the block is not applied; here: no change
		}
	}
	n.IncrementProposerPriority(1)
	ns := cstate.LatestBlockState{
		ChainID: st.ChainID, InitialHeight: st.InitialHeight,
		LastBlockHeight: hd.Height, LastBlockID: id, LastBlockTime: hd.Time,
		NextValidators: n, Validators: st.NextValidators.Copy(), LastValidators: st.Validators.Copy(),
		LastHeightValidatorsChanged: lh, ConsensusParams: st.ConsensusParams,
	}
	ns.AppHash = app
	return ns, changed
}

func (e *env) noteSave(s *cstate.LatestBlockState) {
	w := func(vs *types.ValidatorSet) {
		if vs != nil {
			e.lastWritten[keylist(vs)] = deepSet(vs)
			delete(e.deletedBy, keylist(vs))
		}
	}
	if s.LastBlockHeight == 0 {
		w(s.LastValidators)
		w(s.Validators)
	}
	w(s.NextValidators)
}

func sameSet(a, b *types.ValidatorSet) bool { return setObs(a) == setObs(b) }

func (e *env) where(h uint64, pidx int) string {
	if pidx < 0 || pidx >= len(e.prunes) {
		return "unattributed"
	}
	p := e.prunes[pidx]
	switch {
	case h == 0:
		return "at-genesis"
	case h == p[1]:
		if pidx < len(e.toExisted) && !e.toExisted[pidx] {
			// the state of height `to` was saved only after the prune ran (range reaching beyond the head):
			// PruneState had no record of it to protect; for the prune it is a state above everything it saw
			return "above-to"
		}
		return "at-to"
	case h < p[0]:
		return "below-from"
	case h > p[1]:
		return "above-to"
	}
	return "inside"
}

// missingRecords inspects the database directly: which records that the state record of height h
// names are absent.  Returns a list of (kind, set name).
func (e *env) missingRecords(h uint64) [][2]string {
	var res [][2]string
	sp := rawdb.ReadConsensusStateHeight(e.db, h)
	if sp == nil {
		return [][2]string{{"state-record-missing", "-"}}
	}
	chk := func(hash []byte, name string) {
		if rawdb.ReadConsensusValidatorsInfo(e.db, common.BytesToHash(hash)) == nil {
			res = append(res, [2]string{"valset-record-missing", name})
		}
	}
	if h > 0 {
		chk(sp.LastValidatorsInfoHash, "LastValidators")
	}
	chk(sp.ValidatorsInfoHash, "Validators")
	chk(sp.NextValidatorsInfoHash, "NextValidators")
	if rawdb.ReadConsensusParamsInfo(e.db, common.BytesToHash(sp.ConsensusParamsInfoHash)) == nil {
		res = append(res, [2]string{"params-record-missing", "-"})
	}
	return res
}

func (e *env) setOf(s *cstate.LatestBlockState, name string) *types.ValidatorSet {
	switch name {
	case "LastValidators":
		return s.LastValidators
	case "Validators":
		return s.Validators
	}
	return s.NextValidators
}

// reportDamage: oracle failure lines for records missing at kept height h (after a prune).
func (e *env) reportDamage(h uint64, op string) bool {
	miss := e.missingRecords(h)
	if len(miss) == 0 || len(e.prunes) == 0 {
		return false
	}
	for _, m := range miss {
		pidx := len(e.prunes) - 1
		det := ""
		if m[0] == "valset-record-missing" {
			// attribute the loss to the prune after which the record of that membership disappeared
			rec := 0
			pidx = -1
			if s := e.saved[h]; s != nil {
				k := keylist(e.setOf(s, m[1]))
				if pi, ok := e.deletedBy[k]; ok {
					pidx = pi
					for _, i := range e.savedHeights() {
						if i < e.prunes[pi][0] || i >= e.prunes[pi][1] {
							continue
						}
						if ps := e.saved[i]; ps != nil && keylist(ps.LastValidators) == k {
							rec = 1 // the membership was in use (as LastValidators) at a pruned height
						}
					}
				}
			}
			det = fmt.Sprintf("kind=%s where=%s recurring=%d set=%s", m[0], e.where(h, pidx), rec, m[1])
		} else {
			det = fmt.Sprintf("kind=%s where=%s", m[0], e.where(h, pidx))
		}
		p := [2]uint64{}
		if pidx >= 0 {
			p = e.prunes[pidx]
		}
		e.o.Fail(e.step, "prune-damage", fmt.Sprintf("%s height=%d op=%s after PruneState(%d,%d) head=%d", det, h, op, p[0], p[1], e.head))
	}
	return true
}

// checkLoaded: the direct oracle for Load at the head.
func (e *env) checkLoaded(l *cstate.LatestBlockState, want *cstate.LatestBlockState) {
	o := e.o
	h := want.LastBlockHeight
	ff := func(field, a, b string) {
		if a != b {
			o.Fail(e.step, "load-field-differs", fmt.Sprintf("field=%s height=%d saved=%s loaded=%s", field, h, a, b))
		}
	}
	ff("ChainID", want.ChainID, l.ChainID)
	wantIH := want.InitialHeight
	if wantIH == 0 {
		wantIH = 1 // a record without an initial height (older version) means 1, as in MakeGenesisState
	}
	ff("InitialHeight", fmt.Sprint(wantIH), fmt.Sprint(l.InitialHeight))
	ff("LastBlockHeight", fmt.Sprint(want.LastBlockHeight), fmt.Sprint(l.LastBlockHeight))
	if !want.LastBlockID.Equal(l.LastBlockID) {
		if h == 0 && want.LastBlockID.IsZero() {
			o.Fail(e.step, "load-genesis-blockid-differs", fmt.Sprintf("height=0 saved=zero loaded=%s", bidObs(l.LastBlockID)))
		} else {
			ff("LastBlockID", bidObs(want.LastBlockID), bidObs(l.LastBlockID))
		}
	}
	ff("LastBlockTime", fmt.Sprint(tmTok(want.LastBlockTime)), fmt.Sprint(tmTok(l.LastBlockTime)))
	if want.AppHash != l.AppHash {
		if h == 0 && want.AppHash == (common.Hash{}) {
			o.Fail(e.step, "load-genesis-apphash-differs", fmt.Sprintf("height=0 saved=zero loaded=%s", l.AppHash.Hex()))
		} else {
			ff("AppHash", want.AppHash.Hex(), l.AppHash.Hex())
		}
	}
	if !want.ConsensusParams.Equal(&l.ConsensusParams) {
		o.Fail(e.step, "load-params-differ", fmt.Sprintf("height=%d saved=%v loaded=%v", h, want.ConsensusParams, l.ConsensusParams))
	}
	ff("LastHeightValidatorsChanged", fmt.Sprint(want.LastHeightValidatorsChanged), fmt.Sprint(l.LastHeightValidatorsChanged))
	ff("LastHeightConsensusParamsChanged", fmt.Sprint(want.LastHeightConsensusParamsChanged), fmt.Sprint(l.LastHeightConsensusParamsChanged))
	for _, name := range []string{"LastValidators", "Validators", "NextValidators"} {
		a, b := e.setOf(want, name), e.setOf(l, name)
		if (a == nil) != (b == nil) {
			o.Fail(e.step, "load-membership-differs", fmt.Sprintf("set=%s height=%d saved=%s loaded=%s", name, h, setObs(a), setObs(b)))
			continue
		}
		if a == nil {
			continue
		}
		if keylist(a) != keylist(b) {
			o.Fail(e.step, "load-membership-differs", fmt.Sprintf("set=%s height=%d saved=%s loaded=%s", name, h, setObs(a), setObs(b)))
			continue
		}
		e.checkTotal(name, h, a, b)
		if sameSet(a, b) {
			continue
		}
		if name == "NextValidators" {
			o.Fail(e.step, "load-next-validators-differ", fmt.Sprintf("height=%d saved=%s loaded=%s", h, setObs(a), setObs(b)))
			continue
		}
		cause := "unexplained"
		if lw := e.lastWritten[keylist(a)]; lw != nil && sameSet(lw, b) {
			cause = "same-key-overwritten"
		}
		o.Count("defect.priorities." + name)
		o.Fail(e.step, "load-priorities-differ", fmt.Sprintf("set=%s cause=%s height=%d saved=%s loaded=%s", name, cause, h, setObs(a), setObs(b)))
	}
}

func (e *env) opLoad() {
	var l cstate.LatestBlockState
	pc := catch(func() { l = e.store.Load() })
	want := e.saved[e.head]
	expectPresent := want != nil && !e.pruned[e.head]
	switch {
	case pc != "":
		e.o.Op("L", "l PANIC "+pc)
		e.o.Count("load.panic." + pc)
		if pc == "badset" && expectPresent && e.expectBad(e.head) {
			e.o.Count("load.refused-malformed-set")
		} else if !e.reportDamage(e.head, "Load") {
			e.o.Fail(e.step, "load-panic", fmt.Sprintf("Load panicked (%s) at head %d", pc, e.head))
		}
	case l.IsEmpty():
		e.o.Op("L", "l empty")
		e.o.Count("load.empty")
		if expectPresent {
			if !e.reportDamage(e.head, "Load") {
				e.o.Fail(e.step, "load-empty", fmt.Sprintf("Load returned the empty state at head %d although it was saved", e.head))
			}
		}
	default:
		e.o.Op("L", "l ok "+stateObs(&l))
		e.o.Count("load.ok")
		if expectPresent && e.expectBad(e.head) {
			e.o.Fail(e.step, "load-accepted-invalid-set", fmt.Sprintf("Load at head %d returned a state although a validator record it needs holds a set with a negative voting power or no validator", e.head))
		} else if expectPresent {
			e.checkLoaded(&l, want)
		}
	}
}

func valsErrClass(err error) string {
	switch err.(type) {
	case cstate.ErrNoConsensusStateForHeight:
		return "nostate"
	case cstate.ErrNoValSetForHeight:
		return "noset"
	}
	return "invalid"
}

func (e *env) opVals(h uint64) {
	var vs *types.ValidatorSet
	var err error
	pc := catch(func() { vs, err = e.store.LoadValidators(h) })
	in := fmt.Sprintf("V %d", h)
	if pc != "" {
		e.o.Op(in, "v PANIC")
		e.o.Fail(e.step, "loadvalidators-panic", fmt.Sprintf("LoadValidators(%d) panicked", h))
		return
	}
	want := e.saved[h]
	kept := want != nil && !e.pruned[h]
	if err != nil {
		c := valsErrClass(err)
		e.o.Op(in, "v "+c)
		e.o.Count("vals." + c)
		if kept && h > 0 && c == "invalid" && e.recordBad(want.LastValidators) {
			e.o.Count("vals.refused-malformed-set")
		} else if kept && h > 0 {
			if !e.reportDamage(h, "LoadValidators") {
				e.o.Fail(e.step, "loadvalidators-error", fmt.Sprintf("LoadValidators(%d) = %s although the state of that height is kept", h, c))
			}
		}
		return
	}
	e.o.Op(in, "v ok "+setObs(vs))
	e.o.Count("vals.ok")
	if kept {
		if want.LastValidators == nil || keylist(vs) != keylist(want.LastValidators) {
			e.o.Fail(e.step, "loadvalidators-membership-differs", fmt.Sprintf("height=%d entitled=%s returned=%s", h, setObs(want.LastValidators), setObs(vs)))
		} else if e.recordBad(want.LastValidators) {
			e.o.Fail(e.step, "loadvalidators-accepted-invalid-set", fmt.Sprintf("LoadValidators(%d) returned a set with a negative voting power", h))
		} else if e.checkTotal("LastValidators", h, want.LastValidators, vs); !sameSet(vs, want.LastValidators) {
			e.o.Count("vals.priorities-differ") // not part of the property text for past heights; counted only
		}
	} else {
		e.o.Fail(e.step, "loadvalidators-unexpected", fmt.Sprintf("LoadValidators(%d) returned a set although no state is kept for that height", h))
	}
}

func (e *env) opParams(h uint64) {
	var p kproto.ConsensusParams
	var err error
	pc := catch(func() { p, err = e.store.LoadConsensusParams(h) })
	in := fmt.Sprintf("P %d", h)
	want := e.saved[h]
	kept := want != nil && !e.pruned[h]
	switch {
	case pc != "":
		e.o.Op(in, "p PANIC")
		e.o.Count("params.panic")
		if kept {
			if !e.reportDamage(h, "LoadConsensusParams") {
				e.o.Fail(e.step, "loadparams-panic", fmt.Sprintf("LoadConsensusParams(%d) panicked although the state is kept", h))
			}
		}
	case err != nil:
		e.o.Op(in, "p err")
		e.o.Count("params.err")
		if kept {
			if !e.reportDamage(h, "LoadConsensusParams") {
				e.o.Fail(e.step, "loadparams-error", fmt.Sprintf("LoadConsensusParams(%d) failed although the state is kept", h))
			}
		}
	default:
		e.o.Op(in, fmt.Sprintf("p ok %d", paramTok(p)))
		e.o.Count("params.ok")
		if kept && !want.ConsensusParams.Equal(&p) {
			e.o.Fail(e.step, "loadparams-differ", fmt.Sprintf("height=%d saved=%v loaded=%v", h, want.ConsensusParams, p))
		}
	}
}

type snap struct {
	vals   map[uint64]string
	params map[uint64]string
	load   string
}

func (e *env) snapshot() snap {
	s := snap{vals: map[uint64]string{}, params: map[uint64]string{}}
	for _, h := range e.savedHeights() {
		if e.saved[h] == nil || e.pruned[h] {
			continue
		}
		var vs *types.ValidatorSet
		var err error
		if pc := catch(func() { vs, err = e.store.LoadValidators(h) }); pc != "" {
			s.vals[h] = "PANIC"
		} else if err != nil {
			s.vals[h] = valsErrClass(err)
		} else {
			s.vals[h] = "ok " + setObs(vs)
		}
		var p kproto.ConsensusParams
		if pc := catch(func() { p, err = e.store.LoadConsensusParams(h) }); pc != "" {
			s.params[h] = "PANIC"
		} else if err != nil {
			s.params[h] = "err"
		} else {
			s.params[h] = fmt.Sprintf("ok %d", paramTok(p))
		}
	}
	var l cstate.LatestBlockState
	if pc := catch(func() { l = e.store.Load() }); pc != "" {
		s.load = "PANIC " + pc
	} else if l.IsEmpty() {
		s.load = "empty"
	} else {
		s.load = "ok " + stateObs(&l)
	}
	return s
}

func (e *env) opPrune(from, to uint64) {
	before := e.snapshot()
	presentBefore := map[string]bool{}
	missingBefore := map[uint64]int{}
	for k, hsh := range e.hashOf {
		presentBefore[k] = rawdb.ReadConsensusValidatorsInfo(e.db, hsh) != nil
	}
	for _, h := range e.savedHeights() {
		missingBefore[h] = len(e.missingRecords(h))
	}
	var a, b uint64
	pc := catch(func() { a, b, _ = e.store.PruneState(from, to) })
	in := fmt.Sprintf("R %d %d", from, to)
	if pc != "" {
		e.o.Op(in, "r PANIC")
		e.o.Fail(e.step, "prune-panic", "PruneState panicked")
		return
	}
	e.o.Op(in, fmt.Sprintf("r %d %d", a, b))
	f := from
	if f == 0 {
		f = 1
	}
	e.prunes = append(e.prunes, [2]uint64{f, to})
	e.toExisted = append(e.toExisted, e.saved[to] != nil && !e.pruned[to])
	for k, hsh := range e.hashOf {
		if presentBefore[k] && rawdb.ReadConsensusValidatorsInfo(e.db, hsh) == nil {
			e.deletedBy[k] = len(e.prunes) - 1
		}
	}
	for _, h := range e.savedHeights() {
		if h >= f && h < to {
			e.pruned[h] = true
		}
	}
	// direct inspection of every kept height, then API-level "loads as before"
	after := e.snapshot()
	for _, h := range e.savedHeights() {
		if e.saved[h] == nil || e.pruned[h] {
			continue
		}
		damaged := false
		if len(e.missingRecords(h)) != missingBefore[h] {
			damaged = e.reportDamage(h, "inspect")
		}
		if !damaged && (before.vals[h] != after.vals[h] || before.params[h] != after.params[h]) {
			e.o.Fail(e.step, "prune-damage", fmt.Sprintf("kind=other where=%s height=%d LoadValidators/LoadConsensusParams before=[%s|%s] after=[%s|%s]", e.where(h, len(e.prunes)-1), h, before.vals[h], before.params[h], after.vals[h], after.params[h]))
		}
	}
	if !e.pruned[e.head] && before.load != after.load && len(e.missingRecords(e.head)) == 0 {
		e.o.Fail(e.step, "prune-damage", fmt.Sprintf("kind=other where=%s height=%d Load before=[%s] after=[%s]", e.where(e.head, len(e.prunes)-1), e.head, before.load, after.load))
	}
}

// changeset turning the membership of cur into target (as calculateValidatorSetUpdates does)
func diffTo(cur *types.ValidatorSet, target map[int]int64) []*types.Validator {
	var ch []*types.Validator
	have := map[common.Address]int64{}
	for _, v := range cur.Validators {
		have[v.Address] = v.VotingPower
	}
	for i := 1; i <= 12; i++ {
		p, in := target[i]
		old, had := have[addr(i)]
		switch {
		case in && (!had || old != p):
			ch = append(ch, types.NewValidator(addr(i), p))
		case !in && had:
			ch = append(ch, types.NewValidator(addr(i), 0))
		}
	}
	return ch
}

func membership(vs *types.ValidatorSet) map[int]int64 {
	m := map[int]int64{}
	for _, v := range vs.Validators {
		m[int(v.Address[19])] = v.VotingPower
	}
	return m
}

// ---------------------------------------------------------------- concurrency family
//
// In the node the evidence pool and the RPC layer read the store (LoadValidators, Load,
// LoadConsensusParams) while ApplyBlock saves the next state.  The family runs K reader
// goroutines against the Saves of a few heights (phase 1) and then readers only (phase 2) and
// compares every result with the single-threaded expectation.  Nothing of it goes to the model
// trace except the Saves themselves (whose effect must be the sequential one).

type expect struct {
	mu     sync.RWMutex
	states map[uint64]*cstate.LatestBlockState // registered BEFORE the Save of that height starts
	done   int64                               // highest height whose Save has returned
}

func (x *expect) get(h uint64) *cstate.LatestBlockState {
	x.mu.RLock()
	defer x.mu.RUnlock()
	return x.states[h]
}
func (x *expect) put(h uint64, s *cstate.LatestBlockState) {
	x.mu.Lock()
	x.states[h] = s
	x.mu.Unlock()
}
func (x *expect) max() uint64 {
	x.mu.RLock()
	defer x.mu.RUnlock()
	var m uint64
	for h := range x.states {
		if h > m {
			m = h
		}
	}
	return m
}

type concFails struct {
	mu sync.Mutex
	l  []string
}

func (c *concFails) add(format string, a ...interface{}) {
	c.mu.Lock()
	if len(c.l) < 4 {
		c.l = append(c.l, fmt.Sprintf(format, a...))
	}
	c.mu.Unlock()
}

// reader: until *stop is set (iters < 0) or for iters operations.
func concReader(store cstate.Store, x *expect, seed uint64, stop *int32, iters int, savesRunning bool, fails *concFails) {
	r := gen.New(seed)
	for i := 0; iters < 0 || i < iters; i++ {
		if atomic.LoadInt32(stop) != 0 {
			return
		}
		doneBefore := uint64(atomic.LoadInt64(&x.done))
		h := uint64(r.Intn(int(x.max()) + 2))
		switch r.Pick(3, 1, 2) {
		case 0:
			var vs *types.ValidatorSet
			var err error
			if pc := catch(func() { vs, err = store.LoadValidators(h) }); pc != "" {
				fails.add("LoadValidators(%d) panicked (%s)", h, pc)
				continue
			}
			want := x.get(h)
			switch {
			case err != nil && h >= 1 && h <= doneBefore:
				fails.add("LoadValidators(%d) = %s although the state of that height had been saved (done=%d)", h, valsErrClass(err), doneBefore)
			case err == nil && (want == nil || want.LastValidators == nil):
				fails.add("LoadValidators(%d) returned %s although no state with a last validator set exists for that height", h, setObs(vs))
			case err == nil && keylist(vs) != keylist(want.LastValidators):
				fails.add("LoadValidators(%d) entitled=%s returned=%s", h, setObs(want.LastValidators), setObs(vs))
			}
		case 1:
			var p kproto.ConsensusParams
			var err error
			pc := catch(func() { p, err = store.LoadConsensusParams(h) })
			want := x.get(h)
			if h <= doneBefore {
				if pc != "" || err != nil {
					fails.add("LoadConsensusParams(%d) failed although the state of that height had been saved", h)
				} else if want != nil && !want.ConsensusParams.Equal(&p) {
					fails.add("LoadConsensusParams(%d) returned other params", h)
				}
			}
		case 2:
			var l cstate.LatestBlockState
			if pc := catch(func() { l = store.Load() }); pc != "" {
				fails.add("Load panicked (%s)", pc)
				continue
			}
			if l.IsEmpty() {
				if !savesRunning {
					fails.add("Load returned the empty state although the head state is saved")
				}
				continue // phase 1: the head block is stored before its state is saved
			}
			want := x.get(l.LastBlockHeight)
			if want == nil {
				fails.add("Load returned a state of unknown height %d", l.LastBlockHeight)
				continue
			}
			if l.LastBlockHeight < doneBefore {
				fails.add("Load returned height %d although height %d had been saved", l.LastBlockHeight, doneBefore)
			}
			if l.ChainID != want.ChainID || l.InitialHeight != want.InitialHeight || !l.LastBlockID.Equal(want.LastBlockID) ||
				tmTok(l.LastBlockTime) != tmTok(want.LastBlockTime) || l.AppHash != want.AppHash || !l.ConsensusParams.Equal(&want.ConsensusParams) {
				fails.add("Load at height %d: scalar fields differ from the saved state", l.LastBlockHeight)
			}
			for _, name := range []string{"LastValidators", "Validators", "NextValidators"} {
				var a, b *types.ValidatorSet
				switch name {
				case "LastValidators":
					a, b = want.LastValidators, l.LastValidators
				case "Validators":
					a, b = want.Validators, l.Validators
				default:
					a, b = want.NextValidators, l.NextValidators
				}
				if keylist(a) != keylist(b) {
					fails.add("Load at height %d: %s saved=%s loaded=%s (members of another height)", l.LastBlockHeight, name, setObs(a), setObs(b))
				}
			}
		}
	}
}

const concK = 4

// concPhase2AndVerify: readers only, then the placement of every state record.
func (e *env) concFinish(x *expect, fails *concFails) {
	var stop int32
	var wg sync.WaitGroup
	for k := 0; k < concK; k++ {
		wg.Add(1)
		seed := e.r.U64()
		go func() {
			defer wg.Done()
			concReader(e.store, x, seed, &stop, 250, false, fails)
		}()
	}
	wg.Wait()
	for _, f := range fails.l {
		e.o.Fail(e.step, "concurrent-load-differs", f)
	}
	for _, h := range e.savedHeights() {
		want := e.saved[h]
		if want == nil || e.pruned[h] {
			continue
		}
		sp := rawdb.ReadConsensusStateHeight(e.db, h)
		switch {
		case sp == nil:
			e.o.Fail(e.step, "concurrent-save-misplaced", fmt.Sprintf("height=%d: no state record under its key after concurrent reads", h))
		case !bytes.Equal(sp.NextValidatorsInfoHash, want.NextValidators.Hash().Bytes()) || !bytes.Equal(sp.ValidatorsInfoHash, want.Validators.Hash().Bytes()):
			e.o.Fail(e.step, "concurrent-save-misplaced", fmt.Sprintf("height=%d: the record under its key is the record of another height", h))
		}
	}
}

func runCase(o *out.Out, r *gen.Rand, c int) {
	e := &env{o: o, r: r, saved: map[uint64]*cstate.LatestBlockState{}, vkeys: map[string]bool{}, pkeys: map[string]bool{},
		lastWritten: map[string]*types.ValidatorSet{}, pruned: map[uint64]bool{}, hashOf: map[string]common.Hash{}, deletedBy: map[string]int{}, stateKeys: map[string]uint64{}}
	e.rec = &recDB{Database: memorydb.New(), on: true}
	e.db = e.rec
	e.store = cstate.NewStore(e.rec)
	defer func() {
		// key-construction purity, checked over every key the whole case handed to the database
		if bad, what := e.rec.changed(); bad {
			o.Fail(e.step, "key-aliasing", what)
		}
	}()
	o.Case(c, fmt.Sprintf("CASE %d", c))

	scenario := r.Pick(3, 3, 3, 2, 3) // static | busy | recurring | power-only | mixed
	scen := []string{"static", "busy", "recurring", "poweronly", "mixed"}[scenario]
	n := 1 + r.Intn(30)
	if r.Chance(1, 8) {
		n = 1 + r.Intn(3)
	}
	// boundary families (extra.go)
	e.fam = []string{"classic", "jump", "wild", "nohead"}[r.Pick(40, 6, 7, 1)]
	var base uint64 // heights of the chain are base+1 .. base+n
	malformedAt := -1
	if e.fam == "jump" {
		b := jumpBoundaries[r.Intn(len(jumpBoundaries))]
		base = b - uint64(2+r.Intn(3))
		if n < 4 && r.Chance(2, 3) {
			n += 4
		}
		o.Count(fmt.Sprintf("jump.boundary.2^%d", bitlen(b)))
	}
	if e.fam == "wild" {
		scen = "wild"
		if r.Chance(1, 4) {
			malformedAt = 1 + r.Intn(n) // one step of the chain gets a set that Load must refuse
		}
	}
	o.Count("family." + e.fam)
	// concurrency family: readers run against the Saves of heights concStart..concEnd
	conc := r.Chance(1, 6) && n >= 4 && e.fam == "classic"
	var concStart, concEnd uint64
	if conc {
		scen = "busy" // the sets must differ between heights for a mixed-up read to be visible
		concStart = uint64(2 + r.Intn(n-2))
		concEnd = concStart + uint64(1+r.Intn(4))
		if concEnd > uint64(n) {
			concEnd = uint64(n)
		}
		o.Count("family.concurrent")
	}
	o.Count("scenario." + scen)
	o.Count(fmt.Sprintf("chainlen.%02d-%02d", (n-1)/5*5+1, (n-1)/5*5+5))

	// ---- genesis document
	nv := 1 + r.Intn(5)
	perm := r.Perm(8)
	var gvals []*genesis.GenesisValidator
	for i := 0; i < nv; i++ {
		p := int64(1 + r.Intn(50))
		if r.Chance(1, 4) {
			p = 10
		}
		gvals = append(gvals, &genesis.GenesisValidator{Name: fmt.Sprintf("v%d", i), Address: addr(perm[i] + 1).Hex(), SelfDelegate: fmt.Sprintf("%d0000000000", p), StartWithGenesis: true})
	}
	if r.Chance(1, 5) {
		gvals = append(gvals, &genesis.GenesisValidator{Name: "late", Address: addr(12).Hex(), SelfDelegate: "70000000000", StartWithGenesis: false})
	}
	params := paramPool[r.Pick(4, 2, 2, 1, 1)]
	t0 := time.Unix(1600000000+int64(r.Intn(1000)), int64(r.Intn(2))*500).UTC()
	gdoc := &genesis.Genesis{ChainID: chainNames[1+r.Intn(2)], InitialHeight: []uint64{0, 1, 1, 3}[r.Intn(4)], Timestamp: t0, Validators: gvals, ConsensusParams: &params}
	gst, err := cstate.MakeGenesisState(gdoc)
	if err != nil {
		panic(err)
	}
	// genesis block first (as Genesis.Commit does), then the boot path
	// (Genesis.Commit stores the genesis state root as the app hash of height 0: non-zero)
	gapp := common.BytesToHash(r.Bytes(32))
	if e.fam == "nohead" {
		// the store is used before any block exists: ReadHeadBlock is nil and every entry point that
		// dereferences it panics (the precondition "block store written first" is violated, so this
		// is compared with the model only)
		g2 := *gdoc
		e.declareState(&gst)
		pc := catch(func() { _, _ = e.store.LoadStateFromDBOrGenesisDoc(&g2) })
		if pc == "" {
			e.o.Op("BOOT "+stateTok(&gst), "boot ok -")
		} else {
			e.o.Op("BOOT "+stateTok(&gst), "boot PANIC "+pc)
		}
		pc = catch(func() { _ = e.store.Load() })
		if pc == "" {
			e.o.Op("L", "l ok -")
		} else {
			e.o.Op("L", "l PANIC "+pc)
		}
		_, verr := e.store.LoadValidators(0)
		if verr != nil {
			e.o.Op("V 0", "v "+valsErrClass(verr))
		} else {
			e.o.Op("V 0", "v ok -")
		}
		o.Mark("nohead")
		return
	}
	e.writeBlock(0, t0, 0, gapp)
	e.o.InOnly(fmt.Sprintf("B 0 %s %d 0 %s", bidTok(e.lastID), tmTok(t0), bnum(gapp.Bytes())))

	boot := func() bool {
		// restart: the node's state becomes whatever the store returns
		g2 := *gdoc
		var st cstate.LatestBlockState
		var berr error
		pc := catch(func() { st, berr = e.store.LoadStateFromDBOrGenesisDoc(&g2) })
		e.declareState(&gst)
		in := "BOOT " + stateTok(&gst)
		if pc != "" {
			e.o.Op(in, "boot PANIC "+pc)
			if pc == "badset" && e.saved[e.head] != nil && !e.pruned[e.head] && e.expectBad(e.head) {
				e.o.Count("boot.refused-malformed-set")
			} else if !e.reportDamage(e.head, "LoadStateFromDBOrGenesisDoc") {
				e.o.Fail(e.step, "boot-panic", "LoadStateFromDBOrGenesisDoc panicked: "+pc)
			}
			return false
		}
		if berr != nil {
			e.o.Op(in, "boot err")
			e.o.Fail(e.step, "boot-error", berr.Error())
			return false
		}
		e.o.Op(in, "boot ok "+stateObs(&st))
		if e.saved[e.head] == nil {
			// fresh database: the genesis state was created and saved
			if e.head == 0 {
				e.saveObs(0)
				e.saved[0] = copyState(st)
				e.noteSave(e.saved[0])
				if stateObs(&st) != stateObs(&gst) {
					e.o.Fail(e.step, "boot-genesis-differs", "LoadStateFromDBOrGenesisDoc on an empty store did not return MakeGenesisState(doc)")
				}
			}
		} else if !e.pruned[e.head] {
			if e.expectBad(e.head) {
				e.o.Fail(e.step, "load-accepted-invalid-set", fmt.Sprintf("LoadStateFromDBOrGenesisDoc at head %d returned a state although a validator record it needs holds a set with a negative voting power or no validator", e.head))
			} else {
				e.checkLoaded(&st, e.saved[e.head])
			}
		}
		e.cur = st
		return true
	}
	if !boot() {
		return
	}
	o.Count("op.boot")
	if !conc && r.Chance(1, 10) {
		// hand-built node state at height 0: a record as an older version wrote it (no initial
		// height) and/or other "last height changed" markers; saved over the genesis record
		st := *copyState(e.cur)
		kind := r.Pick(3, 2, 2)
		if kind != 1 {
			st.InitialHeight = 0
			e.legacy = true
		}
		if kind != 0 {
			st.LastHeightValidatorsChanged = []uint64{0, 1, 2, 1 << 32, 1 << 63, math.MaxUint64}[r.Intn(6)]
			st.LastHeightConsensusParamsChanged = []uint64{0, 1, 7, 1 << 40, math.MaxUint64}[r.Intn(5)]
		}
		e.step++
		if !e.nodeSave(st, "genesis-edit") {
			return
		}
		o.Count(fmt.Sprintf("handbuilt.genesis.%d", kind))
	}
	if r.Chance(1, 3) {
		e.step++
		e.opLoad() // restart while still at height 0
	}

	// ---- the chain
	history := []map[int]int64{membership(e.cur.NextValidators)}
	pattern := ""
	prunePattern := ""
	lastChanged := false
	tm := t0
	alive := true
	var (
		xp       *expect
		cfails   *concFails
		cstop    int32
		cwg      sync.WaitGroup
		concOpen bool
	)
	closeConc := func() {
		if !concOpen {
			return
		}
		atomic.StoreInt32(&cstop, 1)
		cwg.Wait()
		concOpen = false
		e.concFinish(xp, cfails)
		e.rec.enable(true)
	}
	var wildBig bool
	for idx := 1; idx <= n && alive; idx++ {
		h := base + uint64(idx)
		e.step++
		if conc && h == concStart {
			xp = &expect{states: map[uint64]*cstate.LatestBlockState{}, done: int64(e.head)}
			for k, v := range e.saved {
				xp.states[k] = v
			}
			cfails = &concFails{}
			e.rec.enable(false) // the readers' keys are not kept
			concOpen = true
			for k := 0; k < concK; k++ {
				cwg.Add(1)
				seed := r.U64()
				go func() {
					defer cwg.Done()
					concReader(e.store, xp, seed, &cstop, -1, true, cfails)
				}()
			}
		}
		// validator changes of this block
		var changes []*types.Validator
		curM := membership(e.cur.NextValidators)
		pchange := map[string][2]int{"static": {0, 1}, "busy": {1, 2}, "recurring": {1, 3}, "poweronly": {1, 3}, "mixed": {1, 4}, "wild": {0, 1}}[scen]
		do := r.Chance(pchange[0], pchange[1])
		if e.fam == "wild" {
			lastChanged = false // the next set is hand-built below
		}
		if lastChanged && scen != "static" && r.Chance(1, 2) {
			do = true // changes at consecutive heights
		}
		kind := "-"
		if do {
			switch scen {
			case "poweronly":
				kind = "p"
			case "recurring":
				kind = []string{"a", "d", "b", "b", "b"}[r.Intn(5)]
			default:
				kind = []string{"a", "a", "d", "p", "b"}[r.Intn(5)]
			}
			target := map[int]int64{}
			for k, v := range curM {
				target[k] = v
			}
			switch kind {
			case "a": // add a validator
				i := 1 + r.Intn(11)
				if _, in := target[i]; !in {
					target[i] = int64(1 + r.Intn(30))
				} else {
					kind = "-"
				}
			case "d": // remove one
				if len(target) > 1 {
					for _, i := range r.Perm(12) {
						if _, in := target[i+1]; in {
							delete(target, i+1)
							break
						}
					}
				} else {
					kind = "-"
				}
			case "p": // power only
				for _, i := range r.Perm(12) {
					if _, in := target[i+1]; in {
						target[i+1] = target[i+1] + int64(1+r.Intn(5))
						break
					}
				}
			case "b": // back to an earlier membership
				target = history[r.Intn(len(history))]
			}
			if kind != "-" {
				changes = diffTo(e.cur.NextValidators, target)
				if len(changes) == 0 {
					kind = "-"
				}
			}
		}
		tm = tm.Add(time.Duration(1+r.Intn(5)) * time.Second)
		app := common.BytesToHash(r.Bytes(32))
		ntx := r.Pick(3, 1, 1)
		b, id := e.writeBlock(h, tm, ntx, app)
		blk := fmt.Sprintf("%d %s %d %d %s", h, bidTok(id), tmTok(b.Time()), b.NumTxs(), bnum(app.Bytes()))
		e.o.Op("B "+blk, "b ok")
		var ns cstate.LatestBlockState
		var changed bool
		if e.fam == "wild" {
			// updateState with a hand-built result of the next-set computation
			mal := 0
			if idx == malformedAt {
				mal = 1 + r.Intn(3)
				o.Count(fmt.Sprintf("wild.malformed.%d", mal))
			}
			wildRefused = ""
			nvs := wildSet(r, e.cur.NextValidators, mal, !wildBig)
			if wildRefused != "" {
				o.Fail(e.step, "fromproto-refused-valid-set", fmt.Sprintf("ValidatorSetFromProto refused a set without negative voting power (%s): %s", wildRefused, setObs(nvs)))
			}
			if len(nvs.Validators) >= 100 {
				wildBig = true // one large set per case is enough
				o.Count("wild.large-set")
			}
			changed = keylist(nvs) != keylist(e.cur.NextValidators)
			lh := e.cur.LastHeightValidatorsChanged
			kind = "w"
			if changed {
				lh = h + 2
				kind = "W"
			}
			ns = cstate.LatestBlockState{
				ChainID: e.cur.ChainID, InitialHeight: e.cur.InitialHeight,
				LastBlockHeight: h, LastBlockID: id, LastBlockTime: b.Header().Time,
				NextValidators: nvs, Validators: e.cur.NextValidators.Copy(), LastValidators: e.cur.Validators.Copy(),
				LastHeightValidatorsChanged: lh, ConsensusParams: e.cur.ConsensusParams, AppHash: app,
			}
		} else {
			ns, changed = updateState(e.cur, id, b.Header(), changes, app)
		}
		if !changed && e.fam != "wild" {
			kind = "-"
		}
		lastChanged = changed
		pattern += kind
		o.Count("change." + kind)
		e.cur = ns
		e.declareState(&ns)
		ch := 0
		if changed {
			ch = 1
			history = append(history, membership(ns.NextValidators))
		}
		e.o.Op(fmt.Sprintf("U %s %d %s", blk, ch, setTok(ns.NextValidators)), "u "+stateObs(&ns))
		if concOpen {
			xp.put(h, copyState(ns))
		}
		if !conc && r.Chance(1, 30) {
			// a state Save must refuse (no LastValidators above height 0): it panics before anything
			// is written, so every kept height must load exactly as before
			bad := *copyState(ns)
			bad.LastValidators = nil
			if !e.refusedSave(bad) {
				return
			}
			e.o.Op("E "+stateTok(&ns), "e ok") // the node goes on with the proper state
			o.Count("handbuilt.refused-save")
		}
		if pc := catch(func() { e.store.Save(ns) }); pc != "" {
			closeConc()
			e.o.Op("S", "s PANIC")
			e.o.Fail(e.step, "save-panic", "Save panicked: "+pc)
			return
		}
		e.o.Op("S", e.saveObs(h))
		e.saved[h] = copyState(ns)
		delete(e.pruned, h)
		e.noteSave(e.saved[h])
		if !conc && r.Chance(1, 40) {
			// the same state saved again (ApplyBlock replayed after a crash): nothing may change
			before := e.snapshot()
			if pc := catch(func() { e.store.Save(ns) }); pc != "" {
				e.o.Op("S", "s PANIC")
				e.o.Fail(e.step, "save-panic", "second Save of the same state panicked: "+pc)
				return
			}
			e.o.Op("S", e.saveObs(h))
			e.noteSave(e.saved[h])
			if after := e.snapshot(); !snapEqual(before, after) {
				e.o.Fail(e.step, "resave-changed-store", fmt.Sprintf("height=%d: saving the same state twice changed what is loaded: before=[%s] after=[%s]", h, before.load, after.load))
			}
			o.Count("op.resave")
		}
		if concOpen {
			atomic.StoreInt64(&xp.done, int64(h))
			if h >= concEnd {
				closeConc()
			}
		}
		// occasional restart / load / prune in the middle of the chain
		mid := r.Pick(24, 2, 1, 1)
		if conc {
			mid = 0 // no restarts / prunes in a case of the concurrency family before the final phase
		}
		switch mid {
		case 1:
			e.opLoad()
			o.Count("op.load.mid")
		case 2:
			o.Count("op.boot.mid")
			if !boot() {
				alive = false
			}
		case 3:
			if e.fam == "jump" {
				from, to := e.jumpRange(r)
				e.opPrune(from, to)
				o.Count("op.prune.mid")
				prunePattern += fmt.Sprintf("m%d-%d@%d;", from, to, h)
			} else if h >= 2 {
				from := uint64(r.Intn(int(h)))
				to := from + uint64(1+r.Intn(int(h-from)))
				if r.Chance(1, 2) {
					from = uint64(r.Intn(2))
				}
				e.opPrune(from, to)
				o.Count("op.prune.mid")
				prunePattern += fmt.Sprintf("m%d-%d@%d;", from, to, h)
			}
		}
	}
	closeConc()
	if !alive {
		o.Mark(fmt.Sprintf("%s|%s|%s|dead", scen, pattern, prunePattern))
		return
	}
	// ---- final phase: load at head, optional pruning, loads at every height
	e.step++
	e.opLoad()
	np := r.Pick(3, 3, 1)
	for k := 0; k < np; k++ {
		e.step++
		var from, to uint64
		pk := r.Pick(3, 3, 2, 1, 1)
		if e.fam == "jump" {
			pk = 5
			from, to = e.jumpRange(r)
			if r.Chance(1, 3) { // everything of the jumped part below the head
				from, to = base+uint64(r.Intn(2)), e.head
			}
		}
		switch pk {
		case 0: // everything below the head
			from, to = uint64(r.Intn(2)), e.head
		case 1: // a prefix
			from, to = uint64(r.Intn(2)), uint64(r.Intn(int(e.head)+1))
		case 2: // an inner range
			from = uint64(r.Intn(int(e.head) + 1))
			to = from + uint64(r.Intn(int(e.head-from)+1))
		case 3: // beyond the head (prunes the head state as well)
			from, to = uint64(r.Intn(int(e.head)+1)), e.head+1+uint64(r.Intn(3))
		case 4: // empty / inverted
			from = uint64(r.Intn(int(e.head) + 2))
			to = uint64(r.Intn(int(from) + 1))
		}
		e.opPrune(from, to)
		o.Count("op.prune.final")
		prunePattern += fmt.Sprintf("f%d-%d;", from, to)
		e.step++
		e.opLoad()
	}
	probes := append(e.savedHeights(), e.head+1)
	if e.fam == "jump" {
		probes = append(probes, 1, base, e.head+256, e.head+1<<32) // never saved
	}
	for _, h := range probes {
		e.step++
		e.opVals(h)
		if e.saved[h] != nil && !e.pruned[h] || r.Chance(1, 6) {
			e.opParams(h)
		}
	}
	if r.Chance(1, 3) {
		e.step++
		boot()
		o.Count("op.boot.final")
	}
	if strings.Trim(pattern, "-") != "" || prunePattern != "" {
		o.Mark(fmt.Sprintf("%s|%d|%d|%s|%s", scen, base, nv, pattern, prunePattern))
	}
}

func main() {
	out.WriteFacts(func() string { return "(* C14 has no source-derived constants *)\n" })
	initParams()
	o := out.Open()
	o.Rule = "a case is one database history: genesis boot, 1..30 blocks each followed by updateState+Save (validator changes: add/remove/power-only/back to an earlier membership; family wild: hand-built next sets with boundary addresses/powers/priorities/proposer/cached total and a malformed stream; family jump: block heights starting below 2^7..2^63; hand-built node states: InitialHeight 0, refused Save, repeated Save), restarts, PruneState ranges, then Load at the head and LoadValidators/LoadConsensusParams at every height; non-trivial = at least one validator change or one prune; distinct by (scenario, first height, genesis size, change pattern, prune ranges)"
	root := gen.New(*out.Seed)
	for c := 0; c < *out.N; c++ {
		if !out.Want(c) {
			continue
		}
		runCase(o, root.Fork(uint64(c)), c)
	}
	o.Close()
}
