// C13 harness: drives the real lib/merkle, types.PartSet and types.Block code of the repository.
//
//   - part-set cases: data of 0..6 parts (exact multiples of the part size, short last part, the real
//     BlockPartSizeBytes now and then), a part set created from the header, arrival schedules that are
//     permutations with duplicates and bogus parts; observables after every AddPart
//   - merkle cases: SimpleHashFromByteSlices / SimpleProofsFromByteSlices / SimpleProof.Verify directly
//   - block cases: blocks with 0..3 txs, a signed last commit and evidence; Header/Commit/Evidence hash,
//     ValidateBasic, every single-field mutation on the wire form, part-set reassembly of the marshalled
//     block, proto and database round trips
//
// Direct oracles (independent of the model): reassembled bytes == original whenever IsComplete; an
// accepted part carries exactly the bytes of that index; a genuine part is accepted whenever its slot
// is free (also after bogus offers) and a rejected part changes nothing; every mutation changes the
// hash or fails validation (ValidateBasic / VerifyCommit against the state); round trips are identities.
package main

import (
	"bytes"
	"crypto/ecdsa"
	"crypto/sha256"
	"encoding/hex"
	"fmt"
	"io/ioutil"
	"math/big"
	"strings"
	"time"

	gethtypes "github.com/ethereum/go-ethereum/core/types"
	"github.com/gogo/protobuf/proto"

	"github.com/kardiachain/go-kardia/kai/state/cstate"
	"github.com/kardiachain/go-kardia/lib/common"
	"github.com/kardiachain/go-kardia/lib/crypto"
	"github.com/kardiachain/go-kardia/lib/log"
	"github.com/kardiachain/go-kardia/lib/merkle"
	"github.com/kardiachain/go-kardia/lib/rlp"
	kproto "github.com/kardiachain/go-kardia/proto/kardiachain/types"
	"github.com/kardiachain/go-kardia/trie"
	"github.com/kardiachain/go-kardia/types"

	"verif/harness/internal/gen"
	"verif/harness/internal/out"
)

var keys []*ecdsa.PrivateKey

const chainID = "verif-c13"

func hx(b []byte) string {
	if len(b) == 0 {
		return "-"
	}
	return hex.EncodeToString(b)
}

// digest of a possibly long byte string: hex when short, '#'+sha256 otherwise
func dg(b []byte) string {
	if len(b) <= 32 {
		return hx(b)
	}
	s := sha256.Sum256(b)
	return "#" + hex.EncodeToString(s[:])
}

func aunts(a [][]byte) string {
	if len(a) == 0 {
		return "-"
	}
	s := make([]string, len(a))
	for i, x := range a {
		s[i] = hx(x)
		if len(x) == 0 {
			s[i] = "." // an empty aunt inside a non-empty list
		}
	}
	return strings.Join(s, ",")
}

func b01(b bool) string {
	if b {
		return "1"
	}
	return "0"
}

func catch(f func()) (panicked bool) {
	defer func() {
		if r := recover(); r != nil {
			panicked = true
		}
	}()
	f()
	return
}

func clonePart(p *types.Part) *types.Part {
	q := &types.Part{Index: p.Index, Bytes: append([]byte{}, p.Bytes...)}
	q.Proof = merkle.SimpleProof{Total: p.Proof.Total, Index: p.Proof.Index, LeafHash: append([]byte{}, p.Proof.LeafHash...)}
	for _, a := range p.Proof.Aunts {
		q.Proof.Aunts = append(q.Proof.Aunts, append([]byte{}, a...))
	}
	return q
}

func proofEq(a, b *merkle.SimpleProof) bool {
	if a.Total != b.Total || a.Index != b.Index || !bytes.Equal(a.LeafHash, b.LeafHash) || len(a.Aunts) != len(b.Aunts) {
		return false
	}
	for i := range a.Aunts {
		if !bytes.Equal(a.Aunts[i], b.Aunts[i]) {
			return false
		}
	}
	return true
}

// wirePart sends a part the way the consensus reactor, the WAL and the block store do:
// ToProto -> Marshal -> Unmarshal -> PartFromProto (which applies SimpleProof.ValidateBasic and
// Part.ValidateBasic).  class: ok | proof | toobig.
func wirePart(p *types.Part) (q *types.Part, class string) {
	pp, err := p.ToProto()
	if err != nil {
		return nil, "other:" + err.Error()
	}
	bz, err := proto.Marshal(pp)
	if err != nil {
		return nil, "other:" + err.Error()
	}
	pp2 := new(kproto.Part)
	if err := proto.Unmarshal(bz, pp2); err != nil {
		return nil, "other:" + err.Error()
	}
	q, err = types.PartFromProto(pp2)
	switch {
	case err == nil:
		return q, "ok"
	case strings.HasPrefix(err.Error(), "expected LeafHash size"), strings.HasPrefix(err.Error(), "expected Aunts#"):
		return nil, "proof"
	case strings.HasPrefix(err.Error(), "Too big"):
		return nil, "toobig"
	}
	return nil, "other:" + err.Error()
}

// wireLine: what PartFromProto looks at — the sizes (the model rebuilds byte strings of these lengths)
func wireLine(p *types.Part) string {
	al := "-"
	if len(p.Proof.Aunts) > 0 {
		ls := make([]string, len(p.Proof.Aunts))
		for i, a := range p.Proof.Aunts {
			ls[i] = fmt.Sprint(len(a))
		}
		al = strings.Join(ls, ",")
	}
	return fmt.Sprintf("W %d %d %d %d %d %s", p.Index, len(p.Bytes), p.Proof.Total, p.Proof.Index, len(p.Proof.LeafHash), al)
}

func partLine(p *types.Part) string {
	return fmt.Sprintf("A %d %s %d %d %s %s", p.Index, hx(p.Bytes), p.Proof.Total, p.Proof.Index, hx(p.Proof.LeafHash), aunts(p.Proof.Aunts))
}

func bitsOf(ps *types.PartSet) string {
	ba := ps.BitArray()
	if ba == nil || ba.Size() == 0 {
		return "-"
	}
	var sb strings.Builder
	for i := 0; i < ba.Size(); i++ {
		sb.WriteString(b01(ba.GetIndex(i)))
	}
	return sb.String()
}

func addErrClass(err error) string {
	switch err {
	case nil:
		return "none"
	case types.ErrPartSetUnexpectedIndex:
		return "index"
	case types.ErrPartSetInvalidProof:
		return "proof"
	}
	return "other:" + err.Error()
}

// ---------------------------------------------------------------------------------- part sets

type psCtx struct {
	o    *out.Out
	step int
}

// observe NewPartSetFromData; returns the full set (nil on panic)
func opFromData(o *out.Out, data []byte, partSize uint32) *types.PartSet {
	var full *types.PartSet
	in := fmt.Sprintf("D %d %s", partSize, hx(data))
	if catch(func() { full = types.NewPartSetFromData(data, partSize) }) {
		o.Op(in, "d PANIC")
		return nil
	}
	var sb strings.Builder
	h := full.Header()
	fmt.Fprintf(&sb, "d %d %s %d %s", h.Total, hx(h.Hash.Bytes()), full.Count(), b01(full.IsComplete()))
	for i := 0; i < int(full.Total()); i++ {
		p := full.GetPart(i)
		fmt.Fprintf(&sb, " | %d %d %d %s %s %d %s", p.Index, p.Proof.Total, p.Proof.Index, hx(p.Proof.LeafHash), aunts(p.Proof.Aunts), len(p.Bytes), dg(p.Bytes))
	}
	o.Op(in, sb.String())
	return full
}

func opRead(o *out.Out, ps *types.PartSet) (got []byte, ok bool) {
	if catch(func() {
		b, err := ioutil.ReadAll(ps.GetReader())
		if err != nil {
			panic(err)
		}
		got = b
	}) {
		o.Op("R", "r PANIC")
		return nil, false
	}
	o.Op("R", fmt.Sprintf("r %d %s", len(got), dg(got)))
	return got, true
}

// the chunk of data that belongs at index i for part size ps (independent of the implementation)
func chunk(data []byte, ps uint32, i int) []byte {
	lo := i * int(ps)
	hi := lo + int(ps)
	if hi > len(data) {
		hi = len(data)
	}
	if lo > len(data) {
		return nil
	}
	return data[lo:hi]
}

var bogusNames = []string{"wrongindex", "wrongindex+proofindex", "otherleaf", "wrongtotal", "truncated", "extended", "flipped",
	"auntswap", "auntflip", "auntdrop", "auntextra", "index>=total", "leafhash", "foreign", "hugeproofindex", "total0", "emptybytes", "emptyaunt"}

func mkBogus(r *gen.Rand, kind int, gp []*types.Part, other []*types.Part, total int) *types.Part {
	i := r.Intn(total)
	q := clonePart(gp[i])
	j := i
	if total > 1 {
		j = (i + 1 + r.Intn(total-1)) % total
	}
	switch kind {
	case 0:
		if j == i {
			q.Index = uint32(i + 1)
		} else {
			q.Index = uint32(j)
		}
	case 1:
		if j == i {
			q.Index = uint32(i + 1)
		} else {
			q.Index = uint32(j)
		}
		q.Proof.Index = uint64(q.Index)
	case 2:
		q.Bytes = append([]byte{}, gp[j].Bytes...)
		if j == i {
			q.Bytes = append(q.Bytes, 0x5a)
		}
	case 3:
		if r.Bool() || q.Proof.Total == 0 {
			q.Proof.Total++
		} else {
			q.Proof.Total--
		}
	case 4:
		if len(q.Bytes) > 0 {
			q.Bytes = q.Bytes[:len(q.Bytes)-1]
		} else {
			q.Bytes = []byte{1}
		}
	case 5:
		q.Bytes = append(q.Bytes, byte(r.Intn(256)))
	case 6:
		if len(q.Bytes) > 0 {
			q.Bytes[r.Intn(len(q.Bytes))] ^= byte(1 << uint(r.Intn(8)))
		} else {
			q.Bytes = []byte{0}
		}
	case 7:
		if n := len(q.Proof.Aunts); n >= 2 {
			a, b := r.Intn(n), r.Intn(n-1)
			if b >= a {
				b++
			}
			q.Proof.Aunts[a], q.Proof.Aunts[b] = q.Proof.Aunts[b], q.Proof.Aunts[a]
		} else {
			q.Proof.Aunts = append(q.Proof.Aunts, r.Bytes(32))
		}
	case 8:
		if n := len(q.Proof.Aunts); n >= 1 {
			a := r.Intn(n)
			q.Proof.Aunts[a][r.Intn(len(q.Proof.Aunts[a]))] ^= 0x10
		} else {
			q.Proof.LeafHash[0] ^= 1
		}
	case 9:
		if n := len(q.Proof.Aunts); n >= 1 {
			if r.Bool() {
				q.Proof.Aunts = q.Proof.Aunts[:n-1]
			} else {
				q.Proof.Aunts = q.Proof.Aunts[1:]
			}
		} else {
			q.Proof.Aunts = [][]byte{r.Bytes(32)}
		}
	case 10:
		if r.Bool() {
			q.Proof.Aunts = append(q.Proof.Aunts, r.Bytes(32))
		} else {
			q.Proof.Aunts = append([][]byte{r.Bytes(32)}, q.Proof.Aunts...)
		}
	case 11:
		switch r.Intn(4) {
		case 0:
			q.Index = uint32(total)
		case 1:
			q.Index = uint32(total + 1)
		case 2:
			q.Index = 0xffffffff
		case 3:
			q.Index = uint32(total)
			q.Proof.Index = uint64(total)
			q.Proof.Total = uint64(total + 1)
		}
	case 12:
		if r.Bool() {
			q.Proof.LeafHash[r.Intn(len(q.Proof.LeafHash))] ^= 0x80
		} else {
			q.Proof.LeafHash = nil
		}
	case 13:
		if other != nil && i < len(other) {
			q = clonePart(other[i])
		} else {
			q.Bytes = append(q.Bytes, 7)
		}
	case 14:
		switch r.Intn(3) {
		case 0:
			q.Proof.Index = (1 << 63) + uint64(i)
		case 1:
			q.Proof.Index = ^uint64(0)
		case 2:
			q.Proof.Total = (1 << 63) + uint64(total)
		}
	case 15:
		q.Proof.Total = 0
	case 16:
		if len(q.Bytes) == 0 {
			q.Bytes = []byte{9}
		} else {
			q.Bytes = nil
		}
	case 17:
		if n := len(q.Proof.Aunts); n >= 1 {
			q.Proof.Aunts[r.Intn(n)] = nil
		} else {
			q.Proof.Aunts = [][]byte{nil}
		}
	}
	return q
}

// runSchedule delivers a schedule of genuine and bogus parts to a set created from `hdr`, observing and
// checking every step.  genuineHdr says whether hdr is the header of NewPartSetFromData(data, partSize).
func runSchedule(o *out.Out, r *gen.Rand, data []byte, partSize uint32, full *types.PartSet, hdr types.PartSetHeader, hdrKind int, bogusRate int, sig *strings.Builder) {
	genuineHdr := hdrKind == 0 // 0 genuine, 1/2 total changed (same hash), 3 hash changed
	total := int(full.Total())
	gp := make([]*types.Part, total)
	for i := range gp {
		gp[i] = full.GetPart(i)
	}
	// a second data set of the same shape, for "foreign" proofs
	var other []*types.Part
	if total > 0 {
		od := make([]byte, len(data))
		copy(od, data)
		od[r.Intn(len(od))] ^= 0xff
		var of *types.PartSet
		if !catch(func() { of = types.NewPartSetFromData(od, partSize) }) {
			for i := 0; i < int(of.Total()); i++ {
				other = append(other, of.GetPart(i))
			}
		}
	}
	var ps *types.PartSet
	inS := fmt.Sprintf("S %d %s", hdr.Total, hx(hdr.Hash.Bytes()))
	if catch(func() { ps = types.NewPartSetFromHeader(hdr) }) {
		o.Op(inS, "s PANIC")
		return
	}
	o.Op(inS, fmt.Sprintf("s %d %s %s", ps.Count(), b01(ps.IsComplete()), bitsOf(ps)))
	step := 1

	delivered := map[int]bool{} // independent tally: genuine parts offered so far (genuine header only)
	offer := func(q *types.Part, label string) {
		step++
		// over the wire first; what arrives (if anything) is what AddPart gets
		{
			var wq *types.Part
			var wc string
			if catch(func() { wq, wc = wirePart(q) }) {
				wc = "PANIC"
				o.Fail(step, "partfromproto-panic", label)
			}
			o.Op(wireLine(q), "w "+wc)
			idx := int(q.Index)
			gen := idx < total && bytes.Equal(q.Bytes, gp[idx].Bytes) && proofEq(&q.Proof, &gp[idx].Proof)
			if gen && partSize <= types.BlockPartSizeBytes {
				if wc != "ok" {
					o.Fail(step, "genuine-part-lost-on-wire", fmt.Sprintf("genuine part %d/%d (%d bytes, part size %d) does not survive ToProto/PartFromProto: %s", idx, total, len(q.Bytes), partSize, wc))
				} else if wq.Index != q.Index || !bytes.Equal(wq.Bytes, q.Bytes) || !proofEq(&wq.Proof, &q.Proof) {
					o.Fail(step, "roundtrip-part-changed", fmt.Sprintf("part %d", idx))
				}
			}
			o.Count("wire." + wc)
			if wc == "ok" {
				q = wq
			}
		}
		beforeCount, beforeBits := ps.Count(), bitsOf(ps)
		var added bool
		var err error
		if catch(func() { added, err = ps.AddPart(q) }) {
			o.Op(partLine(q), "a PANIC")
			o.Fail(step, "addpart-panic", label)
			return
		}
		obs := fmt.Sprintf("a %s %s %d %s %s", b01(added), addErrClass(err), ps.Count(), b01(ps.IsComplete()), bitsOf(ps))
		o.Op(partLine(q), obs)
		sig.WriteString(label[:1])
		if added {
			sig.WriteString("+")
		}
		idx := int(q.Index)
		isGenuine := genuineHdr && idx < total && bytes.Equal(q.Bytes, gp[idx].Bytes) && proofEq(&q.Proof, &gp[idx].Proof)
		// --- direct oracles
		if added {
			// an accepted part carries exactly the bytes that belong at its index under this header
			okBytes := idx < total && bytes.Equal(q.Bytes, chunk(data, partSize, idx))
			if hdrKind == 1 || hdrKind == 2 {
				// a header with the genuine hash but a wrong total: the root does not commit to the leaf count,
				// so some genuine leaves still verify (possibly at a shifted index); such a set can never
				// complete (checked at the end) and whatever it accepts must at least be a leaf of the tree
				okBytes = false
				for j := 0; j < total; j++ {
					if bytes.Equal(q.Bytes, chunk(data, partSize, j)) {
						okBytes = true
					}
				}
			}
			if hdrKind == 3 || !okBytes {
				o.Fail(step, "bogus-part-accepted", fmt.Sprintf("%s part accepted at index %d (total %d, header kind %d): bytes are not chunk %d of the data", label, idx, total, hdrKind, idx))
			}
			if err != nil {
				o.Fail(step, "added-with-error", label)
			}
		} else {
			if ps.Count() != beforeCount || bitsOf(ps) != beforeBits {
				o.Fail(step, "rejected-part-changed-state", label)
			}
		}
		if isGenuine {
			if !delivered[idx] {
				if !added || err != nil {
					o.Fail(step, "genuine-part-refused", fmt.Sprintf("genuine part %d/%d refused (added=%v err=%v) although its slot was never filled by a genuine part", idx, total, added, err))
				}
				delivered[idx] = true
			} else if added || err != nil {
				o.Fail(step, "duplicate-part-not-ignored", fmt.Sprintf("index %d", idx))
			}
		}
		if genuineHdr {
			if int(ps.Count()) != len(delivered) {
				o.Fail(step, "count-mismatch", fmt.Sprintf("Count=%d but %d distinct genuine parts were offered", ps.Count(), len(delivered)))
			}
			if ps.IsComplete() != (len(delivered) == total) {
				o.Fail(step, "complete-mismatch", fmt.Sprintf("IsComplete=%v with %d/%d genuine parts", ps.IsComplete(), len(delivered), total))
			}
		}
	}

	// schedule: a permutation of the genuine parts, with duplicates and bogus parts in between
	if total > 0 {
		perm := r.Perm(total)
		for _, i := range perm {
			for r.Chance(bogusRate, 100) {
				k := r.Intn(len(bogusNames))
				o.Count("bogus." + bogusNames[k])
				offer(mkBogus(r, k, gp, other, total), "b:"+bogusNames[k])
			}
			if !genuineHdr || !r.Chance(1, 12) { // sometimes leave a genuine part for the end
				offer(clonePart(gp[i]), "genuine")
			}
			if r.Chance(1, 5) {
				offer(clonePart(gp[perm[r.Intn(total)]]), "genuine-any")
			}
			if r.Chance(1, 30) && !ps.IsComplete() {
				step++
				opRead(o, ps) // GetReader on an incomplete set: PanicSanity
			}
		}
		for r.Chance(bogusRate, 100) {
			k := r.Intn(len(bogusNames))
			o.Count("bogus." + bogusNames[k])
			offer(mkBogus(r, k, gp, other, total), "b:"+bogusNames[k])
		}
		if genuineHdr {
			// whatever was offered before, the missing genuine parts are still accepted
			for i := 0; i < total; i++ {
				if !delivered[i] {
					offer(clonePart(gp[i]), "genuine-late")
				}
			}
		}
	} else {
		// header with total 0: any part is out of range
		p := &types.Part{Index: 0, Bytes: []byte{1}, Proof: merkle.SimpleProof{Total: 0, Index: 0, LeafHash: r.Bytes(32)}}
		offer(p, "b:into-empty")
	}
	step++
	if genuineHdr {
		partSetExtras(o, r, ps, hdr, data, partSize)
	}
	if ps.IsComplete() {
		got, ok := opRead(o, ps)
		if genuineHdr && total > 0 {
			if !ok {
				o.Fail(step, "reader-panic", "complete part set cannot be read")
			} else if !bytes.Equal(got, data) {
				o.Fail(step, "reassembly-mismatch", fmt.Sprintf("complete part set reads %d bytes (%s), original %d bytes (%s)", len(got), dg(got), len(data), dg(data)))
			}
		} else if hdr.Total > 0 {
			o.Fail(step, "foreign-header-complete", fmt.Sprintf("a set under the tampered header (%d, same hash=%v) became complete (ok=%v, %d bytes)", hdr.Total, hdrKind != 3, ok, len(got)))
		}
	} else {
		if genuineHdr {
			o.Fail(step, "never-complete", "all genuine parts were offered and the set is not complete")
		}
		opRead(o, ps)
	}
}

func genData(r *gen.Rand, ps uint32) ([]byte, string) {
	p := int(ps)
	kind := r.Pick(4, 4, 2, 1, 1, 1, 1)
	if p <= 32 && r.Chance(1, 60) {
		kind = 7
	}
	var n int
	var name string
	switch kind {
	case 7: // part counts around 128 / 256 (bit array words, one-byte index boundaries)
		k := []int{127, 128, 129, 255, 256, 257}[r.Intn(6)]
		n = p*(k-1) + 1 + r.Intn(p)
		name = "verymany"
	case 0: // exact multiple
		n = p * (1 + r.Intn(6))
		name = "exact"
	case 1: // short last part
		k := r.Intn(6)
		if p > 1 {
			n = p*k + 1 + r.Intn(p-1)
		} else {
			n = k + 1
		}
		name = "shortlast"
	case 2: // one byte over / one byte short of a multiple
		k := 1 + r.Intn(5)
		if r.Bool() {
			n = p*k + 1
		} else {
			n = p*k - 1
		}
		name = "boundary"
	case 3:
		n = 1
		name = "onebyte"
	case 4:
		n = 0
		name = "empty"
	case 5: // many parts
		n = p*(7+r.Intn(10)) + r.Intn(p)
		name = "many"
	case 6: // single part smaller than the part size
		n = 1 + r.Intn(p)
		name = "single"
	}
	if n < 0 {
		n = 0
	}
	var d []byte
	switch r.Pick(6, 2, 1) {
	case 0:
		d = r.Bytes(n)
	case 1: // identical chunks: equal leaves at different positions
		d = make([]byte, n)
		pat := r.Bytes(p)
		for i := range d {
			d[i] = pat[i%p]
		}
		name += "+repeat"
	case 2:
		d = make([]byte, n)
		name += "+zeros"
	}
	return d, name
}

func runPartSetCase(o *out.Out, r *gen.Rand, c int) {
	var partSize uint32
	sizeKind := r.Pick(8, 6, 4, 1, 1)
	switch sizeKind {
	case 0:
		partSize = uint32(1 + r.Intn(4))
	case 1:
		partSize = uint32(5 + r.Intn(28))
	case 2:
		partSize = uint32(33 + r.Intn(100))
	case 3:
		partSize = types.BlockPartSizeBytes
	case 4:
		partSize = 0
	}
	o.Case(c, fmt.Sprintf("CASE %d partset", c))
	var data []byte
	var dname string
	if partSize == types.BlockPartSizeBytes {
		// the real part size: 0..3 parts around the boundaries
		k := []int{1, 2, 1, 2, 0, 3}[r.Intn(6)]
		n := int(partSize)*k + []int{0, 1, -1, 0, 12345}[r.Intn(5)]
		if n < 0 {
			n = 0
		}
		data = r.Bytes(n)
		dname = "realsize"
	} else if partSize == 0 {
		data = r.Bytes(r.Intn(5))
		dname = "partsize0"
	} else {
		data, dname = genData(r, partSize)
	}
	o.Count("data." + dname)
	o.Count(fmt.Sprintf("partsize.kind%d", sizeKind))
	full := opFromData(o, data, partSize)
	if full == nil {
		o.Count("fromdata.panic")
		if partSize != 0 && len(data) != 0 {
			o.Fail(0, "fromdata-panic", fmt.Sprintf("NewPartSetFromData panicked on %d bytes, part size %d", len(data), partSize))
		}
		return
	}
	total := int(full.Total())
	o.Count(fmt.Sprintf("parts.%d", min(total, 8)))
	// the full set itself is complete and reads the data
	if !full.IsComplete() {
		o.Fail(0, "full-set-incomplete", "")
	}
	if got, ok := opRead(o, full); !ok || !bytes.Equal(got, data) {
		o.Fail(0, "full-set-read-mismatch", "")
	}
	// independent check of the part boundaries
	want := (len(data) + int(partSize) - 1) / int(partSize)
	if total != want {
		o.Fail(0, "total-mismatch", fmt.Sprintf("total %d, expected %d", total, want))
	}
	for i := 0; i < total; i++ {
		if !bytes.Equal(full.GetPart(i).Bytes, chunk(data, partSize, i)) {
			o.Fail(0, "chunk-mismatch", fmt.Sprintf("part %d", i))
		}
	}
	var sig strings.Builder
	hdr := full.Header()
	hk := r.Pick(12, 1, 1, 1)
	switch hk {
	case 1:
		hdr.Total++
	case 2:
		hdr.Total--
	case 3:
		hdr.Hash[r.Intn(32)] ^= 4
	}
	o.Count(fmt.Sprintf("header.kind%d", hk))
	bogusRate := []int{0, 30, 60}[r.Pick(2, 5, 3)]
	runSchedule(o, r, data, partSize, full, hdr, hk, bogusRate, &sig)
	s := sig.String()
	if len(s) > 24 {
		s = s[:24]
	}
	if strings.ContainsAny(s, "bg") && total > 1 {
		o.Mark(fmt.Sprintf("ps:%d:%d:%d:%s", partSize, len(data), hk, s))
	}
}

// ---------------------------------------------------------------------------------- merkle, directly

func verr(err error) string {
	if err == nil {
		return "ok"
	}
	s := err.Error()
	switch {
	case strings.HasPrefix(s, "invalid leaf hash"):
		return "leafhash"
	case strings.HasPrefix(s, "invalid root hash"):
		return "roothash"
	}
	return "other:" + s
}

func opVerify(o *out.Out, root, leaf []byte, sp *merkle.SimpleProof) error {
	in := fmt.Sprintf("V %s %s %d %d %s %s", hx(root), hx(leaf), sp.Total, sp.Index, hx(sp.LeafHash), aunts(sp.Aunts))
	var err error
	if catch(func() { err = sp.Verify(root, leaf) }) {
		o.Op(in, "v PANIC")
		o.Fail(0, "verify-panic", "")
		return fmt.Errorf("panic")
	}
	o.Op(in, "v "+verr(err))
	return err
}

func runMerkleCase(o *out.Out, r *gen.Rand, c int) {
	o.Case(c, fmt.Sprintf("CASE %d merkle", c))
	n := r.Pick(1, 3, 3, 3, 3, 3, 2, 2, 2, 2, 1, 1, 1, 1, 1, 1, 1, 1)
	if r.Chance(1, 10) {
		n = 17 + r.Intn(30)
	}
	if r.Chance(1, 25) {
		n = []int{31, 32, 33, 63, 64, 65, 127, 128, 129}[r.Intn(9)]
	}
	items := make([][]byte, n)
	for i := range items {
		switch r.Pick(6, 1, 1) {
		case 0:
			items[i] = r.Bytes(1 + r.Intn(40))
		case 1:
			items[i] = []byte{} // empty leaf
		case 2:
			if i > 0 {
				items[i] = append([]byte{}, items[r.Intn(i)]...) // equal leaves
			} else {
				items[i] = r.Bytes(3)
			}
		}
	}
	o.Count(fmt.Sprintf("merkle.items.%d", min(n, 17)))
	hs := make([]string, n)
	for i := range items {
		hs[i] = hx(items[i])
	}
	in := fmt.Sprintf("M %d %s", n, strings.Join(hs, " "))
	rootA := merkle.SimpleHashFromByteSlices(items)
	var rootB []byte
	var proofs []*merkle.SimpleProof
	pan := catch(func() { rootB, proofs = merkle.SimpleProofsFromByteSlices(items) })
	var sb strings.Builder
	fmt.Fprintf(&sb, "m %s", hx(rootA))
	if pan {
		sb.WriteString(" PANIC")
	} else {
		fmt.Fprintf(&sb, " %s", hx(rootB))
		for _, p := range proofs {
			fmt.Fprintf(&sb, " | %d %d %s %s", p.Total, p.Index, hx(p.LeafHash), aunts(p.Aunts))
		}
	}
	o.Op(in, sb.String())
	if pan {
		if n != 0 {
			o.Fail(0, "proofs-panic", fmt.Sprintf("%d items", n))
		}
		// an empty tree: any leaf "verifies" against the nil root (documented quirk)
		lf := r.Bytes(4)
		lh := sha256.Sum256(append([]byte{0}, lf...))
		opVerify(o, nil, lf, &merkle.SimpleProof{Total: 0, Index: 0, LeafHash: lh[:]})
		return
	}
	if !bytes.Equal(rootA, rootB) {
		o.Fail(0, "root-mismatch", "SimpleHashFromByteSlices != SimpleProofsFromByteSlices root")
	}
	// completeness: every generated proof verifies
	for i, p := range proofs {
		if err := opVerify(o, rootA, items[i], p); err != nil {
			o.Fail(i, "genuine-proof-rejected", fmt.Sprintf("item %d of %d", i, n))
		}
	}
	// soundness: perturbed proofs / leaves are accepted only for the item at that index
	for k := 0; k < 6+n; k++ {
		i := r.Intn(n)
		p := proofs[i]
		q := &merkle.SimpleProof{Total: p.Total, Index: p.Index, LeafHash: append([]byte{}, p.LeafHash...)}
		for _, a := range p.Aunts {
			q.Aunts = append(q.Aunts, append([]byte{}, a...))
		}
		leaf := append([]byte{}, items[i]...)
		root := rootA
		kind := r.Intn(12)
		switch kind {
		case 0:
			q.Index = uint64(r.Intn(n + 2))
		case 1:
			q.Total = uint64(r.Intn(n + 3))
		case 2:
			j := r.Intn(n)
			leaf = append([]byte{}, items[j]...)
			lh := sha256.Sum256(append([]byte{0}, leaf...))
			q.LeafHash = lh[:]
		case 3:
			leaf = append(leaf, 1)
		case 4:
			if len(q.Aunts) > 0 {
				q.Aunts = q.Aunts[:len(q.Aunts)-1]
			}
		case 5:
			q.Aunts = append(q.Aunts, r.Bytes(32))
		case 6:
			if len(q.Aunts) > 1 {
				q.Aunts[0], q.Aunts[len(q.Aunts)-1] = q.Aunts[len(q.Aunts)-1], q.Aunts[0]
			}
		case 7:
			q.Index = (1 << 63) | q.Index
		case 8:
			root = nil // failed computation compares equal to an empty root
			q.Index = q.Total
		case 9:
			// inner node passed off as a leaf: leaf := left||right of the two-item subtree
			if n >= 2 {
				l0 := sha256.Sum256(append([]byte{0}, items[0]...))
				l1 := sha256.Sum256(append([]byte{0}, items[1]...))
				leaf = append(append([]byte{}, l0[:]...), l1[:]...)
				lh := sha256.Sum256(append([]byte{0}, leaf...))
				q.LeafHash = lh[:]
				q.Index = 0
				if len(q.Aunts) > 0 {
					q.Aunts = proofs[0].Aunts[1:]
				}
			}
		case 10:
			q.Total = q.Total * 2
		case 11:
			// proof of i presented for another index with the same aunts
			q.Index = uint64((i + 1) % n)
		}
		o.Count(fmt.Sprintf("merkle.perturb.%d", kind))
		err := opVerify(o, root, leaf, q)
		if err == nil && len(root) != 0 {
			if q.Total == uint64(n) && (q.Index >= uint64(n) || !bytes.Equal(leaf, items[q.Index])) {
				o.Fail(k, "unsound-proof-accepted", fmt.Sprintf("index %d total %d: leaf is not item %d", q.Index, q.Total, q.Index))
			}
		}
	}
	o.Mark(fmt.Sprintf("mk:%d", n))
}

// ---------------------------------------------------------------------------------- blocks

func tsTok(t time.Time) string { return fmt.Sprintf("%d %d", t.Unix(), t.Nanosecond()) }

func bidTok(b types.BlockID) string {
	return fmt.Sprintf("%s %d %s", hx(b.Hash.Bytes()), b.PartsHeader.Total, hx(b.PartsHeader.Hash.Bytes()))
}

func hdrTok(h *types.Header) string {
	return fmt.Sprintf("%d %s %d %d %s %s %s %s %s %s %s %s %s", h.Height, tsTok(h.Time), h.NumTxs, h.GasLimit, bidTok(h.LastBlockID),
		hx(h.ProposerAddress.Bytes()), hx(h.LastCommitHash.Bytes()), hx(h.TxHash.Bytes()), hx(h.ValidatorsHash.Bytes()),
		hx(h.NextValidatorsHash.Bytes()), hx(h.ConsensusHash.Bytes()), hx(h.AppHash.Bytes()), hx(h.EvidenceHash.Bytes()))
}

func commitLines(c *types.Commit) string {
	var sb strings.Builder
	fmt.Fprintf(&sb, "CMT %d %d %s %d", c.Height, c.Round, bidTok(c.BlockID), len(c.Signatures))
	for _, s := range c.Signatures {
		fmt.Fprintf(&sb, "\nSIG %d %s %s %s", s.BlockIDFlag, hx(s.ValidatorAddress.Bytes()), tsTok(s.Timestamp), hx(s.Signature))
	}
	return sb.String()
}

func vbClass(err error) string {
	if err == nil {
		return "ok"
	}
	s := err.Error()
	switch {
	case strings.HasPrefix(s, "invalid header"):
		return "header"
	case s == "nil LastCommit":
		return "nillastcommit"
	case strings.HasPrefix(s, "Commit cannot be for nil block"):
		return "commitnilblock"
	case strings.HasPrefix(s, "no signatures in commit"):
		return "commitnosigs"
	case strings.HasPrefix(s, "wrong CommitSig"):
		return "commitsig"
	case strings.HasPrefix(s, "wrong Block.Header.LastCommitHash"):
		return "lastcommithash"
	case strings.HasPrefix(s, "wrong Header.DataHash"):
		return "datahash"
	case strings.HasPrefix(s, "invalid evidence"):
		return "evinvalid"
	case strings.HasPrefix(s, "wrong Header.EvidenceHash"):
		return "evhash"
	}
	return "other:" + s
}

func hasher() types.TrieHasher { return trie.NewStackTrie(nil) }

func canon(b *types.Block) []byte {
	pb, err := b.ToProto()
	if err != nil {
		panic(err)
	}
	bz, err := proto.Marshal(pb)
	if err != nil {
		panic(err)
	}
	return bz
}

// sameBlock compares two blocks field by field, without going through ToProto/Marshal (so that a field
// lost by the encoder cannot hide a difference).
func sameBlock(a, b *types.Block) bool {
	ha, hb := a.Header(), b.Header()
	if ha.Height != hb.Height || !ha.Time.Equal(hb.Time) || ha.NumTxs != hb.NumTxs || ha.GasLimit != hb.GasLimit ||
		!ha.LastBlockID.Equal(hb.LastBlockID) || ha.ProposerAddress != hb.ProposerAddress || ha.LastCommitHash != hb.LastCommitHash ||
		ha.TxHash != hb.TxHash || ha.ValidatorsHash != hb.ValidatorsHash || ha.NextValidatorsHash != hb.NextValidatorsHash ||
		ha.ConsensusHash != hb.ConsensusHash || ha.AppHash != hb.AppHash || ha.EvidenceHash != hb.EvidenceHash {
		return false
	}
	if len(a.Transactions()) != len(b.Transactions()) {
		return false
	}
	for i := range a.Transactions() {
		if a.Transactions()[i].Hash() != b.Transactions()[i].Hash() {
			return false
		}
	}
	ca, cb := a.LastCommit(), b.LastCommit()
	if (ca == nil) != (cb == nil) {
		return false
	}
	if ca != nil {
		if ca.Height != cb.Height || ca.Round != cb.Round || !ca.BlockID.Equal(cb.BlockID) || len(ca.Signatures) != len(cb.Signatures) {
			return false
		}
		for i := range ca.Signatures {
			x, y := ca.Signatures[i], cb.Signatures[i]
			if x.BlockIDFlag != y.BlockIDFlag || x.ValidatorAddress != y.ValidatorAddress || !x.Timestamp.Equal(y.Timestamp) || !bytes.Equal(x.Signature, y.Signature) {
				return false
			}
		}
	}
	var ea, eb types.EvidenceList
	if a.Evidence() != nil {
		ea = a.Evidence().Evidence
	}
	if b.Evidence() != nil {
		eb = b.Evidence().Evidence
	}
	if len(ea) != len(eb) {
		return false
	}
	for i := range ea {
		da, ok1 := ea[i].(*types.DuplicateVoteEvidence)
		db, ok2 := eb[i].(*types.DuplicateVoteEvidence)
		if !ok1 || !ok2 {
			return false
		}
		if da.TotalVotingPower != db.TotalVotingPower || da.ValidatorPower != db.ValidatorPower || !da.Timestamp.Equal(db.Timestamp) ||
			!sameVote(da.VoteA, db.VoteA) || !sameVote(da.VoteB, db.VoteB) {
			return false
		}
	}
	return true
}

func sameVote(a, b *types.Vote) bool {
	if a == nil || b == nil {
		return a == b
	}
	return a.Type == b.Type && a.Height == b.Height && a.Round == b.Round && a.BlockID.Equal(b.BlockID) && a.Timestamp.Equal(b.Timestamp) &&
		a.ValidatorAddress == b.ValidatorAddress && a.ValidatorIndex == b.ValidatorIndex && bytes.Equal(a.Signature, b.Signature)
}

// opBlock prints the model input for a block and observes Hash and ValidateBasic.
func opBlock(o *out.Out, b *types.Block) (hash common.Hash, vb error, pan bool) {
	h := b.Header()
	txs := b.Transactions()
	var sb strings.Builder
	nev := 0
	if b.Evidence() != nil {
		nev = len(b.Evidence().Evidence)
	}
	fmt.Fprintf(&sb, "BLK %s %s %d %d", hdrTok(h), b01(b.LastCommit() != nil), len(txs), nev)
	fmt.Fprintf(&sb, "\nTXROOT %s", hx(types.Transactions(txs).Hash(hasher()).Bytes()))
	for _, tx := range txs {
		bz, err := rlp.EncodeToBytes(tx)
		if err != nil {
			panic(err)
		}
		fmt.Fprintf(&sb, "\nTX %s", dg(bz)) // (opaque to the model: the list enters through TXROOT only)
	}
	if b.LastCommit() != nil {
		sb.WriteString("\n" + commitLines(b.LastCommit()))
	}
	if b.Evidence() != nil {
		for _, ev := range b.Evidence().Evidence {
			fmt.Fprintf(&sb, "\nEV %s %s", b01(ev.ValidateBasic() == nil), hx(ev.Bytes()))
		}
	}
	pan = catch(func() {
		hash = b.Hash()
		vb = b.ValidateBasic(hasher())
	})
	if pan {
		o.Op(sb.String(), "b PANIC")
		return
	}
	o.Op(sb.String(), fmt.Sprintf("b %s %s", hx(hash.Bytes()), vbClass(vb)))
	return
}

func signedVote(k int, idx int, h uint64, round uint32, ty kproto.SignedMsgType, bid types.BlockID, ts time.Time) *types.Vote {
	v := &types.Vote{ValidatorAddress: crypto.PubkeyToAddress(keys[k].PublicKey), ValidatorIndex: uint32(idx), Height: h, Round: round,
		Timestamp: ts, Type: ty, BlockID: bid}
	sb := types.VoteSignBytes(chainID, v.ToProto())
	sig, err := crypto.Sign(crypto.Keccak256(sb), keys[k])
	if err != nil {
		panic(err)
	}
	v.Signature = sig
	return v
}

func rndHash(r *gen.Rand) common.Hash { return common.BytesToHash(r.Bytes(32)) }

func cloneProtoBlock(pb *kproto.Block) *kproto.Block {
	bz, err := proto.Marshal(pb)
	if err != nil {
		panic(err)
	}
	q := new(kproto.Block)
	if err := proto.Unmarshal(bz, q); err != nil {
		panic(err)
	}
	return q
}

type mutation struct {
	name string
	f    func(pb *kproto.Block, r *gen.Rand) bool // false: not applicable
}

func flip(b []byte, r *gen.Rand) []byte {
	c := append([]byte{}, b...)
	if len(c) == 0 {
		return []byte{1}
	}
	c[r.Intn(len(c))] ^= byte(1 << uint(r.Intn(8)))
	return c
}

func mutations() []mutation {
	hm := func(name string, f func(h *kproto.Header, r *gen.Rand)) mutation {
		return mutation{"hdr." + name, func(pb *kproto.Block, r *gen.Rand) bool { f(&pb.Header, r); return true }}
	}
	ms := []mutation{
		hm("height", func(h *kproto.Header, r *gen.Rand) { h.Height++ }),
		hm("time.sec", func(h *kproto.Header, r *gen.Rand) { h.Time = h.Time.Add(time.Second) }),
		hm("time.nano", func(h *kproto.Header, r *gen.Rand) { h.Time = h.Time.Add(time.Nanosecond) }),
		hm("numtxs", func(h *kproto.Header, r *gen.Rand) { h.NumTxs++ }),
		hm("gaslimit", func(h *kproto.Header, r *gen.Rand) { h.GasLimit++ }),
		hm("last.hash", func(h *kproto.Header, r *gen.Rand) { h.LastBlockId.Hash = flip(h.LastBlockId.Hash, r) }),
		hm("last.total", func(h *kproto.Header, r *gen.Rand) { h.LastBlockId.PartSetHeader.Total++ }),
		hm("last.partshash", func(h *kproto.Header, r *gen.Rand) {
			h.LastBlockId.PartSetHeader.Hash = flip(h.LastBlockId.PartSetHeader.Hash, r)
		}),
		hm("proposer", func(h *kproto.Header, r *gen.Rand) { h.ProposerAddress = flip(h.ProposerAddress, r) }),
		hm("lastcommithash", func(h *kproto.Header, r *gen.Rand) { h.LastCommitHash = flip(h.LastCommitHash, r) }),
		hm("datahash", func(h *kproto.Header, r *gen.Rand) { h.DataHash = flip(h.DataHash, r) }),
		hm("validatorshash", func(h *kproto.Header, r *gen.Rand) { h.ValidatorsHash = flip(h.ValidatorsHash, r) }),
		hm("nextvalidatorshash", func(h *kproto.Header, r *gen.Rand) { h.NextValidatorsHash = flip(h.NextValidatorsHash, r) }),
		hm("consensushash", func(h *kproto.Header, r *gen.Rand) { h.ConsensusHash = flip(h.ConsensusHash, r) }),
		hm("apphash", func(h *kproto.Header, r *gen.Rand) { h.AppHash = flip(h.AppHash, r) }),
		hm("evidencehash", func(h *kproto.Header, r *gen.Rand) { h.EvidenceHash = flip(h.EvidenceHash, r) }),
		{"tx.flip", func(pb *kproto.Block, r *gen.Rand) bool {
			if len(pb.Data.Txs) == 0 {
				return false
			}
			i := r.Intn(len(pb.Data.Txs))
			pb.Data.Txs[i] = flip(pb.Data.Txs[i], r)
			return true
		}},
		{"tx.drop", func(pb *kproto.Block, r *gen.Rand) bool {
			if len(pb.Data.Txs) == 0 {
				return false
			}
			i := r.Intn(len(pb.Data.Txs))
			pb.Data.Txs = append(append([][]byte{}, pb.Data.Txs[:i]...), pb.Data.Txs[i+1:]...)
			return true
		}},
		{"tx.dup", func(pb *kproto.Block, r *gen.Rand) bool {
			if len(pb.Data.Txs) == 0 {
				return false
			}
			pb.Data.Txs = append(pb.Data.Txs, pb.Data.Txs[r.Intn(len(pb.Data.Txs))])
			return true
		}},
		{"tx.swap", func(pb *kproto.Block, r *gen.Rand) bool {
			if len(pb.Data.Txs) < 2 {
				return false
			}
			pb.Data.Txs[0], pb.Data.Txs[1] = pb.Data.Txs[1], pb.Data.Txs[0]
			return true
		}},
		{"tx.add", func(pb *kproto.Block, r *gen.Rand) bool {
			tx := types.NewTransaction(99, common.BytesToAddress(r.Bytes(20)), big.NewInt(5), 21000, big.NewInt(1), nil)
			bz, _ := rlp.EncodeToBytes(tx)
			pb.Data.Txs = append(pb.Data.Txs, bz)
			return true
		}},
		{"commit.height", func(pb *kproto.Block, r *gen.Rand) bool {
			if pb.LastCommit == nil {
				return false
			}
			pb.LastCommit.Height++
			return true
		}},
		{"commit.round", func(pb *kproto.Block, r *gen.Rand) bool {
			if pb.LastCommit == nil {
				return false
			}
			pb.LastCommit.Round++
			return true
		}},
		{"commit.bid.hash", func(pb *kproto.Block, r *gen.Rand) bool {
			if pb.LastCommit == nil {
				return false
			}
			pb.LastCommit.BlockID.Hash = flip(pb.LastCommit.BlockID.Hash, r)
			return true
		}},
		{"commit.bid.total", func(pb *kproto.Block, r *gen.Rand) bool {
			if pb.LastCommit == nil {
				return false
			}
			pb.LastCommit.BlockID.PartSetHeader.Total++
			return true
		}},
		{"commit.bid.partshash", func(pb *kproto.Block, r *gen.Rand) bool {
			if pb.LastCommit == nil {
				return false
			}
			pb.LastCommit.BlockID.PartSetHeader.Hash = flip(pb.LastCommit.BlockID.PartSetHeader.Hash, r)
			return true
		}},
		{"commit.nil", func(pb *kproto.Block, r *gen.Rand) bool {
			if pb.LastCommit == nil {
				return false
			}
			pb.LastCommit = nil
			return true
		}},
		{"sig.flag", func(pb *kproto.Block, r *gen.Rand) bool {
			if pb.LastCommit == nil || len(pb.LastCommit.Signatures) == 0 {
				return false
			}
			s := &pb.LastCommit.Signatures[r.Intn(len(pb.LastCommit.Signatures))]
			s.BlockIdFlag = kproto.BlockIDFlag(1 + (int(s.BlockIdFlag)+r.Intn(2))%3)
			return true
		}},
		{"sig.addr", func(pb *kproto.Block, r *gen.Rand) bool {
			if pb.LastCommit == nil || len(pb.LastCommit.Signatures) == 0 {
				return false
			}
			s := &pb.LastCommit.Signatures[r.Intn(len(pb.LastCommit.Signatures))]
			s.ValidatorAddress = flip(s.ValidatorAddress, r)
			if len(s.ValidatorAddress) == 1 {
				s.ValidatorAddress = append(make([]byte, 19), 1)
			}
			return true
		}},
		{"sig.time", func(pb *kproto.Block, r *gen.Rand) bool {
			if pb.LastCommit == nil || len(pb.LastCommit.Signatures) == 0 {
				return false
			}
			s := &pb.LastCommit.Signatures[r.Intn(len(pb.LastCommit.Signatures))]
			s.Timestamp = s.Timestamp.Add(time.Duration(1 + r.Intn(3)))
			return true
		}},
		{"sig.sig", func(pb *kproto.Block, r *gen.Rand) bool {
			if pb.LastCommit == nil || len(pb.LastCommit.Signatures) == 0 {
				return false
			}
			s := &pb.LastCommit.Signatures[r.Intn(len(pb.LastCommit.Signatures))]
			switch r.Intn(3) {
			case 0:
				s.Signature = flip(s.Signature, r)
			case 1:
				if len(s.Signature) > 0 {
					s.Signature = s.Signature[:len(s.Signature)-1]
				} else {
					s.Signature = []byte{1}
				}
			case 2:
				s.Signature = append(append([]byte{}, s.Signature...), 0)
			}
			return true
		}},
		{"sig.drop", func(pb *kproto.Block, r *gen.Rand) bool {
			if pb.LastCommit == nil || len(pb.LastCommit.Signatures) == 0 {
				return false
			}
			i := r.Intn(len(pb.LastCommit.Signatures))
			pb.LastCommit.Signatures = append(append([]kproto.CommitSig{}, pb.LastCommit.Signatures[:i]...), pb.LastCommit.Signatures[i+1:]...)
			return true
		}},
		{"sig.swap", func(pb *kproto.Block, r *gen.Rand) bool {
			if pb.LastCommit == nil || len(pb.LastCommit.Signatures) < 2 {
				return false
			}
			s := pb.LastCommit.Signatures
			s[0], s[1] = s[1], s[0]
			return true
		}},
		{"sig.add", func(pb *kproto.Block, r *gen.Rand) bool {
			if pb.LastCommit == nil {
				return false
			}
			pb.LastCommit.Signatures = append(pb.LastCommit.Signatures, kproto.CommitSig{BlockIdFlag: kproto.BlockIDFlagAbsent})
			return true
		}},
		{"ev.drop", func(pb *kproto.Block, r *gen.Rand) bool {
			if len(pb.Evidence.Evidence) == 0 {
				return false
			}
			pb.Evidence.Evidence = pb.Evidence.Evidence[1:]
			return true
		}},
		{"ev.dup", func(pb *kproto.Block, r *gen.Rand) bool {
			if len(pb.Evidence.Evidence) == 0 {
				return false
			}
			pb.Evidence.Evidence = append(pb.Evidence.Evidence, pb.Evidence.Evidence[0])
			return true
		}},
		{"ev.swap", func(pb *kproto.Block, r *gen.Rand) bool {
			if len(pb.Evidence.Evidence) < 2 {
				return false
			}
			e := pb.Evidence.Evidence
			e[0], e[1] = e[1], e[0]
			return true
		}},
		{"ev.vote", func(pb *kproto.Block, r *gen.Rand) bool {
			if len(pb.Evidence.Evidence) == 0 {
				return false
			}
			d := pb.Evidence.Evidence[0].GetDuplicateVoteEvidence()
			if d == nil {
				return false
			}
			switch r.Intn(4) {
			case 0:
				d.VoteA.Height++
			case 1:
				d.VoteB.Timestamp = d.VoteB.Timestamp.Add(1)
			case 2:
				d.TotalVotingPower++
			case 3:
				d.VoteA.Signature = flip(d.VoteA.Signature, r)
			}
			return true
		}},
	}
	return ms
}

func runBlockCase(o *out.Out, r *gen.Rand, c int) {
	o.Case(c, fmt.Sprintf("CASE %d block", c))
	nv := 1 + r.Intn(4)
	perm := r.Perm(len(keys))
	vals := make([]*types.Validator, nv)
	for i := 0; i < nv; i++ {
		vals[i] = types.NewValidator(crypto.PubkeyToAddress(keys[perm[i]].PublicKey), int64(1+r.Intn(10)))
	}
	vset := types.NewValidatorSet(vals)
	keyOf := func(idx int) int {
		for k := range keys {
			if crypto.PubkeyToAddress(keys[k].PublicKey) == vset.Validators[idx].Address {
				return k
			}
		}
		panic("no key")
	}
	height := uint64(1 + r.Pick(2, 5, 3, 1))
	if r.Chance(1, 10) {
		height = 1 << uint(7*(1+r.Intn(8))) // varint boundaries
	}
	base := time.Unix(1600000000+int64(r.Intn(100000)), int64(r.Pick(1, 3)*r.Intn(1000000000))).UTC()
	lastBID := types.BlockID{Hash: rndHash(r), PartsHeader: types.PartSetHeader{Total: uint32(1 + r.Intn(300)), Hash: rndHash(r)}}
	// last commit
	var lastCommit *types.Commit
	commitKind := "none"
	// a chain whose initial height is this very height (> 1): the block carries the empty commit
	initialAt := height > 1 && r.Chance(1, 8)
	if height > 1 && !initialAt {
		round := uint32(r.Intn(3))
		sigs := make([]types.CommitSig, nv)
		kinds := make([]int, nv)
		var tot, forBlock int64
		for i := 0; i < nv; i++ {
			kinds[i] = r.Pick(8, 1, 1)
			tot += vset.Validators[i].VotingPower
			if kinds[i] == 0 {
				forBlock += vset.Validators[i].VotingPower
			}
		}
		if 3*forBlock <= 2*tot && r.Chance(7, 8) { // mostly commits that carry +2/3
			for i := range kinds {
				kinds[i] = 0
			}
		}
		for i := 0; i < nv; i++ {
			switch kinds[i] {
			case 0:
				ts := base.Add(-time.Duration(1+r.Intn(5000)) * time.Millisecond)
				v := signedVote(keyOf(i), i, height-1, round, kproto.PrecommitType, lastBID, ts)
				sigs[i] = types.NewCommitSigForBlock(v.Signature, v.ValidatorAddress, ts)
			case 1:
				sigs[i] = types.NewCommitSigAbsent()
			case 2:
				ts := base.Add(-time.Duration(1+r.Intn(5000)) * time.Millisecond)
				v := signedVote(keyOf(i), i, height-1, round, kproto.PrecommitType, types.BlockID{}, ts)
				sigs[i] = types.CommitSig{BlockIDFlag: types.BlockIDFlagNil, ValidatorAddress: v.ValidatorAddress, Timestamp: ts, Signature: v.Signature}
			}
		}
		if r.Chance(1, 14) {
			// a slot renamed to another address (the signature still verifies for the slot's validator):
			// Commit.Hash and so the block hash follow, VerifyCommit must refuse
			i := r.Intn(nv)
			if sigs[i].BlockIDFlag != types.BlockIDFlagAbsent {
				if nv > 1 && r.Bool() {
					sigs[i].ValidatorAddress = vset.Validators[(i+1)%nv].Address
				} else {
					sigs[i].ValidatorAddress = common.BytesToAddress(r.Bytes(20))
				}
				o.Count("block.commit.renamed-slot")
			}
		}
		lastCommit = types.NewCommit(height-1, round, lastBID, sigs)
		commitKind = "signed"
	} else {
		k := r.Intn(3)
		if initialAt {
			k = 1 + r.Intn(2) // (a nil LastCommit above height 1 fails Block.ValidateBasic)
		}
		switch k {
		case 0:
			lastCommit = nil
		case 1:
			lastCommit = &types.Commit{}
			commitKind = "empty"
		case 2:
			lastCommit = types.NewCommit(0, 0, types.BlockID{}, nil)
			commitKind = "empty"
		}
		if !initialAt {
			lastBID = types.BlockID{}
		} else {
			commitKind = "empty-initial>1"
		}
	}
	o.Count("block.commit." + commitKind)
	// transactions
	ntx := r.Pick(2, 3, 3, 3)
	shape := r.Pick(13, 2, 1) // 0 ordinary, 1 many transactions (DeriveSha's index ranges), 2 block of k*65536 (+-1) bytes
	if shape == 1 {
		ntx = []int{126, 127, 128, 129, 130, 255, 256, 257}[r.Intn(8)]
	}
	txs := make([]*types.Transaction, ntx)
	for i := range txs {
		var data []byte
		if r.Bool() && shape != 1 {
			data = r.Bytes(r.Intn(70))
		}
		if r.Chance(1, 5) {
			txs[i] = types.NewContractCreation(uint64(r.Intn(1000)), big.NewInt(int64(r.Intn(1000))), uint64(21000+r.Intn(100000)), big.NewInt(int64(1+r.Intn(100))), data)
		} else {
			txs[i] = types.NewTransaction(uint64(r.Intn(1000)), common.BytesToAddress(r.Bytes(20)), big.NewInt(int64(r.Intn(1000000))), uint64(21000+r.Intn(100000)), big.NewInt(int64(1+r.Intn(100))), data)
		}
	}
	if shape == 1 {
		o.Count("block.txs.many")
	} else {
		o.Count(fmt.Sprintf("block.txs.%d", ntx))
	}
	// evidence
	nev := r.Pick(5, 3, 2)
	var evs []types.Evidence
	for i := 0; i < nev; i++ {
		vi := r.Intn(nv)
		eh := uint64(1 + r.Intn(int(min64(height, 1000))))
		ts := base.Add(-time.Hour)
		v1 := signedVote(keyOf(vi), vi, eh, 0, kproto.PrevoteType, types.BlockID{Hash: rndHash(r), PartsHeader: types.PartSetHeader{Total: 1, Hash: rndHash(r)}}, ts)
		v2 := signedVote(keyOf(vi), vi, eh, 0, kproto.PrevoteType, types.BlockID{Hash: rndHash(r), PartsHeader: types.PartSetHeader{Total: 1, Hash: rndHash(r)}}, ts)
		ev := types.NewDuplicateVoteEvidence(v1, v2, base.Add(-time.Minute), vset)
		if ev == nil {
			continue
		}
		if r.Chance(1, 8) { // invalid evidence: votes in the wrong order
			ev.VoteA, ev.VoteB = ev.VoteB, ev.VoteA
		}
		evs = append(evs, ev)
	}
	o.Count(fmt.Sprintf("block.evidence.%d", len(evs)))
	hdr := &types.Header{Height: height, Time: base, GasLimit: uint64(r.Intn(3) * r.Intn(50000000)), LastBlockID: lastBID,
		ProposerAddress: vset.Validators[r.Intn(nv)].Address, ValidatorsHash: vset.Hash(), NextValidatorsHash: vset.Hash(),
		ConsensusHash: rndHash(r), AppHash: rndHash(r)}
	if r.Chance(1, 6) {
		hdr.AppHash = common.Hash{}
	}
	if height > 1 && !initialAt {
		hdr.Time = cstate.MedianTime(lastCommit, vset) // what validateBlock demands
	}
	// the chain state this block is to be validated against (kai/state/cstate validateBlock)
	state := cstate.LatestBlockState{ChainID: chainID, InitialHeight: 1, LastBlockHeight: height - 1, LastBlockID: lastBID,
		LastBlockTime: hdr.Time.Add(-time.Hour), NextValidators: vset, Validators: vset, LastValidators: vset, AppHash: hdr.AppHash,
		ConsensusParams: *types.DefaultConsensusParams()}
	if height == 1 || initialAt {
		state.LastBlockTime = hdr.Time // genesis time
		state.InitialHeight = height
	}
	if r.Chance(1, 10) { // not a block of this chain state: exercises hashing of unusual values only
		hdr.ValidatorsHash = rndHash(r)
		if r.Bool() {
			hdr.Time = time.Time{} // zero time: seconds = -62135596800 (10-byte varint)
		}
	}
	blk := types.NewBlock(hdr, txs, lastCommit, evs, hasher())
	bigTarget := 0
	if shape == 2 {
		// pad with one data-carrying transaction so that the marshalled block is exactly k*65536 (+-1) bytes:
		// every part but possibly the last has exactly BlockPartSizeBytes bytes
		bigTarget = types.BlockPartSizeBytes*(1+r.Intn(2)) + []int{0, 0, 1, -1}[r.Intn(4)]
		padLen := bigTarget - len(canon(blk)) - 120
		for it := 0; it < 8 && padLen > 0; it++ {
			pad := types.NewTransaction(4242, common.BytesToAddress([]byte{9}), big.NewInt(1), 21000, big.NewInt(1), make([]byte, padLen))
			blk = types.NewBlock(hdr, append(append([]*types.Transaction{}, txs...), pad), lastCommit, evs, hasher())
			d := bigTarget - len(canon(blk))
			if d == 0 {
				break
			}
			padLen += d
		}
		o.Count(fmt.Sprintf("block.big.off%d", len(canon(blk))-bigTarget))
	}
	// independent reference for the transaction root: go-ethereum's DeriveSha over a plain trie on the
	// same encodings (the header commits to EVERY transaction)
	if n := len(blk.Transactions()); n > 0 {
		enc := make(rlpList, n)
		for i, tx := range blk.Transactions() {
			var buf bytes.Buffer
			types.Transactions(blk.Transactions()).EncodeIndex(i, &buf)
			enc[i] = append([]byte{}, buf.Bytes()...)
			_ = tx
		}
		want := gethtypes.DeriveSha(enc)
		if got := blk.Header().TxHash; !bytes.Equal(want.Bytes(), got.Bytes()) {
			o.Fail(0, "txroot-differs-from-reference", fmt.Sprintf("%d transactions: Header.TxHash %x, reference trie root over the same encodings %x", n, got.Bytes(), want.Bytes()))
		}
		o.Count("txroot.reference-checked")
	}

	// ---- header bytes and hash, commit hash, evidence hash
	h := blk.Header()
	{
		var enc []byte
		var hh common.Hash
		in := "HDR " + hdrTok(h)
		if catch(func() {
			var err error
			enc, err = h.ToProto().Marshal()
			if err != nil {
				panic(err)
			}
			hh = h.Hash()
		}) {
			o.Op(in, "h PANIC")
		} else {
			o.Op(in, fmt.Sprintf("h %s %s", hx(enc), hx(hh.Bytes())))
			if hh != blk.Hash() {
				o.Fail(0, "block-hash-not-header-hash", "")
			}
			oh := hh
			oh[r.Intn(32)] ^= 2
			if !blk.HashesTo(hh) || blk.HashesTo(oh) || blk.HashesTo(common.Hash{}) {
				o.Fail(0, "block-hashesto", "Block.HashesTo disagrees with Block.Hash")
			}
		}
	}
	headerBoundaries(o, r, h)
	if lastCommit != nil {
		cc := types.NewCommit(lastCommit.Height, lastCommit.Round, lastCommit.BlockID, lastCommit.Signatures) // fresh: no cached hash
		o.Op(commitLines(cc), fmt.Sprintf("c %s %s", hx(cc.Hash().Bytes()), vbClass(cc.ValidateBasic())))
	}
	{
		items := make([]string, len(evs))
		for i, ev := range evs {
			items[i] = hx(ev.Bytes())
		}
		o.Op(fmt.Sprintf("EVH %d %s", len(evs), strings.Join(items, " ")), "e "+hx(types.EvidenceList(evs).Hash().Bytes()))
	}

	// ---- the block itself
	baseHash, baseVB, pan := opBlock(o, blk)
	if pan {
		o.Fail(1, "block-panic", "Hash/ValidateBasic panicked on a well-formed block")
		return
	}
	// validation against the chain state: the repository's own BlockExecutor.ValidateBlock.  `node` is the
	// executor of a running node (one per process, it has validated the genuine block first, as consensus
	// does on receiving the proposal); `fresh` is a new executor per question.
	node := cstate.NewBlockExecutor(nil, log.New(), okEvidencePool{}, nil)
	validate := func(ex *cstate.BlockExecutor, b *types.Block) error {
		var err error
		if catch(func() { err = ex.ValidateBlock(state, b) }) {
			return fmt.Errorf("PANIC in ValidateBlock")
		}
		return err
	}
	o.Op("XNEW", "xnew")
	stateOK := func(b *types.Block) error { return opExecValidate(o, node, state, b) } // (after the BLK op of b)
	baseState := stateOK(blk)
	if baseState != nil && strings.HasPrefix(baseState.Error(), "PANIC") {
		o.Fail(1, "validateblock-panic", "BlockExecutor.ValidateBlock panicked on the generated block")
	}
	if baseState == nil {
		o.Count("block.base.state-valid")
	} else {
		o.Count("block.base.state-invalid")
		es := baseState.Error()
		if len(es) > 28 {
			es = es[:28]
		}
		o.Count("block.base.state-invalid." + strings.ReplaceAll(es, " ", "_"))
	}
	// the same question as an observable of the model (fresh executor), then against perturbed states
	opValidate(o, state, blk)
	{
		perts := perturbStates(r, state, blk, vset)
		np := 3
		if *out.Tier == "thorough" {
			np = len(perts)
		}
		for _, pi := range r.Perm(len(perts)) {
			if np == 0 {
				break
			}
			np--
			pt := perts[pi]
			perr := opValidate(o, pt.st, blk)
			o.Count("state-perturbation." + pt.name + "." + vsClass(perr))
			if perr == nil && pt.mustFail && baseVB == nil && baseState == nil {
				o.Fail(1, "block-valid-for-another-chain-state:"+pt.name, fmt.Sprintf("a block (height %d, %s last commit) that is valid for its chain state is also accepted by validateBlock for a state that differs in %s", height, commitKind, pt.name))
			}
		}
	}
	baseCanon := canon(blk)
	baseValid := baseVB == nil
	o.Count("block.basevb." + vbClass(baseVB))

	// ---- round trips
	step := 2
	{
		pb, err := blk.ToProto()
		if err != nil {
			o.Fail(step, "toproto-error", err.Error())
		} else {
			bz, _ := proto.Marshal(pb)
			pb2 := new(kproto.Block)
			if err := proto.Unmarshal(bz, pb2); err != nil {
				o.Fail(step, "roundtrip-unmarshal", err.Error())
			} else {
				b2, err := types.BlockFromProto(pb2, hasher())
				if (err == nil) != baseValid {
					o.Fail(step, "roundtrip-validity-changed", fmt.Sprintf("ValidateBasic=%v BlockFromProto err=%v", baseVB, err))
				}
				if b2 != nil {
					if b2.Hash() != baseHash || !bytes.Equal(canon(b2), baseCanon) || !sameBlock(b2, blk) {
						o.Fail(step, "roundtrip-block-changed", "BlockFromProto(ToProto(b)) differs from b")
					}
					if len(b2.Transactions()) != len(blk.Transactions()) {
						o.Fail(step, "roundtrip-txs", "")
					}
					for i := range b2.Transactions() {
						if b2.Transactions()[i].Hash() != blk.Transactions()[i].Hash() {
							o.Fail(step, "roundtrip-tx-changed", fmt.Sprintf("tx %d", i))
						}
					}
					if (b2.LastCommit() == nil) != (blk.LastCommit() == nil) {
						o.Fail(step, "roundtrip-commit-nilness", "")
					} else if b2.LastCommit() != nil {
						a, b := b2.LastCommit(), blk.LastCommit()
						if a.Height != b.Height || a.Round != b.Round || !a.BlockID.Equal(b.BlockID) || len(a.Signatures) != len(b.Signatures) || a.Hash() != types.NewCommit(b.Height, b.Round, b.BlockID, b.Signatures).Hash() {
							o.Fail(step, "roundtrip-commit-changed", "")
						}
					}
				}
			}
		}
		o.Count("roundtrip.block")
	}
	// commit, vote, proposal, part
	if lastCommit != nil {
		cp := lastCommit.ToProto()
		bz, _ := proto.Marshal(cp)
		cp2 := new(kproto.Commit)
		if err := proto.Unmarshal(bz, cp2); err != nil {
			o.Fail(step, "roundtrip-commit-unmarshal", err.Error())
		} else {
			c2, err := types.CommitFromProto(cp2)
			if (err == nil) != (lastCommit.ValidateBasic() == nil) {
				o.Fail(step, "roundtrip-commit-validity", fmt.Sprintf("%v", err))
			}
			if c2 != nil {
				bz2, _ := proto.Marshal(c2.ToProto())
				if !bytes.Equal(bz, bz2) || c2.Height != lastCommit.Height || c2.Round != lastCommit.Round || !c2.BlockID.Equal(lastCommit.BlockID) {
					o.Fail(step, "roundtrip-commit-changed", "")
				}
				for i := range c2.Signatures {
					a, b := c2.Signatures[i], lastCommit.Signatures[i]
					if a.BlockIDFlag != b.BlockIDFlag || a.ValidatorAddress != b.ValidatorAddress || !a.Timestamp.Equal(b.Timestamp) || !bytes.Equal(a.Signature, b.Signature) {
						o.Fail(step, "roundtrip-commitsig-changed", fmt.Sprintf("sig %d", i))
					}
				}
			}
		}
		o.Count("roundtrip.commit")
	}
	{
		v := signedVote(keyOf(0), 0, height, uint32(r.Intn(4)), kproto.SignedMsgType(1+r.Intn(2)), lastBID, base)
		if r.Chance(1, 4) {
			v.BlockID = types.BlockID{}
		}
		bz, _ := proto.Marshal(v.ToProto())
		pv := new(kproto.Vote)
		if err := proto.Unmarshal(bz, pv); err != nil {
			o.Fail(step, "roundtrip-vote-unmarshal", err.Error())
		} else {
			v2, err := types.VoteFromProto(pv)
			if err != nil && v.ValidateBasic() == nil {
				o.Fail(step, "roundtrip-vote-rejected", err.Error())
			}
			if v2 != nil && (v2.Type != v.Type || v2.Height != v.Height || v2.Round != v.Round || !v2.BlockID.Equal(v.BlockID) || !v2.Timestamp.Equal(v.Timestamp) ||
				v2.ValidatorAddress != v.ValidatorAddress || v2.ValidatorIndex != v.ValidatorIndex || !bytes.Equal(v2.Signature, v.Signature)) {
				o.Fail(step, "roundtrip-vote-changed", "")
			}
		}
		p := types.NewProposal(height, uint32(r.Intn(4)), uint32(r.Intn(3)), lastBID)
		p.Timestamp = base
		p.Signature = r.Bytes(65)
		bz, _ = proto.Marshal(p.ToProto())
		pp := new(kproto.Proposal)
		if err := proto.Unmarshal(bz, pp); err != nil {
			o.Fail(step, "roundtrip-proposal-unmarshal", err.Error())
		} else {
			p2, err := types.ProposalFromProto(pp)
			if err != nil && p.ValidateBasic() == nil {
				o.Fail(step, "roundtrip-proposal-rejected", err.Error())
			}
			if p2 != nil && (p2.Height != p.Height || p2.Round != p.Round || p2.POLRound != p.POLRound || !p2.POLBlockID.Equal(p.POLBlockID) ||
				!p2.Timestamp.Equal(p.Timestamp) || !bytes.Equal(p2.Signature, p.Signature)) {
				o.Fail(step, "roundtrip-proposal-changed", "")
			}
		}
		o.Count("roundtrip.vote+proposal")
	}

	// ---- the marshalled block through a part set (what consensus and the block store do)
	partSize := uint32([]int{16, 64, 200, 1000, types.BlockPartSizeBytes}[r.Pick(2, 4, 3, 2, 1)])
	if shape == 1 && partSize < 1000 {
		partSize = 1000
	}
	if shape == 2 {
		partSize = types.BlockPartSizeBytes
	}
	var full *types.PartSet
	if catch(func() { full = blk.MakePartSet(partSize) }) {
		o.Fail(step, "makepartset-panic", "")
		return
	}
	data := canon(blk)
	// tell the model: same data, same part size
	if f2 := opFromData(o, data, partSize); f2 == nil || f2.Header() != full.Header() {
		o.Fail(step, "makepartset-differs", "MakePartSet != NewPartSetFromData(marshal(block))")
	}
	var sig strings.Builder
	runSchedule(o, r, data, partSize, full, full.Header(), 0, 25, &sig)
	// parts survive their wire encoding
	for i := 0; i < int(full.Total()) && i < 4; i++ {
		p := full.GetPart(i)
		pp, _ := p.ToProto()
		bz, _ := proto.Marshal(pp)
		pp2 := new(kproto.Part)
		if err := proto.Unmarshal(bz, pp2); err != nil {
			o.Fail(step, "roundtrip-part-unmarshal", err.Error())
			continue
		}
		p2, err := types.PartFromProto(pp2)
		if err != nil || p2.Index != p.Index || !bytes.Equal(p2.Bytes, p.Bytes) || !proofEq(&p2.Proof, &p.Proof) {
			o.Fail(step, "roundtrip-part-changed", fmt.Sprintf("part %d err=%v", i, err))
		}
		o.Count("roundtrip.part")
	}
	// database read-back
	if baseValid && blk.LastCommit() != nil {
		runStore(o, r, blk, full, vset, base)
	}
	// codec boundary values
	runCodec(o, r, base, vset)

	// ---- single-field mutations of the wire form
	pb0, _ := blk.ToProto()
	ms := mutations()
	order := r.Perm(len(ms))
	budget := 14
	if *out.Tier == "thorough" {
		budget = len(ms)
	}
	tryMutant := func(name string, pb *kproto.Block) {
		step++
		mb, err := types.BlockFromProtoUnsafe(pb)
		if err != nil {
			o.Count("mutation." + name + ".decode-error")
			return // the wire form is rejected: fails validation
		}
		var mc []byte
		if catch(func() { mc = canon(mb) }) {
			o.Count("mutation." + name + ".unencodable")
			return
		}
		if bytes.Equal(mc, baseCanon) && sameBlock(mb, blk) {
			o.Count("mutation." + name + ".noop")
			return
		}
		mh, mvb, mpan := opBlock(o, mb)
		if mpan {
			o.Fail(step, "mutated-block-panic", name)
			return
		}
		// (directly after the BLK op of mb) the long-lived executor always; the fresh one as an observable only
		// where the two can differ (same block hash: a possible cache hit)
		var mfresh error
		if mh == baseHash {
			mfresh = opValidate(o, state, mb)
		} else {
			mfresh = freshValidate(state, mb)
		}
		mstate := stateOK(mb)
		if (mstate != nil && strings.HasPrefix(mstate.Error(), "PANIC")) || (mfresh != nil && strings.HasPrefix(mfresh.Error(), "PANIC")) {
			o.Fail(step, "validateblock-panic:"+name, fmt.Sprintf("BlockExecutor.ValidateBlock panicked on the block mutated by %s", name))
		}
		outcome := "hash-changed"
		if mvb != nil && mstate == nil {
			// the executor that validated the genuine block answers from its cache: the cache key covers the
			// header and the last commit's height/round/id only, the body is bound by ValidateBasic alone
			o.Fail(step, "cache-hit-body-unvalidated", fmt.Sprintf("mutation %s of a block (height %d): the mutant fails Block.ValidateBasic (%s) but BlockExecutor.ValidateBlock of the executor that validated the genuine block accepts it (same block hash: %v)", name, height, vbClass(mvb), mh == baseHash))
		}
		if mh == baseHash {
			outcome = "same-hash:" + vbClass(mvb)
			if mvb == nil {
				if mstate != nil {
					outcome = "same-hash:state-rejects"
				} else if mfresh != nil {
					outcome = "CACHED-VALID"
				} else {
					outcome = "UNDETECTED"
				}
			}
		}
		if outcome == "CACHED-VALID" && baseValid && baseState == nil {
			o.Fail(step, "validity-cache-ignores-body", fmt.Sprintf("mutation %s of a valid block (height %d) keeps Block.Hash; a fresh BlockExecutor rejects it (%v) but the executor that validated the genuine block before answers valid (cache keyed by the header hash)", name, height, mfresh))
		}
		o.Count("mutation." + name + "." + outcome)
		o.Mark("mut:" + name + ":" + outcome + ":" + commitKind)
		if outcome == "UNDETECTED" && baseValid && baseState == nil {
			class := "tamper-undetected:" + name
			if height == state.InitialHeight && strings.HasPrefix(name, "commit.") {
				// the (signature-less) last commit of the initial block
				class = "genesis-commit-malleable"
			}
			o.Fail(step, class, fmt.Sprintf("mutation %s of a valid block (height %d, %s last commit) keeps Block.Hash %s, passes ValidateBasic and the commit check against the state", name, height, commitKind, baseHash.Hex()))
		} else if outcome == "UNDETECTED" {
			o.Count("mutation.undetected-on-invalid-base")
		}
	}
	if shape == 2 && budget > 6 {
		budget = 6 // (each op line of such a block is large)
	}
	for _, mi := range order {
		if budget == 0 {
			break
		}
		m := ms[mi]
		pb := cloneProtoBlock(pb0)
		if !m.f(pb, r) {
			continue
		}
		budget--
		tryMutant(m.name, pb)
	}
	// every body mutation through the executor whose cache holds the genuine block (direct oracle, no model
	// ops): same header, tampered transactions / evidence / commit signatures must all be rejected
	if baseValid && baseState == nil {
		sweep := func(name string, pb *kproto.Block) {
			mb, err := types.BlockFromProtoUnsafe(pb)
			if err != nil {
				return
			}
			var mvb, nerr error
			var mh common.Hash
			if catch(func() { mh = mb.Hash(); mvb = mb.ValidateBasic(hasher()) }) {
				return
			}
			if mh != baseHash || sameBlock(mb, blk) {
				return
			}
			nerr = validate(node, mb)
			o.Count("cache-sweep." + name)
			if nerr == nil && mvb != nil {
				o.Fail(step, "cache-hit-body-unvalidated", fmt.Sprintf("mutation %s of a valid block (height %d, %d txs): same header, the mutant fails Block.ValidateBasic (%s), but the BlockExecutor that validated the genuine block accepts it", name, height, len(blk.Transactions()), vbClass(mvb)))
			} else if nerr == nil && !(height == state.InitialHeight && strings.HasPrefix(name, "commit.")) {
				o.Fail(step, "tamper-undetected:"+name, fmt.Sprintf("mutation %s of a valid block (height %d) keeps Block.Hash %s and is accepted by the executor that validated the genuine block", name, height, baseHash.Hex()))
			}
		}
		for _, m := range ms {
			if !(strings.HasPrefix(m.name, "tx.") || strings.HasPrefix(m.name, "sig.") || strings.HasPrefix(m.name, "ev.")) {
				continue
			}
			pb := cloneProtoBlock(pb0)
			if m.f(pb, r) {
				sweep(m.name, pb)
			}
		}
		if n := len(pb0.Data.Txs); n > 0 {
			// every transaction replaced (all positions of a short list; ends, DeriveSha's range boundaries and a
			// few random positions of a long one), and two neighbours swapped somewhere inside
			pos := map[int]bool{0: true, n - 1: true, n / 2: true, r.Intn(n): true, r.Intn(n): true}
			for _, i := range []int{1, 126, 127, 128, 129} {
				if i < n {
					pos[i] = true
				}
			}
			for i := 0; i < n; i++ {
				if n > 12 && !pos[i] {
					continue
				}
				pb := cloneProtoBlock(pb0)
				tx := types.NewTransaction(uint64(9000+i), common.BytesToAddress([]byte{byte(i), 2}), big.NewInt(4), 21000, big.NewInt(3), nil)
				bz, _ := rlp.EncodeToBytes(tx)
				pb.Data.Txs[i] = bz
				sweep("tx.replace", pb)
			}
			if n >= 3 {
				i := 1 + r.Intn(n-2)
				pb := cloneProtoBlock(pb0)
				pb.Data.Txs[i], pb.Data.Txs[i+1] = pb.Data.Txs[i+1], pb.Data.Txs[i]
				if !bytes.Equal(pb.Data.Txs[i], pb.Data.Txs[i+1]) {
					sweep("tx.swap-inner", pb)
				}
			}
		}
	}
	// every position of the transaction list is committed to: replace one transaction at the boundaries of
	// DeriveSha's three index ranges (1..0x7f, 0, 0x80..) and at the ends
	if n := len(pb0.Data.Txs); n >= 100 {
		idxs := map[int]bool{0: true, 1: true, 2: true, 125: true, 126: true, 127: true, 128: true, 129: true, 254: true, 255: true, 256: true, n - 2: true, n - 1: true, r.Intn(n): true}
		if *out.Tier == "thorough" {
			for i := 0; i < n; i++ {
				idxs[i] = true
			}
		}
		for i := 0; i < n; i++ {
			if !idxs[i] {
				continue
			}
			pb := cloneProtoBlock(pb0)
			tx := types.NewTransaction(uint64(7777+i), common.BytesToAddress([]byte{byte(i), 1}), big.NewInt(3), 21000, big.NewInt(2), nil)
			bz, _ := rlp.EncodeToBytes(tx)
			pb.Data.Txs[i] = bz
			name := fmt.Sprintf("tx.replace@%d", i)
			if i == n-1 {
				name = "tx.replace@last"
			}
			tryMutant(name, pb)
		}
	}
}

// rlpList is a list of encoded items for go-ethereum's reference DeriveSha
type rlpList [][]byte

func (l rlpList) Len() int            { return len(l) }
func (l rlpList) GetRlp(i int) []byte { return l[i] }

type okEvidencePool struct{}

func (okEvidencePool) Update(cstate.LatestBlockState, types.EvidenceList) {}
func (okEvidencePool) CheckEvidence(types.EvidenceList) error             { return nil }

func min(a, b int) int {
	if a < b {
		return a
	}
	return b
}
func min64(a, b uint64) uint64 {
	if a < b {
		return a
	}
	return b
}

func main() {
	out.WriteFacts(func() string {
		return fmt.Sprintf("From Coq Require Import NArith.\nDefinition block_part_size_bytes : N := %d%%N.\nDefinition max_block_parts_count : N := %d%%N.\nDefinition max_block_size_bytes : N := %d%%N.\n",
			types.BlockPartSizeBytes, types.MaxBlockPartsCount, types.MaxBlockSizeBytes)
	})
	o := out.Open()
	o.Rule = "a case is (a) a part-set history: data, part size, header, arrival schedule of genuine/duplicate/bogus parts, (b) a merkle tree with genuine and perturbed proofs, or (c) a block with its header/commit/evidence hashes, wire mutations, part-set reassembly and round trips; non-trivial = a part-set schedule with >1 part containing a duplicate or bogus part, a tree, or a block mutation; distinct by (part size, data length, header kind, schedule string) / item count / (mutation, outcome, commit kind)"
	for i := 0; i < 8; i++ {
		k, err := crypto.ToECDSA(crypto.Keccak256([]byte(fmt.Sprintf("verif-c13-key-%d", i))))
		if err != nil {
			panic(err)
		}
		keys = append(keys, k)
	}
	root := gen.New(*out.Seed)
	for c := 0; c < *out.N; c++ {
		if !out.Want(c) {
			continue
		}
		r := root.Fork(uint64(c))
		func() {
			// a panic that escapes the per-call recovers (the implementation breaking an assumption of
			// the harness itself, e.g. a part list shorter than Total) is a failure of the case
			defer func() {
				if e := recover(); e != nil {
					o.Fail(0, "case-panic", strings.ReplaceAll(fmt.Sprint(e), "\n", " "))
				}
			}()
			switch c % 6 {
			case 0, 1, 2:
				runPartSetCase(o, r, c)
			case 3:
				runMerkleCase(o, r, c)
			default:
				runBlockCase(o, r, c)
			}
		}()
	}
	o.Close()
}
