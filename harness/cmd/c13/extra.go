// C13 harness, second part: validation against the chain state (validateBlock / VerifyCommit as an
// observable of the model, with perturbed states), the block store (every accessor of kai/rawdb that
// WriteBlock feeds, several heights in one store, overwriting, the key layout as an observable of the
// model), the remaining PartSet accessors and reader buffer sizes, and codec boundary values.
package main

import (
	"bytes"
	"crypto/sha256"
	"encoding/binary"
	"encoding/hex"
	"fmt"
	"io"
	"math/big"
	"sort"
	"strings"
	"time"

	"github.com/gogo/protobuf/proto"

	"github.com/kardiachain/go-kardia/kai/kaidb/memorydb"
	"github.com/kardiachain/go-kardia/kai/rawdb"
	"github.com/kardiachain/go-kardia/kai/state/cstate"
	"github.com/kardiachain/go-kardia/lib/common"
	"github.com/kardiachain/go-kardia/lib/crypto"
	"github.com/kardiachain/go-kardia/lib/log"
	kproto "github.com/kardiachain/go-kardia/proto/kardiachain/types"
	"github.com/kardiachain/go-kardia/types"

	"verif/harness/internal/gen"
	"verif/harness/internal/out"
)

// ---------------------------------------------------------------------------------- validateBlock

// vsClass maps the error of BlockExecutor.ValidateBlock to the class the model prints.
func vsClass(err error) string {
	if err == nil {
		return "ok"
	}
	s := err.Error()
	switch {
	case strings.HasPrefix(s, "PANIC"):
		return "PANIC"
	case strings.HasPrefix(s, "wrong Block.Header.Height"):
		return "height"
	case strings.HasPrefix(s, "wrong Block.Header.LastBlockID"):
		return "lastblockid"
	case strings.HasPrefix(s, "wrong Block.Header.AppHash"):
		return "apphash"
	case strings.HasPrefix(s, "wrong Block.Header.ValidatorsHash"):
		return "valhash"
	case strings.HasPrefix(s, "wrong Block.Header.NextValidatorHash"):
		return "nextvalhash"
	case s == cstate.ErrLastCommitSig.Error():
		return "initialsigs"
	case strings.HasPrefix(s, "Invalid commit -- wrong set size"):
		return "vc-size"
	case strings.HasPrefix(s, "Invalid commit -- wrong height"):
		return "vc-height"
	case strings.HasPrefix(s, "Invalid commit -- wrong block id"):
		return "vc-blockid"
	case strings.HasPrefix(s, "wrong signature"), strings.HasPrefix(s, "wrong validator address"),
		strings.HasPrefix(s, "invalid commit -- insufficient voting power"):
		return "vc-sigs"
	case strings.HasPrefix(s, "block time") && strings.Contains(s, "not greater than last block time"):
		return "timenotafter"
	case strings.HasPrefix(s, "invalid block time"):
		return "timemedian"
	case strings.HasPrefix(s, "block time") && strings.Contains(s, "is not equal to genesis time"):
		return "timegenesis"
	case strings.HasPrefix(s, "block height") && strings.Contains(s, "lower than initial height"):
		return "belowinitial"
	case strings.HasPrefix(s, "Too much evidence"):
		return "evoverflow"
	case strings.HasPrefix(s, "block proposer is not a validator"):
		return "proposer"
	}
	return vbClass(err)
}

// commitSigsOK is an independent judgement of what VerifyCommit's loop decides once set size, height
// and block id have been found equal: every present signature names the validator of that index and is
// by it over the vote's sign bytes, and the validators that signed for the block hold more than 2/3 of
// the power.
func commitSigsOK(vals *types.ValidatorSet, bid types.BlockID, c *types.Commit) (ok bool) {
	defer func() {
		if recover() != nil {
			ok = false
		}
	}()
	tally := new(big.Int)
	total := new(big.Int)
	for _, v := range vals.Validators {
		total.Add(total, big.NewInt(v.VotingPower))
	}
	for idx, s := range c.Signatures {
		if s.BlockIDFlag == types.BlockIDFlagAbsent {
			continue
		}
		val := vals.Validators[idx]
		if s.ValidatorAddress != val.Address { // the slot names its validator (commit be3229d)
			return false
		}
		sb := c.VoteSignBytes(chainID, uint32(idx))
		if !types.VerifySignature(val.Address, crypto.Keccak256(sb), s.Signature) {
			return false
		}
		if s.BlockIDFlag == types.BlockIDFlagCommit && bid.Equal(c.BlockID) {
			tally.Add(tally, big.NewInt(val.VotingPower))
		}
	}
	// tally > total*2/3 (integer division, as in the code)
	need := new(big.Int).Div(new(big.Int).Mul(total, big.NewInt(2)), big.NewInt(3))
	return tally.Cmp(need) > 0
}

func freshValidate(st cstate.LatestBlockState, b *types.Block) error {
	ex := cstate.NewBlockExecutor(nil, log.New(), okEvidencePool{}, nil)
	var err error
	if catch(func() { err = ex.ValidateBlock(st, b) }) {
		return fmt.Errorf("PANIC in ValidateBlock")
	}
	return err
}

type sigFacts struct {
	ok     bool
	median time.Time
}

// (the same commit is judged against the same validator set for most mutants of a block)
var sigMemo = map[string]sigFacts{}

// vstInput: the chain state and the facts about the block that the model does not compute itself
func vstInput(st cstate.LatestBlockState, b *types.Block) string {
	sigsOK := false
	median := time.Time{}
	lc := b.LastCommit()
	if lc != nil && st.LastValidators != nil && len(lc.Signatures) == st.LastValidators.Size() && len(lc.Signatures) > 0 {
		key := string(mustMarshal(lc.ToProto())) + "|" + string(st.LastValidators.Hash().Bytes()) + "|" + st.LastBlockID.Key()
		f, ok := sigMemo[key]
		if !ok {
			f.ok = commitSigsOK(st.LastValidators, st.LastBlockID, lc)
			catch(func() { f.median = cstate.MedianTime(lc, st.LastValidators) })
			if len(sigMemo) > 64 {
				sigMemo = map[string]sigFacts{}
			}
			sigMemo[key] = f
		}
		sigsOK, median = f.ok, f.median
	}
	maxEv, _ := types.MaxEvidencePerBlock(int64(st.ConsensusParams.Block.MaxBytes))
	return fmt.Sprintf("%d %d %s %s %s %s %d %s %d %s %s %s", st.InitialHeight, st.LastBlockHeight, bidTok(st.LastBlockID),
		hx(st.AppHash.Bytes()), hx(st.Validators.Hash().Bytes()), hx(st.NextValidators.Hash().Bytes()), st.LastValidators.Size(),
		tsTok(st.LastBlockTime), maxEv, b01(sigsOK), tsTok(median), b01(st.Validators.HasAddress(b.ProposerAddress())))
}

// opValidate observes validateBlock(st, b) through a fresh executor.  It must directly follow the BLK op
// of the same block (the model validates the block it read last).
func opValidate(o *out.Out, st cstate.LatestBlockState, b *types.Block) error {
	err := freshValidate(st, b)
	cl := vsClass(err)
	o.Op("VST "+vstInput(st, b), "vs "+cl)
	o.Count("validate." + cl)
	return err
}

// opExecValidate observes ValidateBlock(st, b) on a long-lived executor (the model keeps its cache).
func opExecValidate(o *out.Out, ex *cstate.BlockExecutor, st cstate.LatestBlockState, b *types.Block) error {
	var err error
	if catch(func() { err = ex.ValidateBlock(st, b) }) {
		err = fmt.Errorf("PANIC in ValidateBlock")
	}
	o.Op("XV "+vstInput(st, b), "xv "+vsClass(err))
	o.Count("exec-validate." + vsClass(err))
	return err
}

type statePerturbation struct {
	name     string
	mustFail bool // a block valid for the unperturbed state cannot be valid for this one
	st       cstate.LatestBlockState
}

func otherValSet(r *gen.Rand, vset *types.ValidatorSet, delta int) *types.ValidatorSet {
	var vals []*types.Validator
	for _, v := range vset.Validators {
		vals = append(vals, types.NewValidator(v.Address, v.VotingPower))
	}
	switch {
	case delta > 0:
		vals = append(vals, types.NewValidator(common.BytesToAddress(r.Bytes(20)), int64(1+r.Intn(5))))
	case delta < 0 && len(vals) > 1:
		vals = vals[:len(vals)-1]
	default:
		vals[0] = types.NewValidator(vals[0].Address, vals[0].VotingPower+1)
	}
	return types.NewValidatorSet(vals)
}

// perturbations of the chain state a block was built for: one field each
func perturbStates(r *gen.Rand, st cstate.LatestBlockState, b *types.Block, vset *types.ValidatorSet) []statePerturbation {
	var ps []statePerturbation
	add := func(name string, mustFail bool, f func(s *cstate.LatestBlockState)) {
		s := st // shallow copy: validator sets are replaced, never mutated
		f(&s)
		ps = append(ps, statePerturbation{name, mustFail, s})
	}
	h := b.Height()
	add("lastheight+1", true, func(s *cstate.LatestBlockState) { s.LastBlockHeight++ })
	if st.LastBlockHeight > 0 {
		add("lastheight-1", true, func(s *cstate.LatestBlockState) { s.LastBlockHeight-- })
	}
	add("initial=height", false, func(s *cstate.LatestBlockState) { s.InitialHeight = h })
	add("initial=height+3", h != st.InitialHeight || st.LastBlockHeight == 0, func(s *cstate.LatestBlockState) { s.InitialHeight = h + 3 })
	add("initial=0", false, func(s *cstate.LatestBlockState) { s.InitialHeight = 0 })
	add("lastblockid.hash", true, func(s *cstate.LatestBlockState) { s.LastBlockID.Hash[r.Intn(32)] ^= 1 << uint(r.Intn(8)) })
	add("lastblockid.total", true, func(s *cstate.LatestBlockState) { s.LastBlockID.PartsHeader.Total++ })
	add("lastblockid.partshash", true, func(s *cstate.LatestBlockState) { s.LastBlockID.PartsHeader.Hash[r.Intn(32)] ^= 1 << uint(r.Intn(8)) })
	add("apphash", true, func(s *cstate.LatestBlockState) { s.AppHash[r.Intn(32)] ^= 1 << uint(r.Intn(8)) })
	add("validators", true, func(s *cstate.LatestBlockState) { s.Validators = otherValSet(r, vset, 0) })
	add("nextvalidators", true, func(s *cstate.LatestBlockState) { s.NextValidators = otherValSet(r, vset, 0) })
	if h != st.InitialHeight {
		add("lastvalidators+1", true, func(s *cstate.LatestBlockState) { s.LastValidators = otherValSet(r, vset, 1) })
		if vset.Size() > 1 {
			add("lastvalidators-1", true, func(s *cstate.LatestBlockState) { s.LastValidators = otherValSet(r, vset, -1) })
		}
		add("lasttime=blocktime", true, func(s *cstate.LatestBlockState) { s.LastBlockTime = b.Time() })
		add("lasttime>blocktime", true, func(s *cstate.LatestBlockState) { s.LastBlockTime = b.Time().Add(time.Nanosecond) })
		add("lasttime=blocktime-1ns", false, func(s *cstate.LatestBlockState) { s.LastBlockTime = b.Time().Add(-time.Nanosecond) })
	} else {
		add("genesistime+1ns", true, func(s *cstate.LatestBlockState) { s.LastBlockTime = s.LastBlockTime.Add(time.Nanosecond) })
		add("genesistime-1s", true, func(s *cstate.LatestBlockState) { s.LastBlockTime = s.LastBlockTime.Add(-time.Second) })
	}
	if b.Evidence() != nil && len(b.Evidence().Evidence) > 0 {
		add("maxbytes-small", true, func(s *cstate.LatestBlockState) { s.ConsensusParams.Block.MaxBytes = 100 })
	}
	return ps
}

// ---------------------------------------------------------------------------------- the block store

func dg8(b []byte) string {
	s := sha256.Sum256(b)
	return hex.EncodeToString(s[:8])
}

func mustMarshal(m proto.Message) []byte {
	bz, err := proto.Marshal(m)
	if err != nil {
		panic(err)
	}
	return bz
}

func be8(h uint64) []byte {
	var b [8]byte
	binary.BigEndian.PutUint64(b[:], h)
	return b[:]
}

// dbDump: number of keys and a digest of the sorted (key, value digest) list
func dbDump(db *memorydb.Database) string {
	it := db.NewIterator(nil, nil)
	defer it.Release()
	var lines []string
	for it.Next() {
		lines = append(lines, hex.EncodeToString(it.Key())+"="+dg8(it.Value()))
	}
	sort.Strings(lines)
	return fmt.Sprintf("%d %s", len(lines), dg8([]byte(strings.Join(lines, "\n"))))
}

func sameCommit(a, b *types.Commit) bool {
	if a == nil || b == nil {
		return a == b
	}
	if a.Height != b.Height || a.Round != b.Round || !a.BlockID.Equal(b.BlockID) || len(a.Signatures) != len(b.Signatures) {
		return false
	}
	for i := range a.Signatures {
		x, y := a.Signatures[i], b.Signatures[i]
		if x.BlockIDFlag != y.BlockIDFlag || x.ValidatorAddress != y.ValidatorAddress || !x.Timestamp.Equal(y.Timestamp) || !bytes.Equal(x.Signature, y.Signature) {
			return false
		}
	}
	return true
}

type storeCtx struct {
	o    *out.Out
	db   *memorydb.Database
	step int
}

// write: WriteBlock + the key layout as an observable
func (s *storeCtx) write(b *types.Block, parts *types.PartSet, seen *types.Commit) bool {
	s.step++
	h := b.Height()
	vparts := make([]string, parts.Total())
	for i := range vparts {
		pp, err := parts.GetPart(i).ToProto()
		if err != nil {
			panic(err)
		}
		vparts[i] = dg8(mustMarshal(pp))
	}
	vp := "-"
	if len(vparts) > 0 {
		vp = strings.Join(vparts, ",")
	}
	in := fmt.Sprintf("WB %d %s %s %s %s %d %s", h, hx(b.Hash().Bytes()), dg8(mustMarshal(types.NewBlockMeta(b, parts).ToProto())),
		dg8(mustMarshal(b.LastCommit().ToProto())), dg8(mustMarshal(seen.ToProto())), len(vparts), vp)
	if catch(func() { rawdb.WriteBlock(s.db, b, parts, seen) }) {
		s.o.Op(in, "wb PANIC")
		s.o.Fail(s.step, "rawdb-panic", "WriteBlock")
		return false
	}
	s.o.Op(in, "wb "+dbDump(s.db))
	s.o.Count("store.write")
	return true
}

// get: one accessor as an observable (value digest of what is read, re-encoded)
func (s *storeCtx) get(kind string, h uint64, idx int, hash common.Hash) {
	s.step++
	var in, res string
	pan := catch(func() {
		switch kind {
		case "meta":
			in = fmt.Sprintf("RG meta %d", h)
			if m := rawdb.ReadBlockMeta(s.db, h); m != nil {
				res = dg8(mustMarshal(m.ToProto()))
			}
		case "part":
			in = fmt.Sprintf("RG part %d %d", h, idx)
			if p := rawdb.ReadBlockPart(s.db, h, idx); p != nil {
				pp, _ := p.ToProto()
				res = dg8(mustMarshal(pp))
			}
		case "commit":
			in = fmt.Sprintf("RG commit %d", h)
			if c := rawdb.ReadCommit(s.db, h); c != nil {
				res = dg8(mustMarshal(c.ToProto()))
			}
		case "seen":
			in = fmt.Sprintf("RG seen %d", h)
			if c := rawdb.ReadSeenCommit(s.db, h); c != nil {
				res = dg8(mustMarshal(c.ToProto()))
			}
		case "canon":
			in = fmt.Sprintf("RG canon %d", h)
			if x := rawdb.ReadCanonicalHash(s.db, h); x != (common.Hash{}) {
				res = dg8(x.Bytes())
			}
		case "height":
			in = fmt.Sprintf("RG height %s", hx(hash.Bytes()))
			if x := rawdb.ReadHeaderHeight(s.db, hash); x != nil {
				res = dg8(be8(*x))
			}
		}
	})
	if pan {
		s.o.Op(in, "rg PANIC")
		s.o.Fail(s.step, "rawdb-panic", in)
		return
	}
	if res == "" {
		res = "-"
	}
	s.o.Op(in, "rg "+res)
}

// readBlock: ReadBlock as an observable (none / MISSING part / ok) and the block it returns
func (s *storeCtx) readBlock(h uint64) *types.Block {
	s.step++
	total := uint32(0)
	catch(func() {
		if m := rawdb.ReadBlockMeta(s.db, h); m != nil {
			total = m.BlockID.PartsHeader.Total
		}
	})
	in := fmt.Sprintf("RB %d %d", h, total)
	var b *types.Block
	if catch(func() { b = rawdb.ReadBlock(s.db, h) }) {
		s.o.Op(in, "rb MISSING")
		return nil
	}
	if b == nil {
		s.o.Op(in, "rb none")
		return nil
	}
	s.o.Op(in, "rb ok")
	return b
}

// check: everything WriteBlock filed for b is read back as it was (direct oracle)
func (s *storeCtx) check(tag string, b *types.Block, parts *types.PartSet, seen *types.Commit, fullSweep bool) {
	h := b.Height()
	fail := func(class, detail string) {
		s.o.Fail(s.step, class, fmt.Sprintf("%s (height %d, %d parts): %s", tag, h, parts.Total(), detail))
	}
	rb := s.readBlock(h)
	if rb == nil || rb.Hash() != b.Hash() || !bytes.Equal(canon(rb), canon(b)) || !sameBlock(rb, b) {
		fail("rawdb-readback-changed", "ReadBlock(WriteBlock(b)) differs from b")
	}
	s.get("meta", h, 0, common.Hash{})
	s.get("commit", h-1, 0, common.Hash{})
	s.get("seen", h, 0, common.Hash{})
	s.get("canon", h, 0, common.Hash{})
	s.get("height", 0, 0, b.Hash())
	if catch(func() {
		m := rawdb.ReadBlockMeta(s.db, h)
		if m == nil || m.BlockID.Hash != b.Hash() || !m.BlockID.PartsHeader.Equals(parts.Header()) || m.Header == nil || m.Header.Hash() != b.Hash() {
			fail("rawdb-meta-changed", "ReadBlockMeta does not return the block id / header that was written")
		}
		if hd := rawdb.ReadHeader(s.db, h); hd == nil || hd.Hash() != b.Hash() {
			fail("rawdb-header-changed", "ReadHeader")
		}
		if c := rawdb.ReadCommit(s.db, h-1); !sameCommit(c, b.LastCommit()) {
			fail("rawdb-commit-changed", fmt.Sprintf("ReadCommit(%d) is not the block's LastCommit", h-1))
		}
		if c := rawdb.ReadSeenCommit(s.db, h); !sameCommit(c, seen) {
			fail("rawdb-seencommit-changed", fmt.Sprintf("ReadSeenCommit(%d) is not the seen commit that was written", h))
		}
		if x := rawdb.ReadCanonicalHash(s.db, h); x != b.Hash() {
			fail("rawdb-canonical-hash", "ReadCanonicalHash")
		}
		if x := rawdb.ReadHeaderHeight(s.db, b.Hash()); x == nil || *x != h {
			fail("rawdb-header-height", "ReadHeaderHeight")
		}
		if bd := rawdb.ReadBody(s.db, h); bd == nil || len(bd.Transactions) != len(b.Transactions()) {
			fail("rawdb-body", "ReadBody")
		}
		total := int(parts.Total())
		for i := 0; i < total; i++ {
			if !fullSweep && i > 2 && i < total-2 && i != 127 && i != 128 && i != 255 && i != 256 && i != 257 {
				continue
			}
			p, q := parts.GetPart(i), rawdb.ReadBlockPart(s.db, h, i)
			if q == nil || q.Index != p.Index || !bytes.Equal(q.Bytes, p.Bytes) || !proofEq(&q.Proof, &p.Proof) {
				fail("rawdb-part-changed", fmt.Sprintf("ReadBlockPart(%d) differs from the part that was written", i))
				break
			}
		}
	}) {
		fail("rawdb-panic", "reading back")
	}
	s.o.Count("roundtrip.rawdb")
}

// a commit that passes Commit.ValidateBasic (what the store demands), for block id `bid` at height h
func fakeSeenCommit(r *gen.Rand, h uint64, bid types.BlockID, vset *types.ValidatorSet, base time.Time) *types.Commit {
	sigs := make([]types.CommitSig, vset.Size())
	for i := range sigs {
		if r.Chance(1, 6) {
			sigs[i] = types.NewCommitSigAbsent()
		} else {
			sigs[i] = types.NewCommitSigForBlock(r.Bytes(65), vset.Validators[i].Address, base.Add(time.Duration(i+1)*time.Millisecond))
		}
	}
	if sigs[0].BlockIDFlag == types.BlockIDFlagAbsent {
		sigs[0] = types.NewCommitSigForBlock(r.Bytes(65), vset.Validators[0].Address, base)
	}
	return types.NewCommit(h, uint32(r.Intn(3)), bid, sigs)
}

// runStore: the block through the block store, then a successor at height+1 into the same store, then the
// height overwritten by another block with fewer parts
func runStore(o *out.Out, r *gen.Rand, blk *types.Block, full *types.PartSet, vset *types.ValidatorSet, base time.Time) {
	s := &storeCtx{o: o, db: memorydb.New(), step: 1000}
	o.Op("DBNEW", "dbnew")
	h := blk.Height()
	parts := full
	blen := len(canon(blk))
	if blen >= 257*16 && blen < 1<<16 && r.Chance(1, 3) {
		// more than 256 parts (260..460): the part index does not fit one byte of the key
		var small *types.PartSet
		sz := uint32(blen / (260 + r.Intn(200)))
		if !catch(func() { small = blk.MakePartSet(sz) }) && small != nil && small.Total() <= 700 {
			parts = small
		}
	} else if r.Chance(1, 6) {
		// many small parts
		var small *types.PartSet
		sz := uint32([]int{16, 24, 48}[r.Intn(3)])
		if !catch(func() { small = blk.MakePartSet(sz) }) && small != nil && small.Total() <= 700 {
			parts = small
		}
	}
	o.Count(fmt.Sprintf("store.parts.%s", bucket(int(parts.Total()))))
	seen := fakeSeenCommit(r, h, types.BlockID{Hash: blk.Hash(), PartsHeader: parts.Header()}, vset, base)
	// reading a height that was never written
	s.get("meta", h, 0, common.Hash{})
	if b0 := s.readBlock(h); b0 != nil {
		o.Fail(s.step, "rawdb-phantom-block", "ReadBlock on an empty store returned a block")
	}
	if !s.write(blk, parts, seen) {
		return
	}
	s.check("first write", blk, parts, seen, false)
	s.get("part", h, int(parts.Total()), common.Hash{})   // one past the last part
	s.get("part", h+1, 0, common.Hash{})                  // another height
	s.get("seen", h-1, 0, common.Hash{})                  // the seen commit is not the last commit's slot
	s.get("commit", h, 0, common.Hash{})                  // not yet: belongs to the next block
	s.get("height", 0, 0, common.BytesToHash(r.Bytes(32))) // unknown hash
	if *out.Tier != "thorough" && !r.Chance(1, 2) {
		return
	}
	// the successor: its LastCommit (for height h) goes to the commit slot of h; h itself stays as it is
	hdr2 := &types.Header{Height: h + 1, Time: base.Add(time.Second), LastBlockID: types.BlockID{Hash: blk.Hash(), PartsHeader: parts.Header()},
		ProposerAddress: vset.Validators[0].Address, ValidatorsHash: vset.Hash(), NextValidatorsHash: vset.Hash(), AppHash: rndHash(r)}
	last2 := fakeSeenCommit(r, h, hdr2.LastBlockID, vset, base.Add(time.Minute)) // differs from `seen` (timestamps)
	txs2 := blk.Transactions()
	if len(txs2) > 3 {
		txs2 = txs2[:3]
	}
	blk2 := types.NewBlock(hdr2, txs2, last2, nil, hasher())
	var parts2 *types.PartSet
	if catch(func() {
		parts2 = blk2.MakePartSet(uint32([]int{32, 100, 1000, types.BlockPartSizeBytes}[r.Intn(4)]))
		if parts2.Total() > 700 { // (a padded transaction of a block-size family)
			parts2 = blk2.MakePartSet(types.BlockPartSizeBytes)
		}
	}) {
		o.Fail(s.step, "makepartset-panic", "successor")
		return
	}
	seen2 := fakeSeenCommit(r, h+1, types.BlockID{Hash: blk2.Hash(), PartsHeader: parts2.Header()}, vset, base.Add(time.Hour))
	if !s.write(blk2, parts2, seen2) {
		return
	}
	s.check("successor", blk2, parts2, seen2, false)
	s.check("after the successor was written", blk, parts, seen, false)
	o.Count("store.two-heights")
	// overwrite height h with another block (fewer transactions, larger parts: fewer parts than before)
	hdr3 := blk.Header()
	hdr3.LastCommitHash = common.Hash{}
	hdr3.GasLimit++
	txs3 := blk.Transactions()
	if len(txs3) > 0 {
		txs3 = txs3[:len(txs3)/2]
	}
	var evs3 []types.Evidence
	blk3 := types.NewBlock(hdr3, txs3, blk.LastCommit(), evs3, hasher())
	var parts3 *types.PartSet
	if catch(func() { parts3 = blk3.MakePartSet(types.BlockPartSizeBytes) }) {
		o.Fail(s.step, "makepartset-panic", "overwrite")
		return
	}
	seen3 := fakeSeenCommit(r, h, types.BlockID{Hash: blk3.Hash(), PartsHeader: parts3.Header()}, vset, base.Add(2*time.Hour))
	if blk3.LastCommit() == nil {
		return
	}
	if !s.write(blk3, parts3, seen3) {
		return
	}
	s.check("overwritten height", blk3, parts3, seen3, false)
	s.check("successor after the overwrite", blk2, parts2, seen2, false)
	s.get("height", 0, 0, blk.Hash()) // the replaced block's hash still maps to the height
	o.Count("store.overwrite")
}

func bucket(n int) string {
	switch {
	case n <= 1:
		return "1"
	case n <= 8:
		return "2-8"
	case n <= 64:
		return "9-64"
	case n <= 256:
		return "65-256"
	}
	return ">256"
}

// ---------------------------------------------------------------------------------- part set accessors

// partSetExtras: the accessors and the reader of a part set that holds all the parts of `data`
func partSetExtras(o *out.Out, r *gen.Rand, ps *types.PartSet, hdr types.PartSetHeader, data []byte, partSize uint32) {
	step := 9000
	if !ps.HasHeader(hdr) || ps.Header() != hdr || !ps.HashesTo(hdr.Hash) || ps.Total() != hdr.Total {
		o.Fail(step, "partset-header-accessors", "Header/HasHeader/HashesTo/Total disagree with the header the set was made from")
	}
	oh := hdr
	oh.Total++
	oh2 := hdr
	oh2.Hash[r.Intn(32)] ^= 0x20
	if ps.HasHeader(oh) || ps.HasHeader(oh2) || ps.HashesTo(oh2.Hash) || hdr.Equals(oh) || hdr.Equals(oh2) || !hdr.Equals(ps.Header()) {
		o.Fail(step, "partset-header-accessors", "a different header is reported as the set's own")
	}
	if hdr.IsZero() != (hdr.Total == 0 && hdr.Hash == (common.Hash{})) {
		o.Fail(step, "partset-header-accessors", "IsZero")
	}
	if !ps.IsComplete() {
		return
	}
	total := int(ps.Total())
	for i := 0; i < total; i++ {
		p := ps.GetPart(i)
		if p == nil || int(p.Index) != i || !bytes.Equal(p.Bytes, chunk(data, partSize, i)) {
			o.Fail(step, "getpart-mismatch", fmt.Sprintf("GetPart(%d) of a complete set is not chunk %d", i, i))
			break
		}
	}
	// the reader with buffers that do not line up with the parts
	p := int(partSize)
	for _, bs := range []int{1, p - 1, p, p + 1, 2*p + 1, 7, len(data), len(data) + 3} {
		if bs <= 0 {
			continue
		}
		if len(data)/bs > 5000 {
			continue
		}
		var got []byte
		var rerr error
		if catch(func() {
			rd := ps.GetReader()
			buf := make([]byte, bs)
			for guard := 0; guard < 20000; guard++ {
				n, err := rd.Read(buf)
				got = append(got, buf[:n]...)
				if err != nil {
					if err != io.EOF {
						rerr = err
					}
					return
				}
				if n == 0 {
					rerr = fmt.Errorf("Read returned 0, nil")
					return
				}
			}
			rerr = fmt.Errorf("reader does not terminate")
		}) {
			o.Fail(step, "reader-panic", fmt.Sprintf("buffer size %d", bs))
			continue
		}
		if rerr != nil || !bytes.Equal(got, data) {
			o.Fail(step, "reassembly-mismatch", fmt.Sprintf("reading a complete set of %d parts (part size %d) with a %d-byte buffer gives %d bytes (%s), original %d bytes (%s), err=%v", total, partSize, bs, len(got), dg(got), len(data), dg(data), rerr))
		}
		o.Count("reader.buffers")
	}
}

// ---------------------------------------------------------------------------------- codec boundary values

var u64Bounds = []uint64{1, 2, 127, 128, 255, 256, 16383, 16384, 1<<32 - 1, 1 << 32, 1<<63 - 1, 1 << 63, 1<<64 - 1}
var u32Bounds = []uint32{0, 1, 127, 128, 255, 256, 16383, 16384, 1<<31 - 1, 1 << 31, 1<<32 - 1}

func boundTime(r *gen.Rand, base time.Time) time.Time {
	switch r.Intn(6) {
	case 0:
		return time.Unix(base.Unix(), 0).UTC()
	case 1:
		return time.Unix(base.Unix(), 999999999).UTC()
	case 2:
		return time.Unix(0, 0).UTC()
	case 3:
		return time.Unix(-1, 1).UTC() // before the epoch: negative seconds (10-byte varint)
	case 4:
		return time.Unix(253402300799, 999999999).UTC() // the last instant gogo accepts
	}
	return base
}

// runCodec: votes, proposals, commits, block ids and part-set headers with boundary values survive their
// wire encoding; a proposal for any admissible block (part count up to MaxBlockPartsCount) is accepted
func runCodec(o *out.Out, r *gen.Rand, base time.Time, vset *types.ValidatorSet) {
	step := 8000
	bid := types.BlockID{Hash: rndHash(r), PartsHeader: types.PartSetHeader{Total: u32Bounds[1+r.Intn(len(u32Bounds)-1)], Hash: rndHash(r)}}
	// vote
	{
		v := &types.Vote{Type: kproto.SignedMsgType(1 + r.Intn(2)), Height: u64Bounds[r.Intn(len(u64Bounds))], Round: u32Bounds[r.Intn(len(u32Bounds))],
			BlockID: bid, Timestamp: boundTime(r, base), ValidatorAddress: vset.Validators[0].Address,
			ValidatorIndex: u32Bounds[r.Intn(len(u32Bounds))], Signature: r.Bytes(1 + r.Intn(70))}
		if r.Chance(1, 4) {
			v.BlockID = types.BlockID{}
		}
		pv := new(kproto.Vote)
		if err := proto.Unmarshal(mustMarshal(v.ToProto()), pv); err != nil {
			o.Fail(step, "roundtrip-vote-unmarshal", err.Error())
		} else {
			v2, err := types.VoteFromProto(pv)
			if err != nil {
				o.Fail(step, "roundtrip-vote-rejected", fmt.Sprintf("height %d round %d index %d: %v", v.Height, v.Round, v.ValidatorIndex, err))
			} else if !sameVote(v, v2) {
				o.Fail(step, "roundtrip-vote-changed", fmt.Sprintf("height %d round %d index %d time %v", v.Height, v.Round, v.ValidatorIndex, v.Timestamp))
			}
		}
		o.Count("codec.vote")
	}
	// proposal: the part count of the proposed block id around MaxBlockPartsCount
	{
		tot := []uint32{1, 2, 127, 128, types.MaxBlockPartsCount - 1, types.MaxBlockPartsCount, types.MaxBlockPartsCount + 1, 1<<32 - 1}[r.Intn(8)]
		p := types.NewProposal(u64Bounds[r.Intn(len(u64Bounds))], u32Bounds[r.Intn(len(u32Bounds))], u32Bounds[r.Intn(len(u32Bounds))],
			types.BlockID{Hash: rndHash(r), PartsHeader: types.PartSetHeader{Total: tot, Hash: rndHash(r)}})
		p.Timestamp = boundTime(r, base)
		p.Signature = r.Bytes(1 + r.Intn(70))
		pp := new(kproto.Proposal)
		cl := "error"
		if err := proto.Unmarshal(mustMarshal(p.ToProto()), pp); err != nil {
			o.Fail(step, "roundtrip-proposal-unmarshal", err.Error())
		} else {
			p2, err := types.ProposalFromProto(pp)
			admissible := tot <= types.MaxBlockPartsCount
			switch {
			case err == nil:
				cl = "1"
			case strings.Contains(err.Error(), "too many block parts"):
				cl = "0"
			default:
				cl = "other:" + err.Error()
			}
			if admissible && err != nil {
				o.Fail(step, "proposal-for-admissible-block-rejected", fmt.Sprintf("a proposal whose block id has %d parts (MaxBlockPartsCount = %d) does not survive the wire: %v", tot, types.MaxBlockPartsCount, err))
			}
			if !admissible && err == nil {
				o.Fail(step, "proposal-part-count-unbounded", fmt.Sprintf("a proposal whose block id has %d parts (MaxBlockPartsCount = %d) is accepted", tot, types.MaxBlockPartsCount))
			}
			if p2 != nil && err == nil && (p2.Height != p.Height || p2.Round != p.Round || p2.POLRound != p.POLRound || !p2.POLBlockID.Equal(p.POLBlockID) ||
				!p2.Timestamp.Equal(p.Timestamp) || !bytes.Equal(p2.Signature, p.Signature)) {
				o.Fail(step, "roundtrip-proposal-changed", fmt.Sprintf("height %d round %d polround %d", p.Height, p.Round, p.POLRound))
			}
		}
		o.Op(fmt.Sprintf("PP %d", tot), "pp "+cl)
		o.Count("codec.proposal")
	}
	// commit with boundary height / round, block id, part-set header
	{
		ct := boundTime(r, base)
		if ct.Unix() > 253402300000 {
			ct = ct.Add(-time.Hour) // (the signatures are stamped a few milliseconds after it)
		}
		c := fakeSeenCommit(r, u64Bounds[r.Intn(len(u64Bounds))], bid, vset, ct)
		c.Round = u32Bounds[r.Intn(len(u32Bounds))]
		cp := new(kproto.Commit)
		if err := proto.Unmarshal(mustMarshal(c.ToProto()), cp); err != nil {
			o.Fail(step, "roundtrip-commit-unmarshal", err.Error())
		} else if c2, err := types.CommitFromProto(cp); err != nil || !sameCommit(c, c2) {
			o.Fail(step, "roundtrip-commit-changed", fmt.Sprintf("height %d round %d total %d: err=%v", c.Height, c.Round, bid.PartsHeader.Total, err))
		}
		pb := bid.ToProto()
		b2 := new(kproto.BlockID)
		if err := proto.Unmarshal(mustMarshal(&pb), b2); err != nil {
			o.Fail(step, "roundtrip-blockid-unmarshal", err.Error())
		} else if x, err := types.BlockIDFromProto(b2); err != nil || !x.Equal(bid) || x.Key() != bid.Key() {
			o.Fail(step, "roundtrip-blockid-changed", fmt.Sprintf("total %d: err=%v", bid.PartsHeader.Total, err))
		}
		ph := bid.PartsHeader.ToProto()
		h2 := new(kproto.PartSetHeader)
		if err := proto.Unmarshal(mustMarshal(&ph), h2); err != nil {
			o.Fail(step, "roundtrip-partsetheader-unmarshal", err.Error())
		} else if x, err := types.PartSetHeaderFromProto(h2); err != nil || !x.Equals(bid.PartsHeader) {
			o.Fail(step, "roundtrip-partsetheader-changed", fmt.Sprintf("total %d: err=%v", bid.PartsHeader.Total, err))
		}
		o.Count("codec.commit+blockid")
	}
}

// headerBoundaries: the header with a few fields replaced by boundary values of their encodings (varint
// length steps, maximal values, the first/last instant gogo's StdTime accepts and the first it refuses):
// encoding and hash as observables of the model, and the header survives HeaderFromProto(ToProto).
func headerBoundaries(o *out.Out, r *gen.Rand, h0 *types.Header) {
	h := *h0
	for k := 0; k < 1+r.Intn(3); k++ {
		switch r.Intn(6) {
		case 0:
			h.Height = u64Bounds[r.Intn(len(u64Bounds))]
		case 1:
			h.NumTxs = u64Bounds[r.Intn(len(u64Bounds))]
		case 2:
			h.GasLimit = u64Bounds[r.Intn(len(u64Bounds))]
		case 3:
			h.LastBlockID.PartsHeader.Total = u32Bounds[r.Intn(len(u32Bounds))]
		case 4:
			h.Time = []time.Time{time.Unix(253402300799, 999999999).UTC(), time.Unix(253402300800, 0).UTC(), time.Unix(-62135596800, 0).UTC(),
				time.Unix(-62135596801, 999999999).UTC(), time.Unix(0, 0).UTC(), time.Unix(-1, 999999999).UTC(), time.Unix(1<<40, 1).UTC()}[r.Intn(7)]
		case 5:
			switch r.Intn(3) {
			case 0:
				h.AppHash = common.Hash{}
			case 1:
				h.ProposerAddress = common.Address{}
			case 2:
				h.LastBlockID = types.BlockID{}
			}
		}
	}
	var enc []byte
	var hh common.Hash
	in := "HDR " + hdrTok(&h)
	if catch(func() {
		var err error
		enc, err = h.ToProto().Marshal()
		if err != nil {
			panic(err)
		}
		hh = h.Hash()
	}) {
		o.Op(in, "h PANIC")
		o.Count("header.boundary.unencodable")
		return
	}
	o.Op(in, fmt.Sprintf("h %s %s", hx(enc), hx(hh.Bytes())))
	o.Count("header.boundary")
	ph := new(kproto.Header)
	if err := proto.Unmarshal(enc, ph); err != nil {
		o.Fail(7000, "roundtrip-header-unmarshal", err.Error())
		return
	}
	h2, err := types.HeaderFromProto(ph)
	if err != nil || h2.Hash() != hh || h2.Height != h.Height || !h2.Time.Equal(h.Time) || h2.NumTxs != h.NumTxs || h2.GasLimit != h.GasLimit ||
		!h2.LastBlockID.Equal(h.LastBlockID) || h2.ProposerAddress != h.ProposerAddress || h2.AppHash != h.AppHash || h2.TxHash != h.TxHash ||
		h2.LastCommitHash != h.LastCommitHash || h2.ValidatorsHash != h.ValidatorsHash || h2.NextValidatorsHash != h.NextValidatorsHash ||
		h2.ConsensusHash != h.ConsensusHash || h2.EvidenceHash != h.EvidenceHash {
		o.Fail(7000, "roundtrip-header-changed", fmt.Sprintf("height %d numtxs %d gas %d total %d time %v: err=%v", h.Height, h.NumTxs, h.GasLimit, h.LastBlockID.PartsHeader.Total, h.Time, err))
	}
}
