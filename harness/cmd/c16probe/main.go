package main

import (
	"fmt"
	"math/big"

	"github.com/kardiachain/go-kardia/lib/rlp"
)

type SO struct {
	A uint64
	B uint64 `rlp:"optional"`
}
type SOT struct {
	A uint64
	B uint64   `rlp:"optional"`
	T []uint64 `rlp:"tail"`
}
type SP struct {
	A *uint64 `rlp:"nil"`
}
type SB struct {
	A uint64
	B big.Int `rlp:"optional"`
}
type SS struct{ A uint64 }
type PS struct{ P *SS }

func main() {
	var so SO
	err := rlp.DecodeBytes([]byte{0xc2, 0x05, 0x80}, &so)
	e, _ := rlp.EncodeToBytes(so)
	fmt.Printf("optional: %v %+v reenc=%x\n", err, so, e)
	var sot SOT
	err = rlp.DecodeBytes([]byte{0xc2, 0x05, 0x80}, &sot)
	e, _ = rlp.EncodeToBytes(sot)
	fmt.Printf("optional+tail: %v %+v reenc=%x nilT=%v\n", err, sot, e, sot.T == nil)
	z := uint64(0)
	e, _ = rlp.EncodeToBytes(SP{&z})
	var sp SP
	err = rlp.DecodeBytes(e, &sp)
	fmt.Printf("nilptr: enc=%x err=%v nil=%v\n", e, err, sp.A == nil)
	var sb SB
	err = rlp.DecodeBytes([]byte{0xc2, 0x05, 0x80}, &sb)
	e, _ = rlp.EncodeToBytes(sb)
	fmt.Printf("optional big: %v reenc=%x\n", err, e)
	e, _ = rlp.EncodeToBytes(PS{})
	var ps PS
	err = rlp.DecodeBytes(e, &ps)
	fmt.Printf("nil *struct: enc=%x err=%v\n", e, err)
	var raw rlp.RawValue
	err = rlp.DecodeBytes([]byte{0x81, 0x05}, &raw)
	fmt.Printf("raw 8105: %v %x\n", err, []byte(raw))
	var ifc interface{}
	err = rlp.DecodeBytes([]byte{0xc3, 0x81, 0x05, 0x01}, &ifc)
	fmt.Printf("iface: %v %v\n", err, ifc)
	var bs []byte
	err = rlp.DecodeBytes([]byte{}, &bs)
	fmt.Printf("empty: %v\n", err)
	err = rlp.DecodeBytes([]byte{0xb8}, &bs)
	fmt.Printf("b8: %v\n", err)
	err = rlp.DecodeBytes([]byte{0xc2, 0xb8}, &ifc)
	fmt.Printf("c2b8: %v\n", err)
	err = rlp.DecodeBytes([]byte{0xbf,0xff,0xff,0xff,0xff,0xff,0xff,0xff,0xff}, &bs)
	fmt.Printf("huge: %v\n", err)
	var a0 [0]byte
	err = rlp.DecodeBytes([]byte{0x05}, &a0)
	fmt.Printf("a0: %v\n", err)
	var rs struct{ R rlp.RawValue; X uint64 }
	e, err = rlp.EncodeToBytes(rs)
	fmt.Printf("empty raw in struct: %x %v\n", e, err)
}
