// C11 harness: signatures bind signer and full content of votes, proposals and transactions.
//
// Drives the real types.VoteSignBytes / ProposalSignBytes / Signer.Hash / Vote.Verify /
// VerifySignature / types.Sender / crypto.ValidateSignatureValues with generated messages and
// EVERY single-field mutation of them, prints the observables for the model driver
// (byte-exact sign bytes, hash preimages, verification classes), and evaluates the property
// directly on the implementation (mutation => verification fails or another sender; sign then
// recover returns the signer; chain-id binding; high-s / malformed values rejected; no panic).
package main

import (
	"crypto/ecdsa"
	"encoding/hex"
	"fmt"
	"math/big"
	"strings"
	"time"

	"github.com/kardiachain/go-kardia/configs"
	"github.com/kardiachain/go-kardia/lib/common"
	"github.com/kardiachain/go-kardia/lib/crypto"
	"github.com/kardiachain/go-kardia/lib/rlp"
	kproto "github.com/kardiachain/go-kardia/proto/kardiachain/types"
	"github.com/kardiachain/go-kardia/types"

	"verif/harness/internal/gen"
	"verif/harness/internal/out"
)

var (
	keys   []*ecdsa.PrivateKey
	addrs  []common.Address
	known  = map[common.Address]bool{}
	curveN = crypto.S256().Params().N
	halfN  = new(big.Int).Div(crypto.S256().Params().N, big.NewInt(2))
	step   int
)

func hx(b []byte) string {
	if len(b) == 0 {
		return "-"
	}
	return hex.EncodeToString(b)
}
func anum(a common.Address) string { return new(big.Int).SetBytes(a[:]).String() }
func b01(b bool) string {
	if b {
		return "1"
	}
	return "0"
}

func catch(f func()) (panicked bool) {
	defer func() {
		if r := recover(); r != nil {
			panicked = true
		}
	}()
	f()
	return
}

// ---------------------------------------------------------------- messages

type bid struct {
	hash  []byte // 32 bytes at the types level; any length at the proto level
	total uint32
	phash []byte
}

type vmsg struct {
	chain  string
	ty     int32
	height uint64
	round  uint32
	pol    uint32 // proposals only
	b      bid
	secs   int64
	nanos  int64
}

func (m vmsg) time() time.Time { return time.Unix(m.secs, m.nanos).UTC() }

func (m vmsg) typesBid() types.BlockID {
	return types.BlockID{Hash: common.BytesToHash(m.b.hash), PartsHeader: types.PartSetHeader{Total: m.b.total, Hash: common.BytesToHash(m.b.phash)}}
}

func (m vmsg) vote(vaddr common.Address, sig []byte) *types.Vote {
	return &types.Vote{ValidatorAddress: vaddr, ValidatorIndex: 0, Height: m.height, Round: m.round, Timestamp: m.time(),
		Type: kproto.SignedMsgType(m.ty), BlockID: m.typesBid(), Signature: sig}
}

func (m vmsg) proposal(sig []byte) *types.Proposal {
	return &types.Proposal{Height: m.height, Round: m.round, POLRound: m.pol, Timestamp: m.time(), POLBlockID: m.typesBid(), Signature: sig}
}

// proto-level vote with the raw hash bytes (any length)
func (m vmsg) protoVote() *kproto.Vote {
	return &kproto.Vote{Type: kproto.SignedMsgType(m.ty), Height: m.height, Round: m.round, Timestamp: m.time(),
		BlockID: kproto.BlockID{Hash: m.b.hash, PartSetHeader: kproto.PartSetHeader{Total: m.b.total, Hash: m.b.phash}}}
}
func (m vmsg) protoProposal() *kproto.Proposal {
	return &kproto.Proposal{Height: m.height, Round: m.round, PolRound: m.pol, Timestamp: m.time(),
		BlockID: kproto.BlockID{Hash: m.b.hash, PartSetHeader: kproto.PartSetHeader{Total: m.b.total, Hash: m.b.phash}}}
}

func (m vmsg) bidTok() string { return fmt.Sprintf("%s %d %s", hx(m.b.hash), m.b.total, hx(m.b.phash)) }
func (m vmsg) voteTok() string {
	return fmt.Sprintf("%s %d %d %d %s %d %d", hx([]byte(m.chain)), m.ty, m.height, m.round, m.bidTok(), m.secs, m.nanos)
}
func (m vmsg) propTok() string {
	return fmt.Sprintf("%s %d %d %d %s %d %d", hx([]byte(m.chain)), m.height, m.round, m.pol, m.bidTok(), m.secs, m.nanos)
}

// real sign bytes, "" , false on panic
func voteBytes(m vmsg, protoLevel bool) (b []byte, ok bool) {
	ok = !catch(func() {
		if protoLevel {
			b = types.VoteSignBytes(m.chain, m.protoVote())
		} else {
			b = types.VoteSignBytes(m.chain, m.vote(common.Address{}, nil).ToProto())
		}
	})
	return
}
func propBytes(m vmsg, protoLevel bool) (b []byte, ok bool) {
	ok = !catch(func() {
		if protoLevel {
			b = types.ProposalSignBytes(m.chain, m.protoProposal())
		} else {
			b = types.ProposalSignBytes(m.chain, m.proposal(nil).ToProto())
		}
	})
	return
}

func opVB(o *out.Out, m vmsg, protoLevel bool) ([]byte, bool) {
	b, ok := voteBytes(m, protoLevel)
	obs := "vb ERR"
	if ok {
		obs = "vb " + hx(b)
	}
	o.Op("VB "+m.voteTok(), obs)
	return b, ok
}
func opPB(o *out.Out, m vmsg, protoLevel bool) ([]byte, bool) {
	b, ok := propBytes(m, protoLevel)
	obs := "pb ERR"
	if ok {
		obs = "pb " + hx(b)
	}
	o.Op("PB "+m.propTok(), obs)
	return b, ok
}

// registers the ideal signature (r, s, recid) -> (signer, hash) for the model
func regSig(o *out.Out, sig []byte, signer common.Address, hash []byte) {
	r := new(big.Int).SetBytes(sig[:32])
	s := new(big.Int).SetBytes(sig[32:64])
	o.InOnly(fmt.Sprintf("SIG %s %s %d %s %s", r, s, sig[64], anum(signer), hx(hash)))
}

func opVV(o *out.Out, m vmsg, addr, vaddr common.Address, sig []byte) string {
	var err error
	v := m.vote(vaddr, sig)
	pan := catch(func() { err = v.Verify(m.chain, addr) })
	res := "ok"
	switch {
	case pan:
		res = "PANIC"
		o.Fail(step, "verify-panic", "Vote.Verify panicked on "+m.voteTok()+" sig="+hx(sig))
	case err == types.ErrVoteInvalidValidatorAddress:
		res = "addr"
	case err == types.ErrVoteInvalidSignature:
		res = "sig"
	case err != nil:
		res = "other"
	}
	o.Op(fmt.Sprintf("VV %s %s %s %d %d %d %s %d %d %s", hx([]byte(m.chain)), anum(addr), anum(vaddr), m.ty, m.height, m.round, m.bidTok(), m.secs, m.nanos, hx(sig)), "vv "+res)
	return res
}

// proposal verification exactly as ConsensusState.setProposal does it
func opPV(o *out.Out, m vmsg, addr common.Address, sig []byte) string {
	var okv bool
	p := m.proposal(sig)
	pan := catch(func() {
		signBytes := types.ProposalSignBytes(m.chain, p.ToProto())
		okv = types.VerifySignature(addr, crypto.Keccak256(signBytes), p.Signature)
	})
	res := "sig"
	if pan {
		res = "PANIC"
		o.Fail(step, "verify-panic", "proposal verification panicked on "+m.propTok()+" sig="+hx(sig))
	} else if okv {
		res = "ok"
	}
	o.Op(fmt.Sprintf("PV %s %s %d %d %d %s %d %d %s", hx([]byte(m.chain)), anum(addr), m.height, m.round, m.pol, m.bidTok(), m.secs, m.nanos, hx(sig)), "pv "+res)
	return res
}

func opVS(o *out.Out, addr common.Address, hash, sig []byte) string {
	var okv bool
	pan := catch(func() { okv = types.VerifySignature(addr, hash, sig) })
	res := b01(okv)
	if pan {
		res = "PANIC"
		o.Fail(step, "sigtopub-panic", fmt.Sprintf("types.VerifySignature panicked: hash=%s sig=%s", hx(hash), hx(sig)))
	}
	o.Op(fmt.Sprintf("VS %s %s %s", anum(addr), hx(hash), hx(sig)), "vs "+res)
	return res
}

// ---------------------------------------------------------------- generators

var chainPool = []string{"", "kai", "kai", "chain-A", "chain-B", "0", "kardia-mainnet-0x18",
	strings.Repeat("c", 127), strings.Repeat("c", 128), strings.Repeat("z", 300), "ka\x00i", "\xff\xfe"}

func pickU64(r *gen.Rand) uint64 {
	switch r.Pick(2, 3, 3, 2, 2) {
	case 0:
		return 0
	case 1:
		return uint64(1 + r.Intn(5))
	case 2:
		return []uint64{127, 128, 129, 16383, 16384, 1<<32 - 1, 1 << 32, 1<<63 - 1, 1 << 63, 1<<64 - 1}[r.Intn(10)]
	case 3:
		return r.U64() >> uint(r.Intn(64))
	}
	return r.U64()
}
func pickU32(r *gen.Rand) uint32 {
	switch r.Pick(2, 4, 2, 2) {
	case 0:
		return 0
	case 1:
		return uint32(1 + r.Intn(4))
	case 2:
		return []uint32{127, 128, 16384, 1<<31 - 1, 1 << 31, 1<<32 - 1}[r.Intn(6)]
	}
	return uint32(r.U64())
}

func randHash(r *gen.Rand) []byte {
	switch r.Pick(5, 1, 1) {
	case 1: // mostly zero
		h := make([]byte, 32)
		h[r.Intn(32)] = byte(1 + r.Intn(255))
		return h
	case 2:
		h := r.Bytes(32)
		h[0] = 0
		return h
	}
	return r.Bytes(32)
}

func genBid(r *gen.Rand) bid {
	z := make([]byte, 32)
	switch r.Pick(3, 6, 1, 1, 1) {
	case 0:
		return bid{hash: z, total: 0, phash: z} // nil vote
	case 1:
		return bid{hash: randHash(r), total: uint32(1 + r.Intn(5)), phash: randHash(r)}
	case 2:
		return bid{hash: randHash(r), total: 0, phash: z} // hash only
	case 3:
		return bid{hash: z, total: pickU32(r), phash: z} // total only
	}
	return bid{hash: z, total: 0, phash: randHash(r)} // parts hash only
}

func genTime(r *gen.Rand) (int64, int64) {
	var secs int64
	switch r.Pick(2, 1, 6, 1, 1, 1) {
	case 0:
		secs = -62135596800 // time.Time{}
	case 1:
		secs = 0
	case 2:
		secs = 1600000000 + int64(r.Intn(100000000))
	case 3:
		secs = -int64(1 + r.Intn(1000000))
	case 4:
		secs = 253402300799
	case 5:
		secs = int64(r.Intn(300))
	}
	var nanos int64
	switch r.Pick(2, 1, 1, 3) {
	case 0:
		nanos = 0
	case 1:
		nanos = 999999999
	case 2:
		nanos = int64(1 + r.Intn(200))
	case 3:
		nanos = int64(r.Intn(1000000000))
	}
	return secs, nanos
}

func genMsg(r *gen.Rand, isVote bool) vmsg {
	m := vmsg{chain: chainPool[r.Intn(len(chainPool))], height: pickU64(r), round: pickU32(r), b: genBid(r)}
	m.secs, m.nanos = genTime(r)
	if isVote {
		m.ty = []int32{1, 2, 1, 2, 1, 2, 0, 32, 3, -1, 1 << 30}[r.Intn(11)]
	} else {
		m.ty = 32
		if r.Chance(1, 2) {
			m.pol = pickU32(r)
		}
	}
	return m
}

type mutation struct {
	name string
	f    func(m *vmsg) bool // false: not applicable (value unchanged)
}

func cp(b []byte) []byte { return append([]byte{}, b...) }

func mutations(r *gen.Rand, isVote bool) []mutation {
	ms := []mutation{
		{"chain.append", func(m *vmsg) bool { m.chain += "x"; return true }},
		{"chain.flip", func(m *vmsg) bool {
			if m.chain == "" {
				return false
			}
			b := []byte(m.chain)
			b[len(b)-1] ^= 1
			m.chain = string(b)
			return true
		}},
		{"chain.empty", func(m *vmsg) bool {
			if m.chain == "" {
				return false
			}
			m.chain = ""
			return true
		}},
		{"chain.other", func(m *vmsg) bool {
			if m.chain == "chain-B" {
				m.chain = "chain-A"
			} else {
				m.chain = "chain-B"
			}
			return true
		}},
		{"height.inc", func(m *vmsg) bool { m.height++; return true }},
		{"height.zero", func(m *vmsg) bool {
			if m.height == 0 {
				return false
			}
			m.height = 0
			return true
		}},
		{"height.shift7", func(m *vmsg) bool { // 128*h+x vs h: varint continuation confusion
			h := m.height<<7 | 1
			if h == m.height {
				return false
			}
			m.height = h
			return true
		}},
		{"round.inc", func(m *vmsg) bool { m.round++; return true }},
		{"round.zero", func(m *vmsg) bool {
			if m.round == 0 {
				return false
			}
			m.round = 0
			return true
		}},
		{"swap.height.round", func(m *vmsg) bool {
			if m.height == uint64(m.round) || m.height > 1<<32-1 {
				return false
			}
			m.height, m.round = uint64(m.round), uint32(m.height)
			return true
		}},
		{"swap.round.total", func(m *vmsg) bool {
			if m.round == m.b.total {
				return false
			}
			m.round, m.b.total = m.b.total, m.round
			return true
		}},
		{"hash.flip", func(m *vmsg) bool { m.b.hash = cp(m.b.hash); m.b.hash[int(m.height%32)] ^= 0x40; return true }},
		{"hash.lastbit", func(m *vmsg) bool { m.b.hash = cp(m.b.hash); m.b.hash[31] ^= 1; return true }},
		{"total.inc", func(m *vmsg) bool { m.b.total++; return true }},
		{"total.zero", func(m *vmsg) bool {
			if m.b.total == 0 {
				return false
			}
			m.b.total = 0
			return true
		}},
		{"phash.flip", func(m *vmsg) bool { m.b.phash = cp(m.b.phash); m.b.phash[7] ^= 0x80; return true }},
		{"swap.hash.phash", func(m *vmsg) bool {
			if string(m.b.hash) == string(m.b.phash) {
				return false
			}
			m.b.hash, m.b.phash = m.b.phash, m.b.hash
			return true
		}},
		{"bid.nil", func(m *vmsg) bool {
			z := make([]byte, 32)
			if string(m.b.hash) == string(z) && string(m.b.phash) == string(z) && m.b.total == 0 {
				return false
			}
			m.b = bid{hash: z, phash: z}
			return true
		}},
		{"secs.inc", func(m *vmsg) bool {
			if m.secs >= 253402300799 {
				m.secs--
			} else {
				m.secs++
			}
			return true
		}},
		{"secs.zero", func(m *vmsg) bool {
			if m.secs == 0 {
				return false
			}
			m.secs = 0
			return true
		}},
		{"nanos.inc", func(m *vmsg) bool { m.nanos = (m.nanos + 1) % 1000000000; return true }},
		{"nanos.zero", func(m *vmsg) bool {
			if m.nanos == 0 {
				return false
			}
			m.nanos = 0
			return true
		}},
		{"swap.secs.nanos", func(m *vmsg) bool {
			if m.secs == m.nanos || m.secs < 0 || m.secs >= 1000000000 {
				return false
			}
			m.secs, m.nanos = m.nanos, m.secs
			return true
		}},
	}
	if isVote {
		ms = append(ms,
			mutation{"type.flip", func(m *vmsg) bool {
				if m.ty == 1 {
					m.ty = 2
				} else {
					m.ty = 1
				}
				return true
			}},
			mutation{"type.proposal", func(m *vmsg) bool {
				if m.ty == 32 {
					return false
				}
				m.ty = 32
				return true
			}},
			mutation{"type.zero", func(m *vmsg) bool {
				if m.ty == 0 {
					return false
				}
				m.ty = 0
				return true
			}},
			mutation{"swap.type.height", func(m *vmsg) bool {
				if m.height > 1<<30 || uint64(m.ty) == m.height || m.ty < 0 {
					return false
				}
				m.ty, m.height = int32(m.height), uint64(m.ty)
				return true
			}},
		)
	} else {
		ms = append(ms,
			mutation{"pol.inc", func(m *vmsg) bool { m.pol++; return true }},
			mutation{"pol.zero", func(m *vmsg) bool {
				if m.pol == 0 {
					return false
				}
				m.pol = 0
				return true
			}},
			mutation{"swap.round.pol", func(m *vmsg) bool {
				if m.round == m.pol {
					return false
				}
				m.round, m.pol = m.pol, m.round
				return true
			}},
		)
	}
	return ms
}

func twin(sig []byte) []byte { // the (r, N-s, v^1) malleated signature
	t := cp(sig)
	s := new(big.Int).SetBytes(sig[32:64])
	s.Sub(curveN, s)
	sb := s.Bytes()
	for i := 32; i < 64; i++ {
		t[i] = 0
	}
	copy(t[64-len(sb):64], sb)
	t[64] ^= 1
	return t
}

// ---------------------------------------------------------------- vote / proposal cases

func caseMsg(o *out.Out, r *gen.Rand, c int, isVote bool) {
	kind := "proposal"
	if isVote {
		kind = "vote"
	}
	o.Case(c, fmt.Sprintf("CASE %d %s", c, kind))
	o.Count("case." + kind)
	m := genMsg(r, isVote)
	k := r.Intn(len(keys))
	addr := addrs[k]
	pv := types.NewDefaultPrivValidator(keys[k])

	var base []byte
	var ok bool
	if isVote {
		base, ok = opVB(o, m, false)
	} else {
		base, ok = opPB(o, m, false)
	}
	if !ok {
		o.Fail(step, "signbytes-panic", "sign bytes panicked on a valid message "+m.voteTok())
		return
	}
	// the real signer signs
	var sig []byte
	if isVote {
		p := m.vote(addr, nil).ToProto()
		if err := pv.SignVote(m.chain, p); err != nil {
			o.Fail(step, "sign-error", err.Error())
			return
		}
		sig = p.Signature
	} else {
		p := m.proposal(nil).ToProto()
		if err := pv.SignProposal(m.chain, p); err != nil {
			o.Fail(step, "sign-error", err.Error())
			return
		}
		sig = p.Signature
	}
	h := crypto.Keccak256(base)
	regSig(o, sig, addr, h)
	opSP(o, h, sig, false)
	// the test signer of the same file (MockPV): a plain signature over the same bytes; with its
	// break flags it signs for another chain id and must not verify here
	if r.Chance(1, 3) {
		for _, broken := range []bool{false, true} {
			mock := types.NewMockPVWithParams(keys[k], broken, broken)
			var msig []byte
			var merr, verr error
			pan := catch(func() {
				if isVote {
					p := m.vote(addr, nil).ToProto()
					merr = mock.SignVote(m.chain, p)
					msig = p.Signature
					verr = m.vote(addr, msig).Verify(m.chain, addr)
				} else {
					p := m.proposal(nil).ToProto()
					merr = mock.SignProposal(m.chain, p)
					msig = p.Signature
					if !types.VerifySignature(addr, h, msig) {
						verr = types.ErrVoteInvalidSignature
					}
				}
			})
			o.Count(fmt.Sprintf("mockpv.broken.%v", broken))
			switch {
			case pan || merr != nil:
				o.Fail(step, "sign-error", fmt.Sprintf("MockPV signing failed (panic=%v): %v", pan, merr))
			case !broken && verr != nil:
				o.Fail(step, "sign-then-verify", "MockPV's signature is rejected for the message it signed")
			case broken && verr == nil && m.chain != "1" && m.chain != "1000":
				o.Fail(step, "mutation-accepted", "MockPV with broken signing (other chain id) produced a signature that verifies for chain "+m.chain)
			}
		}
	}
	verify := func(mm vmsg, a, va common.Address, s []byte) string {
		step++
		if isVote {
			return opVV(o, mm, a, va, s)
		}
		return opPV(o, mm, a, s)
	}
	// sign then verify
	if res := verify(m, addr, addr, sig); res != "ok" {
		o.Fail(step, "sign-then-verify", "the signer's own signature is rejected: "+res)
	}
	// under another signer
	other := addrs[(k+1+r.Intn(len(keys)-1))%len(keys)]
	if res := verify(m, other, other, sig); res == "ok" {
		o.Fail(step, "other-signer-accepted", "signature by "+addr.Hex()+" verified under "+other.Hex())
	}
	if isVote {
		if res := verify(m, addr, other, sig); res != "addr" {
			o.Fail(step, "validator-address-unchecked", "vote carrying another validator address got "+res)
		}
	}
	sigShape := ""
	// every single-field mutation, verified with the original signature
	for _, mu := range mutations(r, isVote) {
		mm := m
		if !mu.f(&mm) {
			continue
		}
		o.Count("mut." + kind + "." + mu.name)
		step++
		var mb []byte
		var mok bool
		if isVote {
			mb, mok = opVB(o, mm, false)
		} else {
			mb, mok = opPB(o, mm, false)
		}
		if !mok {
			o.Fail(step, "signbytes-panic", "sign bytes panicked on mutated message "+mu.name)
			continue
		}
		if string(mb) == string(base) {
			o.Fail(step, "signbytes-collision", fmt.Sprintf("mutation %s leaves the %s sign bytes unchanged: %s vs %s", mu.name, kind, m.voteTok(), mm.voteTok()))
		}
		if res := verify(mm, addr, addr, sig); res == "ok" {
			o.Fail(step, "mutation-accepted", fmt.Sprintf("%s signature still verifies after mutation %s", kind, mu.name))
		}
		sigShape += mu.name[:1]
	}
	// vote <-> proposal cross use of the signature (same field values, vote type = 32 included)
	{
		step++
		x := m
		if isVote {
			xb, xok := opPB(o, x, false)
			if xok && string(xb) == string(base) {
				o.Fail(step, "vote-proposal-collision", "a vote and a proposal have identical sign bytes: "+m.voteTok())
			}
			if res := opPV(o, x, addr, sig); res == "ok" {
				o.Fail(step, "vote-sig-as-proposal", "a vote signature verifies as a proposal signature")
			}
		} else {
			for _, ty := range []int32{32, 1, 2} {
				x.ty = ty
				xb, xok := opVB(o, x, false)
				if xok && string(xb) == string(base) {
					o.Fail(step, "vote-proposal-collision", "a vote and a proposal have identical sign bytes: "+x.voteTok())
				}
				if res := opVV(o, x, addr, addr, sig); res == "ok" {
					o.Fail(step, "proposal-sig-as-vote", "a proposal signature verifies as a vote signature")
				}
			}
		}
	}
	// signature-level variations: malleated twin (valid ECDSA, registered as ideal), v+4 alias, wrong
	// recovery id, truncated / extended / empty, r+1
	{
		step++
		tw := twin(sig)
		regSig(o, tw, addr, h)
		res := verify(m, addr, addr, tw)
		o.Count("sig.twin." + res) // informational: vote/proposal signatures have no low-s rule
		al := cp(sig)
		al[64] += 4
		o.Count("sig.v+4." + verify(m, addr, addr, al))
		fl := cp(sig)
		fl[64] ^= 1
		if verify(m, addr, addr, fl) == "ok" {
			o.Fail(step, "wrong-recid-accepted", "signature with flipped recovery id verifies")
		}
		for _, s := range [][]byte{sig[:64], append(cp(sig), 0), {}, sig[:1]} {
			if verify(m, addr, addr, s) == "ok" {
				o.Fail(step, "bad-length-accepted", fmt.Sprintf("signature of length %d verifies", len(s)))
			}
		}
		r1 := cp(sig)
		r1[31] ^= 1
		if verify(m, addr, addr, r1) == "ok" {
			o.Fail(step, "mutated-r-accepted", "signature with changed r verifies")
		}
	}
	o.Mark(fmt.Sprintf("%s|ty%d|h%d|r%d|z%v|c%d|%s", kind, m.ty, bitlen(m.height), bitlen(uint64(m.round)), zeroBid(m), len(m.chain), sigShape))
}

func zeroBid(m vmsg) bool { b := m.typesBid(); return b.IsZero() }

func bitlen(x uint64) int { return new(big.Int).SetUint64(x).BitLen() }

// proto-level sign bytes (raw hash lengths, out-of-range timestamps): model correspondence only
func caseProtoLevel(o *out.Out, r *gen.Rand, c int) {
	o.Case(c, fmt.Sprintf("CASE %d protolevel", c))
	o.Count("case.protolevel")
	for i := 0; i < 6; i++ {
		step = i
		isVote := r.Bool()
		m := genMsg(r, isVote)
		lens := []int{0, 1, 2, 20, 31, 32, 33, 40}
		m.b.hash = r.Bytes(lens[r.Intn(len(lens))])
		m.b.phash = r.Bytes(lens[r.Intn(len(lens))])
		if r.Chance(1, 3) {
			for j := range m.b.hash {
				m.b.hash[j] = 0
			}
		}
		if r.Chance(1, 3) {
			for j := range m.b.phash {
				m.b.phash[j] = 0
			}
		}
		if r.Chance(1, 4) { // timestamp outside the protobuf range: the marshaller errors, SignBytes panics
			m.secs = []int64{-62135596801, 253402300800, 1 << 40, -(1 << 40)}[r.Intn(4)]
			o.Count("protolevel.badtime")
		}
		if isVote {
			opVB(o, m, true)
		} else {
			opPB(o, m, true)
		}
	}
	// a timestamp outside the range cannot arrive in a decoded vote: Unmarshal rejects it
	ts := append([]byte{0x08}, uvarint(uint64(253402300800+int64(r.Intn(1000))))...)
	raw := append([]byte{0x2a, byte(len(ts))}, ts...)
	var pvote kproto.Vote
	if err := pvote.Unmarshal(raw); err == nil {
		o.Fail(0, "bad-timestamp-decodes", "kproto.Vote.Unmarshal accepted a timestamp outside the valid range: "+hx(raw))
	}
	o.Mark("protolevel")
}

func uvarint(v uint64) []byte {
	var b []byte
	for v >= 0x80 {
		b = append(b, byte(v)|0x80)
		v >>= 7
	}
	return append(b, byte(v))
}

// ---------------------------------------------------------------- transactions

type txf struct {
	nonce   uint64
	price   *big.Int
	gas     uint64
	to      *common.Address
	amount  *big.Int
	payload []byte
	v, r, s *big.Int
}

func (t txf) clone() txf {
	c := t
	c.price, c.amount = new(big.Int).Set(t.price), new(big.Int).Set(t.amount)
	c.v, c.r, c.s = new(big.Int).Set(t.v), new(big.Int).Set(t.r), new(big.Int).Set(t.s)
	c.payload = cp(t.payload)
	if t.to != nil {
		a := *t.to
		c.to = &a
	}
	return c
}

// build the real Transaction by RLP-decoding the nine-item list, as a peer's bytes would be
func (t txf) build() (*types.Transaction, error) {
	var to interface{} = []byte{}
	if t.to != nil {
		to = t.to[:]
	}
	enc, err := rlp.EncodeToBytes([]interface{}{t.nonce, t.price, t.gas, to, t.amount, t.payload, t.v, t.r, t.s})
	if err != nil {
		return nil, err
	}
	tx := new(types.Transaction)
	if err := rlp.DecodeBytes(enc, tx); err != nil {
		return nil, err
	}
	return tx, nil
}

func (t txf) toTok() string {
	if t.to == nil {
		return "nil"
	}
	return hex.EncodeToString(t.to[:])
}
func (t txf) fieldsTok() string {
	return fmt.Sprintf("%d %s %d %s %s %s", t.nonce, t.price, t.gas, t.toTok(), t.amount, hx(t.payload))
}

type sgn struct {
	chain    *big.Int // nil: Homestead
	frontier bool     // FrontierSigner (Sender is textually HomesteadSigner's): model token "F"
	viaNil   bool     // chain id 0 built as NewChainIDSigner(nil)
}

func (s sgn) real() types.Signer {
	if s.frontier {
		return types.FrontierSigner{}
	}
	if s.chain == nil {
		return types.HomesteadSigner{}
	}
	if s.viaNil && s.chain.Sign() == 0 {
		return types.NewChainIDSigner(nil)
	}
	return types.NewChainIDSigner(s.chain)
}
func (s sgn) tok() string {
	if s.frontier {
		return "F"
	}
	if s.chain == nil {
		return "H"
	}
	return "C:" + s.chain.String()
}

func pickBig(r *gen.Rand) *big.Int {
	switch r.Pick(2, 3, 3, 2, 1) {
	case 0:
		return new(big.Int)
	case 1:
		return big.NewInt(int64(1 + r.Intn(1000)))
	case 2:
		return new(big.Int).SetUint64([]uint64{127, 128, 255, 256, 65535, 65536, 1<<63 - 1, 1<<64 - 1}[r.Intn(8)])
	case 3:
		return new(big.Int).SetBytes(r.Bytes(1 + r.Intn(32)))
	}
	return new(big.Int).Sub(new(big.Int).Lsh(big.NewInt(1), 256), big.NewInt(1))
}

func genPayload(r *gen.Rand) []byte {
	switch r.Pick(3, 1, 1, 1, 2, 1, 1, 1) {
	case 0:
		return nil
	case 1:
		return []byte{0}
	case 2:
		return []byte{0x7f}
	case 3:
		return []byte{0x80}
	case 4:
		return r.Bytes(1 + r.Intn(54))
	case 5:
		return r.Bytes(55)
	case 6:
		return r.Bytes(56)
	}
	return r.Bytes(200 + r.Intn(200))
}

var chainIDs = []string{"0", "1", "2", "24", "69", "4294967301", "9223372036854775807", "9223372036854775790", "18446744073709551616", "340282366920938463463374607431768211455"}

func genSigner(r *gen.Rand) sgn {
	if r.Chance(1, 3) {
		return sgn{}
	}
	c, _ := new(big.Int).SetString(chainIDs[r.Pick(1, 4, 2, 3, 1, 1, 1, 1, 1, 1)], 10)
	return sgn{chain: c, viaNil: r.Bool()}
}

func genTx(r *gen.Rand) txf {
	t := txf{nonce: pickU64(r), price: pickBig(r), gas: pickU64(r), amount: pickBig(r), payload: genPayload(r),
		v: new(big.Int), r: new(big.Int), s: new(big.Int)}
	switch r.Pick(2, 1, 5) {
	case 0:
	case 1:
		t.to = &common.Address{}
	case 2:
		a := common.BytesToAddress(r.Bytes(20))
		t.to = &a
	}
	return t
}

// independent construction of the signing preimage (harness-side reference) — compared with the
// model's bytes and, through Keccak, with the real Signer.Hash
func refPreimage(s sgn, t txf) []byte {
	var to interface{} = []byte{}
	if t.to != nil {
		to = t.to[:]
	}
	items := []interface{}{t.nonce, t.price, t.gas, to, t.amount, t.payload}
	if s.chain != nil {
		items = append(items, s.chain, uint(0), uint(0))
	}
	b, err := rlp.EncodeToBytes(items)
	if err != nil {
		panic(err)
	}
	return b
}

func opTP(o *out.Out, s sgn, t txf) common.Hash {
	tx, err := t.build()
	if err != nil {
		panic(err)
	}
	var h common.Hash
	pan := catch(func() { h = s.real().Hash(tx) })
	pre := refPreimage(s, t)
	obs := fmt.Sprintf("tp %s %s", hx(h[:]), hx(pre))
	if pan {
		obs = "tp PANIC"
		o.Fail(step, "hash-panic", "Signer.Hash panicked")
	} else if string(crypto.Keccak256(pre)) != string(h[:]) {
		o.Fail(step, "hash-preimage", "Signer.Hash is not Keccak of the RLP list of the signed fields: "+s.tok()+" "+t.fieldsTok())
	}
	o.Op(fmt.Sprintf("TP %s %s", s.tok(), t.fieldsTok()), obs)
	return h
}

// types.Sender on a freshly decoded transaction
func opSD(o *out.Out, s sgn, t txf) (string, common.Address) {
	var from common.Address
	var err error
	tx, berr := t.build()
	if berr != nil {
		panic(berr)
	}
	var from2 common.Address
	var err2 error
	pan := catch(func() {
		from, err = types.Sender(s.real(), tx)
		// asking the same object again (sender cache) must give the same answer: in particular a
		// failed derivation must not leave a zero address behind that a later call returns without error
		from2, err2 = types.Sender(s.real(), tx)
	})
	if !pan && ((err == nil) != (err2 == nil) || from != from2) {
		o.Fail(step, "sender-cache-stale", fmt.Sprintf("second Sender call on the same transaction under %s returns (%s, %v) after (%s, %v); V=%s", s.tok(), from2.Hex(), err2, from.Hex(), err, t.v))
	}
	res := ""
	switch {
	case pan:
		res = "PANIC"
		o.Fail(step, "sender-panic", "types.Sender panicked: "+s.tok()+" "+t.fieldsTok()+fmt.Sprintf(" v=%s r=%s s=%s", t.v, t.r, t.s))
	case err == types.ErrInvalidChainId:
		res = "chainid"
	case err == types.ErrInvalidSig:
		res = "invalidsig"
	case err != nil:
		res = "other"
	case known[from]:
		res = "ok:" + anum(from)
	default:
		res = "other"
	}
	o.Op(fmt.Sprintf("SD %s %s %s %s %s", s.tok(), t.fieldsTok(), t.v, t.r, t.s), "sd "+res)
	return res, from
}

// types.Sender on a freshly decoded transaction, class only (no operation line)
func senderClass(s sgn, t txf) (string, common.Address) {
	var from common.Address
	var err error
	tx, berr := t.build()
	if berr != nil {
		panic(berr)
	}
	switch {
	case catch(func() { from, err = types.Sender(s.real(), tx) }):
		return "PANIC", from
	case err == types.ErrInvalidChainId:
		return "chainid", from
	case err == types.ErrInvalidSig:
		return "invalidsig", from
	case err != nil:
		return "other", from
	case known[from]:
		return "ok:" + anum(from), from
	}
	return "other", from
}

type txmut struct {
	name string
	f    func(t *txf) bool
}

func txMutations(r *gen.Rand) []txmut {
	return []txmut{
		{"nonce.inc", func(t *txf) bool { t.nonce++; return true }},
		{"nonce.zero", func(t *txf) bool {
			if t.nonce == 0 {
				return false
			}
			t.nonce = 0
			return true
		}},
		{"price.inc", func(t *txf) bool { t.price.Add(t.price, big.NewInt(1)); return true }},
		{"price.shl8", func(t *txf) bool {
			if t.price.Sign() == 0 {
				return false
			}
			t.price.Lsh(t.price, 8)
			return true
		}},
		{"gas.inc", func(t *txf) bool { t.gas++; return true }},
		{"swap.nonce.gas", func(t *txf) bool {
			if t.nonce == t.gas {
				return false
			}
			t.nonce, t.gas = t.gas, t.nonce
			return true
		}},
		{"swap.price.amount", func(t *txf) bool {
			if t.price.Cmp(t.amount) == 0 {
				return false
			}
			t.price, t.amount = t.amount, t.price
			return true
		}},
		{"to.nil", func(t *txf) bool {
			if t.to == nil {
				return false
			}
			t.to = nil
			return true
		}},
		{"to.flip", func(t *txf) bool {
			if t.to == nil {
				a := common.Address{}
				t.to = &a
				return true
			}
			t.to[19] ^= 1
			return true
		}},
		{"amount.inc", func(t *txf) bool { t.amount.Add(t.amount, big.NewInt(1)); return true }},
		{"amount.zero", func(t *txf) bool {
			if t.amount.Sign() == 0 {
				return false
			}
			t.amount.SetInt64(0)
			return true
		}},
		{"payload.append", func(t *txf) bool { t.payload = append(t.payload, 0); return true }},
		{"payload.flip", func(t *txf) bool {
			if len(t.payload) == 0 {
				return false
			}
			t.payload[len(t.payload)/2] ^= 0x10
			return true
		}},
		{"payload.drop", func(t *txf) bool {
			if len(t.payload) == 0 {
				return false
			}
			t.payload = t.payload[:len(t.payload)-1]
			return true
		}},
		{"amount->payload", func(t *txf) bool { // move the amount bytes into the payload
			if t.amount.Sign() == 0 || len(t.payload) != 0 {
				return false
			}
			t.payload = t.amount.Bytes()
			t.amount = new(big.Int)
			return true
		}},
		{"r.inc", func(t *txf) bool { t.r.Add(t.r, big.NewInt(1)); return true }},
		{"s.inc", func(t *txf) bool { t.s.Add(t.s, big.NewInt(1)); return true }},
		{"swap.r.s", func(t *txf) bool { t.r, t.s = t.s, t.r; return true }},
		{"s.plusN", func(t *txf) bool { t.s.Add(t.s, curveN); return true }},       // same scalar modulo N
		{"r.plusN", func(t *txf) bool { t.r.Add(t.r, curveN); return true }},
		{"s.plus2^256", func(t *txf) bool { t.s.Add(t.s, new(big.Int).Lsh(big.NewInt(1), 256)); return true }}, // same low 32 bytes
		{"r.plus2^256", func(t *txf) bool { t.r.Add(t.r, new(big.Int).Lsh(big.NewInt(1), 256)); return true }},
		{"v.parity", func(t *txf) bool { // 27<->28, 35+2c <-> 36+2c
			if t.v.Bit(0) == 1 {
				t.v.Add(t.v, big.NewInt(1))
			} else {
				t.v.Sub(t.v, big.NewInt(1))
			}
			return true
		}},
	}
}

func caseTx(o *out.Out, r *gen.Rand, c int) {
	o.Case(c, fmt.Sprintf("CASE %d tx", c))
	o.Count("case.tx")
	t := genTx(r)
	s := genSigner(r)
	k := r.Intn(len(keys))
	addr := addrs[k]
	o.Count("tx.signer." + s.tok()[:1])
	step = 0
	opTP(o, sgn{}, t)
	h := opTP(o, s, t)

	// sign with the real types.SignTx
	base, err := t.build()
	if err != nil {
		panic(err)
	}
	var stx *types.Transaction
	if catch(func() { stx, err = types.SignTx(s.real(), base, keys[k]) }) || err != nil {
		o.Fail(step, "signtx-error", fmt.Sprintf("types.SignTx failed: %v", err))
		return
	}
	v, rr, ss := stx.RawSignatureValues()
	t.v, t.r, t.s = new(big.Int).Set(v), new(big.Int).Set(rr), new(big.Int).Set(ss)
	// ideal signature: produced by addr over the hash the signer's SignTx actually signed.  The
	// recovery id is V's parity complement: V = 27+id or 35+2c+id.
	recid := byte(1 - v.Bit(0))
	sig65 := make([]byte, 65)
	rb, sb := rr.Bytes(), ss.Bytes()
	copy(sig65[32-len(rb):32], rb)
	copy(sig65[64-len(sb):64], sb)
	sig65[64] = recid
	// which hash did SignTx sign?  (found by real recovery, not assumed)
	signedHash := []byte(nil)
	hh := sgn{}.real().Hash(base)
	for _, cand := range [][]byte{h[:], hh[:]} {
		if types.VerifySignature(addr, cand, sig65) {
			signedHash = cand
			break
		}
	}
	if signedHash == nil {
		o.Fail(step, "signtx-unknown-hash", "types.SignTx signed neither the signer's hash nor the Homestead hash")
		return
	}
	regSig(o, sig65, addr, signedHash)
	// what SignTx signed and the V it produced (model: signtx_preimage / signature_v)
	o.Op(fmt.Sprintf("SH %s %s %d", s.tok(), t.fieldsTok(), recid), fmt.Sprintf("sh %s %s", hx(signedHash), v))

	// sign then recover
	step++
	res, from := opSD(o, s, t)
	if res != "ok:"+anum(addr) {
		o.Fail(step, "signtx-wrong-sender", fmt.Sprintf("SignTx then Sender under the same signer %s (chainid=%s) returned %s (%s) instead of the signer %s; tx %s",
			s.tok(), s.tok()[1:], res, from.Hex(), addr.Hex(), t.fieldsTok()))
	}
	protected := stx.Protected()
	o.Count(fmt.Sprintf("tx.protected.%v", protected))
	// FrontierSigner.Sender applies the same rules as HomesteadSigner.Sender (same hash, homestead = true)
	{
		step++
		fres, _ := opSD(o, sgn{frontier: true}, t)
		hres, _ := senderClass(sgn{}, t)
		if fres != hres {
			o.Fail(step, "frontier-differs", fmt.Sprintf("FrontierSigner.Sender gives %s but HomesteadSigner.Sender gives %s", fres, hres))
		}
	}

	// the same signed tx under every other signer
	others := []sgn{{}}
	for _, cs := range []string{"0", "1", "2", "24", "69", "4294967301"} {
		cc, _ := new(big.Int).SetString(cs, 10)
		others = append(others, sgn{chain: cc})
	}
	if s.chain != nil {
		others = append(others, sgn{chain: new(big.Int).Add(s.chain, big.NewInt(1))}, sgn{chain: new(big.Int).Add(s.chain, new(big.Int).Lsh(big.NewInt(1), 63))})
	}
	for _, os := range others {
		if os.tok() == s.tok() {
			continue
		}
		step++
		ores, ofrom := opSD(o, os, t)
		// the same *object* that already cached its sender under signer s must not serve it to another signer
		var cfrom common.Address
		var cerr error
		if !catch(func() { types.Sender(s.real(), stx); cfrom, cerr = types.Sender(os.real(), stx) }) {
			fresh := strings.HasPrefix(ores, "ok:") || ores == "other" && ofrom != (common.Address{})
			if (cerr == nil) != fresh || (cerr == nil && cfrom != ofrom) {
				o.Fail(step, "sender-cache-stale", fmt.Sprintf("Sender on a cached tx object under %s gives (%s, %v) but a fresh decode gives %s", os.tok(), cfrom.Hex(), cerr, ores))
			}
		} else {
			o.Fail(step, "sender-panic", "types.Sender panicked on a cached tx object")
		}
		if protected {
			if os.chain != nil && ores != "chainid" {
				o.Fail(step, "chainid-not-bound", fmt.Sprintf("tx signed for %s under signer %s: %s (want ErrInvalidChainId)", s.tok(), os.tok(), ores))
			}
			if strings.HasPrefix(ores, "ok:") {
				o.Fail(step, "chainid-not-bound", fmt.Sprintf("tx signed for %s yields a known sender under signer %s", s.tok(), os.tok()))
			}
		} else {
			o.Count("tx.unprotected.under." + os.tok()[:1] + "." + strings.SplitN(ores, ":", 2)[0])
		}
	}

	// every single-field mutation keeps the signature: must not recover the signer
	shape := ""
	for _, mu := range txMutations(r) {
		mt := t.clone()
		if !mu.f(&mt) {
			continue
		}
		o.Count("mut.tx." + mu.name)
		step++
		opTP(o, s, mt)
		mres, _ := opSD(o, s, mt)
		if mres == "ok:"+anum(addr) {
			o.Fail(step, "mutation-accepted", fmt.Sprintf("tx mutation %s still recovers the signer under %s", mu.name, s.tok()))
		}
		if strings.Contains(mu.name, ".plus") && mres != "invalidsig" {
			o.Fail(step, "malformed-values-accepted", fmt.Sprintf("tx mutation %s (value >= N) is not rejected with ErrInvalidSig under %s: %s", mu.name, s.tok(), mres))
		}
		shape += mu.name[:1]
	}
	// high-s twin: (r, N-s, flipped parity) is a valid ECDSA signature of the same hash; must be rejected
	{
		step++
		tw := t.clone()
		tw.s.Sub(curveN, t.s)
		if tw.v.Bit(0) == 1 {
			tw.v.Add(tw.v, big.NewInt(1))
		} else {
			tw.v.Sub(tw.v, big.NewInt(1))
		}
		t65 := twin(sig65)
		regSig(o, t65, addr, signedHash)
		tres, _ := opSD(o, s, tw)
		if tres != "invalidsig" {
			o.Fail(step, "high-s-accepted", "transaction with the malleated high-s signature is not rejected with ErrInvalidSig: "+tres)
		}
		if !protected { // the unprotected twin (V = 27/28) under the Frontier rules as well
			step++
			if fres, _ := opSD(o, sgn{frontier: true}, tw); fres != "invalidsig" {
				o.Fail(step, "high-s-accepted", "FrontierSigner accepts the malleated high-s signature: "+fres)
			}
		}
	}
	// V from another chain id with the same parity
	if s.chain != nil && protected {
		step++
		ov := t.clone()
		ov.v.Add(ov.v, big.NewInt(2))
		ores, _ := opSD(o, s, ov)
		if ores != "chainid" {
			o.Fail(step, "chainid-not-bound", "V of chain id+1 under signer "+s.tok()+": "+ores)
		}
	}
	// V aliases: the genuine (R, S) with a V outside the signer's exact set {27,28} / {35+2c,36+2c}
	// (V + k*256, V + 2^64, tiny values) must be rejected and must never recover the signer under a
	// second transaction hash
	{
		origHash := stx.Hash()
		for _, av := range vAliases(t.v) {
			at := t.clone()
			at.v = av
			atx, aerr := at.build()
			if aerr != nil {
				panic(aerr)
			}
			var derived *big.Int
			catch(func() { derived = atx.ChainId() })
			signers := []sgn{s, {}}
			if derived != nil && derived.Sign() >= 0 && derived.BitLen() <= 200 {
				signers = append(signers, sgn{chain: derived})
			}
			seen := map[string]bool{}
			for _, as := range signers {
				if seen[as.tok()] {
					continue
				}
				seen[as.tok()] = true
				step++
				o.Count("tx.valias")
				ares, _ := opSD(o, as, at)
				if !legitV(as, av) && ares != "invalidsig" && ares != "chainid" {
					o.Fail(step, "malformed-values-accepted", fmt.Sprintf("Sender under %s did not reject V=%s (genuine V=%s, genuine R,S): %s", as.tok(), av, t.v, ares))
				}
				if ares == "ok:"+anum(addr) && atx.Hash() != origHash {
					o.Fail(step, "tx-malleable-v", fmt.Sprintf("same (R,S) with V=%s instead of %s recovers the same sender under %s for a second tx hash %s (original %s)", av, t.v, as.tok(), atx.Hash().Hex(), origHash.Hex()))
				}
			}
		}
	}
	// re-target V to another signer while keeping (r, s, recid): the hash must bind the chain id
	{
		targets := []sgn{{}}
		for _, cs := range []string{"0", "1", "24"} {
			cc, _ := new(big.Int).SetString(cs, 10)
			targets = append(targets, sgn{chain: cc})
		}
		if s.chain != nil {
			targets = append(targets, sgn{chain: new(big.Int).Add(s.chain, big.NewInt(1))})
		}
		for _, ts := range targets {
			// chain id 0 and Homestead both mean "unprotected": same hash as each other
			unprotT := ts.chain == nil || ts.chain.Sign() == 0
			unprotS := s.chain == nil || s.chain.Sign() == 0
			if ts.tok() == s.tok() || (unprotT && unprotS) {
				continue
			}
			step++
			rt := t.clone()
			if unprotT {
				rt.v = big.NewInt(27 + int64(recid))
			} else {
				rt.v = new(big.Int).Add(new(big.Int).Mul(ts.chain, big.NewInt(2)), big.NewInt(35+int64(recid)))
			}
			o.Count("tx.retarget")
			rres, _ := opSD(o, ts, rt)
			if rres == "ok:"+anum(addr) {
				o.Fail(step, "chainid-not-in-hash", fmt.Sprintf("signature made under %s re-targeted (V=%s) to signer %s still recovers the signer", s.tok(), rt.v, ts.tok()))
			}
		}
	}
	o.Mark(fmt.Sprintf("tx|%s|n%d|p%d|g%d|to%v|a%d|d%d|%s", s.tok(), bitlen(t.nonce), t.price.BitLen(), bitlen(t.gas), t.to != nil, t.amount.BitLen(), len(t.payload), shape))
}

// V values congruent to v modulo 256 (and other out-of-range neighbours)
func vAliases(v *big.Int) []*big.Int {
	var l []*big.Int
	for _, k := range []uint64{1, 2, 255, 1 << 24, 1 << 55} {
		l = append(l, new(big.Int).Add(v, new(big.Int).Lsh(new(big.Int).SetUint64(k), 8)))
	}
	l = append(l, new(big.Int).Add(v, new(big.Int).Lsh(big.NewInt(1), 64)), // >= 2^64
		new(big.Int).Add(v, new(big.Int).Lsh(big.NewInt(1), 72)))
	if v.Cmp(big.NewInt(256)) >= 0 {
		l = append(l, new(big.Int).Sub(v, big.NewInt(256)))
	}
	for _, x := range []int64{0, 1, 26, 29} {
		l = append(l, big.NewInt(x))
	}
	return l
}

// the exact V values a signer may accept
func legitV(s sgn, v *big.Int) bool {
	if v.Cmp(big.NewInt(27)) == 0 || v.Cmp(big.NewInt(28)) == 0 {
		return true
	}
	if s.chain == nil {
		return false
	}
	base := new(big.Int).Add(new(big.Int).Mul(s.chain, big.NewInt(2)), big.NewInt(35))
	d := new(big.Int).Sub(v, base)
	return d.Sign() >= 0 && d.Cmp(big.NewInt(1)) <= 0
}

// ---------------------------------------------------------------- dual events (the other recoverPlain caller)

func eventSigHash(de *types.DualEvent) []byte {
	b, err := rlp.EncodeToBytes([]interface{}{de.BlockNumber, de.TriggeredEvent, de.PendingTxMetadata, de.KardiaSmcs})
	if err != nil {
		panic(err)
	}
	return crypto.Keccak256(b)
}

func opRP(o *out.Out, de *types.DualEvent, h []byte) string {
	cpy := &types.DualEvent{BlockNumber: de.BlockNumber, TriggeredEvent: de.TriggeredEvent, PendingTxMetadata: de.PendingTxMetadata,
		KardiaSmcs: de.KardiaSmcs, V: de.V, R: de.R, S: de.S}
	var from common.Address
	var err error
	res := ""
	switch {
	case catch(func() { from, err = types.EventSender(cpy) }):
		res = "PANIC"
		o.Fail(step, "sender-panic", "types.EventSender panicked")
	case err == types.ErrInvalidSig:
		res = "invalidsig"
	case err != nil:
		res = "other"
	case known[from]:
		res = "ok:" + anum(from)
	default:
		res = "other"
	}
	o.Op(fmt.Sprintf("RP %s %s %s %s", hx(h), de.R, de.S, de.V), "rp "+res)
	return res
}

func caseDualEvent(o *out.Out, r *gen.Rand, c int) {
	o.Case(c, fmt.Sprintf("CASE %d dualevent", c))
	o.Count("case.dualevent")
	k := r.Intn(len(keys))
	addr := addrs[k]
	de := &types.DualEvent{BlockNumber: pickU64(r),
		TriggeredEvent: &types.EventData{TxHash: common.BytesToHash(r.Bytes(32)), TxSource: types.BlockchainSymbol("ETH"), FromExternal: r.Bool(), Data: genPayload(r), Actions: []string{"a"}},
		V: new(big.Int), R: new(big.Int), S: new(big.Int)}
	var sde *types.DualEvent
	var err error
	if catch(func() { sde, err = types.SignEvent(de, keys[k]) }) || err != nil {
		o.Fail(0, "signevent-error", fmt.Sprintf("types.SignEvent failed: %v", err))
		return
	}
	h := eventSigHash(sde)
	sig65 := mk65(sde.R, sde.S, byte(1-sde.V.Bit(0)))
	if !types.VerifySignature(addr, h, sig65) {
		o.Fail(0, "signevent-unknown-hash", "types.SignEvent did not sign Keccak(RLP[blockNumber, triggeredEvent, pendingTxMetadata, kardiaSmcs])")
		return
	}
	regSig(o, sig65, addr, h)
	regSig(o, twin(sig65), addr, h)
	step = 1
	if res := opRP(o, sde, h); res != "ok:"+anum(addr) {
		o.Fail(step, "signevent-wrong-sender", "SignEvent then EventSender returned "+res)
	}
	genuineV := new(big.Int).Set(sde.V)
	for _, av := range vAliases(genuineV) {
		step++
		o.Count("event.valias")
		m := *sde
		m.V = av
		res := opRP(o, &m, h)
		if res != "invalidsig" {
			o.Fail(step, "malformed-values-accepted", fmt.Sprintf("EventSender did not reject V=%s (genuine V=%s, genuine R,S): %s", av, genuineV, res))
		}
		if res == "ok:"+anum(addr) {
			o.Fail(step, "tx-malleable-v", fmt.Sprintf("dual event: same (R,S) with V=%s instead of %s recovers the same sender", av, genuineV))
		}
	}
	{ // high-s twin
		step++
		m := *sde
		m.S = new(big.Int).Sub(curveN, sde.S)
		m.V = big.NewInt(27 + int64(sde.V.Bit(0))) // flipped parity: 27<->28
		if res := opRP(o, &m, h); res != "invalidsig" {
			o.Fail(step, "high-s-accepted", "dual event with the malleated high-s signature is not rejected: "+res)
		}
	}
	{ // content mutation keeps the signature
		step++
		m := *sde
		m.BlockNumber++
		mh := eventSigHash(&m)
		if res := opRP(o, &m, mh); res == "ok:"+anum(addr) {
			o.Fail(step, "mutation-accepted", "dual event with changed block number still recovers the signer")
		}
	}
	o.Mark(fmt.Sprintf("dualevent|b%d|d%d", bitlen(de.BlockNumber), len(de.TriggeredEvent.Data)))
}

// ---------------------------------------------------------------- signature shapes

func shapeVals() []*big.Int {
	n := curveN
	one := big.NewInt(1)
	return []*big.Int{
		new(big.Int), big.NewInt(1), big.NewInt(2),
		new(big.Int).Set(halfN), new(big.Int).Add(halfN, one), new(big.Int).Sub(halfN, one),
		new(big.Int).Sub(n, one), new(big.Int).Set(n), new(big.Int).Add(n, one),
		new(big.Int).Sub(new(big.Int).Lsh(one, 256), one),
	}
}

func mk65(r, s *big.Int, v byte) []byte {
	sig := make([]byte, 65)
	rb, sb := r.Bytes(), s.Bytes()
	copy(sig[32-len(rb):32], rb)
	copy(sig[64-len(sb):64], sb)
	sig[64] = v
	return sig
}

func caseShapes(o *out.Out, r *gen.Rand, c int) {
	o.Case(c, fmt.Sprintf("CASE %d shapes", c))
	o.Count("case.shapes")
	vals := shapeVals()
	addr := addrs[r.Intn(len(addrs))]
	hash := crypto.Keccak256(r.Bytes(8))
	vs := []byte{0, 1, 2, 3, 4, 5, 6, 7, 27, 28, 31, 255}
	t := genTx(r)
	step = 0
	for i := 0; i < 24; i++ {
		step = i
		var rv, sv *big.Int
		if r.Chance(3, 4) {
			rv, sv = vals[r.Intn(len(vals))], vals[r.Intn(len(vals))]
		} else {
			rv, sv = new(big.Int).SetBytes(r.Bytes(32)), new(big.Int).SetBytes(r.Bytes(1+r.Intn(32)))
		}
		v := vs[r.Intn(len(vs))]
		o.Count("shape.v." + fmt.Sprint(v))
		// VerifySignature (votes / proposals path)
		if opVS(o, addr, hash, mk65(rv, sv, v)) == "1" {
			o.Fail(step, "garbage-signature-accepted", "VerifySignature accepted a structured garbage signature")
		}
		// SigToPub / Ecrecover must refuse r, s outside [1, N-1] with an error (no panic, no key)
		if rv.Sign() == 0 || sv.Sign() == 0 || rv.Cmp(curveN) >= 0 || sv.Cmp(curveN) >= 0 {
			opSP(o, hash, mk65(rv, sv, v), true)
		}
		// ValidateSignatureValues against an independent statement of the rule
		for _, hs := range []bool{true, false} {
			var got bool
			pan := catch(func() { got = crypto.ValidateSignatureValues(v, rv, sv, hs) })
			want := rv.Sign() > 0 && sv.Sign() > 0 && rv.Cmp(curveN) < 0 && sv.Cmp(curveN) < 0 && (v == 0 || v == 1) && (!hs || sv.Cmp(halfN) <= 0)
			obs := "sv " + b01(got)
			if pan {
				obs = "sv PANIC"
				o.Fail(step, "validate-panic", "ValidateSignatureValues panicked")
			} else if got != want {
				o.Fail(step, "sig-values-rule", fmt.Sprintf("ValidateSignatureValues(v=%d, r=%s, s=%s, homestead=%v) = %v, want %v", v, rv, sv, hs, got, want))
			}
			o.Op(fmt.Sprintf("SV %d %s %s %s", v, rv, sv, b01(hs)), obs)
		}
		// as transaction signature values under both signer kinds
		tt := t.clone()
		tt.r, tt.s = rv, sv
		s := genSigner(r)
		switch {
		case s.chain == nil || r.Chance(1, 4):
			tt.v = big.NewInt(int64(v) + 27)
		default:
			tt.v = new(big.Int).Add(new(big.Int).Mul(s.chain, big.NewInt(2)), big.NewInt(int64(v)+35))
		}
		if r.Chance(1, 8) {
			tt.v = new(big.Int).SetUint64([]uint64{0, 1, 26, 29, 34, 35, 36, 255, 256, 1 << 63, 1<<64 - 1}[r.Intn(11)])
		}
		if r.Chance(1, 4) { // V congruent to a legitimate value modulo 256 / 2^64
			al := vAliases(tt.v)
			tt.v = al[r.Intn(len(al))]
		}
		res, _ := opSD(o, s, tt)
		valid := rv.Sign() > 0 && sv.Sign() > 0 && rv.Cmp(curveN) < 0 && sv.Cmp(halfN) <= 0
		if !valid && res != "invalidsig" && res != "chainid" {
			o.Fail(step, "malformed-values-accepted", fmt.Sprintf("Sender did not reject r=%s s=%s V=%s: %s", rv, sv, tt.v, res))
		}
		if strings.HasPrefix(res, "ok:") {
			o.Fail(step, "garbage-signature-accepted", "Sender recovered a known key from garbage values")
		}
	}
	// all lengths 0..70 through VerifySignature
	buf := r.Bytes(71)
	for l := 0; l <= 70; l++ {
		step = 100 + l
		sg := cp(buf[:l])
		if l == 65 {
			sg[64] = byte(r.Intn(2))
		}
		if opVS(o, addr, hash, sg) == "1" {
			o.Fail(step, "garbage-signature-accepted", fmt.Sprintf("VerifySignature accepted random bytes of length %d", l))
		}
		if l != 65 && (l < 8 || l > 60) {
			opSP(o, hash, sg, true)
		}
	}
	// Protected / ChainId of V values (deriveChainId including its uint64 wrap below 35)
	for i := 0; i < 6; i++ {
		step = 200 + i
		var v *big.Int
		switch r.Pick(3, 2, 1, 2) {
		case 0:
			v = big.NewInt(int64(r.Intn(80)))
		case 1:
			v = new(big.Int).SetUint64(r.U64())
		case 2:
			v = new(big.Int).Add(new(big.Int).Lsh(big.NewInt(1), 64), big.NewInt(int64(r.Intn(100))))
		case 3:
			v = new(big.Int).SetUint64([]uint64{255, 256, 1<<64 - 1, 1 << 63, 26, 27, 28, 29, 34, 35, 36, 37}[r.Intn(12)])
		}
		tt := t.clone()
		tt.v = v
		tx, err := tt.build()
		if err != nil {
			panic(err)
		}
		var prot bool
		var cid *big.Int
		obs := "dc PANIC"
		if !catch(func() { prot = tx.Protected(); cid = tx.ChainId() }) {
			obs = fmt.Sprintf("dc %s %s", b01(prot), cid)
			// independent statement: 27/28 are the only unprotected values and carry chain id 0;
			// V >= 35 carries floor((V-35)/2) (values below 35 are never produced by a signer)
			is2728 := v.Cmp(big.NewInt(27)) == 0 || v.Cmp(big.NewInt(28)) == 0
			if prot == is2728 {
				o.Fail(step, "protected-rule", fmt.Sprintf("Protected() = %v for V=%s", prot, v))
			}
			if is2728 && cid.Sign() != 0 {
				o.Fail(step, "derive-chainid", fmt.Sprintf("ChainId() = %s for V=%s, want 0", cid, v))
			}
			if v.Cmp(big.NewInt(35)) >= 0 {
				want := new(big.Int).Rsh(new(big.Int).Sub(v, big.NewInt(35)), 1)
				if cid.Cmp(want) != 0 {
					o.Fail(step, "derive-chainid", fmt.Sprintf("ChainId() = %s for V=%s, want %s", cid, v, want))
				}
			}
		} else {
			o.Fail(step, "chainid-panic", "Protected/ChainId panicked on V="+v.String())
		}
		o.Op("DC "+v.String(), obs)
	}
	o.Mark(fmt.Sprintf("shapes|%d", c%97))
}


// crypto.SigToPub / crypto.Ecrecover: "rej" = error, "key" = a public key.  Only called where the
// outcome is determined: malformed strings (wantRej) or signatures really produced by a key.
func opSP(o *out.Out, hash, sig []byte, wantRej bool) {
	var err, err2 error
	var pub *ecdsa.PublicKey
	var raw []byte
	res := "key"
	if catch(func() { pub, err = crypto.SigToPub(hash, sig); raw, err2 = crypto.Ecrecover(hash, sig) }) {
		res = "PANIC"
		o.Fail(step, "sigtopub-panic", fmt.Sprintf("crypto.SigToPub / Ecrecover panicked: hash=%s sig=%s", hx(hash), hx(sig)))
	} else {
		if err != nil {
			res = "rej"
		}
		if (err == nil) != (err2 == nil) || (err == nil && (pub == nil || len(raw) != 65)) {
			o.Fail(step, "sigtopub-range", fmt.Sprintf("SigToPub and Ecrecover disagree on sig=%s: %v / %v", hx(sig), err, err2))
		}
		if wantRej && err == nil {
			o.Fail(step, "sigtopub-range", fmt.Sprintf("SigToPub returned a key for a malformed signature (length %d, r or s outside [1,N-1]): %s", len(sig), hx(sig)))
		}
		if !wantRej && err != nil {
			o.Fail(step, "sign-then-verify", fmt.Sprintf("SigToPub refused a signature produced by crypto.Sign: %v", err))
		}
	}
	o.Op("SP "+hx(sig), "sp "+res)
}

// ---------------------------------------------------------------- ValidateBasic of decoded votes / proposals

func vbClass(err error) string {
	if err == nil {
		return "ok"
	}
	e := err.Error()
	switch {
	case strings.HasPrefix(e, "invalid Type"):
		return "type"
	case strings.HasPrefix(e, "wrong BlockID"), strings.HasPrefix(e, "blockID must be"), strings.HasPrefix(e, "expected a complete"):
		return "blockid"
	case strings.HasPrefix(e, "too many block parts"):
		return "parts"
	case strings.HasPrefix(e, "signature is missing"):
		return "nosig"
	}
	return "other"
}

func isZ(b []byte) bool {
	for _, x := range b {
		if x != 0 {
			return false
		}
	}
	return true
}

func caseValidate(o *out.Out, r *gen.Rand, c int) {
	o.Case(c, fmt.Sprintf("CASE %d validate", c))
	o.Count("case.validate")
	z := make([]byte, 32)
	for i := 0; i < 10; i++ {
		step = i
		isVote := r.Bool()
		m := genMsg(r, isVote)
		// block id shapes: zero, complete, and the three incomplete ones; totals around MaxBlockPartsCount
		switch r.Pick(2, 5, 1, 1, 1, 4) {
		case 0:
			m.b = bid{hash: z, phash: z}
		case 1:
			m.b = bid{hash: randHash(r), total: uint32(1 + r.Intn(5)), phash: randHash(r)}
		case 2:
			m.b = bid{hash: randHash(r), phash: z}
		case 3:
			m.b = bid{hash: z, total: pickU32(r), phash: z}
		case 4:
			m.b = bid{hash: z, phash: randHash(r)}
		case 5:
			m.b = bid{hash: randHash(r), total: []uint32{types.MaxBlockPartsCount - 1, types.MaxBlockPartsCount, types.MaxBlockPartsCount + 1, 1<<32 - 1, 0, 1}[r.Intn(6)], phash: randHash(r)}
			if r.Chance(1, 4) {
				m.b.phash = z
			}
		}
		if isVote {
			m.ty = []int32{1, 2, 1, 2, 1, 2, 1, 2, 0, 3, 32, -1, 33, 1 << 30}[r.Intn(14)]
		}
		sig := r.Bytes([]int{0, 0, 1, 64, 65, 65, 66}[r.Intn(7)])
		if r.Chance(1, 8) {
			sig = nil
		}
		hz, pz := isZ(m.b.hash), isZ(m.b.phash)
		zero := hz && m.b.total == 0 && pz
		complete := !hz && !(m.b.total == 0 && pz)
		var err, perr error
		if isVote {
			v := m.vote(addrs[0], sig)
			pan := catch(func() {
				err = v.ValidateBasic()
				_, perr = types.VoteFromProto(v.ToProto())
			})
			res := vbClass(err)
			want := "ok"
			switch {
			case m.ty != 1 && m.ty != 2:
				want = "type"
			case !zero && !complete:
				want = "blockid"
			case len(sig) == 0:
				want = "nosig"
			}
			if pan {
				res = "PANIC"
				o.Fail(step, "validate-panic", "Vote.ValidateBasic / VoteFromProto panicked on "+m.voteTok())
			} else {
				if res != want {
					o.Fail(step, "validate-basic-rule", fmt.Sprintf("Vote.ValidateBasic = %s (%v), want %s: type=%d %s siglen=%d", res, err, want, m.ty, m.bidTok(), len(sig)))
				}
				if (perr == nil) != (err == nil) {
					o.Fail(step, "fromproto-differs", fmt.Sprintf("VoteFromProto(ToProto()) error %v but ValidateBasic %v", perr, err))
				}
			}
			o.Count("validate.vote." + res)
			o.Op(fmt.Sprintf("VC %d %s %d", m.ty, m.bidTok(), len(sig)), "vc "+res)
		} else {
			p := m.proposal(sig)
			pan := catch(func() {
				err = p.ValidateBasic()
				_, perr = types.ProposalFromProto(p.ToProto())
			})
			res := vbClass(err)
			want := "ok"
			switch {
			case !complete:
				want = "blockid"
			case m.b.total > types.MaxBlockPartsCount:
				want = "parts"
			case len(sig) == 0:
				want = "nosig"
			}
			if pan {
				res = "PANIC"
				o.Fail(step, "validate-panic", "Proposal.ValidateBasic / ProposalFromProto panicked on "+m.propTok())
			} else {
				if res != want {
					o.Fail(step, "validate-basic-rule", fmt.Sprintf("Proposal.ValidateBasic = %s (%v), want %s: %s siglen=%d", res, err, want, m.bidTok(), len(sig)))
				}
				if (perr == nil) != (err == nil) {
					o.Fail(step, "fromproto-differs", fmt.Sprintf("ProposalFromProto(ToProto()) error %v but ValidateBasic %v", perr, err))
				}
			}
			o.Count("validate.proposal." + res)
			o.Op(fmt.Sprintf("PC %s %d", m.bidTok(), len(sig)), "pc "+res)
		}
	}
	// signer selection: MakeSigner / LatestSigner / LatestSignerForChainID around the fork block
	optU := func(p *uint64) string {
		if p == nil {
			return "nil"
		}
		return fmt.Sprint(*p)
	}
	optB := func(b *big.Int) string {
		if b == nil {
			return "nil"
		}
		return b.String()
	}
	sgTok := func(sg types.Signer) string {
		switch x := sg.(type) {
		case types.HomesteadSigner:
			return "H"
		case types.ChainIDSigner:
			return "C:" + x.ChainID().String()
		}
		return "other"
	}
	for i := 0; i < 6; i++ {
		step = 50 + i
		var chain *big.Int
		if !r.Chance(1, 5) {
			chain, _ = new(big.Int).SetString(chainIDs[r.Intn(len(chainIDs))], 10)
		}
		var fork, head *uint64
		if !r.Chance(1, 5) {
			f := pickU64(r)
			fork = &f
		}
		if !r.Chance(1, 6) {
			h := pickU64(r)
			if fork != nil && r.Chance(2, 3) { // at / next to the fork block
				h = *fork + uint64(r.Intn(3)) - 1
			}
			head = &h
		}
		cfg := &configs.ChainConfig{ChainID: chain, GalaxiasBlock: fork}
		var ms, ls, lc types.Signer
		if catch(func() { ms = types.MakeSigner(cfg, head); ls = types.LatestSigner(cfg); lc = types.LatestSignerForChainID(chain) }) {
			o.Fail(step, "signer-select-panic", fmt.Sprintf("MakeSigner/LatestSigner panicked: chain=%s fork=%s head=%s", optB(chain), optU(fork), optU(head)))
			continue
		}
		wantC := "C:0"
		if chain != nil {
			wantC = "C:" + chain.String()
		}
		want := "H"
		if fork != nil && head != nil && *fork <= *head {
			want = wantC
		}
		if got := sgTok(ms); got != want {
			o.Fail(step, "signer-select", fmt.Sprintf("MakeSigner(chain=%s, fork=%s, head=%s) = %s, want %s (replay protection from the fork block on)", optB(chain), optU(fork), optU(head), got, want))
		}
		want = "H"
		if chain != nil && fork != nil {
			want = wantC
		}
		if got := sgTok(ls); got != want {
			o.Fail(step, "signer-select", fmt.Sprintf("LatestSigner(chain=%s, fork=%s) = %s, want %s", optB(chain), optU(fork), got, want))
		}
		want = "H"
		if chain != nil {
			want = wantC
		}
		if got := sgTok(lc); got != want {
			o.Fail(step, "signer-select", fmt.Sprintf("LatestSignerForChainID(%s) = %s, want %s", optB(chain), got, want))
		}
		o.Count("select." + sgTok(ms)[:1])
		o.Op(fmt.Sprintf("MS %s %s %s", optB(chain), optU(fork), optU(head)), fmt.Sprintf("ms %s %s %s", sgTok(ms), sgTok(ls), sgTok(lc)))
	}
	o.Mark(fmt.Sprintf("validate|%d", c%61))
}

func main() {
	out.WriteFacts(func() string {
		return fmt.Sprintf("From Coq Require Import ZArith NArith.\nDefinition secp256k1_n : N := %s%%N.\nDefinition signature_length : N := %d%%N.\nDefinition prevote_type : Z := %d%%Z.\nDefinition precommit_type : Z := %d%%Z.\nDefinition proposal_type : Z := %d%%Z.\nDefinition max_block_parts_count : N := %d%%N.\n",
			crypto.S256().Params().N, crypto.SignatureLength, int32(kproto.PrevoteType), int32(kproto.PrecommitType), int32(kproto.ProposalType), uint64(types.MaxBlockPartsCount))
	})
	o := out.Open()
	o.Rule = "a case is one signed message (vote, proposal or transaction) with its whole single-field mutation matrix, or one batch of structured signature shapes / proto-level encodings; non-trivial = every vote/proposal/tx case (each runs >= 15 mutations against a real signature); distinct by (kind, type, field bit lengths, zero-block-id, chain length / signer, applicable-mutation string)"
	root := gen.New(*out.Seed)
	for i := 0; i < 6; i++ {
		k, err := crypto.ToECDSA(crypto.Keccak256([]byte(fmt.Sprintf("verif-c11-key-%d", i))))
		if err != nil {
			panic(err)
		}
		keys = append(keys, k)
		a := crypto.PubkeyToAddress(k.PublicKey)
		addrs = append(addrs, a)
		known[a] = true
	}
	for c := 0; c < *out.N; c++ {
		if !out.Want(c) {
			continue
		}
		r := root.Fork(uint64(c))
		step = 0
		switch r.Pick(12, 10, 14, 2, 2, 1, 2) {
		case 0:
			caseMsg(o, r, c, true)
		case 1:
			caseMsg(o, r, c, false)
		case 2:
			caseTx(o, r, c)
		case 3:
			caseShapes(o, r, c)
		case 4:
			caseProtoLevel(o, r, c)
		case 5:
			caseDualEvent(o, r, c)
		case 6:
			caseValidate(o, r, c)
		}
	}
	o.Close()
}
