// C02 harness, HeightVoteSet family: drives the real consensus/types.HeightVoteSet (one prevote and one
// precommit VoteSet per round, SetRound, AddVote with at most two catch-up rounds per peer, SetPeerMaj23,
// POLInfo) and evaluates directly: every per-round vote set satisfies the vote-set oracles, POLInfo names
// the LATEST round <= hvs.round whose prevotes really hold +2/3 for that exact block id (independent tally
// over the valid prevotes offered for that round), a peer never opens more than two rounds.
package main

import (
	"fmt"
	"math/big"
	"sort"
	"strings"
	"time"

	cstypes "github.com/kardiachain/go-kardia/consensus/types"
	"github.com/kardiachain/go-kardia/lib/log"
	"github.com/kardiachain/go-kardia/lib/p2p"
	kproto "github.com/kardiachain/go-kardia/proto/kardiachain/types"
	"github.com/kardiachain/go-kardia/types"

	"verif/harness/internal/gen"
	"verif/harness/internal/out"
)

type rkey struct {
	round uint32
	ty    kproto.SignedMsgType
}

func peerName(p int) p2p.ID {
	if p == 0 {
		return "" // by convention: self
	}
	return p2p.ID(fmt.Sprintf("peer%d", p))
}

var polHung = false // set once POLInfo hung: the remaining HeightVoteSet cases are skipped (their goroutines would pile up)

func runHVSCase(o *out.Out, r *gen.Rand, c int) {
	vset, powers, keyOf, total := genValSet(o, r)
	if polHung {
		return
	}
	n := vset.Size()
	chain := chains[1]
	height := uint64(1 + r.Intn(5))
	caseHeader(o, c, chain, height, 0, 0, vset)
	var hvs *cstypes.HeightVoteSet
	if catch(func() { hvs = cstypes.NewHeightVoteSet(log.New(), chain, height, vset) }) {
		o.Op("HNEW", "h PANIC")
		o.Fail(0, "hvs-panic", "NewHeightVoteSet panicked")
		return
	}
	cur := uint32(1)      // hvs.round as the calls so far imply
	maxRound := uint32(1) // highest round ever mentioned
	tracks := map[rkey]*vsTrack{}
	opened := map[int]int{} // peer -> rounds it opened through AddVote
	track := func(k rkey) *vsTrack {
		if tracks[k] == nil {
			tracks[k] = newTrack(vset, total, k.ty)
		}
		return tracks[k]
	}
	getSet := func(k rkey) *types.VoteSet {
		if k.ty == kproto.PrevoteType {
			return hvs.Prevotes(k.round)
		}
		return hvs.Precommits(k.round)
	}
	step := 0
	// POLInfo under a watchdog: a scan that does not come back (a loop bound slipping below zero wraps
	// around to 2^32 iterations) is reported instead of stalling the run
	hung := false
	polInfo := func() (uint32, types.BlockID) {
		if hung || polHung {
			return 0, types.BlockID{}
		}
		type res struct {
			r uint32
			b types.BlockID
		}
		ch := make(chan res, 1)
		go func() {
			r, b := hvs.POLInfo()
			ch <- res{r, b}
		}()
		select {
		case x := <-ch:
			return x.r, x.b
		case <-time.After(10 * time.Second):
			hung, polHung = true, true
			o.Fail(step, "pol-hang", "POLInfo did not return within 10 s")
			return 0, types.BlockID{}
		}
	}
	digest := func() string {
		rounds := []string{}
		majs := []string{}
		for rd := uint32(0); rd <= maxRound+1; rd++ {
			pv, pc := hvs.Prevotes(rd), hvs.Precommits(rd)
			if (pv == nil) != (pc == nil) {
				o.Fail(step, "hvs-round-half", fmt.Sprintf("round %d has only one of its two vote sets", rd))
			}
			if pv == nil || pc == nil {
				continue
			}
			if pv.GetRound() != rd || pc.GetRound() != rd || pv.GetHeight() != height || pc.GetHeight() != height ||
				pv.Type() != kproto.PrevoteType || pc.Type() != kproto.PrecommitType {
				o.Fail(step, "hvs-round-mislabelled", fmt.Sprintf("the vote sets of round %d carry another height, round or type", rd))
			}
			rounds = append(rounds, fmt.Sprint(rd))
			ms := func(vs *types.VoteSet) string {
				if m, ok := vs.TwoThirdsMajority(); ok {
					return bidObs(m)
				}
				return "-"
			}
			majs = append(majs, fmt.Sprintf("%d:%s/%s", rd, ms(pv), ms(pc)))
		}
		polR, polB := polInfo()
		return fmt.Sprintf("R=%d rounds=%s pol=%d:%s maj=%s", cur, strings.Join(rounds, ","), polR, bidObs(polB), strings.Join(majs, ";"))
	}
	polOracle := func() {
		polR, polB := polInfo()
		if hung {
			return
		}
		if polR > cur {
			o.Fail(step, "pol-beyond-round", fmt.Sprintf("POLInfo names round %d beyond the tracked round %d", polR, cur))
		}
		if polR > 0 {
			t := track(rkey{polR, kproto.PrevoteType})
			if p := t.powerOf(t.validFor(polB)); !t.gt23(p) {
				o.Fail(step, "pol-unsound", fmt.Sprintf("POLInfo=(%d,%s) but the valid distinct prevoters of that id in that round hold %s of %s", polR, bidObs(polB), p, total))
			}
		} else if !polB.IsZero() {
			o.Fail(step, "pol-unsound", "POLInfo names no round but a block id")
		}
		for rd := cur; rd >= 1 && rd > polR; rd-- {
			if pv := hvs.Prevotes(rd); pv != nil {
				if _, ok := pv.TwoThirdsMajority(); ok {
					o.Fail(step, "pol-not-latest", fmt.Sprintf("POLInfo names round %d but the prevotes of the later round %d (<= %d) have a majority", polR, rd, cur))
				}
			}
			// completeness against the independent tally: first valid prevotes of that round
			t := tracks[rkey{rd, kproto.PrevoteType}]
			if t == nil {
				continue
			}
			byb := map[string]map[int]bool{}
			for i, b := range t.firstValid {
				k := bidObs(*b)
				if byb[k] == nil {
					byb[k] = map[int]bool{}
				}
				byb[k][i] = true
			}
			for k, set := range byb {
				if t.gt23(t.powerOf(set)) {
					o.Fail(step, "pol-incomplete", fmt.Sprintf("+2/3 gave their first valid prevote of round %d for %s but POLInfo names round %d", rd, k, polR))
				}
			}
		}
	}
	o.Op("HNEW", "h "+digest())
	if hung {
		return
	}
	opKinds, outcome := "", ""
	mainB := 1 + r.Intn(2)
	nops := 4 + r.Intn(5*n+10)
	if n > 60 {
		nops = n + r.Intn(n)
	}
	pickRound := func() uint32 {
		switch r.Pick(12, 3, 3, 2, 1, 1) {
		case 1:
			if cur > 0 {
				return cur - 1
			}
		case 2:
			return cur + 1
		case 3:
			return cur + 2
		case 4:
			return cur + 3 + uint32(r.Intn(3))
		case 5:
			return 0
		}
		return cur
	}
	for k := 0; k < nops && !hung; k++ {
		step = k
		switch r.Pick(20, 3, 2) {
		case 0: // AddVote
			rd := pickRound()
			if rd > maxRound {
				maxRound = rd
			}
			ty := kproto.PrevoteType
			if r.Chance(2, 5) {
				ty = kproto.PrecommitType
			}
			peer := r.Pick(2, 3, 2, 1)
			v, _, validRouted, idx, mut := genVoteR(r, vset, keyOf, chain, height, rd, ty, mainB)
			if v.Round > maxRound {
				maxRound = v.Round
			}
			// (a vote signed for the neighbouring round or the other type is a valid vote of THAT vote set)
			badType := r.Chance(1, 25)
			if badType {
				v.Type = kproto.SignedMsgType([]int32{0, 3, 32}[r.Intn(3)])
				validRouted = false
			}
			o.Count(fmt.Sprintf("hvs.vote.mut%d", mut))
			key := rkey{v.Round, v.Type}
			existed := badType || getSet(key) != nil
			before := ""
			if !badType && existed {
				before = vsObs(getSet(key), n)
			}
			var added bool
			var err error
			pan := catch(func() { added, err = hvs.AddVote(v, peerName(peer)) })
			in := fmt.Sprintf("HV %d %s", peer, voteTokens(v))
			if pan {
				o.Op(in, "hv PANIC")
				o.Fail(step, "hvs-panic", "HeightVoteSet.AddVote panicked")
				return
			}
			ec := errClass(err)
			obs := fmt.Sprintf("hv %s %s %s", b01(added), ec, digest())
			if hung {
				o.Op(in, obs+" | HANG")
				return
			}
			outcome += ec[:1]
			var touched *types.VoteSet
			if !badType {
				touched = getSet(key)
			}
			if touched != nil {
				obs += " | " + vsObs(touched, n)
			} else {
				obs += " | none"
			}
			// catch-up accounting: a round opened by this call is charged to the peer, at most two each
			if !existed && touched != nil {
				opened[peer]++
				o.Count("hvs.catchup.opened")
				if opened[peer] > 2 {
					o.Fail(step, "catchup-unbounded", fmt.Sprintf("peer %d opened a %d-th round through AddVote", peer, opened[peer]))
				}
			}
			if ec == "unwanted" {
				o.Count("hvs.catchup.refused")
				if existed || opened[peer] < 2 || touched != nil {
					o.Fail(step, "unwanted-wrong", fmt.Sprintf("vote refused as from an unwanted round although the round exists or the peer opened only %d rounds", opened[peer]))
				}
			}
			if badType && ec != "niltype" {
				o.Fail(step, "hvs-bad-type-accepted", "a vote of an invalid type was not refused with ErrNilVoteType")
			}
			if ec != "niltype" && ec != "unwanted" && touched != nil {
				t := track(key)
				if validRouted {
					t.offer(idx, v.BlockID)
				}
				if existed {
					voteOracle(o, step, validRouted, added, ec, before, vsObs(touched, n))
				} else if !validRouted && added {
					o.Fail(step, "invalid-vote-added", "an invalid vote was added")
				}
				t.check(o, step, touched)
				if _, ok := touched.TwoThirdsMajority(); ok {
					outcome += "M"
				}
			} else if validRouted && ec != "unwanted" {
				o.Fail(step, "valid-vote-rejected", "a valid vote reached no vote set: "+ec)
			}
			opKinds += "v"
			o.Op(in, obs)
		case 1: // SetRound
			nr := cur
			switch r.Pick(3, 6, 2, 2, 1, 1) {
			case 1:
				nr = cur + 1
			case 2:
				nr = cur + 2
			case 3:
				if cur > 0 {
					nr = cur - 1 // allowed: one step back (and 0 from round 1)
				}
			case 4:
				if cur > 2 {
					nr = cur - 2 // must panic
				}
			case 5:
				nr = cur + 3 + uint32(r.Intn(3))
			}
			if nr > maxRound {
				maxRound = nr
			}
			pan := catch(func() { hvs.SetRound(nr) })
			opKinds += "r"
			o.Count("hvs.setround")
			if pan {
				o.Count("hvs.setround.panic")
				o.Op(fmt.Sprintf("HR %d", nr), "hr PANIC")
				outcome += "P"
				k = nops // the history ends at a panic
				continue
			}
			cur = nr
			d := digest()
			o.Op(fmt.Sprintf("HR %d", nr), "hr "+d)
			if hung {
				return
			}
		case 2: // SetPeerMaj23
			rd := pickRound()
			if rd > maxRound {
				maxRound = rd
			}
			ty := []int32{1, 2, 1, 2, 1, 2, 0, 3}[r.Intn(8)]
			peer := 1 + r.Intn(3)
			b := pool[r.Intn(7)]
			var err error
			pan := catch(func() { err = hvs.SetPeerMaj23(rd, kproto.SignedMsgType(ty), peerName(peer), b) })
			in := fmt.Sprintf("HP %d %d %d %s", rd, ty, peer, bidStr(b))
			opKinds += "p"
			o.Count("hvs.peermaj")
			if pan {
				o.Op(in, "hp PANIC")
				o.Fail(step, "hvs-panic", "HeightVoteSet.SetPeerMaj23 panicked")
				return
			}
			obs := fmt.Sprintf("hp %s %s", b01(err != nil), digest())
			if hung {
				o.Op(in, obs+" | HANG")
				return
			}
			if ty == 1 || ty == 2 {
				if s := getSet(rkey{rd, kproto.SignedMsgType(ty)}); s != nil {
					obs += " | " + vsObs(s, n)
					track(rkey{rd, kproto.SignedMsgType(ty)}).check(o, step, s)
				} else {
					obs += " | none"
				}
			} else {
				obs += " | none"
				if err == nil {
					o.Fail(step, "hvs-bad-type-accepted", "SetPeerMaj23 accepted an invalid vote type")
				}
			}
			o.Op(in, obs)
		}
		polOracle()
	}
	if hung {
		return
	}
	// every tracked set once more at the end (sets not touched by the last ops)
	keys := []rkey{}
	for k := range tracks {
		keys = append(keys, k)
	}
	sort.Slice(keys, func(i, j int) bool {
		if keys[i].round != keys[j].round {
			return keys[i].round < keys[j].round
		}
		return keys[i].ty < keys[j].ty
	})
	for _, k := range keys {
		if s := getSet(k); s != nil {
			tracks[k].check(o, step, s)
		}
	}
	if strings.ContainsAny(outcome, "MPucsnia") {
		o.Mark(fmt.Sprintf("hvs|%v|%s|%s", powers, opKinds, outcome))
	}
	_ = big.NewInt
}
